/-
  C06 (stretch 3) — the EXTRA COLUMNS of the terms after a replacement (`_extend_extra_fields`: `mergeLabels`,
  `padRow`, `matchRow`).  The property itself does not mention them; the check's oracle recognises terms by them.
-/
import MofunModel.Props.C06
import MofunModel.Proofs.ReplaceTermsExtras

namespace Mofun.C06
open Mofun

/-- a successful replacement = the whole-term loop invariant + one delete -/
theorem replace_unfold_extras (s p r res : Atoms) (ms : List PlacedMatch) (ra ig : Bool) (hne : r.atoms ≠ [])
    (h : replaceCore s p r ms ra ig = .ok res) :
    ∃ st, FoldInvX s r (p0Of p) (unchangedPairs r p) ra ms st
      ∧ st.s.delete (delOf (unchangedPairs r p) ra ms) = .ok res := by
  have hne' : r.atoms.isEmpty = false := by simpa using hne
  rw [replaceCore_nonempty s p r ms ra ig hne'] at h
  cases hf : ms.foldl (stepR s r (p0Of p) (unchangedPairs r p) (s.extendTypes r).2 ra ig)
      (.ok { s := (s.extendTypes r).1, del := [] }) with
  | error e => rw [hf] at h; cases h
  | ok st =>
    rw [hf] at h
    have hI := foldInvX_all s p r ms ra ig st hf
    refine ⟨st, hI, ?_⟩
    rw [← hI.1.del]; exact h

/-- **replace_term_extras.**  After a replacement with at least one replaced match, for every term kind `κ`:
    * the extra-column labels are the structure's labels followed by the pattern's new ones (`mergeLabels`);
    * the terms are, in this order, the original terms that touch no removed atom and are not overridden — each with
      its own extra values, widened with "." to the merged width (`padRow`) — followed by pattern terms, each of which
      is the image of a term `u` of `r` for one replaced match with `u`'s extra values laid out under the merged labels
      (`matchRow`, "." where `r` has no such column). -/
theorem replace_term_extras (κ : Kind) (s p r res : Atoms) (ms : List PlacedMatch) (ra ig : Bool) (hne : r.atoms ≠ [])
    (hms : ms ≠ []) (h : replaceCore s p r ms ra ig = .ok res) :
    let L := mergeLabels (κ.get s).xlabels (κ.get r).xlabels
    let del := delOf (unchangedPairs r p) ra ms
    (κ.get res).xlabels = L
    ∧ ∃ newPart : List Term,
        (κ.get res).terms =
          ((κ.get s).terms.filter (fun t => survives del t.atoms && notOverridden (patternSigs κ s p r ra ms) (sig t))).map
            (fun t => ({ atoms := t.atoms.map (reindex (sortDesc del)), ty := t.ty, extra := padRow t.extra L.length } : Term))
          ++ newPart
        ∧ ∀ t' ∈ newPart, ∃ pre m post u, ms = pre ++ m :: post ∧ u ∈ (κ.get r).terms
            ∧ t' = ({ atoms := (u.atoms.map (imgAt r (unchangedPairs r p) ra
                        (s.atoms.length + pre.length * nAdd r (unchangedPairs r p) ra) m)).map (reindex (sortDesc del)),
                      ty := u.ty + numTermTypes (κ.get s),
                      extra := matchRow L (κ.get r).xlabels u.extra } : Term) := by
  intro L del
  obtain ⟨st, ⟨hI, hX⟩, hd⟩ := replace_unfold_extras s p r res ms ra ig hne h
  obtain ⟨hT, hXl⟩ := hX κ
  constructor
  · rw [delete_kind_xlabels κ _ _ _ hd, hXl]; simp [hms]; rfl
  · obtain ⟨m0, ms', rfl⟩ := List.exists_cons_of_ne_nil hms
    have hnt : ntFrom κ s r (unchangedPairs r p) ra s.atoms.length (m0 :: ms')
        = newTerms κ s r (unchangedPairs r p) ra s.atoms.length m0
          :: ntFrom κ s r (unchangedPairs r p) ra (s.atoms.length + nAdd r (unchangedPairs r p) ra) ms' := rfl
    have happ := specT_append (mergedX κ s r).length
      (ntFrom κ s r (unchangedPairs r p) ra (s.atoms.length + nAdd r (unchangedPairs r p) ra) ms')
      (κ.get s).terms [] (newTerms κ s r (unchangedPairs r p) ra s.atoms.length m0)
    rw [List.append_nil, ← hnt] at happ
    have hres := (delete_kind κ _ _ _ hd).1
    rw [hres, delete_terms_eq, hT, happ, List.filter_append, List.map_append]
    refine ⟨((specT (mergedX κ s r).length [] (ntFrom κ s r (unchangedPairs r p) ra s.atoms.length (m0 :: ms'))).filter
        (fun t => decide (t.survives (delOf (unchangedPairs r p) ra (m0 :: ms'))))).map
          (fun t => { t with atoms := t.atoms.map (reindex (sortDesc (delOf (unchangedPairs r p) ra (m0 :: ms')))) }),
      ?_, ?_⟩
    · congr 1
      rw [List.filter_map, List.map_map, List.filter_filter]
      apply congr
      · apply congrArg
        funext t
        rfl
      · apply List.filter_congr
        intro t _
        have h1 : decide ((padTerm (mergedX κ s r).length t).survives del) = survives del t.atoms := by
          rw [Bool.eq_iff_iff, decide_eq_true_eq, survives_iff]; rfl
        have h2 : (ntFrom κ s r (unchangedPairs r p) ra s.atoms.length (m0 :: ms')).all
            (fun N' => !sup (N'.map (·.atoms)) t.atoms) = notOverridden (patternSigs κ s p r ra (m0 :: ms')) (sig t) := by
          unfold notOverridden patternSigs
          rw [← ntFrom_sig, List.all_map]
          congr 1
          funext N'
          simp only [Function.comp, List.map_map, sig]
          rfl
        simp only [Function.comp]
        rw [h1, h2]
    · intro t' ht'
      obtain ⟨t0, ht0, rfl⟩ := List.mem_map.mp ht'
      have ht0' := (List.mem_filter.mp ht0).1
      have hfix : ∀ N ∈ ntFrom κ s r (unchangedPairs r p) ra s.atoms.length (m0 :: ms'), ∀ t ∈ N,
          padTerm (mergedX κ s r).length t = t := by
        intro N hN t ht
        obtain ⟨_, _, _, _, e⟩ := mem_ntFrom κ s r _ ra _ _ N hN
        rw [e] at ht
        obtain ⟨u, _, rfl⟩ := List.mem_map.mp ht
        exact padTerm_newTerm _ _ _ _ u
      obtain ⟨N, hN, htN⟩ := mem_specT_nil (mergedX κ s r).length _ hfix []
        (ntFrom κ s r (unchangedPairs r p) ra s.atoms.length (m0 :: ms')) (fun N hN => hN)
        (by intro t ht; simp at ht) t0 ht0'
      obtain ⟨pre, m, post, e1, e2⟩ := mem_ntFrom κ s r _ ra _ _ N hN
      rw [e2] at htN
      obtain ⟨u, hu, rfl⟩ := List.mem_map.mp htN
      exact ⟨pre, m, post, u, e1, hu, rfl⟩

/-! ### non-vacuity: bonds with an extra column on both sides -/

def exSx : Atoms := { exS with bonds := { exS.bonds with
    terms := [⟨[0, 1], 0, ["s1"]⟩, ⟨[1, 2], 1, ["s2"]⟩, ⟨[3, 4], 1, ["s3"]⟩, ⟨[0, 3], 0, ["s4"]⟩], xlabels := ["_tag"] } }

def exRx : Atoms := { exR with bonds := { exR.bonds with
    terms := [⟨[1, 0], 0, ["r1", "n1"]⟩, ⟨[2, 0], 1, ["r2", "n2"]⟩], xlabels := ["_tag", "_note"] } }

/-- merged labels `_tag, _note`; surviving original bonds padded with ".", pattern bonds keep both values -/
example : (match replaceCore exSx exP exRx [exM] false false with
      | .ok res => some (res.bonds.xlabels, res.bonds.terms)
      | .error _ => none)
    = some (["_tag", "_note"], [⟨[2, 3], 1, ["s3", "."]⟩, ⟨[0, 2], 0, ["s4", "."]⟩, ⟨[1, 0], 2, ["r1", "n1"]⟩,
                                ⟨[4, 0], 3, ["r2", "n2"]⟩]) := by decide +kernel

example : exRx.atoms ≠ [] ∧ ([exM] : List PlacedMatch) ≠ [] := by decide

end Mofun.C06
