/-
  C05Code5.lean — the placement lines of `replace_pattern_in_structure` (mofun/mofun.py), re-translated from the python source
  text on every run by harness/gen_code.py (Generated/Code.lean, fifth batch) and tied to `placeAtoms` (Model/Replace.lean) and
  `Mat3.wrap` (Model/Lattice.lean), the functions the C05 theorems are about:

    replace_pattern.translate(-search_pattern.positions[0])                                   = `row.pos − p0` of placeAtoms (p0 = the ORIGINAL first
    search_pattern.translate(-search_pattern.positions[0])                                      search atom: the order of the two lines matters)
    Atoms.translate (mofun/atoms.py): self.positions += delta                                 = Vec3.add, one row
    new_atoms.positions = (new_atoms.positions.dot(np.linalg.inv(cell)) % 1.0).dot(cell)     = Mat3.wrap   (one atom; inverse = adjugate / det)
-/
import MofunModel.Generated.Code
import MofunModel.Model.Replace
import Mathlib.Tactic.Ring

namespace Mofun.C05Code5
open Mofun Mofun.Generated
set_option linter.unusedSimpArgs false

/-! ### the wrap into the cell (item 6) -/

theorem fmod1_eq (x : Rat) : Py.fmod1 x = fracPart x := rfl

/-- for ALL cells and ALL positions: the translated wrap line is the model's `Mat3.wrap` — fractional coordinates by the inverse
    cell, each reduced modulo 1 into `[0, 1)`, back to Cartesian coordinates -/
theorem replaceWrap_eq (c : Mat3) (v : Vec3) : Generated.Code.replaceWrap v c = c.wrap v := by
  unfold Generated.Code.replaceWrap Mat3.wrap Mat3.cart Mat3.lattice Mat3.frac Mat3.det Vec3.dot Vec3.cross Vec3.add Vec3.smul
  simp only [fmod1_eq]
  congr 5 <;> ring

/-! ### the two pre-translations (item 5) -/

/-- `Atoms.translate` for one atom: the row moves by `delta` (nothing happens to an empty structure) -/
theorem atomsTranslate_eq (p d : Vec3) (n : Nat) : Generated.Code.atomsTranslate p n d = if n > 0 then Vec3.add p d else p := by
  unfold Generated.Code.atomsTranslate Vec3.add
  by_cases h : n > 0 <;> simp [h]

theorem add_neg_eq_sub (a b : Vec3) : Vec3.add a ⟨-b.x, -b.y, -b.z⟩ = Vec3.sub a b := by
  unfold Vec3.add Vec3.sub
  congr 1 <;> ring

/-- for ALL positions: after the two statements, IN THE ORDER OF THE SOURCE, a replace-pattern atom `rp` is at `rp − P[0]` with `P[0]` the
    ORIGINAL first search atom, the first search atom is at the origin and any other search atom `sp` at `sp − P[0]`.
    (With the two lines exchanged the replace pattern would be moved by the NEW first position, i.e. not at all: this theorem fails.) -/
theorem replacePretranslate_eq (sp0 sp rp : Vec3) (ns nr : Nat) (hs : 0 < ns) (hr : 0 < nr) :
    Generated.Code.replacePretranslate sp0 sp ns rp nr = (Vec3.sub rp sp0, Vec3.zero, Vec3.sub sp sp0) := by
  unfold Generated.Code.replacePretranslate
  simp only [atomsTranslate_eq, hs, hr, gt_iff_lt, if_true, add_neg_eq_sub]
  refine Prod.ext rfl (Prod.ext ?_ rfl)
  simp only [Vec3.sub, Vec3.zero]
  congr 1 <;> ring

/-- **tie to the model**: the position of the `k`-th atom `placeAtoms` inserts for a match is the translated pipeline —
    translated pre-translation of the replace atom by the first search atom, the match rotation (`rot`, model of `q.apply`: not
    translated), the translation to the first matched atom, the translated wrap -/
theorem placeAtoms_pos (c : Mat3) (p0 sp : Vec3) (np : Nat) (hp : 0 < np) (r : Atoms) (m : PlacedMatch) (k : Nat) (row : AtomRow)
    (h : r.atoms[k]? = some row) :
    ((placeAtoms (some c) p0 r m).atoms[k]?).map (·.pos) =
      some (Generated.Code.replaceWrap
        (Vec3.add (rot m.q (Generated.Code.replacePretranslate p0 sp np row.pos r.atoms.length).1) (m.pos.getD 0 Vec3.zero)) c) := by
  have hr : 0 < r.atoms.length := by
    rcases Nat.eq_zero_or_pos r.atoms.length with h0 | h0
    · rw [List.length_eq_zero_iff.mp h0] at h; cases h
    · exact h0
  rw [replacePretranslate_eq p0 sp row.pos np r.atoms.length hp hr, replaceWrap_eq]
  simp [placeAtoms, List.getElem?_map, h]

/-- a replace atom at (3, 1, 0), first search atom at (1, 1, 1), another search atom at (2, 0, 5) -/
example : Generated.Code.replacePretranslate ⟨1, 1, 1⟩ ⟨2, 0, 5⟩ 2 ⟨3, 1, 0⟩ 1 = (⟨2, 0, -1⟩, ⟨0, 0, 0⟩, ⟨1, -1, 4⟩) := by decide +kernel
/-- the point (11, −1, 3) is wrapped to (1, 9, 3) in a 10 Å cube; with a tilted b-vector (2, 10, 0) to (3, 9, 3) = v − A + B -/
example : Generated.Code.replaceWrap ⟨11, -1, 3⟩ ⟨⟨10, 0, 0⟩, ⟨0, 10, 0⟩, ⟨0, 0, 10⟩⟩ = ⟨1, 9, 3⟩ := by decide +kernel
example : Generated.Code.replaceWrap ⟨11, -1, 3⟩ ⟨⟨10, 0, 0⟩, ⟨2, 10, 0⟩, ⟨0, 0, 10⟩⟩ = ⟨3, 9, 3⟩ := by decide +kernel

end Mofun.C05Code5
