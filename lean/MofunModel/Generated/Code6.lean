/- GENERATED on every run by harness/gen_code6.py from the sources of /repo — do not edit.
   Python → Lean translation, batch 6 (container operations, bond detection, term enumeration); the supported subset is
   documented in gen_code.py and gen_code6.py.  `Mofun.Generated.Py6` is the fixed prelude of the primitives this batch adds;
   `Mofun.Generated.Code6` holds one definition per translated python function / fragment. -/
import MofunModel.Generated.Code

namespace Mofun.Generated.Py6
open Mofun Mofun.Generated

/-- numpy's reading of ONE python int as an index into an axis of length `n`: `0 ≤ i < n` is itself, `−n ≤ i < 0` is `n + i`,
    anything else is an IndexError (`none`) -/
def npIndex? (n : Nat) (i : Int) : Option Nat :=
  if 0 ≤ i ∧ i < (n : Int) then some i.toNat
  else if -(n : Int) ≤ i ∧ i < 0 then some (i + (n : Int)).toNat
  else none

/-- `np.delete(arr, idx, axis=0)` for a list of python ints: every index is read as numpy reads it, a row listed twice is
    removed once; `none` = IndexError (raised before anything is removed) -/
def npDeleteI? {α} (arr : List α) (idx : List Int) : Option (List α) :=
  match Py.listMapM? idx (npIndex? arr.length) with
  | none => none
  | some js => some (deleteIdx arr js)

/-- `np.take(arr, idx, axis=0)` for a list of python ints: the rows in the order (and with the repetitions) of `idx`;
    `none` = IndexError -/
def npTakeI? {α} (arr : List α) (idx : List Int) : Option (List α) :=
  Py.listMapM? idx (fun i => match npIndex? arr.length i with
    | none => none
    | some j => arr[j]?)

/-- python ints handed to a translation that is typed with naturals (atom ids, row indices); `none` = a negative entry,
    for which that translation has no meaning -/
def natList? (xs : List Int) : Option (List Nat) :=
  Py.listMapM? xs (fun i => if 0 ≤ i then some i.toNat else none)

/-- `np.array(np.meshgrid(xs, ys, zs)).T.reshape(-1, 3)` for three 1-D sequences: the rows `(x, y, z)` in the order numpy
    produces them — `meshgrid` (default `indexing='xy'`) gives three arrays of shape (len ys, len xs, len zs), `.T` reverses
    all axes of the stacked (3, ·, ·, ·) array, `reshape(-1, 3)` reads it row-major: z varies slowest, then x, then y -/
def meshgridT3 {α} (xs ys zs : List α) : List (α × α × α) :=
  zs.flatMap (fun k => xs.flatMap (fun i => ys.map (fun j => (i, j, k))))

/-- `rows[np.any(rows != 0, axis=1)]` on an (n, 3) array of naturals: the rows with a non-zero entry, in order -/
def rowsAnyNonzero3 (rows : List (Nat × Nat × Nat)) : List (Nat × Nat × Nat) :=
  rows.filter (fun m => m.1 != 0 || m.2.1 != 0 || m.2.2 != 0)

/-- `v + rows` for a 3-vector and an (n, 3) array (numpy broadcasting): `v` added to every row -/
def vecAddRows (v : Vec3) (rows : List Vec3) : List Vec3 := rows.map (fun o => Vec3.add v o)

/-- the result of `distance.cdist(rows, [b], "euclidean")`, an (n, 1) array of distances, kept as the SQUARED distances
    (no square root in the rational model); the translator gives it a type of its own so that nothing but `anyDistLt` reads it -/
structure SqDists where
  sq : List Rat

/-- `distance.cdist(rows, [b], "euclidean")`: entry k is `‖rows[k] − b‖`, stored as `‖rows[k] − b‖²` -/
def cdistSqCol (rows : List Vec3) (b : Vec3) : SqDists := ⟨rows.map (fun r => Vec3.normSq (Vec3.sub r b))⟩

/-- `np.any(ss < c)` for such a column: some distance is STRICTLY below `c`.  For reals `d ≥ 0`: `d < c ⟺ 0 < c ∧ d² < c²`;
    this is exactly that statement on the squares (no distance is below a cutoff `c ≤ 0`) -/
def anyDistLt (ss : SqDists) (c : Rat) : Bool := decide (0 < c) && ss.sq.any (fun d => decide (d < c * c))

/-- a networkx `Graph` built by `add_edges_from`: the edges added so far, in insertion order -/
structure NxGraph where
  edges : List (Nat × Nat)

/-- `nx.Graph()` -/
def nxEmpty : NxGraph := ⟨[]⟩
/-- `g.add_edges_from(bonds)` -/
def nxAddEdges (g : NxGraph) (bonds : List (Nat × Nat)) : NxGraph := ⟨g.edges ++ bonds⟩

/-- `list(g.nodes)`: the end points of the edges in first-seen order (dicts keep insertion order) -/
def nxNodes (g : NxGraph) : List Nat := dedup (g.edges.flatMap (fun e => [e.1, e.2]))

/-- `list(g.neighbors(n))` = `list(g.adj[n])`: the other end points of the edges that mention `n`, in insertion order, without
    repetition, direction ignored (a self-loop `(n, n)` puts `n` into its own list) -/
def nxNeighbors (g : NxGraph) (n : Nat) : List Nat :=
  dedup (g.edges.filterMap (fun e => if e.1 = n then some e.2 else if e.2 = n then some e.1 else none))

/-- networkx `EdgeView.__iter__` (`seen = {}; for n, nbrs in adjacency: for nbr in nbrs: if nbr not in seen: yield (n, nbr); seen[n] = 1`):
    `seen` = the nodes already completed -/
def nxEdgesFrom (g : NxGraph) : List Nat → List Nat → List (Nat × Nat)
  | [], _ => []
  | n :: rest, seen =>
      ((nxNeighbors g n).filter (fun m => !seen.contains m)).map (fun m => (n, m)) ++ nxEdgesFrom g rest (n :: seen)

/-- `list(g.edges)`: for every node `n` in the order of `g.nodes`, `(n, m)` for every neighbour `m` of `n` (in the order of `g.adj[n]`)
    that is not a node already completed — every undirected edge once, seen from its first-listed end point; a self-loop once, as `(n, n)` -/
def nxEdges (g : NxGraph) : List (Nat × Nat) := nxEdgesFrom g (nxNodes g) []

/-- `xs.remove(v)` on a list: the first occurrence of `v` is removed; `none` = ValueError (`v` is not in `xs`) -/
def listRemove? {α} [DecidableEq α] (xs : List α) (v : α) : Option (List α) :=
  if xs.contains v then some (xs.erase v) else none

/-- `list(dict.fromkeys(xs).keys())` = `list(dict.fromkeys(xs))`: the distinct values of `xs` in first-seen order (dicts keep
    insertion order; a key seen again keeps its first position) -/
def fromkeysList {α} [DecidableEq α] (xs : List α) : List α := dedup xs

/-- `xs.index(v)` on a list: the position of the first occurrence of `v`; `none` = ValueError (`v` is not in `xs`) -/
def listIndex? {α} [DecidableEq α] (xs : List α) (v : α) : Option Nat := indexOf? xs v

/-- `itertools.combinations(xs, 2)`: `(xs[i], xs[j])` for `i < j`, in lexicographic order of `(i, j)` -/
def combinations2 {α} : List α → List (α × α)
  | [] => []
  | x :: xs => xs.map (fun y => (x, y)) ++ combinations2 xs

end Mofun.Generated.Py6

namespace Mofun.Generated.Code6
open Mofun Mofun.Generated Mofun.Generated.Code

/-- translated from `__len__` in mofun/atoms.py class Atoms -/
def atomsLen (positions : List Vec3) : Nat :=
  (List.length positions)

/-- translated from `__delitem__` in mofun/atoms.py class Atoms: ((), then the new value of every attribute it assigns, in the order positions, atom_types, charges, groups, extra_atom_fields, then bonds, bond_types, extra_bond_fields and the same for angles, dihedrals, impropers); 2-D arrays are lists of rows; `none` = IndexError of np.delete / ZeroDivisionError; the final consistency assertion is not translated -/
def delitem (positions : List Vec3) (atom_types : List Nat) (charges : List Rat) (groups : List Int) (extra_atom_fields : List (List String)) (bonds : List (List Nat)) (bond_types : List Nat) (extra_bond_fields : List (List String)) (angles : List (List Nat)) (angle_types : List Nat) (extra_angle_fields : List (List String)) (dihedrals : List (List Nat)) (dihedral_types : List Nat) (extra_dihedral_fields : List (List String)) (impropers : List (List Nat)) (improper_types : List Nat) (extra_improper_fields : List (List String)) (indices : List Int) : Option (Unit × (List Vec3) × (List Nat) × (List Rat) × (List Int) × (List (List String)) × (List (List Nat)) × (List Nat) × (List (List String)) × (List (List Nat)) × (List Nat) × (List (List String)) × (List (List Nat)) × (List Nat) × (List (List String)) × (List (List Nat)) × (List Nat) × (List (List String))) := do
  let num_atoms : Nat := (atomsLen positions)
  let t1 ← (Py6.npDeleteI? positions indices)
  let positions' : List Vec3 := t1
  let t2 ← (Py6.npDeleteI? atom_types indices)
  let atom_types' : List Nat := t2
  let t3 ← (Py6.npDeleteI? charges indices)
  let charges' : List Rat := t3
  let t4 ← (Py6.npDeleteI? groups indices)
  let groups' : List Int := t4
  let t5 ← (Py6.npDeleteI? extra_atom_fields indices)
  let extra_atom_fields' : List (List String) := t5
  let t7 ← (Py.listMapM? indices (fun i => (do let t6 ← (Py.intMod? i ((num_atoms : Nat) : Int)); pure t6)))
  let sorted_indices : List Int := (Py.sortedDesc (dedup t7))
  if (List.length bonds) > 0 then
    let t8 ← (Py6.natList? sorted_indices)
    let unpacked1 : (List (List Nat)) × (List Nat) := (Code.deleteAndReindex bonds t8)
    let bonds' : List (List Nat) := unpacked1.1
    let arr_idx_to_delete : List Nat := unpacked1.2
    let bond_types' : List Nat := (Py.npDelete bond_types arr_idx_to_delete)
    let extra_bond_fields' : List (List String) := (Py.npDelete extra_bond_fields arr_idx_to_delete)
    if (List.length angles) > 0 then
      let t9 ← (Py6.natList? sorted_indices)
      let unpacked2 : (List (List Nat)) × (List Nat) := (Code.deleteAndReindex angles t9)
      let angles' : List (List Nat) := unpacked2.1
      let arr_idx_to_delete : List Nat := unpacked2.2
      let angle_types' : List Nat := (Py.npDelete angle_types arr_idx_to_delete)
      let extra_angle_fields' : List (List String) := (Py.npDelete extra_angle_fields arr_idx_to_delete)
      if (List.length dihedrals) > 0 then
        let t10 ← (Py6.natList? sorted_indices)
        let unpacked3 : (List (List Nat)) × (List Nat) := (Code.deleteAndReindex dihedrals t10)
        let dihedrals' : List (List Nat) := unpacked3.1
        let arr_idx_to_delete : List Nat := unpacked3.2
        let dihedral_types' : List Nat := (Py.npDelete dihedral_types arr_idx_to_delete)
        let extra_dihedral_fields' : List (List String) := (Py.npDelete extra_dihedral_fields arr_idx_to_delete)
        if (List.length impropers) > 0 then
          let t11 ← (Py6.natList? sorted_indices)
          let unpacked4 : (List (List Nat)) × (List Nat) := (Code.deleteAndReindex impropers t11)
          let impropers' : List (List Nat) := unpacked4.1
          let arr_idx_to_delete : List Nat := unpacked4.2
          let improper_types' : List Nat := (Py.npDelete improper_types arr_idx_to_delete)
          let extra_improper_fields' : List (List String) := (Py.npDelete extra_improper_fields arr_idx_to_delete)
          pure ((), positions', atom_types', charges', groups', extra_atom_fields', bonds', bond_types', extra_bond_fields', angles', angle_types', extra_angle_fields', dihedrals', dihedral_types', extra_dihedral_fields', impropers', improper_types', extra_improper_fields')
        else
          pure ((), positions', atom_types', charges', groups', extra_atom_fields', bonds', bond_types', extra_bond_fields', angles', angle_types', extra_angle_fields', dihedrals', dihedral_types', extra_dihedral_fields', impropers, improper_types, extra_improper_fields)
      else if (List.length impropers) > 0 then
        let t12 ← (Py6.natList? sorted_indices)
        let unpacked5 : (List (List Nat)) × (List Nat) := (Code.deleteAndReindex impropers t12)
        let impropers' : List (List Nat) := unpacked5.1
        let arr_idx_to_delete : List Nat := unpacked5.2
        let improper_types' : List Nat := (Py.npDelete improper_types arr_idx_to_delete)
        let extra_improper_fields' : List (List String) := (Py.npDelete extra_improper_fields arr_idx_to_delete)
        pure ((), positions', atom_types', charges', groups', extra_atom_fields', bonds', bond_types', extra_bond_fields', angles', angle_types', extra_angle_fields', dihedrals, dihedral_types, extra_dihedral_fields, impropers', improper_types', extra_improper_fields')
      else
        pure ((), positions', atom_types', charges', groups', extra_atom_fields', bonds', bond_types', extra_bond_fields', angles', angle_types', extra_angle_fields', dihedrals, dihedral_types, extra_dihedral_fields, impropers, improper_types, extra_improper_fields)
    else if (List.length dihedrals) > 0 then
      let t13 ← (Py6.natList? sorted_indices)
      let unpacked6 : (List (List Nat)) × (List Nat) := (Code.deleteAndReindex dihedrals t13)
      let dihedrals' : List (List Nat) := unpacked6.1
      let arr_idx_to_delete : List Nat := unpacked6.2
      let dihedral_types' : List Nat := (Py.npDelete dihedral_types arr_idx_to_delete)
      let extra_dihedral_fields' : List (List String) := (Py.npDelete extra_dihedral_fields arr_idx_to_delete)
      if (List.length impropers) > 0 then
        let t14 ← (Py6.natList? sorted_indices)
        let unpacked7 : (List (List Nat)) × (List Nat) := (Code.deleteAndReindex impropers t14)
        let impropers' : List (List Nat) := unpacked7.1
        let arr_idx_to_delete : List Nat := unpacked7.2
        let improper_types' : List Nat := (Py.npDelete improper_types arr_idx_to_delete)
        let extra_improper_fields' : List (List String) := (Py.npDelete extra_improper_fields arr_idx_to_delete)
        pure ((), positions', atom_types', charges', groups', extra_atom_fields', bonds', bond_types', extra_bond_fields', angles, angle_types, extra_angle_fields, dihedrals', dihedral_types', extra_dihedral_fields', impropers', improper_types', extra_improper_fields')
      else
        pure ((), positions', atom_types', charges', groups', extra_atom_fields', bonds', bond_types', extra_bond_fields', angles, angle_types, extra_angle_fields, dihedrals', dihedral_types', extra_dihedral_fields', impropers, improper_types, extra_improper_fields)
    else if (List.length impropers) > 0 then
      let t15 ← (Py6.natList? sorted_indices)
      let unpacked8 : (List (List Nat)) × (List Nat) := (Code.deleteAndReindex impropers t15)
      let impropers' : List (List Nat) := unpacked8.1
      let arr_idx_to_delete : List Nat := unpacked8.2
      let improper_types' : List Nat := (Py.npDelete improper_types arr_idx_to_delete)
      let extra_improper_fields' : List (List String) := (Py.npDelete extra_improper_fields arr_idx_to_delete)
      pure ((), positions', atom_types', charges', groups', extra_atom_fields', bonds', bond_types', extra_bond_fields', angles, angle_types, extra_angle_fields, dihedrals, dihedral_types, extra_dihedral_fields, impropers', improper_types', extra_improper_fields')
    else
      pure ((), positions', atom_types', charges', groups', extra_atom_fields', bonds', bond_types', extra_bond_fields', angles, angle_types, extra_angle_fields, dihedrals, dihedral_types, extra_dihedral_fields, impropers, improper_types, extra_improper_fields)
  else if (List.length angles) > 0 then
    let t16 ← (Py6.natList? sorted_indices)
    let unpacked9 : (List (List Nat)) × (List Nat) := (Code.deleteAndReindex angles t16)
    let angles' : List (List Nat) := unpacked9.1
    let arr_idx_to_delete : List Nat := unpacked9.2
    let angle_types' : List Nat := (Py.npDelete angle_types arr_idx_to_delete)
    let extra_angle_fields' : List (List String) := (Py.npDelete extra_angle_fields arr_idx_to_delete)
    if (List.length dihedrals) > 0 then
      let t17 ← (Py6.natList? sorted_indices)
      let unpacked10 : (List (List Nat)) × (List Nat) := (Code.deleteAndReindex dihedrals t17)
      let dihedrals' : List (List Nat) := unpacked10.1
      let arr_idx_to_delete : List Nat := unpacked10.2
      let dihedral_types' : List Nat := (Py.npDelete dihedral_types arr_idx_to_delete)
      let extra_dihedral_fields' : List (List String) := (Py.npDelete extra_dihedral_fields arr_idx_to_delete)
      if (List.length impropers) > 0 then
        let t18 ← (Py6.natList? sorted_indices)
        let unpacked11 : (List (List Nat)) × (List Nat) := (Code.deleteAndReindex impropers t18)
        let impropers' : List (List Nat) := unpacked11.1
        let arr_idx_to_delete : List Nat := unpacked11.2
        let improper_types' : List Nat := (Py.npDelete improper_types arr_idx_to_delete)
        let extra_improper_fields' : List (List String) := (Py.npDelete extra_improper_fields arr_idx_to_delete)
        pure ((), positions', atom_types', charges', groups', extra_atom_fields', bonds, bond_types, extra_bond_fields, angles', angle_types', extra_angle_fields', dihedrals', dihedral_types', extra_dihedral_fields', impropers', improper_types', extra_improper_fields')
      else
        pure ((), positions', atom_types', charges', groups', extra_atom_fields', bonds, bond_types, extra_bond_fields, angles', angle_types', extra_angle_fields', dihedrals', dihedral_types', extra_dihedral_fields', impropers, improper_types, extra_improper_fields)
    else if (List.length impropers) > 0 then
      let t19 ← (Py6.natList? sorted_indices)
      let unpacked12 : (List (List Nat)) × (List Nat) := (Code.deleteAndReindex impropers t19)
      let impropers' : List (List Nat) := unpacked12.1
      let arr_idx_to_delete : List Nat := unpacked12.2
      let improper_types' : List Nat := (Py.npDelete improper_types arr_idx_to_delete)
      let extra_improper_fields' : List (List String) := (Py.npDelete extra_improper_fields arr_idx_to_delete)
      pure ((), positions', atom_types', charges', groups', extra_atom_fields', bonds, bond_types, extra_bond_fields, angles', angle_types', extra_angle_fields', dihedrals, dihedral_types, extra_dihedral_fields, impropers', improper_types', extra_improper_fields')
    else
      pure ((), positions', atom_types', charges', groups', extra_atom_fields', bonds, bond_types, extra_bond_fields, angles', angle_types', extra_angle_fields', dihedrals, dihedral_types, extra_dihedral_fields, impropers, improper_types, extra_improper_fields)
  else if (List.length dihedrals) > 0 then
    let t20 ← (Py6.natList? sorted_indices)
    let unpacked13 : (List (List Nat)) × (List Nat) := (Code.deleteAndReindex dihedrals t20)
    let dihedrals' : List (List Nat) := unpacked13.1
    let arr_idx_to_delete : List Nat := unpacked13.2
    let dihedral_types' : List Nat := (Py.npDelete dihedral_types arr_idx_to_delete)
    let extra_dihedral_fields' : List (List String) := (Py.npDelete extra_dihedral_fields arr_idx_to_delete)
    if (List.length impropers) > 0 then
      let t21 ← (Py6.natList? sorted_indices)
      let unpacked14 : (List (List Nat)) × (List Nat) := (Code.deleteAndReindex impropers t21)
      let impropers' : List (List Nat) := unpacked14.1
      let arr_idx_to_delete : List Nat := unpacked14.2
      let improper_types' : List Nat := (Py.npDelete improper_types arr_idx_to_delete)
      let extra_improper_fields' : List (List String) := (Py.npDelete extra_improper_fields arr_idx_to_delete)
      pure ((), positions', atom_types', charges', groups', extra_atom_fields', bonds, bond_types, extra_bond_fields, angles, angle_types, extra_angle_fields, dihedrals', dihedral_types', extra_dihedral_fields', impropers', improper_types', extra_improper_fields')
    else
      pure ((), positions', atom_types', charges', groups', extra_atom_fields', bonds, bond_types, extra_bond_fields, angles, angle_types, extra_angle_fields, dihedrals', dihedral_types', extra_dihedral_fields', impropers, improper_types, extra_improper_fields)
  else if (List.length impropers) > 0 then
    let t22 ← (Py6.natList? sorted_indices)
    let unpacked15 : (List (List Nat)) × (List Nat) := (Code.deleteAndReindex impropers t22)
    let impropers' : List (List Nat) := unpacked15.1
    let arr_idx_to_delete : List Nat := unpacked15.2
    let improper_types' : List Nat := (Py.npDelete improper_types arr_idx_to_delete)
    let extra_improper_fields' : List (List String) := (Py.npDelete extra_improper_fields arr_idx_to_delete)
    pure ((), positions', atom_types', charges', groups', extra_atom_fields', bonds, bond_types, extra_bond_fields, angles, angle_types, extra_angle_fields, dihedrals, dihedral_types, extra_dihedral_fields, impropers', improper_types', extra_improper_fields')
  else
    pure ((), positions', atom_types', charges', groups', extra_atom_fields', bonds, bond_types, extra_bond_fields, angles, angle_types, extra_angle_fields, dihedrals, dihedral_types, extra_dihedral_fields, impropers, improper_types, extra_improper_fields)

/-- translated from `__getitem__` in mofun/atoms.py class Atoms (FRAGMENT: the returned constructor call for a given integer index array `idx` = `np.array(i, ndmin=1)`, as data: the sorted names of ALL keywords passed, then `some value` for positions, atom_types, charges, groups, atom_type_masses, atom_type_elements, atom_type_labels, cell; `none` = IndexError of np.take) -/
def getitem (positions : List Vec3) (atom_types : List Nat) (charges : List Rat) (groups : List Int) (atom_type_masses : List Rat) (atom_type_elements : List String) (atom_type_labels : List String) (cell : Option Mat3) (idx : List Int) : Option ((List String) × (Option (List Vec3)) × (Option (List Nat)) × (Option (List Rat)) × (Option (List Int)) × (Option (List Rat)) × (Option (List String)) × (Option (List String)) × (Option (Option Mat3))) := do
  let t1 ← (Py6.npTakeI? positions idx)
  let t2 ← (Py6.npTakeI? atom_types idx)
  let t3 ← (Py6.npTakeI? charges idx)
  let t4 ← (Py6.npTakeI? groups idx)
  pure (["atom_type_elements", "atom_type_labels", "atom_type_masses", "atom_types", "cell", "charges", "groups", "positions"], (some t1), (some t2), (some t3), (some t4), (some atom_type_masses), (some atom_type_elements), (some atom_type_labels), (some cell))

/-- the default `repldims=(1, 1, 1)` of `replicate` -/
def replicateMults_default_repldims : Nat × Nat × Nat := (1, 1, 1)

/-- translated from `replicate` in mofun/atoms.py class Atoms (FRAGMENT: the image multipliers in the order of the loop, `np.array(np.meshgrid(*[range(r) for r in repldims])).T.reshape(-1, 3)` with the rows `[0, 0, 0]` removed) -/
def replicateMults (repldims : Nat × Nat × Nat) : List (Nat × Nat × Nat) :=
  let ucmults : List (Nat × Nat × Nat) := (Py6.meshgridT3 (List.range repldims.1) (List.range repldims.2.1) (List.range repldims.2.2))
  let ucmults : List (Nat × Nat × Nat) := (Py6.rowsAnyNonzero3 ucmults)
  ucmults

/-- the default `repldims=(1, 1, 1)` of `replicate` -/
def replicateShift_default_repldims : Nat × Nat × Nat := (1, 1, 1)

/-- translated from `replicate` in mofun/atoms.py class Atoms (FRAGMENT: the vector handed to `transatoms.translate` for one multiplier row `ucmult`, `np.matmul(transatoms.cell.T, ucmult)` with `transatoms = self.copy()`) -/
def replicateShift (cell : Mat3) (ucmult : Nat × Nat × Nat) : Vec3 :=
  (⟨(((cell.a.x * ((ucmult.1 : Nat) : Rat)) + (cell.b.x * ((ucmult.2.1 : Nat) : Rat))) + (cell.c.x * ((ucmult.2.2 : Nat) : Rat))), (((cell.a.y * ((ucmult.1 : Nat) : Rat)) + (cell.b.y * ((ucmult.2.1 : Nat) : Rat))) + (cell.c.y * ((ucmult.2.2 : Nat) : Rat))), (((cell.a.z * ((ucmult.1 : Nat) : Rat)) + (cell.b.z * ((ucmult.2.1 : Nat) : Rat))) + (cell.c.z * ((ucmult.2.2 : Nat) : Rat)))⟩ : Vec3)

/-- the default `repldims=(1, 1, 1)` of `replicate` -/
def replicateOffsets_default_repldims : Nat × Nat × Nat := (1, 1, 1)

/-- translated from `replicate` in mofun/atoms.py class Atoms (FRAGMENT: the `offsets=` keyword of the `repl_atoms.extend` call of every image) -/
def replicateOffsets : Nat × Nat × Nat × Nat × Nat :=
  (0, 0, 0, 0, 0)

/-- translated from `detect_bonds` in mofun/detect_bonds.py: the rows `[idx1, idx2]` in the order they are appended; `cdist` + `np.any(ss < cutoff)` is the sqrt-free comparison `0 < cutoff ∧ ‖image − atom2‖² < cutoff²` (Py6.cdistSqCol / Py6.anyDistLt); `none` = KeyError of max_bond_length / IndexError -/
def detectBonds (structure_elements : List String) (structure_positions : List Vec3) (structure_cell : Option Mat3) : Option (List (List Nat)) := do
  let elements : List String := structure_elements
  match structure_cell with
  | some structure_cell =>
    let uc_offsets : List Vec3 := (Code.ucNeighborOffsets structure_cell)
    let bonds : List (List Nat) := []
    let bonds ← Py.forFoldM? (Py.enumerate structure_positions) bonds (fun bonds (idx1, atom1) => do
        let atom1_positions : List Vec3 := (Py6.vecAddRows atom1 uc_offsets)
        let bonds ← Py.forFoldM? (Py.enumerate (List.drop (idx1 + 1) structure_positions)) bonds (fun bonds (i, atom2) => do
            let idx2 : Nat := ((i + idx1) + 1)
            let ss : Py6.SqDists := (Py6.cdistSqCol atom1_positions atom2)
            let t1 ← (elements[idx1]?)
            let t2 ← (elements[idx2]?)
            let t3 ← (Code.maxBondLength t1 t2)
            if (Py6.anyDistLt ss t3) then
              let bonds : List (List Nat) := (bonds ++ [[idx1, idx2]])
              pure bonds
            else
              pure bonds
            )
        pure bonds
        )
    pure bonds
  | none =>
    let bonds : List (List Nat) := []
    let bonds ← Py.forFoldM? (Py.enumerate structure_positions) bonds (fun bonds (idx1, atom1) => do
        let atom1_positions : List Vec3 := (Py6.vecAddRows atom1 [(⟨(Dec.toRat ⟨0, 0⟩), (Dec.toRat ⟨0, 0⟩), (Dec.toRat ⟨0, 0⟩)⟩ : Vec3)])
        let bonds ← Py.forFoldM? (Py.enumerate (List.drop (idx1 + 1) structure_positions)) bonds (fun bonds (i, atom2) => do
            let idx2 : Nat := ((i + idx1) + 1)
            let ss : Py6.SqDists := (Py6.cdistSqCol atom1_positions atom2)
            let t4 ← (elements[idx1]?)
            let t5 ← (elements[idx2]?)
            let t6 ← (Code.maxBondLength t4 t5)
            if (Py6.anyDistLt ss t6) then
              let bonds : List (List Nat) := (bonds ++ [[idx1, idx2]])
              pure bonds
            else
              pure bonds
            )
        pure bonds
        )
    pure bonds

/-- translated from `calc_angles` in mofun/rough_uff.py; `bonds` is the list of the rows of the (n, 2) array; the result is the list of the rows `(a, n, b)` in the order they are appended -/
def calcAngles (bonds : List (Nat × Nat)) : List (List Nat) :=
  let g : Py6.NxGraph := Py6.nxEmpty
  let g : Py6.NxGraph := (Py6.nxAddEdges g bonds)
  let angles : List (List Nat) := []
  let angles : List (List Nat) := Py.forFold (Py6.nxNodes g) angles (fun angles n =>
      let angles : List (List Nat) := (angles ++ (List.map (fun (a, b) => [a, n, b]) (Py6.combinations2 (Py6.nxNeighbors g n))))
      angles
      )
  angles

/-- translated from `calc_dihedrals` in mofun/rough_uff.py; `bonds` is the list of the rows of the (n, 2) array; the result is the list of the rows `(a1, a, b, b1)` in the order they are appended; `none` = ValueError of `list.remove` (the equivalence theorem shows it does not happen) -/
def calcDihedrals (bonds : List (Nat × Nat)) : Option (List (List Nat)) := do
  let g : Py6.NxGraph := Py6.nxEmpty
  let g : Py6.NxGraph := (Py6.nxAddEdges g bonds)
  let dihedrals : List (List Nat) := []
  let dihedrals ← Py.forFoldM? (Py6.nxEdges g) dihedrals (fun dihedrals (a, b) => do
      let a_neighbors : List Nat := (Py6.nxNeighbors g a)
      let a_neighbors ← (Py6.listRemove? a_neighbors b)
      let b_neighbors : List Nat := (Py6.nxNeighbors g b)
      let b_neighbors ← (Py6.listRemove? b_neighbors a)
      let dihedrals : List (List Nat) := (dihedrals ++ (List.flatten (List.map (fun a1 => (List.map (fun b1 => [a1, a, b, b1]) b_neighbors)) a_neighbors)))
      pure dihedrals
      )
  pure dihedrals

/-- translated from `assign_bond_types` in mofun/rough_uff.py (FRAGMENT: the type-numbering slice — the `exclude` guard (`len(exclude) >= 2`, exclude a python set) with `delete_if_all_in_set`, the keys `typekey([uff_atom_types[a] for a in atup])`, their first-seen unique list, the position of every key in it; the result is (atoms.bonds, atoms.bond_types) right after the assignment of atoms.bond_types; `none` = IndexError of `uff_atom_types[a]` / ValueError of `list.index`) -/
def assignBondTypeIds (atoms_bonds : List (List Nat)) (uff_atom_types : List String) (exclude : Option (List Nat)) : Option ((List (List Nat)) × (List Nat)) := do
  match exclude with
  | some exclude =>
    if (Py.setLen exclude) ≥ 2 then
      let atoms_bonds' : List (List Nat) := (Code.deleteIfAllInSet atoms_bonds exclude)
      let t3 ← (Py.listMapM? atoms_bonds' (fun atup => (do let t2 ← (Py.listMapM? atup (fun a => (do let t1 ← (uff_atom_types[a]?); pure t1))); pure (Code.typekey t2))))
      let bond_types : List (List String) := t3
      let unique_bond_types : List (List String) := (Py6.fromkeysList bond_types)
      let t5 ← (Py.listMapM? bond_types (fun bt => (do let t4 ← (Py6.listIndex? unique_bond_types bt); pure t4)))
      let atoms_bond_types' : List Nat := t5
      pure (atoms_bonds', atoms_bond_types')
    else
      let t8 ← (Py.listMapM? atoms_bonds (fun atup => (do let t7 ← (Py.listMapM? atup (fun a => (do let t6 ← (uff_atom_types[a]?); pure t6))); pure (Code.typekey t7))))
      let bond_types : List (List String) := t8
      let unique_bond_types : List (List String) := (Py6.fromkeysList bond_types)
      let t10 ← (Py.listMapM? bond_types (fun bt => (do let t9 ← (Py6.listIndex? unique_bond_types bt); pure t9)))
      let atoms_bond_types' : List Nat := t10
      pure (atoms_bonds, atoms_bond_types')
  | none =>
    let t13 ← (Py.listMapM? atoms_bonds (fun atup => (do let t12 ← (Py.listMapM? atup (fun a => (do let t11 ← (uff_atom_types[a]?); pure t11))); pure (Code.typekey t12))))
    let bond_types : List (List String) := t13
    let unique_bond_types : List (List String) := (Py6.fromkeysList bond_types)
    let t15 ← (Py.listMapM? bond_types (fun bt => (do let t14 ← (Py6.listIndex? unique_bond_types bt); pure t14)))
    let atoms_bond_types' : List Nat := t15
    pure (atoms_bonds, atoms_bond_types')

/-- translated from `assign_angle_types` in mofun/rough_uff.py (FRAGMENT: the type-numbering slice — the `exclude` guard (`len(exclude) >= 3`, exclude a python set) with `delete_if_all_in_set`, the keys `typekey([uff_atom_types[a] for a in atup])`, their first-seen unique list, the position of every key in it; the result is (atoms.angles, atoms.angle_types) right after the assignment of atoms.angle_types; `none` = IndexError of `uff_atom_types[a]` / ValueError of `list.index`) -/
def assignAngleTypeIds (atoms_angles : List (List Nat)) (uff_atom_types : List String) (exclude : Option (List Nat)) : Option ((List (List Nat)) × (List Nat)) := do
  match exclude with
  | some exclude =>
    if (Py.setLen exclude) ≥ 3 then
      let atoms_angles' : List (List Nat) := (Code.deleteIfAllInSet atoms_angles exclude)
      let t3 ← (Py.listMapM? atoms_angles' (fun atup => (do let t2 ← (Py.listMapM? atup (fun a => (do let t1 ← (uff_atom_types[a]?); pure t1))); pure (Code.typekey t2))))
      let angle_types : List (List String) := t3
      let unique_angle_types : List (List String) := (Py6.fromkeysList angle_types)
      let t5 ← (Py.listMapM? angle_types (fun a => (do let t4 ← (Py6.listIndex? unique_angle_types a); pure t4)))
      let atoms_angle_types' : List Nat := t5
      pure (atoms_angles', atoms_angle_types')
    else
      let t8 ← (Py.listMapM? atoms_angles (fun atup => (do let t7 ← (Py.listMapM? atup (fun a => (do let t6 ← (uff_atom_types[a]?); pure t6))); pure (Code.typekey t7))))
      let angle_types : List (List String) := t8
      let unique_angle_types : List (List String) := (Py6.fromkeysList angle_types)
      let t10 ← (Py.listMapM? angle_types (fun a => (do let t9 ← (Py6.listIndex? unique_angle_types a); pure t9)))
      let atoms_angle_types' : List Nat := t10
      pure (atoms_angles, atoms_angle_types')
  | none =>
    let t13 ← (Py.listMapM? atoms_angles (fun atup => (do let t12 ← (Py.listMapM? atup (fun a => (do let t11 ← (uff_atom_types[a]?); pure t11))); pure (Code.typekey t12))))
    let angle_types : List (List String) := t13
    let unique_angle_types : List (List String) := (Py6.fromkeysList angle_types)
    let t15 ← (Py.listMapM? angle_types (fun a => (do let t14 ← (Py6.listIndex? unique_angle_types a); pure t14)))
    let atoms_angle_types' : List Nat := t15
    pure (atoms_angles, atoms_angle_types')

end Mofun.Generated.Code6
