/- GENERATED on every run by harness/gen_code.py from the sources of /repo — do not edit.
   Python → Lean translation of a few small pure functions; the supported subset is documented in gen_code.py.
   `Mofun.Generated.Py` is the fixed prelude (the meaning of the python primitives the translation uses);
   `Mofun.Generated.Code` holds one definition per translated python function. -/
import MofunModel.Model.Basic
import MofunModel.Generated.Radii
import MofunModel.Generated.Masses
import MofunModel.Generated.Uff

namespace Mofun.Generated.Py
open Mofun

/-- a python value that is either a `str` or an `int` (e.g. `s[2] if len(s) > 2 else 0`) -/
inductive Val where
  | str (s : String)
  | int (n : Int)
deriving DecidableEq, Repr

/-- `T[k]` on a `{str: float}` table; `none` = KeyError -/
def tableGet (tbl : List (String × Dec)) (k : String) : Option Rat := (lookup tbl k).map Dec.toRat

/-- `T[k][i]` on a `{str: (float, …)}` table; `none` = KeyError / IndexError -/
def tableCol (tbl : List (String × List Dec)) (k : String) (i : Nat) : Option Rat :=
  match lookup tbl k with
  | none => none
  | some row => row[i]?.map Dec.toRat

/-- `k in T` -/
def tableHas {β} (tbl : List (String × β)) (k : String) : Bool := (lookup tbl k).isSome

/-! sets are lists; order and repetitions are invisible to the operations below -/

/-- `a <= b` on sets -/
def setSubset {α} [DecidableEq α] (a b : List α) : Bool := a.all (fun x => b.contains x)
/-- `a == b` on sets -/
def setEq {α} [DecidableEq α] (a b : List α) : Bool := setSubset a b && setSubset b a
/-- `a & b` -/
def setInter {α} [DecidableEq α] (a b : List α) : List α := a.filter (fun x => b.contains x)
/-- `a | b` -/
def setUnion {α} (a b : List α) : List α := a ++ b
/-- `a - b` -/
def setDiff {α} [DecidableEq α] (a b : List α) : List α := a.filter (fun x => !b.contains x)
/-- `len(a)` on a set: the number of distinct members -/
def setLen {α} [DecidableEq α] (a : List α) : Nat := (dedup a).length

/-- `max(xs)`; `none` = ValueError on an empty sequence -/
def listMax? : List Nat → Option Nat
  | [] => none
  | x :: xs => some (xs.foldl max x)
/-- `min(xs)`; `none` = ValueError on an empty sequence -/
def listMin? : List Nat → Option Nat
  | [] => none
  | x :: xs => some (xs.foldl min x)

/-- `for x in xs: <body that may return>`: the value returned in the first iteration that returns -/
def forFirst {α β} : List α → (α → Option β) → Option β
  | [], _ => none
  | x :: xs, f =>
    match f x with
    | some r => some r
    | none => forFirst xs f

/-- `s[i]` (a one-character string); `none` = IndexError.  Python strings are sequences of code points. -/
def strIndex? (s : String) (i : Nat) : Option String := s.toList[i]?.map String.singleton
/-- `s[i:j]` for constant `0 ≤ i`, `0 ≤ j` -/
def strSlice (s : String) (i j : Nat) : String := String.ofList ((s.toList.take j).drop i)
/-- `s.strip(cs)`: drop every leading and every trailing character that occurs in `cs` -/
def strStrip (s cs : String) : String :=
  String.ofList (((s.toList.dropWhile (fun c => cs.toList.contains c)).reverse.dropWhile (fun c => cs.toList.contains c)).reverse)
/-- `s.replace(c, t)` for a one-character `c` -/
def strReplace (s : String) (c : Char) (t : String) : String :=
  String.ofList (s.toList.flatMap (fun ch => if ch = c then t.toList else [ch]))

end Mofun.Generated.Py

namespace Mofun.Generated.Code
open Mofun Mofun.Generated

/-- translated from `max_bond_length` in mofun/detect_bonds.py; `none` = KeyError -/
def maxBondLength (el1 : String) (el2 : String) : Option Rat := do
  if ((List.contains Mofun.Generated.nonMetals el1) || (List.contains Mofun.Generated.nonMetals el2)) then
    let t1 ← (Py.tableGet Mofun.Generated.covalentRadii el1)
    let t2 ← (Py.tableGet Mofun.Generated.covalentRadii el2)
    pure ((t1 + t2) + (Dec.toRat ⟨45, 2⟩))
  else
    let t3 ← (Py.tableGet Mofun.Generated.covalentRadii el1)
    let t4 ← (Py.tableGet Mofun.Generated.covalentRadii el2)
    pure (t3 + t4)

/-- translated from `typekey` in mofun/helpers.py -/
def typekey {α} [LT α] [DecidableEq α] [DecidableLT α] (tup : List α) : List α :=
  let rev : List α := tup
  let rev : List α := (List.reverse rev)
  if rev ≤ tup then
    rev
  else
    tup

/-- translated from `guess_bond_order` in mofun/rough_uff.py; a rule is (the set of its atom types as a list, bond order) -/
def guessBondOrder (a1 : String) (a2 : String) (rules : Option (List ((List String) × Rat))) : Rat :=
  let bond_atom_types : List String := [a1, a2]
  match rules with
  | some rules =>
    match Py.forFirst rules (fun (rule_atom_types, bo) =>
        if (Py.setEq bond_atom_types rule_atom_types) then
          some bo
        else
          none
        ) with
    | some t1 => t1
    | none =>
      if (Py.setLen (Py.setInter ["H_", "F_", "Cl", "Br", "I_", "C_3", "N_3", "O_3"] bond_atom_types)) > 0 then
        (1 : Rat)
      else if (((Py.setLen bond_atom_types) == 1) && (Py.setSubset bond_atom_types ["C_2", "N_2", "O_2"])) then
        (2 : Rat)
      else if (((Py.setLen bond_atom_types) == 1) && (Py.setSubset bond_atom_types ["C_R", "N_R", "O_R"])) then
        (Dec.toRat ⟨15, 1⟩)
      else
        (1 : Rat)
  | none =>
    if (Py.setLen (Py.setInter ["H_", "F_", "Cl", "Br", "I_", "C_3", "N_3", "O_3"] bond_atom_types)) > 0 then
      (1 : Rat)
    else if (((Py.setLen bond_atom_types) == 1) && (Py.setSubset bond_atom_types ["C_2", "N_2", "O_2"])) then
      (2 : Rat)
    else if (((Py.setLen bond_atom_types) == 1) && (Py.setSubset bond_atom_types ["C_R", "N_R", "O_R"])) then
      (Dec.toRat ⟨15, 1⟩)
    else
      (1 : Rat)

/-- translated from `num_atom_types` in mofun/atoms.py class Atoms -/
def numAtomTypes (atom_type_elements : List String) : Nat :=
  (List.length atom_type_elements)

/-- translated from `num_bond_types` in mofun/atoms.py class Atoms; `none` = ValueError (`max` of an empty list) -/
def numBondTypes (bond_types : List Nat) (bond_type_coeffs : List String) : Option Nat := do
  if (List.length bond_types) = 0 then
    pure (List.length bond_type_coeffs)
  else
    let t1 ← (Py.listMax? bond_types)
    pure (max (List.length bond_type_coeffs) (t1 + 1))

/-- translated from `num_angle_types` in mofun/atoms.py class Atoms; `none` = ValueError (`max` of an empty list) -/
def numAngleTypes (angle_types : List Nat) (angle_type_coeffs : List String) : Option Nat := do
  if (List.length angle_types) = 0 then
    pure (List.length angle_type_coeffs)
  else
    let t1 ← (Py.listMax? angle_types)
    pure (max (List.length angle_type_coeffs) (t1 + 1))

/-- translated from `num_dihedral_types` in mofun/atoms.py class Atoms; `none` = ValueError (`max` of an empty list) -/
def numDihedralTypes (dihedral_types : List Nat) (dihedral_type_coeffs : List String) : Option Nat := do
  if (List.length dihedral_types) = 0 then
    pure (List.length dihedral_type_coeffs)
  else
    let t1 ← (Py.listMax? dihedral_types)
    pure (max (List.length dihedral_type_coeffs) (t1 + 1))

/-- translated from `num_improper_types` in mofun/atoms.py class Atoms; `none` = ValueError (`max` of an empty list) -/
def numImproperTypes (improper_types : List Nat) (improper_type_coeffs : List String) : Option Nat := do
  if (List.length improper_types) = 0 then
    pure (List.length improper_type_coeffs)
  else
    let t1 ← (Py.listMax? improper_types)
    pure (max (List.length improper_type_coeffs) (t1 + 1))

/-- translated from `angle_params` in mofun/rough_uff.py (decision slice: which style / b / n; the float formulas are not translated); `none` = KeyError, IndexError or UnboundLocalError -/
def angleParamsDecision (a2 : String) : Option (Nat × Option (String × List Int)) := do
  let t2 ← (if (String.length a2) > 2 then (do let t1 ← (Py.strIndex? a2 2); pure (t1 == "3")) else (some false))
  let a2_coord_is_4 : Bool := t2
  let t3 ← (Py.tableCol Mofun.Generated.uff4mof a2 1)
  let theta0deg : Rat := t3
  if (List.contains [(Dec.toRat ⟨180, 0⟩), (Dec.toRat ⟨120, 0⟩), (Dec.toRat ⟨90, 0⟩)] theta0deg) then
    if theta0deg = (Dec.toRat ⟨180, 0⟩) then
      pure (0, some ("cosine/periodic", [(1 : Int), (1 : Int)]))
    else if theta0deg = (Dec.toRat ⟨120, 0⟩) then
      pure (0, some ("cosine/periodic", [(-1 : Int), (3 : Int)]))
    else if ((theta0deg == (Dec.toRat ⟨90, 0⟩)) && a2_coord_is_4) then
      pure (0, some ("cosine/periodic", [(-1 : Int), (2 : Int)]))
    else if theta0deg = (Dec.toRat ⟨90, 0⟩) then
      pure (0, some ("cosine/periodic", [(1 : Int), (4 : Int)]))
    else
      none  -- UnboundLocalError: b
  else
    pure (1, some ("fourier", []))

/-- translated from `dihedral_params` in mofun/rough_uff.py (decision slice: which `return` is reached and its d, n; the float formulas are not translated); `none` = the explicit `raise` -/
def dihedralParamsBranch (a1 : String) (a2 : String) (a3 : String) (a4 : String) : Option (Nat × Option (String × List Int)) := do
  let el_1 : String := (Py.strStrip (Py.strSlice a2 0 2) "_")
  let el_2 : String := (Py.strStrip (Py.strSlice a3 0 2) "_")
  let t2 ← (if (String.length a1) > 2 then (do let t1 ← (Py.strIndex? a1 2); pure (Py.Val.str t1)) else (some (Py.Val.int 0)))
  let t4 ← (if (String.length a2) > 2 then (do let t3 ← (Py.strIndex? a2 2); pure (Py.Val.str t3)) else (some (Py.Val.int 0)))
  let t6 ← (if (String.length a3) > 2 then (do let t5 ← (Py.strIndex? a3 2); pure (Py.Val.str t5)) else (some (Py.Val.int 0)))
  let t8 ← (if (String.length a4) > 2 then (do let t7 ← (Py.strIndex? a4 2); pure (Py.Val.str t7)) else (some (Py.Val.int 0)))
  let h_0 : Py.Val := t2
  let h_1 : Py.Val := t4
  let h_2 : Py.Val := t6
  let h_3 : Py.Val := t8
  let oxygen_group : List String := ["O", "S", "Se", "Te", "Po"]
  if (Py.setSubset [h_1, h_2] [(Py.Val.str "3")]) then
    if (Py.setSubset [el_1, el_2] oxygen_group) then
      pure (0, some ("harmonic", [(1 : Int), (2 : Int)]))
    else
      pure (0, some ("harmonic", [(1 : Int), (3 : Int)]))
  else if (Py.setSubset [h_1, h_2] [(Py.Val.str "2"), (Py.Val.str "R")]) then
    pure (1, some ("harmonic", [(-1 : Int), (2 : Int)]))
  else if (Py.setSubset [h_1, h_2] [(Py.Val.str "2"), (Py.Val.str "R"), (Py.Val.str "3")]) then
    if ((Py.setSubset [h_0, h_1] [(Py.Val.str "2")]) || (Py.setSubset [h_2, h_3] [(Py.Val.str "2")])) then
      pure (2, some ("harmonic", [(1 : Int), (3 : Int)]))
    else if ((((h_1 == (Py.Val.str "3")) && (List.contains oxygen_group el_1)) && (!(List.contains oxygen_group el_2))) || (((h_2 == (Py.Val.str "3")) && (List.contains oxygen_group el_2)) && (!(List.contains oxygen_group el_1)))) then
      pure (3, some ("harmonic", [(1 : Int), (2 : Int)]))
    else
      pure (4, some ("harmonic", [(-1 : Int), (6 : Int)]))
  else if (List.contains [h_1, h_2] (Py.Val.str "1")) then
    pure (5, none)
  else if (!(Py.setSubset [el_1, el_2] Mofun.Generated.mainGroupElements)) then
    pure (6, none)
  else
    none  -- raise

end Mofun.Generated.Code
