/- GENERATED on every run by harness/gen_code.py from the sources of /repo — do not edit.
   Python → Lean translation of a few small pure functions; the supported subset is documented in gen_code.py.
   `Mofun.Generated.Py` is the fixed prelude (the meaning of the python primitives the translation uses);
   `Mofun.Generated.Code` holds one definition per translated python function. -/
import MofunModel.Model.Basic
import MofunModel.Generated.Radii
import MofunModel.Generated.Masses
import MofunModel.Generated.Uff

namespace Mofun.Generated.Py
open Mofun

/-- a python value that is either a `str` or an `int` (e.g. `s[2] if len(s) > 2 else 0`) -/
inductive Val where
  | str (s : String)
  | int (n : Int)
deriving DecidableEq, Repr

/-- `T[k]` on a `{str: float}` table; `none` = KeyError -/
def tableGet (tbl : List (String × Dec)) (k : String) : Option Rat := (lookup tbl k).map Dec.toRat

/-- `T[k][i]` on a `{str: (float, …)}` table; `none` = KeyError / IndexError -/
def tableCol (tbl : List (String × List Dec)) (k : String) (i : Nat) : Option Rat :=
  match lookup tbl k with
  | none => none
  | some row => row[i]?.map Dec.toRat

/-- `k in T` -/
def tableHas {β} (tbl : List (String × β)) (k : String) : Bool := (lookup tbl k).isSome

/-! sets are lists; order and repetitions are invisible to the operations below -/

/-- `a <= b` on sets -/
def setSubset {α} [DecidableEq α] (a b : List α) : Bool := a.all (fun x => b.contains x)
/-- `a == b` on sets -/
def setEq {α} [DecidableEq α] (a b : List α) : Bool := setSubset a b && setSubset b a
/-- `a & b` -/
def setInter {α} [DecidableEq α] (a b : List α) : List α := a.filter (fun x => b.contains x)
/-- `a | b` -/
def setUnion {α} (a b : List α) : List α := a ++ b
/-- `a - b` -/
def setDiff {α} [DecidableEq α] (a b : List α) : List α := a.filter (fun x => !b.contains x)
/-- `len(a)` on a set: the number of distinct members -/
def setLen {α} [DecidableEq α] (a : List α) : Nat := (dedup a).length

/-- `max(xs)`; `none` = ValueError on an empty sequence -/
def listMax? : List Nat → Option Nat
  | [] => none
  | x :: xs => some (xs.foldl max x)
/-- `min(xs)`; `none` = ValueError on an empty sequence -/
def listMin? : List Nat → Option Nat
  | [] => none
  | x :: xs => some (xs.foldl min x)

/-- `for x in xs: <body that may return>`: the value returned in the first iteration that returns -/
def forFirst {α β} : List α → (α → Option β) → Option β
  | [], _ => none
  | x :: xs, f =>
    match f x with
    | some r => some r
    | none => forFirst xs f

/-- `abs(x)` -/
def abs (x : Rat) : Rat := if x < 0 then -x else x

/-- `T.items()` of a `{str: float}` table, in source order -/
def tableItems (tbl : List (String × Dec)) : List (String × Rat) := tbl.map (fun p => (p.1, p.2.toRat))

/-- python `min(it, key=f)` after the first item has been taken: the running best is replaced only by a STRICTLY
    smaller key, so the FIRST minimal item wins -/
def minByAux {α} (key : α → Rat) : α → List α → α
  | best, [] => best
  | best, e :: es => if key e < key best then minByAux key e es else minByAux key best es
/-- `min(xs, key=f)`; `none` = ValueError on an empty sequence -/
def minBy? {α} (xs : List α) (key : α → Rat) : Option α :=
  match xs with
  | [] => none
  | e :: es => some (minByAux key e es)
/-- `max(xs, key=f)`: the FIRST maximal item; `none` = ValueError -/
def maxByAux {α} (key : α → Rat) : α → List α → α
  | best, [] => best
  | best, e :: es => if key best < key e then maxByAux key e es else maxByAux key best es
def maxBy? {α} (xs : List α) (key : α → Rat) : Option α :=
  match xs with
  | [] => none
  | e :: es => some (maxByAux key e es)

/-- `[f(x) for x in xs]` where `f` may raise: the first exception ends the comprehension -/
def listMapM? {α β} : List α → (α → Option β) → Option (List β)
  | [], _ => some []
  | x :: xs, f =>
    match f x with
    | none => none
    | some y =>
      match listMapM? xs f with
      | none => none
      | some ys => some (y :: ys)

/-- python `a % b` on ints (the result has the sign of `b`); `none` = ZeroDivisionError -/
def intMod? (a b : Int) : Option Int := if b = 0 then none else some (Int.fmod a b)

/-- `for x in xs: <body updating st>` -/
def forFold {α σ} : List α → σ → (σ → α → σ) → σ
  | [], st, _ => st
  | x :: xs, st, f => forFold xs (f st x) f
/-- the same when the body may raise -/
def forFoldM? {α σ} : List α → σ → (σ → α → Option σ) → Option σ
  | [], st, _ => some st
  | x :: xs, st, f =>
    match f st x with
    | none => none
    | some st' => forFoldM? xs st' f

/-- `enumerate(xs)` -/
def enumerateFrom {α} : Nat → List α → List (Nat × α)
  | _, [] => []
  | i, x :: xs => (i, x) :: enumerateFrom (i + 1) xs
def enumerate {α} (xs : List α) : List (Nat × α) := enumerateFrom 0 xs

/-- `np.delete(arr, idx, axis=0)` for indices inside the array -/
def npDelete {α} (arr : List α) (idx : List Nat) : List α := deleteIdx arr idx

/-- python `sorted(xs, reverse=True)` on ints (insertion sort: structurally recursive) -/
def insertDesc (x : Int) : List Int → List Int
  | [] => [x]
  | y :: ys => if x ≥ y then x :: y :: ys else y :: insertDesc x ys
def sortedDesc (xs : List Int) : List Int := xs.foldr insertDesc []
/-- python `sorted(xs)` on ints -/
def insertAsc (x : Int) : List Int → List Int
  | [] => [x]
  | y :: ys => if x ≤ y then x :: y :: ys else y :: insertAsc x ys
def sortedAsc (xs : List Int) : List Int := xs.foldr insertAsc []

/-- `xs.sort(key=f)` with an integer key: ascending, entries with equal keys keep their order (python's sort is stable) -/
def insertByKey {α} (key : α → Int) (x : α) : List α → List α
  | [] => [x]
  | y :: ys => if key x ≤ key y then x :: y :: ys else y :: insertByKey key x ys
def sortByKey {α} (xs : List α) (key : α → Int) : List α := xs.foldr (insertByKey key) []

/-- python `xs * n` on a list: `n` copies one after the other, none for `n ≤ 0` -/
def listRepeat {α} (xs : List α) (n : Int) : List α := (List.replicate n.toNat xs).flatten

/-- `np.ceil(x)` as an integer -/
def ceil (x : Rat) : Int := Rat.ceil x
/-- `np.floor(x)` as an integer -/
def floor (x : Rat) : Int := Rat.floor x

/-- one coordinate of `np.allclose`: `|a − b| ≤ atol + rtol·|b|` -/
def close1 (a b rtol atol : Rat) : Bool := decide (abs (a - b) ≤ atol + rtol * abs b)
/-- `np.allclose(a, b, rtol=…, atol=…)` on two lists of points; `none` = ValueError (shapes that cannot be broadcast) -/
def allclose? (a b : List Vec3) (rtol atol : Rat) : Option Bool :=
  if a.length = b.length then
    some ((a.zip b).all (fun p => close1 p.1.x p.2.x rtol atol && close1 p.1.y p.2.y rtol atol && close1 p.1.z p.2.z rtol atol))
  else none

/-- `d[k] = v` on an insertion-ordered dict: an existing key keeps its position and takes the new value -/
def dictInsert {κ β} [DecidableEq κ] : List (κ × β) → κ → β → List (κ × β)
  | [], k, v => [(k, v)]
  | (k', v') :: rest, k, v => if k' = k then (k, v) :: rest else (k', v') :: dictInsert rest k v
/-- `{key(a, b): val(a, b) for a, b in d.items()}` -/
def dictComp {κ β κ' β'} [DecidableEq κ'] (d : List (κ × β)) (f : κ × β → κ' × β') : List (κ' × β') :=
  d.foldl (fun acc p => dictInsert acc (f p).1 (f p).2) []
/-- the same when computing a key or a value may raise -/
def dictCompM? {κ β κ' β'} [DecidableEq κ'] (d : List (κ × β)) (f : κ × β → Option (κ' × β')) : Option (List (κ' × β')) :=
  d.foldl (fun acc p => match acc, f p with
    | some m, some kv => some (dictInsert m kv.1 kv.2)
    | _, _ => none) (some [])

/-- `a, b = s.split(c, 1)`: the text before and after the FIRST `c`; `none` = ValueError (no `c`: one part only) -/
def splitAtFirst (c : Char) : List Char → List Char × Option (List Char)
  | [] => ([], none)
  | x :: xs => if x = c then ([], some xs) else ((x :: (splitAtFirst c xs).1), (splitAtFirst c xs).2)
def strSplit1? (s : String) (c : Char) : Option (String × String) :=
  match splitAtFirst c s.toList with
  | (a, some b) => some (String.ofList a, String.ofList b)
  | (_, none) => none
/-- python `str.isspace` on ASCII: blank, `\t \n \v \f \r`, `\x1c … \x1f` -/
def isWs (c : Char) : Bool := c.val == 32 || (9 ≤ c.val && c.val ≤ 13) || (28 ≤ c.val && c.val ≤ 31)
/-- `s.strip()`: without the leading and the trailing blanks -/
def strStripWs (s : String) : String :=
  String.ofList (((s.toList.dropWhile isWs).reverse.dropWhile isWs).reverse)

/-- `np.subtract(arr, k, out=arr, where=arr > i)` on a 2-D index array -/
def npSubWhereGt (arr : List (List Nat)) (k i : Nat) : List (List Nat) :=
  arr.map (fun row => row.map (fun x => if x > i then x - k else x))

/-! insertion-ordered dicts are association lists with distinct keys -/

/-- `k in d` -/
def dictHas {κ β} [DecidableEq κ] (d : List (κ × β)) (k : κ) : Bool := d.any (fun p => p.1 = k)
/-- `d[k] = v`: a new key goes to the end, an existing key keeps its position -/
def dictSet {κ β} [DecidableEq κ] (d : List (κ × β)) (k : κ) (v : β) : List (κ × β) :=
  if dictHas d k then d.map (fun p => if p.1 = k then (p.1, v) else p) else d ++ [(k, v)]
/-- `d[k].append(x)`; `none` = KeyError -/
def dictAppend? {κ β} [DecidableEq κ] (d : List (κ × List β)) (k : κ) (x : β) : Option (List (κ × List β)) :=
  if dictHas d k then some (d.map (fun p => if p.1 = k then (p.1, p.2 ++ [x]) else p)) else none

/-- `s[i]` (a one-character string); `none` = IndexError.  Python strings are sequences of code points. -/
def strIndex? (s : String) (i : Nat) : Option String := s.toList[i]?.map String.singleton
/-- `s[i:j]` for constant `0 ≤ i`, `0 ≤ j` -/
def strSlice (s : String) (i j : Nat) : String := String.ofList ((s.toList.take j).drop i)
/-- `s[i:]` for a constant `i ≥ 0` -/
def strDrop (s : String) (i : Nat) : String := String.ofList (s.toList.drop i)
/-- `s.strip(cs)`: drop every leading and every trailing character that occurs in `cs` -/
def strStrip (s cs : String) : String :=
  String.ofList (((s.toList.dropWhile (fun c => cs.toList.contains c)).reverse.dropWhile (fun c => cs.toList.contains c)).reverse)
/-- `s.replace(c, t)` for a one-character `c` -/
def strReplace (s : String) (c : Char) (t : String) : String :=
  String.ofList (s.toList.flatMap (fun ch => if ch = c then t.toList else [ch]))

/-! fifth batch -/

/-- python `round(x)` of a float (one argument): the nearest integer, a tie goes to the EVEN neighbour -/
def round (x : Rat) : Int :=
  let fl := Rat.floor x
  let r := x - (fl : Rat)
  if r < 1 / 2 then fl else if 1 / 2 < r then fl + 1 else if fl % 2 = 0 then fl else fl + 1

/-- `d.values()` of an insertion-ordered dict, in insertion order -/
def dictValues {κ β} (d : List (κ × β)) : List β := d.map (fun p => p.2)
/-- `a.isdisjoint(b)` on sets -/
def setDisjoint {α} [DecidableEq α] (a b : List α) : Bool := a.all (fun x => !b.contains x)

/-- `x % 1.0` on a float: `x - floor(x)`, in `[0, 1)` (python / numpy `%` takes the sign of the divisor) -/
def fmod1 (x : Rat) : Rat := x - (Rat.floor x : Rat)

/-- `for x in xs: <body updating st, may break>`: the body yields the new state and whether it executed `break` -/
def forBreak {α σ} : List α → σ → (σ → α → σ × Bool) → σ
  | [], st, _ => st
  | x :: xs, st, f => if (f st x).2 then (f st x).1 else forBreak xs (f st x).1 f
/-- the same when the body may raise -/
def forBreakM? {α σ} : List α → σ → (σ → α → Option (σ × Bool)) → Option σ
  | [], st, _ => some st
  | x :: xs, st, f =>
    match f st x with
    | none => none
    | some (st', true) => some st'
    | some (st', false) => forBreakM? xs st' f

/-- `numpy.linalg.norm(v) < d` for a 3-vector: `d > 0` and `‖v‖² < d²` (no square root: exact on rationals) -/
def normLt (v : Vec3) (d : Rat) : Bool := decide (0 < d) && decide (v.x * v.x + v.y * v.y + v.z * v.z < d * d)


/-! seventh batch (the hints, the grouping key and the reported tuples of find_pattern_in_structure; remove_duplicates, atoms_by_type_dict) -/
/-- `{k(x): v(x) for x in xs}` over a list (or a set given as the list of its members): `d[k] = v` element by element -/
def dictCompList {α κ β} [DecidableEq κ] (xs : List α) (f : α → κ × β) : List (κ × β) :=
  xs.foldl (fun acc x => dictInsert acc (f x).1 (f x).2) []

end Mofun.Generated.Py

namespace Mofun.Generated.Code
open Mofun Mofun.Generated

/-- translated from `max_bond_length` in mofun/detect_bonds.py; `none` = KeyError -/
def maxBondLength (el1 : String) (el2 : String) : Option Rat := do
  if ((List.contains Mofun.Generated.nonMetals el1) || (List.contains Mofun.Generated.nonMetals el2)) then
    let t1 ← (Py.tableGet Mofun.Generated.covalentRadii el1)
    let t2 ← (Py.tableGet Mofun.Generated.covalentRadii el2)
    pure ((t1 + t2) + (Dec.toRat ⟨45, 2⟩))
  else
    let t3 ← (Py.tableGet Mofun.Generated.covalentRadii el1)
    let t4 ← (Py.tableGet Mofun.Generated.covalentRadii el2)
    pure (t3 + t4)

/-- translated from `typekey` in mofun/helpers.py -/
def typekey {α} [LT α] [DecidableEq α] [DecidableLT α] (tup : List α) : List α :=
  let rev : List α := tup
  let rev : List α := (List.reverse rev)
  if rev ≤ tup then
    rev
  else
    tup

/-- translated from `guess_bond_order` in mofun/rough_uff.py; a rule is (the set of its atom types as a list, bond order) -/
def guessBondOrder (a1 : String) (a2 : String) (rules : Option (List ((List String) × Rat))) : Rat :=
  let bond_atom_types : List String := [a1, a2]
  match rules with
  | some rules =>
    match Py.forFirst rules (fun (rule_atom_types, bo) =>
        if (Py.setEq bond_atom_types rule_atom_types) then
          some bo
        else
          none
        ) with
    | some t1 => t1
    | none =>
      if (Py.setLen (Py.setInter ["H_", "F_", "Cl", "Br", "I_", "C_3", "N_3", "O_3"] bond_atom_types)) > 0 then
        (1 : Rat)
      else if (((Py.setLen bond_atom_types) == 1) && (Py.setSubset bond_atom_types ["C_2", "N_2", "O_2"])) then
        (2 : Rat)
      else if (((Py.setLen bond_atom_types) == 1) && (Py.setSubset bond_atom_types ["C_R", "N_R", "O_R"])) then
        (Dec.toRat ⟨15, 1⟩)
      else
        (1 : Rat)
  | none =>
    if (Py.setLen (Py.setInter ["H_", "F_", "Cl", "Br", "I_", "C_3", "N_3", "O_3"] bond_atom_types)) > 0 then
      (1 : Rat)
    else if (((Py.setLen bond_atom_types) == 1) && (Py.setSubset bond_atom_types ["C_2", "N_2", "O_2"])) then
      (2 : Rat)
    else if (((Py.setLen bond_atom_types) == 1) && (Py.setSubset bond_atom_types ["C_R", "N_R", "O_R"])) then
      (Dec.toRat ⟨15, 1⟩)
    else
      (1 : Rat)

/-- translated from `num_atom_types` in mofun/atoms.py class Atoms -/
def numAtomTypes (atom_type_elements : List String) : Nat :=
  (List.length atom_type_elements)

/-- translated from `num_bond_types` in mofun/atoms.py class Atoms; `none` = ValueError (`max` of an empty list) -/
def numBondTypes (bond_types : List Nat) (bond_type_coeffs : List String) : Option Nat := do
  if (List.length bond_types) = 0 then
    pure (List.length bond_type_coeffs)
  else
    let t1 ← (Py.listMax? bond_types)
    pure (max (List.length bond_type_coeffs) (t1 + 1))

/-- translated from `num_angle_types` in mofun/atoms.py class Atoms; `none` = ValueError (`max` of an empty list) -/
def numAngleTypes (angle_types : List Nat) (angle_type_coeffs : List String) : Option Nat := do
  if (List.length angle_types) = 0 then
    pure (List.length angle_type_coeffs)
  else
    let t1 ← (Py.listMax? angle_types)
    pure (max (List.length angle_type_coeffs) (t1 + 1))

/-- translated from `num_dihedral_types` in mofun/atoms.py class Atoms; `none` = ValueError (`max` of an empty list) -/
def numDihedralTypes (dihedral_types : List Nat) (dihedral_type_coeffs : List String) : Option Nat := do
  if (List.length dihedral_types) = 0 then
    pure (List.length dihedral_type_coeffs)
  else
    let t1 ← (Py.listMax? dihedral_types)
    pure (max (List.length dihedral_type_coeffs) (t1 + 1))

/-- translated from `num_improper_types` in mofun/atoms.py class Atoms; `none` = ValueError (`max` of an empty list) -/
def numImproperTypes (improper_types : List Nat) (improper_type_coeffs : List String) : Option Nat := do
  if (List.length improper_types) = 0 then
    pure (List.length improper_type_coeffs)
  else
    let t1 ← (Py.listMax? improper_types)
    pure (max (List.length improper_type_coeffs) (t1 + 1))

/-- translated from `angle_params` in mofun/rough_uff.py (decision slice: which style / b / n; the float formulas are not translated); `none` = KeyError, IndexError or UnboundLocalError -/
def angleParamsDecision (a2 : String) : Option (Nat × Option (String × List Int)) := do
  let t2 ← (if (String.length a2) > 2 then (do let t1 ← (Py.strIndex? a2 2); pure (t1 == "3")) else (some false))
  let a2_coord_is_4 : Bool := t2
  let t3 ← (Py.tableCol Mofun.Generated.uff4mof a2 1)
  let theta0deg : Rat := t3
  if (List.contains [(Dec.toRat ⟨180, 0⟩), (Dec.toRat ⟨120, 0⟩), (Dec.toRat ⟨90, 0⟩)] theta0deg) then
    if theta0deg = (Dec.toRat ⟨180, 0⟩) then
      pure (0, some ("cosine/periodic", [(1 : Int), (1 : Int)]))
    else if theta0deg = (Dec.toRat ⟨120, 0⟩) then
      pure (0, some ("cosine/periodic", [(-1 : Int), (3 : Int)]))
    else if ((theta0deg == (Dec.toRat ⟨90, 0⟩)) && a2_coord_is_4) then
      pure (0, some ("cosine/periodic", [(-1 : Int), (2 : Int)]))
    else if theta0deg = (Dec.toRat ⟨90, 0⟩) then
      pure (0, some ("cosine/periodic", [(1 : Int), (4 : Int)]))
    else
      none  -- UnboundLocalError: b
  else
    pure (1, some ("fourier", []))

/-- translated from `dihedral_params` in mofun/rough_uff.py (decision slice: which `return` is reached and its d, n; the float formulas are not translated); `none` = the explicit `raise` -/
def dihedralParamsBranch (a1 : String) (a2 : String) (a3 : String) (a4 : String) : Option (Nat × Option (String × List Int)) := do
  let el_1 : String := (Py.strStrip (Py.strSlice a2 0 2) "_")
  let el_2 : String := (Py.strStrip (Py.strSlice a3 0 2) "_")
  let t2 ← (if (String.length a1) > 2 then (do let t1 ← (Py.strIndex? a1 2); pure (Py.Val.str t1)) else (some (Py.Val.int 0)))
  let t4 ← (if (String.length a2) > 2 then (do let t3 ← (Py.strIndex? a2 2); pure (Py.Val.str t3)) else (some (Py.Val.int 0)))
  let t6 ← (if (String.length a3) > 2 then (do let t5 ← (Py.strIndex? a3 2); pure (Py.Val.str t5)) else (some (Py.Val.int 0)))
  let t8 ← (if (String.length a4) > 2 then (do let t7 ← (Py.strIndex? a4 2); pure (Py.Val.str t7)) else (some (Py.Val.int 0)))
  let h_0 : Py.Val := t2
  let h_1 : Py.Val := t4
  let h_2 : Py.Val := t6
  let h_3 : Py.Val := t8
  let oxygen_group : List String := ["O", "S", "Se", "Te", "Po"]
  if (Py.setSubset [h_1, h_2] [(Py.Val.str "3")]) then
    if (Py.setSubset [el_1, el_2] oxygen_group) then
      pure (0, some ("harmonic", [(1 : Int), (2 : Int)]))
    else
      pure (0, some ("harmonic", [(1 : Int), (3 : Int)]))
  else if (Py.setSubset [h_1, h_2] [(Py.Val.str "2"), (Py.Val.str "R")]) then
    pure (1, some ("harmonic", [(-1 : Int), (2 : Int)]))
  else if (Py.setSubset [h_1, h_2] [(Py.Val.str "2"), (Py.Val.str "R"), (Py.Val.str "3")]) then
    if ((Py.setSubset [h_0, h_1] [(Py.Val.str "2")]) || (Py.setSubset [h_2, h_3] [(Py.Val.str "2")])) then
      pure (2, some ("harmonic", [(1 : Int), (3 : Int)]))
    else if ((((h_1 == (Py.Val.str "3")) && (List.contains oxygen_group el_1)) && (!(List.contains oxygen_group el_2))) || (((h_2 == (Py.Val.str "3")) && (List.contains oxygen_group el_2)) && (!(List.contains oxygen_group el_1)))) then
      pure (3, some ("harmonic", [(1 : Int), (2 : Int)]))
    else
      pure (4, some ("harmonic", [(-1 : Int), (6 : Int)]))
  else if (List.contains [h_1, h_2] (Py.Val.str "1")) then
    pure (5, none)
  else if (!(Py.setSubset [el_1, el_2] Mofun.Generated.mainGroupElements)) then
    pure (6, none)
  else
    none  -- raise

/-- translated from `guess_elements_from_masses.find_element` in mofun/helpers.py; `max_delta` is read from the enclosing function; `none` = the explicit `raise` (or ValueError on an empty table) -/
def findElement (max_delta : Rat) (elmass : Rat) : Option String := do
  let t1 ← (Py.minBy? (Py.tableItems Mofun.Generated.atomicMasses) (fun kv => (Py.abs (kv.2 - elmass))))
  let sym : String := t1.1
  let mass : Rat := t1.2
  if (Py.abs (mass - elmass)) < max_delta then
    pure sym
  else
    none  -- raise

/-- the default `max_delta=0.1` of `guess_elements_from_masses` -/
def guessElementsFromMasses_default_max_delta : Rat := (Dec.toRat ⟨1, 1⟩)

/-- translated from `guess_elements_from_masses` in mofun/helpers.py; `none` = the first mass without an element raises -/
def guessElementsFromMasses (masses : List Rat) (max_delta : Rat) : Option (List String) := do
  let t2 ← (Py.listMapM? masses (fun m => (do let t1 ← (findElement max_delta m); pure t1)))
  pure t2

/-- the default `pos=-1` of `pop` -/
def popIndex_default_pos : Int := (-1 : Int)

/-- translated from `pop` in mofun/atoms.py class Atoms: the index list handed to `__delitem__` by `del(self[[…]])`; `none` = ZeroDivisionError -/
def popIndex (self_len : Nat) (pos : Int) : Option (List Int) := do
  let t1 ← (Py.intMod? pos ((self_len : Nat) : Int))
  pure [t1]

/-- translated from `group_duplicates` in mofun/helpers.py; the dict is an association list in insertion order; `none` = KeyError (never raised, see the theorem); the default `key` is not translated -/
def groupDuplicates {α κ} [DecidableEq κ] (match_indices : List α) (key : α → κ) : Option (List (κ × (List α))) := do
  let keyed_tuples : List (κ × (List α)) := []
  let keyed_tuples ← Py.forFoldM? match_indices keyed_tuples (fun keyed_tuples m => do
      let mkey : κ := (key m)
      if (!(Py.dictHas keyed_tuples mkey)) then
        let keyed_tuples : List (κ × (List α)) := (Py.dictSet keyed_tuples mkey [m])
        pure keyed_tuples
      else
        let keyed_tuples ← (Py.dictAppend? keyed_tuples mkey m)
        pure keyed_tuples
      )
  pure keyed_tuples

/-- the default `atol=0.05` of `mofun_cli` -/
def mofunCliTrace_default_atol : Rat := (Dec.toRat ⟨5, 2⟩)

/-- the default `replace_fraction=1.0` of `mofun_cli` -/
def mofunCliTrace_default_replace_fraction : Rat := (Dec.toRat ⟨10, 1⟩)

/-- the default `pp=False` of `mofun_cli` -/
def mofunCliTrace_default_pp : Bool := false

/-- translated from `mofun_cli` in mofun/cli/mofun_cli.py (SEQUENCING slice: the simple statements the function executes, in order, as source text with the locals renamed l1, l2, … in order of first assignment, under the guards of the `if`s; parameters: the options the guards read, the two path suffixes, and the answer of `atoms.cell_is_orthorhombic()`) -/
def mofunCliTrace (find_path : Option String) (replace_path : Option String) (dumppath : Option String) (extract_uc_path : Option String) (chargefile : Option String) (replicate : Option (Nat × Nat × Nat)) (mic : Option Rat) (framework_element : Option String) (pp : Bool) (inputpath_suffix : String) (outputpath_suffix : String) (cell_is_orthorhombic : Bool) : List String :=
  (if (List.contains [".lmpdat", ".cml", ".cif"] inputpath_suffix) then
    ["atoms = Atoms.load(inputpath)"]
  else
    ["print('INFO: Trying input using ASE: %s' % inputpath)",
     "atoms = Atoms.from_ase_atoms(ase.io.read(inputpath))"]) ++
  (if (Option.isSome extract_uc_path) then
    ["atoms.cell = Atoms.load(extract_uc_path).cell"]
  else
    []) ++
  (if (Option.isSome dumppath) then
    ["l1 = ase.io.read(dumppath, format='lammps-dump-text')",
     "assert len(l1.positions) == len(atoms.positions)",
     "atoms.positions = l1.positions"]
  else
    []) ++
  (if (Option.isSome chargefile) then
    ["l2 = np.array([float(l3.strip()) for l3 in chargefile if l3.strip() != ''])",
     "assert len(l2) == len(atoms.positions)",
     "atoms.charges = l2"]
  else
    []) ++
  (if (Option.isSome replicate) then
    ["atoms = atoms.replicate(replicate)"]
  else
    []) ++
  (if (Option.isSome mic) then
    (if cell_is_orthorhombic then
      ["l4 = np.maximum(1, np.array(np.ceil(2 * mic / np.diag(atoms.cell)), dtype=int))",
       "atoms = atoms.replicate(l4)"]
    else
      ["print('WARNING: Minimimum image convention is only implemented for orthorhombic structures, please use --replicate')"])
  else
    []) ++
  (if pp then
    ["assign_pair_params_to_structure(atoms)"]
  else
    []) ++
  (if ((Option.isSome replace_path) && (Option.isNone find_path)) then
    ["print('Cannot perform a replace operation without a find operation')"]
  else
    (if (Option.isSome find_path) then
      ["l5 = Atoms.load(find_path)"] ++
      (if (Option.isSome replace_path) then
        ["l6 = Atoms.load(replace_path)",
         "atoms = replace_pattern_in_structure(atoms, l5, l6, atol=atol, axisp1_idx=axisp1_idx, axisp2_idx=axisp2_idx, opoint_idx=opoint_idx, replace_fraction=replace_fraction)"]
      else
        ["l7 = find_pattern_in_structure(atoms, l5, atol=atol, axisp1_idx=axisp1_idx, axisp2_idx=axisp2_idx, opoint_idx=opoint_idx)",
         "print('Found %d instances of the search_pattern in the structure' % len(l7))",
         "print(l7)"])
    else
      [])) ++
  (if (Option.isSome framework_element) then
    ["atoms.symbols[atoms.atom_groups == 0] = framework_element"]
  else
    []) ++
  (if (List.contains [".lmpdat", ".mol", ".cif"] outputpath_suffix) then
    ["atoms.save(outputpath)"]
  else
    ["print('INFO: Trying output using ASE')",
     "l8 = atoms.to_ase()"] ++
    (if (Option.isSome framework_element) then
      ["l8.symbols[atoms.atom_groups == 0] = framework_element"]
    else
      []) ++
    ["l8.set_pbc(True)",
     "l8.write(outputpath)"])

/-- translated from `delete_if_all_in_set` in mofun/rough_uff.py; `arr` is the list of rows of the 2-D index array -/
def deleteIfAllInSet (arr : List (List Nat)) (s : List Nat) : List (List Nat) :=
  let deletion_list : List Nat := []
  let deletion_list : List Nat := Py.forFold (Py.enumerate arr) deletion_list (fun deletion_list (i, tup) =>
      if (Py.setLen (Py.setDiff tup s)) = 0 then
        let deletion_list : List Nat := (deletion_list ++ [i])
        deletion_list
      else
        deletion_list
      )
  (Py.npDelete arr deletion_list)

/-- translated from `extend_types` in mofun/atoms.py class Atoms: (the returned offsets, then the new value of every attribute of self it assigns, in the order elements, masses, labels, pair_coeffs, bond/angle/dihedral/improper coefficients); `np.append` of 1-D arrays is concatenation; `none` = an exception of a `num_*_types` property -/
def extendTypes (atom_type_elements : List String) (atom_type_masses : List Rat) (atom_type_labels : List String) (pair_coeffs : List String) (bond_types : List Nat) (bond_type_coeffs : List String) (angle_types : List Nat) (angle_type_coeffs : List String) (dihedral_types : List Nat) (dihedral_type_coeffs : List String) (improper_types : List Nat) (improper_type_coeffs : List String) (other_atom_type_elements : List String) (other_atom_type_masses : List Rat) (other_atom_type_labels : List String) (other_pair_coeffs : List String) (other_bond_type_coeffs : List String) (other_angle_type_coeffs : List String) (other_dihedral_type_coeffs : List String) (other_improper_type_coeffs : List String) : Option ((Nat × Nat × Nat × Nat × Nat) × (List String) × (List Rat) × (List String) × (List String) × (List String) × (List String) × (List String) × (List String)) := do
  let t1 ← (numBondTypes bond_types bond_type_coeffs)
  let t2 ← (numAngleTypes angle_types angle_type_coeffs)
  let t3 ← (numDihedralTypes dihedral_types dihedral_type_coeffs)
  let t4 ← (numImproperTypes improper_types improper_type_coeffs)
  let offsets_0 : Nat := (numAtomTypes atom_type_elements)
  let offsets_1 : Nat := t1
  let offsets_2 : Nat := t2
  let offsets_3 : Nat := t3
  let offsets_4 : Nat := t4
  let atom_type_elements' : List String := (atom_type_elements ++ other_atom_type_elements)
  let atom_type_masses' : List Rat := (atom_type_masses ++ other_atom_type_masses)
  let atom_type_labels' : List String := (atom_type_labels ++ other_atom_type_labels)
  let pair_coeffs' : List String := (pair_coeffs ++ other_pair_coeffs)
  let bond_type_coeffs' : List String := (bond_type_coeffs ++ other_bond_type_coeffs)
  let angle_type_coeffs' : List String := (angle_type_coeffs ++ other_angle_type_coeffs)
  let dihedral_type_coeffs' : List String := (dihedral_type_coeffs ++ other_dihedral_type_coeffs)
  let improper_type_coeffs' : List String := (improper_type_coeffs ++ other_improper_type_coeffs)
  pure ((offsets_0, offsets_1, offsets_2, offsets_3, offsets_4), atom_type_elements', atom_type_masses', atom_type_labels', pair_coeffs', bond_type_coeffs', angle_type_coeffs', dihedral_type_coeffs', improper_type_coeffs')

/-- translated from `cell_is_orthorhombic` in mofun/atoms.py class Atoms; the numpy expression is expanded element by element over the 3x3 cell -/
def cellIsOrthorhombic (cell : Mat3) : Bool :=
  ((((((((((cell.a.x * (1 : Rat)) == cell.a.x) && ((cell.b.y * (0 : Rat)) == cell.a.y)) && ((cell.c.z * (0 : Rat)) == cell.a.z)) && ((cell.a.x * (0 : Rat)) == cell.b.x)) && ((cell.b.y * (1 : Rat)) == cell.b.y)) && ((cell.c.z * (0 : Rat)) == cell.b.z)) && ((cell.a.x * (0 : Rat)) == cell.c.x)) && ((cell.b.y * (0 : Rat)) == cell.c.y)) && ((cell.c.z * (1 : Rat)) == cell.c.z))

/-- translated from `_get_positions_from_all_adjacent_unit_cells` in mofun/mofun.py (FRAGMENT: the guard that selects the general plane tests instead of the orthorhombic box test) -/
def nearUsesPlaneTests (structure_cell : Mat3) : Bool :=
  ((!(cellIsOrthorhombic structure_cell)) || (((decide (structure_cell.a.x ≤ (0 : Rat))) || (decide (structure_cell.b.y ≤ (0 : Rat)))) || (decide (structure_cell.c.z ≤ (0 : Rat)))))

/-- translated from `_get_positions_from_all_adjacent_unit_cells` in mofun/mofun.py (FRAGMENT: the box test of the orthorhombic branch for one image position `pos`) -/
def nearBoxTest (distance : Rat) (structure_cell : Mat3) (pos : Vec3) : Bool :=
  ((((((decide (pos.x ≥ (-distance))) && (decide (pos.x < (distance + structure_cell.a.x)))) && (decide (pos.y ≥ (-distance)))) && (decide (pos.y < (distance + structure_cell.b.y)))) && (decide (pos.z ≥ (-distance)))) && (decide (pos.z < (distance + structure_cell.c.z))))

/-- translated from `load` in mofun/atoms.py class Atoms (DISPATCH slice: the function whose result is returned — cls.load_lmpdat, cls.load_cml or cls.load_p1_cif; `none` = one of the two `raise`s; parameters: filetype, whether f is an open text file, os.path.splitext(path)) -/
def atomsLoadSite (filetype : Option String) (f_is_file : Bool) (path_splitext : String × String) : Option String := do
  if f_is_file then
    match filetype with
    | some filetype =>
      if filetype = "lmpdat" then
        pure "cls.load_lmpdat"
      else if filetype = "cml" then
        pure "cls.load_cml"
      else if filetype = "cif" then
        pure "cls.load_p1_cif"
      else
        none  -- raise
    | none =>
      none  -- raise
  else
    match filetype with
    | some filetype =>
      if filetype = "lmpdat" then
        pure "cls.load_lmpdat"
      else if filetype = "cml" then
        pure "cls.load_cml"
      else if filetype = "cif" then
        pure "cls.load_p1_cif"
      else
        none  -- raise
    | none =>
      let filetype : String := path_splitext.2
      let filetype : String := (Py.strDrop filetype 1)
      if filetype = "lmpdat" then
        pure "cls.load_lmpdat"
      else if filetype = "cml" then
        pure "cls.load_cml"
      else if filetype = "cif" then
        pure "cls.load_p1_cif"
      else
        none  -- raise

/-- translated from `save` in mofun/atoms.py class Atoms (DISPATCH slice: the function whose result is returned — self.save_lmpdat, self.save_raspa_mol or self.save_p1_cif; `none` = one of the two `raise`s) -/
def atomsSaveSite (filetype : Option String) (f_is_file : Bool) (path_splitext : String × String) : Option String := do
  if f_is_file then
    match filetype with
    | some filetype =>
      if filetype = "lmpdat" then
        pure "self.save_lmpdat"
      else if filetype = "mol" then
        pure "self.save_raspa_mol"
      else if filetype = "cif" then
        pure "self.save_p1_cif"
      else
        none  -- raise
    | none =>
      none  -- raise
  else
    match filetype with
    | some filetype =>
      if filetype = "lmpdat" then
        pure "self.save_lmpdat"
      else if filetype = "mol" then
        pure "self.save_raspa_mol"
      else if filetype = "cif" then
        pure "self.save_p1_cif"
      else
        none  -- raise
    | none =>
      let filetype : String := path_splitext.2
      let filetype : String := (Py.strDrop filetype 1)
      if filetype = "lmpdat" then
        pure "self.save_lmpdat"
      else if filetype = "mol" then
        pure "self.save_raspa_mol"
      else if filetype = "cif" then
        pure "self.save_p1_cif"
      else
        none  -- raise

/-- the default `repldims=(1, 1, 1)` of `replicate` -/
def replicateCell_default_repldims : Nat × Nat × Nat := (1, 1, 1)

/-- translated from `replicate` in mofun/atoms.py class Atoms (FRAGMENT: the cell of the replicated structure, `self.cell * np.array(repldims).reshape(3, 1)`) -/
def replicateCell (cell : Mat3) (repldims : Nat × Nat × Nat) : Mat3 :=
  (⟨(⟨(cell.a.x * ((repldims.1 : Nat) : Rat)), (cell.a.y * ((repldims.1 : Nat) : Rat)), (cell.a.z * ((repldims.1 : Nat) : Rat))⟩ : Vec3), (⟨(cell.b.x * ((repldims.2.1 : Nat) : Rat)), (cell.b.y * ((repldims.2.1 : Nat) : Rat)), (cell.b.z * ((repldims.2.1 : Nat) : Rat))⟩ : Vec3), (⟨(cell.c.x * ((repldims.2.2 : Nat) : Rat)), (cell.c.y * ((repldims.2.2 : Nat) : Rat)), (cell.c.z * ((repldims.2.2 : Nat) : Rat))⟩ : Vec3)⟩ : Mat3)

/-- translated from `_delete_and_reindex_atom_index_array` in mofun/atoms.py class Atoms; `arr` is the list of rows of the 2-D index array; result = (re-indexed surviving rows, indices of the deleted rows) -/
def deleteAndReindex (arr : List (List Nat)) (sorted_deleted_indices : List Nat) : (List (List Nat)) × (List Nat) :=
  let updated_arr : List (List Nat) := arr
  let arr_idx_to_delete : List Nat := []
  let arr_idx_to_delete : List Nat := Py.forFold (Py.enumerate arr) arr_idx_to_delete (fun arr_idx_to_delete (i, atom_idx_tuple) =>
      if (List.any (List.map (fun a => (List.contains sorted_deleted_indices a)) atom_idx_tuple) id) then
        let arr_idx_to_delete : List Nat := (arr_idx_to_delete ++ [i])
        arr_idx_to_delete
      else
        arr_idx_to_delete
      )
  let updated_arr : List (List Nat) := (Py.npDelete updated_arr arr_idx_to_delete)
  let updated_arr : List (List Nat) := Py.forFold sorted_deleted_indices updated_arr (fun updated_arr i =>
      let updated_arr : List (List Nat) := (Py.npSubWhereGt updated_arr 1 i)
      updated_arr
      )
  (updated_arr, arr_idx_to_delete)

/-- translated from `__delitem__` in mofun/atoms.py class Atoms (FRAGMENT: the index list handed to the term code, `sorted({i % num_atoms for i in indices}, reverse=True)`; `none` = ZeroDivisionError) -/
def delitemSortedIndices (self_len : Nat) (indices : List Int) : Option (List Int) := do
  let num_atoms : Nat := self_len
  let t2 ← (Py.listMapM? indices (fun i => (do let t1 ← (Py.intMod? i ((num_atoms : Nat) : Int)); pure t1)))
  pure (Py.sortedDesc (dedup t2))

/-- translated from `extend.plain_index` in mofun/atoms.py class Atoms; `none` = the IndexError it raises -/
def plainIndex (i : Int) (n : Nat) : Option Int := do
  if (!((decide ((-((n : Nat) : Int)) ≤ i)) && (decide (i < ((n : Nat) : Int))))) then
    none  -- raise
  else
    let t1 ← (Py.intMod? i ((n : Nat) : Int))
    pure t1

/-- translated from `extend` in mofun/atoms.py class Atoms (FRAGMENT: the normalised structure_index_map, a dict comprehension over the given one; `none` = IndexError) -/
def extendIndexMap (self_len : Nat) (other_len : Nat) (structure_index_map : List (Int × Int)) : Option (List (Int × Int)) := do
  let t3 ← (Py.dictCompM? structure_index_map (fun (k, v) => (do let t1 ← (plainIndex k other_len); let t2 ← (plainIndex v self_len); pure (t1, t2))))
  pure t3

/-- translated from `extend` in mofun/atoms.py class Atoms (FRAGMENT: explicit offsets padded to five entries, `tuple(offsets) + (0,) * (5 - len(offsets))`) -/
def extendPadOffsets (offsets : List Nat) : List Nat :=
  (offsets ++ (Py.listRepeat [0] ((5 : Int) - (((List.length offsets) : Nat) : Int))))

/-- translated from `mofun_cli` in mofun/cli/mofun_cli.py (FRAGMENT: the minimum-image replication factors, numpy expression expanded over the diagonal of the cell) -/
def mofunCliMicRepls (mic : Rat) (atoms_cell : Mat3) : Int × Int × Int :=
  ((max (1 : Int) (Py.ceil (((2 : Rat) * mic) / atoms_cell.a.x))), (max (1 : Int) (Py.ceil (((2 : Rat) * mic) / atoms_cell.b.y))), (max (1 : Int) (Py.ceil (((2 : Rat) * mic) / atoms_cell.c.z))))

/-- translated from `load_lmpdat` in mofun/atoms.py class Atoms (FRAGMENT: `masses.sort(key=lambda m: m[0])` for a given list of (type id, mass text, label) entries) -/
def lmpSortMasses (masses : List (Int × String × (Option String))) : List (Int × String × (Option String)) :=
  let masses : List (Int × String × (Option String)) := (Py.sortByKey masses (fun m => m.1))
  masses

/-- translated from `load_lmpdat` in mofun/atoms.py class Atoms (FRAGMENT: does a data line carry a comment) -/
def lmpHasComment (unprocessed_line : String) : Bool :=
  (List.contains (String.toList unprocessed_line) '#')

/-- translated from `load_lmpdat` in mofun/atoms.py class Atoms (FRAGMENT: the data part of a line with a comment: the text before the FIRST `#`; `none` = no `#`) -/
def lmpLineBeforeComment (unprocessed_line : String) : Option String := do
  let t1 ← (Py.strSplit1? unprocessed_line '#')
  let line : String := t1.1
  pure line

/-- translated from `load_lmpdat` in mofun/atoms.py class Atoms (FRAGMENT: the text after the FIRST `#`, before it is stripped) -/
def lmpCommentOf (unprocessed_line : String) : Option String := do
  let t1 ← (Py.strSplit1? unprocessed_line '#')
  let comment : String := t1.2
  pure comment

/-- translated from `load_cml` in mofun/atoms.py class Atoms (FRAGMENT: the ElementPath pattern of the atom lookup) -/
def cmlAtomPattern : String :=
  ".//{*}atom"

/-- translated from `load_cml` in mofun/atoms.py class Atoms (FRAGMENT: the ElementPath pattern of the bond lookup) -/
def cmlBondPattern : String :=
  ".//{*}bond"

/-- translated from `uc_neighbor_offsets` in mofun/mofun.py; `np.meshgrid(…).T.reshape(-1, 1, 3)` and `np.matmul(uc_vectors.T, mult[0])` are expanded over the 27 multipliers -/
def ucNeighborOffsets (uc_vectors : Mat3) : List Vec3 :=
  [(⟨(((uc_vectors.a.x * (-1 : Rat)) + (uc_vectors.b.x * (-1 : Rat))) + (uc_vectors.c.x * (-1 : Rat))), (((uc_vectors.a.y * (-1 : Rat)) + (uc_vectors.b.y * (-1 : Rat))) + (uc_vectors.c.y * (-1 : Rat))), (((uc_vectors.a.z * (-1 : Rat)) + (uc_vectors.b.z * (-1 : Rat))) + (uc_vectors.c.z * (-1 : Rat)))⟩ : Vec3),
   (⟨(((uc_vectors.a.x * (-1 : Rat)) + (uc_vectors.b.x * (0 : Rat))) + (uc_vectors.c.x * (-1 : Rat))), (((uc_vectors.a.y * (-1 : Rat)) + (uc_vectors.b.y * (0 : Rat))) + (uc_vectors.c.y * (-1 : Rat))), (((uc_vectors.a.z * (-1 : Rat)) + (uc_vectors.b.z * (0 : Rat))) + (uc_vectors.c.z * (-1 : Rat)))⟩ : Vec3),
   (⟨(((uc_vectors.a.x * (-1 : Rat)) + (uc_vectors.b.x * (1 : Rat))) + (uc_vectors.c.x * (-1 : Rat))), (((uc_vectors.a.y * (-1 : Rat)) + (uc_vectors.b.y * (1 : Rat))) + (uc_vectors.c.y * (-1 : Rat))), (((uc_vectors.a.z * (-1 : Rat)) + (uc_vectors.b.z * (1 : Rat))) + (uc_vectors.c.z * (-1 : Rat)))⟩ : Vec3),
   (⟨(((uc_vectors.a.x * (0 : Rat)) + (uc_vectors.b.x * (-1 : Rat))) + (uc_vectors.c.x * (-1 : Rat))), (((uc_vectors.a.y * (0 : Rat)) + (uc_vectors.b.y * (-1 : Rat))) + (uc_vectors.c.y * (-1 : Rat))), (((uc_vectors.a.z * (0 : Rat)) + (uc_vectors.b.z * (-1 : Rat))) + (uc_vectors.c.z * (-1 : Rat)))⟩ : Vec3),
   (⟨(((uc_vectors.a.x * (0 : Rat)) + (uc_vectors.b.x * (0 : Rat))) + (uc_vectors.c.x * (-1 : Rat))), (((uc_vectors.a.y * (0 : Rat)) + (uc_vectors.b.y * (0 : Rat))) + (uc_vectors.c.y * (-1 : Rat))), (((uc_vectors.a.z * (0 : Rat)) + (uc_vectors.b.z * (0 : Rat))) + (uc_vectors.c.z * (-1 : Rat)))⟩ : Vec3),
   (⟨(((uc_vectors.a.x * (0 : Rat)) + (uc_vectors.b.x * (1 : Rat))) + (uc_vectors.c.x * (-1 : Rat))), (((uc_vectors.a.y * (0 : Rat)) + (uc_vectors.b.y * (1 : Rat))) + (uc_vectors.c.y * (-1 : Rat))), (((uc_vectors.a.z * (0 : Rat)) + (uc_vectors.b.z * (1 : Rat))) + (uc_vectors.c.z * (-1 : Rat)))⟩ : Vec3),
   (⟨(((uc_vectors.a.x * (1 : Rat)) + (uc_vectors.b.x * (-1 : Rat))) + (uc_vectors.c.x * (-1 : Rat))), (((uc_vectors.a.y * (1 : Rat)) + (uc_vectors.b.y * (-1 : Rat))) + (uc_vectors.c.y * (-1 : Rat))), (((uc_vectors.a.z * (1 : Rat)) + (uc_vectors.b.z * (-1 : Rat))) + (uc_vectors.c.z * (-1 : Rat)))⟩ : Vec3),
   (⟨(((uc_vectors.a.x * (1 : Rat)) + (uc_vectors.b.x * (0 : Rat))) + (uc_vectors.c.x * (-1 : Rat))), (((uc_vectors.a.y * (1 : Rat)) + (uc_vectors.b.y * (0 : Rat))) + (uc_vectors.c.y * (-1 : Rat))), (((uc_vectors.a.z * (1 : Rat)) + (uc_vectors.b.z * (0 : Rat))) + (uc_vectors.c.z * (-1 : Rat)))⟩ : Vec3),
   (⟨(((uc_vectors.a.x * (1 : Rat)) + (uc_vectors.b.x * (1 : Rat))) + (uc_vectors.c.x * (-1 : Rat))), (((uc_vectors.a.y * (1 : Rat)) + (uc_vectors.b.y * (1 : Rat))) + (uc_vectors.c.y * (-1 : Rat))), (((uc_vectors.a.z * (1 : Rat)) + (uc_vectors.b.z * (1 : Rat))) + (uc_vectors.c.z * (-1 : Rat)))⟩ : Vec3),
   (⟨(((uc_vectors.a.x * (-1 : Rat)) + (uc_vectors.b.x * (-1 : Rat))) + (uc_vectors.c.x * (0 : Rat))), (((uc_vectors.a.y * (-1 : Rat)) + (uc_vectors.b.y * (-1 : Rat))) + (uc_vectors.c.y * (0 : Rat))), (((uc_vectors.a.z * (-1 : Rat)) + (uc_vectors.b.z * (-1 : Rat))) + (uc_vectors.c.z * (0 : Rat)))⟩ : Vec3),
   (⟨(((uc_vectors.a.x * (-1 : Rat)) + (uc_vectors.b.x * (0 : Rat))) + (uc_vectors.c.x * (0 : Rat))), (((uc_vectors.a.y * (-1 : Rat)) + (uc_vectors.b.y * (0 : Rat))) + (uc_vectors.c.y * (0 : Rat))), (((uc_vectors.a.z * (-1 : Rat)) + (uc_vectors.b.z * (0 : Rat))) + (uc_vectors.c.z * (0 : Rat)))⟩ : Vec3),
   (⟨(((uc_vectors.a.x * (-1 : Rat)) + (uc_vectors.b.x * (1 : Rat))) + (uc_vectors.c.x * (0 : Rat))), (((uc_vectors.a.y * (-1 : Rat)) + (uc_vectors.b.y * (1 : Rat))) + (uc_vectors.c.y * (0 : Rat))), (((uc_vectors.a.z * (-1 : Rat)) + (uc_vectors.b.z * (1 : Rat))) + (uc_vectors.c.z * (0 : Rat)))⟩ : Vec3),
   (⟨(((uc_vectors.a.x * (0 : Rat)) + (uc_vectors.b.x * (-1 : Rat))) + (uc_vectors.c.x * (0 : Rat))), (((uc_vectors.a.y * (0 : Rat)) + (uc_vectors.b.y * (-1 : Rat))) + (uc_vectors.c.y * (0 : Rat))), (((uc_vectors.a.z * (0 : Rat)) + (uc_vectors.b.z * (-1 : Rat))) + (uc_vectors.c.z * (0 : Rat)))⟩ : Vec3),
   (⟨(((uc_vectors.a.x * (0 : Rat)) + (uc_vectors.b.x * (0 : Rat))) + (uc_vectors.c.x * (0 : Rat))), (((uc_vectors.a.y * (0 : Rat)) + (uc_vectors.b.y * (0 : Rat))) + (uc_vectors.c.y * (0 : Rat))), (((uc_vectors.a.z * (0 : Rat)) + (uc_vectors.b.z * (0 : Rat))) + (uc_vectors.c.z * (0 : Rat)))⟩ : Vec3),
   (⟨(((uc_vectors.a.x * (0 : Rat)) + (uc_vectors.b.x * (1 : Rat))) + (uc_vectors.c.x * (0 : Rat))), (((uc_vectors.a.y * (0 : Rat)) + (uc_vectors.b.y * (1 : Rat))) + (uc_vectors.c.y * (0 : Rat))), (((uc_vectors.a.z * (0 : Rat)) + (uc_vectors.b.z * (1 : Rat))) + (uc_vectors.c.z * (0 : Rat)))⟩ : Vec3),
   (⟨(((uc_vectors.a.x * (1 : Rat)) + (uc_vectors.b.x * (-1 : Rat))) + (uc_vectors.c.x * (0 : Rat))), (((uc_vectors.a.y * (1 : Rat)) + (uc_vectors.b.y * (-1 : Rat))) + (uc_vectors.c.y * (0 : Rat))), (((uc_vectors.a.z * (1 : Rat)) + (uc_vectors.b.z * (-1 : Rat))) + (uc_vectors.c.z * (0 : Rat)))⟩ : Vec3),
   (⟨(((uc_vectors.a.x * (1 : Rat)) + (uc_vectors.b.x * (0 : Rat))) + (uc_vectors.c.x * (0 : Rat))), (((uc_vectors.a.y * (1 : Rat)) + (uc_vectors.b.y * (0 : Rat))) + (uc_vectors.c.y * (0 : Rat))), (((uc_vectors.a.z * (1 : Rat)) + (uc_vectors.b.z * (0 : Rat))) + (uc_vectors.c.z * (0 : Rat)))⟩ : Vec3),
   (⟨(((uc_vectors.a.x * (1 : Rat)) + (uc_vectors.b.x * (1 : Rat))) + (uc_vectors.c.x * (0 : Rat))), (((uc_vectors.a.y * (1 : Rat)) + (uc_vectors.b.y * (1 : Rat))) + (uc_vectors.c.y * (0 : Rat))), (((uc_vectors.a.z * (1 : Rat)) + (uc_vectors.b.z * (1 : Rat))) + (uc_vectors.c.z * (0 : Rat)))⟩ : Vec3),
   (⟨(((uc_vectors.a.x * (-1 : Rat)) + (uc_vectors.b.x * (-1 : Rat))) + (uc_vectors.c.x * (1 : Rat))), (((uc_vectors.a.y * (-1 : Rat)) + (uc_vectors.b.y * (-1 : Rat))) + (uc_vectors.c.y * (1 : Rat))), (((uc_vectors.a.z * (-1 : Rat)) + (uc_vectors.b.z * (-1 : Rat))) + (uc_vectors.c.z * (1 : Rat)))⟩ : Vec3),
   (⟨(((uc_vectors.a.x * (-1 : Rat)) + (uc_vectors.b.x * (0 : Rat))) + (uc_vectors.c.x * (1 : Rat))), (((uc_vectors.a.y * (-1 : Rat)) + (uc_vectors.b.y * (0 : Rat))) + (uc_vectors.c.y * (1 : Rat))), (((uc_vectors.a.z * (-1 : Rat)) + (uc_vectors.b.z * (0 : Rat))) + (uc_vectors.c.z * (1 : Rat)))⟩ : Vec3),
   (⟨(((uc_vectors.a.x * (-1 : Rat)) + (uc_vectors.b.x * (1 : Rat))) + (uc_vectors.c.x * (1 : Rat))), (((uc_vectors.a.y * (-1 : Rat)) + (uc_vectors.b.y * (1 : Rat))) + (uc_vectors.c.y * (1 : Rat))), (((uc_vectors.a.z * (-1 : Rat)) + (uc_vectors.b.z * (1 : Rat))) + (uc_vectors.c.z * (1 : Rat)))⟩ : Vec3),
   (⟨(((uc_vectors.a.x * (0 : Rat)) + (uc_vectors.b.x * (-1 : Rat))) + (uc_vectors.c.x * (1 : Rat))), (((uc_vectors.a.y * (0 : Rat)) + (uc_vectors.b.y * (-1 : Rat))) + (uc_vectors.c.y * (1 : Rat))), (((uc_vectors.a.z * (0 : Rat)) + (uc_vectors.b.z * (-1 : Rat))) + (uc_vectors.c.z * (1 : Rat)))⟩ : Vec3),
   (⟨(((uc_vectors.a.x * (0 : Rat)) + (uc_vectors.b.x * (0 : Rat))) + (uc_vectors.c.x * (1 : Rat))), (((uc_vectors.a.y * (0 : Rat)) + (uc_vectors.b.y * (0 : Rat))) + (uc_vectors.c.y * (1 : Rat))), (((uc_vectors.a.z * (0 : Rat)) + (uc_vectors.b.z * (0 : Rat))) + (uc_vectors.c.z * (1 : Rat)))⟩ : Vec3),
   (⟨(((uc_vectors.a.x * (0 : Rat)) + (uc_vectors.b.x * (1 : Rat))) + (uc_vectors.c.x * (1 : Rat))), (((uc_vectors.a.y * (0 : Rat)) + (uc_vectors.b.y * (1 : Rat))) + (uc_vectors.c.y * (1 : Rat))), (((uc_vectors.a.z * (0 : Rat)) + (uc_vectors.b.z * (1 : Rat))) + (uc_vectors.c.z * (1 : Rat)))⟩ : Vec3),
   (⟨(((uc_vectors.a.x * (1 : Rat)) + (uc_vectors.b.x * (-1 : Rat))) + (uc_vectors.c.x * (1 : Rat))), (((uc_vectors.a.y * (1 : Rat)) + (uc_vectors.b.y * (-1 : Rat))) + (uc_vectors.c.y * (1 : Rat))), (((uc_vectors.a.z * (1 : Rat)) + (uc_vectors.b.z * (-1 : Rat))) + (uc_vectors.c.z * (1 : Rat)))⟩ : Vec3),
   (⟨(((uc_vectors.a.x * (1 : Rat)) + (uc_vectors.b.x * (0 : Rat))) + (uc_vectors.c.x * (1 : Rat))), (((uc_vectors.a.y * (1 : Rat)) + (uc_vectors.b.y * (0 : Rat))) + (uc_vectors.c.y * (1 : Rat))), (((uc_vectors.a.z * (1 : Rat)) + (uc_vectors.b.z * (0 : Rat))) + (uc_vectors.c.z * (1 : Rat)))⟩ : Vec3),
   (⟨(((uc_vectors.a.x * (1 : Rat)) + (uc_vectors.b.x * (1 : Rat))) + (uc_vectors.c.x * (1 : Rat))), (((uc_vectors.a.y * (1 : Rat)) + (uc_vectors.b.y * (1 : Rat))) + (uc_vectors.c.y * (1 : Rat))), (((uc_vectors.a.z * (1 : Rat)) + (uc_vectors.b.z * (1 : Rat))) + (uc_vectors.c.z * (1 : Rat)))⟩ : Vec3)]

/-- translated from `find_pattern_in_structure` in mofun/mofun.py (FRAGMENT: the unit-cell atoms a partial match already uses; `none` = IndexError / ZeroDivisionError) -/
def findUcAtomsInMatch (structure_len : Nat) (near_indices : List Nat) (match_ : List Nat) : Option (List Int) := do
  let t3 ← (Py.listMapM? match_ (fun m => (do let t1 ← (near_indices[m]?); let t2 ← (Py.intMod? ((t1 : Nat) : Int) ((structure_len : Nat) : Int)); pure t2)))
  pure t3

/-- translated from `find_pattern_in_structure` in mofun/mofun.py (FRAGMENT: may this nearby atom extend the partial match: right element, and not an image of a unit-cell atom the match already uses) -/
def findCandidateOk (structure_len : Nat) (near_types : List String) (pattern_elements : List String) (near_indices : List Nat) (i : Nat) (atom_idx : Nat) (uc_atoms_in_match : List Int) : Option Bool := do
  let t1 ← (near_types[atom_idx]?)
  let t2 ← (pattern_elements[i]?)
  let t5 ← (if (t1 == t2) then (do let t3 ← (near_indices[atom_idx]?); let t4 ← (Py.intMod? ((t3 : Nat) : Int) ((structure_len : Nat) : Int)); pure (!(List.contains uc_atoms_in_match t4))) else (some false))
  pure t5

/-- the default `atol=0.05` of `find_pattern_in_structure` -/
def findFinalCheck_default_atol : Rat := (Dec.toRat ⟨5, 2⟩)

/-- translated from `find_pattern_in_structure` in mofun/mofun.py (FRAGMENT: the final re-check of a candidate, `np.allclose(…, rtol=…, atol=…)` with numpy's defaults for a missing keyword; `none` = ValueError) -/
def findFinalCheck (atol : Rat) (chk_pattern_positions : List Vec3) (atom_positions : List Vec3) : Option Bool := do
  let t1 ← (Py.allclose? atom_positions chk_pattern_positions (0 : Rat) atol)
  pure t1

/-- translated from `_get_positions_from_all_adjacent_unit_cells` in mofun/mofun.py (FRAGMENT for ONE atom: how many whole cells it is away from the home cell, `np.floor(home_positions.dot(np.linalg.inv(cell)) + 1e-9)`; the inverse is expanded as adjugate / determinant) -/
def nearCellsAway (home_positions : Vec3) (cell : Mat3) : Int × Int × Int :=
  ((Py.floor ((((home_positions.x * (((cell.b.y * cell.c.z) - (cell.b.z * cell.c.y)) / (((cell.a.x * ((cell.b.y * cell.c.z) - (cell.b.z * cell.c.y))) - (cell.a.y * ((cell.b.x * cell.c.z) - (cell.b.z * cell.c.x)))) + (cell.a.z * ((cell.b.x * cell.c.y) - (cell.b.y * cell.c.x)))))) + (home_positions.y * ((-((cell.b.x * cell.c.z) - (cell.b.z * cell.c.x))) / (((cell.a.x * ((cell.b.y * cell.c.z) - (cell.b.z * cell.c.y))) - (cell.a.y * ((cell.b.x * cell.c.z) - (cell.b.z * cell.c.x)))) + (cell.a.z * ((cell.b.x * cell.c.y) - (cell.b.y * cell.c.x))))))) + (home_positions.z * (((cell.b.x * cell.c.y) - (cell.b.y * cell.c.x)) / (((cell.a.x * ((cell.b.y * cell.c.z) - (cell.b.z * cell.c.y))) - (cell.a.y * ((cell.b.x * cell.c.z) - (cell.b.z * cell.c.x)))) + (cell.a.z * ((cell.b.x * cell.c.y) - (cell.b.y * cell.c.x))))))) + (Dec.toRat ⟨1, 9⟩))), (Py.floor ((((home_positions.x * ((-((cell.a.y * cell.c.z) - (cell.a.z * cell.c.y))) / (((cell.a.x * ((cell.b.y * cell.c.z) - (cell.b.z * cell.c.y))) - (cell.a.y * ((cell.b.x * cell.c.z) - (cell.b.z * cell.c.x)))) + (cell.a.z * ((cell.b.x * cell.c.y) - (cell.b.y * cell.c.x)))))) + (home_positions.y * (((cell.a.x * cell.c.z) - (cell.a.z * cell.c.x)) / (((cell.a.x * ((cell.b.y * cell.c.z) - (cell.b.z * cell.c.y))) - (cell.a.y * ((cell.b.x * cell.c.z) - (cell.b.z * cell.c.x)))) + (cell.a.z * ((cell.b.x * cell.c.y) - (cell.b.y * cell.c.x))))))) + (home_positions.z * ((-((cell.a.x * cell.c.y) - (cell.a.y * cell.c.x))) / (((cell.a.x * ((cell.b.y * cell.c.z) - (cell.b.z * cell.c.y))) - (cell.a.y * ((cell.b.x * cell.c.z) - (cell.b.z * cell.c.x)))) + (cell.a.z * ((cell.b.x * cell.c.y) - (cell.b.y * cell.c.x))))))) + (Dec.toRat ⟨1, 9⟩))), (Py.floor ((((home_positions.x * (((cell.a.y * cell.b.z) - (cell.a.z * cell.b.y)) / (((cell.a.x * ((cell.b.y * cell.c.z) - (cell.b.z * cell.c.y))) - (cell.a.y * ((cell.b.x * cell.c.z) - (cell.b.z * cell.c.x)))) + (cell.a.z * ((cell.b.x * cell.c.y) - (cell.b.y * cell.c.x)))))) + (home_positions.y * ((-((cell.a.x * cell.b.z) - (cell.a.z * cell.b.x))) / (((cell.a.x * ((cell.b.y * cell.c.z) - (cell.b.z * cell.c.y))) - (cell.a.y * ((cell.b.x * cell.c.z) - (cell.b.z * cell.c.x)))) + (cell.a.z * ((cell.b.x * cell.c.y) - (cell.b.y * cell.c.x))))))) + (home_positions.z * (((cell.a.x * cell.b.y) - (cell.a.y * cell.b.x)) / (((cell.a.x * ((cell.b.y * cell.c.z) - (cell.b.z * cell.c.y))) - (cell.a.y * ((cell.b.x * cell.c.z) - (cell.b.z * cell.c.x)))) + (cell.a.z * ((cell.b.x * cell.c.y) - (cell.b.y * cell.c.x))))))) + (Dec.toRat ⟨1, 9⟩))))

/-- translated from `_get_positions_from_all_adjacent_unit_cells` in mofun/mofun.py (FRAGMENT for ONE atom: its image inside the cell, `home_positions - cells_away.dot(cell)`) -/
def nearHomePosition (home_positions : Vec3) (cell : Mat3) : Vec3 :=
  let cells_away_0 : Int := (Py.floor ((((home_positions.x * (((cell.b.y * cell.c.z) - (cell.b.z * cell.c.y)) / (((cell.a.x * ((cell.b.y * cell.c.z) - (cell.b.z * cell.c.y))) - (cell.a.y * ((cell.b.x * cell.c.z) - (cell.b.z * cell.c.x)))) + (cell.a.z * ((cell.b.x * cell.c.y) - (cell.b.y * cell.c.x)))))) + (home_positions.y * ((-((cell.b.x * cell.c.z) - (cell.b.z * cell.c.x))) / (((cell.a.x * ((cell.b.y * cell.c.z) - (cell.b.z * cell.c.y))) - (cell.a.y * ((cell.b.x * cell.c.z) - (cell.b.z * cell.c.x)))) + (cell.a.z * ((cell.b.x * cell.c.y) - (cell.b.y * cell.c.x))))))) + (home_positions.z * (((cell.b.x * cell.c.y) - (cell.b.y * cell.c.x)) / (((cell.a.x * ((cell.b.y * cell.c.z) - (cell.b.z * cell.c.y))) - (cell.a.y * ((cell.b.x * cell.c.z) - (cell.b.z * cell.c.x)))) + (cell.a.z * ((cell.b.x * cell.c.y) - (cell.b.y * cell.c.x))))))) + (Dec.toRat ⟨1, 9⟩)))
  let cells_away_1 : Int := (Py.floor ((((home_positions.x * ((-((cell.a.y * cell.c.z) - (cell.a.z * cell.c.y))) / (((cell.a.x * ((cell.b.y * cell.c.z) - (cell.b.z * cell.c.y))) - (cell.a.y * ((cell.b.x * cell.c.z) - (cell.b.z * cell.c.x)))) + (cell.a.z * ((cell.b.x * cell.c.y) - (cell.b.y * cell.c.x)))))) + (home_positions.y * (((cell.a.x * cell.c.z) - (cell.a.z * cell.c.x)) / (((cell.a.x * ((cell.b.y * cell.c.z) - (cell.b.z * cell.c.y))) - (cell.a.y * ((cell.b.x * cell.c.z) - (cell.b.z * cell.c.x)))) + (cell.a.z * ((cell.b.x * cell.c.y) - (cell.b.y * cell.c.x))))))) + (home_positions.z * ((-((cell.a.x * cell.c.y) - (cell.a.y * cell.c.x))) / (((cell.a.x * ((cell.b.y * cell.c.z) - (cell.b.z * cell.c.y))) - (cell.a.y * ((cell.b.x * cell.c.z) - (cell.b.z * cell.c.x)))) + (cell.a.z * ((cell.b.x * cell.c.y) - (cell.b.y * cell.c.x))))))) + (Dec.toRat ⟨1, 9⟩)))
  let cells_away_2 : Int := (Py.floor ((((home_positions.x * (((cell.a.y * cell.b.z) - (cell.a.z * cell.b.y)) / (((cell.a.x * ((cell.b.y * cell.c.z) - (cell.b.z * cell.c.y))) - (cell.a.y * ((cell.b.x * cell.c.z) - (cell.b.z * cell.c.x)))) + (cell.a.z * ((cell.b.x * cell.c.y) - (cell.b.y * cell.c.x)))))) + (home_positions.y * ((-((cell.a.x * cell.b.z) - (cell.a.z * cell.b.x))) / (((cell.a.x * ((cell.b.y * cell.c.z) - (cell.b.z * cell.c.y))) - (cell.a.y * ((cell.b.x * cell.c.z) - (cell.b.z * cell.c.x)))) + (cell.a.z * ((cell.b.x * cell.c.y) - (cell.b.y * cell.c.x))))))) + (home_positions.z * (((cell.a.x * cell.b.y) - (cell.a.y * cell.b.x)) / (((cell.a.x * ((cell.b.y * cell.c.z) - (cell.b.z * cell.c.y))) - (cell.a.y * ((cell.b.x * cell.c.z) - (cell.b.z * cell.c.x)))) + (cell.a.z * ((cell.b.x * cell.c.y) - (cell.b.y * cell.c.x))))))) + (Dec.toRat ⟨1, 9⟩)))
  let home_positions_0 : Rat := (home_positions.x - (((((cells_away_0 : Int) : Rat) * cell.a.x) + (((cells_away_1 : Int) : Rat) * cell.b.x)) + (((cells_away_2 : Int) : Rat) * cell.c.x)))
  let home_positions_1 : Rat := (home_positions.y - (((((cells_away_0 : Int) : Rat) * cell.a.y) + (((cells_away_1 : Int) : Rat) * cell.b.y)) + (((cells_away_2 : Int) : Rat) * cell.c.y)))
  let home_positions_2 : Rat := (home_positions.z - (((((cells_away_0 : Int) : Rat) * cell.a.z) + (((cells_away_1 : Int) : Rat) * cell.b.z)) + (((cells_away_2 : Int) : Rat) * cell.c.z)))
  (⟨home_positions_0, home_positions_1, home_positions_2⟩ : Vec3)

/-- translated from `load_p1_cif` in mofun/atoms.py class Atoms (FRAGMENT: the name of the function that reads one entry of the charge column) -/
def cifChargeReader : String :=
  "tofloat"

/-- translated from `load_p1_cif` in mofun/atoms.py class Atoms (FRAGMENT: the name of the function that reads one coordinate) -/
def cifCoordReader : String :=
  "tofloat"

/-- the default `replace_fraction=1.0` of `replace_pattern_in_structure` -/
def replaceUsesSample_default_replace_fraction : Rat := (Dec.toRat ⟨10, 1⟩)

/-- translated from `replace_pattern_in_structure` in mofun/mofun.py (FRAGMENT: is only a sample of the matches replaced) -/
def replaceUsesSample (replace_fraction : Rat) : Bool :=
  (decide (replace_fraction < (Dec.toRat ⟨10, 1⟩)))

/-- the default `replace_fraction=1.0` of `replace_pattern_in_structure` -/
def replaceSampleSize_default_replace_fraction : Rat := (Dec.toRat ⟨10, 1⟩)

/-- translated from `replace_pattern_in_structure` in mofun/mofun.py (FRAGMENT: the number of matches `random.sample` is asked for, `round(replace_fraction * len(match_positions))`) -/
def replaceSampleSize (replace_fraction : Rat) (num_matches : Nat) : Int :=
  (Py.round (replace_fraction * ((num_matches : Nat) : Rat)))

/-- the default `replace_all=False` of `replace_pattern_in_structure` -/
def replaceIndexMap_default_replace_all : Bool := false

/-- translated from `replace_pattern_in_structure` in mofun/mofun.py (FRAGMENT: the structure_index_map of one match — `{}`, then for `not replace_all` the dict comprehension `{k: match_indices[m_i][v] for k, v in replace2search_pattern_map.items()}`; `none` = IndexError) -/
def replaceIndexMap (replace_all : Bool) (match_indices : List (List Nat)) (m_i : Nat) (replace2search_pattern_map : List (Nat × Nat)) : Option (List (Nat × Nat)) := do
  let structure_index_map : List (Nat × Nat) := []
  if (!replace_all) then
    let t3 ← (Py.dictCompM? replace2search_pattern_map (fun (k, v) => (do let t1 ← (match_indices[m_i]?); let t2 ← (t1[v]?); pure (k, t2))))
    let structure_index_map : List (Nat × Nat) := t3
    pure structure_index_map
  else
    pure structure_index_map

/-- translated from `replace_pattern_in_structure` in mofun/mofun.py (FRAGMENT: the atoms one match wants deleted, `set(match_indices[m_i]) - set(structure_index_map.values())`; `none` = IndexError) -/
def replaceDeleteLinker (match_indices : List (List Nat)) (m_i : Nat) (structure_index_map : List (Nat × Nat)) : Option (List Nat) := do
  let t1 ← (match_indices[m_i]?)
  pure (Py.setDiff t1 (Py.dictValues structure_index_map))

/-- the default `ignore_atoms_should_not_be_deleted_twice=False` of `replace_pattern_in_structure` -/
def replaceMergeDelete_default_ignore_atoms_should_not_be_deleted_twice : Bool := false

/-- translated from `replace_pattern_in_structure` in mofun/mofun.py (FRAGMENT: the deletion set after one match — the `if to_delete.isdisjoint(…) or ignore…:` statement with both outcomes; `none` = `raise AtomsShouldNotBeDeletedTwice()`) -/
def replaceMergeDelete (ignore_atoms_should_not_be_deleted_twice : Bool) (to_delete : List Nat) (to_delete_linker : List Nat) : Option (List Nat) := do
  if ((Py.setDisjoint to_delete to_delete_linker) || ignore_atoms_should_not_be_deleted_twice) then
    let to_delete : List Nat := (Py.setUnion to_delete to_delete_linker)
    pure to_delete
  else
    none  -- raise

/-- translated from `translate` in mofun/atoms.py class Atoms for ONE atom: the new value of its row of `self.positions` (`self.positions += delta`, guarded by `len(self) > 0`) -/
def atomsTranslate (positions : Vec3) (self_len : Nat) (delta : Vec3) : Vec3 :=
  if (true && (decide (self_len > 0))) then
    let positions' : Vec3 := (⟨(positions.x + delta.x), (positions.y + delta.y), (positions.z + delta.z)⟩ : Vec3)
    (positions')
  else
    (positions)

/-- translated from `replace_pattern_in_structure` in mofun/mofun.py (FRAGMENT on positions: the two pre-translations `replace_pattern.translate(-search_pattern.positions[0])`, `search_pattern.translate(-search_pattern.positions[0])` IN THE ORDER OF THE SOURCE; result = (a replace-pattern atom, the first search-pattern atom, any other search-pattern atom) afterwards) -/
def replacePretranslate (search_pattern_positions_0 : Vec3) (search_pattern_positions_1 : Vec3) (search_pattern_len : Nat) (replace_pattern_positions_0 : Vec3) (replace_pattern_len : Nat) : Vec3 × Vec3 × Vec3 :=
  let replace_pattern_positions_0' : Vec3 := (atomsTranslate replace_pattern_positions_0 replace_pattern_len (⟨(-search_pattern_positions_0.x), (-search_pattern_positions_0.y), (-search_pattern_positions_0.z)⟩ : Vec3))
  let search_pattern_positions_0' : Vec3 := (atomsTranslate search_pattern_positions_0 search_pattern_len (⟨(-search_pattern_positions_0.x), (-search_pattern_positions_0.y), (-search_pattern_positions_0.z)⟩ : Vec3))
  let search_pattern_positions_1' : Vec3 := (atomsTranslate search_pattern_positions_1 search_pattern_len (⟨(-search_pattern_positions_0.x), (-search_pattern_positions_0.y), (-search_pattern_positions_0.z)⟩ : Vec3))
  (replace_pattern_positions_0', search_pattern_positions_0', search_pattern_positions_1')

/-- translated from `replace_pattern_in_structure` in mofun/mofun.py (FRAGMENT for ONE atom: the wrap into the unit cell, `(new_atoms.positions.dot(np.linalg.inv(cell)) % 1.0).dot(cell)`; the inverse is expanded as adjugate / determinant) -/
def replaceWrap (pos : Vec3) (cell : Mat3) : Vec3 :=
  (⟨((((Py.fmod1 (((pos.x * (((cell.b.y * cell.c.z) - (cell.b.z * cell.c.y)) / (((cell.a.x * ((cell.b.y * cell.c.z) - (cell.b.z * cell.c.y))) - (cell.a.y * ((cell.b.x * cell.c.z) - (cell.b.z * cell.c.x)))) + (cell.a.z * ((cell.b.x * cell.c.y) - (cell.b.y * cell.c.x)))))) + (pos.y * ((-((cell.b.x * cell.c.z) - (cell.b.z * cell.c.x))) / (((cell.a.x * ((cell.b.y * cell.c.z) - (cell.b.z * cell.c.y))) - (cell.a.y * ((cell.b.x * cell.c.z) - (cell.b.z * cell.c.x)))) + (cell.a.z * ((cell.b.x * cell.c.y) - (cell.b.y * cell.c.x))))))) + (pos.z * (((cell.b.x * cell.c.y) - (cell.b.y * cell.c.x)) / (((cell.a.x * ((cell.b.y * cell.c.z) - (cell.b.z * cell.c.y))) - (cell.a.y * ((cell.b.x * cell.c.z) - (cell.b.z * cell.c.x)))) + (cell.a.z * ((cell.b.x * cell.c.y) - (cell.b.y * cell.c.x)))))))) * cell.a.x) + ((Py.fmod1 (((pos.x * ((-((cell.a.y * cell.c.z) - (cell.a.z * cell.c.y))) / (((cell.a.x * ((cell.b.y * cell.c.z) - (cell.b.z * cell.c.y))) - (cell.a.y * ((cell.b.x * cell.c.z) - (cell.b.z * cell.c.x)))) + (cell.a.z * ((cell.b.x * cell.c.y) - (cell.b.y * cell.c.x)))))) + (pos.y * (((cell.a.x * cell.c.z) - (cell.a.z * cell.c.x)) / (((cell.a.x * ((cell.b.y * cell.c.z) - (cell.b.z * cell.c.y))) - (cell.a.y * ((cell.b.x * cell.c.z) - (cell.b.z * cell.c.x)))) + (cell.a.z * ((cell.b.x * cell.c.y) - (cell.b.y * cell.c.x))))))) + (pos.z * ((-((cell.a.x * cell.c.y) - (cell.a.y * cell.c.x))) / (((cell.a.x * ((cell.b.y * cell.c.z) - (cell.b.z * cell.c.y))) - (cell.a.y * ((cell.b.x * cell.c.z) - (cell.b.z * cell.c.x)))) + (cell.a.z * ((cell.b.x * cell.c.y) - (cell.b.y * cell.c.x)))))))) * cell.b.x)) + ((Py.fmod1 (((pos.x * (((cell.a.y * cell.b.z) - (cell.a.z * cell.b.y)) / (((cell.a.x * ((cell.b.y * cell.c.z) - (cell.b.z * cell.c.y))) - (cell.a.y * ((cell.b.x * cell.c.z) - (cell.b.z * cell.c.x)))) + (cell.a.z * ((cell.b.x * cell.c.y) - (cell.b.y * cell.c.x)))))) + (pos.y * ((-((cell.a.x * cell.b.z) - (cell.a.z * cell.b.x))) / (((cell.a.x * ((cell.b.y * cell.c.z) - (cell.b.z * cell.c.y))) - (cell.a.y * ((cell.b.x * cell.c.z) - (cell.b.z * cell.c.x)))) + (cell.a.z * ((cell.b.x * cell.c.y) - (cell.b.y * cell.c.x))))))) + (pos.z * (((cell.a.x * cell.b.y) - (cell.a.y * cell.b.x)) / (((cell.a.x * ((cell.b.y * cell.c.z) - (cell.b.z * cell.c.y))) - (cell.a.y * ((cell.b.x * cell.c.z) - (cell.b.z * cell.c.x)))) + (cell.a.z * ((cell.b.x * cell.c.y) - (cell.b.y * cell.c.x)))))))) * cell.c.x)), ((((Py.fmod1 (((pos.x * (((cell.b.y * cell.c.z) - (cell.b.z * cell.c.y)) / (((cell.a.x * ((cell.b.y * cell.c.z) - (cell.b.z * cell.c.y))) - (cell.a.y * ((cell.b.x * cell.c.z) - (cell.b.z * cell.c.x)))) + (cell.a.z * ((cell.b.x * cell.c.y) - (cell.b.y * cell.c.x)))))) + (pos.y * ((-((cell.b.x * cell.c.z) - (cell.b.z * cell.c.x))) / (((cell.a.x * ((cell.b.y * cell.c.z) - (cell.b.z * cell.c.y))) - (cell.a.y * ((cell.b.x * cell.c.z) - (cell.b.z * cell.c.x)))) + (cell.a.z * ((cell.b.x * cell.c.y) - (cell.b.y * cell.c.x))))))) + (pos.z * (((cell.b.x * cell.c.y) - (cell.b.y * cell.c.x)) / (((cell.a.x * ((cell.b.y * cell.c.z) - (cell.b.z * cell.c.y))) - (cell.a.y * ((cell.b.x * cell.c.z) - (cell.b.z * cell.c.x)))) + (cell.a.z * ((cell.b.x * cell.c.y) - (cell.b.y * cell.c.x)))))))) * cell.a.y) + ((Py.fmod1 (((pos.x * ((-((cell.a.y * cell.c.z) - (cell.a.z * cell.c.y))) / (((cell.a.x * ((cell.b.y * cell.c.z) - (cell.b.z * cell.c.y))) - (cell.a.y * ((cell.b.x * cell.c.z) - (cell.b.z * cell.c.x)))) + (cell.a.z * ((cell.b.x * cell.c.y) - (cell.b.y * cell.c.x)))))) + (pos.y * (((cell.a.x * cell.c.z) - (cell.a.z * cell.c.x)) / (((cell.a.x * ((cell.b.y * cell.c.z) - (cell.b.z * cell.c.y))) - (cell.a.y * ((cell.b.x * cell.c.z) - (cell.b.z * cell.c.x)))) + (cell.a.z * ((cell.b.x * cell.c.y) - (cell.b.y * cell.c.x))))))) + (pos.z * ((-((cell.a.x * cell.c.y) - (cell.a.y * cell.c.x))) / (((cell.a.x * ((cell.b.y * cell.c.z) - (cell.b.z * cell.c.y))) - (cell.a.y * ((cell.b.x * cell.c.z) - (cell.b.z * cell.c.x)))) + (cell.a.z * ((cell.b.x * cell.c.y) - (cell.b.y * cell.c.x)))))))) * cell.b.y)) + ((Py.fmod1 (((pos.x * (((cell.a.y * cell.b.z) - (cell.a.z * cell.b.y)) / (((cell.a.x * ((cell.b.y * cell.c.z) - (cell.b.z * cell.c.y))) - (cell.a.y * ((cell.b.x * cell.c.z) - (cell.b.z * cell.c.x)))) + (cell.a.z * ((cell.b.x * cell.c.y) - (cell.b.y * cell.c.x)))))) + (pos.y * ((-((cell.a.x * cell.b.z) - (cell.a.z * cell.b.x))) / (((cell.a.x * ((cell.b.y * cell.c.z) - (cell.b.z * cell.c.y))) - (cell.a.y * ((cell.b.x * cell.c.z) - (cell.b.z * cell.c.x)))) + (cell.a.z * ((cell.b.x * cell.c.y) - (cell.b.y * cell.c.x))))))) + (pos.z * (((cell.a.x * cell.b.y) - (cell.a.y * cell.b.x)) / (((cell.a.x * ((cell.b.y * cell.c.z) - (cell.b.z * cell.c.y))) - (cell.a.y * ((cell.b.x * cell.c.z) - (cell.b.z * cell.c.x)))) + (cell.a.z * ((cell.b.x * cell.c.y) - (cell.b.y * cell.c.x)))))))) * cell.c.y)), ((((Py.fmod1 (((pos.x * (((cell.b.y * cell.c.z) - (cell.b.z * cell.c.y)) / (((cell.a.x * ((cell.b.y * cell.c.z) - (cell.b.z * cell.c.y))) - (cell.a.y * ((cell.b.x * cell.c.z) - (cell.b.z * cell.c.x)))) + (cell.a.z * ((cell.b.x * cell.c.y) - (cell.b.y * cell.c.x)))))) + (pos.y * ((-((cell.b.x * cell.c.z) - (cell.b.z * cell.c.x))) / (((cell.a.x * ((cell.b.y * cell.c.z) - (cell.b.z * cell.c.y))) - (cell.a.y * ((cell.b.x * cell.c.z) - (cell.b.z * cell.c.x)))) + (cell.a.z * ((cell.b.x * cell.c.y) - (cell.b.y * cell.c.x))))))) + (pos.z * (((cell.b.x * cell.c.y) - (cell.b.y * cell.c.x)) / (((cell.a.x * ((cell.b.y * cell.c.z) - (cell.b.z * cell.c.y))) - (cell.a.y * ((cell.b.x * cell.c.z) - (cell.b.z * cell.c.x)))) + (cell.a.z * ((cell.b.x * cell.c.y) - (cell.b.y * cell.c.x)))))))) * cell.a.z) + ((Py.fmod1 (((pos.x * ((-((cell.a.y * cell.c.z) - (cell.a.z * cell.c.y))) / (((cell.a.x * ((cell.b.y * cell.c.z) - (cell.b.z * cell.c.y))) - (cell.a.y * ((cell.b.x * cell.c.z) - (cell.b.z * cell.c.x)))) + (cell.a.z * ((cell.b.x * cell.c.y) - (cell.b.y * cell.c.x)))))) + (pos.y * (((cell.a.x * cell.c.z) - (cell.a.z * cell.c.x)) / (((cell.a.x * ((cell.b.y * cell.c.z) - (cell.b.z * cell.c.y))) - (cell.a.y * ((cell.b.x * cell.c.z) - (cell.b.z * cell.c.x)))) + (cell.a.z * ((cell.b.x * cell.c.y) - (cell.b.y * cell.c.x))))))) + (pos.z * ((-((cell.a.x * cell.c.y) - (cell.a.y * cell.c.x))) / (((cell.a.x * ((cell.b.y * cell.c.z) - (cell.b.z * cell.c.y))) - (cell.a.y * ((cell.b.x * cell.c.z) - (cell.b.z * cell.c.x)))) + (cell.a.z * ((cell.b.x * cell.c.y) - (cell.b.y * cell.c.x)))))))) * cell.b.z)) + ((Py.fmod1 (((pos.x * (((cell.a.y * cell.b.z) - (cell.a.z * cell.b.y)) / (((cell.a.x * ((cell.b.y * cell.c.z) - (cell.b.z * cell.c.y))) - (cell.a.y * ((cell.b.x * cell.c.z) - (cell.b.z * cell.c.x)))) + (cell.a.z * ((cell.b.x * cell.c.y) - (cell.b.y * cell.c.x)))))) + (pos.y * ((-((cell.a.x * cell.b.z) - (cell.a.z * cell.b.x))) / (((cell.a.x * ((cell.b.y * cell.c.z) - (cell.b.z * cell.c.y))) - (cell.a.y * ((cell.b.x * cell.c.z) - (cell.b.z * cell.c.x)))) + (cell.a.z * ((cell.b.x * cell.c.y) - (cell.b.y * cell.c.x))))))) + (pos.z * (((cell.a.x * cell.b.y) - (cell.a.y * cell.b.x)) / (((cell.a.x * ((cell.b.y * cell.c.z) - (cell.b.z * cell.c.y))) - (cell.a.y * ((cell.b.x * cell.c.z) - (cell.b.z * cell.c.x)))) + (cell.a.z * ((cell.b.x * cell.c.y) - (cell.b.y * cell.c.x)))))))) * cell.c.z))⟩ : Vec3)

/-- the default `max_delta=1e-05` of `find_unchanged_atom_pairs` -/
def findUnchangedAtomPairs_default_max_delta : Rat := (Dec.toRat ⟨1, 5⟩)

/-- translated from `find_unchanged_atom_pairs` in mofun/atoms.py; the structures are given by their position rows and their per-atom element lists (`Atoms.elements`); `none` = IndexError -/
def findUnchangedAtomPairs (orig_structure_positions : List Vec3) (orig_structure_elements : List String) (final_structure_positions : List Vec3) (final_structure_elements : List String) (max_delta : Rat) : Option (List (Nat × Nat)) := do
  let match_pairs : List (Nat × Nat) := []
  let match_pairs ← Py.forFoldM? (Py.enumerate orig_structure_positions) match_pairs (fun match_pairs (i, p1) => do
      let match_pairs ← Py.forBreakM? (Py.enumerate final_structure_positions) match_pairs (fun match_pairs (j, p2) => do
          let t3 ← (if (Py.normLt (⟨(p2.x - p1.x), (p2.y - p1.y), (p2.z - p1.z)⟩ : Vec3) max_delta) then (do let t1 ← (orig_structure_elements[i]?); let t2 ← (final_structure_elements[j]?); pure (t1 == t2)) else (some false))
          if t3 then
            let match_pairs : List (Nat × Nat) := (match_pairs ++ [(i, j)])
            pure (match_pairs, true)
          else
            pure (match_pairs, false)
          )
      pure match_pairs
      )
  pure match_pairs

/-- translated from `atoms_of_type` in mofun/helpers.py: the positions of `element` in `types`, ascending -/
def atomsOfType (types : List String) (element : String) : List Nat :=
  (List.filterMap (fun (i, t) => if ((t == element)) then some i else none) (Py.enumerate types))

/-- translated from `replace_pattern_in_structure` in mofun/mofun.py (FRAGMENT: is the replacement empty, i.e. is this a pure deletion) -/
def replaceEmptyBranch (replace_pattern_len : Nat) : Bool :=
  (replace_pattern_len == 0)

/-- translated from `replace_pattern_in_structure` in mofun/mofun.py (FRAGMENT: the deletion set of the empty-replacement branch, `to_delete |= set([idx for match in match_indices for idx in match])`) -/
def replaceEmptyDelete (to_delete : List Nat) (match_indices : List (List Nat)) : List Nat :=
  let to_delete : List Nat := (Py.setUnion to_delete (List.flatten (List.map (fun match_ => (List.map (fun idx => idx) match_)) match_indices)))
  to_delete

/-- translated from `find_pattern_in_structure` in mofun/mofun.py (FRAGMENT: the grouping key of one candidate, the body of the `key=lambda m: …` handed to group_duplicates: `tuple(sorted([near_indices[i] % len(structure) for i in m]))`; `none` = IndexError / ZeroDivisionError) -/
def findGroupKey (structure_len : Nat) (near_indices : List Nat) (m : List Nat) : Option (List Int) := do
  let t3 ← (Py.listMapM? m (fun i => (do let t1 ← (near_indices[i]?); let t2 ← (Py.intMod? ((t1 : Nat) : Int) ((structure_len : Nat) : Int)); pure t2)))
  pure (Py.sortedAsc t3)

/-- translated from `find_pattern_in_structure` in mofun/mofun.py (FRAGMENT: the reported index tuples, every chosen candidate folded back into the unit cell, in pattern order; `none` = IndexError / ZeroDivisionError) -/
def findMatchTuplesInUc (structure_len : Nat) (near_indices : List Nat) (good_match_index_tuples : List (List Nat)) : Option (List (List Int)) := do
  let t4 ← (Py.listMapM? good_match_index_tuples (fun match_ => (do let t3 ← (Py.listMapM? match_ (fun m => (do let t1 ← (near_indices[m]?); let t2 ← (Py.intMod? ((t1 : Nat) : Int) ((structure_len : Nat) : Int)); pure t2))); pure t3)))
  pure t4

/-- translated from `remove_duplicates` in mofun/helpers.py (FRAGMENT: the `else: # pick first` branch, after the grouping loop: the first member of every group, groups in first-seen order; `random.choice` of the other branch is not translated; `none` = KeyError / IndexError, never raised, see the theorem) -/
def removeDuplicatesFirst {α κ} [DecidableEq κ] (match_indices : List α) (key : α → κ) : Option (List α) := do
  let keyed_tuples : List (κ × (List α)) := []
  let keyed_tuples ← Py.forFoldM? match_indices keyed_tuples (fun keyed_tuples m => do
      let mkey : κ := (key m)
      if (!(Py.dictHas keyed_tuples mkey)) then
        let keyed_tuples : List (κ × (List α)) := (Py.dictSet keyed_tuples mkey [m])
        pure keyed_tuples
      else
        let keyed_tuples ← (Py.dictAppend? keyed_tuples mkey m)
        pure keyed_tuples
      )
  let t2 ← (Py.listMapM? keyed_tuples (fun (_, matches_) => (do let t1 ← (matches_[0]?); pure t1)))
  pure t2

/-- translated from `atoms_by_type_dict` in mofun/helpers.py; the dict is an association list — the ORDER of its keys follows the iteration order of a python set, which is not modelled (here: first occurrence); `none` = KeyError (never raised, see the theorem) -/
def atomsByTypeDict (atom_types : List String) : Option (List (String × (List Nat))) := do
  let atoms_by_type : List (String × (List Nat)) := (Py.dictCompList atom_types (fun k => (k, ([] : List Nat))))
  let atoms_by_type ← Py.forFoldM? (Py.enumerate atom_types) atoms_by_type (fun atoms_by_type (i, k) => do
      let atoms_by_type ← (Py.dictAppend? atoms_by_type k i)
      pure atoms_by_type
      )
  pure atoms_by_type

/-- translated from `find_pattern_in_structure` in mofun/mofun.py (FRAGMENT: the two axis hints after the `if … elif …` that fills in the missing ones; parameters: the hints, the arg-max pair of the squared-distance table `np.unravel_index(np.argmax(p_ss, axis=None), p_ss.shape)`, and the function `x ↦ np.argmax(p_ss[x, :])` — the arg-max itself is not translated) -/
def findAxisHints (axisp1_idx : Option Nat) (axisp2_idx : Option Nat) (farthest_pair : Nat × Nat) (farthest_from : (Option Nat) → Nat) : (Option Nat) × (Option Nat) :=
  if ((Option.isNone axisp1_idx) && (Option.isNone axisp2_idx)) then
    let axisp1_idx : Nat := farthest_pair.1
    let axisp2_idx : Nat := farthest_pair.2
    ((some axisp1_idx), (some axisp2_idx))
  else if ((Option.isNone axisp1_idx) || (Option.isNone axisp2_idx)) then
    let axisp1_idx : Option Nat := (if (Option.isNone axisp1_idx) then axisp2_idx else axisp1_idx)
    let axisp2_idx : Nat := (farthest_from axisp1_idx)
    (axisp1_idx, (some axisp2_idx))
  else
    (axisp1_idx, axisp2_idx)

end Mofun.Generated.Code
