/-
  Code2Cli.lean — how the statements recorded by the generated SEQUENCING slice of `mofun_cli`
  (Generated.Code.mofunCliTrace, emitted by harness/gen_code.py) are read in the vocabulary of Model/Cli.lean.
  Core Lean only.

  The slice lists the simple statements the function executes, as python source text with the locals renamed
  l1, l2, … in order of first assignment.  `evTable` says which library `Call`s of the model each statement stands
  for and from which option each argument comes.  It is the ONLY place where statement texts appear: a statement
  the table does not know (an argument dropped or added, another callee, another target) decodes to `none`.
-/
import MofunModel.Generated.Code
import MofunModel.Model.Cli

namespace Mofun.Code2Cli
open Mofun Mofun.Generated Mofun.Cli

/-- what one executed statement of `mofun_cli` (as recorded by the generated sequencing slice) is in the model:
    the library calls it stands for, with their arguments read from the options; `none` = the statement must not occur
    (its option is absent) -/
def evTable (o : Options) (c : Option CellInfo) : List (String × Option (List Call)) := [
  ("atoms = Atoms.load(inputpath)",
    some [.load o.input]),
  ("print('INFO: Trying input using ASE: %s' % inputpath)",
    some []),
  ("atoms = Atoms.from_ase_atoms(ase.io.read(inputpath))",
    some [.loadAse o.input]),
  ("atoms.cell = Atoms.load(extract_uc_path).cell",
    o.extractUc.map (fun p => [.setCellFrom p])),
  ("l1 = ase.io.read(dumppath, format='lammps-dump-text')",
    o.dumpPath.map (fun _ => [])),
  ("assert len(l1.positions) == len(atoms.positions)",
    some []),
  ("atoms.positions = l1.positions",
    o.dumpPath.map (fun p => [.setPositionsFromDump p])),
  ("l2 = np.array([float(l3.strip()) for l3 in chargefile if l3.strip() != ''])",
    o.chargefile.map (fun _ => [])),
  ("assert len(l2) == len(atoms.positions)",
    some []),
  ("atoms.charges = l2",
    o.chargefile.map (fun f => [.setCharges f])),
  ("atoms = atoms.replicate(replicate)",
    o.replicate.map (fun d => [.replicate d])),
  ("l4 = np.maximum(1, np.array(np.ceil(2 * mic / np.diag(atoms.cell)), dtype=int))",
    o.mic.map (fun _ => [])),
  ("atoms = atoms.replicate(l4)",
    o.mic.map (fun m => match c with
      | some ci => [.micReplicate (micDims m (scaleDiag ci.diag o.replicate))]
      | none => [])),
  ("print('WARNING: Minimimum image convention is only implemented for orthorhombic structures, please use --replicate')",
    o.mic.map (fun _ => match c with
      | some _ => [.micSkippedNotOrtho]
      | none => [])),
  ("assign_pair_params_to_structure(atoms)",
    some [.assignPair]),
  ("print('Cannot perform a replace operation without a find operation')",
    some [.warnReplaceWithoutFind]),
  ("l5 = Atoms.load(find_path)",
    o.findPath.map (fun f => [.loadPattern f])),
  ("l6 = Atoms.load(replace_path)",
    o.replacePath.map (fun r => [.loadPattern r])),
  ("atoms = replace_pattern_in_structure(atoms, l5, l6, atol=atol, axisp1_idx=axisp1_idx, axisp2_idx=axisp2_idx, opoint_idx=opoint_idx, replace_fraction=replace_fraction)",
    some [.replace o.atol o.hints o.replaceFraction]),
  ("l7 = find_pattern_in_structure(atoms, l5, atol=atol, axisp1_idx=axisp1_idx, axisp2_idx=axisp2_idx, opoint_idx=opoint_idx)",
    some [.find o.atol o.hints]),
  ("print('Found %d instances of the search_pattern in the structure' % len(l7))",
    some []),
  ("print(l7)",
    some []),
  ("atoms.symbols[atoms.atom_groups == 0] = framework_element",
    o.frameworkElement.map (fun e => [.setFrameworkElement e])),
  ("atoms.save(outputpath)",
    some [.save o.output]),
  ("print('INFO: Trying output using ASE')",
    some []),
  ("l8 = atoms.to_ase()",
    some []),
  ("l8.symbols[atoms.atom_groups == 0] = framework_element",
    o.frameworkElement.map (fun _ => [])),
  ("l8.set_pbc(True)",
    some []),
  ("l8.write(outputpath)",
    some [.saveAse o.output])]

/-- `none` = a statement the model does not know, or one that occurs although its option is absent -/
def decodeEv (o : Options) (c : Option CellInfo) (ev : String) : Option (List Call) :=
  match lookup (evTable o c) ev with
  | some r => r
  | none => none

/-- the calls a whole trace stands for -/
def decodeAll (o : Options) (c : Option CellInfo) : List String → Option (List Call)
  | [] => some []
  | ev :: rest =>
    match decodeEv o c ev, decodeAll o c rest with
    | some a, some b => some (a ++ b)
    | _, _ => none

theorem decodeAll_append (o : Options) (c : Option CellInfo) (t1 t2 : List String) (s1 s2 : List Call)
    (h1 : decodeAll o c t1 = some s1) (h2 : decodeAll o c t2 = some s2) :
    decodeAll o c (t1 ++ t2) = some (s1 ++ s2) := by
  induction t1 generalizing s1 with
  | nil => simp only [decodeAll] at h1; cases h1; simpa using h2
  | cons ev rest ih =>
    simp only [decodeAll, List.cons_append] at h1 ⊢
    cases hd : decodeEv o c ev with
    | none => simp [hd] at h1
    | some a =>
      cases hr : decodeAll o c rest with
      | none => simp [hd, hr] at h1
      | some b =>
        simp only [hd, hr] at h1
        cases h1
        simp [ih b hr, List.append_assoc]

end Mofun.Code2Cli
