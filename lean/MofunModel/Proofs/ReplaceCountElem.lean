/-
  ReplaceCountElem.lean — helper lemmas for the per-element form of C04's count: counting a value in a list with
  positions deleted (`count_deleteIdx`), `deleteIdx` as "kept positions looked up", what `Atoms.extend` does to the
  list of elements (`extend_elems`), the fold invariant on element lists (`fold_elems`, `state_elems`), and the
  per-match count of removed atoms of one element (`delSet_elem_count`).  Core Lean only.
-/
import MofunModel.Proofs.ReplaceCount
namespace Mofun.C04
open Mofun.C07

/-! ### counting one value in a list with positions deleted -/

theorem win_split {α} [DecidableEq α] (idx : List Nat) (hnd : idx.Nodup) (y : α) (ys : List α) (off : Nat) (e : α) :
    (idx.filter (fun d => decide (off ≤ d ∧ (y :: ys)[d - off]? = some e))).length
      = (if off ∈ idx ∧ y = e then 1 else 0)
        + (idx.filter (fun d => decide (off + 1 ≤ d ∧ ys[d - (off + 1)]? = some e))).length := by
  induction idx with
  | nil => simp
  | cons d ds ih =>
    have hnd' := List.nodup_cons.mp hnd
    rw [length_filter_cons, length_filter_cons, ih hnd'.2]
    by_cases h1 : d = off
    · subst h1
      have hno : d ∉ ds := hnd'.1
      have hb : ¬ (d + 1 ≤ d) := by omega
      by_cases hy : y = e <;> simp [hno, hb, hy]
    · have hmem : (off ∈ d :: ds) ↔ off ∈ ds := by
        simp only [List.mem_cons]
        constructor
        · rintro (h | h)
          · exact absurd h.symm h1
          · exact h
        · exact Or.inr
      by_cases h2 : off + 1 ≤ d
      · have h3 : off ≤ d := by omega
        have h4 : d - off = (d - (off + 1)) + 1 := by omega
        have h5 : (y :: ys)[d - off]? = ys[d - (off + 1)]? := by rw [h4]; rfl
        simp only [hmem, h2, h3, h5, true_and]
        omega
      · have h3 : ¬ off ≤ d := by omega
        simp only [hmem, h2, h3, false_and, decide_false]
        simp

theorem count_go {α} [DecidableEq α] (idx : List Nat) (hnd : idx.Nodup) (l : List α) (off : Nat) (e : α) :
    (deleteIdx.go idx l off).count e
        + (idx.filter (fun d => decide (off ≤ d ∧ l[d - off]? = some e))).length = l.count e := by
  induction l generalizing off with
  | nil => simp [deleteIdx.go]
  | cons y ys ih =>
    rw [win_split idx hnd]
    have := ih (off + 1)
    simp only [Bool.decide_and] at this
    by_cases hm : off ∈ idx <;> by_cases hy : y = e <;>
      simp [deleteIdx.go, hm, hy] <;> omega

/-- **L1.** deleting distinct positions lowers the count of `e` by the number of deleted positions that held `e` -/
theorem count_deleteIdx {α} [DecidableEq α] (l : List α) (idx : List Nat) (hnd : idx.Nodup) (e : α) :
    (deleteIdx l idx).count e + (idx.filter (fun i => decide (l[i]? = some e))).length = l.count e := by
  have := count_go idx hnd l 0 e
  simpa [deleteIdx] using this

theorem map_go {α β} (f : α → β) (idx : List Nat) (l : List α) (off : Nat) :
    (deleteIdx.go idx l off).map f = deleteIdx.go idx (l.map f) off := by
  induction l generalizing off with
  | nil => rfl
  | cons y ys ih =>
    by_cases hm : off ∈ idx <;> simp [deleteIdx.go, hm, ih]

theorem map_deleteIdx {α β} (f : α → β) (l : List α) (idx : List Nat) :
    (deleteIdx l idx).map f = deleteIdx (l.map f) idx := map_go f idx l 0

theorem filterMap_congr' {α β} (l : List α) (f g : α → Option β) (h : ∀ x ∈ l, f x = g x) :
    l.filterMap f = l.filterMap g := by
  induction l with
  | nil => rfl
  | cons x xs ih =>
    simp only [List.filterMap_cons, h x List.mem_cons_self]
    rw [ih (fun x' hx' => h x' (List.mem_cons_of_mem _ hx'))]

/-- **L2.** `deleteIdx` as "the kept positions, looked up" -/
theorem filterMap_range'_eq_go {α} (idx : List Nat) (l : List α) (off : Nat) :
    ((List.range' off l.length).filter (fun i => !idx.contains i)).filterMap (fun i => l[i - off]?)
      = deleteIdx.go idx l off := by
  induction l generalizing off with
  | nil => simp [deleteIdx.go]
  | cons y ys ih =>
    have htail : ((List.range' (off + 1) ys.length).filter (fun i => !idx.contains i)).filterMap
          (fun i => (y :: ys)[i - off]?) = deleteIdx.go idx ys (off + 1) := by
      rw [← ih (off + 1)]
      apply filterMap_congr'
      intro i hi
      have hge : off + 1 ≤ i := by
        have := (List.mem_filter.mp hi).1
        simp only [List.mem_range'_1] at this
        exact this.1
      have : i - off = (i - (off + 1)) + 1 := by omega
      rw [this]; rfl
    simp only [List.contains_eq_mem] at htail
    simp only [List.length_cons, List.range'_succ, List.filter_cons]
    by_cases hm : off ∈ idx
    · simp only [List.contains_eq_mem, hm, decide_true, Bool.not_true, Bool.false_eq_true, if_false, deleteIdx.go,
        if_true]
      exact htail
    · simp only [List.contains_eq_mem, hm, decide_false, Bool.not_false, if_true, List.filterMap_cons, Nat.sub_self,
        List.getElem?_cons_zero, deleteIdx.go, Bool.false_eq_true, if_false]
      rw [htail]

theorem filterMap_range_eq_deleteIdx {α} (idx : List Nat) (l : List α) :
    ((List.range l.length).filter (fun i => !idx.contains i)).filterMap (fun i => l[i]?) = deleteIdx l idx := by
  have := filterMap_range'_eq_go idx l 0
  simpa [List.range_eq_range', deleteIdx] using this

/-- counting over positions = counting over the list -/
theorem count_range {α} [DecidableEq α] (l : List α) (e : α) :
    ((List.range l.length).filter (fun i => decide (l[i]? = some e))).length = l.count e := by
  have h := count_deleteIdx l (List.range l.length) List.nodup_range e
  have hlen := deleteIdx_length l (List.range l.length) List.nodup_range (fun i hi => List.mem_range.mp hi)
  simp only [List.length_range] at hlen
  have : deleteIdx l (List.range l.length) = [] := List.eq_nil_of_length_eq_zero (by omega)
  rw [this] at h
  simpa using h


/-! ### elements of the rows under a type table -/

/-- the element a row's type id resolves to under the element table `T` (`""` outside the table, as `elemOf`) -/
def rowElem (T : List String) (row : AtomRow) : String := T.getD row.ty ""

def elemsOf (T : List String) (rows : List AtomRow) : List String := rows.map (rowElem T)

theorem getD_append_left (sT rT : List String) (ty : Nat) (h : ty < sT.length) :
    (sT ++ rT).getD ty "" = sT.getD ty "" := by
  simp [List.getD_eq_getElem?_getD, List.getElem?_append_left h]

theorem getD_append_right (sT rT : List String) (ty : Nat) :
    (sT ++ rT).getD (ty + sT.length) "" = rT.getD ty "" := by
  simp [List.getD_eq_getElem?_getD, List.getElem?_append_right]

theorem elemOf_eq (a : Atoms) (i : Nat) (row : AtomRow) (h : a.atoms[i]? = some row) :
    a.elemOf i = rowElem a.typeElems row := by
  simp [Atoms.elemOf, h, rowElem]

/-- what one successful `extend` does to the list of elements, when re-typed atoms keep their element -/
theorem extend_elems (a b : Atoms) (offs : Offsets) (map : List (Nat × Nat)) (s' : Atoms)
    (h : a.extend b (some offs) map = .ok s') (sT rT : List String) (hoff : offs.atom = sT.length)
    (H : ∀ kv ∈ map, ∀ row br, a.atoms[kv.2]? = some row → b.atoms[kv.1]? = some br →
        rowElem (sT ++ rT) row = rowElem rT br) :
    elemsOf (sT ++ rT) s'.atoms
      = elemsOf (sT ++ rT) a.atoms ++ deleteIdx (elemsOf rT b.atoms) (map.map (·.1)) := by
  obtain ⟨hat, _, _, _, _, _, hnd, hv⟩ := extend_ok_shape a b offs map s' h
  have hk : ∀ kv ∈ map, kv.1 < b.atoms.length := fun kv hkv => (hv kv hkv).1
  unfold elemsOf
  rw [hat, List.map_append]
  congr 1
  · -- the first |a| rows
    apply List.ext_getElem?
    intro i
    simp only [List.getElem?_map]
    cases hrow : a.atoms[i]? with
    | none =>
      have : (updatedOf a b offs map)[i]? = none := by
        apply List.getElem?_eq_none
        rw [updatedOf_length]
        exact List.getElem?_eq_none_iff.mp hrow
      simp [this]
    | some row =>
      have hpad : (paddedOf a b)[i]? = some { row with extra := padRow row.extra (labelsOf a b).length } := by
        simp [paddedOf, hrow]
      obtain ⟨row', hget, _, hnot, hin⟩ := upd_fold a b offs map hk _ i _ hpad
      have hget' : (updatedOf a b offs map)[i]? = some row' := hget
      rw [hget']
      simp only [Option.map_some, Option.some.injEq]
      by_cases hi : i ∈ map.map (·.2)
      · obtain ⟨kv, hkv, e, br, hbr, hty⟩ := hin hi
        have := H kv hkv row br (by rw [e]; exact hrow) hbr
        rw [this]
        unfold rowElem
        rw [hty, hoff, getD_append_right]
      · rw [hnot hi]; rfl
  · -- the appended rows
    unfold addedOf
    rw [List.map_filterMap]
    have hl : (b.atoms.map (rowElem rT)).length = b.atoms.length := by simp
    rw [← filterMap_range_eq_deleteIdx, hl]
    unfold toAddOf
    apply filterMap_congr'
    intro i _
    cases hb : b.atoms[i]? with
    | none => simp [hb]
    | some br =>
      simp only [hb, List.getElem?_map, Option.map_some, Option.some.injEq]
      unfold rowElem
      simp only
      rw [hoff, getD_append_right]


/-! ### the fold over the matches, on element lists -/

theorem unchangedPairs_elem (orig final : Atoms) (kv : Nat × Nat) (h : kv ∈ unchangedPairs orig final) :
    orig.elemOf kv.1 = final.elemOf kv.2 := by
  rw [unchangedPairs_eq] at h
  obtain ⟨i, _, hf⟩ := List.mem_filterMap.mp h
  unfold partnerOf at hf
  split at hf
  · cases hf
  · simp only [Option.map_eq_some_iff] at hf
    obtain ⟨j, hj, rfl⟩ := hf
    have hp := List.find?_some hj
    split at hp
    · cases hp
    · simp only [Bool.and_eq_true, decide_eq_true_eq] at hp
      exact hp.2

def keysOf (p r : Atoms) (ra : Bool) : List Nat := if ra then [] else (unchangedPairs r p).map (·.1)
def valsOf (p r : Atoms) (ra : Bool) : List Nat := if ra then [] else (unchangedPairs r p).map (·.2)

theorem mapOf_keys' (p r : Atoms) (ra : Bool) (m : PlacedMatch) :
    (mapOf (unchangedPairs r p) ra m).map (·.1) = keysOf p r ra := mapOf_keys _ _ _

theorem keysOf_nodup (p r : Atoms) (ra : Bool) : (keysOf p r ra).Nodup := by
  unfold keysOf
  cases ra
  · simpa using unchangedPairs_keys_nodup r p
  · simp

theorem placeAtoms_elems (cell : Option Mat3) (p0 : Vec3) (r : Atoms) (m : PlacedMatch) (T : List String) :
    elemsOf T (placeAtoms cell p0 r m).atoms = elemsOf T r.atoms := by
  simp [elemsOf, placeAtoms, rowElem, Function.comp_def]

/-- the hypothesis of `extend_elems` for one step: a retained atom carries the element of the replacement atom whose
    type it adopts (the match carries the search pattern's elements; paired atoms have the same element) -/
theorem step_H (s p r : Atoms) (ra : Bool) (m : PlacedMatch) (a : Atoms) (cell : Option Mat3) (p0 : Vec3)
    (hlen : m.idx.length = p.atoms.length) (hidx : ∀ i ∈ m.idx, i < s.atoms.length)
    (hel : ∀ j (hj : j < m.idx.length), s.elemOf m.idx[j] = p.elemOf j)
    (hs : ∀ row ∈ s.atoms, row.ty < s.typeElems.length)
    (ha : (elemsOf (s.typeElems ++ r.typeElems) a.atoms).take s.atoms.length
            = elemsOf (s.typeElems ++ r.typeElems) s.atoms) :
    ∀ kv ∈ mapOf (unchangedPairs r p) ra m, ∀ row br, a.atoms[kv.2]? = some row →
      (placeAtoms cell p0 r m).atoms[kv.1]? = some br →
      rowElem (s.typeElems ++ r.typeElems) row = rowElem r.typeElems br := by
  intro kv hkv row br hrow hbr
  unfold mapOf at hkv
  cases ra with
  | true => simp at hkv
  | false =>
    simp only [Bool.false_eq_true, if_false, List.mem_map] at hkv
    obtain ⟨kv0, hkv0, rfl⟩ := hkv
    obtain ⟨_, hj⟩ := unchangedPairs_valid r p kv0 hkv0
    have hj' : kv0.2 < m.idx.length := by omega
    have hval : m.idx.getD kv0.2 0 = m.idx[kv0.2] := by
      simp [List.getD_eq_getElem?_getD, List.getElem?_eq_getElem hj']
    simp only at hrow hbr
    rw [hval] at hrow
    have hiN : m.idx[kv0.2] < s.atoms.length := hidx _ (List.getElem_mem hj')
    -- the row of `a` at that index has the element of the row of `s`
    obtain ⟨srow, hsrow⟩ : ∃ srow, s.atoms[m.idx[kv0.2]]? = some srow := ⟨_, List.getElem?_eq_getElem hiN⟩
    have h1 : (elemsOf (s.typeElems ++ r.typeElems) a.atoms)[m.idx[kv0.2]]?
        = (elemsOf (s.typeElems ++ r.typeElems) s.atoms)[m.idx[kv0.2]]? := by
      rw [← ha, List.getElem?_take_of_lt hiN]
    simp only [elemsOf, List.getElem?_map, hrow, hsrow, Option.map_some, Option.some.injEq] at h1
    rw [h1]
    have hty : srow.ty < s.typeElems.length := hs srow (List.mem_of_getElem? hsrow)
    have h2 : rowElem (s.typeElems ++ r.typeElems) srow = s.elemOf m.idx[kv0.2] := by
      rw [elemOf_eq s _ srow hsrow]
      unfold rowElem
      exact getD_append_left _ _ _ hty
    rw [h2, hel kv0.2 hj', ← unchangedPairs_elem r p kv0 hkv0]
    obtain ⟨br0, hbr0, hty0, _⟩ := placeAtoms_getElem? _ _ _ _ _ _ hbr
    rw [elemOf_eq r _ br0 hbr0]
    unfold rowElem
    rw [hty0]

/-- **fold invariant on elements.** -/
theorem fold_elems (s p r : Atoms) (offs : Offsets) (ra ig : Bool) (ms : List PlacedMatch)
    (hoff : offs.atom = s.typeElems.length) (hms : ValidMatches s p ms)
    (hel : ∀ m ∈ ms, ∀ j (hj : j < m.idx.length), s.elemOf m.idx[j] = p.elemOf j)
    (hs : ∀ row ∈ s.atoms, row.ty < s.typeElems.length) (e : String)
    (st st' : ReplaceState) (h : ms.foldl (step s p r offs ra ig) (.ok st) = .ok st')
    (hst : (elemsOf (s.typeElems ++ r.typeElems) st.s.atoms).take s.atoms.length
            = elemsOf (s.typeElems ++ r.typeElems) s.atoms) :
    (elemsOf (s.typeElems ++ r.typeElems) st'.s.atoms).take s.atoms.length
        = elemsOf (s.typeElems ++ r.typeElems) s.atoms
    ∧ (elemsOf (s.typeElems ++ r.typeElems) st'.s.atoms).count e
        + ms.length * ((keysOf p r ra).filter (fun k => decide ((elemsOf r.typeElems r.atoms)[k]? = some e))).length
      = (elemsOf (s.typeElems ++ r.typeElems) st.s.atoms).count e
        + ms.length * (elemsOf r.typeElems r.atoms).count e := by
  induction ms generalizing st with
  | nil =>
    simp only [List.foldl_nil, Except.ok.injEq] at h
    subst h
    exact ⟨hst, by simp⟩
  | cons m rest ih =>
    have hm := hms m List.mem_cons_self
    have hrest : ValidMatches s p rest := fun m' h' => hms m' (List.mem_cons_of_mem _ h')
    have helrest : ∀ m' ∈ rest, ∀ j (hj : j < m'.idx.length), s.elemOf m'.idx[j] = p.elemOf j :=
      fun m' h' => hel m' (List.mem_cons_of_mem _ h')
    simp only [List.foldl_cons] at h
    cases hs' : st.s.extend (placeAtoms s.cell (p0Of p) r m) (some offs) (mapOf (unchangedPairs r p) ra m) with
    | error e' =>
      have : step s p r offs ra ig (.ok st) m = .error e' := by simp only [step, hs']
      rw [this, step_error] at h; cases h
    | ok s' =>
      by_cases hc : ((delSet p r ra m).all (fun i => !st.del.contains i) || ig) = true
      · have e2 : step s p r offs ra ig (.ok st) m
            = .ok { s := s', del := st.del ++ (delSet p r ra m).filter (fun i => !st.del.contains i) } := by
          simp only [step, hs', hc, if_true]
        rw [e2] at h
        have hE := extend_elems _ _ _ _ _ hs' s.typeElems r.typeElems hoff
          (step_H s p r ra m st.s s.cell (p0Of p) hm.1 hm.2 (hel m List.mem_cons_self) hs hst)
        rw [placeAtoms_elems, mapOf_keys'] at hE
        have hN : s.atoms.length ≤ (elemsOf (s.typeElems ++ r.typeElems) st.s.atoms).length := by
          have := congrArg List.length hst
          simp only [List.length_take, elemsOf, List.length_map] at this ⊢
          omega
        have hst1 : (elemsOf (s.typeElems ++ r.typeElems) s'.atoms).take s.atoms.length
            = elemsOf (s.typeElems ++ r.typeElems) s.atoms := by
          rw [hE, List.take_append_of_le_length hN]; exact hst
        obtain ⟨i1, i2⟩ := ih hrest helrest _ h hst1
        refine ⟨i1, ?_⟩
        simp only at i2
        rw [hE, List.count_append] at i2
        have hc1 := count_deleteIdx (elemsOf r.typeElems r.atoms) (keysOf p r ra) (keysOf_nodup p r ra) e
        simp only [List.length_cons, Nat.add_mul, Nat.one_mul]
        omega
      · have e2 : step s p r offs ra ig (.ok st) m = .error .overlap := by
          simp only [step, hs', hc, Bool.false_eq_true, if_false]
        rw [e2, step_error] at h; cases h


/-! ### the deleted atoms, per match -/

theorem elems_getElem? (a : Atoms) (i : Nat) (hi : i < a.atoms.length) :
    (elemsOf a.typeElems a.atoms)[i]? = some (a.elemOf i) := by
  have hrow : a.atoms[i]? = some a.atoms[i] := List.getElem?_eq_getElem hi
  simp only [elemsOf, List.getElem?_map, hrow, Option.map_some, Option.some.injEq]
  exact (elemOf_eq a i _ hrow).symm

theorem idx_eq_map (idx : List Nat) : idx = (List.range idx.length).map (fun j => idx.getD j 0) := by
  apply List.ext_getElem
  · simp
  · intro i h1 h2
    simp only [List.getElem_map, List.getElem_range]
    simp [List.getD_eq_getElem?_getD, List.getElem?_eq_getElem h1]

theorem filter_image (idx : List Nat) (P : Nat → Bool) :
    idx.filter P = ((List.range idx.length).filter (fun j => P (idx.getD j 0))).map (fun j => idx.getD j 0) :=
  (congrArg (List.filter P) (idx_eq_map idx)).trans List.filter_map

/-- positions of a duplicate-free sub-list `V ⊆ R`: `#{j ∈ R ∖ V : Q j} + #{j ∈ V : Q j} = #{j ∈ R : Q j}` -/
theorem filter_split (R V : List Nat) (Q : Nat → Bool) (hR : R.Nodup) (hV : V.Nodup) (hsub : ∀ j ∈ V, j ∈ R) :
    (R.filter (fun j => !V.contains j && Q j)).length + (V.filter Q).length = (R.filter Q).length := by
  have h := length_filter_not_mem (R.filter Q) (V.filter Q) (List.Nodup.sublist List.filter_sublist hR)
    (List.Nodup.sublist List.filter_sublist hV)
    (fun x hx => List.mem_filter.mpr ⟨hsub x (List.mem_filter.mp hx).1, (List.mem_filter.mp hx).2⟩)
  rw [List.filter_filter] at h
  have hc : R.filter (fun j => !(V.filter Q).contains j && Q j) = R.filter (fun j => !V.contains j && Q j) := by
    apply List.filter_congr
    intro j _
    by_cases hq : Q j = true
    · simp [List.mem_filter, hq]
    · simp [hq]
  rw [hc] at h
  exact h

/-- the atoms one match removes that carry element `e`: as many as the search-pattern atoms of element `e` that
    are not shared -/
theorem delSet_elem_count (s p r : Atoms) (ra : Bool) (m : PlacedMatch) (e : String)
    (hlen : m.idx.length = p.atoms.length) (hidx : ∀ i ∈ m.idx, i < s.atoms.length) (hnd : m.idx.Nodup)
    (hel : ∀ j (hj : j < m.idx.length), s.elemOf m.idx[j] = p.elemOf j)
    (hinj : ((unchangedPairs r p).map (·.2)).Nodup) :
    ((delSet p r ra m).filter (fun i => decide ((elemsOf s.typeElems s.atoms)[i]? = some e))).length
      + ((valsOf p r ra).filter (fun j => decide ((elemsOf p.typeElems p.atoms)[j]? = some e))).length
      = (elemsOf p.typeElems p.atoms).count e := by
  have hvals : ∀ j ∈ valsOf p r ra, j < m.idx.length := by
    intro j hj
    unfold valsOf at hj
    cases ra with
    | true => simp at hj
    | false =>
      simp only [Bool.false_eq_true, if_false] at hj
      obtain ⟨kv, hkv, rfl⟩ := List.mem_map.mp hj
      have := (unchangedPairs_valid r p kv hkv).2
      omega
  have hvnd : (valsOf p r ra).Nodup := by
    unfold valsOf; cases ra
    · simpa using hinj
    · simp
  have hret : (mapOf (unchangedPairs r p) ra m).map (·.2) = (valsOf p r ra).map (fun j => m.idx.getD j 0) := by
    unfold mapOf valsOf
    cases ra <;> simp [List.map_map, Function.comp_def]
  -- D_m as the image of the unshared pattern positions
  have hget : ∀ j, j < m.idx.length → m.idx.getD j 0 = m.idx[j]?.getD 0 := fun j _ => by
    simp [List.getD_eq_getElem?_getD]
  have hD : delSet p r ra m
      = ((List.range m.idx.length).filter (fun j => !(valsOf p r ra).contains j)).map (fun j => m.idx.getD j 0) := by
    unfold delSet toDeleteOf
    rw [dedup_of_nodup _ hnd, hret, filter_image]
    congr 1
    apply List.filter_congr
    intro j hj
    have hj' : j < m.idx.length := List.mem_range.mp hj
    simp only [List.contains_eq_mem, List.mem_map]
    congr 1
    apply decide_eq_decide.mpr
    constructor
    · rintro ⟨j', hj'v, e'⟩
      have hj'' := hvals j' hj'v
      simp only [List.getD_eq_getElem?_getD, List.getElem?_eq_getElem hj'', List.getElem?_eq_getElem hj',
        Option.getD_some] at e'
      have := (List.getElem_inj hnd).mp e'
      exact this ▸ hj'v
    · intro hjv; exact ⟨j, hjv, rfl⟩
  rw [hD, List.filter_map, List.length_map, List.filter_filter]
  -- translate the element test through the match
  have hQ : (List.range m.idx.length).filter
        (fun j => (((fun i => decide ((elemsOf s.typeElems s.atoms)[i]? = some e)) ∘ fun j => m.idx.getD j 0) j)
          && !(valsOf p r ra).contains j)
      = (List.range m.idx.length).filter
        (fun j => !(valsOf p r ra).contains j && decide ((elemsOf p.typeElems p.atoms)[j]? = some e)) := by
    apply List.filter_congr
    intro j hj
    have hj' : j < m.idx.length := List.mem_range.mp hj
    have hjp : j < p.atoms.length := by omega
    have hiN : m.idx[j] < s.atoms.length := hidx _ (List.getElem_mem hj')
    simp only [Function.comp_def, List.getD_eq_getElem?_getD, List.getElem?_eq_getElem hj', Option.getD_some]
    rw [elems_getElem? s _ hiN, elems_getElem? p _ hjp, hel j hj', Bool.and_comm]
  rw [hQ]
  have hsplit := filter_split (List.range m.idx.length) (valsOf p r ra)
    (fun j => decide ((elemsOf p.typeElems p.atoms)[j]? = some e)) List.nodup_range hvnd
    (fun j hj => List.mem_range.mpr (hvals j hj))
  rw [hsplit]
  have hl : m.idx.length = (elemsOf p.typeElems p.atoms).length := by simp [elemsOf, hlen]
  rw [hl]
  exact count_range _ e

/-- shared atoms have the same element in both patterns, so they cancel in the count -/
theorem keys_vals_count (p r : Atoms) (ra : Bool) (e : String) :
    ((keysOf p r ra).filter (fun k => decide ((elemsOf r.typeElems r.atoms)[k]? = some e))).length
      = ((valsOf p r ra).filter (fun j => decide ((elemsOf p.typeElems p.atoms)[j]? = some e))).length := by
  unfold keysOf valsOf
  cases ra with
  | true => simp
  | false =>
    simp only [Bool.false_eq_true, if_false, List.filter_map, List.length_map]
    congr 1
    apply List.filter_congr
    intro kv hkv
    obtain ⟨h1, h2⟩ := unchangedPairs_valid r p kv hkv
    simp only [Function.comp_def]
    rw [elems_getElem? r _ h1, elems_getElem? p _ h2, unchangedPairs_elem r p kv hkv]


/-! ### the state handed to the final `delete`, on element lists -/

/-- the element table after `extend_types` (untouched for an empty replacement) -/
def newTable (s r : Atoms) : List String := s.typeElems ++ (if r.atoms.isEmpty then [] else r.typeElems)

theorem elems_newTable (s : Atoms) (X : List String) (hs : ∀ row ∈ s.atoms, row.ty < s.typeElems.length) :
    elemsOf (s.typeElems ++ X) s.atoms = elemsOf s.typeElems s.atoms := by
  unfold elemsOf
  apply List.map_congr_left
  intro row hrow
  exact getD_append_left _ _ _ (hs row hrow)

theorem state_elems (s p r : Atoms) (ms : List PlacedMatch) (ra ig : Bool) (st : ReplaceState)
    (h : replaceState s p r ms ra ig = .ok st) (hms : ValidMatches s p ms)
    (hel : ∀ m ∈ ms, ∀ j (hj : j < m.idx.length), s.elemOf m.idx[j] = p.elemOf j)
    (hs : ∀ row ∈ s.atoms, row.ty < s.typeElems.length) (e : String) :
    (elemsOf (newTable s r) st.s.atoms).take s.atoms.length = elemsOf (newTable s r) s.atoms
    ∧ (elemsOf (newTable s r) st.s.atoms).count e
        + ms.length * ((keysOf p r ra).filter (fun k => decide ((elemsOf r.typeElems r.atoms)[k]? = some e))).length
      = (elemsOf (newTable s r) s.atoms).count e + ms.length * (elemsOf r.typeElems r.atoms).count e := by
  unfold replaceState at h
  split at h
  · rename_i he
    have he' : r.atoms = [] := by simpa using he
    simp only [Except.ok.injEq] at h
    subst h
    have hk : keysOf p r ra = [] := by
      unfold keysOf; rw [unchangedPairs_empty r p he']; cases ra <;> rfl
    refine ⟨?_, ?_⟩
    · apply List.take_of_length_le; simp [elemsOf]
    · simp [hk, he', elemsOf]
  · rename_i he
    have he' : r.atoms.isEmpty = false := by simpa using he
    have hT : newTable s r = s.typeElems ++ r.typeElems := by simp [newTable, he']
    rw [hT]
    exact fold_elems s p r _ ra ig ms rfl hms hel hs e _ st h
      (by apply List.take_of_length_le; simp [elemsOf, Atoms.extendTypes])

/-- number of atoms of `a` whose type resolves to element `e` -/
def countElem (a : Atoms) (e : String) : Nat := (elemsOf a.typeElems a.atoms).count e

end Mofun.C04
