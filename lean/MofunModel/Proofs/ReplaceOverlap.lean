/-
  ReplaceOverlap.lean — helper lemmas for C07 (and the shared scaffolding of C04).

  * `step` / `replaceState`: the fold of `replaceCore` (Model/Replace.lean) with its local definitions named;
    `replaceCore_eq` ties them to the frozen model by `rfl`.
  * `Atoms.extend` with given offsets: which errors it can raise, when it succeeds, what its atom rows are
    (own lemmas, namespace `Mofun.C07`; nothing from Proofs/ExtendLemmas.lean).
  * `delStep`: the running deletion set on its own; `fold_link` (guards) / `fold_ok_del` (no guards) reduce the fold
    over the matches to it.
  Core Lean only.
-/
import MofunModel.Model.Replace
import MofunModel.Props.C10

namespace Mofun.C07

/-- `structure_index_map` of one match: replacement-atom index ↦ structure atom (empty with `replace_all`) -/
def mapOf (pairs : List (Nat × Nat)) (replaceAll : Bool) (m : PlacedMatch) : List (Nat × Nat) :=
  if replaceAll then [] else pairs.map (fun kv => (kv.1, m.idx.getD kv.2 0))

/-- `D_m`: `to_delete_linker = set(match) − set(structure_index_map.values())` -/
def delSet (p r : Atoms) (replaceAll : Bool) (m : PlacedMatch) : List Nat :=
  toDeleteOf m ((mapOf (unchangedPairs r p) replaceAll m).map (·.2))

/-- position of the first search-pattern atom (both patterns are translated by its negative) -/
def p0Of (p : Atoms) : Vec3 :=
  match p.atoms[0]? with
  | some row => row.pos
  | none => Vec3.zero

/-- the loop body of `replaceCore`, with its free variables as parameters -/
def step (s p r : Atoms) (offs : Offsets) (replaceAll ignore : Bool)
    (acc : Except Err ReplaceState) (m : PlacedMatch) : Except Err ReplaceState :=
  match acc with
  | .error e => .error e
  | .ok st =>
    match st.s.extend (placeAtoms s.cell (p0Of p) r m) (some offs) (mapOf (unchangedPairs r p) replaceAll m) with
    | .error e => .error e
    | .ok s' =>
      let td := delSet p r replaceAll m
      if td.all (fun i => !st.del.contains i) || ignore then
        .ok { s := s', del := st.del ++ td.filter (fun i => !st.del.contains i) }
      else .error .overlap

/-- everything `replaceCore` does before the final bulk `delete`: the extended structure and the deletion list -/
def replaceState (s p r : Atoms) (ms : List PlacedMatch) (replaceAll ignore : Bool) : Except Err ReplaceState :=
  if r.atoms.isEmpty then .ok { s := s, del := dedup (ms.flatMap (·.idx)) }
  else ms.foldl (step s p r (s.extendTypes r).2 replaceAll ignore) (.ok { s := (s.extendTypes r).1, del := [] })

theorem replaceCore_eq (s p r : Atoms) (ms : List PlacedMatch) (ra ig : Bool) :
    replaceCore s p r ms ra ig =
      match replaceState s p r ms ra ig with
      | .error e => .error e
      | .ok st => st.s.delete st.del := by
  unfold replaceCore replaceState
  split
  · rfl
  · rfl

/-! ### the pieces of `Atoms.extend` (given offsets), named -/

def labelsOf (a b : Atoms) : List String := mergeLabels a.xlabels b.xlabels
def bxOf (a b : Atoms) : List (List String) := b.atoms.map (fun r => matchRow (labelsOf a b) b.xlabels r.extra)
def paddedOf (a b : Atoms) : List AtomRow := a.atoms.map (fun r => { r with extra := padRow r.extra (labelsOf a b).length })
def updStep (a b : Atoms) (offs : Offsets) (rows : List AtomRow) (kv : Nat × Nat) : List AtomRow :=
  match b.atoms[kv.1]?, rows[kv.2]? with
  | some br, some r =>
      rows.set kv.2 { r with ty := br.ty + offs.atom,
                             extra := if decide (a.atoms.length * (labelsOf a b).length > 0) then (bxOf a b).getD kv.1 [] else r.extra }
  | _, _ => rows
def updatedOf (a b : Atoms) (offs : Offsets) (map : List (Nat × Nat)) : List AtomRow :=
  map.foldl (updStep a b offs) (paddedOf a b)
def toAddOf (b : Atoms) (map : List (Nat × Nat)) : List Nat :=
  (List.range b.atoms.length).filter (fun i => !(map.map (·.1)).contains i)
def addedOf (a b : Atoms) (offs : Offsets) (map : List (Nat × Nat)) : List AtomRow :=
  (toAddOf b map).filterMap (fun i => match b.atoms[i]? with
        | some br => some { br with ty := br.ty + offs.atom, extra := (bxOf a b).getD i [] }
        | none => none)
def convOf (a b : Atoms) (map : List (Nat × Nat)) : Nat → Option Nat := fun k =>
  match lookupLast map k with
  | some v => some v
  | none => (indexOf? (toAddOf b map) k).map (· + a.atoms.length)

theorem extend_some_eq (a b : Atoms) (offs : Offsets) (map : List (Nat × Nat)) :
    a.extend b (some offs) map =
      if !(map.map (·.1)).Nodup' then .error .domain
      else if map.any (fun kv => kv.1 ≥ b.atoms.length || kv.2 ≥ a.atoms.length) then .error .index
      else (do
        let bonds ← a.bonds.extendWith b.bonds offs.bond (convOf a b map)
        let angles ← a.angles.extendWith b.angles offs.angle (convOf a b map)
        let dihedrals ← a.dihedrals.extendWith b.dihedrals offs.dihedral (convOf a b map)
        let impropers ← a.impropers.extendWith b.impropers offs.improper (convOf a b map)
        pure { a with
          atoms := updatedOf a b offs map ++ addedOf a b offs map
          xlabels := labelsOf a b
          bonds := bonds, angles := angles, dihedrals := dihedrals, impropers := impropers }) := by
  rfl

/-! ### generic helpers -/

theorem bind_ok {ε α β} (x : Except ε α) (f : α → Except ε β) (v : β) (h : x >>= f = .ok v) :
    ∃ a, x = .ok a ∧ f a = .ok v := by
  cases x with
  | error e => cases h
  | ok a => exact ⟨a, rfl, h⟩

theorem bind_err {ε α β} (x : Except ε α) (f : α → Except ε β) (e : ε) (h : x >>= f = .error e) :
    x = .error e ∨ ∃ a, x = .ok a ∧ f a = .error e := by
  cases x with
  | error e' => left; cases h; rfl
  | ok a => right; exact ⟨a, rfl, h⟩

theorem nodup'_iff {α} [DecidableEq α] (l : List α) : l.Nodup' = true ↔ l.Nodup := by
  induction l with
  | nil => simp [List.Nodup']
  | cons x xs ih => simp [List.Nodup', ih]

theorem lookupLast_go (k : Nat) (map : List (Nat × Nat)) (acc : Option Nat)
    (h : acc.isSome ∨ k ∈ map.map (·.1)) :
    (map.foldl (fun acc kv => if kv.1 = k then some kv.2 else acc) acc).isSome := by
  induction map generalizing acc with
  | nil => simpa using h
  | cons kv rest ih =>
    simp only [List.foldl_cons]
    apply ih
    by_cases hk : kv.1 = k
    · left; simp [hk]
    · simp only [hk, if_false]
      rcases h with h | h
      · left; exact h
      · right
        simp only [List.map_cons, List.mem_cons] at h
        rcases h with h | h
        · exact absurd h.symm hk
        · exact h

theorem lookupLast_isSome (k : Nat) (map : List (Nat × Nat)) (h : k ∈ map.map (·.1)) :
    (lookupLast map k).isSome := lookupLast_go k map none (Or.inr h)

theorem indexOf?_isSome {α} [DecidableEq α] (l : List α) (x : α) (h : x ∈ l) : (indexOf? l x).isSome := by
  induction l with
  | nil => cases h
  | cons y ys ih =>
    unfold indexOf?
    by_cases hy : y = x
    · simp [hy]
    · have : x ∈ ys := by
        rcases List.mem_cons.mp h with h | h
        · exact absurd h.symm hy
        · exact h
      simp [hy, ih this]

/-! ### `extendWith` / `extend`: which errors, when ok -/

theorem extendWith_err (mine other : TermTable) (off : Nat) (conv : Nat → Option Nat) (e : Err)
    (h : mine.extendWith other off conv = .error e) : e = .index := by
  unfold TermTable.extendWith at h
  simp only at h
  split at h
  · cases h
  · split at h
    · cases h; rfl
    · cases h

theorem extendWith_ok (mine other : TermTable) (off : Nat) (conv : Nat → Option Nat)
    (h : ∀ t ∈ other.terms, ∀ a ∈ t.atoms, (conv a).isSome) :
    ∃ t', mine.extendWith other off conv = .ok t' := by
  unfold TermTable.extendWith
  simp only
  split
  · exact ⟨_, rfl⟩
  · split
    · rename_i hany
      obtain ⟨t, ht, ha⟩ := List.any_eq_true.mp hany
      obtain ⟨a, hat, hn⟩ := List.any_eq_true.mp ha
      have := h t ht a hat
      simp at hn
      simp [hn] at this
    · exact ⟨_, rfl⟩

/-- `extend` raises only `.domain` (duplicate keys) or `.index`; in particular never `.overlap` -/
theorem extend_err (a b : Atoms) (offs : Offsets) (map : List (Nat × Nat)) (e : Err)
    (h : a.extend b (some offs) map = .error e) : e = .domain ∨ e = .index := by
  rw [extend_some_eq] at h
  split at h
  · cases h; left; rfl
  · split at h
    · cases h; right; rfl
    · right
      rcases bind_err _ _ _ h with h1 | ⟨_, _, h⟩
      · exact extendWith_err _ _ _ _ _ h1
      rcases bind_err _ _ _ h with h1 | ⟨_, _, h⟩
      · exact extendWith_err _ _ _ _ _ h1
      rcases bind_err _ _ _ h with h1 | ⟨_, _, h⟩
      · exact extendWith_err _ _ _ _ _ h1
      rcases bind_err _ _ _ h with h1 | ⟨_, _, h⟩
      · exact extendWith_err _ _ _ _ _ h1
      · cases h

/-- every atom index used by a term of `b` is inside `b` -/
def TermsValid (b : Atoms) : Prop :=
  ∀ t ∈ b.bonds.terms ++ b.angles.terms ++ b.dihedrals.terms ++ b.impropers.terms, ∀ x ∈ t.atoms, x < b.atoms.length

instance (b : Atoms) : Decidable (TermsValid b) := by unfold TermsValid; infer_instance

theorem convOf_isSome (a b : Atoms) (map : List (Nat × Nat)) (k : Nat) (hk : k < b.atoms.length) :
    (convOf a b map k).isSome := by
  unfold convOf
  by_cases hm : k ∈ map.map (·.1)
  · have := lookupLast_isSome k map hm
    cases hl : lookupLast map k with
    | none => simp [hl] at this
    | some v => simp
  · cases hl : lookupLast map k with
    | some v => simp
    | none =>
      have : k ∈ toAddOf b map := by
        unfold toAddOf
        simp only [List.mem_filter, List.mem_range]
        exact ⟨hk, by simpa using hm⟩
      have := indexOf?_isSome _ _ this
      simp only [Option.isSome_map]
      exact this

/-- the result of a successful `extend` with given offsets -/
theorem extend_ok_shape (a b : Atoms) (offs : Offsets) (map : List (Nat × Nat)) (s' : Atoms)
    (h : a.extend b (some offs) map = .ok s') :
    s'.atoms = updatedOf a b offs map ++ addedOf a b offs map
    ∧ s'.typeElems = a.typeElems ∧ s'.typeLabels = a.typeLabels ∧ s'.typeMasses = a.typeMasses
    ∧ s'.pairCoeffs = a.pairCoeffs ∧ s'.cell = a.cell
    ∧ (map.map (·.1)).Nodup
    ∧ (∀ kv ∈ map, kv.1 < b.atoms.length ∧ kv.2 < a.atoms.length) := by
  rw [extend_some_eq] at h
  split at h
  · cases h
  rename_i hnd
  split at h
  · cases h
  rename_i hany
  obtain ⟨_, _, h⟩ := bind_ok _ _ _ h
  obtain ⟨_, _, h⟩ := bind_ok _ _ _ h
  obtain ⟨_, _, h⟩ := bind_ok _ _ _ h
  obtain ⟨_, _, h⟩ := bind_ok _ _ _ h
  cases h
  refine ⟨rfl, rfl, rfl, rfl, rfl, rfl, ?_, ?_⟩
  · apply (nodup'_iff _).mp; simpa using hnd
  · intro kv hkv
    have : ¬ (kv.1 ≥ b.atoms.length || kv.2 ≥ a.atoms.length) = true := by
      intro hc; exact hany (List.any_eq_true.mpr ⟨kv, hkv, hc⟩)
    simp at this; omega

theorem extend_ok (a b : Atoms) (offs : Offsets) (map : List (Nat × Nat))
    (hnd : (map.map (·.1)).Nodup) (hv : ∀ kv ∈ map, kv.1 < b.atoms.length ∧ kv.2 < a.atoms.length)
    (hb : TermsValid b) : ∃ s', a.extend b (some offs) map = .ok s' := by
  rw [extend_some_eq]
  have h1 : (!(map.map (·.1)).Nodup') = false := by simp [(nodup'_iff _).mpr hnd]
  have h2 : map.any (fun kv => decide (kv.1 ≥ b.atoms.length) || decide (kv.2 ≥ a.atoms.length)) = false := by
    apply List.any_eq_false.mpr
    intro kv hkv
    have := hv kv hkv
    simp; omega
  simp only [h1, h2]
  have hc : ∀ tt : TermTable, (∀ t ∈ tt.terms, ∀ x ∈ t.atoms, x < b.atoms.length) →
      ∀ t ∈ tt.terms, ∀ x ∈ t.atoms, (convOf a b map x).isSome :=
    fun tt h t ht x hx => convOf_isSome a b map x (h t ht x hx)
  unfold TermsValid at hb
  obtain ⟨t1, e1⟩ := extendWith_ok a.bonds b.bonds offs.bond _ (hc b.bonds (fun t ht => hb t (by simp [ht])))
  obtain ⟨t2, e2⟩ := extendWith_ok a.angles b.angles offs.angle _ (hc b.angles (fun t ht => hb t (by simp [ht])))
  obtain ⟨t3, e3⟩ := extendWith_ok a.dihedrals b.dihedrals offs.dihedral _ (hc b.dihedrals (fun t ht => hb t (by simp [ht])))
  obtain ⟨t4, e4⟩ := extendWith_ok a.impropers b.impropers offs.improper _ (hc b.impropers (fun t ht => hb t (by simp [ht])))
  rw [e1, e2, e3, e4]
  exact ⟨_, rfl⟩


/-! ### `dedup`, `toDeleteOf` -/

theorem mem_dedup {α} [DecidableEq α] (l : List α) (x : α) : x ∈ dedup l ↔ x ∈ l := by
  induction l with
  | nil => simp [dedup]
  | cons y ys ih =>
    simp only [dedup, List.mem_cons, List.mem_filter, ih]
    by_cases h : x = y
    · simp [h]
    · simp [h]

theorem nodup_dedup {α} [DecidableEq α] (l : List α) : (dedup l).Nodup := by
  induction l with
  | nil => simp [dedup]
  | cons y ys ih =>
    simp only [dedup, List.nodup_cons]
    refine ⟨?_, List.Nodup.sublist List.filter_sublist ih⟩
    simp

theorem dedup_of_nodup {α} [DecidableEq α] (l : List α) (h : l.Nodup) : dedup l = l := by
  induction l with
  | nil => simp [dedup]
  | cons y ys ih =>
    have h' := List.nodup_cons.mp h
    simp only [dedup, ih h'.2]
    congr 1
    apply List.filter_eq_self.mpr
    intro a ha
    have : a ≠ y := fun e => h'.1 (e ▸ ha)
    simpa using this

theorem mem_toDeleteOf (m : PlacedMatch) (ret : List Nat) (x : Nat) :
    x ∈ toDeleteOf m ret ↔ x ∈ m.idx ∧ x ∉ ret := by
  unfold toDeleteOf
  simp [List.mem_filter, mem_dedup]

theorem nodup_toDeleteOf (m : PlacedMatch) (ret : List Nat) : (toDeleteOf m ret).Nodup :=
  List.Nodup.sublist List.filter_sublist (nodup_dedup _)

theorem mem_delSet_idx (p r : Atoms) (ra : Bool) (m : PlacedMatch) (x : Nat) (h : x ∈ delSet p r ra m) :
    x ∈ m.idx := ((mem_toDeleteOf _ _ _).mp h).1

theorem nodup_delSet (p r : Atoms) (ra : Bool) (m : PlacedMatch) : (delSet p r ra m).Nodup :=
  nodup_toDeleteOf _ _

/-! ### the running deletion set, on its own -/

def delStep (ignore : Bool) (acc : Option (List Nat)) (td : List Nat) : Option (List Nat) :=
  match acc with
  | none => none
  | some del =>
    if td.all (fun i => !del.contains i) || ignore then some (del ++ td.filter (fun i => !del.contains i))
    else none

theorem delFold_none (ig : Bool) (tds : List (List Nat)) : tds.foldl (delStep ig) none = none := by
  induction tds with
  | nil => rfl
  | cons td rest ih => simpa [List.foldl_cons, delStep] using ih

theorem mem_delStep_acc (del td : List Nat) (x : Nat) :
    x ∈ del ++ td.filter (fun i => !del.contains i) ↔ x ∈ del ∨ x ∈ td := by
  simp only [List.mem_append, List.mem_filter]
  by_cases h : x ∈ del <;> simp [h]

/-- without the opt-out flag the running set refuses exactly when some set meets the initial set or two sets meet -/
theorem delFold_none_iff (tds : List (List Nat)) (del : List Nat) :
    tds.foldl (delStep false) (some del) = none ↔
      (∃ td ∈ tds, ∃ x ∈ td, x ∈ del) ∨ ¬ tds.Pairwise (fun a b => ∀ x ∈ a, x ∉ b) := by
  induction tds generalizing del with
  | nil => simp
  | cons td rest ih =>
    simp only [List.foldl_cons, delStep, Bool.or_false]
    by_cases hall : td.all (fun i => !del.contains i) = true
    · simp only [hall, if_true]
      rw [ih]
      have hdis : ∀ x ∈ td, x ∉ del := by
        intro x hx; have := List.all_eq_true.mp hall x hx; simpa using this
      simp only [mem_delStep_acc, List.pairwise_cons]
      constructor
      · rintro (⟨td', htd', x, hx, hxd | hxt⟩ | hnp)
        · left; exact ⟨td', List.mem_cons_of_mem _ htd', x, hx, hxd⟩
        · right; intro hp; exact hp.1 td' htd' x hxt hx
        · right; intro hp; exact hnp hp.2
      · rintro (⟨td', htd', x, hx, hxd⟩ | hnp)
        · rcases List.mem_cons.mp htd' with e | htd'
          · subst e; exact absurd hxd (hdis x hx)
          · left; exact ⟨td', htd', x, hx, Or.inl hxd⟩
        · by_cases hp : rest.Pairwise (fun a b => ∀ x ∈ a, x ∉ b)
          · left
            have : ¬ ∀ b ∈ rest, ∀ x ∈ td, x ∉ b := fun hc => hnp ⟨hc, hp⟩
            apply Classical.byContradiction
            intro hcon
            apply this
            intro b hb x hx hxb
            exact hcon ⟨b, hb, x, hxb, Or.inr hx⟩
          · right; exact hp
    · have hall' : td.all (fun i => !del.contains i) = false := by simpa using hall
      simp only [hall', Bool.false_eq_true, if_false]
      rw [delFold_none]
      simp only [true_iff]
      left
      have : ∃ x ∈ td, x ∈ del := by
        apply Classical.byContradiction
        intro hc
        apply hall
        apply List.all_eq_true.mpr
        intro x hx
        have : x ∉ del := fun hd => hc ⟨x, hx, hd⟩
        simpa using this
      obtain ⟨x, hx, hd⟩ := this
      exact ⟨td, List.mem_cons_self, x, hx, hd⟩

/-- whatever the flag: the final set is duplicate-free and is the union -/
theorem delFold_some (ig : Bool) (tds : List (List Nat)) (del del' : List Nat)
    (h : tds.foldl (delStep ig) (some del) = some del') :
    (∀ x, x ∈ del' ↔ x ∈ del ∨ ∃ td ∈ tds, x ∈ td)
    ∧ (del.Nodup → (∀ td ∈ tds, td.Nodup) → del'.Nodup) := by
  induction tds generalizing del with
  | nil =>
    simp only [List.foldl_nil, Option.some.injEq] at h
    subst h; simp
  | cons td rest ih =>
    simp only [List.foldl_cons, delStep] at h
    split at h
    · obtain ⟨h1, h2⟩ := ih _ h
      constructor
      · intro x
        rw [h1 x, mem_delStep_acc]
        simp only [List.mem_cons, exists_eq_or_imp]
        constructor
        · rintro ((a | b) | c)
          · exact Or.inl a
          · exact Or.inr (Or.inl b)
          · exact Or.inr (Or.inr c)
        · rintro (a | b | c)
          · exact Or.inl (Or.inl a)
          · exact Or.inl (Or.inr b)
          · exact Or.inr c
      · intro hnd htd
        apply h2
        · apply List.nodup_append.mpr
          refine ⟨hnd, List.Nodup.sublist List.filter_sublist (htd td List.mem_cons_self), ?_⟩
          intro a ha b hb hab
          subst hab
          have := (List.mem_filter.mp hb).2
          simp at this
          exact this ha
        · intro td' htd'; exact htd td' (List.mem_cons_of_mem _ htd')
    · rw [delFold_none] at h; cases h

/-- without the flag, on success nothing was filtered: the final list is the concatenation -/
theorem delFold_some_eq (tds : List (List Nat)) (del del' : List Nat)
    (h : tds.foldl (delStep false) (some del) = some del') : del' = del ++ tds.flatten := by
  induction tds generalizing del with
  | nil => simp at h; simp [h]
  | cons td rest ih =>
    simp only [List.foldl_cons, delStep, Bool.or_false] at h
    split at h
    · rename_i hall
      have hf : td.filter (fun i => !del.contains i) = td := by
        apply List.filter_eq_self.mpr
        intro x hx; exact List.all_eq_true.mp hall x hx
      rw [hf] at h
      rw [ih _ h]; simp
    · rw [delFold_none] at h; cases h

theorem delFold_ignore (tds : List (List Nat)) (del : List Nat) :
    ∃ del', tds.foldl (delStep true) (some del) = some del' := by
  induction tds generalizing del with
  | nil => exact ⟨del, rfl⟩
  | cons td rest ih =>
    simp only [List.foldl_cons, delStep, Bool.or_true, if_true]
    exact ih _


/-! ### `unchangedPairs`, the per-match index map, `placeAtoms` -/

theorem filterMap_keys {β} (l : List Nat) (f : Nat → Option (Nat × β)) (hf : ∀ i y, f i = some y → y.1 = i) :
    (l.filterMap f).map (·.1) = l.filter (fun i => (f i).isSome) := by
  induction l with
  | nil => rfl
  | cons x xs ih =>
    simp only [List.filterMap_cons, List.filter_cons]
    cases hx : f x with
    | none => simpa using ih
    | some y => simp [ih, hf x y hx]

/-- the partner search of one atom `i` of `orig` inside `final` -/
def partnerOf (orig final : Atoms) (i : Nat) : Option (Nat × Nat) :=
  match orig.atoms[i]? with
  | none => none
  | some ri =>
    ((List.range final.atoms.length).find? (fun j =>
      match final.atoms[j]? with
      | none => false
      | some rj => decide (distSq rj.pos ri.pos < 1 / 10000000000) && orig.elemOf i = final.elemOf j)).map
      (fun j => (i, j))

theorem unchangedPairs_eq (orig final : Atoms) :
    unchangedPairs orig final = (List.range orig.atoms.length).filterMap (partnerOf orig final) := rfl

theorem partnerOf_spec (orig final : Atoms) (i : Nat) (y : Nat × Nat) (h : partnerOf orig final i = some y) :
    y.1 = i ∧ y.2 < final.atoms.length := by
  unfold partnerOf at h
  split at h
  · cases h
  · simp only [Option.map_eq_some_iff] at h
    obtain ⟨j, hj, rfl⟩ := h
    exact ⟨rfl, List.mem_range.mp (List.mem_of_find?_eq_some hj)⟩

/-- the keys of `unchangedPairs` are distinct atoms of `orig`, in increasing order -/
theorem unchangedPairs_keys_nodup (orig final : Atoms) : ((unchangedPairs orig final).map (·.1)).Nodup := by
  rw [unchangedPairs_eq, filterMap_keys _ _ (fun i y h => (partnerOf_spec orig final i y h).1)]
  exact List.Nodup.sublist List.filter_sublist List.nodup_range

theorem unchangedPairs_valid (orig final : Atoms) (kv : Nat × Nat) (h : kv ∈ unchangedPairs orig final) :
    kv.1 < orig.atoms.length ∧ kv.2 < final.atoms.length := by
  rw [unchangedPairs_eq] at h
  obtain ⟨i, hi, hf⟩ := List.mem_filterMap.mp h
  obtain ⟨h1, h2⟩ := partnerOf_spec orig final i kv hf
  exact ⟨by rw [h1]; exact List.mem_range.mp hi, h2⟩

theorem unchangedPairs_empty (orig final : Atoms) (h : orig.atoms = []) : unchangedPairs orig final = [] := by
  rw [unchangedPairs_eq, h]; rfl

theorem mapOf_keys (pairs : List (Nat × Nat)) (ra : Bool) (m : PlacedMatch) :
    (mapOf pairs ra m).map (·.1) = if ra then [] else pairs.map (·.1) := by
  unfold mapOf
  cases ra <;> simp [List.map_map, Function.comp_def]

theorem mapOf_length (pairs : List (Nat × Nat)) (ra : Bool) (m : PlacedMatch) :
    (mapOf pairs ra m).length = if ra then 0 else pairs.length := by
  unfold mapOf
  cases ra <;> simp

theorem placeAtoms_length (cell : Option Mat3) (p0 : Vec3) (r : Atoms) (m : PlacedMatch) :
    (placeAtoms cell p0 r m).atoms.length = r.atoms.length := by
  simp [placeAtoms]

theorem placeAtoms_termsValid (cell : Option Mat3) (p0 : Vec3) (r : Atoms) (m : PlacedMatch) (h : TermsValid r) :
    TermsValid (placeAtoms cell p0 r m) := by
  unfold TermsValid at *
  simpa [placeAtoms] using h

/-- the guard on the matches: as many indices as the search pattern has atoms, all inside the structure
    (what the search guarantees, `find_shape` of C01) -/
def ValidMatches (s p : Atoms) (ms : List PlacedMatch) : Prop :=
  ∀ m ∈ ms, m.idx.length = p.atoms.length ∧ ∀ i ∈ m.idx, i < s.atoms.length

instance (s p : Atoms) (ms : List PlacedMatch) : Decidable (ValidMatches s p ms) := by
  unfold ValidMatches; infer_instance

/-- every value of the per-match map is an atom of the match -/
theorem mapOf_value_mem (p r : Atoms) (ra : Bool) (m : PlacedMatch) (hlen : m.idx.length = p.atoms.length)
    (kv : Nat × Nat) (h : kv ∈ mapOf (unchangedPairs r p) ra m) :
    kv.1 < r.atoms.length ∧ kv.2 ∈ m.idx := by
  unfold mapOf at h
  cases ra with
  | true => simp at h
  | false =>
    simp only [Bool.false_eq_true, if_false, List.mem_map] at h
    obtain ⟨kv0, hkv0, rfl⟩ := h
    obtain ⟨h1, h2⟩ := unchangedPairs_valid r p kv0 hkv0
    refine ⟨h1, ?_⟩
    have hlt : kv0.2 < m.idx.length := by omega
    simp only [List.getD_eq_getElem?_getD, List.getElem?_eq_getElem hlt, Option.getD_some]
    exact List.getElem_mem hlt

/-! ### rows of the extended structure -/

theorem updStep_length (a b : Atoms) (offs : Offsets) (rows : List AtomRow) (kv : Nat × Nat) :
    (updStep a b offs rows kv).length = rows.length := by
  unfold updStep
  split <;> simp

theorem updFold_length (a b : Atoms) (offs : Offsets) (map : List (Nat × Nat)) (rows : List AtomRow) :
    (map.foldl (updStep a b offs) rows).length = rows.length := by
  induction map generalizing rows with
  | nil => rfl
  | cons kv rest ih => simp [List.foldl_cons, ih, updStep_length]

theorem updatedOf_length (a b : Atoms) (offs : Offsets) (map : List (Nat × Nat)) :
    (updatedOf a b offs map).length = a.atoms.length := by
  unfold updatedOf
  rw [updFold_length]; simp [paddedOf]

/-! ### one step / the whole fold under the guards -/

theorem step_error (s p r : Atoms) (offs : Offsets) (ra ig : Bool) (e : Err) (ms : List PlacedMatch) :
    ms.foldl (step s p r offs ra ig) (.error e) = .error e := by
  induction ms with
  | nil => rfl
  | cons m rest ih => simpa [List.foldl_cons, step] using ih

/-- under the guards the `extend` of a step succeeds and does not shrink the structure -/
theorem step_extend_ok (s p r : Atoms) (offs : Offsets) (ra : Bool) (m : PlacedMatch) (a : Atoms)
    (hr : TermsValid r) (hlen : m.idx.length = p.atoms.length) (hidx : ∀ i ∈ m.idx, i < s.atoms.length)
    (ha : s.atoms.length ≤ a.atoms.length) :
    ∃ s', a.extend (placeAtoms s.cell (p0Of p) r m) (some offs) (mapOf (unchangedPairs r p) ra m) = .ok s'
      ∧ s.atoms.length ≤ s'.atoms.length := by
  have hnd : ((mapOf (unchangedPairs r p) ra m).map (·.1)).Nodup := by
    rw [mapOf_keys]
    cases ra
    · simpa using unchangedPairs_keys_nodup r p
    · simp
  have hv : ∀ kv ∈ mapOf (unchangedPairs r p) ra m,
      kv.1 < (placeAtoms s.cell (p0Of p) r m).atoms.length ∧ kv.2 < a.atoms.length := by
    intro kv hkv
    obtain ⟨h1, h2⟩ := mapOf_value_mem p r ra m hlen kv hkv
    rw [placeAtoms_length]
    exact ⟨h1, Nat.lt_of_lt_of_le (hidx _ h2) ha⟩
  obtain ⟨s', hs'⟩ := extend_ok a _ offs _ hnd hv (placeAtoms_termsValid _ _ _ _ hr)
  refine ⟨s', hs', ?_⟩
  rw [(extend_ok_shape _ _ _ _ _ hs').1, List.length_append, updatedOf_length]
  omega

/-- **link lemma.** Under the guards the fold over the matches is governed by the running deletion set alone -/
theorem fold_link (s p r : Atoms) (offs : Offsets) (ra ig : Bool) (ms : List PlacedMatch)
    (hr : TermsValid r) (hms : ValidMatches s p ms) (st : ReplaceState) (hst : s.atoms.length ≤ st.s.atoms.length) :
    match (ms.map (delSet p r ra)).foldl (delStep ig) (some st.del) with
    | none => ms.foldl (step s p r offs ra ig) (.ok st) = .error .overlap
    | some del' => ∃ st', ms.foldl (step s p r offs ra ig) (.ok st) = .ok st' ∧ st'.del = del'
        ∧ s.atoms.length ≤ st'.s.atoms.length := by
  induction ms generalizing st with
  | nil => exact ⟨st, rfl, rfl, hst⟩
  | cons m rest ih =>
    have hm := hms m List.mem_cons_self
    have hrest : ValidMatches s p rest := fun m' h' => hms m' (List.mem_cons_of_mem _ h')
    obtain ⟨s', hs', hlen'⟩ := step_extend_ok s p r offs ra m st.s hr hm.1 hm.2 hst
    simp only [List.map_cons, List.foldl_cons]
    by_cases hc : ((delSet p r ra m).all (fun i => !st.del.contains i) || ig) = true
    · have e1 : delStep ig (some st.del) (delSet p r ra m)
          = some (st.del ++ (delSet p r ra m).filter (fun i => !st.del.contains i)) := by
        simp only [delStep, hc, if_true]
      have e2 : step s p r offs ra ig (.ok st) m
          = .ok { s := s', del := st.del ++ (delSet p r ra m).filter (fun i => !st.del.contains i) } := by
        simp only [step, hs', hc, if_true]
      rw [e1, e2]
      exact ih hrest { s := s', del := st.del ++ (delSet p r ra m).filter (fun i => !st.del.contains i) } hlen'
    · have e1 : delStep ig (some st.del) (delSet p r ra m) = none := by
        simp only [delStep, hc, Bool.false_eq_true, if_false]
      have e2 : step s p r offs ra ig (.ok st) m = .error .overlap := by
        simp only [step, hs', hc, Bool.false_eq_true, if_false]
      rw [e1, e2, delFold_none, step_error]


/-- unguarded: whenever the fold succeeds, its deletion list is the one the pure fold computes -/
theorem fold_ok_del (s p r : Atoms) (offs : Offsets) (ra ig : Bool) (ms : List PlacedMatch)
    (st st' : ReplaceState) (h : ms.foldl (step s p r offs ra ig) (.ok st) = .ok st') :
    (ms.map (delSet p r ra)).foldl (delStep ig) (some st.del) = some st'.del := by
  induction ms generalizing st with
  | nil => simp only [List.foldl_nil, Except.ok.injEq] at h; subst h; rfl
  | cons m rest ih =>
    simp only [List.map_cons, List.foldl_cons] at h ⊢
    cases hs' : st.s.extend (placeAtoms s.cell (p0Of p) r m) (some offs) (mapOf (unchangedPairs r p) ra m) with
    | error e =>
      have : step s p r offs ra ig (.ok st) m = .error e := by simp only [step, hs']
      rw [this, step_error] at h; cases h
    | ok s' =>
      by_cases hc : ((delSet p r ra m).all (fun i => !st.del.contains i) || ig) = true
      · have e1 : delStep ig (some st.del) (delSet p r ra m)
            = some (st.del ++ (delSet p r ra m).filter (fun i => !st.del.contains i)) := by
          simp only [delStep, hc, if_true]
        have e2 : step s p r offs ra ig (.ok st) m
            = .ok { s := s', del := st.del ++ (delSet p r ra m).filter (fun i => !st.del.contains i) } := by
          simp only [step, hs', hc, if_true]
        rw [e2] at h
        rw [e1]
        exact ih _ h
      · have e2 : step s p r offs ra ig (.ok st) m = .error .overlap := by
          simp only [step, hs', hc, Bool.false_eq_true, if_false]
        rw [e2, step_error] at h; cases h

/-- with the opt-out flag a step never produces the overlap error -/
theorem fold_ignore_ne_overlap (s p r : Atoms) (offs : Offsets) (ra : Bool) (ms : List PlacedMatch)
    (acc : Except Err ReplaceState) (hacc : acc ≠ .error .overlap) :
    ms.foldl (step s p r offs ra true) acc ≠ .error .overlap := by
  induction ms generalizing acc with
  | nil => exact hacc
  | cons m rest ih =>
    simp only [List.foldl_cons]
    apply ih
    cases acc with
    | error e => simpa [step] using hacc
    | ok st =>
      cases hs' : st.s.extend (placeAtoms s.cell (p0Of p) r m) (some offs) (mapOf (unchangedPairs r p) ra m) with
      | error e =>
        have : step s p r offs ra true (.ok st) m = .error e := by simp only [step, hs']
        rw [this]
        rcases extend_err _ _ _ _ _ hs' with rfl | rfl <;> simp
      | ok s' =>
        have : step s p r offs ra true (.ok st) m
            = .ok { s := s', del := st.del ++ (delSet p r ra m).filter (fun i => !st.del.contains i) } := by
          simp only [step, hs', Bool.or_true, if_true]
        rw [this]; simp

theorem delete_ne_overlap (a : Atoms) (idx : List Nat) : a.delete idx ≠ .error .overlap := by
  unfold Atoms.delete
  split <;> simp

/-! ### length of `deleteIdx` -/

theorem cntWin_le (idx : List Nat) (hnd : idx.Nodup) (off x : Nat) : cntWin idx off x ≤ x := by
  induction x generalizing off with
  | zero => simp [cntWin_zero]
  | succ x ih =>
    rw [cntWin_succ idx hnd]
    have := ih (off + 1)
    split <;> omega

theorem deleteIdx_go_length {α} (idx : List Nat) (hnd : idx.Nodup) (l : List α) (off : Nat) :
    (deleteIdx.go idx l off).length + cntWin idx off l.length = l.length := by
  induction l generalizing off with
  | nil => simp [deleteIdx.go, cntWin_zero]
  | cons y ys ih =>
    have := ih (off + 1)
    simp only [List.length_cons]
    rw [cntWin_succ idx hnd]
    by_cases hm : off ∈ idx
    · simp only [deleteIdx.go, List.contains_eq_mem, hm, decide_true, if_true]; omega
    · simp only [deleteIdx.go, List.contains_eq_mem, hm, decide_false, Bool.false_eq_true, if_false, List.length_cons]; omega

/-- distinct valid positions: the list shrinks by exactly their number -/
theorem deleteIdx_length {α} (l : List α) (idx : List Nat) (hnd : idx.Nodup) (hv : ∀ i ∈ idx, i < l.length) :
    (deleteIdx l idx).length + idx.length = l.length := by
  have h := deleteIdx_go_length idx hnd l 0
  have hc : cntWin idx 0 l.length = idx.length := by
    unfold cntWin
    rw [List.filter_eq_self.mpr]
    intro d hd; have := hv d hd; simp; omega
  unfold deleteIdx
  omega

end Mofun.C07
