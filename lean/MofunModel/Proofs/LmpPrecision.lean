/- C13: the printed precision — rounding to micro-units moves a value by at most half a unit (uses `linarith`) -/
import MofunModel.Proofs.LmpLemmas
import Mathlib.Tactic.Linarith
import Mathlib.Tactic.Ring

namespace Mofun.Lmp

/-- the rounded value is within half a micro-unit (in micro-units: `|μ − x·10⁶| ≤ 1/2`) -/
theorem quantMicro_close (x : Rat) :
    ((quantMicro x : Int) : Rat) - x * 1000000 ≤ 1 / 2 ∧ x * 1000000 - ((quantMicro x : Int) : Rat) ≤ 1 / 2 := by
  have h1 := Rat.floor_le (x * 1000000)
  have h2 := Rat.lt_floor_add_one (x * 1000000)
  have h3 : (((x * 1000000).floor + 1 : Int) : Rat) = ((x * 1000000).floor : Rat) + 1 := by push_cast; ring
  rw [h3] at h2
  unfold quantMicro
  simp only []
  split
  · rename_i h; constructor <;> linarith
  · split
    · rename_i _ h; rw [show (((x * 1000000).floor + 1 : Int) : Rat) = ((x * 1000000).floor : Rat) + 1 by push_cast; ring]
      constructor <;> linarith
    · rename_i ha hb
      have hr : x * 1000000 - ((x * 1000000).floor : Rat) = 1 / 2 := by
        have := not_lt.mp ha; have := not_lt.mp hb; linarith
      split
      · constructor <;> linarith
      · rw [show (((x * 1000000).floor + 1 : Int) : Rat) = ((x * 1000000).floor : Rat) + 1 by push_cast; ring]
        constructor <;> linarith

/-- **printed precision.**  One trip moves a number by at most half a unit of the sixth decimal. -/
theorem quant_close (x : Rat) : quant x - x ≤ 1 / 2000000 ∧ x - quant x ≤ 1 / 2000000 := by
  obtain ⟨h1, h2⟩ := quantMicro_close x
  unfold quant ofMicro
  constructor
  · have : ((quantMicro x : Int) : Rat) / 1000000 - x = (((quantMicro x : Int) : Rat) - x * 1000000) / 1000000 := by ring
    rw [this]
    have : (((quantMicro x : Int) : Rat) - x * 1000000) / 1000000 ≤ (1 / 2) / 1000000 :=
      div_le_div_of_nonneg_right h1 (by norm_num)
    linarith
  · have : x - ((quantMicro x : Int) : Rat) / 1000000 = (x * 1000000 - ((quantMicro x : Int) : Rat)) / 1000000 := by ring
    rw [this]
    have : (x * 1000000 - ((quantMicro x : Int) : Rat)) / 1000000 ≤ (1 / 2) / 1000000 :=
      div_le_div_of_nonneg_right h2 (by norm_num)
    linarith

end Mofun.Lmp
