/- helper lemmas for C12 (replicate): extension without identity map, the image grid -/
import MofunModel.Proofs.ExtendLemmas
namespace Mofun
/-! ### extending by a structure with the same label lists and no identity map -/

theorem mem_of_mem_dedup {α} [DecidableEq α] (l : List α) (x : α) (h : x ∈ dedup l) : x ∈ l := by
  induction l with
  | nil => simp [dedup] at h
  | cons y ys ih =>
    unfold dedup at h
    rcases List.mem_cons.mp h with e | e
    · simp [e]
    · exact List.mem_cons_of_mem _ (ih (List.mem_filter.mp e).1)

theorem mergeLabels_self (l : List String) : mergeLabels l l = l := by
  unfold mergeLabels
  have : (dedup l).filter (fun x => !l.contains x) = [] := by
    apply List.filter_eq_nil_iff.mpr
    intro x hx
    simp [mem_of_mem_dedup l x hx]
  rw [this, List.append_nil]

theorem padRow_of_length (row : List String) (w : Nat) (h : row.length = w) : padRow row w = row := by
  simp [padRow, h]

theorem matchRow_self (l : List String) (hnd : l.Nodup) (row : List String) (h : row.length = l.length) :
    matchRow l l row = row := by
  apply List.ext_getElem?
  intro i
  unfold matchRow
  rw [List.getElem?_map]
  by_cases hi : i < l.length
  · rw [List.getElem?_eq_getElem hi, Option.map_some,
      indexOf?_nodup l hnd l[i] i (List.getElem?_eq_getElem hi)]
    have hi' : i < row.length := by omega
    simp [List.getD_eq_getElem?_getD, List.getElem?_eq_getElem hi']
  · rw [List.getElem?_eq_none (by omega), List.getElem?_eq_none (by omega)]; rfl

/-- `extendWith` succeeds as soon as the conversion is defined on every atom used -/
theorem extendWith_total (mine other : TermTable) (off : Nat) (conv : Nat → Option Nat)
    (h : ∀ t ∈ other.terms, ∀ x ∈ t.atoms, (conv x).isSome = true) :
    ∃ res, mine.extendWith other off conv = .ok res := by
  unfold TermTable.extendWith
  by_cases he : other.terms.isEmpty = true
  · simp only [he, if_true]; exact ⟨_, rfl⟩
  · have he' : other.terms.isEmpty = false := by simpa using he
    have hany : (other.terms.any (fun t => t.atoms.any (fun a => (conv a).isNone))) = false := by
      apply List.any_eq_false.mpr
      intro t ht
      have : t.atoms.any (fun a => (conv a).isNone) = false := by
        apply List.any_eq_false.mpr
        intro x hx
        have := h t ht x hx
        cases hc : conv x <;> simp_all
      simp [this]
    simp only [he', hany, Bool.false_eq_true, if_false]
    exact ⟨_, rfl⟩

/-- the hypotheses under which one term kind is extended by pure concatenation -/
structure TabDisjoint (mine other : TermTable) (n m : Nat) : Prop where
  labels : other.xlabels = mine.xlabels
  nodup : mine.xlabels.Nodup
  mineRows : ∀ t ∈ mine.terms, t.extra.length = mine.xlabels.length
  otherRows : ∀ t ∈ other.terms, t.extra.length = mine.xlabels.length
  mineIdx : ∀ t ∈ mine.terms, ∀ x ∈ t.atoms, x < n
  otherIdx : ∀ t ∈ other.terms, t.atoms ≠ [] ∧ ∀ x ∈ t.atoms, x < m

/-- a term of the appended image: atom indices shifted, type shifted -/
def shiftTerm (n off : Nat) (t : Term) : Term := { t with atoms := t.atoms.map (· + n), ty := t.ty + off }

theorem extendWith_disjoint (mine other : TermTable) (n m off : Nat) (conv : Nat → Option Nat)
    (hd : TabDisjoint mine other n m) (hconv : ∀ x, x < m → conv x = some (x + n)) :
    mine.extendWith other off conv
      = .ok { mine with terms := mine.terms ++ other.terms.map (shiftTerm n off) } := by
  have hsome : ∀ t ∈ other.terms, ∀ x ∈ t.atoms, (conv x).isSome = true := by
    intro t ht x hx
    rw [hconv x ((hd.otherIdx t ht).2 x hx)]; rfl
  obtain ⟨res, hres⟩ := extendWith_total mine other off conv hsome
  obtain ⟨h1, h2, h3, _⟩ := extendWith_spec mine other res off conv hres
  rw [hres]
  have hl : mergeLabels mine.xlabels other.xlabels = mine.xlabels := by rw [hd.labels, mergeLabels_self]
  rw [hl] at h1 h2
  have hnew : other.terms.map (convTerm mine.xlabels other.xlabels off conv) = other.terms.map (shiftTerm n off) := by
    apply List.map_congr_left
    intro t ht
    unfold convTerm shiftTerm
    have hat : t.atoms.map (fun a => (conv a).getD 0) = t.atoms.map (· + n) := by
      apply List.map_congr_left
      intro x hx
      rw [hconv x ((hd.otherIdx t ht).2 x hx)]; rfl
    rw [hat, hd.labels, matchRow_self _ hd.nodup _ (hd.otherRows t ht)]
  have hkeep : mine.terms.filter (fun t => !superseded
      ((other.terms.map (convTerm mine.xlabels other.xlabels off conv)).map (·.atoms)) t) = mine.terms := by
    apply List.filter_eq_self.mpr
    intro t ht
    rw [hnew]
    have : superseded ((other.terms.map (shiftTerm n off)).map (·.atoms)) t = false := by
      cases hs : superseded ((other.terms.map (shiftTerm n off)).map (·.atoms)) t with
      | false => rfl
      | true =>
        exfalso
        simp only [superseded, Bool.or_eq_true, List.any_eq_true, decide_eq_true_eq, List.map_map,
          List.mem_map, Function.comp] at hs
        have key : ∀ u ∈ other.terms, ∀ l : List Nat, (∀ y, y ∈ l ↔ y ∈ (shiftTerm n off u).atoms) → t.atoms ≠ l := by
          intro u hu l hl e
          obtain ⟨hne, _⟩ := hd.otherIdx u hu
          obtain ⟨x, hx⟩ := List.exists_mem_of_ne_nil _ hne
          have hmem : x + n ∈ (shiftTerm n off u).atoms := List.mem_map.mpr ⟨x, hx, rfl⟩
          have : x + n ∈ t.atoms := by rw [e]; exact (hl _).mpr hmem
          have := hd.mineIdx t ht _ this
          omega
        rcases hs with ⟨l, ⟨u, hu, rfl⟩, e⟩ | ⟨l, ⟨u, hu, rfl⟩, e⟩
        · exact key u hu _ (fun _ => Iff.rfl) e
        · exact key u hu _ (fun _ => List.mem_reverse) e
    rw [this]; rfl
  have hpad : mine.terms.map (padTerm mine.xlabels.length) = mine.terms := by
    conv => rhs; rw [← List.map_id mine.terms]
    apply List.map_congr_left
    intro t ht
    unfold padTerm
    rw [padRow_of_length _ _ (hd.mineRows t ht)]; rfl
  rw [hkeep, hpad, hnew] at h1
  cases res
  simp_all

/-- hypotheses under which `a.extend b (some o) []` is pure concatenation: same label lists (without repeats),
    every extra row as wide as its label list, every term index inside its own structure, no empty term -/
structure NoMapOK (a b : Atoms) : Prop where
  labels : b.xlabels = a.xlabels
  nodup : a.xlabels.Nodup
  aRows : ∀ r ∈ a.atoms, r.extra.length = a.xlabels.length
  bRows : ∀ r ∈ b.atoms, r.extra.length = a.xlabels.length
  bonds : TabDisjoint a.bonds b.bonds a.atoms.length b.atoms.length
  angles : TabDisjoint a.angles b.angles a.atoms.length b.atoms.length
  dihedrals : TabDisjoint a.dihedrals b.dihedrals a.atoms.length b.atoms.length
  impropers : TabDisjoint a.impropers b.impropers a.atoms.length b.atoms.length

/-- `b` stacked after `a`: atoms appended (types + atom offset), terms appended with indices shifted by `|a|` -/
def stackOn (a b : Atoms) (o : Offsets) : Atoms :=
  { a with
    atoms := a.atoms ++ b.atoms.map (fun r => { r with ty := r.ty + o.atom })
    bonds := { a.bonds with terms := a.bonds.terms ++ b.bonds.terms.map (shiftTerm a.atoms.length o.bond) }
    angles := { a.angles with terms := a.angles.terms ++ b.angles.terms.map (shiftTerm a.atoms.length o.angle) }
    dihedrals := { a.dihedrals with
      terms := a.dihedrals.terms ++ b.dihedrals.terms.map (shiftTerm a.atoms.length o.dihedral) }
    impropers := { a.impropers with
      terms := a.impropers.terms ++ b.impropers.terms.map (shiftTerm a.atoms.length o.improper) } }

theorem extConv_nomap (a b : Atoms) (x : Nat) (hx : x < b.atoms.length) :
    extConv a b [] x = some (x + a.atoms.length) := by
  have hto : extToAdd b [] = List.range b.atoms.length := by
    unfold extToAdd
    apply List.filter_eq_self.mpr
    intro i _; rfl
  have hl : lookupLast [] x = none := rfl
  simp only [extConv, hl, hto, indexOf?_range _ _ hx, Option.map_some]

theorem extend_nomap (a b : Atoms) (o : Offsets) (h : NoMapOK a b) :
    a.extend b (some o) [] = .ok (stackOn a b o) := by
  rw [extend_eq_core]
  show extendCore a o b [] = _
  unfold extendCore
  have g1 : (([] : List (Nat × Nat)).map (·.1)).Nodup' = true := rfl
  have g2 : ([] : List (Nat × Nat)).any (fun kv => decide (kv.1 ≥ b.atoms.length) || decide (kv.2 ≥ a.atoms.length)) = false := rfl
  simp only [g1, g2, Bool.not_true, Bool.false_eq_true, if_false]
  rw [extendWith_disjoint _ _ _ _ _ _ h.bonds (extConv_nomap a b),
    extendWith_disjoint _ _ _ _ _ _ h.angles (extConv_nomap a b),
    extendWith_disjoint _ _ _ _ _ _ h.dihedrals (extConv_nomap a b),
    extendWith_disjoint _ _ _ _ _ _ h.impropers (extConv_nomap a b)]
  simp only [bind, Except.bind, pure, Except.pure]
  have hl : extLabels a b = a.xlabels := by unfold extLabels; rw [h.labels, mergeLabels_self]
  have hpad : extPadded a b = a.atoms := by
    unfold extPadded
    conv => rhs; rw [← List.map_id a.atoms]
    apply List.map_congr_left
    intro r hr
    rw [hl, padRow_of_length _ _ (h.aRows r hr)]; rfl
  have hadd : extAdded a b o [] = b.atoms.map (fun r => { r with ty := r.ty + o.atom }) := by
    rw [extAdded_eq]
    have hf : (b.atoms.zipIdx).filter (fun q => !(([] : List (Nat × Nat)).map (·.1)).contains q.2) = b.atoms.zipIdx :=
      List.filter_eq_self.mpr (fun _ _ => rfl)
    rw [hf]
    have hm : (b.atoms.zipIdx).map (fun q => appendRow a b o q.1) = (b.atoms.zipIdx.map Prod.fst).map (appendRow a b o) := by
      rw [List.map_map]; rfl
    rw [hm, List.zipIdx_map_fst]
    apply List.map_congr_left
    intro r hr
    unfold appendRow
    rw [hl, h.labels, matchRow_self _ h.nodup _ (h.bRows r hr)]
  simp only [List.foldl_nil, hpad, hadd, hl]
  rfl

/-! ### replicate: the fold over the images -/

/-- well-formedness of one term kind (decidable): labels without repeats, every extra row as wide as the labels,
    no empty term, every atom index inside the structure -/
def TabWF (t : TermTable) (n : Nat) : Prop :=
  t.xlabels.Nodup ∧ ∀ u ∈ t.terms, u.extra.length = t.xlabels.length ∧ u.atoms ≠ [] ∧ ∀ x ∈ u.atoms, x < n

instance (t : TermTable) (n : Nat) : Decidable (TabWF t n) := by unfold TabWF; infer_instance

/-- well-formedness guard of the replicate theorems (decidable; every object the constructor accepts meets it) -/
def RepWF (a : Atoms) : Prop :=
  a.xlabels.Nodup ∧ (∀ r ∈ a.atoms, r.extra.length = a.xlabels.length)
  ∧ TabWF a.bonds a.atoms.length ∧ TabWF a.angles a.atoms.length
  ∧ TabWF a.dihedrals a.atoms.length ∧ TabWF a.impropers a.atoms.length

instance (a : Atoms) : Decidable (RepWF a) := by unfold RepWF; infer_instance

/-- a term copied into an image: only the atom indices move -/
def shiftAtoms (n : Nat) (t : Term) : Term := { t with atoms := t.atoms.map (· + n) }

theorem shiftTerm_zero (n : Nat) : shiftTerm n 0 = shiftAtoms n := rfl

theorem shiftAtoms_zero (t : Term) : shiftAtoms 0 t = t := by
  cases t; simp [shiftAtoms]

/-- one image `img` (a translated copy of the unit cell content) stacked on what has been built so far -/
def stack0 (acc img : Atoms) : Atoms :=
  { acc with
    atoms := acc.atoms ++ img.atoms
    bonds := { acc.bonds with terms := acc.bonds.terms ++ img.bonds.terms.map (shiftAtoms acc.atoms.length) }
    angles := { acc.angles with terms := acc.angles.terms ++ img.angles.terms.map (shiftAtoms acc.atoms.length) }
    dihedrals := { acc.dihedrals with
      terms := acc.dihedrals.terms ++ img.dihedrals.terms.map (shiftAtoms acc.atoms.length) }
    impropers := { acc.impropers with
      terms := acc.impropers.terms ++ img.impropers.terms.map (shiftAtoms acc.atoms.length) } }

theorem stackOn_zero (acc img : Atoms) : stackOn acc img Offsets.zero = stack0 acc img := by
  unfold stackOn stack0
  have : img.atoms.map (fun r => { r with ty := r.ty + Offsets.zero.atom }) = img.atoms := by
    conv => rhs; rw [← List.map_id img.atoms]
    apply List.map_congr_left
    intro r _; rfl
  rw [this]; rfl

/-- what is preserved along the fold: labels are `a`'s, rows have the right width, term indices are inside -/
structure RepInv (a acc : Atoms) : Prop where
  xl : acc.xlabels = a.xlabels
  rows : ∀ r ∈ acc.atoms, r.extra.length = a.xlabels.length
  bl : acc.bonds.xlabels = a.bonds.xlabels
  al : acc.angles.xlabels = a.angles.xlabels
  dl : acc.dihedrals.xlabels = a.dihedrals.xlabels
  il : acc.impropers.xlabels = a.impropers.xlabels
  bt : ∀ t ∈ acc.bonds.terms, t.extra.length = a.bonds.xlabels.length ∧ ∀ x ∈ t.atoms, x < acc.atoms.length
  at' : ∀ t ∈ acc.angles.terms, t.extra.length = a.angles.xlabels.length ∧ ∀ x ∈ t.atoms, x < acc.atoms.length
  dt : ∀ t ∈ acc.dihedrals.terms, t.extra.length = a.dihedrals.xlabels.length ∧ ∀ x ∈ t.atoms, x < acc.atoms.length
  it : ∀ t ∈ acc.impropers.terms, t.extra.length = a.impropers.xlabels.length ∧ ∀ x ∈ t.atoms, x < acc.atoms.length

theorem repInv_self (a : Atoms) (h : RepWF a) : RepInv a a := by
  obtain ⟨_, h2, h3, h4, h5, h6⟩ := h
  exact ⟨rfl, h2, rfl, rfl, rfl, rfl,
    fun t ht => ⟨(h3.2 t ht).1, (h3.2 t ht).2.2⟩, fun t ht => ⟨(h4.2 t ht).1, (h4.2 t ht).2.2⟩,
    fun t ht => ⟨(h5.2 t ht).1, (h5.2 t ht).2.2⟩, fun t ht => ⟨(h6.2 t ht).1, (h6.2 t ht).2.2⟩⟩

theorem tabDisjoint_of (mine other : TermTable) (n m : Nat) (hw : TabWF other m)
    (hl : mine.xlabels = other.xlabels)
    (hm : ∀ t ∈ mine.terms, t.extra.length = other.xlabels.length ∧ ∀ x ∈ t.atoms, x < n) :
    TabDisjoint mine other n m :=
  ⟨hl.symm, hl ▸ hw.1, fun t ht => hl ▸ (hm t ht).1, fun t ht => hl ▸ (hw.2 t ht).1,
   fun t ht => (hm t ht).2, fun t ht => (hw.2 t ht).2⟩

theorem translate_fields (a : Atoms) (d : Vec3) :
    (a.translate d).bonds = a.bonds ∧ (a.translate d).angles = a.angles
    ∧ (a.translate d).dihedrals = a.dihedrals ∧ (a.translate d).impropers = a.impropers
    ∧ (a.translate d).xlabels = a.xlabels ∧ (a.translate d).atoms.length = a.atoms.length := by
  simp [Atoms.translate]

theorem noMapOK_step (a acc : Atoms) (d : Vec3) (hw : RepWF a) (hi : RepInv a acc) :
    NoMapOK acc (a.translate d) := by
  obtain ⟨w1, w2, w3, w4, w5, w6⟩ := hw
  obtain ⟨f1, f2, f3, f4, f5, f6⟩ := translate_fields a d
  refine ⟨by rw [f5, hi.xl], hi.xl ▸ w1, fun r hr => hi.xl ▸ hi.rows r hr, ?_, ?_, ?_, ?_, ?_⟩
  · intro r hr
    rw [hi.xl]
    simp only [Atoms.translate, List.mem_map] at hr
    obtain ⟨r0, hr0, rfl⟩ := hr
    exact w2 r0 hr0
  · rw [f1, f6]; exact tabDisjoint_of _ _ _ _ w3 hi.bl hi.bt
  · rw [f2, f6]; exact tabDisjoint_of _ _ _ _ w4 hi.al hi.at'
  · rw [f3, f6]; exact tabDisjoint_of _ _ _ _ w5 hi.dl hi.dt
  · rw [f4, f6]; exact tabDisjoint_of _ _ _ _ w6 hi.il hi.it

theorem repInv_step (a acc : Atoms) (d : Vec3) (hw : RepWF a) (hi : RepInv a acc) :
    RepInv a (stack0 acc (a.translate d)) := by
  obtain ⟨w1, w2, w3, w4, w5, w6⟩ := hw
  have hterms : ∀ (mine other : TermTable) (n m : Nat), TabWF other m →
      (∀ t ∈ mine.terms, t.extra.length = other.xlabels.length ∧ ∀ x ∈ t.atoms, x < n) →
      ∀ t ∈ mine.terms ++ other.terms.map (shiftAtoms n),
        t.extra.length = other.xlabels.length ∧ ∀ x ∈ t.atoms, x < n + m := by
    intro mine other n m hwf hm t ht
    rcases List.mem_append.mp ht with h | h
    · exact ⟨(hm t h).1, fun x hx => by have := (hm t h).2 x hx; omega⟩
    · obtain ⟨u, hu, rfl⟩ := List.mem_map.mp h
      refine ⟨(hwf.2 u hu).1, ?_⟩
      intro x hx
      obtain ⟨y, hy, rfl⟩ := List.mem_map.mp hx
      have := (hwf.2 u hu).2.2 y hy
      omega
  have hlen : (stack0 acc (a.translate d)).atoms.length = acc.atoms.length + a.atoms.length := by
    simp [stack0, Atoms.translate]
  refine ⟨hi.xl, ?_, hi.bl, hi.al, hi.dl, hi.il, ?_, ?_, ?_, ?_⟩
  · intro r hr
    rcases List.mem_append.mp hr with h | h
    · exact hi.rows r h
    · simp only [Atoms.translate, List.mem_map] at h
      obtain ⟨r0, hr0, rfl⟩ := h
      exact w2 r0 hr0
  · rw [hlen]; exact hterms acc.bonds a.bonds _ _ w3 hi.bt
  · rw [hlen]; exact hterms acc.angles a.angles _ _ w4 hi.at'
  · rw [hlen]; exact hterms acc.dihedrals a.dihedrals _ _ w5 hi.dt
  · rw [hlen]; exact hterms acc.impropers a.impropers _ _ w6 hi.it

/-- the fold of `replicate` never fails on a well-formed structure and is the pure stacking of the images -/
theorem replicate_fold (a : Atoms) (cell : Mat3) (hw : RepWF a) (ms : List (Nat × Nat × Nat)) (acc : Atoms)
    (hi : RepInv a acc) :
    ms.foldl (fun (acc : Except Err Atoms) (m : Nat × Nat × Nat) =>
        match acc with
        | .error e => .error e
        | .ok r => r.extend (a.translate (cell.lattice m.1 m.2.1 m.2.2)) (some Offsets.zero) []) (.ok acc)
      = .ok (ms.foldl (fun acc m => stack0 acc (a.translate (cell.lattice m.1 m.2.1 m.2.2))) acc)
    ∧ RepInv a (ms.foldl (fun acc m => stack0 acc (a.translate (cell.lattice m.1 m.2.1 m.2.2))) acc) := by
  induction ms generalizing acc with
  | nil => exact ⟨rfl, hi⟩
  | cons m ms ih =>
    simp only [List.foldl_cons]
    rw [extend_nomap _ _ _ (noMapOK_step a acc _ hw hi), stackOn_zero]
    exact ih _ (repInv_step a acc _ hw hi)

/-! closed form of the pure stacking -/

theorem stackFold_atoms (a : Atoms) (ds : List Vec3) (acc : Atoms) :
    (ds.foldl (fun acc d => stack0 acc (a.translate d)) acc).atoms
      = acc.atoms ++ ds.flatMap (fun d => (a.translate d).atoms) := by
  induction ds generalizing acc with
  | nil => simp
  | cons d ds ih => rw [List.foldl_cons, ih]; simp [stack0]

theorem stackFold_length (a : Atoms) (ds : List Vec3) (acc : Atoms) :
    (ds.foldl (fun acc d => stack0 acc (a.translate d)) acc).atoms.length
      = acc.atoms.length + ds.length * a.atoms.length := by
  induction ds generalizing acc with
  | nil => simp
  | cons d ds ih =>
    rw [List.foldl_cons, ih]
    simp only [stack0, List.length_append, List.length_cons, Atoms.translate, List.length_map]
    rw [Nat.succ_mul]; omega

/-- the copies of one term list made by `count` images appended after `start` atoms -/
def imageTerms (ts : List Term) (n start count : Nat) : List Term :=
  (List.range count).flatMap (fun p => ts.map (shiftAtoms (start + p * n)))

theorem imageTerms_succ (ts : List Term) (n start count : Nat) :
    imageTerms ts n start (count + 1) = ts.map (shiftAtoms start) ++ imageTerms ts n (start + n) count := by
  unfold imageTerms
  rw [List.range_succ_eq_map, List.flatMap_cons, List.flatMap_map]
  congr 1
  · simp
  · congr 1
    funext p
    simp only [Function.comp]
    congr 2
    rw [Nat.succ_mul]; omega

theorem stackFold_terms (a : Atoms) (ds : List Vec3) (acc : Atoms) :
    let r := ds.foldl (fun acc d => stack0 acc (a.translate d)) acc
    r.bonds.terms = acc.bonds.terms ++ imageTerms a.bonds.terms a.atoms.length acc.atoms.length ds.length
    ∧ r.angles.terms = acc.angles.terms ++ imageTerms a.angles.terms a.atoms.length acc.atoms.length ds.length
    ∧ r.dihedrals.terms = acc.dihedrals.terms ++ imageTerms a.dihedrals.terms a.atoms.length acc.atoms.length ds.length
    ∧ r.impropers.terms = acc.impropers.terms ++ imageTerms a.impropers.terms a.atoms.length acc.atoms.length ds.length := by
  induction ds generalizing acc with
  | nil => simp [imageTerms]
  | cons d ds ih =>
    have hlen : (stack0 acc (a.translate d)).atoms.length = acc.atoms.length + a.atoms.length := by
      simp [stack0, Atoms.translate]
    have := ih (stack0 acc (a.translate d))
    simp only [List.foldl_cons, List.length_cons, imageTerms_succ]
    simp only [hlen] at this
    obtain ⟨h1, h2, h3, h4⟩ := this
    refine ⟨?_, ?_, ?_, ?_⟩
    · rw [h1]; simp [stack0, Atoms.translate]
    · rw [h2]; simp [stack0, Atoms.translate]
    · rw [h3]; simp [stack0, Atoms.translate]
    · rw [h4]; simp [stack0, Atoms.translate]

theorem stackFold_rest (a : Atoms) (ds : List Vec3) (acc : Atoms) :
    let r := ds.foldl (fun acc d => stack0 acc (a.translate d)) acc
    r.typeElems = acc.typeElems ∧ r.typeLabels = acc.typeLabels ∧ r.typeMasses = acc.typeMasses
    ∧ r.pairCoeffs = acc.pairCoeffs ∧ r.xlabels = acc.xlabels ∧ r.cell = acc.cell
    ∧ r.bonds.coeffs = acc.bonds.coeffs ∧ r.angles.coeffs = acc.angles.coeffs
    ∧ r.dihedrals.coeffs = acc.dihedrals.coeffs ∧ r.impropers.coeffs = acc.impropers.coeffs
    ∧ r.bonds.xlabels = acc.bonds.xlabels ∧ r.angles.xlabels = acc.angles.xlabels
    ∧ r.dihedrals.xlabels = acc.dihedrals.xlabels ∧ r.impropers.xlabels = acc.impropers.xlabels := by
  induction ds generalizing acc with
  | nil => simp
  | cons d ds ih =>
    have := ih (stack0 acc (a.translate d))
    simpa [List.foldl_cons, stack0] using this

end Mofun
