/- helper lemmas for C12 (replicate): the fold over the images, the image grid, lattice index division -/
import MofunModel.Proofs.ExtendLemmas
namespace Mofun
/-! ### replicate: the fold over the images -/

/-- well-formedness of one term kind (decidable): labels without repeats, every extra row as wide as the labels,
    no empty term, every atom index inside the structure -/
def TabWF (t : TermTable) (n : Nat) : Prop :=
  t.xlabels.Nodup ∧ ∀ u ∈ t.terms, u.extra.length = t.xlabels.length ∧ u.atoms ≠ [] ∧ ∀ x ∈ u.atoms, x < n

instance (t : TermTable) (n : Nat) : Decidable (TabWF t n) := by unfold TabWF; infer_instance

/-- well-formedness guard of the replicate theorems (decidable; every object the constructor accepts meets it) -/
def RepWF (a : Atoms) : Prop :=
  a.xlabels.Nodup ∧ (∀ r ∈ a.atoms, r.extra.length = a.xlabels.length)
  ∧ TabWF a.bonds a.atoms.length ∧ TabWF a.angles a.atoms.length
  ∧ TabWF a.dihedrals a.atoms.length ∧ TabWF a.impropers a.atoms.length

instance (a : Atoms) : Decidable (RepWF a) := by unfold RepWF; infer_instance

/-- a term copied into an image: only the atom indices move -/
def shiftAtoms (n : Nat) (t : Term) : Term := { t with atoms := t.atoms.map (· + n) }

theorem shiftTerm_zero (n : Nat) : shiftTerm n 0 = shiftAtoms n := rfl

theorem shiftAtoms_zero (t : Term) : shiftAtoms 0 t = t := by
  cases t; simp [shiftAtoms]

/-- one image `img` (a translated copy of the unit cell content) stacked on what has been built so far -/
def stack0 (acc img : Atoms) : Atoms :=
  { acc with
    atoms := acc.atoms ++ img.atoms
    bonds := { acc.bonds with terms := acc.bonds.terms ++ img.bonds.terms.map (shiftAtoms acc.atoms.length) }
    angles := { acc.angles with terms := acc.angles.terms ++ img.angles.terms.map (shiftAtoms acc.atoms.length) }
    dihedrals := { acc.dihedrals with
      terms := acc.dihedrals.terms ++ img.dihedrals.terms.map (shiftAtoms acc.atoms.length) }
    impropers := { acc.impropers with
      terms := acc.impropers.terms ++ img.impropers.terms.map (shiftAtoms acc.atoms.length) } }

theorem stackOn_zero (acc img : Atoms) : stackOn acc img Offsets.zero = stack0 acc img := by
  unfold stackOn stack0
  have : img.atoms.map (fun r => { r with ty := r.ty + Offsets.zero.atom }) = img.atoms := by
    conv => rhs; rw [← List.map_id img.atoms]
    apply List.map_congr_left
    intro r _; rfl
  rw [this]; rfl

/-- what is preserved along the fold: labels are `a`'s, rows have the right width, term indices are inside -/
structure RepInv (a acc : Atoms) : Prop where
  xl : acc.xlabels = a.xlabels
  rows : ∀ r ∈ acc.atoms, r.extra.length = a.xlabels.length
  bl : acc.bonds.xlabels = a.bonds.xlabels
  al : acc.angles.xlabels = a.angles.xlabels
  dl : acc.dihedrals.xlabels = a.dihedrals.xlabels
  il : acc.impropers.xlabels = a.impropers.xlabels
  bt : ∀ t ∈ acc.bonds.terms, t.extra.length = a.bonds.xlabels.length ∧ ∀ x ∈ t.atoms, x < acc.atoms.length
  at' : ∀ t ∈ acc.angles.terms, t.extra.length = a.angles.xlabels.length ∧ ∀ x ∈ t.atoms, x < acc.atoms.length
  dt : ∀ t ∈ acc.dihedrals.terms, t.extra.length = a.dihedrals.xlabels.length ∧ ∀ x ∈ t.atoms, x < acc.atoms.length
  it : ∀ t ∈ acc.impropers.terms, t.extra.length = a.impropers.xlabels.length ∧ ∀ x ∈ t.atoms, x < acc.atoms.length

theorem repInv_self (a : Atoms) (h : RepWF a) : RepInv a a := by
  obtain ⟨_, h2, h3, h4, h5, h6⟩ := h
  exact ⟨rfl, h2, rfl, rfl, rfl, rfl,
    fun t ht => ⟨(h3.2 t ht).1, (h3.2 t ht).2.2⟩, fun t ht => ⟨(h4.2 t ht).1, (h4.2 t ht).2.2⟩,
    fun t ht => ⟨(h5.2 t ht).1, (h5.2 t ht).2.2⟩, fun t ht => ⟨(h6.2 t ht).1, (h6.2 t ht).2.2⟩⟩

theorem tabDisjoint_of (mine other : TermTable) (n m : Nat) (hw : TabWF other m)
    (hl : mine.xlabels = other.xlabels)
    (hm : ∀ t ∈ mine.terms, t.extra.length = other.xlabels.length ∧ ∀ x ∈ t.atoms, x < n) :
    TabDisjoint mine other n m :=
  ⟨hl.symm, hl ▸ hw.1, fun t ht => hl ▸ (hm t ht).1, fun t ht => hl ▸ (hw.2 t ht).1,
   fun t ht => (hm t ht).2, fun t ht => (hw.2 t ht).2⟩

theorem translate_fields (a : Atoms) (d : Vec3) :
    (a.translate d).bonds = a.bonds ∧ (a.translate d).angles = a.angles
    ∧ (a.translate d).dihedrals = a.dihedrals ∧ (a.translate d).impropers = a.impropers
    ∧ (a.translate d).xlabels = a.xlabels ∧ (a.translate d).atoms.length = a.atoms.length := by
  simp [Atoms.translate]

theorem noMapOK_step (a acc : Atoms) (d : Vec3) (hw : RepWF a) (hi : RepInv a acc) :
    NoMapOK acc (a.translate d) := by
  obtain ⟨w1, w2, w3, w4, w5, w6⟩ := hw
  obtain ⟨f1, f2, f3, f4, f5, f6⟩ := translate_fields a d
  refine ⟨by rw [f5, hi.xl], hi.xl ▸ w1, fun r hr => hi.xl ▸ hi.rows r hr, ?_, ?_, ?_, ?_, ?_⟩
  · intro r hr
    rw [hi.xl]
    simp only [Atoms.translate, List.mem_map] at hr
    obtain ⟨r0, hr0, rfl⟩ := hr
    exact w2 r0 hr0
  · rw [f1, f6]; exact tabDisjoint_of _ _ _ _ w3 hi.bl hi.bt
  · rw [f2, f6]; exact tabDisjoint_of _ _ _ _ w4 hi.al hi.at'
  · rw [f3, f6]; exact tabDisjoint_of _ _ _ _ w5 hi.dl hi.dt
  · rw [f4, f6]; exact tabDisjoint_of _ _ _ _ w6 hi.il hi.it

theorem repInv_step (a acc : Atoms) (d : Vec3) (hw : RepWF a) (hi : RepInv a acc) :
    RepInv a (stack0 acc (a.translate d)) := by
  obtain ⟨w1, w2, w3, w4, w5, w6⟩ := hw
  have hterms : ∀ (mine other : TermTable) (n m : Nat), TabWF other m →
      (∀ t ∈ mine.terms, t.extra.length = other.xlabels.length ∧ ∀ x ∈ t.atoms, x < n) →
      ∀ t ∈ mine.terms ++ other.terms.map (shiftAtoms n),
        t.extra.length = other.xlabels.length ∧ ∀ x ∈ t.atoms, x < n + m := by
    intro mine other n m hwf hm t ht
    rcases List.mem_append.mp ht with h | h
    · exact ⟨(hm t h).1, fun x hx => by have := (hm t h).2 x hx; omega⟩
    · obtain ⟨u, hu, rfl⟩ := List.mem_map.mp h
      refine ⟨(hwf.2 u hu).1, ?_⟩
      intro x hx
      obtain ⟨y, hy, rfl⟩ := List.mem_map.mp hx
      have := (hwf.2 u hu).2.2 y hy
      omega
  have hlen : (stack0 acc (a.translate d)).atoms.length = acc.atoms.length + a.atoms.length := by
    simp [stack0, Atoms.translate]
  refine ⟨hi.xl, ?_, hi.bl, hi.al, hi.dl, hi.il, ?_, ?_, ?_, ?_⟩
  · intro r hr
    rcases List.mem_append.mp hr with h | h
    · exact hi.rows r h
    · simp only [Atoms.translate, List.mem_map] at h
      obtain ⟨r0, hr0, rfl⟩ := h
      exact w2 r0 hr0
  · rw [hlen]; exact hterms acc.bonds a.bonds _ _ w3 hi.bt
  · rw [hlen]; exact hterms acc.angles a.angles _ _ w4 hi.at'
  · rw [hlen]; exact hterms acc.dihedrals a.dihedrals _ _ w5 hi.dt
  · rw [hlen]; exact hterms acc.impropers a.impropers _ _ w6 hi.it

/-- the fold of `replicate` never fails on a well-formed structure and is the pure stacking of the images -/
theorem replicate_fold (a : Atoms) (cell : Mat3) (hw : RepWF a) (ms : List (Nat × Nat × Nat)) (acc : Atoms)
    (hi : RepInv a acc) :
    ms.foldl (fun (acc : Except Err Atoms) (m : Nat × Nat × Nat) =>
        match acc with
        | .error e => .error e
        | .ok r => r.extend (a.translate (cell.lattice m.1 m.2.1 m.2.2)) (some Offsets.zero) []) (.ok acc)
      = .ok (ms.foldl (fun acc m => stack0 acc (a.translate (cell.lattice m.1 m.2.1 m.2.2))) acc)
    ∧ RepInv a (ms.foldl (fun acc m => stack0 acc (a.translate (cell.lattice m.1 m.2.1 m.2.2))) acc) := by
  induction ms generalizing acc with
  | nil => exact ⟨rfl, hi⟩
  | cons m ms ih =>
    simp only [List.foldl_cons]
    rw [extend_nomap _ _ _ (noMapOK_step a acc _ hw hi), stackOn_zero]
    exact ih _ (repInv_step a acc _ hw hi)

/-! closed form of the pure stacking -/

theorem stackFold_atoms (a : Atoms) (ds : List Vec3) (acc : Atoms) :
    (ds.foldl (fun acc d => stack0 acc (a.translate d)) acc).atoms
      = acc.atoms ++ ds.flatMap (fun d => (a.translate d).atoms) := by
  induction ds generalizing acc with
  | nil => simp
  | cons d ds ih => rw [List.foldl_cons, ih]; simp [stack0]

theorem stackFold_length (a : Atoms) (ds : List Vec3) (acc : Atoms) :
    (ds.foldl (fun acc d => stack0 acc (a.translate d)) acc).atoms.length
      = acc.atoms.length + ds.length * a.atoms.length := by
  induction ds generalizing acc with
  | nil => simp
  | cons d ds ih =>
    rw [List.foldl_cons, ih]
    simp only [stack0, List.length_append, List.length_cons, Atoms.translate, List.length_map]
    rw [Nat.succ_mul]; omega

/-- the copies of one term list made by `count` images appended after `start` atoms -/
def imageTerms (ts : List Term) (n start count : Nat) : List Term :=
  (List.range count).flatMap (fun p => ts.map (shiftAtoms (start + p * n)))

theorem imageTerms_succ (ts : List Term) (n start count : Nat) :
    imageTerms ts n start (count + 1) = ts.map (shiftAtoms start) ++ imageTerms ts n (start + n) count := by
  unfold imageTerms
  rw [List.range_succ_eq_map, List.flatMap_cons, List.flatMap_map]
  congr 1
  · simp
  · congr 1
    funext p
    show List.map (shiftAtoms (start + (p + 1) * n)) ts = List.map (shiftAtoms (start + n + p * n)) ts
    congr 2
    rw [Nat.succ_mul]; omega

theorem stackFold_terms (a : Atoms) (ds : List Vec3) (acc : Atoms) :
    let r := ds.foldl (fun acc d => stack0 acc (a.translate d)) acc
    r.bonds.terms = acc.bonds.terms ++ imageTerms a.bonds.terms a.atoms.length acc.atoms.length ds.length
    ∧ r.angles.terms = acc.angles.terms ++ imageTerms a.angles.terms a.atoms.length acc.atoms.length ds.length
    ∧ r.dihedrals.terms = acc.dihedrals.terms ++ imageTerms a.dihedrals.terms a.atoms.length acc.atoms.length ds.length
    ∧ r.impropers.terms = acc.impropers.terms ++ imageTerms a.impropers.terms a.atoms.length acc.atoms.length ds.length := by
  induction ds generalizing acc with
  | nil => simp [imageTerms]
  | cons d ds ih =>
    have hlen : (stack0 acc (a.translate d)).atoms.length = acc.atoms.length + a.atoms.length := by
      simp [stack0, Atoms.translate]
    have := ih (stack0 acc (a.translate d))
    simp only [List.foldl_cons, List.length_cons, imageTerms_succ]
    simp only [hlen] at this
    obtain ⟨h1, h2, h3, h4⟩ := this
    refine ⟨?_, ?_, ?_, ?_⟩
    · rw [h1]; simp [stack0, Atoms.translate]
    · rw [h2]; simp [stack0, Atoms.translate]
    · rw [h3]; simp [stack0, Atoms.translate]
    · rw [h4]; simp [stack0, Atoms.translate]

theorem stackFold_rest (a : Atoms) (ds : List Vec3) (acc : Atoms) :
    let r := ds.foldl (fun acc d => stack0 acc (a.translate d)) acc
    r.typeElems = acc.typeElems ∧ r.typeLabels = acc.typeLabels ∧ r.typeMasses = acc.typeMasses
    ∧ r.pairCoeffs = acc.pairCoeffs ∧ r.xlabels = acc.xlabels ∧ r.cell = acc.cell
    ∧ r.bonds.coeffs = acc.bonds.coeffs ∧ r.angles.coeffs = acc.angles.coeffs
    ∧ r.dihedrals.coeffs = acc.dihedrals.coeffs ∧ r.impropers.coeffs = acc.impropers.coeffs
    ∧ r.bonds.xlabels = acc.bonds.xlabels ∧ r.angles.xlabels = acc.angles.xlabels
    ∧ r.dihedrals.xlabels = acc.dihedrals.xlabels ∧ r.impropers.xlabels = acc.impropers.xlabels := by
  induction ds generalizing acc with
  | nil => simp
  | cons d ds ih =>
    have := ih (stack0 acc (a.translate d))
    simpa [List.foldl_cons, stack0] using this

/-! ### the image grid -/

/-- all multipliers `(i, j, k)`, `i < da`, `j < db`, `k < dc`, in numpy's meshgrid order -/
def grid (da db dc : Nat) : List (Nat × Nat × Nat) :=
  (List.range dc).flatMap (fun k => (List.range da).flatMap (fun i => (List.range db).map (fun j => (i, j, k))))

theorem ucMults_eq (da db dc : Nat) : ucMults da db dc = (grid da db dc).filter (fun m => m != (0, 0, 0)) := rfl

theorem mem_grid (da db dc i j k : Nat) : (i, j, k) ∈ grid da db dc ↔ i < da ∧ j < db ∧ k < dc := by
  simp only [grid, List.mem_flatMap, List.mem_map, List.mem_range, Prod.mk.injEq]
  constructor
  · rintro ⟨k', hk, i', hi, j', hj, rfl, rfl, rfl⟩; exact ⟨hi, hj, hk⟩
  · rintro ⟨hi, hj, hk⟩; exact ⟨k, hk, i, hi, j, hj, rfl, rfl, rfl⟩

theorem flatMap_range_single {β} (n k0 : Nat) (g : Nat → List β) (hk : k0 < n) (hg : ∀ k, k ≠ k0 → g k = []) :
    (List.range n).flatMap g = g k0 := by
  induction n with
  | zero => omega
  | succ n ih =>
    rw [List.range_succ, List.flatMap_append]
    by_cases e : k0 = n
    · subst e
      have : (List.range k0).flatMap g = [] := by
        apply List.flatMap_eq_nil_iff.mpr
        intro k hk'
        exact hg k (by have := List.mem_range.mp hk'; omega)
      simp [this]
    · rw [ih (by omega)]
      simp [hg n (fun e' => e e'.symm)]

theorem grid_filter_eq (da db dc i j k : Nat) (hi : i < da) (hj : j < db) (hk : k < dc) :
    (grid da db dc).filter (fun m => m == (i, j, k)) = [(i, j, k)] := by
  unfold grid
  rw [List.filter_flatMap, flatMap_range_single dc k _ hk]
  · rw [List.filter_flatMap, flatMap_range_single da i _ hi]
    · rw [List.map_eq_flatMap, List.filter_flatMap, flatMap_range_single db j _ hj]
      · simp
      · intro j' hj'
        simp [hj']
    · intro i' hi'
      apply List.filter_eq_nil_iff.mpr
      intro m hm
      obtain ⟨j', _, rfl⟩ := List.mem_map.mp hm
      simp [hi']
  · intro k' hk'
    apply List.filter_eq_nil_iff.mpr
    intro m hm
    simp only [List.mem_flatMap, List.mem_map] at hm
    obtain ⟨i', _, j', _, rfl⟩ := hm
    simp [hk']

/-- every multiplier inside the box occurs exactly once -/
theorem grid_count (da db dc i j k : Nat) (hi : i < da) (hj : j < db) (hk : k < dc) :
    (grid da db dc).count (i, j, k) = 1 := by
  rw [List.count_eq_length_filter, grid_filter_eq da db dc i j k hi hj hk]; rfl

theorem length_flatMap_const {α β} (l : List α) (f : α → List β) (c : Nat) (h : ∀ x ∈ l, (f x).length = c) :
    (l.flatMap f).length = l.length * c := by
  induction l with
  | nil => simp
  | cons x xs ih =>
    rw [List.flatMap_cons, List.length_append, h x (by simp), ih (fun y hy => h y (by simp [hy])),
      List.length_cons, Nat.succ_mul]
    omega

theorem grid_length (da db dc : Nat) : (grid da db dc).length = da * db * dc := by
  unfold grid
  rw [length_flatMap_const _ _ (da * db)]
  · simp [Nat.mul_comm]
  · intro k _
    rw [length_flatMap_const _ _ db]
    · simp
    · intro i _; simp

/-- the unit cell itself followed by the images the code appends = the whole box, up to order -/
theorem ucMults_perm (da db dc : Nat) (ha : 0 < da) (hb : 0 < db) (hc : 0 < dc) :
    ((0, 0, 0) :: ucMults da db dc).Perm (grid da db dc) := by
  have h := List.filter_append_perm (fun m => m == ((0 : Nat), (0 : Nat), (0 : Nat))) (grid da db dc)
  rw [grid_filter_eq da db dc 0 0 0 ha hb hc] at h
  exact h

theorem ucMults_length (da db dc : Nat) (ha : 0 < da) (hb : 0 < db) (hc : 0 < dc) :
    (ucMults da db dc).length + 1 = da * db * dc := by
  have := (ucMults_perm da db dc ha hb hc).length_eq
  rw [grid_length] at this
  simpa using this

/-! ### the same crystal: Euclidean division of every lattice index -/

/-- `u = i + q·d` with `0 ≤ i < d`, over the rationals -/
theorem split_coord (u : Int) (d : Nat) (hd : 0 < d) :
    ∃ (i : Nat) (q : Int), i < d ∧ (u : Rat) = (i : Rat) + (q : Rat) * (d : Rat) := by
  have hd' : (0 : Int) < (d : Int) := by omega
  have h0 : 0 ≤ u % (d : Int) := Int.emod_nonneg _ (by omega)
  have h1 : u % (d : Int) < d := Int.emod_lt_of_pos _ hd'
  refine ⟨(u % (d : Int)).toNat, u / (d : Int), by omega, ?_⟩
  have hi : (((u % (d : Int)).toNat : Nat) : Int) = u % (d : Int) := Int.toNat_of_nonneg h0
  have hu : u = (d : Int) * (u / (d : Int)) + (((u % (d : Int)).toNat : Nat) : Int) := by
    rw [hi]; exact (Int.mul_ediv_add_emod u d).symm
  generalize (u % (d : Int)).toNat = i at hu
  generalize u / (d : Int) = q at hu
  subst hu
  have e1 : ((i : Int) : Rat) = (i : Rat) := Rat.intCast_natCast i
  have e2 : ((d : Int) : Rat) = (d : Rat) := Rat.intCast_natCast d
  rw [Rat.intCast_add, Rat.intCast_mul, e1, e2]
  clear h0 h1 hi
  grind

/-- a point displaced by a lattice vector of the original cell = its image inside the box, displaced by a lattice
    vector of the enlarged cell -/
theorem lattice_split (cell : Mat3) (da db dc : Nat) (ha : 0 < da) (hb : 0 < db) (hc : 0 < dc) (u v w : Int) :
    ∃ i j k : Nat, i < da ∧ j < db ∧ k < dc ∧ ∃ u' v' w' : Int, ∀ p : Vec3,
      Vec3.add p (cell.lattice u v w)
        = Vec3.add (Vec3.add p (cell.lattice i j k)) ((cell.scaleRows da db dc).lattice u' v' w') := by
  obtain ⟨i, u', hi, eu⟩ := split_coord u da ha
  obtain ⟨j, v', hj, ev⟩ := split_coord v db hb
  obtain ⟨k, w', hk, ew⟩ := split_coord w dc hc
  refine ⟨i, j, k, hi, hj, hk, u', v', w', ?_⟩
  intro p
  simp only [Mat3.lattice, Mat3.scaleRows, Vec3.add, Vec3.smul, Vec3.mk.injEq, eu, ev, ew]
  refine ⟨?_, ?_, ?_⟩ <;> grind

/-- conversely every lattice translate of an image is a lattice translate of the original atom -/
theorem lattice_merge (cell : Mat3) (da db dc : Nat) (i j k : Nat) (u' v' w' : Int) :
    ∃ u v w : Int, ∀ p : Vec3,
      Vec3.add (Vec3.add p (cell.lattice i j k)) ((cell.scaleRows da db dc).lattice u' v' w')
        = Vec3.add p (cell.lattice u v w) := by
  refine ⟨(i : Int) + u' * (da : Int), (j : Int) + v' * (db : Int), (k : Int) + w' * (dc : Int), ?_⟩
  intro p
  simp only [Mat3.lattice, Mat3.scaleRows, Vec3.add, Vec3.smul, Vec3.mk.injEq, Rat.intCast_add, Rat.intCast_mul,
    Rat.intCast_natCast]
  refine ⟨?_, ?_, ?_⟩ <;> grind

end Mofun
