/-
  ReplaceTermsExtend.lean — C06, part 2: what ONE `Atoms.extend` with explicit offsets (the call made per match by
  `replace_pattern_in_structure`) does: the pieces of the result, the index conversion `structure_index_map2`,
  the in-place type update of mapped atoms, the appended atoms.  Namespace `Mofun.C06`.
-/
import MofunModel.Proofs.ReplaceTermsBasic

namespace Mofun.C06
open Mofun

/-! ### small list facts -/

theorem nodup'_iff {α} [DecidableEq α] (l : List α) : l.Nodup' = true ↔ l.Nodup := by
  induction l with
  | nil => simp [List.Nodup']
  | cons x xs ih => simp [List.Nodup', ih]

theorem indexOf?_getElem? {α} [DecidableEq α] (l : List α) (x : α) (j : Nat)
    (h : indexOf? l x = some j) : l[j]? = some x := by
  induction l generalizing j with
  | nil => simp [indexOf?] at h
  | cons y ys ih =>
    unfold indexOf? at h
    by_cases hy : y = x
    · simp [hy] at h; subst h; simp [hy]
    · simp only [hy, if_false, Option.map_eq_some_iff] at h
      obtain ⟨j', hj', rfl⟩ := h
      simpa using ih j' hj'

theorem indexOf?_of_mem {α} [DecidableEq α] (l : List α) (x : α) (h : x ∈ l) :
    ∃ j, indexOf? l x = some j := by
  induction l with
  | nil => simp at h
  | cons y ys ih =>
    unfold indexOf?
    by_cases hy : y = x
    · exact ⟨0, by simp [hy]⟩
    · have hx : x ∈ ys := by
        rcases List.mem_cons.mp h with e | e
        · exact absurd e.symm hy
        · exact e
      obtain ⟨j, hj⟩ := ih hx
      exact ⟨j + 1, by simp [hy, hj]⟩

theorem indexOf?_none {α} [DecidableEq α] (l : List α) (x : α) (h : x ∉ l) : indexOf? l x = none := by
  induction l with
  | nil => rfl
  | cons y ys ih =>
    unfold indexOf?
    have hy : ¬ y = x := fun e => h (by simp [e])
    have hx : x ∉ ys := fun m => h (by simp [m])
    simp [hy, ih hx]

theorem indexOf?_lt {α} [DecidableEq α] (l : List α) (x : α) (j : Nat) (h : indexOf? l x = some j) :
    j < l.length := by
  have := indexOf?_getElem? l x j h
  exact (List.getElem?_eq_some_iff.mp this).1

/-- in a duplicate-free list the first occurrence is the occurrence -/
theorem indexOf?_nodup {α} [DecidableEq α] (l : List α) (hnd : l.Nodup) (x : α) (j : Nat)
    (h : l[j]? = some x) : indexOf? l x = some j := by
  induction l generalizing j with
  | nil => simp at h
  | cons y ys ih =>
    have hnd' := List.nodup_cons.mp hnd
    unfold indexOf?
    cases j with
    | zero => simp at h; simp [h]
    | succ j =>
      have hj : ys[j]? = some x := by simpa using h
      have hx : x ∈ ys := List.mem_of_getElem? hj
      have hy : ¬ y = x := fun e => hnd'.1 (e ▸ hx)
      simp [hy, ih hnd'.2 j hj]

/-! ### python dict lookup on the association list -/

theorem lookupLast_foldl (m : List (Nat × Nat)) (k : Nat) (acc : Option Nat) :
    m.foldl (fun acc kv => if kv.1 = k then some kv.2 else acc) acc
      = match lookupLast m k with
        | some v => some v
        | none => acc := by
  induction m generalizing acc with
  | nil => rfl
  | cons kv m ih =>
    have e1 : lookupLast (kv :: m) k
        = m.foldl (fun acc kv => if kv.1 = k then some kv.2 else acc) (if kv.1 = k then some kv.2 else none) := rfl
    rw [List.foldl_cons, ih, e1, ih]
    cases lookupLast m k with
    | some v => rfl
    | none => by_cases e : kv.1 = k <;> simp [e]

theorem lookupLast_cons (kv : Nat × Nat) (m : List (Nat × Nat)) (k : Nat) :
    lookupLast (kv :: m) k = match lookupLast m k with
      | some v => some v
      | none => if kv.1 = k then some kv.2 else none := by
  have e1 : lookupLast (kv :: m) k
      = m.foldl (fun acc kv => if kv.1 = k then some kv.2 else acc) (if kv.1 = k then some kv.2 else none) := rfl
  rw [e1, lookupLast_foldl]

theorem lookupLast_none (m : List (Nat × Nat)) (k : Nat) (h : k ∉ m.map (·.1)) : lookupLast m k = none := by
  induction m with
  | nil => rfl
  | cons kv m ih =>
    have h1 : ¬ kv.1 = k := fun e => h (by simp [e])
    have h2 : k ∉ m.map (·.1) := fun hm => h (by simp at hm ⊢; exact Or.inr hm)
    rw [lookupLast_cons, ih h2]; simp [h1]

theorem lookupLast_some_mem (m : List (Nat × Nat)) (k v : Nat) (h : lookupLast m k = some v) : (k, v) ∈ m := by
  induction m with
  | nil => simp [lookupLast] at h
  | cons kv m ih =>
    rw [lookupLast_cons] at h
    cases hl : lookupLast m k with
    | some v' =>
      rw [hl] at h
      have : v' = v := by simpa using h
      subst this
      exact List.mem_cons_of_mem _ (ih hl)
    | none =>
      rw [hl] at h
      by_cases e : kv.1 = k
      · simp [e] at h
        have : kv = (k, v) := by cases kv; simp_all
        simp [this]
      · simp [e] at h

/-- with distinct keys the lookup finds the binding -/
theorem lookupLast_of_mem (m : List (Nat × Nat)) (hnd : (m.map (·.1)).Nodup) (k v : Nat) (h : (k, v) ∈ m) :
    lookupLast m k = some v := by
  induction m with
  | nil => simp at h
  | cons kv m ih =>
    have hnd' : (kv.1 :: m.map (·.1)).Nodup := hnd
    obtain ⟨hk, hrest⟩ := List.nodup_cons.mp hnd'
    rw [lookupLast_cons]
    rcases List.mem_cons.mp h with e | e
    · have : k ∉ m.map (·.1) := by rw [← e] at hk; exact hk
      rw [lookupLast_none m k this, ← e]; simp
    · rw [ih hrest e]

/-! ### the body of `Atoms.extend` with explicit offsets, in named pieces -/

/-- atoms of the other structure that are not mapped onto existing atoms: they are appended, in this order -/
def toAdd (nb : Nat) (keys : List Nat) : List Nat := (List.range nb).filter (fun i => !keys.contains i)

/-- `structure_index_map2.get`: mapped atoms go to their partner, the others to the place where they are appended
    (`n` = number of atoms before the call, `nb` = atoms of the other structure) -/
def convOf (n nb : Nat) (map : List (Nat × Nat)) : Nat → Option Nat := fun k =>
  match lookupLast map k with
  | some v => some v
  | none => (indexOf? (toAdd nb (map.map (·.1))) k).map (· + n)

def extLabels (a b : Atoms) : List String := mergeLabels a.xlabels b.xlabels

def extBx (a b : Atoms) : List (List String) :=
  b.atoms.map (fun r => matchRow (extLabels a b) b.xlabels r.extra)

def extPadded (a b : Atoms) : List AtomRow :=
  a.atoms.map (fun r => { r with extra := padRow r.extra (extLabels a b).length })

def extAnyFields (a b : Atoms) : Bool := a.atoms.length * (extLabels a b).length > 0

/-- a mapped atom of self adopts type (+ offset) and extra columns of its partner -/
def extStep (a b : Atoms) (offs : Offsets) (rows : List AtomRow) (kv : Nat × Nat) : List AtomRow :=
  match b.atoms[kv.1]?, rows[kv.2]? with
  | some br, some r =>
      rows.set kv.2 { r with ty := br.ty + offs.atom,
                             extra := if extAnyFields a b then (extBx a b).getD kv.1 [] else r.extra }
  | _, _ => rows

def extAdded (a b : Atoms) (offs : Offsets) (map : List (Nat × Nat)) : List AtomRow :=
  (toAdd b.atoms.length (map.map (·.1))).filterMap (fun i => match b.atoms[i]? with
    | some br => some { br with ty := br.ty + offs.atom, extra := (extBx a b).getD i [] }
    | none => none)

def extendCore (a : Atoms) (offs : Offsets) (b : Atoms) (map : List (Nat × Nat)) : Except Err Atoms :=
  if !(map.map (·.1)).Nodup' then .error .domain
  else if map.any (fun kv => kv.1 ≥ b.atoms.length || kv.2 ≥ a.atoms.length) then .error .index
  else do
    let bonds ← a.bonds.extendWith b.bonds offs.bond (convOf a.atoms.length b.atoms.length map)
    let angles ← a.angles.extendWith b.angles offs.angle (convOf a.atoms.length b.atoms.length map)
    let dihedrals ← a.dihedrals.extendWith b.dihedrals offs.dihedral (convOf a.atoms.length b.atoms.length map)
    let impropers ← a.impropers.extendWith b.impropers offs.improper (convOf a.atoms.length b.atoms.length map)
    pure { a with
      atoms := map.foldl (extStep a b offs) (extPadded a b) ++ extAdded a b offs map
      xlabels := extLabels a b
      bonds := bonds, angles := angles, dihedrals := dihedrals, impropers := impropers }

theorem extend_some_eq (a b : Atoms) (offs : Offsets) (map : List (Nat × Nat)) :
    a.extend b (some offs) map = extendCore a offs b map := rfl

/-- everything a successful `extend` with explicit offsets tells us, piece by piece -/
theorem extend_some_ok (a b a' : Atoms) (offs : Offsets) (map : List (Nat × Nat))
    (h : a.extend b (some offs) map = .ok a') :
    (map.map (·.1)).Nodup
    ∧ (∀ kv ∈ map, kv.1 < b.atoms.length ∧ kv.2 < a.atoms.length)
    ∧ (∀ κ : Kind, (κ.get a).extendWith (κ.get b) (κ.off offs) (convOf a.atoms.length b.atoms.length map)
          = .ok (κ.get a'))
    ∧ a'.atoms = map.foldl (extStep a b offs) (extPadded a b) ++ extAdded a b offs map
    ∧ a'.typeElems = a.typeElems ∧ a'.typeLabels = a.typeLabels ∧ a'.typeMasses = a.typeMasses
    ∧ a'.pairCoeffs = a.pairCoeffs ∧ a'.cell = a.cell := by
  rw [extend_some_eq] at h
  unfold extendCore at h
  by_cases h1 : (map.map (·.1)).Nodup' = true
  · by_cases h2 : map.any (fun kv => decide (kv.1 ≥ b.atoms.length) || decide (kv.2 ≥ a.atoms.length)) = true
    · simp [h1, h2] at h
    · have h2' : map.any (fun kv => decide (kv.1 ≥ b.atoms.length) || decide (kv.2 ≥ a.atoms.length)) = false := by
        simpa using h2
      simp only [h1, h2', Bool.not_true, Bool.false_eq_true, if_false] at h
      cases hb : a.bonds.extendWith b.bonds offs.bond (convOf a.atoms.length b.atoms.length map) with
      | error e => simp [hb, bind, Except.bind] at h
      | ok bonds =>
        cases ha : a.angles.extendWith b.angles offs.angle (convOf a.atoms.length b.atoms.length map) with
        | error e => simp [hb, ha, bind, Except.bind] at h
        | ok angles =>
          cases hd : a.dihedrals.extendWith b.dihedrals offs.dihedral (convOf a.atoms.length b.atoms.length map) with
          | error e => simp [hb, ha, hd, bind, Except.bind] at h
          | ok dihedrals =>
            cases hi : a.impropers.extendWith b.impropers offs.improper (convOf a.atoms.length b.atoms.length map) with
            | error e => simp [hb, ha, hd, hi, bind, Except.bind] at h
            | ok impropers =>
              simp only [hb, ha, hd, hi, bind, Except.bind, pure, Except.pure] at h
              cases h
              refine ⟨(nodup'_iff _).mp h1, ?_, ?_, rfl, rfl, rfl, rfl, rfl, rfl⟩
              · intro kv hkv
                have := List.any_eq_false.mp h2' kv hkv
                simp at this
                omega
              · intro κ
                cases κ
                · exact hb
                · exact ha
                · exact hd
                · exact hi
  · simp [h1] at h

/-! ### the atoms after the call -/

/-- position, charge, group: what `extend` never touches on existing atoms -/
def pcg (r : AtomRow) : Vec3 × Rat × Int := (r.pos, r.charge, r.group)

theorem extStep_length (a b : Atoms) (offs : Offsets) (rows : List AtomRow) (kv : Nat × Nat) :
    (extStep a b offs rows kv).length = rows.length := by
  unfold extStep
  split <;> simp

theorem foldl_extStep_length (a b : Atoms) (offs : Offsets) (map : List (Nat × Nat)) (rows : List AtomRow) :
    (map.foldl (extStep a b offs) rows).length = rows.length := by
  induction map generalizing rows with
  | nil => rfl
  | cons kv m ih => rw [List.foldl_cons, ih, extStep_length]

theorem extStep_pcg (a b : Atoms) (offs : Offsets) (rows : List AtomRow) (kv : Nat × Nat) (x : Nat) :
    ((extStep a b offs rows kv)[x]?).map pcg = (rows[x]?).map pcg := by
  unfold extStep
  split
  · rename_i br r hb hr
    rw [List.getElem?_set]
    by_cases e : kv.2 = x
    · subst e
      obtain ⟨hlt, heq⟩ := List.getElem?_eq_some_iff.mp hr
      simp [hlt, pcg, heq]
    · simp [e]
  · rfl

theorem foldl_extStep_pcg (a b : Atoms) (offs : Offsets) (map : List (Nat × Nat)) (rows : List AtomRow) (x : Nat) :
    ((map.foldl (extStep a b offs) rows)[x]?).map pcg = (rows[x]?).map pcg := by
  induction map generalizing rows with
  | nil => rfl
  | cons kv m ih => rw [List.foldl_cons, ih, extStep_pcg]

theorem extStep_other (a b : Atoms) (offs : Offsets) (rows : List AtomRow) (kv : Nat × Nat) (x : Nat)
    (hx : kv.2 ≠ x) : (extStep a b offs rows kv)[x]? = rows[x]? := by
  unfold extStep
  split
  · rw [List.getElem?_set]; simp [hx]
  · rfl

/-- atoms that are not a target of the index map keep their type as well -/
theorem foldl_extStep_other (a b : Atoms) (offs : Offsets) (map : List (Nat × Nat)) (rows : List AtomRow) (x : Nat)
    (hx : x ∉ map.map (·.2)) : ((map.foldl (extStep a b offs) rows)[x]?).map (·.ty) = (rows[x]?).map (·.ty) := by
  induction map generalizing rows with
  | nil => rfl
  | cons kv m ih =>
    have h1 : kv.2 ≠ x := fun e => hx (by simp [e])
    have h2 : x ∉ m.map (·.2) := fun hm => hx (by simp at hm ⊢; exact Or.inr hm)
    rw [List.foldl_cons, ih _ h2, extStep_other a b offs rows kv x h1]

/-- a target of the index map (targets distinct) gets its partner's type id + the atom offset -/
theorem foldl_extStep_target (a b : Atoms) (offs : Offsets) (map : List (Nat × Nat)) (rows : List AtomRow)
    (hv : (map.map (·.2)).Nodup) (hk : ∀ kv ∈ map, kv.1 < b.atoms.length ∧ kv.2 < rows.length)
    (k v : Nat) (hkv : (k, v) ∈ map) :
    ((map.foldl (extStep a b offs) rows)[v]?).map (·.ty) = (b.atoms[k]?).map (fun br => br.ty + offs.atom) := by
  induction map generalizing rows with
  | nil => simp at hkv
  | cons kv m ih =>
    have hv' : (kv.2 :: m.map (·.2)).Nodup := hv
    obtain ⟨hnot, hrest⟩ := List.nodup_cons.mp hv'
    rw [List.foldl_cons]
    rcases List.mem_cons.mp hkv with e | e
    · -- this binding writes row v; no later binding touches it
      subst e
      have hvm : v ∉ m.map (·.2) := hnot
      rw [foldl_extStep_other a b offs m _ v hvm]
      have hb : k < b.atoms.length := (hk (k, v) (by simp)).1
      have hr : v < rows.length := (hk (k, v) (by simp)).2
      unfold extStep
      simp only [List.getElem?_eq_getElem hb, List.getElem?_eq_getElem hr]
      rw [List.getElem?_set]
      simp [hr]
    · apply ih _ hrest _ e
      intro kv' hkv'
      rw [extStep_length]
      exact hk kv' (by simp [hkv'])

theorem toAdd_mem (nb : Nat) (keys : List Nat) (i : Nat) : i ∈ toAdd nb keys ↔ i < nb ∧ i ∉ keys := by
  simp [toAdd]

theorem toAdd_nodup (nb : Nat) (keys : List Nat) : (toAdd nb keys).Nodup :=
  List.Nodup.sublist List.filter_sublist List.nodup_range

theorem extAdded_getElem? (a b : Atoms) (offs : Offsets) (map : List (Nat × Nat)) (j : Nat) :
    (extAdded a b offs map)[j]? =
      ((toAdd b.atoms.length (map.map (·.1)))[j]?).bind (fun i => (b.atoms[i]?).map (fun br =>
        { br with ty := br.ty + offs.atom, extra := (extBx a b).getD i [] })) := by
  unfold extAdded
  have hall : ∀ i ∈ toAdd b.atoms.length (map.map (·.1)), i < b.atoms.length :=
    fun i hi => ((toAdd_mem _ _ i).mp hi).1
  generalize toAdd b.atoms.length (map.map (·.1)) = l at hall
  induction l generalizing j with
  | nil => simp
  | cons i l ih =>
    have hi : i < b.atoms.length := hall i (by simp)
    rw [List.filterMap_cons]
    simp only [List.getElem?_eq_getElem hi]
    cases j with
    | zero => simp [List.getElem?_eq_getElem hi]
    | succ j =>
      simp only [List.getElem?_cons_succ]
      exact ih j (fun i' h' => hall i' (by simp [h']))

theorem extAdded_length (a b : Atoms) (offs : Offsets) (map : List (Nat × Nat)) :
    (extAdded a b offs map).length = (toAdd b.atoms.length (map.map (·.1))).length := by
  unfold extAdded
  have hall : ∀ i ∈ toAdd b.atoms.length (map.map (·.1)), i < b.atoms.length :=
    fun i hi => ((toAdd_mem _ _ i).mp hi).1
  generalize toAdd b.atoms.length (map.map (·.1)) = l at hall
  induction l with
  | nil => rfl
  | cons i l ih =>
    have hi : i < b.atoms.length := hall i (by simp)
    rw [List.filterMap_cons]
    simp only [List.getElem?_eq_getElem hi, List.length_cons]
    rw [ih (fun i' h' => hall i' (by simp [h']))]

/-- the atom facts of one successful call, in the form the fold over the matches needs -/
theorem extend_some_atoms (a b a' : Atoms) (offs : Offsets) (map : List (Nat × Nat))
    (h : a.extend b (some offs) map = .ok a') :
    a'.atoms.length = a.atoms.length + (toAdd b.atoms.length (map.map (·.1))).length
    ∧ (∀ x : Nat, x < a.atoms.length → (a'.atoms[x]?).map pcg = (a.atoms[x]?).map pcg)
    ∧ (∀ x : Nat, x < a.atoms.length → x ∉ map.map (·.2) → (a'.atoms[x]?).map (·.ty) = (a.atoms[x]?).map (·.ty))
    ∧ ((map.map (·.2)).Nodup → ∀ k v : Nat, (k, v) ∈ map →
        (a'.atoms[v]?).map (·.ty) = (b.atoms[k]?).map (fun br => br.ty + offs.atom))
    ∧ (∀ j i : Nat, (toAdd b.atoms.length (map.map (·.1)))[j]? = some i →
        (a'.atoms[a.atoms.length + j]?).map (fun r => (r.ty, pcg r))
          = (b.atoms[i]?).map (fun br => (br.ty + offs.atom, pcg br))) := by
  obtain ⟨_, hkv, _, hat, _⟩ := extend_some_ok a b a' offs map h
  have hlen : (map.foldl (extStep a b offs) (extPadded a b)).length = a.atoms.length := by
    rw [foldl_extStep_length]; simp [extPadded]
  have hpad : ∀ x : Nat, ((extPadded a b)[x]?).map pcg = (a.atoms[x]?).map pcg := by
    intro x; simp only [extPadded, List.getElem?_map, Option.map_map]; rfl
  have hpadty : ∀ x : Nat, ((extPadded a b)[x]?).map (·.ty) = (a.atoms[x]?).map (·.ty) := by
    intro x; simp only [extPadded, List.getElem?_map, Option.map_map]; rfl
  refine ⟨?_, ?_, ?_, ?_, ?_⟩
  · rw [hat, List.length_append, hlen, extAdded_length]
  · intro x hx
    rw [hat, List.getElem?_append_left (by omega), foldl_extStep_pcg, hpad]
  · intro x hx hnot
    rw [hat, List.getElem?_append_left (by omega), foldl_extStep_other _ _ _ _ _ _ hnot, hpadty]
  · intro hv k v hmem
    have hvlt := (hkv _ hmem).2
    rw [hat, List.getElem?_append_left (by simpa [hlen] using hvlt)]
    apply foldl_extStep_target a b offs map _ hv _ k v hmem
    intro kv hm
    have := hkv kv hm
    simpa [extPadded] using this
  · intro j i hj
    rw [hat, List.getElem?_append_right (by omega), hlen, Nat.add_sub_cancel_left, extAdded_getElem?, hj]
    simp only [Option.bind_some, Option.map_map]
    rfl

/-! ### the index conversion -/

theorem convOf_mapped (n nb : Nat) (map : List (Nat × Nat)) (hnd : (map.map (·.1)).Nodup) (k v : Nat)
    (h : (k, v) ∈ map) : convOf n nb map k = some v := by
  unfold convOf; rw [lookupLast_of_mem map hnd k v h]

theorem convOf_added (n nb : Nat) (map : List (Nat × Nat)) (j i : Nat)
    (h : (toAdd nb (map.map (·.1)))[j]? = some i) : convOf n nb map i = some (j + n) := by
  unfold convOf
  have hi : i ∈ toAdd nb (map.map (·.1)) := List.mem_of_getElem? h
  have hnk : i ∉ map.map (·.1) := ((toAdd_mem _ _ i).mp hi).2
  rw [lookupLast_none map i hnk, indexOf?_nodup _ (toAdd_nodup _ _) i j h]
  rfl

/-- every atom of the other structure is converted: to its partner, or to the place where it was appended -/
theorem convOf_cases (n nb : Nat) (map : List (Nat × Nat)) (i : Nat) (hi : i < nb) :
    (∃ v, (i, v) ∈ map ∧ convOf n nb map i = some v)
    ∨ (i ∉ map.map (·.1) ∧ ∃ j, (toAdd nb (map.map (·.1)))[j]? = some i ∧ convOf n nb map i = some (j + n)) := by
  unfold convOf
  cases hl : lookupLast map i with
  | some v => exact Or.inl ⟨v, lookupLast_some_mem map i v hl, rfl⟩
  | none =>
    have hnk : i ∉ map.map (·.1) := by
      intro hm
      obtain ⟨kv, hkv, e⟩ := List.mem_map.mp hm
      -- a key that is present is found by the lookup
      have : ∀ (m : List (Nat × Nat)), (∃ kv ∈ m, kv.1 = i) → lookupLast m i ≠ none := by
        intro m
        induction m with
        | nil => rintro ⟨_, h, _⟩; simp at h
        | cons kv' m ih =>
          rintro ⟨kv0, h0, e0⟩
          rw [lookupLast_cons]
          cases hl' : lookupLast m i with
          | some v => simp
          | none =>
            rcases List.mem_cons.mp h0 with e1 | e1
            · subst e1; simp [e0]
            · exact absurd hl' (ih ⟨kv0, e1, e0⟩)
      exact this map ⟨kv, hkv, e⟩ hl
    have hmem : i ∈ toAdd nb (map.map (·.1)) := (toAdd_mem _ _ i).mpr ⟨hi, hnk⟩
    obtain ⟨j, hj⟩ := indexOf?_of_mem _ i hmem
    exact Or.inr ⟨hnk, j, indexOf?_getElem? _ i j hj, by simp [hj]⟩

end Mofun.C06
