/-
  OccPattern.lean — `Occ` does not depend on the pose of the PATTERN (C03 (c)): replacing every pattern point `p` by
  `Rm·p + tm` for an orthogonal matrix `Rm` of determinant one leaves the occurrence set unchanged.
-/
import MofunModel.Proofs.OccLemmas
import Mathlib.Tactic.LinearCombination

namespace Mofun

def Mat3.mulMat (A B : Mat3) : Mat3 :=
  ⟨⟨A.a.x * B.a.x + A.a.y * B.b.x + A.a.z * B.c.x, A.a.x * B.a.y + A.a.y * B.b.y + A.a.z * B.c.y,
     A.a.x * B.a.z + A.a.y * B.b.z + A.a.z * B.c.z⟩,
   ⟨A.b.x * B.a.x + A.b.y * B.b.x + A.b.z * B.c.x, A.b.x * B.a.y + A.b.y * B.b.y + A.b.z * B.c.y,
     A.b.x * B.a.z + A.b.y * B.b.z + A.b.z * B.c.z⟩,
   ⟨A.c.x * B.a.x + A.c.y * B.b.x + A.c.z * B.c.x, A.c.x * B.a.y + A.c.y * B.b.y + A.c.z * B.c.y,
     A.c.x * B.a.z + A.c.y * B.b.z + A.c.z * B.c.z⟩⟩

def Mat3.transpose (A : Mat3) : Mat3 :=
  ⟨⟨A.a.x, A.b.x, A.c.x⟩, ⟨A.a.y, A.b.y, A.c.y⟩, ⟨A.a.z, A.b.z, A.c.z⟩⟩

theorem mulMat_mulVec (A B : Mat3) (v : Vec3) : (A.mulMat B).mulVec v = A.mulVec (B.mulVec v) := by
  unfold Mat3.mulMat Mat3.mulVec Vec3.dot
  simp only [Vec3.mk.injEq]
  refine ⟨by ring, by ring, by ring⟩

/-- the product of two proper rotations is a proper rotation -/
theorem mulMat_proper (A B : Mat3) (hA : A.IsProperRotation) (hB : B.IsProperRotation) :
    (A.mulMat B).IsProperRotation := by
  obtain ⟨a1, a2, a3, a4, a5, a6, a7⟩ := hA
  obtain ⟨b1, b2, b3, b4, b5, b6, b7⟩ := hB
  unfold Mat3.IsProperRotation Mat3.mulMat
  simp only
  refine ⟨?_, ?_, ?_, ?_, ?_, ?_, ?_⟩
  · linear_combination (B.a.x * B.a.x) * a1 + (B.b.x * B.b.x) * a2 + (B.c.x * B.c.x) * a3 +
      (B.a.x * B.b.x + B.b.x * B.a.x) * a4 + (B.a.x * B.c.x + B.c.x * B.a.x) * a5 +
      (B.b.x * B.c.x + B.c.x * B.b.x) * a6 + b1
  · linear_combination (B.a.y * B.a.y) * a1 + (B.b.y * B.b.y) * a2 + (B.c.y * B.c.y) * a3 +
      (B.a.y * B.b.y + B.b.y * B.a.y) * a4 + (B.a.y * B.c.y + B.c.y * B.a.y) * a5 +
      (B.b.y * B.c.y + B.c.y * B.b.y) * a6 + b2
  · linear_combination (B.a.z * B.a.z) * a1 + (B.b.z * B.b.z) * a2 + (B.c.z * B.c.z) * a3 +
      (B.a.z * B.b.z + B.b.z * B.a.z) * a4 + (B.a.z * B.c.z + B.c.z * B.a.z) * a5 +
      (B.b.z * B.c.z + B.c.z * B.b.z) * a6 + b3
  · linear_combination (B.a.x * B.a.y) * a1 + (B.b.x * B.b.y) * a2 + (B.c.x * B.c.y) * a3 +
      (B.a.x * B.b.y + B.b.x * B.a.y) * a4 + (B.a.x * B.c.y + B.c.x * B.a.y) * a5 +
      (B.b.x * B.c.y + B.c.x * B.b.y) * a6 + b4
  · linear_combination (B.a.x * B.a.z) * a1 + (B.b.x * B.b.z) * a2 + (B.c.x * B.c.z) * a3 +
      (B.a.x * B.b.z + B.b.x * B.a.z) * a4 + (B.a.x * B.c.z + B.c.x * B.a.z) * a5 +
      (B.b.x * B.c.z + B.c.x * B.b.z) * a6 + b5
  · linear_combination (B.a.y * B.a.z) * a1 + (B.b.y * B.b.z) * a2 + (B.c.y * B.c.z) * a3 +
      (B.a.y * B.b.z + B.b.y * B.a.z) * a4 + (B.a.y * B.c.z + B.c.y * B.a.z) * a5 +
      (B.b.y * B.c.z + B.c.y * B.b.z) * a6 + b6
  · have hdet : (Mat3.det ⟨⟨A.a.x * B.a.x + A.a.y * B.b.x + A.a.z * B.c.x, A.a.x * B.a.y + A.a.y * B.b.y + A.a.z * B.c.y,
        A.a.x * B.a.z + A.a.y * B.b.z + A.a.z * B.c.z⟩,
      ⟨A.b.x * B.a.x + A.b.y * B.b.x + A.b.z * B.c.x, A.b.x * B.a.y + A.b.y * B.b.y + A.b.z * B.c.y,
        A.b.x * B.a.z + A.b.y * B.b.z + A.b.z * B.c.z⟩,
      ⟨A.c.x * B.a.x + A.c.y * B.b.x + A.c.z * B.c.x, A.c.x * B.a.y + A.c.y * B.b.y + A.c.z * B.c.y,
        A.c.x * B.a.z + A.c.y * B.b.z + A.c.z * B.c.z⟩⟩) = A.det * B.det := by
      unfold Mat3.det Vec3.dot Vec3.cross; simp only; ring
    rw [hdet, a7, b7]; ring

/-- the structure searched with the pattern moved by `p ↦ Rm·p + tm` -/
def FindInput.movePattern (inp : FindInput) (Rm : Mat3) (tm : Vec3) : FindInput :=
  { inp with ppos := inp.ppos.map (fun p => Vec3.add (Rm.mulVec p) tm) }

theorem rigid_movePattern (inp : FindInput) (Rm : Mat3) (tm : Vec3) (hRm : Rm.IsProperRotation) (epsSq : Rat)
    (g : Nat → Nat) (n : Nat → Int × Int × Int) (h : RigidOccurrence (inp.movePattern Rm tm) epsSq g n) :
    RigidOccurrence inp epsSq g n := by
  have hlen : (inp.movePattern Rm tm).ppos.length = inp.ppos.length := by simp [FindInput.movePattern]
  rcases h.fit with ⟨R, t, hR, hfit⟩
  refine
    { idx_lt := fun k hk => h.idx_lt k (by rw [hlen]; exact hk)
      home := h.home
      elem := fun k hk => h.elem k (by rw [hlen]; exact hk)
      fit := ⟨R.mulMat Rm, Vec3.add (R.mulVec tm) t, mulMat_proper R Rm hR hRm, fun k hk => ?_⟩ }
  have := hfit k (by rw [hlen]; exact hk)
  have hp : (inp.movePattern Rm tm).ppos.getD k Vec3.zero = Vec3.add (Rm.mulVec (inp.ppos.getD k Vec3.zero)) tm := by
    simp [FindInput.movePattern, List.getD_eq_getElem?_getD, List.getElem?_eq_getElem hk]
  rw [hp] at this
  have e : Vec3.add ((R.mulMat Rm).mulVec (inp.ppos.getD k Vec3.zero)) (Vec3.add (R.mulVec tm) t)
      = Vec3.add (R.mulVec (Vec3.add (Rm.mulVec (inp.ppos.getD k Vec3.zero)) tm)) t := by
    rw [mulMat_mulVec]
    unfold Mat3.mulVec Vec3.add Vec3.dot
    simp only [Vec3.mk.injEq]
    refine ⟨by ring, by ring, by ring⟩
  rw [e]
  exact this

theorem movePattern_back (inp : FindInput) (Rm : Mat3) (tm : Vec3) (hRm : Rm.IsProperRotation) :
    (inp.movePattern Rm tm).movePattern Rm.transpose
        ⟨-(Rm.transpose.mulVec tm).x, -(Rm.transpose.mulVec tm).y, -(Rm.transpose.mulVec tm).z⟩ = inp := by
  obtain ⟨a1, a2, a3, a4, a5, a6, _⟩ := hRm
  unfold FindInput.movePattern
  simp only [List.map_map]
  have : ((fun p => Vec3.add (Rm.transpose.mulVec p)
        ⟨-(Rm.transpose.mulVec tm).x, -(Rm.transpose.mulVec tm).y, -(Rm.transpose.mulVec tm).z⟩) ∘
      fun p => Vec3.add (Rm.mulVec p) tm) = id := by
    funext p
    cases p with
    | mk px py pz =>
      simp only [Function.comp, id, Mat3.transpose, Mat3.mulVec, Vec3.add, Vec3.dot, Vec3.mk.injEq]
      refine ⟨?_, ?_, ?_⟩
      · linear_combination px * a1 + py * a4 + pz * a5
      · linear_combination px * a4 + py * a2 + pz * a6
      · linear_combination px * a5 + py * a6 + pz * a3
  rw [this, List.map_id]

/-- **occ_pattern_rigid.** Moving the pattern rigidly (`Rm` orthogonal — `RmᵀRm = 1` and `RmRmᵀ = 1` — with
    determinant one, any translation `tm`) leaves the occurrence set unchanged. -/
theorem occ_movePattern_iff (inp : FindInput) (Rm : Mat3) (tm : Vec3) (hRm : Rm.IsProperRotation)
    (hRmT : Rm.transpose.IsProperRotation) (epsSq : Rat) (key : List Nat) :
    Occ (inp.movePattern Rm tm) epsSq key ↔ Occ inp epsSq key := by
  have hlen : (inp.movePattern Rm tm).ppos.length = inp.ppos.length := by simp [FindInput.movePattern]
  constructor
  · rintro ⟨g, n, h, hk⟩
    exact ⟨g, n, rigid_movePattern inp Rm tm hRm epsSq g n h, by rw [hk, hlen]⟩
  · rintro ⟨g, n, h, hk⟩
    have hback := movePattern_back inp Rm tm hRm
    have h' : RigidOccurrence ((inp.movePattern Rm tm).movePattern Rm.transpose
        ⟨-(Rm.transpose.mulVec tm).x, -(Rm.transpose.mulVec tm).y, -(Rm.transpose.mulVec tm).z⟩) epsSq g n := by
      rw [hback]; exact h
    exact ⟨g, n, rigid_movePattern (inp.movePattern Rm tm) Rm.transpose _ hRmT epsSq g n h', by rw [hk, hlen]⟩

end Mofun
