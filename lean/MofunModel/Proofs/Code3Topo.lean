/-
  Code3Topo.lean — the loops of the generated `_delete_and_reindex_atom_index_array` (Generated/Code.lean) in the
  vocabulary of Model/Topo.lean (`deleteTerms`, `reindex`, `sortDesc`).  Core Lean only.
-/
import MofunModel.Generated.Code
import MofunModel.Model.Topo
import MofunModel.Proofs.DeleteLemmas
import MofunModel.Proofs.Code2Terms

namespace Mofun.Code3Topo
open Mofun Mofun.Generated Mofun.Code2Terms

/-- the re-index loop over the whole array is the model's `reindex` on every entry -/
theorem reindex_fold (sd : List Nat) (arr : List (List Nat)) :
    sd.foldl (fun a i => Py.npSubWhereGt a 1 i) arr = arr.map (fun row => row.map (reindex sd)) := by
  induction sd generalizing arr with
  | nil =>
    have : reindex [] = id := funext fun _ => rfl
    simp [this]
  | cons i is ih =>
    rw [List.foldl_cons, ih]
    have : ∀ x, reindex (i :: is) x = reindex is (if x > i then x - 1 else x) := fun _ => rfl
    simp [Py.npSubWhereGt, List.map_map, Function.comp_def, this]

theorem deleteIdx_map {α β} (g : α → β) (l : List α) (idx : List Nat) :
    deleteIdx (l.map g) idx = (deleteIdx l idx).map g := by
  rw [deleteIdx_eq_filter, deleteIdx_eq_filter, List.zipIdx_map, List.filter_map, List.map_map, List.map_map]
  rfl

theorem contains_sortDesc (idx : List Nat) (a : Nat) : (sortDesc idx).contains a = idx.contains a := by
  rw [Bool.eq_iff_iff]; simp [(sortDesc_perm idx).mem_iff]

theorem zipIdx_collect_map {α β} (f : α → β) (P : β → Bool) (l : List α) :
    (((l.map f).zipIdx).filter (fun p => P p.1)).map (·.2) = ((l.zipIdx).filter (fun p => P (f p.1))).map (·.2) := by
  rw [List.zipIdx_map, List.filter_map, List.map_map]
  rfl

end Mofun.Code3Topo
