/-
  QuatRealAxis.lean — `quaternion_from_two_vectors_around_axis` over ℝ: theorem (c) `qftvaa_spec` and its lemmas.
-/
import MofunModel.Proofs.QuatReal
namespace Mofun.QuatH
open Mofun.Uff Mofun.Uff.ElemFun QNum

/-- the angle `quaternion_from_two_vectors_around_axis` computes (between the projections orthogonal to the axis) -/
noncomputable def angleAround (p1 p2 a : V3 ℝ) : ℝ :=
  QNum.arccos (clampDot (unitOf (projectOff p1 a)) (unitOf (projectOff p2 a)))

theorem qftvaa_unfold (p1 p2 a : V3 ℝ) :
    quaternionFromTwoVectorsAroundAxis p1 p2 a =
      fromQuat (axisAngleQuat (normaliseAxis a)
        (Real.sin (-(if flipBranch (normaliseAxis a) (unitOf (projectOff p1 a)) (unitOf (projectOff p2 a))
            (angleAround p1 p2 a) then angleAround p1 p2 a * (-1) else angleAround p1 p2 a) / 2))
        (Real.cos (-(if flipBranch (normaliseAxis a) (unitOf (projectOff p1 a)) (unitOf (projectOff p2 a))
            (angleAround p1 p2 a) then angleAround p1 p2 a * (-1) else angleAround p1 p2 a) / 2))) := by
  unfold quaternionFromTwoVectorsAroundAxis angleAround unitOf
  simp only [sinQ_real, cosQ_real, n2_real, nNeg1_real]

/-- the projection orthogonal to the axis is orthogonal to the axis -/
theorem projectOff_dot (p a : V3 ℝ) (ha : V3.dot a a ≠ 0) : V3.dot (projectOff p a) a = 0 := by
  have ht : V3.dot p a / V3.dot a a * V3.dot a a = V3.dot p a := div_mul_cancel₀ _ ha
  unfold projectOff
  generalize V3.dot p a / V3.dot a a = t at ht ⊢
  unfold V3.dot V3.sub V3.smul at *
  simp only
  linear_combination -ht

theorem unitOf_dot_of_dot (p a : V3 ℝ) (h : V3.dot p a = 0) : V3.dot (unitOf p) a = 0 := by
  unfold unitOf V3.dot V3.divs at *
  simp only
  have : (p.x * a.x + p.y * a.y + p.z * a.z) / V3.norm p = 0 := by rw [h]; simp
  rw [← this]; ring

/-- unit vectors with dot product −1 are opposite -/
theorem eq_neg_of_dot_neg_one (u w : V3 ℝ) (hu : V3.dot u u = 1) (hw : V3.dot w w = 1) (hd : V3.dot u w ≤ -1) :
    w = V3.neg u := by
  obtain ⟨ux, uy, uz⟩ := u
  obtain ⟨wx, wy, wz⟩ := w
  simp only [V3.dot] at hu hw hd
  have h0 : (ux + wx) ^ 2 + (uy + wy) ^ 2 + (uz + wz) ^ 2 ≤ 0 := by nlinarith
  have hx : ux + wx = 0 := by nlinarith [sq_nonneg (ux + wx), sq_nonneg (uy + wy), sq_nonneg (uz + wz)]
  have hy : uy + wy = 0 := by nlinarith [sq_nonneg (ux + wx), sq_nonneg (uy + wy), sq_nonneg (uz + wz)]
  have hz : uz + wz = 0 := by nlinarith [sq_nonneg (ux + wx), sq_nonneg (uy + wy), sq_nonneg (uz + wz)]
  simp only [V3.neg, V3.mk.injEq]
  exact ⟨by linarith, by linarith, by linarith⟩

/-- a rotation about `k` fixes every multiple of `k` -/
theorem rotR_axis_fixed (k : V3 ℝ) (t s c : ℝ) (hkk : V3.dot k k = 1) (hsc : s * s + c * c = 1) :
    rotR (axisAngleQuat k s c) (V3.smul t k) = V3.smul t k := by
  rw [rotR_axisAngle]
  obtain ⟨kx, ky, kz⟩ := k
  simp only [V3.dot] at hkk
  simp only [V3.dot, V3.cross, V3.smul, V3.mk.injEq]
  refine ⟨?_, ?_, ?_⟩
  · linear_combination (t * kx) * hsc + (s * s * t * kx) * hkk
  · linear_combination (t * ky) * hsc + (s * s * t * ky) * hkk
  · linear_combination (t * kz) * hsc + (s * s * t * kz) * hkk

/-- `a = ‖a‖ · (a/‖a‖)` -/
theorem smul_norm_divs (a : V3 ℝ) (hn : V3.norm a ≠ 0) : V3.smul (V3.norm a) (V3.divs a (V3.norm a)) = a := by
  obtain ⟨x, y, z⟩ := a
  simp only [V3.smul, V3.divs, V3.mk.injEq]
  refine ⟨?_, ?_, ?_⟩ <;> field_simp

theorem axisAngle_neg (k : V3 ℝ) (s c : ℝ) : axisAngleQuat k (-s) c = axisAngleQuat (V3.neg k) s c := by
  unfold axisAngleQuat V3.muls V3.neg
  simp only [Q4.mk.injEq]
  refine ⟨?_, ?_, ?_, trivial⟩ <;> ring

/-- `np.isclose(â, â, 1e-3).all()` -/
theorem allClose_self (a : V3 ℝ) : V3.allClose a a = true := by
  unfold V3.allClose isclose3
  simp only [Bool.and_eq_true, le_real, abs_real, sub_self, abs_zero, dec18_real, dec13_real]
  refine ⟨⟨?_, ?_⟩, ?_⟩ <;> positivity

/-- `np.isclose(â, −â, 1e-3).all()` fails for a unit vector -/
theorem allClose_neg_self (a : V3 ℝ) (ha : V3.dot a a = 1) : V3.allClose a (V3.neg a) = false := by
  rw [Bool.eq_false_iff]
  intro h
  unfold V3.allClose isclose3 V3.neg at h
  simp only [Bool.and_eq_true, le_real, abs_real, sub_neg_eq_add, dec18_real, dec13_real, abs_neg] at h
  obtain ⟨⟨hx, hy⟩, hz⟩ := h
  unfold V3.dot at ha
  have e : ∀ t : ℝ, |t + t| = 2 * |t| := by
    intro t; rw [← two_mul, abs_mul]; norm_num
  rw [e] at hx hy hz
  have bx : |a.x| ≤ 1 / 10 ^ 7 := by linarith [abs_nonneg a.x]
  have by' : |a.y| ≤ 1 / 10 ^ 7 := by linarith [abs_nonneg a.y]
  have bz : |a.z| ≤ 1 / 10 ^ 7 := by linarith [abs_nonneg a.z]
  have sx := abs_mul_abs_self a.x
  have sy := abs_mul_abs_self a.y
  have sz := abs_mul_abs_self a.z
  nlinarith [abs_nonneg a.x, abs_nonneg a.y, abs_nonneg a.z]


/-- two unit vectors with vanishing cross product are equal or opposite -/
theorem parallel_unit (k e : V3 ℝ) (hkk : V3.dot k k = 1) (hee : V3.dot e e = 1)
    (hx : V3.cross k e = ⟨0, 0, 0⟩) : k = e ∨ k = V3.neg e := by
  obtain ⟨kx, ky, kz⟩ := k
  obtain ⟨ex, ey, ez⟩ := e
  simp only [V3.cross, V3.mk.injEq] at hx
  obtain ⟨h1, h2, h3⟩ := hx
  simp only [V3.dot] at hkk hee
  have hk : ∀ μ : ℝ, μ = kx * ex + ky * ey + kz * ez → kx = μ * ex ∧ ky = μ * ey ∧ kz = μ * ez := by
    intro μ hμ
    refine ⟨?_, ?_, ?_⟩
    · linear_combination (-kx) * hee + ey * h3 - ez * h2 - ex * hμ
    · linear_combination (-ky) * hee + ez * h1 - ex * h3 - ey * hμ
    · linear_combination (-kz) * hee + ex * h2 - ey * h1 - ez * hμ
  obtain ⟨a1, a2, a3⟩ := hk _ rfl
  set μ := kx * ex + ky * ey + kz * ez with hμ
  have hμμ : μ * μ = 1 := by
    have : kx * kx + ky * ky + kz * kz = μ * μ * (ex * ex + ey * ey + ez * ez) := by
      rw [a1, a2, a3]; ring
    rw [hee, hkk] at this; linarith
  rcases mul_self_eq_one_iff.mp hμμ with h | h
  · left; simp only [V3.mk.injEq]; rw [h] at a1 a2 a3; exact ⟨by linarith, by linarith, by linarith⟩
  · right; simp only [V3.neg, V3.mk.injEq]; rw [h] at a1 a2 a3; exact ⟨by linarith, by linarith, by linarith⟩


theorem dot_divs_left (a v : V3 ℝ) (n : ℝ) : V3.dot (V3.divs a n) v = V3.dot a v / n := by
  unfold V3.dot V3.divs; ring

theorem dot_comm (a b : V3 ℝ) : V3.dot a b = V3.dot b a := by unfold V3.dot; ring

/-- the cross product of two vectors orthogonal to `a` is parallel to `a` -/
theorem cross_cross_zero (w1 w2 a : V3 ℝ) (h1 : V3.dot w1 a = 0) (h2 : V3.dot w2 a = 0) :
    V3.cross (V3.cross w1 w2) a = ⟨0, 0, 0⟩ := by
  obtain ⟨x1, y1, z1⟩ := w1
  obtain ⟨x2, y2, z2⟩ := w2
  obtain ⟨ax, ay, az⟩ := a
  simp only [V3.dot] at h1 h2
  simp only [V3.cross, V3.mk.injEq]
  refine ⟨?_, ?_, ?_⟩
  · linear_combination x2 * h1 - x1 * h2
  · linear_combination y2 * h1 - y1 * h2
  · linear_combination z2 * h1 - z1 * h2

theorem cross_divs_divs (m a : V3 ℝ) (n N : ℝ) (h : V3.cross m a = ⟨0, 0, 0⟩) :
    V3.cross (V3.divs m n) (V3.divs a N) = ⟨0, 0, 0⟩ := by
  simp only [V3.cross, V3.mk.injEq] at h
  obtain ⟨h1, h2, h3⟩ := h
  simp only [V3.cross, V3.divs, V3.mk.injEq]
  refine ⟨?_, ?_, ?_⟩
  · have : m.y / n * (a.z / N) - m.z / n * (a.y / N) = (m.y * a.z - m.z * a.y) / (n * N) := by ring
    rw [this, h1, zero_div]
  · have : m.z / n * (a.x / N) - m.x / n * (a.z / N) = (m.z * a.x - m.x * a.z) / (n * N) := by ring
    rw [this, h2, zero_div]
  · have : m.x / n * (a.y / N) - m.y / n * (a.x / N) = (m.x * a.y - m.y * a.x) / (n * N) := by ring
    rw [this, h3, zero_div]

/-- **(c)** `quaternion_from_two_vectors_around_axis(p1, p2, axis)`: for an axis longer than the 1e-15 of the
    normalisation guard and `p1`, `p2` off the axis, the result is a unit quaternion whose rotation FIXES the axis and
    carries the normalised projection of `p1` orthogonal to the axis onto that of `p2`.  The sign decision of the code
    (`np.isclose(axis, cross/‖cross‖, 1e-3).all()`) is proved right: in exact arithmetic `cross/‖cross‖ = ± axis/‖axis‖`,
    the test is true for `+` and false for `−` (no window has to be excluded). -/
theorem qftvaa_spec (p1 p2 a : V3 ℝ) (ha : (1 : ℝ) / 10 ^ 15 < V3.norm a)
    (h1 : V3.norm (projectOff p1 a) ≠ 0) (h2 : V3.norm (projectOff p2 a) ≠ 0) :
    rotR (quaternionFromTwoVectorsAroundAxis p1 p2 a) a = a ∧
    rotR (quaternionFromTwoVectorsAroundAxis p1 p2 a) (unitOf (projectOff p1 a)) = unitOf (projectOff p2 a) ∧
    Q4.normSq (quaternionFromTwoVectorsAroundAxis p1 p2 a) = 1 := by
  set w1 := unitOf (projectOff p1 a) with hw1
  set w2 := unitOf (projectOff p2 a) with hw2
  set θ := angleAround p1 p2 a with hθdef
  set e := V3.divs a (V3.norm a) with he
  have hN : V3.norm a ≠ 0 := by
    have : (0 : ℝ) < 1 / 10 ^ 15 := by norm_num
    exact ne_of_gt (lt_trans this ha)
  have haa : V3.dot a a ≠ 0 := by
    have := norm_sq a
    unfold V3.dot; rw [← this]; exact mul_ne_zero hN hN
  have hax : normaliseAxis a = e := by
    unfold normaliseAxis
    have : QNum.lt (dec 1 15 : ℝ) (V3.norm a) = true := by rw [lt_real, dec115_real]; exact ha
    rw [this]; simp [he]
  have hee : V3.dot e e = 1 := unitOf_dot_self a hN
  have hu : V3.dot w1 w1 = 1 := unitOf_dot_self _ h1
  have hw : V3.dot w2 w2 = 1 := unitOf_dot_self _ h2
  have hw1a : V3.dot w1 a = 0 := unitOf_dot_of_dot _ _ (projectOff_dot p1 a haa)
  have hw2a : V3.dot w2 a = 0 := unitOf_dot_of_dot _ _ (projectOff_dot p2 a haa)
  have hew1 : V3.dot e w1 = 0 := by rw [he, dot_divs_left, dot_comm, hw1a, zero_div]
  have hb := dot_unit_bounds w1 w2 hu hw
  have hθ : θ = Real.arccos (V3.dot w1 w2) := by
    rw [hθdef]; unfold angleAround; rw [← hw1, ← hw2, clampDot_real _ _ hb.1 hb.2]; rfl
  have hsm : a = V3.smul (V3.norm a) e := (smul_norm_divs a hN).symm
  have hq := qftvaa_unfold p1 p2 a
  rw [← hw1, ← hw2, ← hθdef, hax] at hq
  by_cases hz : θ = 0
  · -- angle 0: identity
    have hflip : flipBranch e w1 w2 θ = false := by
      unfold flipBranch
      have : QNum.eq θ (n0 : ℝ) = true := by rw [eq_real, n0_real]; exact hz
      rw [this]; rfl
    rw [hflip, hz] at hq
    simp only [Bool.false_eq_true, if_false, neg_zero, zero_div, Real.sin_zero, Real.cos_zero] at hq
    have hq' : quaternionFromTwoVectorsAroundAxis p1 p2 a = ⟨0, 0, 0, 1⟩ := by
      rw [hq]; unfold axisAngleQuat V3.muls; simp only [mul_zero]
      exact fromQuat_unit _ (by unfold Q4.normSq; norm_num)
    rw [hq']
    refine ⟨rotR_identity _, ?_, by unfold Q4.normSq; norm_num⟩
    rw [rotR_identity]
    apply eq_of_dot_one _ _ hu hw
    rw [hθ, Real.arccos_eq_zero] at hz; exact hz
  by_cases hp : θ = Real.pi
  · -- angle π: half turn about the axis
    have hflip : flipBranch e w1 w2 θ = false := by
      unfold flipBranch
      have : QNum.eq θ (ElemFun.pi : ℝ) = true := by rw [eq_real, piQ_real]; exact hp
      rw [this, Bool.or_true]; rfl
    rw [hflip, hp] at hq
    simp only [Bool.false_eq_true, if_false, neg_div, Real.sin_neg, Real.cos_neg, Real.sin_pi_div_two,
      Real.cos_pi_div_two] at hq
    have hunit : Q4.normSq (axisAngleQuat e (-1) 0) = 1 := by rw [normSq_axisAngle, hee]; norm_num
    rw [fromQuat_unit _ hunit] at hq
    rw [hq]
    refine ⟨?_, ?_, hunit⟩
    · rw [hsm]; exact rotR_axis_fixed e _ _ _ hee (by norm_num)
    · have hneg : w2 = V3.neg w1 := by
        apply eq_neg_of_dot_neg_one _ _ hu hw
        rw [hθ, Real.arccos_eq_pi] at hp; exact hp
      rw [rotR_axisAngle, hee, hew1, hneg]
      unfold V3.neg
      simp only [V3.mk.injEq]
      refine ⟨?_, ?_, ?_⟩ <;> ring
  · -- the generic case
    have hd1 : -1 < V3.dot w1 w2 := by
      by_contra hc; apply hp; rw [hθ, Real.arccos_eq_pi]; exact not_lt.mp hc
    have hd2 : V3.dot w1 w2 < 1 := by
      by_contra hc; apply hz; rw [hθ, Real.arccos_eq_zero]; exact not_lt.mp hc
    set m := V3.cross w1 w2 with hm
    set n := V3.norm m with hn
    set k := V3.divs m n with hk
    have hnn : n * n = 1 - V3.dot w1 w2 * V3.dot w1 w2 := by
      have := cross_normSq w1 w2
      simp only at this
      rw [hu, hw] at this
      rw [hn, norm_sq, hm, this]; ring
    have hn0 : n ≠ 0 := by
      intro h0; rw [h0] at hnn; nlinarith
    have hnpos : 0 ≤ n := norm_nonneg _
    have hkk : V3.dot k k = 1 := unitOf_dot_self m hn0
    have hha := half_angle (V3.dot w1 w2) hb.1 hb.2
    simp only at hha
    rw [← hθ] at hha
    obtain ⟨ha1, ha2, ha3⟩ := hha
    have hsq : Real.sqrt (1 - V3.dot w1 w2 ^ 2) = n := by
      rw [show 1 - V3.dot w1 w2 ^ 2 = n * n by rw [hnn]; ring]
      exact Real.sqrt_mul_self hnpos
    rw [hsq] at ha1
    have hpar := parallel_unit k e hkk hee (cross_divs_divs m a n _ (cross_cross_zero w1 w2 a hw1a hw2a))
    have hne0 : QNum.eq θ (n0 : ℝ) = false := by
      rw [Bool.eq_false_iff]; intro h; rw [eq_real, n0_real] at h; exact hz h
    have hnepi : QNum.eq θ (ElemFun.pi : ℝ) = false := by
      rw [Bool.eq_false_iff]; intro h; rw [eq_real, piQ_real] at h; exact hp h
    -- in both sign cases the quaternion is (k·sin(θ/2), cos(θ/2))
    have hqk : quaternionFromTwoVectorsAroundAxis p1 p2 a =
        axisAngleQuat k (Real.sin (θ / 2)) (Real.cos (θ / 2)) ∧ ∃ t : ℝ, a = V3.smul t k := by
      have hunit : Q4.normSq (axisAngleQuat k (Real.sin (θ / 2)) (Real.cos (θ / 2))) = 1 := by
        rw [normSq_axisAngle, hkk]; linarith
      rcases hpar with hke | hke
      · have hflip : flipBranch e w1 w2 θ = true := by
          unfold flipBranch
          rw [hne0, hnepi, ← hm, ← hn, ← hk, hke, allClose_self]; rfl
        rw [hflip] at hq
        simp only [if_true] at hq
        rw [show -(θ * -1) / 2 = θ / 2 by ring, ← hke, fromQuat_unit _ hunit] at hq
        exact ⟨hq, V3.norm a, by rw [hke]; exact hsm⟩
      · have hflip : flipBranch e w1 w2 θ = false := by
          unfold flipBranch
          rw [hne0, hnepi, ← hm, ← hn, ← hk, hke, allClose_neg_self e hee]; rfl
        rw [hflip] at hq
        simp only [Bool.false_eq_true, if_false, neg_div, Real.sin_neg, Real.cos_neg] at hq
        rw [axisAngle_neg, ← hke, fromQuat_unit _ hunit] at hq
        refine ⟨hq, -V3.norm a, ?_⟩
        rw [hke]
        have : V3.smul (-V3.norm a) (V3.neg e) = V3.smul (V3.norm a) e := by
          unfold V3.smul V3.neg; simp only [V3.mk.injEq]; refine ⟨?_, ?_, ?_⟩ <;> ring
        rw [this]; exact hsm
    obtain ⟨hqe, t, hat⟩ := hqk
    rw [hqe]
    refine ⟨?_, ?_, by rw [normSq_axisAngle, hkk]; linarith⟩
    · rw [hat]; exact rotR_axis_fixed k t _ _ hkk ha3
    · exact rodrigues_maps w1 w2 k n _ _ hu hw hn0 hnn rfl ha1 ha2

end Mofun.QuatH
