/-
  ReplaceTermsFold.lean — C06, part 3: the one-step facts of `extend` lifted over the fold of
  `replace_pattern_in_structure` over the matches (everything BEFORE the final bulk delete).
  Namespace `Mofun.C06`.
-/
import MofunModel.Proofs.ReplaceTermsExtend

namespace Mofun.C06
open Mofun

/-! ### the loop of `replaceCore`, with names -/

/-- `structure_index_map` of one match: replacement-pattern atom ↦ structure atom it is identified with -/
def matchMap (pairs : List (Nat × Nat)) (ra : Bool) (m : PlacedMatch) : List (Nat × Nat) :=
  if ra then [] else pairs.map (fun kv => (kv.1, m.idx.getD kv.2 0))

/-- the replacement-pattern atoms that are identified with existing atoms (the same for every match) -/
def mapKeys (pairs : List (Nat × Nat)) (ra : Bool) : List Nat := if ra then [] else pairs.map (·.1)

theorem matchMap_keys (pairs : List (Nat × Nat)) (ra : Bool) (m : PlacedMatch) :
    (matchMap pairs ra m).map (·.1) = mapKeys pairs ra := by
  unfold matchMap mapKeys
  cases ra <;> simp [List.map_map, Function.comp]

def p0Of (p : Atoms) : Vec3 :=
  match p.atoms[0]? with
  | some row => row.pos
  | none => Vec3.zero

/-- atoms one match wants removed, and the accumulated removal list (`to_delete`) -/
def tdOf (pairs : List (Nat × Nat)) (ra : Bool) (m : PlacedMatch) : List Nat :=
  toDeleteOf m ((matchMap pairs ra m).map (·.2))

def delStep (pairs : List (Nat × Nat)) (ra : Bool) (d : List Nat) (m : PlacedMatch) : List Nat :=
  d ++ (tdOf pairs ra m).filter (fun i => !d.contains i)

def delOf (pairs : List (Nat × Nat)) (ra : Bool) (ms : List PlacedMatch) : List Nat :=
  ms.foldl (delStep pairs ra) []

/-- the loop body of `replaceCore` -/
def stepR (s r : Atoms) (p0 : Vec3) (pairs : List (Nat × Nat)) (offs : Offsets) (ra ig : Bool)
    (acc : Except Err ReplaceState) (m : PlacedMatch) : Except Err ReplaceState :=
  match acc with
  | .error e => .error e
  | .ok st =>
    match st.s.extend (placeAtoms s.cell p0 r m) (some offs) (matchMap pairs ra m) with
    | .error e => .error e
    | .ok s' =>
      if (tdOf pairs ra m).all (fun i => !st.del.contains i) || ig then
        .ok { s := s', del := delStep pairs ra st.del m }
      else .error .overlap

theorem replaceCore_nonempty (s p r : Atoms) (ms : List PlacedMatch) (ra ig : Bool)
    (hne : r.atoms.isEmpty = false) :
    replaceCore s p r ms ra ig =
      match ms.foldl (stepR s r (p0Of p) (unchangedPairs r p) (s.extendTypes r).2 ra ig)
          (.ok { s := (s.extendTypes r).1, del := [] }) with
      | .error e => .error e
      | .ok st => st.s.delete st.del := by
  unfold replaceCore
  simp only [hne, Bool.false_eq_true, if_false]
  rfl

theorem foldl_stepR_error (s r : Atoms) (p0 : Vec3) (pairs : List (Nat × Nat)) (offs : Offsets) (ra ig : Bool)
    (e : Err) (ms : List PlacedMatch) :
    ms.foldl (stepR s r p0 pairs offs ra ig) (.error e) = .error e := by
  induction ms with
  | nil => rfl
  | cons m ms ih => exact ih

/-- one successful iteration: the `extend` succeeded and the removal list grew by this match's atoms -/
theorem stepR_ok (s r : Atoms) (p0 : Vec3) (pairs : List (Nat × Nat)) (offs : Offsets) (ra ig : Bool)
    (st st' : ReplaceState) (m : PlacedMatch) (h : stepR s r p0 pairs offs ra ig (.ok st) m = .ok st') :
    st.s.extend (placeAtoms s.cell p0 r m) (some offs) (matchMap pairs ra m) = .ok st'.s
    ∧ st'.del = delStep pairs ra st.del m
    ∧ (ig = false → ∀ i ∈ tdOf pairs ra m, i ∉ st.del) := by
  unfold stepR at h
  simp only at h
  cases he : st.s.extend (placeAtoms s.cell p0 r m) (some offs) (matchMap pairs ra m) with
  | error e => rw [he] at h; cases h
  | ok s' =>
    rw [he] at h
    simp only at h
    by_cases hc : ((tdOf pairs ra m).all (fun i => !st.del.contains i) || ig) = true
    · rw [if_pos hc] at h
      cases h
      refine ⟨rfl, rfl, ?_⟩
      intro hig i hi
      subst hig
      simp only [Bool.or_false] at hc
      have := List.all_eq_true.mp hc i hi
      simpa using this
    · rw [if_neg hc] at h
      cases h

/-- induction over the successful loop: an invariant of the processed prefix -/
theorem foldl_stepR_inv (s r : Atoms) (p0 : Vec3) (pairs : List (Nat × Nat)) (offs : Offsets) (ra ig : Bool)
    (I : List PlacedMatch → ReplaceState → Prop)
    (hs : ∀ done m st st', I done st → stepR s r p0 pairs offs ra ig (.ok st) m = .ok st' → I (done ++ [m]) st')
    (ms done : List PlacedMatch) (st0 st : ReplaceState) (h0 : I done st0)
    (h : ms.foldl (stepR s r p0 pairs offs ra ig) (.ok st0) = .ok st) : I (done ++ ms) st := by
  induction ms generalizing done st0 with
  | nil =>
    have : st0 = st := by simpa using h
    subst this; simpa using h0
  | cons m ms ih =>
    rw [List.foldl_cons] at h
    cases hstep : stepR s r p0 pairs offs ra ig (.ok st0) m with
    | error e => rw [hstep, foldl_stepR_error] at h; cases h
    | ok st1 =>
      rw [hstep] at h
      have := ih (done ++ [m]) st1 (hs done m st0 st1 h0 hstep) h
      simpa [List.append_assoc] using this

/-! ### where the atoms of the replacement pattern end up (before the final delete) -/

/-- number of atoms each replaced match appends -/
def nAdd (r : Atoms) (pairs : List (Nat × Nat)) (ra : Bool) : Nat :=
  (toAdd r.atoms.length (mapKeys pairs ra)).length

/-- index, BEFORE the final delete, of atom `a` of the replacement pattern for the match processed when the
    structure had `base` atoms: the matched atom it is identified with, or the place where it was appended -/
def imgAt (r : Atoms) (pairs : List (Nat × Nat)) (ra : Bool) (base : Nat) (m : PlacedMatch) (a : Nat) : Nat :=
  (convOf base r.atoms.length (matchMap pairs ra m) a).getD 0

/-- the terms one match contributes (kind `κ`): the pattern's terms between the images of their atoms, with the
    pattern's type id shifted by the offset -/
def newSigs (κ : Kind) (r : Atoms) (pairs : List (Nat × Nat)) (ra : Bool) (off base : Nat) (m : PlacedMatch) :
    List Sig :=
  (κ.get r).terms.map (fun u => (u.atoms.map (imgAt r pairs ra base m), u.ty + off))

def nsFrom (κ : Kind) (r : Atoms) (pairs : List (Nat × Nat)) (ra : Bool) (off : Nat) :
    Nat → List PlacedMatch → List (List Sig)
  | _, [] => []
  | base, m :: ms => newSigs κ r pairs ra off base m :: nsFrom κ r pairs ra off (base + nAdd r pairs ra) ms

theorem nsFrom_append (κ : Kind) (r : Atoms) (pairs : List (Nat × Nat)) (ra : Bool) (off base : Nat)
    (ms₁ ms₂ : List PlacedMatch) :
    nsFrom κ r pairs ra off base (ms₁ ++ ms₂) =
      nsFrom κ r pairs ra off base ms₁
        ++ nsFrom κ r pairs ra off (base + ms₁.length * nAdd r pairs ra) ms₂ := by
  induction ms₁ generalizing base with
  | nil => simp [nsFrom]
  | cons m ms ih =>
    have e : base + nAdd r pairs ra + ms.length * nAdd r pairs ra
        = base + (ms.length + 1) * nAdd r pairs ra := by rw [Nat.succ_mul]; omega
    simp only [List.cons_append, nsFrom, ih, List.length_cons, e]

theorem nsFrom_length (κ : Kind) (r : Atoms) (pairs : List (Nat × Nat)) (ra : Bool) (off base : Nat)
    (ms : List PlacedMatch) : (nsFrom κ r pairs ra off base ms).length = ms.length := by
  induction ms generalizing base with
  | nil => rfl
  | cons m ms ih => simp [nsFrom, ih]

theorem placeAtoms_kind (κ : Kind) (cell : Option Mat3) (p0 : Vec3) (r : Atoms) (m : PlacedMatch) :
    κ.get (placeAtoms cell p0 r m) = κ.get r := by
  cases κ <;> rfl

theorem placeAtoms_length (cell : Option Mat3) (p0 : Vec3) (r : Atoms) (m : PlacedMatch) :
    (placeAtoms cell p0 r m).atoms.length = r.atoms.length := by
  simp [placeAtoms]

theorem placeAtoms_getElem? (cell : Option Mat3) (p0 : Vec3) (r : Atoms) (m : PlacedMatch) (i : Nat) :
    ((placeAtoms cell p0 r m).atoms[i]?).map (fun br => (br.ty, br.charge, br.group))
      = (r.atoms[i]?).map (fun br => (br.ty, br.charge, br.group)) := by
  simp only [placeAtoms, List.getElem?_map, Option.map_map]
  rfl

theorem kind_off_offsets (κ : Kind) (s : Atoms) : κ.off s.offsets = numTermTypes (κ.get s) := by
  cases κ <;> rfl

theorem kind_extendTypes (κ : Kind) (s r : Atoms) :
    (κ.get (s.extendTypes r).1).terms = (κ.get s).terms
    ∧ (κ.get (s.extendTypes r).1).coeffs = (κ.get s).coeffs ++ (κ.get r).coeffs := by
  cases κ <;> exact ⟨rfl, rfl⟩

/-! ### the invariant of the loop -/

/-- what holds after the matches `done` have been processed (state `st`) -/
structure FoldInv (s r : Atoms) (p0 : Vec3) (pairs : List (Nat × Nat)) (ra : Bool)
    (done : List PlacedMatch) (st : ReplaceState) : Prop where
  len : st.s.atoms.length = s.atoms.length + done.length * nAdd r pairs ra
  elems : st.s.typeElems = s.typeElems ++ r.typeElems
  labels : st.s.typeLabels = s.typeLabels ++ r.typeLabels
  masses : st.s.typeMasses = s.typeMasses ++ r.typeMasses
  pair : st.s.pairCoeffs = s.pairCoeffs ++ r.pairCoeffs
  coeffs : ∀ κ : Kind, (κ.get st.s).coeffs = (κ.get s).coeffs ++ (κ.get r).coeffs
  sigs : ∀ κ : Kind, (κ.get st.s).terms.map sig =
    specSigs ((κ.get s).terms.map sig) (nsFrom κ r pairs ra (numTermTypes (κ.get s)) s.atoms.length done)
  convDefined : ∀ κ : Kind, ∀ i m, done[i]? = some m → ∀ u ∈ (κ.get r).terms, ∀ a ∈ u.atoms,
    (convOf (s.atoms.length + i * nAdd r pairs ra) r.atoms.length (matchMap pairs ra m) a).isSome = true
  del : st.del = delOf pairs ra done
  mapOk : ∀ m ∈ done, ∀ kv ∈ matchMap pairs ra m, kv.1 < r.atoms.length
  keysNodup : done ≠ [] → (mapKeys pairs ra).Nodup
  pcgOld : ∀ x : Nat, x < s.atoms.length → (st.s.atoms[x]?).map pcg = (s.atoms[x]?).map pcg
  tyOld : ∀ x : Nat, x < s.atoms.length → (∀ m ∈ done, x ∉ (matchMap pairs ra m).map (·.2)) →
    (st.s.atoms[x]?).map (·.ty) = (s.atoms[x]?).map (·.ty)
  tyRetained : (done.flatMap (fun m => (matchMap pairs ra m).map (·.2))).Nodup →
    ∀ m ∈ done, ∀ k v : Nat, (k, v) ∈ matchMap pairs ra m → v < s.atoms.length →
      (st.s.atoms[v]?).map (·.ty) = (r.atoms[k]?).map (fun br => br.ty + s.typeElems.length)
  inserted : (∀ m ∈ done, ∀ kv ∈ matchMap pairs ra m, kv.2 < s.atoms.length) →
    ∀ i m, done[i]? = some m → ∀ j a : Nat, (toAdd r.atoms.length (mapKeys pairs ra))[j]? = some a →
      (st.s.atoms[s.atoms.length + i * nAdd r pairs ra + j]?).map (fun row => (row.ty, pcg row))
        = ((placeAtoms s.cell p0 r m).atoms[a]?).map (fun br => (br.ty + s.typeElems.length, pcg br))

theorem foldInv_init (s r : Atoms) (p0 : Vec3) (pairs : List (Nat × Nat)) (ra : Bool) :
    FoldInv s r p0 pairs ra [] { s := (s.extendTypes r).1, del := [] } where
  len := by simp [Atoms.extendTypes]
  elems := rfl
  labels := rfl
  masses := rfl
  pair := rfl
  coeffs := fun κ => (kind_extendTypes κ s r).2
  sigs := fun κ => by rw [(kind_extendTypes κ s r).1]; rfl
  convDefined := by intro κ i m h; simp at h
  del := rfl
  mapOk := by intro m h; simp at h
  keysNodup := by intro h; exact absurd rfl h
  pcgOld := by intro x _; rfl
  tyOld := by intro x _ _; rfl
  tyRetained := by intro _ m h; simp at h
  inserted := by intro _ i m h; simp at h

theorem foldInv_step (s r : Atoms) (p0 : Vec3) (pairs : List (Nat × Nat)) (ra ig : Bool)
    (done : List PlacedMatch) (m : PlacedMatch) (st st' : ReplaceState)
    (hI : FoldInv s r p0 pairs ra done st)
    (h : stepR s r p0 pairs (s.extendTypes r).2 ra ig (.ok st) m = .ok st') :
    FoldInv s r p0 pairs ra (done ++ [m]) st' := by
  obtain ⟨hext, hdel, _⟩ := stepR_ok s r p0 pairs _ ra ig st st' m h
  obtain ⟨hknd, hkv, hkind, _, hE, hL, hM, hP, _⟩ := extend_some_ok _ _ _ _ _ hext
  obtain ⟨alen, apcg, aty, atarget, aadded⟩ := extend_some_atoms _ _ _ _ _ hext
  rw [placeAtoms_length, matchMap_keys] at alen
  have hbase : st.s.atoms.length = s.atoms.length + done.length * nAdd r pairs ra := hI.len
  have hoffatom : (s.extendTypes r).2.atom = s.typeElems.length := rfl
  have hstlt : ∀ x : Nat, x < s.atoms.length → x < st.s.atoms.length := by intro x hx; omega
  have hmemsnoc : ∀ m' : PlacedMatch, m' ∈ done ++ [m] ↔ m' ∈ done ∨ m' = m := by
    intro m'; simp
  refine
    { len := ?_, elems := by rw [hE, hI.elems], labels := by rw [hL, hI.labels],
      masses := by rw [hM, hI.masses], pair := by rw [hP, hI.pair], coeffs := ?_, sigs := ?_,
      convDefined := ?_, del := ?_, mapOk := ?_, keysNodup := ?_, pcgOld := ?_, tyOld := ?_,
      tyRetained := ?_, inserted := ?_ }
  · -- len
    rw [alen, hbase, List.length_append, List.length_singleton, Nat.add_mul, nAdd]; omega
  · -- coeffs
    intro κ
    have := (extendWith_sigs _ _ _ _ _ (hkind κ)).2.1
    rw [this, hI.coeffs κ]
  · -- sigs
    intro κ
    have hs := (extendWith_sigs _ _ _ _ _ (hkind κ)).1
    have e : ∀ off base, nsFrom κ r pairs ra off base [m] = [newSigs κ r pairs ra off base m] := fun _ _ => rfl
    rw [hs, hI.sigs κ, nsFrom_append, e, specSigs_snoc]
    congr 1
    rw [placeAtoms_kind, placeAtoms_length, hbase, show (κ.off (s.extendTypes r).2) = numTermTypes (κ.get s) from
      kind_off_offsets κ s]
    rfl
  · -- convDefined
    intro κ i m' hi u hu a ha
    by_cases hlt : i < done.length
    · rw [List.getElem?_append_left hlt] at hi
      exact hI.convDefined κ i m' hi u hu a ha
    · have hi' : i = done.length := by
        have := (List.getElem?_eq_some_iff.mp hi).1
        simp at this; omega
      subst hi'
      have hm' : m' = m := by simpa using hi.symm
      subst hm'
      have hd := (extendWith_sigs _ _ _ _ _ (hkind κ)).2.2
      rw [placeAtoms_kind, placeAtoms_length, hbase] at hd
      exact hd u hu a ha
  · -- del
    rw [hdel, hI.del]; simp [delOf, List.foldl_append]
  · -- mapOk
    intro m' hm' kv hkvm
    rcases (hmemsnoc m').mp hm' with h1 | h1
    · exact hI.mapOk m' h1 kv hkvm
    · subst h1
      have := (hkv kv hkvm).1
      rwa [placeAtoms_length] at this
  · -- keysNodup
    intro _
    rw [← matchMap_keys pairs ra m]; exact hknd
  · -- pcgOld
    intro x hx
    rw [apcg x (hstlt x hx), hI.pcgOld x hx]
  · -- tyOld
    intro x hx hnot
    rw [aty x (hstlt x hx) (hnot m (by simp)), hI.tyOld x hx (fun m' hm' => hnot m' (by simp [hm']))]
  · -- tyRetained
    intro hnd m' hm' k v hmem hvlt
    rw [List.flatMap_append, List.nodup_append] at hnd
    obtain ⟨hnd1, hnd2, hdisj⟩ := hnd
    simp only [List.flatMap_cons, List.flatMap_nil, List.append_nil] at hnd2 hdisj
    rcases (hmemsnoc m').mp hm' with h1 | h1
    · -- an earlier match: this call does not touch `v`
      have hvnot : v ∉ (matchMap pairs ra m).map (·.2) := by
        intro hv
        have hv1 : v ∈ done.flatMap (fun m => (matchMap pairs ra m).map (·.2)) :=
          List.mem_flatMap.mpr ⟨m', h1, List.mem_map.mpr ⟨(k, v), hmem, rfl⟩⟩
        exact hdisj v hv1 v hv rfl
      rw [aty v (hstlt v hvlt) hvnot]
      exact hI.tyRetained hnd1 m' h1 k v hmem hvlt
    · subst h1
      rw [atarget hnd2 k v hmem, ← hoffatom]
      have := placeAtoms_getElem? s.cell p0 r m' k
      have h2 : ((placeAtoms s.cell p0 r m').atoms[k]?).map (·.ty) = (r.atoms[k]?).map (·.ty) := by
        have := congrArg (Option.map (fun t : Nat × Rat × Int => t.1)) this
        simp only [Option.map_map] at this
        exact this
      cases hp : (placeAtoms s.cell p0 r m').atoms[k]? with
      | none =>
        rw [hp] at h2
        cases hr : r.atoms[k]? with
        | none => rfl
        | some br => rw [hr] at h2; simp at h2
      | some pr =>
        rw [hp] at h2
        cases hr : r.atoms[k]? with
        | none => rw [hr] at h2; simp at h2
        | some br =>
          rw [hr] at h2
          have : pr.ty = br.ty := by simpa using h2
          simp [this]
  · -- inserted
    intro hvals i m' hi j a hj
    have hjlt : j < nAdd r pairs ra := (List.getElem?_eq_some_iff.mp hj).1
    by_cases hlt : i < done.length
    · rw [List.getElem?_append_left hlt] at hi
      have hvals' : ∀ m ∈ done, ∀ kv ∈ matchMap pairs ra m, kv.2 < s.atoms.length :=
        fun m0 h0 => hvals m0 (by simp [h0])
      have hidx : s.atoms.length + i * nAdd r pairs ra + j < st.s.atoms.length := by
        rw [hbase]
        have : (i + 1) * nAdd r pairs ra ≤ done.length * nAdd r pairs ra := Nat.mul_le_mul_right _ hlt
        rw [Nat.add_mul] at this; omega
      have hnot : s.atoms.length + i * nAdd r pairs ra + j ∉ (matchMap pairs ra m).map (·.2) := by
        intro hm
        obtain ⟨kv, hkvm, e⟩ := List.mem_map.mp hm
        have := hvals m (by simp) kv hkvm
        omega
      have e1 := aty _ hidx hnot
      have e2 := apcg _ hidx
      have e3 := hI.inserted hvals' i m' hi j a hj
      rw [← e3]
      cases hx : st'.s.atoms[s.atoms.length + i * nAdd r pairs ra + j]? with
      | none =>
        rw [hx] at e1 e2
        cases hy : st.s.atoms[s.atoms.length + i * nAdd r pairs ra + j]? with
        | none => rfl
        | some y => rw [hy] at e1; simp at e1
      | some x =>
        rw [hx] at e1 e2
        cases hy : st.s.atoms[s.atoms.length + i * nAdd r pairs ra + j]? with
        | none => rw [hy] at e1; simp at e1
        | some y =>
          rw [hy] at e1 e2
          simp only [Option.map_some, Option.some.injEq] at e1 e2 ⊢
          rw [e1, e2]
    · have hi' : i = done.length := by
        have := (List.getElem?_eq_some_iff.mp hi).1
        simp at this; omega
      subst hi'
      have hm' : m' = m := by simpa using hi.symm
      subst hm'
      have hj' : (toAdd (placeAtoms s.cell p0 r m').atoms.length ((matchMap pairs ra m').map (·.1)))[j]? = some a := by
        rw [placeAtoms_length, matchMap_keys]; exact hj
      have := aadded j a hj'
      rw [hbase] at this
      rw [this, hoffatom]

/-- **the loop, lifted**: after all matches have been processed successfully the invariant holds for `ms` -/
theorem foldInv_all (s p r : Atoms) (ms : List PlacedMatch) (ra ig : Bool) (st : ReplaceState)
    (h : ms.foldl (stepR s r (p0Of p) (unchangedPairs r p) (s.extendTypes r).2 ra ig)
          (.ok { s := (s.extendTypes r).1, del := [] }) = .ok st) :
    FoldInv s r (p0Of p) (unchangedPairs r p) ra ms st := by
  have := foldl_stepR_inv s r (p0Of p) (unchangedPairs r p) (s.extendTypes r).2 ra ig
    (FoldInv s r (p0Of p) (unchangedPairs r p) ra)
    (fun done m st st' hI hs => foldInv_step s r (p0Of p) (unchangedPairs r p) ra ig done m st st' hI hs)
    ms [] _ st (foldInv_init s r (p0Of p) (unchangedPairs r p) ra) h
  simpa using this

/-- the overlap test: without the `ignore` flag, the atoms the matches want removed never repeat -/
theorem foldl_stepR_disjoint (s r : Atoms) (p0 : Vec3) (pairs : List (Nat × Nat)) (offs : Offsets) (ra : Bool)
    (ms : List PlacedMatch) (st0 st : ReplaceState)
    (h : ms.foldl (stepR s r p0 pairs offs ra false) (.ok st0) = .ok st) :
    ∀ pre m post, ms = pre ++ m :: post → ∀ i ∈ tdOf pairs ra m, i ∉ pre.foldl (delStep pairs ra) st0.del := by
  induction ms generalizing st0 with
  | nil => intro pre m post e; simp at e
  | cons m0 ms ih =>
    rw [List.foldl_cons] at h
    cases hstep : stepR s r p0 pairs offs ra false (.ok st0) m0 with
    | error e => rw [hstep, foldl_stepR_error] at h; cases h
    | ok st1 =>
      rw [hstep] at h
      obtain ⟨_, hdel, hdis⟩ := stepR_ok s r p0 pairs offs ra false st0 st1 m0 hstep
      intro pre m post e
      cases pre with
      | nil =>
        have e' : m0 = m := by simpa using (List.cons.inj e).1
        subst e'
        simpa using hdis rfl
      | cons q pre' =>
        have e1 : m0 = q := (List.cons.inj e).1
        have e2 : ms = pre' ++ m :: post := (List.cons.inj e).2
        subst e1
        have := ih st1 h pre' m post e2
        rw [hdel] at this
        simpa using this

end Mofun.C06
