/-
  FindSoundLemmas.lean — helper lemmas for C01 (soundness of the pattern search, Model/Find.lean):
  list plumbing (`flatMap` blocks, `sortLex`, `groupBy`), the invariant of the candidate enumeration
  (`extendRound` / `candidates`), and the decomposition of a reported match (`find_mem`).
-/
import MofunModel.Model.Find

namespace Mofun

/-! ### list plumbing -/

theorem flatMap_map_length {α β γ} (l : List α) (xs : List β) (f : α → β → γ) :
    (l.flatMap (fun a => xs.map (f a))).length = l.length * xs.length := by
  induction l with
  | nil => simp
  | cons a as ih => simp [List.flatMap_cons, ih, Nat.succ_mul, Nat.add_comm]

/-- element `i` of `image-major` blocks: block `i / n`, entry `i % n` -/
theorem flatMap_map_getD {α β γ} (l : List α) (xs : List β) (f : α → β → γ) (i : Nat) (d : γ) (a0 : α) (x0 : β)
    (h : i < l.length * xs.length) :
    (l.flatMap (fun a => xs.map (f a))).getD i d
      = f (l.getD (i / xs.length) a0) (xs.getD (i % xs.length) x0) := by
  induction l generalizing i with
  | nil => simp at h
  | cons a as ih =>
    have hn : 0 < xs.length := by
      rcases Nat.eq_zero_or_pos xs.length with h0 | h0
      · rw [h0] at h; simp at h
      · exact h0
    rw [List.flatMap_cons]
    by_cases hi : i < xs.length
    · rw [List.getD_eq_getElem?_getD, List.getElem?_append_left (by simpa using hi)]
      rw [Nat.div_eq_of_lt hi, Nat.mod_eq_of_lt hi]
      simp [List.getD_eq_getElem?_getD, hi]
    · have hi' : xs.length ≤ i := Nat.le_of_not_lt hi
      rw [List.getD_eq_getElem?_getD, List.getElem?_append_right (by simpa using hi'),
        ← List.getD_eq_getElem?_getD]
      simp only [List.length_map]
      have hlt : i - xs.length < as.length * xs.length := by
        simp only [List.length_cons, Nat.succ_mul] at h; omega
      rw [ih (i - xs.length) hlt]
      have hdiv : i / xs.length = (i - xs.length) / xs.length + 1 := by
        rw [Nat.div_eq_sub_div hn hi']
      have hmod : i % xs.length = (i - xs.length) % xs.length := Nat.mod_eq_sub_mod hi'
      rw [hdiv, hmod, List.getD_cons_succ]

theorem insertLex_mem (x y : Vec3 × Nat) (l : List (Vec3 × Nat)) :
    y ∈ insertLex x l ↔ y = x ∨ y ∈ l := by
  induction l with
  | nil => simp [insertLex]
  | cons z zs ih =>
    unfold insertLex
    split
    · simp
    · simp only [List.mem_cons, ih]
      constructor
      · rintro (h | h | h) <;> simp [h]
      · rintro (h | h | h) <;> simp [h]

theorem sortLex_mem (y : Vec3 × Nat) (l : List (Vec3 × Nat)) : y ∈ sortLex l ↔ y ∈ l := by
  induction l with
  | nil => simp [sortLex]
  | cons z zs ih =>
    have : sortLex (z :: zs) = insertLex z (sortLex zs) := rfl
    rw [this, insertLex_mem, ih]; simp

/-- every element of every group produced by `groupBy` comes from the input list -/
theorem groupBy_mem {κ α} [DecidableEq κ] (key : α → κ) (l : List α) :
    ∀ p ∈ groupBy key l, ∀ x ∈ p.2, x ∈ l := by
  unfold groupBy
  suffices h : ∀ (acc : List (κ × List α)) (P : α → Prop),
      (∀ p ∈ acc, ∀ x ∈ p.2, P x) → (∀ x ∈ l, P x) →
      ∀ p ∈ l.foldl (fun acc x =>
        let k := key x
        if acc.any (fun p => p.1 = k) then acc.map (fun p => if p.1 = k then (p.1, p.2 ++ [x]) else p)
        else acc ++ [(k, [x])]) acc, ∀ x ∈ p.2, P x by
    exact h [] (· ∈ l) (by simp) (fun x hx => hx)
  intro acc P
  induction l generalizing acc with
  | nil => intro h _; simpa using h
  | cons y ys ih =>
    intro hacc hl
    rw [List.foldl_cons]
    apply ih
    · intro p hp x hx
      simp only at hp
      split at hp
      · obtain ⟨p0, hp0, rfl⟩ := List.mem_map.mp hp
        split at hx
        · simp only [List.mem_append, List.mem_singleton] at hx
          rcases hx with hx | rfl
          · exact hacc p0 hp0 x hx
          · exact hl _ (by simp)
        · exact hacc p0 hp0 x hx
      · simp only [List.mem_append, List.mem_singleton] at hp
        rcases hp with hp | rfl
        · exact hacc p hp x hx
        · simp only [List.mem_singleton] at hx
          subst hx; exact hl _ (by simp)
    · intro x hx; exact hl x (by simp [hx])

/-! ### the invariant of the candidate enumeration -/

/-- what every (partial) candidate tuple of length `len` satisfies: every entry is a valid position of the near
    list, carries the element of the corresponding pattern atom, reproduces every pairwise pattern distance
    (the code's `math.isclose(√p_ss, √s_ss, abs_tol=atol)`, sqrt-free), and no two entries are (images of) the same
    unit-cell atom (`nearUc` = `near_indices[·] % len(structure)`) -/
def CandOK (pp : List Vec3) (pelems : List String) (atol : Rat) (nearPos : Nat → Vec3) (nearElem : Nat → String)
    (nearUc : Nat → Nat) (L : Nat) (len : Nat) (c : List Nat) : Prop :=
  c.length = len ∧
  (∀ k, k < len → c.getD k 0 < L ∧ nearElem (c.getD k 0) = pelems.getD k "") ∧
  (∀ k, k < len → ∀ j, j < k →
     iscloseSqrt (distSq (pp.getD k Vec3.zero) (pp.getD j Vec3.zero))
                 (distSq (nearPos (c.getD j 0)) (nearPos (c.getD k 0))) atol = true) ∧
  (∀ k, k < len → ∀ j, j < k → nearUc (c.getD j 0) ≠ nearUc (c.getD k 0))

theorem getD_append_lt (c : List Nat) (x k : Nat) (h : k < c.length) : (c ++ [x]).getD k 0 = c.getD k 0 := by
  rw [List.getD_eq_getElem?_getD, List.getElem?_append_left h, ← List.getD_eq_getElem?_getD]

theorem getD_append_eq (c : List Nat) (x : Nat) : (c ++ [x]).getD c.length 0 = x := by
  rw [List.getD_eq_getElem?_getD, List.getElem?_append_right (Nat.le_refl _)]; simp

/-- one extension round keeps the invariant and adds one atom -/
theorem extendRound_ok (pp : List Vec3) (pelems : List String) (atol : Rat) (nearPos : Nat → Vec3)
    (nearElem : Nat → String) (nearUc : Nat → Nat) (L i : Nat) (nearby : List Nat) (partials : List (List Nat))
    (hnear : ∀ k ∈ nearby, k < L)
    (hp : ∀ c ∈ partials, CandOK pp pelems atol nearPos nearElem nearUc L i c) :
    ∀ c ∈ extendRound pp (pelems.getD i "") i atol nearPos nearElem nearUc nearby partials,
      CandOK pp pelems atol nearPos nearElem nearUc L (i + 1) c := by
  intro c hc
  unfold extendRound at hc
  obtain ⟨mt, hmt, hc⟩ := List.mem_flatMap.mp hc
  obtain ⟨cand, hcand, hc⟩ := List.mem_filterMap.mp hc
  split at hc
  case isFalse => cases hc
  case isTrue hcond =>
  cases hc
  obtain ⟨hlen, hel, hdist, hdis⟩ := hp mt hmt
  simp only [Bool.and_eq_true, decide_eq_true_eq, List.all_eq_true, List.mem_range, Bool.not_eq_true',
    List.contains_eq_mem, decide_eq_false_iff_not, List.mem_map, not_exists, not_and] at hcond
  obtain ⟨⟨helem, hnew⟩, hd⟩ := hcond
  refine ⟨by simp [hlen], ?_, ?_, ?_⟩
  · intro k hk
    by_cases hki : k < i
    · rw [getD_append_lt _ _ _ (by omega)]; exact hel k hki
    · have : k = mt.length := by omega
      subst this
      rw [getD_append_eq]
      exact ⟨hnear cand hcand, by rw [hlen]; exact helem⟩
  · intro k hk j hj
    by_cases hki : k < i
    · rw [getD_append_lt _ _ _ (by omega), getD_append_lt _ _ _ (by omega)]
      exact hdist k hki j hj
    · have hk' : k = mt.length := by omega
      have hji : j < i := by omega
      rw [hk', getD_append_eq, getD_append_lt _ _ _ (by omega), hlen]
      exact hd j hji
  · intro k hk j hj
    by_cases hki : k < i
    · rw [getD_append_lt _ _ _ (by omega), getD_append_lt _ _ _ (by omega)]
      exact hdis k hki j hj
    · have hk' : k = mt.length := by omega
      have hji : j < mt.length := by omega
      rw [hk', getD_append_eq, getD_append_lt _ _ _ hji]
      have hmem : mt.getD j 0 ∈ mt := by
        rw [List.getD_eq_getElem?_getD, List.getElem?_eq_getElem hji]; simp
      exact hnew (mt.getD j 0) hmem

theorem foldl_extend_ok (pp : List Vec3) (pelems : List String) (atol : Rat) (nearPos : Nat → Vec3)
    (nearElem : Nat → String) (nearUc : Nat → Nat) (L : Nat) (nearby : List Nat) (init : List (List Nat))
    (hnear : ∀ k ∈ nearby, k < L)
    (h0 : ∀ c ∈ init, CandOK pp pelems atol nearPos nearElem nearUc L 1 c) (r : Nat) :
    ∀ c ∈ (List.range r).foldl
        (fun partials r => extendRound pp (pelems.getD (r + 1) "") (r + 1) atol nearPos nearElem nearUc nearby partials) init,
      CandOK pp pelems atol nearPos nearElem nearUc L (r + 1) c := by
  induction r with
  | zero => simpa using h0
  | succ r ih =>
    rw [List.range_succ, List.foldl_append]
    simp only [List.foldl_cons, List.foldl_nil]
    exact extendRound_ok pp pelems atol nearPos nearElem nearUc L (r + 1) nearby _ hnear ih

/-- **candidates_shape.** Every candidate tuple has the length of the pattern (≥ 1 atom); each entry is a valid
    position of the near list, of the element of the corresponding pattern atom, the tuple reproduces all
    pairwise pattern distances within the tolerance, and its entries are pairwise different unit-cell atoms. -/
theorem candidates_shape (pp : List Vec3) (pelems : List String) (atol m : Rat) (nStruct : Nat)
    (nearPosL : List Vec3) (nearElemL : List String) (nearUcL : List Nat) (hlen : nearPosL.length = nearElemL.length)
    (hpp : 0 < pp.length) :
    ∀ c ∈ candidates pp pelems atol m nStruct nearPosL nearElemL nearUcL,
      CandOK pp pelems atol (fun k => nearPosL.getD k Vec3.zero) (fun k => nearElemL.getD k "")
        (fun k => nearUcL.getD k 0) nearElemL.length pp.length c := by
  intro c hc
  unfold candidates at hc
  simp only at hc
  obtain ⟨a, ha, hc⟩ := List.mem_flatMap.mp hc
  have hppl : pp.length = (pp.length - 1) + 1 := by omega
  rw [hppl]
  refine foldl_extend_ok pp pelems atol _ _ _ nearElemL.length _ [[a]] ?_ ?_ (pp.length - 1) c hc
  · intro k hk
    obtain ⟨hk, -⟩ := List.mem_filter.mp hk
    obtain ⟨⟨v, k'⟩, hmem, rfl⟩ := List.mem_map.mp hk
    rw [sortLex_mem] at hmem
    have := (List.mem_zipIdx hmem).2.1
    simp at this; omega
  · intro c hc
    simp only [List.mem_singleton] at hc
    subst hc
    obtain ⟨har, hae⟩ := List.mem_filter.mp ha
    simp only [List.mem_range, decide_eq_true_eq] at har hae
    refine ⟨rfl, ?_, ?_, ?_⟩
    · intro k hk
      have : k = 0 := by omega
      subst this
      simp only [List.getD_cons_zero]
      exact ⟨by omega, hae⟩
    · intro k hk j hj; omega
    · intro k hk j hj; omega

/-! ### the pieces of `findGroups` / `find`, named; decomposition of a reported match -/

/-- the pieces of `findGroups`, named -/
def FindInput.maxSq (inp : FindInput) : Rat := maxRat (inp.ppos.flatMap (fun p => inp.ppos.map (fun r => distSq p r)))
def FindInput.allPos (inp : FindInput) : List Vec3 := allPositions inp.cell inp.pos
def FindInput.near (inp : FindInput) : List Nat := nearIndices inp.cell inp.allPos inp.maxSq inp.atol
def FindInput.nearPosL (inp : FindInput) : List Vec3 := inp.near.map (fun i => inp.allPos.getD i Vec3.zero)
def FindInput.nearElemL (inp : FindInput) : List String := inp.near.map (fun i => inp.elems.getD (i % inp.pos.length) "")
def FindInput.nearUcL (inp : FindInput) : List Nat := inp.near.map (fun i => i % inp.pos.length)
def FindInput.cands (inp : FindInput) : List (List Nat) :=
  candidates inp.ppos inp.pelems inp.atol inp.maxSq inp.pos.length inp.nearPosL inp.nearElemL inp.nearUcL
def FindInput.candsAll (inp : FindInput) : List (List Nat) := inp.cands.map (fun t => t.map (fun k => inp.near.getD k 0))
def FindInput.grouped (inp : FindInput) : List (List Nat × List (List Nat)) :=
  groupBy (fun t : List Nat => sortNat (t.map (· % inp.pos.length))) inp.candsAll

/-- the quaternion the search uses for candidate `i` of group `g` -/
def candQuat (oracle : Nat → Nat → Quat) (g i : Nat) (t : List Nat) : Quat :=
  if t.length > 1 then oracle g i else Quat.identity

theorem findGroups_eq (inp : FindInput) (ax1 : Nat) (oracle : Nat → Nat → Quat) :
    findGroups inp ax1 oracle = (inp.near, inp.grouped.zipIdx.map (fun (kg, g) =>
      { key := kg.1, tuples := kg.2,
        good := (List.range kg.2.length).filter (fun i =>
          goodCheck inp.ppos ax1 inp.atol (candQuat oracle g i (kg.2.getD i []))
            ((kg.2.getD i []).map (fun k => inp.allPos.getD k Vec3.zero))) })) := rfl

/-- `random.choice` among the candidates that passed the re-check (none / the only one / the chooser's) -/
def pickOf (choose : Nat → List Nat → Nat) (gi : Nat) (good : List Nat) : Option Nat :=
  match good with
  | [] => none
  | [i] => some i
  | many => some (many.getD (choose gi many % many.length) 0)

def mkMatch (inp : FindInput) (oracle : Nat → Nat → Quat) (gi i : Nat) (t : List Nat) : Match :=
  { idx := t.map (· % inp.pos.length), pos := t.map (fun k => inp.allPos.getD k Vec3.zero),
    q := candQuat oracle gi i t }

theorem find_eq (inp : FindInput) (ax1 : Nat) (oracle : Nat → Nat → Quat) (choose : Nat → List Nat → Nat) :
    find inp ax1 oracle choose = (findGroups inp ax1 oracle).2.zipIdx.filterMap (fun (g, gi) =>
      (pickOf choose gi g.good).map (fun i => mkMatch inp oracle gi i (g.tuples.getD i []))) := rfl

theorem pickOf_mem (choose : Nat → List Nat → Nat) (gi : Nat) (good : List Nat) (i : Nat)
    (h : pickOf choose gi good = some i) : i ∈ good := by
  unfold pickOf at h
  split at h
  · cases h
  · cases h; simp
  · cases h
    rename_i many h1 h2
    have hne : good ≠ [] := by intro e; exact h1 e
    have hpos : 0 < good.length := List.length_pos_iff.mpr hne
    have hlt : choose gi good % good.length < good.length := Nat.mod_lt _ hpos
    rw [List.getD_eq_getElem?_getD, List.getElem?_eq_getElem hlt]
    simp


/-- **decomposition of a reported match**: it is candidate `i` of group `gi`, it passed the rotation re-check with
    the quaternion that is reported, and it is one of the enumerated candidates -/
theorem find_mem (inp : FindInput) (ax1 : Nat) (oracle : Nat → Nat → Quat) (choose : Nat → List Nat → Nat)
    (m : Match) (hm : m ∈ find inp ax1 oracle choose) :
    ∃ gi kg i, inp.grouped[gi]? = some kg ∧ i < kg.2.length ∧
      goodCheck inp.ppos ax1 inp.atol (candQuat oracle gi i (kg.2.getD i []))
        ((kg.2.getD i []).map (fun k => inp.allPos.getD k Vec3.zero)) = true ∧
      m = mkMatch inp oracle gi i (kg.2.getD i []) := by
  rw [find_eq, findGroups_eq] at hm
  obtain ⟨⟨g, gi⟩, hmem, hpick⟩ := List.mem_filterMap.mp hm
  rw [List.mem_zipIdx_iff_getElem?] at hmem
  simp only [List.getElem?_map, List.getElem?_zipIdx, Option.map_map, Option.map_eq_some_iff] at hmem
  obtain ⟨kg, hkg, hg⟩ := hmem
  simp only [Function.comp, Nat.zero_add] at hg
  simp only [Option.map_eq_some_iff] at hpick
  obtain ⟨i, hi, hmk⟩ := hpick
  have hgood := pickOf_mem _ _ _ _ hi
  subst hg
  simp only [List.mem_filter, List.mem_range] at hgood
  exact ⟨gi, kg, i, hkg, hgood.1, hgood.2, hmk.symm⟩


/-! ### the 27 images -/

theorem searchMultipliers_length : searchMultipliers.length = 27 := by decide

theorem searchMultipliers_pm1 : ∀ mm ∈ searchMultipliers, mm.1 ∈ pm1 ∧ mm.2.1 ∈ pm1 ∧ mm.2.2 ∈ pm1 := by decide

theorem allPositions_length (cell : Mat3) (pos : List Vec3) : (allPositions cell pos).length = 27 * pos.length := by
  unfold allPositions
  rw [flatMap_map_length (searchOffsets cell) pos (fun off p => Vec3.add p off)]
  simp [searchOffsets, searchMultipliers_length]

/-- entry `x` of the image list is atom `x % N` shifted by the lattice vector of image `x / N` -/
theorem allPositions_getD (cell : Mat3) (pos : List Vec3) (x : Nat) (hx : x < (allPositions cell pos).length) :
    ∃ i j l : Int, i ∈ pm1 ∧ j ∈ pm1 ∧ l ∈ pm1 ∧ searchMultipliers[x / pos.length]? = some (i, j, l) ∧
      (allPositions cell pos).getD x Vec3.zero
        = Vec3.add (pos.getD (x % pos.length) Vec3.zero) (cell.lattice i j l) := by
  rw [allPositions_length] at hx
  have hN : 0 < pos.length := by
    rcases Nat.eq_zero_or_pos pos.length with h | h
    · rw [h] at hx; simp at hx
    · exact h
  have hdiv : x / pos.length < 27 := by
    rw [Nat.div_lt_iff_lt_mul hN]; exact hx
  have hlt : x / pos.length < searchMultipliers.length := by rw [searchMultipliers_length]; exact hdiv
  let mm := searchMultipliers[x / pos.length]
  have hmem : mm ∈ searchMultipliers := List.getElem_mem hlt
  obtain ⟨h1, h2, h3⟩ := searchMultipliers_pm1 mm hmem
  refine ⟨mm.1, mm.2.1, mm.2.2, h1, h2, h3, ?_, ?_⟩
  · rw [List.getElem?_eq_getElem hlt]
  · unfold allPositions
    rw [flatMap_map_getD (searchOffsets cell) pos (fun off p => Vec3.add p off) x Vec3.zero Vec3.zero Vec3.zero
      (by simp [searchOffsets, searchMultipliers_length]; exact hx)]
    congr 1
    simp only [searchOffsets]
    rw [List.getD_eq_getElem?_getD, List.getElem?_map, List.getElem?_eq_getElem hlt]
    rfl

theorem nearIndices_lt (cell : Mat3) (allPos : List Vec3) (m atol : Rat) :
    ∀ x ∈ nearIndices cell allPos m atol, x < allPos.length := by
  intro x hx
  unfold nearIndices at hx
  have := (List.mem_filter.mp hx).1
  simpa using this


theorem getD_map_lt {α β} (l : List α) (f : α → β) (k : Nat) (d : β) (d' : α) (h : k < l.length) :
    (l.map f).getD k d = f (l.getD k d') := by
  simp [List.getD_eq_getElem?_getD, List.getElem?_map, List.getElem?_eq_getElem h]

/-- **witness of a reported match**: the candidate tuple `c` (positions in the near list) it was built from, with the
    enumeration invariant, the passed re-check, and the way the match is assembled from it -/
theorem find_witness (inp : FindInput) (ax1 : Nat) (oracle : Nat → Nat → Quat) (choose : Nat → List Nat → Nat)
    (hpp : 0 < inp.ppos.length) (m : Match) (hm : m ∈ find inp ax1 oracle choose) :
    ∃ gi i c,
      CandOK inp.ppos inp.pelems inp.atol (fun k => inp.nearPosL.getD k Vec3.zero) (fun k => inp.nearElemL.getD k "")
        (fun k => inp.nearUcL.getD k 0) inp.near.length inp.ppos.length c ∧
      goodCheck inp.ppos ax1 inp.atol (candQuat oracle gi i (c.map (fun k => inp.near.getD k 0)))
        ((c.map (fun k => inp.near.getD k 0)).map (fun k => inp.allPos.getD k Vec3.zero)) = true ∧
      m = mkMatch inp oracle gi i (c.map (fun k => inp.near.getD k 0)) := by
  obtain ⟨gi, kg, i, hkg, hi, hgood, hmk⟩ := find_mem inp ax1 oracle choose m hm
  have hkgmem : kg ∈ inp.grouped := List.mem_of_getElem? hkg
  have htmem : kg.2.getD i [] ∈ kg.2 := by
    rw [List.getD_eq_getElem?_getD, List.getElem?_eq_getElem hi]; simp
  have hall : kg.2.getD i [] ∈ inp.candsAll := groupBy_mem _ _ kg hkgmem _ htmem
  obtain ⟨c, hc, hct⟩ := List.mem_map.mp hall
  have hshape := candidates_shape inp.ppos inp.pelems inp.atol inp.maxSq inp.pos.length inp.nearPosL inp.nearElemL inp.nearUcL
    (by simp [FindInput.nearPosL, FindInput.nearElemL]) hpp c hc
  have hL : inp.nearElemL.length = inp.near.length := by simp [FindInput.nearElemL]
  rw [hL] at hshape
  rw [← hct] at hgood hmk
  exact ⟨gi, i, c, hshape, hgood, hmk⟩

/-- entry `k` of a candidate tuple, as an index into the image list: it is in range -/
theorem near_getD_lt (inp : FindInput) (ck : Nat) (h : ck < inp.near.length) :
    inp.near.getD ck 0 < inp.allPos.length := by
  apply nearIndices_lt inp.cell inp.allPos inp.maxSq inp.atol
  rw [List.getD_eq_getElem?_getD, List.getElem?_eq_getElem h]
  exact List.getElem_mem h

end Mofun
