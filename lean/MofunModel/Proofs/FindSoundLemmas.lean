/-
  FindSoundLemmas.lean — helper lemmas for C01 (soundness of the pattern search, Model/Find.lean):
  list plumbing (`flatMap` blocks, `sortLex`, `groupBy`), the invariant of the candidate enumeration
  (`extendRound` / `candidates`), and the decomposition of a reported match (`find_mem`).
-/
import MofunModel.Model.Find

namespace Mofun

/-! ### list plumbing -/

theorem flatMap_map_length {α β γ} (l : List α) (xs : List β) (f : α → β → γ) :
    (l.flatMap (fun a => xs.map (f a))).length = l.length * xs.length := by
  induction l with
  | nil => simp
  | cons a as ih => simp [List.flatMap_cons, ih, Nat.succ_mul, Nat.add_comm]

/-- element `i` of `image-major` blocks: block `i / n`, entry `i % n` -/
theorem flatMap_map_getD {α β γ} (l : List α) (xs : List β) (f : α → β → γ) (i : Nat) (d : γ) (a0 : α) (x0 : β)
    (h : i < l.length * xs.length) :
    (l.flatMap (fun a => xs.map (f a))).getD i d
      = f (l.getD (i / xs.length) a0) (xs.getD (i % xs.length) x0) := by
  induction l generalizing i with
  | nil => simp at h
  | cons a as ih =>
    have hn : 0 < xs.length := by
      rcases Nat.eq_zero_or_pos xs.length with h0 | h0
      · rw [h0] at h; simp at h
      · exact h0
    rw [List.flatMap_cons]
    by_cases hi : i < xs.length
    · rw [List.getD_eq_getElem?_getD, List.getElem?_append_left (by simpa using hi)]
      rw [Nat.div_eq_of_lt hi, Nat.mod_eq_of_lt hi]
      simp [List.getD_eq_getElem?_getD, hi]
    · have hi' : xs.length ≤ i := Nat.le_of_not_lt hi
      rw [List.getD_eq_getElem?_getD, List.getElem?_append_right (by simpa using hi'),
        ← List.getD_eq_getElem?_getD]
      simp only [List.length_map]
      have hlt : i - xs.length < as.length * xs.length := by
        simp only [List.length_cons, Nat.succ_mul] at h; omega
      rw [ih (i - xs.length) hlt]
      have hdiv : i / xs.length = (i - xs.length) / xs.length + 1 := by
        rw [Nat.div_eq_sub_div hn hi']
      have hmod : i % xs.length = (i - xs.length) % xs.length := Nat.mod_eq_sub_mod hi'
      rw [hdiv, hmod, List.getD_cons_succ]

theorem insertLex_mem (x y : Vec3 × Nat) (l : List (Vec3 × Nat)) :
    y ∈ insertLex x l ↔ y = x ∨ y ∈ l := by
  induction l with
  | nil => simp [insertLex]
  | cons z zs ih =>
    unfold insertLex
    split
    · simp
    · simp only [List.mem_cons, ih]
      constructor
      · rintro (h | h | h) <;> simp [h]
      · rintro (h | h | h) <;> simp [h]

theorem sortLex_mem (y : Vec3 × Nat) (l : List (Vec3 × Nat)) : y ∈ sortLex l ↔ y ∈ l := by
  induction l with
  | nil => simp [sortLex]
  | cons z zs ih =>
    have : sortLex (z :: zs) = insertLex z (sortLex zs) := rfl
    rw [this, insertLex_mem, ih]; simp

/-- every element of every group produced by `groupBy` comes from the input list -/
theorem groupBy_mem {κ α} [DecidableEq κ] (key : α → κ) (l : List α) :
    ∀ p ∈ groupBy key l, ∀ x ∈ p.2, x ∈ l := by
  unfold groupBy
  suffices h : ∀ (acc : List (κ × List α)) (P : α → Prop),
      (∀ p ∈ acc, ∀ x ∈ p.2, P x) → (∀ x ∈ l, P x) →
      ∀ p ∈ l.foldl (fun acc x =>
        let k := key x
        if acc.any (fun p => p.1 = k) then acc.map (fun p => if p.1 = k then (p.1, p.2 ++ [x]) else p)
        else acc ++ [(k, [x])]) acc, ∀ x ∈ p.2, P x by
    exact h [] (· ∈ l) (by simp) (fun x hx => hx)
  intro acc P
  induction l generalizing acc with
  | nil => intro h _; simpa using h
  | cons y ys ih =>
    intro hacc hl
    rw [List.foldl_cons]
    apply ih
    · intro p hp x hx
      simp only at hp
      split at hp
      · obtain ⟨p0, hp0, rfl⟩ := List.mem_map.mp hp
        split at hx
        · simp only [List.mem_append, List.mem_singleton] at hx
          rcases hx with hx | rfl
          · exact hacc p0 hp0 x hx
          · exact hl _ (by simp)
        · exact hacc p0 hp0 x hx
      · simp only [List.mem_append, List.mem_singleton] at hp
        rcases hp with hp | rfl
        · exact hacc p hp x hx
        · simp only [List.mem_singleton] at hx
          subst hx; exact hl _ (by simp)
    · intro x hx; exact hl x (by simp [hx])

/-! ### the invariant of the candidate enumeration -/

/-- what every (partial) candidate tuple of length `len` satisfies: every entry is a valid position of the near
    list, carries the element of the corresponding pattern atom, and reproduces every pairwise pattern distance
    (the code's `math.isclose(√p_ss, √s_ss, abs_tol=atol)`, sqrt-free) -/
def CandOK (pp : List Vec3) (pelems : List String) (atol : Rat) (nearPos : Nat → Vec3) (nearElem : Nat → String)
    (L : Nat) (len : Nat) (c : List Nat) : Prop :=
  c.length = len ∧
  (∀ k, k < len → c.getD k 0 < L ∧ nearElem (c.getD k 0) = pelems.getD k "") ∧
  (∀ k, k < len → ∀ j, j < k →
     iscloseSqrt (distSq (pp.getD k Vec3.zero) (pp.getD j Vec3.zero))
                 (distSq (nearPos (c.getD j 0)) (nearPos (c.getD k 0))) atol = true)

theorem getD_append_lt (c : List Nat) (x k : Nat) (h : k < c.length) : (c ++ [x]).getD k 0 = c.getD k 0 := by
  rw [List.getD_eq_getElem?_getD, List.getElem?_append_left h, ← List.getD_eq_getElem?_getD]

theorem getD_append_eq (c : List Nat) (x : Nat) : (c ++ [x]).getD c.length 0 = x := by
  rw [List.getD_eq_getElem?_getD, List.getElem?_append_right (Nat.le_refl _)]; simp

/-- one extension round keeps the invariant and adds one atom -/
theorem extendRound_ok (pp : List Vec3) (pelems : List String) (atol : Rat) (nearPos : Nat → Vec3)
    (nearElem : Nat → String) (L i : Nat) (nearby : List Nat) (partials : List (List Nat))
    (hnear : ∀ k ∈ nearby, k < L)
    (hp : ∀ c ∈ partials, CandOK pp pelems atol nearPos nearElem L i c) :
    ∀ c ∈ extendRound pp (pelems.getD i "") i atol nearPos nearElem nearby partials,
      CandOK pp pelems atol nearPos nearElem L (i + 1) c := by
  intro c hc
  unfold extendRound at hc
  obtain ⟨mt, hmt, hc⟩ := List.mem_flatMap.mp hc
  obtain ⟨cand, hcand, hc⟩ := List.mem_filterMap.mp hc
  split at hc
  case isFalse => cases hc
  case isTrue hcond =>
  cases hc
  obtain ⟨hlen, hel, hdist⟩ := hp mt hmt
  simp only [Bool.and_eq_true, decide_eq_true_eq, List.all_eq_true, List.mem_range] at hcond
  obtain ⟨helem, hd⟩ := hcond
  refine ⟨by simp [hlen], ?_, ?_⟩
  · intro k hk
    by_cases hki : k < i
    · rw [getD_append_lt _ _ _ (by omega)]; exact hel k hki
    · have : k = mt.length := by omega
      subst this
      rw [getD_append_eq]
      exact ⟨hnear cand hcand, by rw [hlen]; exact helem⟩
  · intro k hk j hj
    by_cases hki : k < i
    · rw [getD_append_lt _ _ _ (by omega), getD_append_lt _ _ _ (by omega)]
      exact hdist k hki j hj
    · have hk' : k = mt.length := by omega
      have hji : j < i := by omega
      rw [hk', getD_append_eq, getD_append_lt _ _ _ (by omega), hlen]
      exact hd j hji

theorem foldl_extend_ok (pp : List Vec3) (pelems : List String) (atol : Rat) (nearPos : Nat → Vec3)
    (nearElem : Nat → String) (L : Nat) (nearby : List Nat) (init : List (List Nat))
    (hnear : ∀ k ∈ nearby, k < L)
    (h0 : ∀ c ∈ init, CandOK pp pelems atol nearPos nearElem L 1 c) (r : Nat) :
    ∀ c ∈ (List.range r).foldl
        (fun partials r => extendRound pp (pelems.getD (r + 1) "") (r + 1) atol nearPos nearElem nearby partials) init,
      CandOK pp pelems atol nearPos nearElem L (r + 1) c := by
  induction r with
  | zero => simpa using h0
  | succ r ih =>
    rw [List.range_succ, List.foldl_append]
    simp only [List.foldl_cons, List.foldl_nil]
    exact extendRound_ok pp pelems atol nearPos nearElem L (r + 1) nearby _ hnear ih

/-- **candidates_shape.** Every candidate tuple has the length of the pattern (≥ 1 atom); each entry is a valid
    position of the near list, of the element of the corresponding pattern atom, and the tuple reproduces all
    pairwise pattern distances within the tolerance. -/
theorem candidates_shape (pp : List Vec3) (pelems : List String) (atol m : Rat) (nStruct : Nat)
    (nearPosL : List Vec3) (nearElemL : List String) (hlen : nearPosL.length = nearElemL.length)
    (hpp : 0 < pp.length) :
    ∀ c ∈ candidates pp pelems atol m nStruct nearPosL nearElemL,
      CandOK pp pelems atol (fun k => nearPosL.getD k Vec3.zero) (fun k => nearElemL.getD k "")
        nearElemL.length pp.length c := by
  intro c hc
  unfold candidates at hc
  simp only at hc
  obtain ⟨a, ha, hc⟩ := List.mem_flatMap.mp hc
  have hppl : pp.length = (pp.length - 1) + 1 := by omega
  rw [hppl]
  refine foldl_extend_ok pp pelems atol _ _ nearElemL.length _ [[a]] ?_ ?_ (pp.length - 1) c hc
  · intro k hk
    obtain ⟨hk, -⟩ := List.mem_filter.mp hk
    obtain ⟨⟨v, k'⟩, hmem, rfl⟩ := List.mem_map.mp hk
    rw [sortLex_mem] at hmem
    have := (List.mem_zipIdx hmem).2.1
    simp at this; omega
  · intro c hc
    simp only [List.mem_singleton] at hc
    subst hc
    obtain ⟨har, hae⟩ := List.mem_filter.mp ha
    simp only [List.mem_range, decide_eq_true_eq] at har hae
    refine ⟨rfl, ?_, ?_⟩
    · intro k hk
      have : k = 0 := by omega
      subst this
      simp only [List.getD_cons_zero]
      exact ⟨by omega, hae⟩
    · intro k hk j hj; omega

end Mofun
