/-
  SavesLemmas.lean — helper definitions and lemmas for Props/C09Saves.lean: the text / cell guard `LmpStrings`, the
  tuple-arity invariant `Arity` and its preservation by every operation of the history model (Model/Hist.lean).
  Core tactics only.
-/
import MofunModel.Proofs.HistMeaning
import MofunModel.Proofs.LmpLemmas

namespace Mofun.C09Saves

open Mofun Mofun.Hist

/-! ## the guards -/

/-- **the hypotheses of `LmpOk` that are about TEXT and CELL** (nothing here is about indices or sizes):
    every type label is free of `#`, of line breaks and of blanks at either end; every coefficient string (pair, bond,
    angle, dihedral, improper) has at most one `#` (one trailing comment) and no line break; the cell is absent, or
    LAMMPS-oriented (first vector along x, second in the xy plane) with lengths that print positive -/
def LmpStrings (a : Atoms) : Prop :=
  a.typeLabels.all Lmp.labelOk = true ∧ (Lmp.allCoeffs a).all Lmp.coeffOk = true ∧ Lmp.cellOk a.cell = true

instance (a : Atoms) : Decidable (LmpStrings a) := by unfold LmpStrings; infer_instance

/-- every tuple of the kind has `k` atoms -/
def KindArity (k : Nat) (t : TermTable) : Prop := ∀ tm ∈ t.terms, tm.atoms.length = k

instance (k : Nat) (t : TermTable) : Decidable (KindArity k t) := by unfold KindArity; infer_instance

/-- bonds are pairs, angles triples, dihedrals and impropers quadruples (`WF` does not say this: in the model a tuple
    is a list; in the code the arrays have shape (n, 2), (n, 3), (n, 4), (n, 4)) -/
def Arity (a : Atoms) : Prop :=
  KindArity 2 a.bonds ∧ KindArity 3 a.angles ∧ KindArity 4 a.dihedrals ∧ KindArity 4 a.impropers

instance (a : Atoms) : Decidable (Arity a) := by unfold Arity; infer_instance

/-- what `LmpOk` needs beyond `WF` and the text / cell guard: one label per mass, and tuples of the right arity -/
def LmpShape (a : Atoms) : Prop := a.typeLabels.length = a.typeMasses.length ∧ Arity a

instance (a : Atoms) : Decidable (LmpShape a) := by unfold LmpShape; infer_instance

theorem arityOk_iff (k : Nat) (t : TermTable) : Lmp.arityOk k t = true ↔ KindArity k t := by
  unfold Lmp.arityOk KindArity
  rw [List.all_eq_true]
  constructor
  · intro h tm htm; simpa using h tm htm
  · intro h tm htm; simpa using h tm htm

theorem termsInRange_of (n : Nat) (t : TermTable) (h : TermsWF n t) : Lmp.termsInRange n t = true := by
  unfold Lmp.termsInRange
  rw [List.all_eq_true]
  intro tm htm
  rw [List.all_eq_true]
  intro x hx
  simpa using (h.1 tm htm).1 x hx

/-! ## `Arity` is kept by every operation -/

theorem kindArity_empty (k : Nat) : KindArity k TermTable.empty := by
  intro tm htm; simp [TermTable.empty] at htm

theorem kindArity_delete (k : Nat) (t : TermTable) (idx : List Nat) (h : KindArity k t) :
    KindArity k (t.delete idx) := by
  intro tm htm
  simp only [TermTable.delete, deleteTerms, List.mem_map, List.mem_filter] at htm
  obtain ⟨t0, ⟨hmem, _⟩, rfl⟩ := htm
  simpa using h t0 hmem

theorem arity_delete (a r : Atoms) (idx : List Nat) (ha : Arity a) (h : a.delete idx = .ok r) : Arity r := by
  unfold Atoms.delete at h
  split at h
  · cases h
  · cases h
    obtain ⟨h1, h2, h3, h4⟩ := ha
    exact ⟨kindArity_delete _ _ _ h1, kindArity_delete _ _ _ h2, kindArity_delete _ _ _ h3, kindArity_delete _ _ _ h4⟩

theorem arity_pop (a r : Atoms) (i : Int) (ha : Arity a) (h : a.pop i = .ok r) : Arity r := by
  unfold Atoms.pop at h
  split at h
  · cases h
  · exact arity_delete a r _ ha h

theorem arity_getitem (a r : Atoms) (idx : List Nat) (h : a.getitem idx = .ok r) : Arity r := by
  unfold Atoms.getitem at h
  split at h
  · cases h
  · split at h
    · cases h
    · cases h
      exact ⟨kindArity_empty _, kindArity_empty _, kindArity_empty _, kindArity_empty _⟩

theorem kindArity_from (k : Nat) (mine other res : TermTable) (off : Nat) (conv : Nat → Option Nat)
    (hm : KindArity k mine) (ho : KindArity k other) (h : ∀ tm ∈ res.terms, TermFrom mine other off conv tm) :
    KindArity k res := by
  intro tm htm
  rcases h tm htm with ⟨t0, ht0, _, hat, _⟩ | ⟨t0, ht0, _, hat, _⟩
  · rw [hat]; exact hm t0 ht0
  · rw [hat, List.length_map]; exact ho t0 ht0

theorem arity_extendCore (a1 b r : Atoms) (offs : Offsets) (map : List (Nat × Nat)) (ha : Arity a1) (hb : Arity b)
    (h : extendCore a1 offs b map = .ok r) : Arity r := by
  obtain ⟨_, fb, fg, fd, fi, _⟩ := extendCore_from a1 b r offs map h
  obtain ⟨a1', a2', a3', a4'⟩ := ha
  obtain ⟨b1, b2, b3, b4⟩ := hb
  exact ⟨kindArity_from 2 _ _ _ _ _ a1' b1 fb, kindArity_from 3 _ _ _ _ _ a2' b2 fg,
    kindArity_from 4 _ _ _ _ _ a3' b3 fd, kindArity_from 4 _ _ _ _ _ a4' b4 fi⟩

theorem arity_extend (a b r : Atoms) (off : Option Offsets) (map : List (Nat × Nat)) (ha : Arity a) (hb : Arity b)
    (h : a.extend b off map = .ok r) : Arity r := by
  cases off with
  | none =>
    rw [extend_none_eq_core] at h
    exact arity_extendCore _ b r _ map (show Arity (a.extendTypes b).1 from ha) hb h
  | some o =>
    rw [extend_some_eq_core] at h
    exact arity_extendCore a b r o map ha hb h

theorem arity_replicate (a r : Atoms) (da db dc : Nat) (ha : Arity a) (h : a.replicate da db dc = .ok r) :
    Arity r := by
  unfold Atoms.replicate at h
  split at h
  · cases h
  · rename_i cell _
    simp only at h
    have inv : ∀ ms : List (Nat × Nat × Nat), ∀ r0,
        ms.foldl (fun (acc : Except Err Atoms) (m : Nat × Nat × Nat) =>
          match acc with
          | .error e => .error e
          | .ok r => r.extend (a.translate (cell.lattice m.1 m.2.1 m.2.2)) (some Offsets.zero) []) (.ok a) = .ok r0
        → Arity r0 := by
      intro ms
      apply hist_foldl_inv (fun acc : Except Err Atoms => ∀ r0, acc = .ok r0 → Arity r0)
      · intro r0 h0; cases h0; exact ha
      · intro acc m hacc r1 h1
        cases acc with
        | error e => simp at h1
        | ok r0 =>
          simp only at h1
          exact arity_extend r0 _ r1 _ [] (hacc r0 rfl) (show Arity (a.translate _) from ha) h1
    split at h
    · cases h
    · rename_i r0 hr0
      cases h
      exact inv _ r0 hr0

/-! ## histories -/

def ArityState (s : State) : Prop := ∀ (i : Nat) (a : Atoms), s[i]? = some (some a) → Arity a

/-- the extra guard on a history: a constructed literal has tuples of the right arity -/
def ArityOp : Op → Prop
  | .construct _ a => Arity a
  | _ => True

instance (op : Op) : Decidable (ArityOp op) := by cases op <;> unfold ArityOp <;> infer_instance

theorem arityState_init : ArityState State.init := by
  intro i a h
  simp [State.init, List.getElem?_replicate] at h

theorem arityState_put (s s' : State) (i : Nat) (a : Atoms) (hs : ArityState s) (ha : Arity a)
    (h : putSlot s i a = .ok s') : ArityState s' := by
  unfold putSlot at h
  split at h
  · cases h
    rename_i hlt
    intro j b hj
    by_cases hij : i = j
    · subst hij
      simp [hlt] at hj
      subst hj; exact ha
    · rw [List.getElem?_set_ne hij] at hj
      exact hs j b hj
  · cases h

/-- **arity_step.**  No guard beyond the literal of a `construct`: every operation keeps the arities. -/
theorem arity_step (s s' : State) (op : Op) (hs : ArityState s) (hao : ArityOp op) (h : step s op = .ok s') :
    ArityState s' := by
  cases op with
  | construct dst a => exact arityState_put s s' dst a hs hao h
  | copy src dst =>
    simp only [step, bind, Except.bind] at h
    cases ha : getSlot s src with
    | error e => simp [ha] at h
    | ok a =>
      simp only [ha] at h
      exact arityState_put s s' dst a hs (hs src a (getSlot_ok s src a ha)) h
  | delete slot idx =>
    simp only [step, bind, Except.bind] at h
    cases ha : getSlot s slot with
    | error e => simp [ha] at h
    | ok a =>
      simp only [ha] at h
      cases hr : a.delete idx with
      | error e => simp [hr] at h
      | ok r =>
        simp only [hr] at h
        exact arityState_put s s' slot r hs (arity_delete a r idx (hs slot a (getSlot_ok s slot a ha)) hr) h
  | pop slot i =>
    simp only [step, bind, Except.bind] at h
    cases ha : getSlot s slot with
    | error e => simp [ha] at h
    | ok a =>
      simp only [ha] at h
      cases hr : a.pop i with
      | error e => simp [hr] at h
      | ok r =>
        simp only [hr] at h
        exact arityState_put s s' slot r hs (arity_pop a r i (hs slot a (getSlot_ok s slot a ha)) hr) h
  | extend dst src off map =>
    simp only [step, bind, Except.bind] at h
    cases ha : getSlot s dst with
    | error e => simp [ha] at h
    | ok a =>
      simp only [ha] at h
      cases hb : getSlot s src with
      | error e => simp [hb] at h
      | ok b =>
        simp only [hb] at h
        cases hr : a.extend b off map with
        | error e => simp [hr] at h
        | ok r =>
          simp only [hr] at h
          exact arityState_put s s' dst r hs
            (arity_extend a b r off map (hs dst a (getSlot_ok s dst a ha)) (hs src b (getSlot_ok s src b hb)) hr) h
  | replicate src dst da db dc =>
    simp only [step, bind, Except.bind] at h
    cases ha : getSlot s src with
    | error e => simp [ha] at h
    | ok a =>
      simp only [ha] at h
      cases hr : a.replicate da db dc with
      | error e => simp [hr] at h
      | ok r =>
        simp only [hr] at h
        exact arityState_put s s' dst r hs (arity_replicate a r da db dc (hs src a (getSlot_ok s src a ha)) hr) h
  | getitem src dst idx =>
    simp only [step, bind, Except.bind] at h
    cases ha : getSlot s src with
    | error e => simp [ha] at h
    | ok a =>
      simp only [ha] at h
      cases hr : a.getitem idx with
      | error e => simp [hr] at h
      | ok r =>
        simp only [hr] at h
        exact arityState_put s s' dst r hs (arity_getitem a r idx hr) h

/-- **arity_run.** -/
theorem arity_run (ops : List Op) : ∀ (s s' : State), ArityState s → (∀ op ∈ ops, ArityOp op) →
    run s ops = .ok s' → ArityState s' := by
  induction ops with
  | nil =>
    intro s s' hs _ h
    simp only [run] at h
    cases h; exact hs
  | cons op rest ih =>
    intro s s' hs hao h
    simp only [run] at h
    cases hstep : step s op with
    | error e => simp [hstep] at h
    | ok s1 =>
      simp only [hstep] at h
      exact ih s1 s' (arity_step s s1 op hs (hao op List.mem_cons_self) hstep)
        (fun o ho => hao o (List.mem_cons_of_mem _ ho)) h

end Mofun.C09Saves
