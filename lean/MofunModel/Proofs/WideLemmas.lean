/-
  WideLemmas.lean — helper lemmas for the widened index conventions (Model/TopoWide.lean): the re-index loop over
  integers, its agreement with the natural-number loop on non-negative lists, index normalisation.
-/
import MofunModel.Model.TopoWide
import MofunModel.Proofs.DeleteLemmas

namespace Mofun

/-! ## the re-index loop over `Int` -/

/-- number of listed indices strictly below `x` (with multiplicity) -/
def rankBelowI (idx : List Int) (x : Int) : Nat := (idx.filter (fun d => decide (d < x))).length

theorem rankBelowI_cons (d : Int) (rest : List Int) (x : Int) :
    rankBelowI (d :: rest) x = (if d < x then 1 else 0) + rankBelowI rest x := by
  unfold rankBelowI
  by_cases h : d < x <;> simp [h]
  omega

theorem rankBelowI_all (rest : List Int) (x : Int) (h : ∀ r ∈ rest, r < x) : rankBelowI rest x = rest.length := by
  unfold rankBelowI
  rw [List.filter_eq_self.mpr]
  intro r hr; simpa using h r hr

theorem rankBelowI_perm {l₁ l₂ : List Int} (h : l₁.Perm l₂) (x : Int) : rankBelowI l₁ x = rankBelowI l₂ x := by
  unfold rankBelowI; exact (h.filter _).length_eq

theorem reindexI_desc (sd : List Int) (h : sd.Pairwise (· > ·)) (x : Int) (hx : x ∉ sd) :
    reindexI sd x = x - (rankBelowI sd x : Int) := by
  induction sd generalizing x with
  | nil => simp [reindexI, rankBelowI]
  | cons d rest ih =>
    have hrest : rest.Pairwise (· > ·) := (List.pairwise_cons.mp h).2
    have hd : ∀ r ∈ rest, d > r := (List.pairwise_cons.mp h).1
    have hxd : x ≠ d := fun e => hx (by simp [e])
    have hxr : x ∉ rest := fun m => hx (by simp [m])
    have hfold : reindexI (d :: rest) x = reindexI rest (shiftAboveI d x) := by simp [reindexI]
    rw [hfold, rankBelowI_cons]
    by_cases hgt : x > d
    · have hx1 : x - 1 ∉ rest := fun m => by have := hd _ m; omega
      have h1 : rankBelowI rest (x - 1) = rest.length := rankBelowI_all _ _ (fun r hr => by have := hd r hr; omega)
      have h2 : rankBelowI rest x = rest.length := rankBelowI_all _ _ (fun r hr => by have := hd r hr; omega)
      have hs : shiftAboveI d x = x - 1 := by simp [shiftAboveI, hgt]
      have hlt : d < x := hgt
      rw [hs, ih hrest (x - 1) hx1, h1, h2]
      simp [hlt]; omega
    · have hs : shiftAboveI d x = x := by simp [shiftAboveI, hgt]
      have hlt : ¬ d < x := by omega
      rw [hs, ih hrest x hxr]
      simp [hlt]

theorem insertDescI_perm (x : Int) (l : List Int) : (insertDescI x l).Perm (x :: l) := by
  induction l with
  | nil => simp [insertDescI]
  | cons y ys ih =>
    unfold insertDescI
    split
    · exact List.Perm.refl _
    · exact (List.Perm.cons y ih).trans (List.Perm.swap x y ys)

theorem sortDescI_perm (idx : List Int) : (sortDescI idx).Perm idx := by
  induction idx with
  | nil => simp [sortDescI]
  | cons x xs ih =>
    have : sortDescI (x :: xs) = insertDescI x (sortDescI xs) := rfl
    rw [this]
    exact (insertDescI_perm x _).trans (List.Perm.cons x ih)

theorem insertDescI_pairwise (x : Int) (l : List Int) (h : l.Pairwise (· ≥ ·)) :
    (insertDescI x l).Pairwise (· ≥ ·) := by
  induction l with
  | nil => simp [insertDescI]
  | cons y ys ih =>
    have hy := List.pairwise_cons.mp h
    unfold insertDescI
    split
    · rename_i hge
      refine List.pairwise_cons.mpr ⟨?_, h⟩
      intro z hz
      rcases List.mem_cons.mp hz with rfl | hz
      · exact hge
      · have := hy.1 z hz; omega
    · rename_i hlt
      refine List.pairwise_cons.mpr ⟨?_, ih hy.2⟩
      intro z hz
      have hz' := (insertDescI_perm x ys).mem_iff.mp hz
      rcases List.mem_cons.mp hz' with rfl | hz'
      · omega
      · exact hy.1 z hz'

theorem sortDescI_ge (idx : List Int) : (sortDescI idx).Pairwise (· ≥ ·) := by
  induction idx with
  | nil => simp [sortDescI]
  | cons x xs ih => exact insertDescI_pairwise x _ ih

theorem sortDescI_pairwise (idx : List Int) (hnd : idx.Nodup) : (sortDescI idx).Pairwise (· > ·) := by
  have hnd' : (sortDescI idx).Nodup := (sortDescI_perm idx).nodup_iff.mpr hnd
  have := List.Pairwise.and (sortDescI_ge idx) hnd'
  refine this.imp ?_
  intro a b hab; have := hab.1; have := hab.2; omega

/-- for DISTINCT raw integers the loop subtracts the number of listed integers below the entry — negative ones
    included, although they do not denote atoms below it -/
theorem reindexI_eq_rank (idx : List Int) (hnd : idx.Nodup) (x : Int) (hx : x ∉ idx) :
    reindexI (sortDescI idx) x = x - (rankBelowI idx x : Int) := by
  have hx' : x ∉ sortDescI idx := fun m => hx ((sortDescI_perm idx).mem_iff.mp m)
  rw [reindexI_desc _ (sortDescI_pairwise idx hnd) x hx', rankBelowI_perm (sortDescI_perm idx)]

/-! ## non-negative lists: the integer loop is the natural-number loop -/

theorem insertDescI_ofNat (x : Nat) (l : List Nat) :
    insertDescI (Int.ofNat x) (l.map Int.ofNat) = (insertDesc x l).map Int.ofNat := by
  induction l with
  | nil => rfl
  | cons y ys ih =>
    simp only [List.map_cons, insertDescI, insertDesc]
    by_cases h : x ≥ y
    · simp [h]
    · have h' : ¬ Int.ofNat x ≥ Int.ofNat y := by simp; omega
      simp only [h, h', if_false, List.map_cons]
      rw [ih]

theorem sortDescI_ofNat (idx : List Nat) : sortDescI (idx.map Int.ofNat) = (sortDesc idx).map Int.ofNat := by
  induction idx with
  | nil => rfl
  | cons x xs ih =>
    have e1 : sortDescI ((x :: xs).map Int.ofNat) = insertDescI (Int.ofNat x) (sortDescI (xs.map Int.ofNat)) := rfl
    have e2 : sortDesc (x :: xs) = insertDesc x (sortDesc xs) := rfl
    rw [e1, e2, ih, insertDescI_ofNat]

theorem shiftAboveI_ofNat (i x : Nat) : shiftAboveI (Int.ofNat i) (Int.ofNat x) = Int.ofNat (shiftAbove i x) := by
  unfold shiftAboveI shiftAbove
  by_cases h : x > i
  · have h' : Int.ofNat x > Int.ofNat i := by simp; omega
    simp only [h, h', if_true]
    simp; omega
  · simp [h]

theorem reindexI_ofNat (sd : List Nat) (x : Nat) :
    reindexI (sd.map Int.ofNat) (Int.ofNat x) = Int.ofNat (reindex sd x) := by
  induction sd generalizing x with
  | nil => rfl
  | cons d rest ih =>
    simp only [List.map_cons, reindexI, reindex, List.foldl_cons]
    rw [shiftAboveI_ofNat]
    exact ih (shiftAbove d x)

theorem contains_ofNat (idx : List Nat) (a : Nat) : (idx.map Int.ofNat).contains (Int.ofNat a) = idx.contains a := by
  rw [Bool.eq_iff_iff]
  simp only [List.contains_iff_mem, List.mem_map]
  constructor
  · rintro ⟨b, hb, e⟩
    have : b = a := Int.ofNat.inj e
    rw [← this]; exact hb
  · intro h; exact ⟨a, h, rfl⟩

/-- on a list of non-negative integers the raw term code is the modelled `deleteTerms` -/
theorem deleteTermsRaw_ofNat (ts : List Term) (idx : List Nat) :
    deleteTermsRaw ts (idx.map Int.ofNat) = (deleteTerms ts idx).map Term.toI := by
  unfold deleteTermsRaw deleteTerms
  simp only [sortDescI_ofNat, contains_ofNat, List.map_map]
  apply List.map_congr_left
  intro t _
  simp only [Function.comp, Term.toI, List.map_map, reindexI_ofNat]
  rfl

/-! ## index normalisation -/

theorem normIdx_ofNat (n i : Nat) : normIdx n (Int.ofNat i) = if i < n then some i else none := by
  unfold normIdx
  by_cases h : i < n
  · simp [h]
  · simp [h]

theorem normIdx_isSome_iff (n : Nat) (i : Int) : (normIdx n i).isSome = true ↔ (-(n : Int) ≤ i ∧ i < (n : Int)) := by
  unfold normIdx
  by_cases h1 : 0 ≤ i ∧ i < (n : Int)
  · simp [h1]; omega
  · by_cases h2 : -(n : Int) ≤ i ∧ i < 0
    · simp [h1, h2]; omega
    · simp [h1, h2]; omega

theorem normIdx_lt (n : Nat) (i : Int) (j : Nat) (h : normIdx n i = some j) : j < n := by
  unfold normIdx at h
  split at h
  · cases h; omega
  · split at h
    · cases h; omega
    · cases h

theorem normIdx_neg (n : Nat) (i : Int) (h1 : -(n : Int) ≤ i) (h2 : i < 0) :
    normIdx n i = some (i + (n : Int)).toNat := by
  unfold normIdx
  have : ¬ (0 ≤ i ∧ i < (n : Int)) := by omega
  simp [this, h1, h2]

end Mofun
