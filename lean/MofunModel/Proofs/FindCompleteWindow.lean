/-
  FindCompleteWindow.lean — the geometric half of C02 (orthorhombic branch).

  The only place where square roots are needed is `comp_bound`: if the code's distance comparison
  `math.isclose(√p, √d, abs_tol=atol)` (model: `iscloseSqrt p d atol`) accepts, and `p ≤ m` (the largest squared
  pattern distance), then every Cartesian component `Δ` of the structure vector (`Δ² ≤ d`) satisfies
  `Δ ≤ √m + 2·atol`, in the model's sqrt-free form `leSqrt (Δ − 2·atol) m`.  Everything after that is rational
  interval arithmetic: the point lies in the cubic window of the start atom (`inCube`), passes the orthorhombic box
  test (`nearOrtho`) and its image multipliers are in {−1, 0, 1}.
-/
import MofunModel.Model.Find
import Mathlib.Analysis.Real.Sqrt
import Mathlib.Tactic.Linarith
import Mathlib.Tactic.Ring
import Mathlib.Tactic.Positivity

namespace Mofun

/-! ### the one real-number fact -/

/-- `sqrtDiffLeSq` read over the reals (forward direction): `√b ≤ √a + √tsq` -/
theorem real_sqrt_diff (a b tsq : ℝ) (ha : 0 ≤ a) (hb : 0 ≤ b) (ht : 0 ≤ tsq)
    (h : a + b - tsq ≤ 0 ∨ (a + b - tsq) * (a + b - tsq) ≤ 4 * a * b) :
    Real.sqrt b ≤ Real.sqrt a + Real.sqrt tsq := by
  have hx := Real.sqrt_nonneg a
  have hy := Real.sqrt_nonneg b
  have hz := Real.sqrt_nonneg tsq
  have ex := Real.mul_self_sqrt ha
  have ey := Real.mul_self_sqrt hb
  have ez := Real.mul_self_sqrt ht
  by_contra hcon
  have hcon := not_le.mp hcon
  set x := Real.sqrt a
  set y := Real.sqrt b
  set t := Real.sqrt tsq
  have h1 : y - x > t := by linarith
  have h2 : (y - x) * (y - x) > t * t := by nlinarith
  have hs : a + b - tsq > 2 * x * y := by nlinarith
  have hxy : 0 ≤ x * y := mul_nonneg hx hy
  rcases h with h | h
  · linarith
  · have : (a + b - tsq) * (a + b - tsq) > (2 * x * y) * (2 * x * y) := by nlinarith
    have e : (2 * x * y) * (2 * x * y) = 4 * a * b := by
      calc (2 * x * y) * (2 * x * y) = 4 * (x * x) * (y * y) := by ring
        _ = 4 * a * b := by rw [ex, ey]
    linarith

/-- component bound over the reals -/
theorem real_comp_bound (p d atol m Δ : ℝ) (hp : 0 ≤ p) (hd : 0 ≤ d) (hpm : p ≤ m) (hat : 0 ≤ atol)
    (hguard : m ≤ atol * atol * 1000000000000000000) (hΔ : Δ * Δ ≤ d)
    (h : (p + d - atol * atol ≤ 0 ∨ (p + d - atol * atol) * (p + d - atol * atol) ≤ 4 * p * d) ∨
         (p + d - max p d / 1000000000000000000 ≤ 0 ∨
          (p + d - max p d / 1000000000000000000) * (p + d - max p d / 1000000000000000000) ≤ 4 * p * d)) :
    Δ - 2 * atol ≤ 0 ∨ (Δ - 2 * atol) * (Δ - 2 * atol) ≤ m := by
  have hm : 0 ≤ m := le_trans hp hpm
  have hP := Real.sqrt_nonneg p
  have hD := Real.sqrt_nonneg d
  have hM := Real.sqrt_nonneg m
  have hPM : Real.sqrt p ≤ Real.sqrt m := Real.sqrt_le_sqrt hpm
  have hMM := Real.mul_self_sqrt hm
  have hΔD : Δ ≤ Real.sqrt d := by
    have : |Δ| ≤ Real.sqrt d := Real.abs_le_sqrt (by nlinarith)
    exact le_trans (le_abs_self Δ) this
  -- √d ≤ √m + 2 atol
  have key : Real.sqrt d ≤ Real.sqrt m + 2 * atol := by
    rcases h with h | h
    · have := real_sqrt_diff p d (atol * atol) hp hd (mul_self_nonneg atol) h
      rw [Real.sqrt_mul_self hat] at this
      linarith
    · have hmx : 0 ≤ max p d / 1000000000000000000 := by positivity
      have := real_sqrt_diff p d (max p d / 1000000000000000000) hp hd hmx h
      have e : Real.sqrt (max p d / 1000000000000000000) = Real.sqrt (max p d) / 1000000000 := by
        rw [Real.sqrt_div' _ (by norm_num)]
        congr 1
        have : (1000000000000000000 : ℝ) = 1000000000 * 1000000000 := by norm_num
        rw [this, Real.sqrt_mul_self (by norm_num)]
      rw [e] at this
      have hMK : Real.sqrt m ≤ atol * 1000000000 := by
        have h2 : m ≤ (atol * 1000000000) * (atol * 1000000000) := by nlinarith
        calc Real.sqrt m ≤ Real.sqrt ((atol * 1000000000) * (atol * 1000000000)) := Real.sqrt_le_sqrt h2
          _ = atol * 1000000000 := Real.sqrt_mul_self (by positivity)
      rcases le_total p d with hpd | hpd
      · rw [max_eq_right hpd] at this
        linarith
      · rw [max_eq_left hpd] at this
        have : Real.sqrt d ≤ Real.sqrt p := Real.sqrt_le_sqrt hpd
        linarith
  by_cases hneg : Δ - 2 * atol ≤ 0
  · exact Or.inl hneg
  · right
    have hneg := not_le.mp hneg
    have h1 : Δ - 2 * atol ≤ Real.sqrt m := by linarith
    nlinarith

/-! ### back to the model's rational predicates -/

theorem leSqrt_iff (u m : Rat) : leSqrt u m = true ↔ (u ≤ 0 ∨ u * u ≤ m) := by
  simp [leSqrt]

theorem ltSqrt_iff (u m : Rat) : ltSqrt u m = true ↔ (u < 0 ∨ u * u < m) := by
  simp [ltSqrt]

theorem sqrtDiffLeSq_iff (a b tsq : Rat) :
    sqrtDiffLeSq a b tsq = true ↔ (a + b - tsq ≤ 0 ∨ (a + b - tsq) * (a + b - tsq) ≤ 4 * a * b) := by
  simp [sqrtDiffLeSq]

/-- **comp_bound.** `iscloseSqrt p d atol` with `p ≤ m` bounds every component of the structure vector by the
    search length `√m + 2·atol` (guard: `√m ≤ 10⁹·atol`, so that the relative tolerance 10⁻⁹ of `math.isclose`
    stays below `atol`). -/
theorem comp_bound (p d atol m Δ : Rat) (h : iscloseSqrt p d atol = true) (hp : 0 ≤ p) (hd : 0 ≤ d)
    (hpm : p ≤ m) (hat : 0 ≤ atol) (hguard : m ≤ atol * atol * 1000000000000000000) (hΔ : Δ * Δ ≤ d) :
    leSqrt (Δ - 2 * atol) m = true := by
  rw [leSqrt_iff]
  have hreal := real_comp_bound (p : ℝ) (d : ℝ) (atol : ℝ) (m : ℝ) (Δ : ℝ)
    (by exact_mod_cast hp) (by exact_mod_cast hd) (by exact_mod_cast hpm) (by exact_mod_cast hat)
    (by exact_mod_cast hguard) (by exact_mod_cast hΔ)
    (by
      unfold iscloseSqrt at h
      simp only [Bool.or_eq_true, sqrtDiffLeSq_iff] at h
      rcases h with h | h
      · left; exact_mod_cast h
      · right
        have hmax : (if p > d then p else d) = max p d := by
          by_cases hpd : p > d
          · simp [hpd, max_eq_left (le_of_lt hpd)]
          · simp [hpd, max_eq_right (not_lt.mp hpd)]
        rw [hmax] at h
        exact_mod_cast h)
  exact_mod_cast hreal

/-! ### rational interval arithmetic on the sqrt-free predicates -/

theorem leSqrt_mono (u u' m : Rat) (h : u ≤ u') (hw : leSqrt u' m = true) : leSqrt u m = true := by
  rw [leSqrt_iff] at hw ⊢
  by_cases hu : u ≤ 0
  · exact Or.inl hu
  · right
    have hu := not_le.mp hu
    rcases hw with hw | hw
    · linarith
    · nlinarith

theorem ltSqrt_of_lt (u u' m : Rat) (h : u < u') (hw : leSqrt u' m = true) : ltSqrt u m = true := by
  rw [leSqrt_iff] at hw
  rw [ltSqrt_iff]
  by_cases hu : u < 0
  · exact Or.inl hu
  · right
    have hu := not_lt.mp hu
    rcases hw with hw | hw
    · linarith
    · nlinarith

/-- `u ≤ √m + 2·atol` and `√m + 2·atol ≤ a` (guard in squared form) give `u ≤ a` -/
theorem le_of_leSqrt (u a atol m : Rat) (hw : leSqrt (u - 2 * atol) m = true) (h1 : 2 * atol ≤ a)
    (h2 : m ≤ (a - 2 * atol) * (a - 2 * atol)) : u ≤ a := by
  rw [leSqrt_iff] at hw
  rcases hw with hw | hw
  · linarith
  · by_contra hcon
    have hcon := not_le.mp hcon
    nlinarith

/-! ### the cubic window of the start atom -/

theorem comp_sq_le_distSq (x y : Vec3) :
    (y.x - x.x) * (y.x - x.x) ≤ distSq x y ∧ (y.y - x.y) * (y.y - x.y) ≤ distSq x y ∧
    (y.z - x.z) * (y.z - x.z) ≤ distSq x y := by
  unfold distSq Vec3.normSq Vec3.dot Vec3.sub
  simp only
  refine ⟨?_, ?_, ?_⟩ <;>
    nlinarith [mul_self_nonneg (x.x - y.x), mul_self_nonneg (x.y - y.y), mul_self_nonneg (x.z - y.z)]

theorem distSq_nonneg' (x y : Vec3) : 0 ≤ distSq x y := by
  unfold distSq Vec3.normSq Vec3.dot Vec3.sub
  simp only
  nlinarith [mul_self_nonneg (x.x - y.x), mul_self_nonneg (x.y - y.y), mul_self_nonneg (x.z - y.z)]

/-- **window (iii).** A point whose distance to the start atom `x` is accepted against a pattern distance `p ≤ m`
    lies in the cubic window of `x`. -/
theorem inCube_of_isclose (x y : Vec3) (p atol m : Rat) (h : iscloseSqrt p (distSq x y) atol = true)
    (hp : 0 ≤ p) (hpm : p ≤ m) (hat : 0 ≤ atol) (hguard : m ≤ atol * atol * 1000000000000000000) :
    inCube x y m atol = true := by
  have hc := comp_sq_le_distSq x y
  have hd := distSq_nonneg' x y
  have b := fun (Δ : Rat) (hΔ : Δ * Δ ≤ distSq x y) => comp_bound p (distSq x y) atol m Δ h hp hd hpm hat hguard hΔ
  unfold inCube
  simp only [Bool.and_eq_true]
  refine ⟨⟨⟨b _ hc.1, b _ (by have := hc.1; nlinarith)⟩, ⟨b _ hc.2.1, b _ (by have := hc.2.1; nlinarith)⟩⟩,
    ⟨b _ hc.2.2, b _ (by have := hc.2.2; nlinarith)⟩⟩

/-! ### the orthorhombic box test and the 27 images -/

/-- **window (ii).** A point in the cubic window of an atom that sits inside the cell passes the box test. -/
theorem nearOrtho_of_inCube (cell : Mat3) (x y : Vec3) (m atol : Rat) (h : inCube x y m atol = true)
    (hx : 0 ≤ x.x ∧ x.x < cell.a.x ∧ 0 ≤ x.y ∧ x.y < cell.b.y ∧ 0 ≤ x.z ∧ x.z < cell.c.z) :
    nearOrtho cell m atol y = true := by
  unfold inCube at h
  simp only [Bool.and_eq_true] at h
  obtain ⟨⟨⟨h1, h2⟩, ⟨h3, h4⟩⟩, ⟨h5, h6⟩⟩ := h
  unfold nearOrtho
  simp only [Bool.and_eq_true]
  refine ⟨⟨⟨⟨⟨?_, ?_⟩, ?_⟩, ?_⟩, ?_⟩, ?_⟩
  · exact leSqrt_mono _ _ m (by linarith) h2
  · exact ltSqrt_of_lt _ _ m (by linarith) h1
  · exact leSqrt_mono _ _ m (by linarith) h4
  · exact ltSqrt_of_lt _ _ m (by linarith) h3
  · exact leSqrt_mono _ _ m (by linarith) h6
  · exact ltSqrt_of_lt _ _ m (by linarith) h5

/-- one axis: `y = p + n·a` with `p, x ∈ [0, a)`, `|y − x| ≤ D ≤ a` forces `n ∈ {−1, 0, 1}` -/
theorem mult_bound (a xx pp yy atol m : Rat) (n : Int) (hy : yy = pp + (n : Rat) * a)
    (hx : 0 ≤ xx ∧ xx < a) (hp : 0 ≤ pp ∧ pp < a)
    (h1 : leSqrt (yy - xx - 2 * atol) m = true) (h2 : leSqrt (xx - yy - 2 * atol) m = true)
    (hw1 : 2 * atol ≤ a) (hw2 : m ≤ (a - 2 * atol) * (a - 2 * atol)) : -1 ≤ n ∧ n ≤ 1 := by
  have hpos : 0 < a := by linarith
  have u1 := le_of_leSqrt (yy - xx) a atol m h1 hw1 hw2
  have u2 := le_of_leSqrt (xx - yy) a atol m h2 hw1 hw2
  have hn1 : (n : Rat) * a < 2 * a := by linarith
  have hn2 : -2 * a < (n : Rat) * a := by linarith
  have hlt : (n : Rat) < 2 := by
    by_contra hc
    have hc := not_lt.mp hc
    nlinarith
  have hgt : (-2 : Rat) < (n : Rat) := by
    by_contra hc
    have hc := not_lt.mp hc
    nlinarith
  have hlt' : n < 2 := by exact_mod_cast hlt
  have hgt' : -2 < n := by exact_mod_cast hgt
  omega

end Mofun
