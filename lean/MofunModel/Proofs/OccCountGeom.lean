/-
  OccCountGeom.lean — the geometry behind the supercell COUNT theorem (C03):
  under the guard "every perpendicular width of the cell exceeds 2·(pattern diameter + 2·atol)" and `2ε ≤ atol`
    * a lattice vector not longer than `2·√m + 2·atol` is zero (`lattice_short_zero`);
    * the atoms of an occurrence are pairwise different atoms (`occ_atoms_distinct`, needs pattern atoms farther
      apart than `2ε`);
    * two occurrences that share an atom place every other common atom in the SAME relative periodic image
      (`occ_relative_image_unique`): an atom group has a single realisation.
  Square roots (`Real.sqrt`) are used for the triangle inequality only.
-/
import MofunModel.Proofs.FindCompleteTri
import MofunModel.Proofs.OccRigid
import MofunModel.Proofs.OccLemmas

namespace Mofun

/-! ### Euclidean distance over the reals -/

/-- the Euclidean distance of two rational points, as a real number -/
noncomputable def rdist (a b : Vec3) : ℝ := Real.sqrt ((distSq a b : Rat) : ℝ)

theorem rdist_nonneg (a b : Vec3) : 0 ≤ rdist a b := Real.sqrt_nonneg _

theorem rdist_comm (a b : Vec3) : rdist a b = rdist b a := by
  unfold rdist
  have : distSq a b = distSq b a := by
    unfold distSq Vec3.normSq Vec3.dot Vec3.sub; simp only; ring
  rw [this]

theorem rdist_le_of_distSq_le (a b : Vec3) (e : Rat) (h : distSq a b ≤ e) : rdist a b ≤ Real.sqrt (e : ℝ) := by
  unfold rdist
  exact Real.sqrt_le_sqrt (by exact_mod_cast h)

theorem distSq_le_of_rdist_le (a b : Vec3) (r : ℝ) (hr : 0 ≤ r) (h : rdist a b ≤ r) : ((distSq a b : Rat) : ℝ) ≤ r * r := by
  unfold rdist at h
  have h0 : (0 : ℝ) ≤ ((distSq a b : Rat) : ℝ) := by exact_mod_cast distSq_nonneg' a b
  have := Real.sqrt_le_left (x := ((distSq a b : Rat) : ℝ)) (y := r * r)
  calc ((distSq a b : Rat) : ℝ) = Real.sqrt ((distSq a b : Rat) : ℝ) * Real.sqrt ((distSq a b : Rat) : ℝ) :=
        (Real.mul_self_sqrt h0).symm
    _ ≤ r * r := mul_le_mul h h (Real.sqrt_nonneg _) hr

/-- triangle inequality -/
theorem rdist_triangle (a b c : Vec3) : rdist a c ≤ rdist a b + rdist b c := by
  unfold rdist
  set A : ℝ := ((distSq a b : Rat) : ℝ) with hA
  set B : ℝ := ((distSq b c : Rat) : ℝ) with hB
  have hA0 : 0 ≤ A := by rw [hA]; exact_mod_cast distSq_nonneg' a b
  have hB0 : 0 ≤ B := by rw [hB]; exact_mod_cast distSq_nonneg' b c
  let u := Vec3.sub a b
  let v := Vec3.sub b c
  have hcs : Vec3.dot u v * Vec3.dot u v ≤ distSq a b * distSq b c := cauchy_schwarz3 u v
  have hsum : distSq a c = distSq a b + distSq b c + 2 * Vec3.dot u v := by
    simp only [u, v]
    unfold distSq Vec3.normSq Vec3.dot Vec3.sub; simp only; ring
  have hcsR : ((Vec3.dot u v : Rat) : ℝ) * ((Vec3.dot u v : Rat) : ℝ) ≤ A * B := by
    rw [hA, hB]; exact_mod_cast hcs
  have hsa := Real.sqrt_nonneg A
  have hsb := Real.sqrt_nonneg B
  have ea := Real.mul_self_sqrt hA0
  have eb := Real.mul_self_sqrt hB0
  have huv : ((Vec3.dot u v : Rat) : ℝ) ≤ Real.sqrt A * Real.sqrt B := by
    by_contra hcon
    have hcon := not_le.mp hcon
    have hpos : 0 ≤ Real.sqrt A * Real.sqrt B := mul_nonneg hsa hsb
    have : (Real.sqrt A * Real.sqrt B) * (Real.sqrt A * Real.sqrt B) < ((Vec3.dot u v : Rat) : ℝ) * ((Vec3.dot u v : Rat) : ℝ) := by
      nlinarith
    have e : (Real.sqrt A * Real.sqrt B) * (Real.sqrt A * Real.sqrt B) = A * B := by
      calc _ = (Real.sqrt A * Real.sqrt A) * (Real.sqrt B * Real.sqrt B) := by ring
        _ = A * B := by rw [ea, eb]
    linarith
  have hC : ((distSq a c : Rat) : ℝ) = A + B + 2 * ((Vec3.dot u v : Rat) : ℝ) := by
    rw [hA, hB]; exact_mod_cast hsum
  rw [hC]
  apply Real.sqrt_le_iff.mpr
  constructor
  · linarith
  · nlinarith

/-- translation invariance -/
theorem rdist_add_right (a b c : Vec3) : rdist (Vec3.add a c) (Vec3.add b c) = rdist a b := by
  unfold rdist; rw [distSq_add_right]

/-! ### the guard: every perpendicular width exceeds 2·(√m + 2·atol) -/

/-- `√A + √B < c` in square-root-free form -/
def sumSqrtLt (A B c : Rat) : Bool :=
  decide (0 < c) && decide (A + B < c * c) && decide (4 * A * B < (c * c - A - B) * (c * c - A - B))

theorem real_sumSqrtLt (A B c : ℝ) (hA : 0 ≤ A) (hB : 0 ≤ B) (hc : 0 < c) (h1 : A + B < c * c)
    (h2 : 4 * A * B < (c * c - A - B) * (c * c - A - B)) : Real.sqrt A + Real.sqrt B < c := by
  have ha := Real.sqrt_nonneg A
  have hb := Real.sqrt_nonneg B
  have ea := Real.mul_self_sqrt hA
  have eb := Real.mul_self_sqrt hB
  have h3 : 2 * (Real.sqrt A * Real.sqrt B) < c * c - A - B := by
    have hx : 0 ≤ 2 * (Real.sqrt A * Real.sqrt B) := by positivity
    have hy : 0 < c * c - A - B := by linarith
    have : (2 * (Real.sqrt A * Real.sqrt B)) * (2 * (Real.sqrt A * Real.sqrt B)) < (c * c - A - B) * (c * c - A - B) := by
      calc _ = 4 * (Real.sqrt A * Real.sqrt A) * (Real.sqrt B * Real.sqrt B) := by ring
        _ = 4 * A * B := by rw [ea, eb]
        _ < _ := h2
    by_contra hcon
    have hcon := not_lt.mp hcon
    nlinarith
  by_contra hcon
  have hcon := not_lt.mp hcon
  nlinarith

/-- width guard for the pair of planes with normal `nv` (`W = o·nv = ±` cell volume):
    `2·(√m + 2·atol)·‖nv‖ < |W|`, i.e. the perpendicular width exceeds `2·(pattern diameter + 2·atol)` -/
def widthB2 (inp : FindInput) (nv : Vec3) (W : Rat) : Bool :=
  sumSqrtLt (4 * patMax inp * Vec3.normSq nv) (16 * inp.atol * inp.atol * Vec3.normSq nv) (absRat W)

/-- what the guard says over the reals: `‖nv‖·(2·√m + 4·atol) < |W|` -/
theorem widthB2_real (inp : FindInput) (nv : Vec3) (W : Rat) (hm : 0 ≤ patMax inp) (hat : 0 ≤ inp.atol)
    (h : widthB2 inp nv W = true) :
    Real.sqrt ((Vec3.normSq nv : Rat) : ℝ) * (2 * Real.sqrt ((patMax inp : Rat) : ℝ) + 4 * ((inp.atol : Rat) : ℝ))
      < |((W : Rat) : ℝ)| := by
  unfold widthB2 sumSqrtLt at h
  simp only [Bool.and_eq_true, decide_eq_true_eq] at h
  obtain ⟨⟨w1, w2⟩, w3⟩ := h
  have hnn : (0 : ℝ) ≤ ((Vec3.normSq nv : Rat) : ℝ) := by exact_mod_cast normSq_nonneg nv
  have hmR : (0 : ℝ) ≤ ((patMax inp : Rat) : ℝ) := by exact_mod_cast hm
  have haR : (0 : ℝ) ≤ ((inp.atol : Rat) : ℝ) := by exact_mod_cast hat
  have hA : (0 : ℝ) ≤ 4 * ((patMax inp : Rat) : ℝ) * ((Vec3.normSq nv : Rat) : ℝ) := by positivity
  have hB : (0 : ℝ) ≤ 16 * ((inp.atol : Rat) : ℝ) * ((inp.atol : Rat) : ℝ) * ((Vec3.normSq nv : Rat) : ℝ) := by positivity
  have habs : ((absRat W : Rat) : ℝ) = |((W : Rat) : ℝ)| := by rw [absRat_eq_abs]; push_cast; rfl
  have key := real_sumSqrtLt _ _ ((absRat W : Rat) : ℝ) hA hB (by exact_mod_cast w1) (by exact_mod_cast w2)
    (by exact_mod_cast w3)
  rw [habs] at key
  have e1 : Real.sqrt (4 * ((patMax inp : Rat) : ℝ) * ((Vec3.normSq nv : Rat) : ℝ))
      = 2 * Real.sqrt ((patMax inp : Rat) : ℝ) * Real.sqrt ((Vec3.normSq nv : Rat) : ℝ) := by
    have : 4 * ((patMax inp : Rat) : ℝ) * ((Vec3.normSq nv : Rat) : ℝ)
        = (2 * 2) * (((patMax inp : Rat) : ℝ) * ((Vec3.normSq nv : Rat) : ℝ)) := by ring
    rw [this, Real.sqrt_mul (by norm_num), Real.sqrt_mul_self (by norm_num), Real.sqrt_mul hmR]
    ring
  have e2 : Real.sqrt (16 * ((inp.atol : Rat) : ℝ) * ((inp.atol : Rat) : ℝ) * ((Vec3.normSq nv : Rat) : ℝ))
      = 4 * ((inp.atol : Rat) : ℝ) * Real.sqrt ((Vec3.normSq nv : Rat) : ℝ) := by
    have : 16 * ((inp.atol : Rat) : ℝ) * ((inp.atol : Rat) : ℝ) * ((Vec3.normSq nv : Rat) : ℝ)
        = ((4 * ((inp.atol : Rat) : ℝ)) * (4 * ((inp.atol : Rat) : ℝ))) * ((Vec3.normSq nv : Rat) : ℝ) := by ring
    rw [this, Real.sqrt_mul (mul_self_nonneg _), Real.sqrt_mul_self (by positivity)]
  rw [e1, e2] at key
  calc _ = 2 * Real.sqrt ((patMax inp : Rat) : ℝ) * Real.sqrt ((Vec3.normSq nv : Rat) : ℝ)
            + 4 * ((inp.atol : Rat) : ℝ) * Real.sqrt ((Vec3.normSq nv : Rat) : ℝ) := by ring
    _ < _ := key

/-- one direction: if the multiplier `u` along the cell vector `o` is a non-zero integer, the lattice vector `w`
    (with `nv·w = u·W`) is longer than `2·√m + 2·atol` -/
theorem plane_forces_zero (inp : FindInput) (nv w : Vec3) (W : Rat) (u : Int) (hm : 0 ≤ patMax inp)
    (hat : 0 ≤ inp.atol) (hg : widthB2 inp nv W = true) (hdot : Vec3.dot nv w = (u : Rat) * W)
    (hshort : Real.sqrt ((Vec3.normSq w : Rat) : ℝ) ≤ 2 * Real.sqrt ((patMax inp : Rat) : ℝ) + 2 * ((inp.atol : Rat) : ℝ)) :
    u = 0 := by
  by_contra hu
  have hreal := widthB2_real inp nv W hm hat hg
  have haR : (0 : ℝ) ≤ ((inp.atol : Rat) : ℝ) := by exact_mod_cast hat
  have hnn : (0 : ℝ) ≤ ((Vec3.normSq nv : Rat) : ℝ) := by exact_mod_cast normSq_nonneg nv
  have hww : (0 : ℝ) ≤ ((Vec3.normSq w : Rat) : ℝ) := by exact_mod_cast normSq_nonneg w
  -- |u W| ≤ ‖nv‖ ‖w‖
  have hcs : Vec3.dot nv w * Vec3.dot nv w ≤ Vec3.normSq nv * Vec3.normSq w := cauchy_schwarz3 nv w
  have hcsR : (((u : Rat) * W : Rat) : ℝ) * (((u : Rat) * W : Rat) : ℝ)
      ≤ ((Vec3.normSq nv : Rat) : ℝ) * ((Vec3.normSq w : Rat) : ℝ) := by
    rw [hdot] at hcs; exact_mod_cast hcs
  have h1 : |(((u : Rat) * W : Rat) : ℝ)| ≤ Real.sqrt (((Vec3.normSq nv : Rat) : ℝ) * ((Vec3.normSq w : Rat) : ℝ)) :=
    Real.abs_le_sqrt (by nlinarith)
  rw [Real.sqrt_mul hnn] at h1
  have hu1 : (1 : ℝ) ≤ |((u : Int) : ℝ)| := by
    have : (1 : Int) ≤ |u| := Int.one_le_abs hu
    exact_mod_cast this
  have h2 : |((W : Rat) : ℝ)| ≤ |(((u : Rat) * W : Rat) : ℝ)| := by
    push_cast
    rw [abs_mul]
    have := abs_nonneg ((W : Rat) : ℝ)
    nlinarith
  have h3 : Real.sqrt ((Vec3.normSq nv : Rat) : ℝ) * Real.sqrt ((Vec3.normSq w : Rat) : ℝ)
      ≤ Real.sqrt ((Vec3.normSq nv : Rat) : ℝ) * (2 * Real.sqrt ((patMax inp : Rat) : ℝ) + 4 * ((inp.atol : Rat) : ℝ)) := by
    apply mul_le_mul_of_nonneg_left _ (Real.sqrt_nonneg _)
    linarith
  linarith

/-! ### the guards of the count theorem -/

/-- pattern atoms pairwise farther apart than `2ε` -/
def patSeparated (inp : FindInput) (epsSq : Rat) : Bool :=
  (List.range inp.ppos.length).all (fun i => (List.range inp.ppos.length).all (fun j =>
    decide (i = j) || decide (4 * epsSq < distSq (inp.ppos.getD i Vec3.zero) (inp.ppos.getD j Vec3.zero))))

/-- explicit (decidable) guards of the supercell count theorem: `atol ≥ 0`, `2ε ≤ atol`, every perpendicular width of
    the cell exceeds `2·(√m + 2·atol)` (`√m` = pattern diameter), non-empty pattern whose atoms are pairwise farther
    apart than `2ε`, one element per atom -/
def countGuards (inp : FindInput) (epsSq : Rat) : Bool :=
  let c := inp.cell
  decide (0 ≤ inp.atol) && decide (4 * epsSq ≤ inp.atol * inp.atol) &&
  widthB2 inp (Vec3.cross c.a c.b) (Vec3.dot c.c (Vec3.cross c.a c.b)) &&
  widthB2 inp (Vec3.cross c.a c.c) (Vec3.dot c.b (Vec3.cross c.a c.c)) &&
  widthB2 inp (Vec3.cross c.b c.c) (Vec3.dot c.a (Vec3.cross c.b c.c)) &&
  decide (0 < inp.ppos.length) && patSeparated inp epsSq && decide (inp.elems.length = inp.pos.length)

structure CountGuards (inp : FindInput) (epsSq : Rat) : Prop where
  atol_nonneg : 0 ≤ inp.atol
  eps : 4 * epsSq ≤ inp.atol * inp.atol
  w0 : widthB2 inp (Vec3.cross inp.cell.a inp.cell.b) (Vec3.dot inp.cell.c (Vec3.cross inp.cell.a inp.cell.b)) = true
  w1 : widthB2 inp (Vec3.cross inp.cell.a inp.cell.c) (Vec3.dot inp.cell.b (Vec3.cross inp.cell.a inp.cell.c)) = true
  w2 : widthB2 inp (Vec3.cross inp.cell.b inp.cell.c) (Vec3.dot inp.cell.a (Vec3.cross inp.cell.b inp.cell.c)) = true
  pat : 0 < inp.ppos.length
  sep : ∀ i j, i < inp.ppos.length → j < inp.ppos.length → i ≠ j →
    4 * epsSq < distSq (inp.ppos.getD i Vec3.zero) (inp.ppos.getD j Vec3.zero)
  len : inp.elems.length = inp.pos.length

theorem countGuards_spec (inp : FindInput) (epsSq : Rat) (h : countGuards inp epsSq = true) : CountGuards inp epsSq := by
  unfold countGuards at h
  simp only [Bool.and_eq_true, decide_eq_true_eq] at h
  obtain ⟨⟨⟨⟨⟨⟨⟨h1, h2⟩, h3⟩, h4⟩, h5⟩, h6⟩, h7⟩, h8⟩ := h
  refine { atol_nonneg := h1, eps := h2, w0 := h3, w1 := h4, w2 := h5, pat := h6, sep := ?_, len := h8 }
  intro i j hi hj hij
  unfold patSeparated at h7
  have := List.all_eq_true.mp (List.all_eq_true.mp h7 i (List.mem_range.mpr hi)) j (List.mem_range.mpr hj)
  simp only [Bool.or_eq_true, decide_eq_true_eq] at this
  rcases this with h | h
  · exact absurd h hij
  · exact h

theorem patMax_nonneg (inp : FindInput) (hp : 0 < inp.ppos.length) : 0 ≤ patMax inp := by
  have := patMax_ge inp 0 0 hp hp
  have e : distSq (inp.ppos.getD 0 Vec3.zero) (inp.ppos.getD 0 Vec3.zero) = 0 := by
    unfold distSq Vec3.normSq Vec3.dot Vec3.sub; simp
  rw [e] at this; exact this

/-- **a short lattice vector is zero**: under the guard, integer multipliers `u` whose lattice vector is not longer
    than `2·√m + 2·atol` vanish -/
theorem lattice_short_zero (inp : FindInput) (epsSq : Rat) (hG : CountGuards inp epsSq) (u : Int × Int × Int)
    (hshort : Real.sqrt ((Vec3.normSq (inp.cell.lattice u.1 u.2.1 u.2.2) : Rat) : ℝ)
      ≤ 2 * Real.sqrt ((patMax inp : Rat) : ℝ) + 2 * ((inp.atol : Rat) : ℝ)) : u = (0, 0, 0) := by
  have hm := patMax_nonneg inp hG.pat
  have d0 : Vec3.dot (Vec3.cross inp.cell.a inp.cell.b) (inp.cell.lattice u.1 u.2.1 u.2.2)
      = (u.2.2 : Rat) * Vec3.dot inp.cell.c (Vec3.cross inp.cell.a inp.cell.b) := by
    unfold Mat3.lattice Vec3.add Vec3.smul Vec3.dot Vec3.cross; simp only; ring
  have d1 : Vec3.dot (Vec3.cross inp.cell.a inp.cell.c) (inp.cell.lattice u.1 u.2.1 u.2.2)
      = (u.2.1 : Rat) * Vec3.dot inp.cell.b (Vec3.cross inp.cell.a inp.cell.c) := by
    unfold Mat3.lattice Vec3.add Vec3.smul Vec3.dot Vec3.cross; simp only; ring
  have d2 : Vec3.dot (Vec3.cross inp.cell.b inp.cell.c) (inp.cell.lattice u.1 u.2.1 u.2.2)
      = (u.1 : Rat) * Vec3.dot inp.cell.a (Vec3.cross inp.cell.b inp.cell.c) := by
    unfold Mat3.lattice Vec3.add Vec3.smul Vec3.dot Vec3.cross; simp only; ring
  have z0 := plane_forces_zero inp _ _ _ u.2.2 hm hG.atol_nonneg hG.w0 d0 hshort
  have z1 := plane_forces_zero inp _ _ _ u.2.1 hm hG.atol_nonneg hG.w1 d1 hshort
  have z2 := plane_forces_zero inp _ _ _ u.1 hm hG.atol_nonneg hG.w2 d2 hshort
  obtain ⟨u1, u2, u3⟩ := u
  simp only at z0 z1 z2
  rw [z0, z1, z2]

/-! ### distances inside an occurrence -/

theorem two_sqrt_eps_le_atol (inp : FindInput) (epsSq : Rat) (hG : CountGuards inp epsSq) :
    2 * Real.sqrt ((epsSq : Rat) : ℝ) ≤ ((inp.atol : Rat) : ℝ) := by
  have haR : (0 : ℝ) ≤ ((inp.atol : Rat) : ℝ) := by exact_mod_cast hG.atol_nonneg
  have h4 : 4 * ((epsSq : Rat) : ℝ) ≤ ((inp.atol : Rat) : ℝ) * ((inp.atol : Rat) : ℝ) := by exact_mod_cast hG.eps
  have e : Real.sqrt (4 * ((epsSq : Rat) : ℝ)) = 2 * Real.sqrt ((epsSq : Rat) : ℝ) := by
    have : (4 : ℝ) = 2 * 2 := by norm_num
    rw [this, Real.sqrt_mul (by norm_num), Real.sqrt_mul_self (by norm_num)]
  rw [← e]
  calc Real.sqrt (4 * ((epsSq : Rat) : ℝ)) ≤ Real.sqrt (((inp.atol : Rat) : ℝ) * ((inp.atol : Rat) : ℝ)) := Real.sqrt_le_sqrt h4
    _ = ((inp.atol : Rat) : ℝ) := Real.sqrt_mul_self haR

/-- the images of two atoms of one occurrence are at most `√m + 2ε` apart; the pattern atoms at most
    `(distance of the images) + 2ε` -/
theorem occ_pair_dist (inp : FindInput) (epsSq : Rat) (g : Nat → Nat) (n : Nat → Int × Int × Int)
    (h : RigidOccurrence inp epsSq g n) (a b : Nat) (ha : a < inp.ppos.length) (hb : b < inp.ppos.length) :
    rdist (imagePos inp (g a) (n a)) (imagePos inp (g b) (n b))
      ≤ Real.sqrt ((patMax inp : Rat) : ℝ) + 2 * Real.sqrt ((epsSq : Rat) : ℝ) ∧
    rdist (inp.ppos.getD a Vec3.zero) (inp.ppos.getD b Vec3.zero)
      ≤ rdist (imagePos inp (g a) (n a)) (imagePos inp (g b) (n b)) + 2 * Real.sqrt ((epsSq : Rat) : ℝ) := by
  rcases h.fit with ⟨R, t, hR, hfit⟩
  set Qa := Vec3.add (R.mulVec (inp.ppos.getD a Vec3.zero)) t
  set Qb := Vec3.add (R.mulVec (inp.ppos.getD b Vec3.zero)) t
  set Xa := imagePos inp (g a) (n a)
  set Xb := imagePos inp (g b) (n b)
  have h1 : rdist Qa Xa ≤ Real.sqrt ((epsSq : Rat) : ℝ) := rdist_le_of_distSq_le _ _ _ (hfit a ha)
  have h2 : rdist Qb Xb ≤ Real.sqrt ((epsSq : Rat) : ℝ) := rdist_le_of_distSq_le _ _ _ (hfit b hb)
  have hiso : distSq Qa Qb = distSq (inp.ppos.getD a Vec3.zero) (inp.ppos.getD b Vec3.zero) := by
    simp only [Qa, Qb]; rw [distSq_add_right, rot_isometry R hR]
  have h3 : rdist Qa Qb = rdist (inp.ppos.getD a Vec3.zero) (inp.ppos.getD b Vec3.zero) := by
    unfold rdist; rw [hiso]
  have h4 : rdist (inp.ppos.getD a Vec3.zero) (inp.ppos.getD b Vec3.zero) ≤ Real.sqrt ((patMax inp : Rat) : ℝ) :=
    rdist_le_of_distSq_le _ _ _ (patMax_ge inp a b ha hb)
  constructor
  · have t1 := rdist_triangle Xa Qa Xb
    have t2 := rdist_triangle Qa Qb Xb
    rw [rdist_comm Xa Qa] at t1
    linarith
  · have t1 := rdist_triangle Qa Xa Qb
    have t2 := rdist_triangle Xa Xb Qb
    rw [rdist_comm Xb Qb] at t2
    rw [← h3]
    linarith

/-- **an atom group has a single realisation.** Two occurrences (of the same structure) that share the atom
    `g a = g' a'` place any other common atom `g b = g' b'` in the same periodic image relative to it. -/
theorem occ_relative_image_unique (inp : FindInput) (epsSq : Rat) (hG : CountGuards inp epsSq)
    (g g' : Nat → Nat) (n n' : Nat → Int × Int × Int)
    (h : RigidOccurrence inp epsSq g n) (h' : RigidOccurrence inp epsSq g' n')
    (a b a' b' : Nat) (ha : a < inp.ppos.length) (hb : b < inp.ppos.length) (ha' : a' < inp.ppos.length)
    (hb' : b' < inp.ppos.length) (hga : g a = g' a') (hgb : g b = g' b') :
    (n b).1 - (n a).1 = (n' b').1 - (n' a').1 ∧ (n b).2.1 - (n a).2.1 = (n' b').2.1 - (n' a').2.1 ∧
    (n b).2.2 - (n a).2.2 = (n' b').2.2 - (n' a').2.2 := by
  set Xa := imagePos inp (g a) (n a)
  set Xb := imagePos inp (g b) (n b)
  set Ya := imagePos inp (g' a') (n' a')
  set Yb := imagePos inp (g' b') (n' b')
  let u : Int × Int × Int :=
    (((n' b').1 - (n' a').1) - ((n b).1 - (n a).1), ((n' b').2.1 - (n' a').2.1) - ((n b).2.1 - (n a).2.1),
     ((n' b').2.2 - (n' a').2.2) - ((n b).2.2 - (n a).2.2))
  let Z := Vec3.add Xa (Vec3.sub Yb Ya)
  have hZ1 : distSq Xa Z = distSq Ya Yb := by
    simp only [Z]; unfold distSq Vec3.normSq Vec3.dot Vec3.sub Vec3.add; simp only; ring
  have hZ2 : distSq Xb Z = Vec3.normSq (inp.cell.lattice u.1 u.2.1 u.2.2) := by
    simp only [Z, Xa, Xb, Ya, Yb, u, imagePos]
    rw [← hga, ← hgb]
    simp only [distSq, Vec3.normSq, Vec3.dot, Vec3.sub, Vec3.add, Mat3.lattice, Vec3.smul]
    push_cast
    ring
  have d1 := (occ_pair_dist inp epsSq g n h a b ha hb).1
  have d2 := (occ_pair_dist inp epsSq g' n' h' a' b' ha' hb').1
  have t := rdist_triangle Xb Xa Z
  have e1 : rdist Xa Z = rdist Ya Yb := by unfold rdist; rw [hZ1]
  have e2 : rdist Xb Z = Real.sqrt ((Vec3.normSq (inp.cell.lattice u.1 u.2.1 u.2.2) : Rat) : ℝ) := by
    unfold rdist; rw [hZ2]
  rw [rdist_comm Xb Xa, e1, e2] at t
  have hε := two_sqrt_eps_le_atol inp epsSq hG
  have hz := lattice_short_zero inp epsSq hG u (by linarith)
  have z1 : u.1 = 0 := by rw [hz]
  have z2 : u.2.1 = 0 := by rw [hz]
  have z3 : u.2.2 = 0 := by rw [hz]
  simp only [u] at z1 z2 z3
  omega

/-- **the atoms of an occurrence are pairwise different atoms** -/
theorem occ_atoms_distinct (inp : FindInput) (epsSq : Rat) (hG : CountGuards inp epsSq)
    (g : Nat → Nat) (n : Nat → Int × Int × Int) (h : RigidOccurrence inp epsSq g n)
    (a b : Nat) (ha : a < inp.ppos.length) (hb : b < inp.ppos.length) (hab : g a = g b) : a = b := by
  by_contra hne
  have hrel := occ_relative_image_unique inp epsSq hG g g n n h h a b a a ha hb ha ha rfl hab.symm
  -- n b = n a, so both images coincide
  have hX : imagePos inp (g a) (n a) = imagePos inp (g b) (n b) := by
    unfold imagePos
    rw [hab]
    have e1 : (n b).1 = (n a).1 := by omega
    have e2 : (n b).2.1 = (n a).2.1 := by omega
    have e3 : (n b).2.2 = (n a).2.2 := by omega
    rw [e1, e2, e3]
  have hd := (occ_pair_dist inp epsSq g n h a b ha hb).2
  rw [hX] at hd
  have h0 : rdist (imagePos inp (g b) (n b)) (imagePos inp (g b) (n b)) = 0 := by
    unfold rdist
    have : distSq (imagePos inp (g b) (n b)) (imagePos inp (g b) (n b)) = 0 := by
      unfold distSq Vec3.normSq Vec3.dot Vec3.sub; simp
    rw [this]; simp
  rw [h0] at hd
  have hsq := distSq_le_of_rdist_le _ _ _ (by positivity) hd
  have hsep := hG.sep a b ha hb hne
  have hε0 : (0 : ℝ) ≤ ((epsSq : Rat) : ℝ) := by
    rcases h.fit with ⟨R, t, _, hfit⟩
    have := le_trans (distSq_nonneg' _ _) (hfit a ha)
    exact_mod_cast this
  have e : (0 + 2 * Real.sqrt ((epsSq : Rat) : ℝ)) * (0 + 2 * Real.sqrt ((epsSq : Rat) : ℝ)) = 4 * ((epsSq : Rat) : ℝ) := by
    have := Real.mul_self_sqrt hε0
    nlinarith
  rw [e] at hsq
  have : ((4 * epsSq : Rat) : ℝ) < ((distSq (inp.ppos.getD a Vec3.zero) (inp.ppos.getD b Vec3.zero) : Rat) : ℝ) := by
    exact_mod_cast hsep
  push_cast at this
  linarith

end Mofun
