/-
  CliRunLemmas.lean — executing the plan of Model/Cli.lean (Model/CliRun.lean `runFrom`) segment by segment.
  Core Lean only.
-/
import MofunModel.Model.CliRun
import MofunModel.Proofs.CliLemmas

namespace Mofun.Cli

theorem runFrom_append (env : Env) (st : RunState) (l1 l2 : List Call) :
    runFrom env st (l1 ++ l2) =
      match runFrom env st l1 with
      | .error e => .error e
      | .ok st' => runFrom env st' l2 := by
  induction l1 generalizing st with
  | nil => rfl
  | cons c cs ih =>
    simp only [List.cons_append, runFrom]
    cases stepCall env st c with
    | error e => rfl
    | ok st' => exact ih st'

/-- what remains of a run: execute `rest` from `st`, then report -/
def contOf (env : Env) (rest : List Call) (st : RunState) : Except Err Output :=
  match runFrom env st rest with
  | .error e => .error e
  | .ok s => finish s

theorem contOf_nil (env : Env) (st : RunState) : contOf env [] st = finish st := rfl

theorem contOf_append (env : Env) (seg rest : List Call) (st : RunState) :
    contOf env (seg ++ rest) st =
      match runFrom env st seg with
      | .error e => .error e
      | .ok st' => contOf env rest st' := by
  unfold contOf
  rw [runFrom_append]
  cases runFrom env st seg <;> rfl

/-- sequencing of two fallible steps (the `Except` bind, written out) -/
def andThen {α β} (r : Except Err α) (k : α → Except Err β) : Except Err β :=
  match r with
  | .error e => .error e
  | .ok a => k a

@[simp] theorem andThen_ok {α β} (a : α) (k : α → Except Err β) : andThen (.ok a) k = k a := rfl
@[simp] theorem andThen_error {α β} (e : Err) (k : α → Except Err β) : andThen (.error e : Except Err α) k = .error e := rfl

/-- a segment that only transforms the current structure -/
theorem contOf_atoms (env : Env) (seg rest : List Call) (st : RunState) (r : Except Err Atoms)
    (h : runFrom env st seg = withAtoms st r) :
    contOf env (seg ++ rest) st = andThen r (fun a => contOf env rest { st with atoms := a }) := by
  rw [contOf_append, h]
  cases r <;> rfl

theorem run_loadSeg (env : Env) (o : Options) (st : RunState) :
    runFrom env st (loadSeg o) = withAtoms st (apiLoad env o) := by
  unfold loadSeg apiLoad
  cases o.inputNative <;> simp only [↓reduceIte, Bool.false_eq_true, runFrom, stepCall] <;> cases withAtoms st _ <;> rfl

theorem run_cellSeg (env : Env) (o : Options) (st : RunState) :
    runFrom env st (cellSeg o) = withAtoms st (apiExtractUc env o st.atoms) := by
  unfold cellSeg apiExtractUc
  cases o.extractUc with
  | none => rfl
  | some p => simp only [runFrom, stepCall]; cases withAtoms st _ <;> rfl

theorem run_dumpSeg (env : Env) (o : Options) (st : RunState) :
    runFrom env st (dumpSeg o) = withAtoms st (apiDump env o st.atoms) := by
  unfold dumpSeg apiDump
  cases o.dumpPath with
  | none => rfl
  | some p => simp only [runFrom, stepCall]; cases withAtoms st _ <;> rfl

theorem run_chargeSeg (env : Env) (o : Options) (st : RunState) :
    runFrom env st (chargeSeg o) = withAtoms st (apiCharges env o st.atoms) := by
  unfold chargeSeg apiCharges
  cases o.chargefile with
  | none => rfl
  | some p => simp only [runFrom, stepCall]; cases withAtoms st _ <;> rfl

theorem run_replSeg (env : Env) (o : Options) (st : RunState) :
    runFrom env st (replSeg o) = withAtoms st (apiReplicate o st.atoms) := by
  unfold replSeg apiReplicate
  cases o.replicate with
  | none => rfl
  | some p => simp only [runFrom, stepCall]; cases withAtoms st _ <;> rfl

theorem run_micSeg (env : Env) (o : Options) (c : Option CellInfo) (st : RunState) :
    runFrom env st (micSeg o c) = withAtoms st (micFromPlan o c st.atoms) := by
  unfold micSeg micFromPlan
  cases o.mic with
  | none => rfl
  | some m =>
    cases c with
    | none => rfl
    | some ci =>
      by_cases ho : ci.ortho = true
      · simp only [ho, ↓reduceIte, runFrom, stepCall]; cases withAtoms st _ <;> rfl
      · simp only [ho]; rfl

theorem run_ppSeg (env : Env) (o : Options) (st : RunState) :
    runFrom env st (ppSeg o) = withAtoms st (apiPp env o st.atoms) := by
  unfold ppSeg apiPp
  cases o.pp with
  | false => rfl
  | true => simp only [↓reduceIte, runFrom, stepCall]; cases withAtoms st _ <;> rfl

theorem run_fwSeg (env : Env) (o : Options) (st : RunState) :
    runFrom env st (fwSeg o) = withAtoms st (apiFramework o st.atoms) := by
  unfold fwSeg apiFramework
  cases o.frameworkElement with
  | none => rfl
  | some e => rfl

theorem andThen_eq_bind {α β} (r : Except Err α) (k : α → Except Err β) : andThen r k = r >>= k := by
  cases r <;> rfl

/-- the find / replace block, started with no pending patterns and nothing reported yet -/
theorem contOf_findSeg (env : Env) (o : Options) (rest : List Call) (st : RunState)
    (hp : st.pats = []) (hf : st.found = none) :
    contOf env (findSeg o ++ rest) st =
      andThen (apiSearch env o st.atoms) (fun r => contOf env rest { st with atoms := r.1, found := r.2 }) := by
  obtain ⟨a, pats, found, out⟩ := st
  simp only at hp hf
  subst hp hf
  rw [contOf_append]
  unfold findSeg apiSearch
  cases o.findPath with
  | none =>
    cases o.replacePath <;> rfl
  | some f =>
    cases o.replacePath with
    | none =>
      simp only [runFrom, stepCall]
      cases env.load f with
      | error e => rfl
      | ok p =>
        simp only [List.nil_append]
        cases findOp env a p o.atol o.hints <;> rfl
    | some r =>
      simp only [runFrom, stepCall]
      cases env.load f with
      | error e => rfl
      | ok p =>
        simp only [List.nil_append]
        cases env.load r with
        | error e => rfl
        | ok rp =>
          simp only [List.cons_append, List.nil_append]
          cases replaceOp env a p rp o.atol o.hints o.replaceFraction <;> rfl

theorem contOf_saveSeg (env : Env) (o : Options) (st : RunState) :
    contOf env (saveSeg o) st = andThen (apiSave o st.atoms) (fun w => .ok ⟨w, st.found⟩) := by
  unfold contOf saveSeg apiSave
  cases o.outputNative with
  | true =>
    simp only [↓reduceIte, runFrom, stepCall]
    cases saveNative o.output st.atoms <;> rfl
  | false =>
    simp only [Bool.false_eq_true, ↓reduceIte, runFrom, stepCall]
    cases saveAse o.output st.atoms <;> rfl

/-- the pipeline with the plan's minimum-image factors, as a chain of `andThen` -/
def planChain (env : Env) (o : Options) (c : Option CellInfo) : Except Err Output :=
  andThen (apiLoad env o) fun a0 =>
  andThen (apiExtractUc env o a0) fun a1 =>
  andThen (apiDump env o a1) fun a2 =>
  andThen (apiCharges env o a2) fun a3 =>
  andThen (apiReplicate o a3) fun a4 =>
  andThen (micFromPlan o c a4) fun a5 =>
  andThen (apiPp env o a5) fun a6 =>
  andThen (apiSearch env o a6) fun r =>
  andThen (apiFramework o r.1) fun a8 =>
  andThen (apiSave o a8) fun w => .ok ⟨w, r.2⟩

/-- **executing the plan = the pipeline** (every option record, every probed cell) -/
theorem runCalls_planCalls (env : Env) (o : Options) (c : Option CellInfo) :
    runCalls env (planCalls o c) = planChain env o c := by
  show contOf env (planCalls o c) RunState.init = _
  unfold planCalls planChain
  simp only [seg]
  rw [contOf_atoms _ _ _ _ _ (run_loadSeg env o _)]
  congr 1; funext a0
  rw [contOf_atoms _ _ _ _ _ (run_cellSeg env o _)]
  congr 1; funext a1
  rw [contOf_atoms _ _ _ _ _ (run_dumpSeg env o _)]
  congr 1; funext a2
  rw [contOf_atoms _ _ _ _ _ (run_chargeSeg env o _)]
  congr 1; funext a3
  rw [contOf_atoms _ _ _ _ _ (run_replSeg env o _)]
  congr 1; funext a4
  rw [contOf_atoms _ _ _ _ _ (run_micSeg env o c _)]
  congr 1; funext a5
  rw [contOf_atoms _ _ _ _ _ (run_ppSeg env o _)]
  congr 1; funext a6
  rw [contOf_findSeg env o _ _ rfl rfl]
  congr 1; funext r
  rw [contOf_atoms _ _ _ _ _ (run_fwSeg env o _)]
  congr 1; funext a8
  rw [contOf_saveSeg]

/-! ### the minimum-image factors of the plan are those the structure itself yields -/

/-- the API pipeline as a chain of `andThen` -/
def apiChain (env : Env) (o : Options) : Except Err Output :=
  andThen (apiLoad env o) fun a0 =>
  andThen (apiExtractUc env o a0) fun a1 =>
  andThen (apiDump env o a1) fun a2 =>
  andThen (apiCharges env o a2) fun a3 =>
  andThen (apiReplicate o a3) fun a4 =>
  andThen (apiMic o a4) fun a5 =>
  andThen (apiPp env o a5) fun a6 =>
  andThen (apiSearch env o a6) fun r =>
  andThen (apiFramework o r.1) fun a8 =>
  andThen (apiSave o a8) fun w => .ok ⟨w, r.2⟩

theorem apiPipeline_eq_chain (env : Env) (o : Options) : apiPipeline env o = apiChain env o := by
  unfold apiPipeline apiChain
  simp only [andThen_eq_bind]
  rfl

theorem planPipeline_eq_chain (env : Env) (o : Options) (c : Option CellInfo) :
    planPipeline env o c = planChain env o c := by
  unfold planPipeline planChain
  simp only [andThen_eq_bind]
  rfl

theorem replicate_cell {a r : Atoms} {da db dc : Nat} (h : a.replicate da db dc = .ok r) :
    ∃ M, a.cell = some M ∧ r.cell = some (M.scaleRows da db dc) := by
  unfold Atoms.replicate at h
  split at h
  · cases h
  · rename_i cell hc
    dsimp only at h
    split at h
    · cases h
    · cases h; exact ⟨cell, hc, rfl⟩

theorem beq_zero_scale {k x : Rat} (hk : k ≠ 0) : (k * x == 0) = (x == 0) := by
  by_cases hx : x = 0
  · subst hx; simp [Rat.mul_zero]
  · have : k * x ≠ 0 := fun h => (Rat.mul_eq_zero.mp h).elim hk hx
    rw [beq_eq_false_iff_ne.mpr this, beq_eq_false_iff_ne.mpr hx]

theorem isOrtho_scaleRows (M : Mat3) (i j k : Nat) (hi : 1 ≤ i) (hj : 1 ≤ j) (hk : 1 ≤ k) :
    (M.scaleRows i j k).isOrtho = M.isOrtho := by
  have ni : (i : Rat) ≠ 0 := fun h => by have := Rat.natCast_eq_zero_iff.mp h; omega
  have nj : (j : Rat) ≠ 0 := fun h => by have := Rat.natCast_eq_zero_iff.mp h; omega
  have nk : (k : Rat) ≠ 0 := fun h => by have := Rat.natCast_eq_zero_iff.mp h; omega
  simp only [Mat3.isOrtho, Mat3.scaleRows, Vec3.smul, beq_zero_scale ni, beq_zero_scale nj, beq_zero_scale nk]

theorem diagOf_scaleRows (M : Mat3) (i j k : Nat) :
    diagOf (M.scaleRows i j k) = scaleDiag (diagOf M) (some (i, j, k)) := rfl

theorem setPositionsFrom_cell {env : Env} {a r : Atoms} {p : String} (h : setPositionsFrom env a p = .ok r) :
    r.cell = a.cell := by
  unfold setPositionsFrom at h
  split at h
  · cases h
  · split at h <;> cases h; rfl

theorem setChargesFrom_cell {env : Env} {a r : Atoms} {p : String} (h : setChargesFrom env a p = .ok r) :
    r.cell = a.cell := by
  unfold setChargesFrom at h
  split at h
  · cases h
  · split at h <;> cases h; rfl

theorem apiDump_cell {env : Env} {o : Options} {a r : Atoms} (h : apiDump env o a = .ok r) : r.cell = a.cell := by
  unfold apiDump at h
  split at h
  · exact setPositionsFrom_cell h
  · cases h; rfl

theorem apiCharges_cell {env : Env} {o : Options} {a r : Atoms} (h : apiCharges env o a = .ok r) : r.cell = a.cell := by
  unfold apiCharges at h
  split at h
  · exact setChargesFrom_cell h
  · cases h; rfl

/-- **the wire of `--mic`**: on an accepted run the factors listed in the plan (from the probed cell and the
    `--replicate` option) are the factors the entry point computes from the structure it holds at that moment -/
theorem micFromPlan_eq_apiMic (o : Options) (a3 a4 : Atoms) (hacc : planError o (cellInfoOf a3) = none)
    (hrep : apiReplicate o a3 = .ok a4) :
    micFromPlan o (cellInfoOf a3) a4 = apiMic o a4 := by
  unfold micFromPlan apiMic
  cases hm : o.mic with
  | none => rfl
  | some m =>
    unfold planError at hacc
    cases hc : a3.cell with
    | none =>
      exfalso
      simp [cellInfoOf, hc, hm] at hacc
    | some M =>
      have hci : cellInfoOf a3 = some ⟨diagOf M, M.isOrtho⟩ := by simp [cellInfoOf, hc]
      rw [hci] at hacc ⊢
      simp only [hm] at hacc
      unfold apiReplicate at hrep
      cases hr : o.replicate with
      | none =>
        rw [hr] at hrep hacc
        cases hrep
        simp only [micStep, hc, scaleDiag]
        by_cases ho : M.isOrtho = true
        · simp only [ho, ↓reduceIte]
          simp only [ho, scaleDiag, true_and] at hacc
          have hpos : 0 < M.a.x ∧ 0 < M.b.y ∧ 0 < M.c.z := by
            apply Classical.byContradiction
            intro hn
            simp [diagOf, hn] at hacc
          simp only [hpos, and_self, ↓reduceIte]
        · simp only [ho, Bool.false_eq_true, ↓reduceIte]
      | some d =>
        rw [hr] at hrep hacc
        obtain ⟨i, j, k⟩ := d
        unfold replicateNat at hrep
        by_cases hd : 1 ≤ i ∧ 1 ≤ j ∧ 1 ≤ k
        · simp only [hd, and_self, ↓reduceIte] at hrep
          obtain ⟨M', hM', hcell⟩ := replicate_cell hrep
          rw [hc] at hM'
          cases hM'
          simp only [micStep, hcell, isOrtho_scaleRows M i j k hd.1 hd.2.1 hd.2.2, diagOf_scaleRows]
          by_cases ho : M.isOrtho = true
          · simp only [ho, ↓reduceIte]
            simp only [ho, true_and] at hacc
            have hpos : 0 < (scaleDiag (diagOf M) (some (i, j, k))).1 ∧ 0 < (scaleDiag (diagOf M) (some (i, j, k))).2.1
                ∧ 0 < (scaleDiag (diagOf M) (some (i, j, k))).2.2 := by
              apply Classical.byContradiction
              intro hn
              simp [hn] at hacc
            have hpos' : 0 < (M.scaleRows i j k).a.x ∧ 0 < (M.scaleRows i j k).b.y ∧ 0 < (M.scaleRows i j k).c.z := hpos
            simp only [hpos', and_self, ↓reduceIte]
          · simp only [ho, Bool.false_eq_true, ↓reduceIte]
        · simp only [hd, ↓reduceIte] at hrep
          cases hrep

/-- the cell the probe reports is the cell the structure has when `--replicate` is reached -/
theorem probe_cell {env : Env} {o : Options} {a0 a1 a2 a3 : Atoms}
    (_h1 : apiExtractUc env o a0 = .ok a1) (h2 : apiDump env o a1 = .ok a2) (h3 : apiCharges env o a2 = .ok a3) :
    cellInfoOf a3 = cellInfoOf a1 := by
  have := apiDump_cell h2
  have := apiCharges_cell h3
  simp only [cellInfoOf, *]

/-- **accepted runs**: executing the plan built for the probed cell is the API pipeline — same result, same error -/
theorem runCalls_eq_api (env : Env) (o : Options) (c : Option CellInfo) (cs : List Call)
    (hp : probeCell env o = .ok c) (hplan : plan o c = .ok cs) :
    runCalls env cs = apiPipeline env o := by
  obtain ⟨hacc, rfl⟩ := plan_ok hplan
  rw [runCalls_planCalls, apiPipeline_eq_chain]
  unfold planChain apiChain
  unfold probeCell at hp
  cases h0 : apiLoad env o with
  | error e => rfl
  | ok a0 =>
    simp only [andThen_ok]
    cases h1 : apiExtractUc env o a0 with
    | error e => rfl
    | ok a1 =>
      rw [h0] at hp
      simp only [bind, Except.bind, h1, pure, Except.pure] at hp
      cases hp
      simp only [andThen_ok]
      cases h2 : apiDump env o a1 with
      | error e => rfl
      | ok a2 =>
        simp only [andThen_ok]
        cases h3 : apiCharges env o a2 with
        | error e => rfl
        | ok a3 =>
          simp only [andThen_ok]
          cases h4 : apiReplicate o a3 with
          | error e => rfl
          | ok a4 =>
            simp only [andThen_ok]
            have hc := probe_cell h1 h2 h3
            rw [← hc] at hacc ⊢
            rw [micFromPlan_eq_apiMic o a3 a4 hacc h4]

/-- a failing probe (the input or the `--extract-uc` file cannot be loaded) fails the pipeline the same way -/
theorem probe_error (env : Env) (o : Options) (e : Err) (hp : probeCell env o = .error e) :
    apiPipeline env o = .error e := by
  rw [apiPipeline_eq_chain]
  unfold apiChain
  unfold probeCell at hp
  cases h0 : apiLoad env o with
  | error e0 => rw [h0] at hp; cases hp; rfl
  | ok a0 =>
    rw [h0] at hp
    cases h1 : apiExtractUc env o a0 with
    | error e1 => simp only [bind, Except.bind, h1] at hp; cases hp; simp only [andThen_ok, h1, andThen_error]
    | ok a1 => simp only [bind, Except.bind, h1, pure, Except.pure] at hp; cases hp

/-! ### rejected plans: the pipeline fails too -/

def Fails {α} (r : Except Err α) : Prop := ∃ e, r = .error e

theorem fails_andThen {α β} (r : Except Err α) (k : α → Except Err β)
    (h : ∀ a, r = .ok a → Fails (k a)) : Fails (andThen r k) := by
  cases hr : r with
  | error e => exact ⟨e, rfl⟩
  | ok a => exact h a hr

theorem assignPair_cell {env : Env} {a r : Atoms} (h : assignPair env a = .ok r) : r.cell = a.cell := by
  unfold assignPair at h
  split at h
  · cases h
  · cases h; rfl

theorem apiPp_cell {env : Env} {o : Options} {a r : Atoms} (h : apiPp env o a = .ok r) : r.cell = a.cell := by
  unfold apiPp at h
  split at h
  · exact assignPair_cell h
  · cases h; rfl

theorem replicate_nocell {a : Atoms} (hc : a.cell = none) (da db dc : Nat) : a.replicate da db dc = .error .nocell := by
  unfold Atoms.replicate; rw [hc]

/-- from the minimum-image step on, a structure without a cell fails a run that asks for `--mic` or a search -/
theorem tail_fails_nocell (env : Env) (o : Options) (a4 : Atoms) (hc : a4.cell = none)
    (hreq : o.mic.isSome = true ∨ o.findPath.isSome = true) :
    Fails (andThen (apiMic o a4) fun a5 =>
      andThen (apiPp env o a5) fun a6 =>
      andThen (apiSearch env o a6) fun r =>
      andThen (apiFramework o r.1) fun a8 =>
      andThen (apiSave o a8) fun w => (.ok ⟨w, r.2⟩ : Except Err Output)) := by
  apply fails_andThen; intro a5 h5
  cases hm : o.mic with
  | some m =>
    exfalso
    simp only [apiMic, hm, micStep, hc] at h5
    cases h5
  | none =>
    simp only [apiMic, hm] at h5
    cases h5
    have hf : o.findPath.isSome = true := by
      rcases hreq with h | h
      · rw [hm] at h; cases h
      · exact h
    apply fails_andThen; intro a6 h6
    have hc6 : a6.cell = none := (apiPp_cell h6).trans hc
    obtain ⟨f, hfp⟩ := Option.isSome_iff_exists.mp hf
    have : Fails (apiSearch env o a6) := by
      unfold apiSearch
      rw [hfp]
      cases o.replacePath with
      | none =>
        simp only
        cases env.load f with
        | error e => exact ⟨e, rfl⟩
        | ok p => simp only [findOp, hc6]; exact ⟨_, rfl⟩
      | some r =>
        simp only
        cases env.load f with
        | error e => exact ⟨e, rfl⟩
        | ok p =>
          cases env.load r with
          | error e => exact ⟨e, rfl⟩
          | ok rp => simp only [replaceOp, hc6]; exact ⟨_, rfl⟩
    obtain ⟨e, he⟩ := this
    rw [he]; exact ⟨e, rfl⟩

/-- **rejected runs**: when the plan refuses the options for the probed cell (no unit cell for a step that needs
    one, or `--mic` on a non-positive cell length), the API pipeline fails as well -/
theorem rejected_fails (env : Env) (o : Options) (c : Option CellInfo) (e : Err)
    (hp : probeCell env o = .ok c) (hplan : plan o c = .error e) : Fails (apiPipeline env o) := by
  have hpe : planError o c = some e := by
    unfold plan at hplan
    split at hplan
    · rename_i e' he; cases hplan; exact he
    · cases hplan
  rw [apiPipeline_eq_chain]
  unfold apiChain
  unfold probeCell at hp
  apply fails_andThen; intro a0 h0
  apply fails_andThen; intro a1 h1
  rw [h0] at hp
  simp only [bind, Except.bind, h1, pure, Except.pure] at hp
  cases hp
  apply fails_andThen; intro a2 h2
  apply fails_andThen; intro a3 h3
  have hc3 : a3.cell = a1.cell := (apiCharges_cell h3).trans (apiDump_cell h2)
  unfold planError at hpe
  cases hc : a1.cell with
  | none =>
    simp only [cellInfoOf, hc, Option.map_none] at hpe
    have hreq : o.replicate.isSome = true ∨ o.mic.isSome = true ∨ o.findPath.isSome = true := by
      apply Classical.byContradiction
      intro hn
      simp [hn] at hpe
    have hc3n : a3.cell = none := hc3.trans hc
    cases hr : o.replicate with
    | some d =>
      apply fails_andThen; intro a4 h4
      exfalso
      simp only [apiReplicate, hr, replicateNat] at h4
      split at h4
      · rw [replicate_nocell hc3n] at h4; cases h4
      · cases h4
    | none =>
      apply fails_andThen; intro a4 h4
      simp only [apiReplicate, hr] at h4
      cases h4
      apply tail_fails_nocell env o a3 hc3n
      rcases hreq with h | h | h
      · rw [hr] at h; cases h
      · exact Or.inl h
      · exact Or.inr h
  | some M =>
    simp only [cellInfoOf, hc, Option.map_some] at hpe
    cases hm : o.mic with
    | none => rw [hm] at hpe; cases hpe
    | some m =>
      rw [hm] at hpe
      simp only at hpe
      have hbad : M.isOrtho = true ∧ ¬ (0 < (scaleDiag (diagOf M) o.replicate).1 ∧ 0 < (scaleDiag (diagOf M) o.replicate).2.1
          ∧ 0 < (scaleDiag (diagOf M) o.replicate).2.2) := by
        apply Classical.byContradiction
        intro hn
        simp only [hn, ↓reduceIte] at hpe
        cases hpe
      have hc3s : a3.cell = some M := hc3.trans hc
      apply fails_andThen; intro a4 h4
      apply fails_andThen; intro a5 h5
      exfalso
      unfold apiReplicate at h4
      cases hr : o.replicate with
      | none =>
        rw [hr] at h4 hbad
        cases h4
        simp only [apiMic, hm, micStep, hc3s, hbad.1, ↓reduceIte] at h5
        have hb := hbad.2
        simp only [scaleDiag, diagOf] at hb
        simp only [hb, ↓reduceIte] at h5
        cases h5
      | some d =>
        rw [hr] at h4 hbad
        obtain ⟨i, j, k⟩ := d
        unfold replicateNat at h4
        by_cases hd : 1 ≤ i ∧ 1 ≤ j ∧ 1 ≤ k
        · simp only [hd, and_self, ↓reduceIte] at h4
          obtain ⟨M', hM', hcell⟩ := replicate_cell h4
          rw [hc3s] at hM'
          cases hM'
          simp only [apiMic, hm, micStep, hcell, isOrtho_scaleRows M i j k hd.1 hd.2.1 hd.2.2, hbad.1, ↓reduceIte] at h5
          have hb : ¬ (0 < (M.scaleRows i j k).a.x ∧ 0 < (M.scaleRows i j k).b.y ∧ 0 < (M.scaleRows i j k).c.z) := hbad.2
          simp only [hb, ↓reduceIte] at h5
          cases h5
        · simp only [hd, ↓reduceIte] at h4
          cases h4

end Mofun.Cli
