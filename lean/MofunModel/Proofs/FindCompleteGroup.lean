/-
  FindCompleteGroup.lean — the combinatorial half of C02 / C03:
  `groupBy` (python: `group_duplicates`) partitions the candidate list by key, keys pairwise distinct;
  `find` reports at most one match per group and the key of the report is the key of its group, whatever the
  chooser (`random.choice`) does.
-/
import MofunModel.Model.Find

namespace Mofun

/-! ### `groupBy` -/

/-- one step of `groupBy` -/
def groupStep {κ α} [DecidableEq κ] (key : α → κ) (acc : List (κ × List α)) (x : α) : List (κ × List α) :=
  let k := key x
  if acc.any (fun p => p.1 = k) then acc.map (fun p => if p.1 = k then (p.1, p.2 ++ [x]) else p)
  else acc ++ [(k, [x])]

theorem groupBy_eq_foldl {κ α} [DecidableEq κ] (key : α → κ) (l : List α) :
    groupBy key l = l.foldl (groupStep key) [] := rfl

theorem groupStep_keys_present {κ α} [DecidableEq κ] (key : α → κ) (acc : List (κ × List α)) (x : α)
    (h : key x ∈ acc.map (·.1)) : (groupStep key acc x).map (·.1) = acc.map (·.1) := by
  have hany : acc.any (fun p => p.1 = key x) = true := by
    rcases List.mem_map.mp h with ⟨p, hp, hpk⟩
    exact List.any_eq_true.mpr ⟨p, hp, by simp [hpk]⟩
  unfold groupStep
  simp only [hany, if_true, List.map_map]
  apply List.map_congr_left
  intro p _
  by_cases hk : p.1 = key x <;> simp [hk]

theorem groupStep_keys_absent {κ α} [DecidableEq κ] (key : α → κ) (acc : List (κ × List α)) (x : α)
    (h : key x ∉ acc.map (·.1)) : groupStep key acc x = acc ++ [(key x, [x])] := by
  have hany : acc.any (fun p => p.1 = key x) = false := by
    apply Bool.eq_false_iff.mpr
    intro ht
    rcases List.any_eq_true.mp ht with ⟨p, hp, hpk⟩
    exact h (List.mem_map.mpr ⟨p, hp, by simpa using hpk⟩)
  unfold groupStep
  simp [hany]

theorem groupStep_keys_nodup {κ α} [DecidableEq κ] (key : α → κ) (acc : List (κ × List α)) (x : α)
    (h : (acc.map (·.1)).Nodup) : ((groupStep key acc x).map (·.1)).Nodup := by
  by_cases hk : key x ∈ acc.map (·.1)
  · rw [groupStep_keys_present key acc x hk]; exact h
  · rw [groupStep_keys_absent key acc x hk, List.map_append]
    refine List.nodup_append.mpr ⟨h, by simp, ?_⟩
    intro a ha b hb
    simp at hb
    subst hb
    intro e; subst e; exact hk ha

theorem foldl_groupStep_keys_nodup {κ α} [DecidableEq κ] (key : α → κ) (l : List α) (acc : List (κ × List α))
    (h : (acc.map (·.1)).Nodup) : ((l.foldl (groupStep key) acc).map (·.1)).Nodup := by
  induction l generalizing acc with
  | nil => simpa using h
  | cons x xs ih => exact ih _ (groupStep_keys_nodup key acc x h)

/-- the keys of the groups are pairwise distinct -/
theorem groupBy_keys_nodup {κ α} [DecidableEq κ] (key : α → κ) (l : List α) :
    ((groupBy key l).map (·.1)).Nodup :=
  foldl_groupStep_keys_nodup key l [] (by simp)

/-- invariant: every member of a group has the group's key -/
def GroupSound {κ α} (key : α → κ) (acc : List (κ × List α)) : Prop :=
  ∀ p ∈ acc, ∀ x ∈ p.2, key x = p.1

theorem groupStep_sound {κ α} [DecidableEq κ] (key : α → κ) (acc : List (κ × List α)) (x : α)
    (h : GroupSound key acc) : GroupSound key (groupStep key acc x) := by
  by_cases hk : key x ∈ acc.map (·.1)
  · intro p hp y hy
    have hany : acc.any (fun p => p.1 = key x) = true := by
      rcases List.mem_map.mp hk with ⟨p, hp, hpk⟩
      exact List.any_eq_true.mpr ⟨p, hp, by simp [hpk]⟩
    unfold groupStep at hp
    simp only [hany, if_true] at hp
    rcases List.mem_map.mp hp with ⟨p0, hp0, hpe⟩
    by_cases hpk : p0.1 = key x
    · simp only [hpk, if_true] at hpe
      subst hpe
      simp only [List.mem_append, List.mem_singleton] at hy
      rcases hy with hy | hy
      · simpa [hpk] using h p0 hp0 y hy
      · subst hy; rfl
    · simp only [hpk, if_false] at hpe
      subst hpe
      exact h p0 hp0 y hy
  · rw [groupStep_keys_absent key acc x hk]
    intro p hp y hy
    rcases List.mem_append.mp hp with hp | hp
    · exact h p hp y hy
    · simp at hp; subst hp; simp at hy; subst hy; rfl

theorem foldl_groupStep_sound {κ α} [DecidableEq κ] (key : α → κ) (l : List α) (acc : List (κ × List α))
    (h : GroupSound key acc) : GroupSound key (l.foldl (groupStep key) acc) := by
  induction l generalizing acc with
  | nil => simpa using h
  | cons x xs ih => exact ih _ (groupStep_sound key acc x h)

/-- every member of a group has the group's key -/
theorem groupBy_sound {κ α} [DecidableEq κ] (key : α → κ) (l : List α) :
    ∀ p ∈ groupBy key l, ∀ x ∈ p.2, key x = p.1 :=
  foldl_groupStep_sound key l [] (by intro p hp; simp at hp)

/-- invariant: `x` is in the group of its key -/
def InGroups {κ α} (key : α → κ) (acc : List (κ × List α)) (x : α) : Prop :=
  ∃ p ∈ acc, p.1 = key x ∧ x ∈ p.2

theorem groupStep_keeps {κ α} [DecidableEq κ] (key : α → κ) (acc : List (κ × List α)) (x y : α)
    (h : InGroups key acc y) : InGroups key (groupStep key acc x) y := by
  rcases h with ⟨p, hp, hpk, hy⟩
  by_cases hk : key x ∈ acc.map (·.1)
  · have hany : acc.any (fun p => p.1 = key x) = true := by
      rcases List.mem_map.mp hk with ⟨p, hp, hpk⟩
      exact List.any_eq_true.mpr ⟨p, hp, by simp [hpk]⟩
    unfold groupStep
    simp only [hany, if_true]
    by_cases hpx : p.1 = key x
    · exact ⟨(p.1, p.2 ++ [x]), List.mem_map.mpr ⟨p, hp, by simp [hpx]⟩, hpk, by simp [hy]⟩
    · exact ⟨p, List.mem_map.mpr ⟨p, hp, by simp [hpx]⟩, hpk, hy⟩
  · rw [groupStep_keys_absent key acc x hk]
    exact ⟨p, List.mem_append.mpr (Or.inl hp), hpk, hy⟩

theorem groupStep_adds {κ α} [DecidableEq κ] (key : α → κ) (acc : List (κ × List α)) (x : α) :
    InGroups key (groupStep key acc x) x := by
  by_cases hk : key x ∈ acc.map (·.1)
  · have hany : acc.any (fun p => p.1 = key x) = true := by
      rcases List.mem_map.mp hk with ⟨p, hp, hpk⟩
      exact List.any_eq_true.mpr ⟨p, hp, by simp [hpk]⟩
    rcases List.mem_map.mp hk with ⟨p, hp, hpk⟩
    unfold groupStep
    simp only [hany, if_true]
    exact ⟨(p.1, p.2 ++ [x]), List.mem_map.mpr ⟨p, hp, by simp [hpk]⟩, hpk, by simp⟩
  · rw [groupStep_keys_absent key acc x hk]
    exact ⟨(key x, [x]), by simp, rfl, by simp⟩

theorem foldl_groupStep_complete {κ α} [DecidableEq κ] (key : α → κ) (l : List α) (acc : List (κ × List α))
    (y : α) (h : InGroups key acc y ∨ y ∈ l) : InGroups key (l.foldl (groupStep key) acc) y := by
  induction l generalizing acc with
  | nil =>
    rcases h with h | h
    · simpa using h
    · simp at h
  | cons x xs ih =>
    apply ih
    rcases h with h | h
    · exact Or.inl (groupStep_keeps key acc x y h)
    · rcases List.mem_cons.mp h with h | h
      · subst h; exact Or.inl (groupStep_adds key acc y)
      · exact Or.inr h

/-- every element of the list sits in the group of its key -/
theorem groupBy_complete {κ α} [DecidableEq κ] (key : α → κ) (l : List α) (y : α) (hy : y ∈ l) :
    ∃ p ∈ groupBy key l, p.1 = key y ∧ y ∈ p.2 :=
  foldl_groupStep_complete key l [] y (Or.inr hy)

end Mofun

namespace Mofun

/-! ### small list facts -/

theorem filterMap_congr_mem {α β} (l : List α) (f g : α → Option β) (h : ∀ x ∈ l, f x = g x) :
    l.filterMap f = l.filterMap g := by
  induction l with
  | nil => rfl
  | cons x xs ih =>
    have hx := h x (by simp)
    have hxs := ih (fun y hy => h y (by simp [hy]))
    simp only [List.filterMap_cons, hx, hxs]

theorem getD_mem_of_lt {α} (l : List α) (i : Nat) (d : α) (h : i < l.length) : l.getD i d ∈ l := by
  rw [List.getD_eq_getElem?_getD, List.getElem?_eq_getElem h]
  simp

/-- `filterMap` that keeps a sub-family of pairwise distinct keys keeps them distinct -/
theorem nodup_filterMap_key {α κ} (l : List α) (key : α → κ) (c : α → Bool) (h : (l.map key).Nodup) :
    (l.filterMap (fun g => if c g then none else some (key g))).Nodup := by
  induction l with
  | nil => simp
  | cons x xs ih =>
    rw [List.map_cons, List.nodup_cons] at h
    have ih' := ih h.2
    by_cases hc : c x
    · simpa [List.filterMap_cons, hc] using ih'
    · simp only [List.filterMap_cons, hc, Bool.false_eq_true, if_false]
      refine List.nodup_cons.mpr ⟨?_, ih'⟩
      intro hm
      rcases List.mem_filterMap.mp hm with ⟨y, hy, hye⟩
      by_cases hcy : c y
      · simp [hcy] at hye
      · simp only [hcy, Bool.false_eq_true, if_false, Option.some.injEq] at hye
        exact h.1 (List.mem_map.mpr ⟨y, hy, hye⟩)

/-! ### the groups of `findGroups` -/

/-- the grouping key of a candidate tuple (indices into `allPositions`): sorted unit-cell indices -/
def tupleKey (n : Nat) (t : List Nat) : List Nat := sortNat (t.map (· % n))

/-- what `findGroups` guarantees about each group -/
structure GroupOk (n : Nat) (g : Group) : Prop where
  good_lt : ∀ i ∈ g.good, i < g.tuples.length
  key_eq : ∀ t ∈ g.tuples, tupleKey n t = g.key

/-- the pieces of `findGroups`, named -/
def patMax (inp : FindInput) : Rat := maxRat (inp.ppos.flatMap (fun p => inp.ppos.map (fun r => distSq p r)))
def nearOf (inp : FindInput) : List Nat := nearIndices inp.cell (allPositions inp.cell inp.pos) (patMax inp) inp.atol
def nearPosOf (inp : FindInput) : List Vec3 :=
  (nearOf inp).map (fun i => (allPositions inp.cell inp.pos).getD i Vec3.zero)
def nearElemOf (inp : FindInput) : List String :=
  (nearOf inp).map (fun i => inp.elems.getD (i % inp.pos.length) "")
/-- the unit-cell atom of every near atom (`near_indices[·] % len(structure)`) -/
def nearUcOf (inp : FindInput) : List Nat := (nearOf inp).map (fun i => i % inp.pos.length)
/-- candidate tuples as positions in the near list -/
def candsOf (inp : FindInput) : List (List Nat) :=
  candidates inp.ppos inp.pelems inp.atol (patMax inp) inp.pos.length (nearPosOf inp) (nearElemOf inp) (nearUcOf inp)
/-- candidate tuples as indices into `allPositions` -/
def candsAllOf (inp : FindInput) : List (List Nat) :=
  (candsOf inp).map (fun t => t.map (fun k => (nearOf inp).getD k 0))

def goodOf (inp : FindInput) (ax1 : Nat) (oracle : Nat → Nat → Quat) (g : Nat) (tuples : List (List Nat)) : List Nat :=
  (List.range tuples.length).filter (fun i =>
    let t := tuples.getD i []
    goodCheck inp.ppos ax1 inp.atol (if t.length > 1 then oracle g i else Quat.identity)
      (t.map (fun k => (allPositions inp.cell inp.pos).getD k Vec3.zero)))

def mkGroup (inp : FindInput) (ax1 : Nat) (oracle : Nat → Nat → Quat) (x : (List Nat × List (List Nat)) × Nat) : Group :=
  { key := x.1.1, tuples := x.1.2, good := goodOf inp ax1 oracle x.2 x.1.2 }

theorem findGroups_eq (inp : FindInput) (ax1 : Nat) (oracle : Nat → Nat → Quat) :
    findGroups inp ax1 oracle
      = (nearOf inp, (groupBy (tupleKey inp.pos.length) (candsAllOf inp)).zipIdx.map (mkGroup inp ax1 oracle)) := rfl

/-- the keys of the candidate groups are pairwise distinct -/
theorem findGroups_keys_nodup (inp : FindInput) (ax1 : Nat) (oracle : Nat → Nat → Quat) :
    ((findGroups inp ax1 oracle).2.map (·.key)).Nodup := by
  rw [findGroups_eq]
  simp only [List.map_map]
  have : ((fun x : Group => x.key) ∘ mkGroup inp ax1 oracle) = (fun p : List Nat × List (List Nat) => p.1) ∘ Prod.fst := by
    funext x; rfl
  rw [this, ← List.map_map, List.zipIdx_map_fst]
  exact groupBy_keys_nodup _ _

theorem findGroups_ok (inp : FindInput) (ax1 : Nat) (oracle : Nat → Nat → Quat) :
    ∀ g ∈ (findGroups inp ax1 oracle).2, GroupOk inp.pos.length g := by
  intro g hg
  rw [findGroups_eq] at hg
  rcases List.mem_map.mp hg with ⟨⟨kg, gi⟩, hkg, hge⟩
  have hmem : kg ∈ groupBy (tupleKey inp.pos.length) (candsAllOf inp) := by
    have := List.mem_zipIdx hkg
    rw [this.2.2]
    exact List.getElem_mem _
  subst hge
  constructor
  · intro i hi
    have := (List.mem_filter.mp hi).1
    exact List.mem_range.mp this
  · intro t ht
    exact groupBy_sound _ _ kg hmem t ht

/-! ### the reported matches -/

/-- the key under which a reported match is counted: its sorted unit-cell indices -/
def Match.key (m : Match) : List Nat := sortNat m.idx

/-- `find` reports one match for every group that has a candidate passing the rotation check, none for the
    others, and the key of the report is the key of the group — for every chooser. -/
theorem find_keys_eq (inp : FindInput) (ax1 : Nat) (oracle : Nat → Nat → Quat) (choose : Nat → List Nat → Nat) :
    (find inp ax1 oracle choose).map Match.key
      = (findGroups inp ax1 oracle).2.filterMap (fun g => if g.good.isEmpty then none else some g.key) := by
  have hok := findGroups_ok inp ax1 oracle
  unfold find
  generalize (findGroups inp ax1 oracle) = fg at hok ⊢
  rcases fg with ⟨near, groups⟩
  simp only
  rw [List.map_filterMap]
  conv => rhs; rw [← List.zipIdx_map_fst 0 groups, List.filterMap_map]
  apply filterMap_congr_mem
  rintro ⟨g, gi⟩ hmem
  have hg : g ∈ groups := by
    have := List.mem_zipIdx hmem
    rw [this.2.2]; exact List.getElem_mem _
  have ok := hok g hg
  simp only [Function.comp]
  have key_of : ∀ i ∈ g.good, tupleKey inp.pos.length (g.tuples.getD i []) = g.key := fun i hi =>
    ok.key_eq _ (getD_mem_of_lt _ _ _ (ok.good_lt i hi))
  rcases hgood : g.good with _ | ⟨i, _ | ⟨j, rest⟩⟩
  · simp
  · have := key_of i (by simp [hgood])
    simp [Match.key, tupleKey] at this ⊢
    exact this
  · have hmemgood : (i :: j :: rest).getD (choose gi (i :: j :: rest) % (i :: j :: rest).length) 0 ∈ g.good := by
      rw [hgood]
      apply getD_mem_of_lt
      exact Nat.mod_lt _ (by simp)
    have := key_of _ hmemgood
    simp [Match.key, tupleKey] at this ⊢
    exact this

end Mofun
