/-
  PlaceMultiLemmas.lean — helper lemmas for Props/C05Multi.lean: where the atoms INSERTED for each match sit in the
  running structure of `replaceCore`'s fold, and that no later step of the fold moves or re-types them.

  Joins the scaffolding of C04/C07 (`step`, `replaceState`, `extend_ok_shape`, `fold_rows`, `ValidMatches`;
  Proofs/ReplaceOverlap.lean, Proofs/ReplaceCount*.lean) with the placement vocabulary of C05 (`insertFrame`, `InCell`;
  Proofs/PlaceLemmas.lean, Proofs/WrapLemmas.lean).  New lemmas live in `Mofun.C05Multi`; core tactics only.
-/
import MofunModel.Props.C04
import MofunModel.Props.C05

namespace Mofun.C05Multi

open Mofun Mofun.C07 Mofun.C04

/-! ### vocabulary -/

/-- the replacement-pattern indices that are INSERTED for a match (those not identified with a matched atom through
    the index map), in insertion order.  The same list for every match: the keys of the map do not depend on it. -/
def insList (p r : Atoms) (ra : Bool) : List Nat :=
  (List.range r.atoms.length).filter (fun k => !(keysOf p r ra).contains k)

/-- where `placeAtoms` puts the replacement-pattern point `x` for match `m`: the insertion frame
    `rot q (x − P[0]) + pos[0]`, wrapped into the cell when there is one -/
def placedPos (cell : Option Mat3) (p0 : Vec3) (m : PlacedMatch) (x : Vec3) : Vec3 :=
  match cell with
  | some c => c.wrap (C05.insertFrame m.q p0 (m.pos.getD 0 Vec3.zero) x)
  | none => C05.insertFrame m.q p0 (m.pos.getD 0 Vec3.zero) x

theorem mem_insList (p r : Atoms) (ra : Bool) (k : Nat) :
    k ∈ insList p r ra ↔ k < r.atoms.length ∧ k ∉ keysOf p r ra := by
  simp [insList]

theorem insList_nodup (p r : Atoms) (ra : Bool) : (insList p r ra).Nodup :=
  List.Nodup.sublist List.filter_sublist List.nodup_range

/-- inserted + shared = all replacement atoms -/
theorem insList_length (p r : Atoms) (ra : Bool) :
    (insList p r ra).length + nShared p r ra = r.atoms.length := by
  have h := length_filter_not_mem (List.range r.atoms.length) (keysOf p r ra) List.nodup_range (keysOf_nodup p r ra)
    (by
      intro x hx
      unfold keysOf at hx
      cases ra with
      | true => simp at hx
      | false =>
        simp only [Bool.false_eq_true, if_false] at hx
        obtain ⟨kv, hkv, rfl⟩ := List.mem_map.mp hx
        exact List.mem_range.mpr (unchangedPairs_valid r p kv hkv).1)
  have hk : (keysOf p r ra).length = nShared p r ra := by
    unfold keysOf nShared; cases ra <;> simp
  simp only [List.length_range] at h
  unfold insList
  omega

/-- with `replace_all` every replacement atom is inserted -/
theorem insList_replaceAll (p r : Atoms) : insList p r true = List.range r.atoms.length := by
  unfold insList keysOf
  simp

theorem toAddOf_eq (cell : Option Mat3) (p0 : Vec3) (p r : Atoms) (ra : Bool) (m : PlacedMatch) :
    toAddOf (placeAtoms cell p0 r m) (mapOf (unchangedPairs r p) ra m) = insList p r ra := by
  unfold toAddOf insList
  rw [C07.placeAtoms_length, mapOf_keys']

theorem placeAtoms_row (cell : Option Mat3) (p0 : Vec3) (r : Atoms) (m : PlacedMatch) (k : Nat) (row0 : AtomRow)
    (h : r.atoms[k]? = some row0) :
    (placeAtoms cell p0 r m).atoms[k]? = some { row0 with pos := placedPos cell p0 m row0.pos } := by
  rw [C05.placeAtoms_getElem?, h]
  cases cell <;> rfl

/-! ### list helpers -/

theorem filterMap_getElem?_of_all_some {α β} (l : List α) (f : α → Option β) (h : ∀ x ∈ l, (f x).isSome) (t : Nat) :
    (l.filterMap f)[t]? = l[t]?.bind f := by
  induction l generalizing t with
  | nil => simp
  | cons x xs ih =>
    have hx := h x List.mem_cons_self
    cases hfx : f x with
    | none => simp [hfx] at hx
    | some y =>
      simp only [List.filterMap_cons, hfx]
      cases t with
      | zero => simp [hfx]
      | succ t => simpa using ih (fun x' h' => h x' (List.mem_cons_of_mem _ h')) t

/-! ### one `extend`: the appended rows -/

theorem addedOf_length' (a b : Atoms) (offs : Offsets) (map : List (Nat × Nat)) :
    (addedOf a b offs map).length = (toAddOf b map).length := by
  unfold addedOf
  apply length_filterMap_all_some
  intro i hi
  have hlt : i < b.atoms.length := by
    unfold toAddOf at hi
    exact List.mem_range.mp (List.mem_filter.mp hi).1
  simp [List.getElem?_eq_getElem hlt]

/-- the `t`-th appended row is the `toAdd[t]`-th row of the other structure with the type offset added and its extra
    columns re-laid out under the merged labels -/
theorem addedOf_getElem? (a b : Atoms) (offs : Offsets) (map : List (Nat × Nat)) (t k : Nat) (br : AtomRow)
    (ht : (toAddOf b map)[t]? = some k) (hb : b.atoms[k]? = some br) :
    (addedOf a b offs map)[t]? =
      some { br with ty := br.ty + offs.atom, extra := matchRow (labelsOf a b) b.xlabels br.extra } := by
  unfold addedOf
  rw [filterMap_getElem?_of_all_some, ht]
  · simp only [Option.bind_some, hb]
    congr 2
    simp [bxOf, hb]
  · intro i hi
    have hlt : i < b.atoms.length := by
      unfold toAddOf at hi
      exact List.mem_range.mp (List.mem_filter.mp hi).1
    simp [List.getElem?_eq_getElem hlt]

/-! ### the fold -/

/-- an index at or beyond the original structure is never the target of a match's index map -/
theorem not_retained_of_ge (s p r : Atoms) (ra : Bool) (ms : List PlacedMatch) (hms : ValidMatches s p ms)
    (i : Nat) (hi : s.atoms.length ≤ i) : ∀ m ∈ ms, ¬ IsRetained p r ra m i := by
  intro m hm hret
  have := (hms m hm).2 i (isRetained_mem_idx p r ra m (hms m hm).1 i hret)
  omega

/-- **fold invariant for inserted atoms.**  In a successful run over `ms` (matches with valid indices), started from a
    running structure with `n₀ ≥ |s|` atoms: the atom inserted for match number `j` from the replacement atom
    `k = insList[t]` sits at index `n₀ + j·A + t` of the final running structure (`A = |insList|`), with `r[k]`'s type
    id plus the offset, charge and group, at the placed position; its extra columns are `r[k]`'s re-laid out under
    some label list and padded with ".". -/
theorem fold_inserted (s p r : Atoms) (offs : Offsets) (ra ig : Bool) (ms : List PlacedMatch)
    (hms : ValidMatches s p ms) (st st' : ReplaceState) (hN : s.atoms.length ≤ st.s.atoms.length)
    (h : ms.foldl (step s p r offs ra ig) (.ok st) = .ok st')
    (j : Nat) (m : PlacedMatch) (hj : ms[j]? = some m) (t k : Nat) (ht : (insList p r ra)[t]? = some k)
    (row0 : AtomRow) (hk : r.atoms[k]? = some row0) :
    ∃ row, st'.s.atoms[st.s.atoms.length + j * (insList p r ra).length + t]? = some row
      ∧ row.ty = row0.ty + offs.atom
      ∧ row.pos = placedPos s.cell (p0Of p) m row0.pos
      ∧ row.charge = row0.charge ∧ row.group = row0.group
      ∧ ∃ labels n, row.extra = matchRow labels r.xlabels row0.extra ++ List.replicate n "." := by
  induction ms generalizing st j with
  | nil => simp at hj
  | cons m0 rest ih =>
    have hrest : ValidMatches s p rest := fun m' h' => hms m' (List.mem_cons_of_mem _ h')
    simp only [List.foldl_cons] at h
    cases hs' : st.s.extend (placeAtoms s.cell (p0Of p) r m0) (some offs) (mapOf (unchangedPairs r p) ra m0) with
    | error e =>
      have : step s p r offs ra ig (.ok st) m0 = .error e := by simp only [step, hs']
      rw [this, step_error] at h; cases h
    | ok s' =>
      by_cases hc : ((delSet p r ra m0).all (fun i => !st.del.contains i) || ig) = true
      · have e2 : step s p r offs ra ig (.ok st) m0
            = .ok { s := s', del := st.del ++ (delSet p r ra m0).filter (fun i => !st.del.contains i) } := by
          simp only [step, hs', hc, if_true]
        rw [e2] at h
        have hat := (extend_ok_shape _ _ _ _ _ hs').1
        have hlen' : s'.atoms.length = st.s.atoms.length + (insList p r ra).length := by
          rw [hat, List.length_append, updatedOf_length, addedOf_length', toAddOf_eq]
        cases j with
        | zero =>
          simp only [List.getElem?_cons_zero, Option.some.injEq] at hj
          subst hj
          -- the row as appended by this step
          have hbr := placeAtoms_row s.cell (p0Of p) r m0 k row0 hk
          have hadd := addedOf_getElem? st.s (placeAtoms s.cell (p0Of p) r m0) offs
            (mapOf (unchangedPairs r p) ra m0) t k _ (by rw [toAddOf_eq]; exact ht) hbr
          have hget1 : s'.atoms[st.s.atoms.length + t]? = some
              { ty := row0.ty + offs.atom, pos := placedPos s.cell (p0Of p) m0 row0.pos, charge := row0.charge,
                group := row0.group,
                extra := matchRow (labelsOf st.s (placeAtoms s.cell (p0Of p) r m0)) r.xlabels row0.extra } := by
            rw [hat, List.getElem?_append_right (by rw [updatedOf_length]; omega), updatedOf_length,
              Nat.add_sub_cancel_left, hadd]
            rfl
          -- carried through the rest of the fold
          obtain ⟨_, _, _, _, hrows⟩ := fold_rows s p r offs ra ig rest _ st' h
          obtain ⟨row', hget', hsc, hkept, _⟩ := hrows _ _ hget1
          have hk' := hkept (not_retained_of_ge s p r ra rest hrest _ (by omega))
          obtain ⟨hty, _, _, _, n, hex⟩ := hk'
          refine ⟨row', ?_, hty, hsc.1, hsc.2.1, hsc.2.2, _, n, hex⟩
          simpa using hget'
        | succ j =>
          simp only [List.getElem?_cons_succ] at hj
          obtain ⟨row, hget, hrest'⟩ := ih hrest
            { s := s', del := st.del ++ (delSet p r ra m0).filter (fun i => !st.del.contains i) }
            (by show s.atoms.length ≤ s'.atoms.length; omega) h j hj
          refine ⟨row, ?_, hrest'⟩
          have : st.s.atoms.length + (j + 1) * (insList p r ra).length + t
              = s'.atoms.length + j * (insList p r ra).length + t := by
            rw [hlen', Nat.succ_mul]; omega
          rw [this]; exact hget
      · have e2 : step s p r offs ra ig (.ok st) m0 = .error .overlap := by
          simp only [step, hs', hc, Bool.false_eq_true, if_false]
        rw [e2, step_error] at h; cases h

/-- the state handed to the final `delete`, for a non-empty replacement -/
theorem state_inserted (s p r : Atoms) (ms : List PlacedMatch) (ra ig : Bool) (st : ReplaceState)
    (h : replaceState s p r ms ra ig = .ok st) (hms : ValidMatches s p ms)
    (j : Nat) (m : PlacedMatch) (hj : ms[j]? = some m) (t k : Nat) (ht : (insList p r ra)[t]? = some k)
    (row0 : AtomRow) (hk : r.atoms[k]? = some row0) :
    ∃ row, st.s.atoms[s.atoms.length + j * (insList p r ra).length + t]? = some row
      ∧ row.ty = row0.ty + s.typeElems.length
      ∧ row.pos = placedPos s.cell (p0Of p) m row0.pos
      ∧ row.charge = row0.charge ∧ row.group = row0.group
      ∧ ∃ labels n, row.extra = matchRow labels r.xlabels row0.extra ++ List.replicate n "." := by
  have hne : r.atoms.isEmpty = false := by
    cases hr : r.atoms with
    | nil => simp [hr] at hk
    | cons _ _ => rfl
  unfold replaceState at h
  simp only [hne, Bool.false_eq_true, if_false] at h
  exact fold_inserted s p r (s.extendTypes r).2 ra ig ms hms { s := (s.extendTypes r).1, del := [] } st
    (Nat.le_refl _) h j m hj t k ht row0 hk

/-! ### the deletion list lies below the inserted atoms -/

theorem del_lt (s p r : Atoms) (ra : Bool) (ms : List PlacedMatch) (hms : ValidMatches s p ms) (del : List Nat)
    (hmem : ∀ x, x ∈ del ↔ ∃ m ∈ ms, x ∈ delSet p r ra m) : ∀ x ∈ del, x < s.atoms.length := by
  intro x hx
  obtain ⟨m, hm, hxm⟩ := (hmem x).mp hx
  exact (hms m hm).2 x (mem_delSet_idx p r ra m x hxm)

end Mofun.C05Multi
