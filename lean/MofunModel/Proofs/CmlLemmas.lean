/- helper lemmas for C16 (CML): first-occurrence typing (`dedup`, `indexOf?`) and the id table (`lastIndexOf?`) -/
import MofunModel.Model.Cml

namespace Mofun.Cml
open Mofun

/-! ### `indexOf?` -/

theorem indexOf?_getElem {α} [DecidableEq α] (l : List α) (x : α) (i : Nat) (h : indexOf? l x = some i) :
    l[i]? = some x := by
  induction l generalizing i with
  | nil => simp [indexOf?] at h
  | cons y ys ih =>
    unfold indexOf? at h
    by_cases hy : y = x
    · simp only [hy, if_true, Option.some.injEq] at h
      subst h; simp [hy]
    · simp only [hy, if_false, Option.map_eq_some_iff] at h
      obtain ⟨j, hj, rfl⟩ := h
      simpa using ih j hj

theorem indexOf?_eq_none_iff {α} [DecidableEq α] (l : List α) (x : α) : indexOf? l x = none ↔ x ∉ l := by
  induction l with
  | nil => simp [indexOf?]
  | cons y ys ih =>
    unfold indexOf?
    by_cases hy : y = x
    · simp [hy]
    · simp only [hy, if_false, Option.map_eq_none_iff, ih, List.mem_cons]
      constructor
      · rintro h (h' | h')
        · exact hy h'.symm
        · exact h h'
      · intro h h'; exact h (Or.inr h')

theorem indexOf?_of_mem {α} [DecidableEq α] (l : List α) (x : α) (h : x ∈ l) : ∃ i, indexOf? l x = some i := by
  cases hi : indexOf? l x with
  | none => exact absurd h ((indexOf?_eq_none_iff l x).mp hi)
  | some i => exact ⟨i, rfl⟩

/-- the index found is the FIRST position of `x` -/
theorem indexOf?_first {α} [DecidableEq α] (l : List α) (x : α) (i : Nat) (h : indexOf? l x = some i) :
    ∀ j, j < i → l[j]? ≠ some x := by
  induction l generalizing i with
  | nil => simp [indexOf?] at h
  | cons y ys ih =>
    unfold indexOf? at h
    by_cases hy : y = x
    · simp only [hy, if_true, Option.some.injEq] at h
      subst h; intro j hj; omega
    · simp only [hy, if_false, Option.map_eq_some_iff] at h
      obtain ⟨k, hk, rfl⟩ := h
      intro j hj
      cases j with
      | zero => simpa using hy
      | succ j => simpa using ih k hk j (by omega)

/-! ### `dedup` = `dict.fromkeys` -/

theorem mem_dedup {α} [DecidableEq α] (l : List α) (x : α) : x ∈ dedup l ↔ x ∈ l := by
  induction l with
  | nil => simp [dedup]
  | cons y ys ih =>
    simp only [dedup, List.mem_cons, List.mem_filter, ih, decide_eq_true_eq]
    constructor
    · rintro (h | ⟨h, _⟩)
      · exact Or.inl h
      · exact Or.inr h
    · rintro (h | h)
      · exact Or.inl h
      · by_cases hxy : x = y
        · exact Or.inl hxy
        · exact Or.inr ⟨h, by simpa using hxy⟩

theorem nodup_dedup {α} [DecidableEq α] (l : List α) : (dedup l).Nodup := by
  induction l with
  | nil => simp [dedup]
  | cons y ys ih =>
    simp only [dedup, List.nodup_cons, List.mem_filter, decide_eq_true_eq]
    refine ⟨fun h => h.2 rfl |> False.elim, ?_⟩
    · exact List.Nodup.sublist List.filter_sublist ih

/-- reading left to right: an element seen for the first time is appended, one seen before changes nothing
    (exactly what inserting the keys into a python dict one by one does) -/
theorem dedup_snoc {α} [DecidableEq α] (l : List α) (x : α) :
    dedup (l ++ [x]) = if x ∈ l then dedup l else dedup l ++ [x] := by
  induction l with
  | nil => simp [dedup]
  | cons y ys ih =>
    simp only [List.cons_append, dedup, ih]
    by_cases hx : x ∈ ys
    · simp [hx]
    · simp only [hx, if_false, List.filter_append, List.mem_cons]
      by_cases hxy : x = y
      · subst hxy; simp
      · have : ¬ (x = y ∨ x ∈ ys) := fun h => h.elim hxy hx
        simp [hxy]

/-! ### the id table: `{id:i for i, id in enumerate(ids)}` -/

theorem lastIndexOf?_getElem (ids : List String) (r : String) (i : Nat) (h : lastIndexOf? ids r = some i) :
    ids[i]? = some r := by
  induction ids generalizing i with
  | nil => simp [lastIndexOf?] at h
  | cons y ys ih =>
    unfold lastIndexOf? at h
    cases hl : lastIndexOf? ys r with
    | some k =>
      rw [hl] at h
      simp only [Option.some.injEq] at h
      subst h
      simpa using ih k hl
    | none =>
      rw [hl] at h
      simp only at h
      split at h
      · rename_i hy
        cases h; simp [hy]
      · cases h

theorem lastIndexOf?_eq_none_iff (ids : List String) (r : String) : lastIndexOf? ids r = none ↔ r ∉ ids := by
  induction ids with
  | nil => simp [lastIndexOf?]
  | cons y ys ih =>
    unfold lastIndexOf?
    cases hl : lastIndexOf? ys r with
    | some k =>
      have : r ∈ ys := by
        apply Classical.byContradiction; intro hn
        have := ih.mpr hn; rw [hl] at this; cases this
      simp [this]
    | none =>
      have hn := ih.mp hl
      by_cases hy : y = r
      · simp [hy]
      · simp only [hy, if_false, List.mem_cons, true_iff]
        rintro (h | h)
        · exact hy h.symm
        · exact hn h

/-- with unique ids the dict lookup is the position of the (only) atom carrying the id -/
theorem lastIndexOf?_eq_indexOf? (ids : List String) (hnd : ids.Nodup) (r : String) :
    lastIndexOf? ids r = indexOf? ids r := by
  induction ids with
  | nil => simp [lastIndexOf?, indexOf?]
  | cons y ys ih =>
    have hnd' := List.nodup_cons.mp hnd
    unfold lastIndexOf? indexOf?
    rw [ih hnd'.2]
    by_cases hy : y = r
    · subst hy
      have : indexOf? ys y = none := (indexOf?_eq_none_iff ys y).mpr hnd'.1
      simp [this]
    · simp only [hy, if_false]
      cases indexOf? ys r <;> simp

/-- renaming the ids by a function that is injective where it matters does not change any lookup -/
theorem lastIndexOf?_map (f : String → String) (ids : List String) (r : String)
    (hinj : ∀ y ∈ ids, f y = f r → y = r) :
    lastIndexOf? (ids.map f) (f r) = lastIndexOf? ids r := by
  induction ids with
  | nil => simp [lastIndexOf?]
  | cons y ys ih =>
    have ih' := ih (fun z hz => hinj z (by simp [hz]))
    simp only [List.map_cons]
    unfold lastIndexOf?
    rw [ih']
    cases lastIndexOf? ys r with
    | some k => rfl
    | none =>
      simp only
      by_cases hy : y = r
      · simp [hy]
      · have : f y ≠ f r := fun h => hy (hinj y (by simp) h)
        simp [hy, this]

end Mofun.Cml
