/-
  HistLemmas.lean — well-formedness of `Atoms` objects and its preservation by every operation of the model
  (helper definitions and lemmas for property C09; the property theorems are in Props/C09.lean).

  Everything lives in namespace `Mofun.Hist` (lemma names additionally start with `hist_` where they restate a
  general list fact) so that nothing clashes with the lemma files of the other properties.
-/
import MofunModel.Model.Hist
import MofunModel.Proofs.DeleteLemmas

namespace Mofun.Hist

open Mofun

/-! ## the invariant -/

/-- one term kind is well formed inside an object with `n` atoms: every term refers to existing atoms only,
    every term's extra row has one entry per extra label of the kind, and the coefficient table is either
    absent for the whole kind or has an entry for every type id in use -/
def TermsWF (n : Nat) (t : TermTable) : Prop :=
  (∀ tm ∈ t.terms, (∀ x ∈ tm.atoms, x < n) ∧ tm.extra.length = t.xlabels.length)
  ∧ (t.coeffs = [] ∨ ∀ tm ∈ t.terms, tm.ty < t.coeffs.length)

instance (n : Nat) (t : TermTable) : Decidable (TermsWF n t) := by unfold TermsWF; infer_instance

/-- **the invariant of C09**: sizes consistent, every term refers to existing atoms, every type id in use has
    its type-level data (element, label, mass; pair coefficient and term coefficient when that table exists) -/
def WF (a : Atoms) : Prop :=
  (∀ r ∈ a.atoms, r.ty < a.typeElems.length ∧ r.extra.length = a.xlabels.length)
  ∧ a.typeElems.length ≤ a.typeLabels.length
  ∧ a.typeElems.length ≤ a.typeMasses.length
  ∧ (a.pairCoeffs = [] ∨ a.typeElems.length ≤ a.pairCoeffs.length)
  ∧ TermsWF a.atoms.length a.bonds
  ∧ TermsWF a.atoms.length a.angles
  ∧ TermsWF a.atoms.length a.dihedrals
  ∧ TermsWF a.atoms.length a.impropers

instance (a : Atoms) : Decidable (WF a) := by unfold WF; infer_instance

/-- every object held in a slot is well formed -/
def WFState (s : State) : Prop := ∀ (i : Nat) (a : Atoms), s[i]? = some (some a) → WF a

/-! ## the guards -/

/-- compatibility of one term kind for `extend` with default offsets (the property's clause "both tables cover
    their ids, or neither has a table, or one side has no terms of the kind", made exact): neither side has a
    coefficient table, or every side that has terms of the kind has a table (a side without terms may or may not
    have one).  Together with `TermsWF` of both sides "has a table" means "the table covers the ids in use". -/
def KindCompat (ta tb : TermTable) : Prop :=
  (ta.coeffs = [] ∧ tb.coeffs = [])
  ∨ ((ta.terms = [] ∨ ta.coeffs ≠ []) ∧ (tb.terms = [] ∨ tb.coeffs ≠ []))

instance (ta tb : TermTable) : Decidable (KindCompat ta tb) := by unfold KindCompat; infer_instance

/-- the same clause for the pair-coefficient tables (which are indexed by atom type id) -/
def PairCompat (a b : Atoms) : Prop :=
  (a.pairCoeffs = [] ∧ b.pairCoeffs = [])
  ∨ ((a.typeElems = [] ∨ a.pairCoeffs ≠ []) ∧ (b.typeElems = [] ∨ b.pairCoeffs ≠ []))

instance (a b : Atoms) : Decidable (PairCompat a b) := by unfold PairCompat; infer_instance

/-- `a.extend(b)` with default offsets is inside the property's quantifier -/
def Compat (a b : Atoms) : Prop :=
  PairCompat a b ∧ KindCompat a.bonds b.bonds ∧ KindCompat a.angles b.angles
  ∧ KindCompat a.dihedrals b.dihedrals ∧ KindCompat a.impropers b.impropers

instance (a b : Atoms) : Decidable (Compat a b) := by unfold Compat; infer_instance

/-- one kind of `OffsetsOk` -/
def KindOffsetOk (ta tb : TermTable) (off : Nat) : Prop :=
  ta.coeffs = [] ∨ ∀ tm ∈ tb.terms, tm.ty + off < ta.coeffs.length

instance (ta tb : TermTable) (off : Nat) : Decidable (KindOffsetOk ta tb off) := by
  unfold KindOffsetOk; infer_instance

/-- `a.extend(b, offsets=o)` with explicit offsets is inside the property's quantifier: the shifted type ids of
    `b` have their type-level data in the tables of `a` (which `extend` leaves untouched in this mode) -/
def OffsetsOk (a b : Atoms) (o : Offsets) : Prop :=
  (∀ r ∈ b.atoms, r.ty + o.atom < a.typeElems.length)
  ∧ KindOffsetOk a.bonds b.bonds o.bond ∧ KindOffsetOk a.angles b.angles o.angle
  ∧ KindOffsetOk a.dihedrals b.dihedrals o.dihedral ∧ KindOffsetOk a.impropers b.impropers o.improper

instance (a b : Atoms) (o : Offsets) : Decidable (OffsetsOk a b o) := by unfold OffsetsOk; infer_instance

/-- the guard of `extend` in either mode -/
def ExtendGuard (a b : Atoms) : Option Offsets → Prop
  | none => Compat a b
  | some o => OffsetsOk a b o

instance (a b : Atoms) (off : Option Offsets) : Decidable (ExtendGuard a b off) := by
  cases off <;> (unfold ExtendGuard; infer_instance)

/-! ## general list facts -/

theorem hist_mem_deleteIdx_go {α} (idx : List Nat) (l : List α) (off : Nat) (x : α)
    (h : x ∈ deleteIdx.go idx l off) : x ∈ l := by
  induction l generalizing off with
  | nil => simp [deleteIdx.go] at h
  | cons y ys ih =>
    unfold deleteIdx.go at h
    split at h
    · exact List.mem_cons_of_mem _ (ih _ h)
    · rcases List.mem_cons.mp h with rfl | h
      · exact List.mem_cons_self
      · exact List.mem_cons_of_mem _ (ih _ h)

/-- `np.delete` only removes rows -/
theorem hist_mem_deleteIdx {α} (idx : List Nat) (l : List α) (x : α) (h : x ∈ deleteIdx l idx) : x ∈ l :=
  hist_mem_deleteIdx_go idx l 0 x h

theorem hist_indexOf_lt {α} [DecidableEq α] (l : List α) (x : α) (j : Nat) (h : indexOf? l x = some j) :
    j < l.length := by
  induction l generalizing j with
  | nil => simp [indexOf?] at h
  | cons y ys ih =>
    unfold indexOf? at h
    split at h
    · cases h; simp
    · cases hq : indexOf? ys x with
      | none => simp [hq] at h
      | some k =>
        simp [hq] at h
        have := ih k hq
        simp; omega

theorem hist_lookupLast_mem_aux (m : List (Nat × Nat)) (k : Nat) (acc : Option Nat) (v : Nat)
    (h : m.foldl (fun acc kv => if kv.1 = k then some kv.2 else acc) acc = some v) :
    acc = some v ∨ ∃ kv ∈ m, kv.1 = k ∧ kv.2 = v := by
  induction m generalizing acc with
  | nil => left; simpa using h
  | cons p ps ih =>
    simp only [List.foldl_cons] at h
    rcases ih _ h with h1 | ⟨kv, hm, hk, hv⟩
    · by_cases hp : p.1 = k
      · simp [hp] at h1
        right; exact ⟨p, List.mem_cons_self, hp, h1⟩
      · simp [hp] at h1
        left; exact h1
    · right; exact ⟨kv, List.mem_cons_of_mem _ hm, hk, hv⟩

/-- a dict lookup returns a value stored in the dict -/
theorem hist_lookupLast_mem (m : List (Nat × Nat)) (k v : Nat) (h : lookupLast m k = some v) :
    ∃ kv ∈ m, kv.1 = k ∧ kv.2 = v := by
  rcases hist_lookupLast_mem_aux m k none v h with h1 | h1
  · cases h1
  · exact h1

theorem hist_length_padRow (row : List String) (w : Nat) (h : row.length ≤ w) : (padRow row w).length = w := by
  simp [padRow]; omega

theorem hist_length_matchRow (labels other : List String) (row : List String) :
    (matchRow labels other row).length = labels.length := by
  simp [matchRow]

theorem hist_length_mergeLabels_ge (mine theirs : List String) : mine.length ≤ (mergeLabels mine theirs).length := by
  simp [mergeLabels]

/-! ## deletion -/

/-- a surviving, re-mapped index points inside the shortened atom list -/
theorem hist_reindex_lt {α} (l : List α) (idx : List Nat) (hnd : idx.Nodup) (x : Nat) (hlt : x < l.length)
    (hx : x ∉ idx) : reindex (sortDesc idx) x < (deleteIdx l idx).length := by
  rw [reindex_eq_rank' idx hnd x hx]
  have h := deleteIdx_getElem? l idx hnd x hlt hx
  have hs : l[x]? = some l[x] := List.getElem?_eq_getElem hlt
  rw [hs] at h
  exact (List.getElem?_eq_some_iff.mp h).1

theorem termsWF_delete (n : Nat) (t : TermTable) (idx : List Nat) (hnd : idx.Nodup) {α} (l : List α)
    (hl : l.length = n) (h : TermsWF n t) : TermsWF (deleteIdx l idx).length (t.delete idx) := by
  obtain ⟨h1, h2⟩ := h
  have key : ∀ tm' ∈ (t.delete idx).terms, ∃ tm ∈ t.terms, (∀ x ∈ tm.atoms, x ∉ idx)
      ∧ tm'.atoms = tm.atoms.map (reindex (sortDesc idx)) ∧ tm'.ty = tm.ty ∧ tm'.extra = tm.extra := by
    intro tm' hm
    simp only [TermTable.delete, deleteTerms, List.mem_map, List.mem_filter] at hm
    obtain ⟨tm, ⟨hmem, hf⟩, rfl⟩ := hm
    refine ⟨tm, hmem, ?_, rfl, rfl, rfl⟩
    intro x hx hin
    simp at hf
    exact hf x hx hin
  refine ⟨?_, ?_⟩
  · intro tm' hm
    obtain ⟨tm, hmem, hs, ha, _, he⟩ := key tm' hm
    refine ⟨?_, ?_⟩
    · intro x' hx'
      rw [ha] at hx'
      obtain ⟨x, hx, rfl⟩ := List.mem_map.mp hx'
      exact hist_reindex_lt l idx hnd x (by rw [hl]; exact (h1 tm hmem).1 x hx) (hs x hx)
    · rw [he]; exact (h1 tm hmem).2
  · rcases h2 with h2 | h2
    · left; exact h2
    · right
      intro tm' hm
      obtain ⟨tm, hmem, _, _, hty, _⟩ := key tm' hm
      rw [hty]; exact h2 tm hmem

/-- `del a[idx]` (distinct indices) keeps an object well formed -/
theorem wf_delete_aux (a r : Atoms) (idx : List Nat) (hnd : idx.Nodup) (hwf : WF a)
    (h : a.delete idx = .ok r) : WF r := by
  unfold Atoms.delete at h
  split at h
  · cases h
  · cases h
    obtain ⟨ha, hl, hm, hp, hb, hang, hd, hi⟩ := hwf
    refine ⟨?_, hl, hm, hp, ?_, ?_, ?_, ?_⟩
    · intro r hr; exact ha r (hist_mem_deleteIdx idx a.atoms r hr)
    · exact termsWF_delete _ _ idx hnd a.atoms rfl hb
    · exact termsWF_delete _ _ idx hnd a.atoms rfl hang
    · exact termsWF_delete _ _ idx hnd a.atoms rfl hd
    · exact termsWF_delete _ _ idx hnd a.atoms rfl hi

theorem wf_pop_aux (a r : Atoms) (i : Int) (hwf : WF a) (h : a.pop i = .ok r) : WF r := by
  unfold Atoms.pop at h
  split at h
  · cases h
  · exact wf_delete_aux a r _ (by simp) hwf h

/-! ## subset -/

theorem termsWF_empty (n : Nat) : TermsWF n TermTable.empty := by
  refine ⟨?_, Or.inl rfl⟩
  intro tm hm; simp [TermTable.empty] at hm

theorem wf_getitem_aux (a r : Atoms) (idx : List Nat) (hwf : WF a) (h : a.getitem idx = .ok r) : WF r := by
  unfold Atoms.getitem at h
  split at h
  · cases h
  · split at h
    · cases h
    · cases h
      obtain ⟨ha, hl, hm, _, _⟩ := hwf
      refine ⟨?_, hl, hm, Or.inl rfl, termsWF_empty _, termsWF_empty _, termsWF_empty _, termsWF_empty _⟩
      intro r hr
      simp only [List.mem_filterMap] at hr
      obtain ⟨i, _, hi⟩ := hr
      cases hq : a.atoms[i]? with
      | none => simp [hq] at hi
      | some row =>
        simp [hq] at hi
        subst hi
        have hmem : row ∈ a.atoms := List.mem_of_getElem? hq
        exact ⟨(ha row hmem).1, by simp [Atoms.empty]⟩

/-! ## extension: the body of `Atoms.extend` with its intermediate values named -/

def extLabels (a1 b : Atoms) : List String := mergeLabels a1.xlabels b.xlabels

def extBx (a1 b : Atoms) : List (List String) :=
  b.atoms.map (fun r => matchRow (extLabels a1 b) b.xlabels r.extra)

def extPadded (a1 b : Atoms) : List AtomRow :=
  a1.atoms.map (fun r => { r with extra := padRow r.extra (extLabels a1 b).length })

def extUpdated (a1 : Atoms) (offs : Offsets) (b : Atoms) (map : List (Nat × Nat)) : List AtomRow :=
  let anyFields : Bool := a1.atoms.length * (extLabels a1 b).length > 0
  map.foldl (fun (rows : List AtomRow) kv =>
      match b.atoms[kv.1]?, rows[kv.2]? with
      | some br, some r =>
          rows.set kv.2 { r with ty := br.ty + offs.atom,
                                 extra := if anyFields then (extBx a1 b).getD kv.1 [] else r.extra }
      | _, _ => rows) (extPadded a1 b)

def extToAdd (b : Atoms) (map : List (Nat × Nat)) : List Nat :=
  (List.range b.atoms.length).filter (fun i => !(map.map (·.1)).contains i)

def extAdded (a1 : Atoms) (offs : Offsets) (b : Atoms) (map : List (Nat × Nat)) : List AtomRow :=
  (extToAdd b map).filterMap (fun i => match b.atoms[i]? with
      | some br => some { br with ty := br.ty + offs.atom, extra := (extBx a1 b).getD i [] }
      | none => none)

def extConv (n : Nat) (b : Atoms) (map : List (Nat × Nat)) : Nat → Option Nat := fun k =>
  match lookupLast map k with
  | some v => some v
  | none => (indexOf? (extToAdd b map) k).map (· + n)

/-- `Atoms.extend` after the type tables have been dealt with: `a1` = self with the tables to use,
    `offs` = the offsets to use -/
def extendCore (a1 : Atoms) (offs : Offsets) (b : Atoms) (map : List (Nat × Nat)) : Except Err Atoms :=
  if !(map.map (·.1)).Nodup' then .error .domain
  else if map.any (fun kv => kv.1 ≥ b.atoms.length || kv.2 ≥ a1.atoms.length) then .error .index
  else do
    let bonds ← a1.bonds.extendWith b.bonds offs.bond (extConv a1.atoms.length b map)
    let angles ← a1.angles.extendWith b.angles offs.angle (extConv a1.atoms.length b map)
    let dihedrals ← a1.dihedrals.extendWith b.dihedrals offs.dihedral (extConv a1.atoms.length b map)
    let impropers ← a1.impropers.extendWith b.impropers offs.improper (extConv a1.atoms.length b map)
    pure { a1 with
      atoms := extUpdated a1 offs b map ++ extAdded a1 offs b map
      xlabels := extLabels a1 b
      bonds := bonds, angles := angles, dihedrals := dihedrals, impropers := impropers }

theorem extend_none_eq_core (a b : Atoms) (map : List (Nat × Nat)) :
    a.extend b none map = extendCore (a.extendTypes b).1 (a.extendTypes b).2 b map := rfl

theorem extend_some_eq_core (a b : Atoms) (o : Offsets) (map : List (Nat × Nat)) :
    a.extend b (some o) map = extendCore a o b map := rfl

/-! ### one term kind -/

def padTerm (w : Nat) (t : Term) : Term := { t with extra := padRow t.extra w }

def mkNewTerm (labels olabels : List String) (off : Nat) (conv : Nat → Option Nat) (t : Term) : Term :=
  { atoms := t.atoms.map (fun a => (conv a).getD 0), ty := t.ty + off, extra := matchRow labels olabels t.extra }

theorem termsWF_extendWith (mine other res : TermTable) (off : Nat) (conv : Nat → Option Nat) (n n' : Nat)
    (h : mine.extendWith other off conv = .ok res)
    (hm : TermsWF n mine) (hn : n ≤ n')
    (hconv : ∀ k v, conv k = some v → v < n')
    (hids : KindOffsetOk mine other off) : TermsWF n' res := by
  obtain ⟨hm1, hm2⟩ := hm
  have hw : mine.xlabels.length ≤ (mergeLabels mine.xlabels other.xlabels).length :=
    hist_length_mergeLabels_ge _ _
  -- facts about the widened rows of self
  have hpad : ∀ tm ∈ mine.terms.map (padTerm (mergeLabels mine.xlabels other.xlabels).length),
      ((∀ x ∈ tm.atoms, x < n') ∧ tm.extra.length = (mergeLabels mine.xlabels other.xlabels).length)
      ∧ ∃ t ∈ mine.terms, tm.ty = t.ty := by
    intro tm htm
    obtain ⟨t, ht, rfl⟩ := List.mem_map.mp htm
    refine ⟨⟨?_, ?_⟩, t, ht, rfl⟩
    · intro x hx; exact Nat.lt_of_lt_of_le ((hm1 t ht).1 x hx) hn
    · exact hist_length_padRow _ _ (by rw [(hm1 t ht).2]; exact hw)
  have hcoef_mine : mine.coeffs = [] ∨ ∀ tm ∈ mine.terms.map (padTerm (mergeLabels mine.xlabels other.xlabels).length),
      tm.ty < mine.coeffs.length := by
    rcases hm2 with h0 | h0
    · left; exact h0
    · right; intro tm htm
      obtain ⟨t, ht, hty⟩ := (hpad tm htm).2
      rw [hty]; exact h0 t ht
  unfold TermTable.extendWith at h
  simp only at h
  split at h
  · cases h
    refine ⟨fun tm htm => (hpad tm htm).1, hcoef_mine⟩
  · split at h
    · cases h
    · rename_i hnone
      cases h
      have hall : ∀ t ∈ other.terms, ∀ a ∈ t.atoms, ∃ v, conv a = some v := by
        intro t ht a ha
        cases hc : conv a with
        | some v => exact ⟨v, rfl⟩
        | none =>
          exfalso; apply hnone
          exact List.any_eq_true.mpr ⟨t, ht, List.any_eq_true.mpr ⟨a, ha, by simp [hc]⟩⟩
      have hnew : ∀ tm ∈ other.terms.map (mkNewTerm (mergeLabels mine.xlabels other.xlabels) other.xlabels off conv),
          ((∀ x ∈ tm.atoms, x < n') ∧ tm.extra.length = (mergeLabels mine.xlabels other.xlabels).length)
          ∧ ∃ t ∈ other.terms, tm.ty = t.ty + off := by
        intro tm htm
        obtain ⟨t, ht, rfl⟩ := List.mem_map.mp htm
        refine ⟨⟨?_, hist_length_matchRow _ _ _⟩, t, ht, rfl⟩
        intro x hx
        obtain ⟨a, ha, rfl⟩ := List.mem_map.mp hx
        obtain ⟨v, hv⟩ := hall t ht a ha
        rw [hv]; exact hconv a v hv
      refine ⟨?_, ?_⟩
      · intro tm htm
        have hmem := hist_mem_deleteIdx _ _ tm htm
        rcases List.mem_append.mp hmem with h1 | h1
        · exact (hpad tm h1).1
        · exact (hnew tm h1).1
      · rcases hids with h0 | h0
        · left; exact h0
        · right
          intro tm htm
          have hmem := hist_mem_deleteIdx _ _ tm htm
          rcases List.mem_append.mp hmem with h1 | h1
          · rcases hcoef_mine with hc | hc
            · -- the table is empty but `hids` gave a bound below its length: no terms of the other kind can exist
              obtain ⟨t, ht, hty⟩ := (hpad tm h1).2
              rcases hm2 with hm2 | hm2
              · rw [hty]
                -- mine.coeffs = [] contradicts nothing by itself; use the left alternative of the goal instead
                exfalso
                -- other has at least one term (the branch taken), whose bound `h0` is impossible for an empty table
                rename_i hne
                cases hot : other.terms with
                | nil => simp [hot] at hne
                | cons t0 _ =>
                  have := h0 t0 (by rw [hot]; exact List.mem_cons_self)
                  rw [hc] at this; simp at this
              · rw [hty]; exact hm2 t ht
            · exact hc tm h1
          · obtain ⟨t, ht, hty⟩ := (hnew tm h1).2
            rw [hty]; exact h0 t ht

/-! ### the atoms -/

theorem hist_length_filterMap {α β} (f : α → Option β) (l : List α) (h : ∀ x ∈ l, (f x).isSome = true) :
    (l.filterMap f).length = l.length := by
  induction l with
  | nil => rfl
  | cons x xs ih =>
    have hx := h x List.mem_cons_self
    cases hf : f x with
    | none => simp [hf] at hx
    | some y =>
      rw [List.filterMap_cons, hf]
      simp only [List.length_cons]
      rw [ih (fun z hz => h z (List.mem_cons_of_mem _ hz))]

theorem hist_foldl_inv {α β} (P : α → Prop) (f : α → β → α) (l : List β) (init : α) (h0 : P init)
    (hs : ∀ acc x, P acc → P (f acc x)) : P (l.foldl f init) := by
  induction l generalizing init with
  | nil => exact h0
  | cons x xs ih => exact ih _ (hs _ _ h0)

theorem extBx_getD (a1 b : Atoms) (i : Nat) (br : AtomRow) (h : b.atoms[i]? = some br) :
    ((extBx a1 b).getD i []).length = (extLabels a1 b).length := by
  have : (extBx a1 b)[i]? = some (matchRow (extLabels a1 b) b.xlabels br.extra) := by
    simp [extBx, List.getElem?_map, h]
  simp [List.getD, this, hist_length_matchRow]

theorem extPadded_spec (a1 b : Atoms) (N : Nat)
    (h0 : ∀ r ∈ a1.atoms, r.ty < N ∧ r.extra.length = a1.xlabels.length) :
    (extPadded a1 b).length = a1.atoms.length
    ∧ ∀ r ∈ extPadded a1 b, r.ty < N ∧ r.extra.length = (extLabels a1 b).length := by
  refine ⟨by simp [extPadded], ?_⟩
  intro r hr
  obtain ⟨r0, hr0, rfl⟩ := List.mem_map.mp hr
  refine ⟨(h0 r0 hr0).1, ?_⟩
  exact hist_length_padRow _ _ (by rw [(h0 r0 hr0).2]; exact hist_length_mergeLabels_ge _ _)

theorem extUpdated_spec (a1 : Atoms) (offs : Offsets) (b : Atoms) (map : List (Nat × Nat)) (N : Nat)
    (h0 : ∀ r ∈ a1.atoms, r.ty < N ∧ r.extra.length = a1.xlabels.length)
    (hb : ∀ r ∈ b.atoms, r.ty + offs.atom < N) :
    (extUpdated a1 offs b map).length = a1.atoms.length
    ∧ ∀ r ∈ extUpdated a1 offs b map, r.ty < N ∧ r.extra.length = (extLabels a1 b).length := by
  unfold extUpdated
  apply hist_foldl_inv (fun rows : List AtomRow => rows.length = a1.atoms.length
      ∧ ∀ r ∈ rows, r.ty < N ∧ r.extra.length = (extLabels a1 b).length)
  · exact extPadded_spec a1 b N h0
  · intro rows kv ⟨hlen, hrows⟩
    split
    · rename_i br r hbr hr
      refine ⟨by simp [hlen], ?_⟩
      intro x hx
      rcases List.mem_or_eq_of_mem_set hx with hx | rfl
      · exact hrows x hx
      · refine ⟨hb br (List.mem_of_getElem? hbr), ?_⟩
        simp only
        split
        · exact extBx_getD a1 b kv.1 br hbr
        · exact (hrows r (List.mem_of_getElem? hr)).2
    · exact ⟨hlen, hrows⟩

theorem extToAdd_lt (b : Atoms) (map : List (Nat × Nat)) (i : Nat) (h : i ∈ extToAdd b map) :
    i < b.atoms.length := by
  simp [extToAdd] at h; exact h.1

theorem extAdded_spec (a1 : Atoms) (offs : Offsets) (b : Atoms) (map : List (Nat × Nat)) (N : Nat)
    (hb : ∀ r ∈ b.atoms, r.ty + offs.atom < N) :
    (extAdded a1 offs b map).length = (extToAdd b map).length
    ∧ ∀ r ∈ extAdded a1 offs b map, r.ty < N ∧ r.extra.length = (extLabels a1 b).length := by
  refine ⟨?_, ?_⟩
  · unfold extAdded
    apply hist_length_filterMap
    intro i hi
    have hlt := extToAdd_lt b map i hi
    have : b.atoms[i]? = some b.atoms[i] := List.getElem?_eq_getElem hlt
    simp [this]
  · intro r hr
    unfold extAdded at hr
    obtain ⟨i, _, hi⟩ := List.mem_filterMap.mp hr
    cases hq : b.atoms[i]? with
    | none => simp [hq] at hi
    | some br =>
      simp [hq] at hi
      subst hi
      exact ⟨hb br (List.mem_of_getElem? hq), extBx_getD a1 b i br hq⟩

theorem extConv_lt (n : Nat) (b : Atoms) (map : List (Nat × Nat)) (hmap : ∀ kv ∈ map, kv.2 < n)
    (k v : Nat) (h : extConv n b map k = some v) : v < n + (extToAdd b map).length := by
  unfold extConv at h
  split at h
  · rename_i v' hl
    cases h
    obtain ⟨kv, hkv, _, rfl⟩ := hist_lookupLast_mem map k v hl
    have := hmap kv hkv; omega
  · cases hq : indexOf? (extToAdd b map) k with
    | none => simp [hq] at h
    | some j =>
      simp [hq] at h
      have := hist_indexOf_lt _ _ _ hq
      omega

/-! ### the whole of `extend` after the type tables -/

theorem wf_extendCore (a1 b r : Atoms) (offs : Offsets) (map : List (Nat × Nat))
    (h : extendCore a1 offs b map = .ok r) (hwf : WF a1) (hok : OffsetsOk a1 b offs) :
    WF r ∧ r.typeElems = a1.typeElems ∧ r.typeLabels = a1.typeLabels ∧ r.typeMasses = a1.typeMasses
    ∧ r.pairCoeffs = a1.pairCoeffs ∧ r.bonds.coeffs = a1.bonds.coeffs ∧ r.angles.coeffs = a1.angles.coeffs
    ∧ r.dihedrals.coeffs = a1.dihedrals.coeffs ∧ r.impropers.coeffs = a1.impropers.coeffs
    ∧ r.cell = a1.cell := by
  obtain ⟨ha, hl, hm, hp, hbo, han, hdi, him⟩ := hwf
  obtain ⟨oa, ob, oan, od, oi⟩ := hok
  unfold extendCore at h
  split at h
  · cases h
  · split at h
    · cases h
    · rename_i _ hany
      have hmap : ∀ kv ∈ map, kv.2 < a1.atoms.length := by
        intro kv hkv
        have : ¬ (decide (kv.1 ≥ b.atoms.length) || decide (kv.2 ≥ a1.atoms.length)) = true :=
          fun hc => hany (List.any_eq_true.mpr ⟨kv, hkv, hc⟩)
        simp at this; omega
      have hupd := extUpdated_spec a1 offs b map a1.typeElems.length ha oa
      have hadd := extAdded_spec a1 offs b map a1.typeElems.length oa
      have hconv := extConv_lt a1.atoms.length b map hmap
      have hlen : (extUpdated a1 offs b map ++ extAdded a1 offs b map).length
          = a1.atoms.length + (extToAdd b map).length := by
        rw [List.length_append, hupd.1, hadd.1]
      cases hB : a1.bonds.extendWith b.bonds offs.bond (extConv a1.atoms.length b map) with
      | error e => simp [hB, bind, Except.bind] at h
      | ok bonds =>
        cases hA : a1.angles.extendWith b.angles offs.angle (extConv a1.atoms.length b map) with
        | error e => simp [hB, hA, bind, Except.bind] at h
        | ok angles =>
          cases hD : a1.dihedrals.extendWith b.dihedrals offs.dihedral (extConv a1.atoms.length b map) with
          | error e => simp [hB, hA, hD, bind, Except.bind] at h
          | ok dihedrals =>
            cases hI : a1.impropers.extendWith b.impropers offs.improper (extConv a1.atoms.length b map) with
            | error e => simp [hB, hA, hD, hI, bind, Except.bind] at h
            | ok impropers =>
              simp [hB, hA, hD, hI, bind, Except.bind, pure, Except.pure] at h
              subst h
              have coeffs_eq : ∀ (mine other res : TermTable) (off : Nat) (conv : Nat → Option Nat),
                  mine.extendWith other off conv = .ok res → res.coeffs = mine.coeffs := by
                intro mine other res off conv hh
                unfold TermTable.extendWith at hh
                simp only at hh
                split at hh
                · cases hh; rfl
                · split at hh
                  · cases hh
                  · cases hh; rfl
              refine ⟨⟨?_, hl, hm, hp, ?_, ?_, ?_, ?_⟩, rfl, rfl, rfl, rfl, coeffs_eq _ _ _ _ _ hB,
                coeffs_eq _ _ _ _ _ hA, coeffs_eq _ _ _ _ _ hD, coeffs_eq _ _ _ _ _ hI, rfl⟩
              · intro x hx
                rcases List.mem_append.mp hx with hx | hx
                · exact hupd.2 x hx
                · exact hadd.2 x hx
              · simp only [hlen]
                exact termsWF_extendWith _ _ _ _ _ _ _ hB hbo (Nat.le_add_right _ _) hconv ob
              · simp only [hlen]
                exact termsWF_extendWith _ _ _ _ _ _ _ hA han (Nat.le_add_right _ _) hconv oan
              · simp only [hlen]
                exact termsWF_extendWith _ _ _ _ _ _ _ hD hdi (Nat.le_add_right _ _) hconv od
              · simp only [hlen]
                exact termsWF_extendWith _ _ _ _ _ _ _ hI him (Nat.le_add_right _ _) hconv oi

/-! ## type counts and the merged type tables -/

theorem hist_le_maxNat (l : List Nat) (x : Nat) (h : x ∈ l) : x ≤ maxNat l := by
  induction l with
  | nil => cases h
  | cons y ys ih =>
    simp only [maxNat]
    rcases List.mem_cons.mp h with rfl | h
    · exact Nat.le_max_left _ _
    · exact Nat.le_trans (ih h) (Nat.le_max_right _ _)

theorem hist_maxNat_lt (l : List Nat) (m : Nat) (hm : 0 < m) (h : ∀ x ∈ l, x < m) : maxNat l < m := by
  induction l with
  | nil => simpa [maxNat] using hm
  | cons y ys ih =>
    simp only [maxNat]
    have h1 := h y List.mem_cons_self
    have h2 := ih (fun x hx => h x (List.mem_cons_of_mem _ hx))
    exact Nat.max_lt.mpr ⟨h1, h2⟩

/-- the type count never undercounts the table -/
theorem numTermTypes_ge_length (t : TermTable) : t.coeffs.length ≤ numTermTypes t := by
  unfold numTermTypes
  split
  · exact Nat.le_refl _
  · exact Nat.le_max_left _ _

/-- every type id in use is below the type count -/
theorem numTermTypes_gt_ids (t : TermTable) (tm : Term) (h : tm ∈ t.terms) : tm.ty < numTermTypes t := by
  unfold numTermTypes
  split
  · rename_i he
    have : t.terms = [] := by simpa using he
    rw [this] at h; cases h
  · have : tm.ty ≤ maxNat (t.terms.map (·.ty)) := hist_le_maxNat _ _ (List.mem_map.mpr ⟨tm, h, rfl⟩)
    have := Nat.le_max_right t.coeffs.length (maxNat (t.terms.map (·.ty)) + 1)
    omega

/-- **when the type count is the table length** (so that ids shifted by the count index the appended part of a
    merged table): exactly when the kind has no terms, or its table covers every id in use -/
theorem numTermTypes_eq_length_iff (t : TermTable) :
    numTermTypes t = t.coeffs.length ↔ (t.terms = [] ∨ ∀ tm ∈ t.terms, tm.ty < t.coeffs.length) := by
  constructor
  · intro h
    by_cases he : t.terms = []
    · left; exact he
    · right
      intro tm htm
      have := numTermTypes_gt_ids t tm htm
      omega
  · intro h
    unfold numTermTypes
    split
    · rfl
    · rename_i hne
      have hne' : t.terms ≠ [] := by simpa using hne
      rcases h with h | h
      · exact absurd h hne'
      · have hpos : 0 < t.coeffs.length := by
          cases ht : t.terms with
          | nil => exact absurd ht hne'
          | cons t0 _ =>
            have := h t0 (by rw [ht]; exact List.mem_cons_self)
            omega
        have : maxNat (t.terms.map (·.ty)) < t.coeffs.length := by
          apply hist_maxNat_lt _ _ hpos
          intro x hx
          obtain ⟨tm, htm, rfl⟩ := List.mem_map.mp hx
          exact h tm htm
        exact Nat.max_eq_left (by omega)

/-- one term kind of `extend_types` under the compatibility clause: self's terms stay well formed against the
    merged table, and the other's ids shifted by self's type count have their entry in the merged table -/
theorem kind_extendTypes (ta tb : TermTable) (n m : Nat) (hta : TermsWF n ta) (htb : TermsWF m tb)
    (hc : KindCompat ta tb) :
    TermsWF n { ta with coeffs := ta.coeffs ++ tb.coeffs }
    ∧ KindOffsetOk { ta with coeffs := ta.coeffs ++ tb.coeffs } tb (numTermTypes ta) := by
  obtain ⟨ha1, ha2⟩ := hta
  obtain ⟨_, hb2⟩ := htb
  rcases hc with ⟨hA, hB⟩ | ⟨hA, hB⟩
  · -- neither side has a table
    refine ⟨⟨ha1, Or.inl (by simp [hA, hB])⟩, Or.inl (by simp [hA, hB])⟩
  · have hcovA : ta.terms = [] ∨ ∀ tm ∈ ta.terms, tm.ty < ta.coeffs.length := by
      rcases hA with hA | hA
      · left; exact hA
      · rcases ha2 with h | h
        · exact absurd h hA
        · right; exact h
    have hnum : numTermTypes ta = ta.coeffs.length := (numTermTypes_eq_length_iff ta).mpr hcovA
    refine ⟨⟨ha1, Or.inr ?_⟩, Or.inr ?_⟩
    · intro tm htm
      simp only [List.length_append]
      rcases hcovA with h | h
      · rw [h] at htm; cases htm
      · have := h tm htm; omega
    · intro tm htm
      simp only [List.length_append]
      rw [hnum]
      rcases hB with hB | hB
      · rw [hB] at htm; cases htm
      · rcases hb2 with h | h
        · exact absurd h hB
        · have := h tm htm; omega

/-- `extend_types` under `Compat`: the result is well formed and the returned offsets are `OffsetsOk` -/
theorem wf_extendTypes (a b : Atoms) (hwa : WF a) (hwb : WF b) (hc : Compat a b) :
    WF (a.extendTypes b).1 ∧ OffsetsOk (a.extendTypes b).1 b (a.extendTypes b).2 := by
  obtain ⟨ha, hl, hm, hp, hbo, han, hdi, him⟩ := hwa
  obtain ⟨hb, hl', hm', hp', hbo', han', hdi', him'⟩ := hwb
  obtain ⟨cp, cb, ca, cd, ci⟩ := hc
  have kb := kind_extendTypes _ _ _ _ hbo hbo' cb
  have ka := kind_extendTypes _ _ _ _ han han' ca
  have kd := kind_extendTypes _ _ _ _ hdi hdi' cd
  have ki := kind_extendTypes _ _ _ _ him him' ci
  refine ⟨⟨?_, ?_, ?_, ?_, kb.1, ka.1, kd.1, ki.1⟩, ?_, kb.2, ka.2, kd.2, ki.2⟩
  · intro r hr
    have := ha r hr
    simp only [Atoms.extendTypes, List.length_append]
    exact ⟨by omega, this.2⟩
  · simp only [Atoms.extendTypes, List.length_append]; omega
  · simp only [Atoms.extendTypes, List.length_append]; omega
  · simp only [Atoms.extendTypes]
    rcases cp with ⟨h1, h2⟩ | ⟨h1, h2⟩
    · left; simp [h1, h2]
    · right
      simp only [List.length_append]
      have e1 : a.typeElems.length ≤ a.pairCoeffs.length := by
        rcases h1 with h | h
        · simp [h]
        · rcases hp with hp | hp
          · exact absurd hp h
          · exact hp
      have e2 : b.typeElems.length ≤ b.pairCoeffs.length := by
        rcases h2 with h | h
        · simp [h]
        · rcases hp' with hp' | hp'
          · exact absurd hp' h
          · exact hp'
      omega
  · intro r hr
    have := (hb r hr).1
    simp only [Atoms.extendTypes, Atoms.offsets, numAtomTypes, List.length_append]
    omega

/-- `a.extend(b, offsets, map)` keeps an object well formed (either mode, under its guard) -/
theorem wf_extend_aux (a b r : Atoms) (off : Option Offsets) (map : List (Nat × Nat))
    (hwa : WF a) (hwb : WF b) (hg : ExtendGuard a b off) (h : a.extend b off map = .ok r) : WF r := by
  cases off with
  | none =>
    rw [extend_none_eq_core] at h
    obtain ⟨h1, h2⟩ := wf_extendTypes a b hwa hwb hg
    exact (wf_extendCore _ b r _ map h h1 h2).1
  | some o =>
    rw [extend_some_eq_core] at h
    exact (wf_extendCore a b r o map h hwa hg).1

/-! ## replication -/

/-- the type-level tables of two objects are the same lists -/
def SameTables (r a : Atoms) : Prop :=
  r.typeElems = a.typeElems ∧ r.typeLabels = a.typeLabels ∧ r.typeMasses = a.typeMasses
  ∧ r.pairCoeffs = a.pairCoeffs ∧ r.bonds.coeffs = a.bonds.coeffs ∧ r.angles.coeffs = a.angles.coeffs
  ∧ r.dihedrals.coeffs = a.dihedrals.coeffs ∧ r.impropers.coeffs = a.impropers.coeffs

/-- a translated copy of `a` may be appended with offsets `(0,0,0,0,0)` to anything that has `a`'s tables -/
theorem offsetsOk_translate (a r : Atoms) (d : Vec3) (hwf : WF a) (hs : SameTables r a) :
    OffsetsOk r (a.translate d) Offsets.zero := by
  obtain ⟨ha, _, _, _, hbo, han, hdi, him⟩ := hwf
  obtain ⟨s1, _, _, _, s5, s6, s7, s8⟩ := hs
  have kind : ∀ (tr ta : TermTable) (n : Nat), TermsWF n ta → tr.coeffs = ta.coeffs → KindOffsetOk tr ta 0 := by
    intro tr ta n hta he
    rcases hta.2 with h | h
    · left; rw [he]; exact h
    · right; intro tm htm; rw [he]; simpa using h tm htm
  refine ⟨?_, kind _ _ _ hbo s5, kind _ _ _ han s6, kind _ _ _ hdi s7, kind _ _ _ him s8⟩
  intro row hrow
  simp only [Atoms.translate, List.mem_map] at hrow
  obtain ⟨r0, hr0, rfl⟩ := hrow
  rw [s1]; simpa [Offsets.zero] using (ha r0 hr0).1

theorem wf_replicate_aux (a r : Atoms) (da db dc : Nat) (hwf : WF a) (h : a.replicate da db dc = .ok r) :
    WF r := by
  unfold Atoms.replicate at h
  split at h
  · cases h
  · rename_i cell _
    simp only at h
    have inv : ∀ ms : List (Nat × Nat × Nat), ∀ r0,
        ms.foldl (fun (acc : Except Err Atoms) (m : Nat × Nat × Nat) =>
          match acc with
          | .error e => .error e
          | .ok r => r.extend (a.translate (cell.lattice m.1 m.2.1 m.2.2)) (some Offsets.zero) []) (.ok a) = .ok r0
        → WF r0 ∧ SameTables r0 a := by
      intro ms
      apply hist_foldl_inv (fun acc : Except Err Atoms => ∀ r0, acc = .ok r0 → WF r0 ∧ SameTables r0 a)
      · intro r0 h0; cases h0
        exact ⟨hwf, rfl, rfl, rfl, rfl, rfl, rfl, rfl, rfl⟩
      · intro acc m hacc r1 h1
        cases acc with
        | error e => simp at h1
        | ok r0 =>
          obtain ⟨hw0, hs0⟩ := hacc r0 rfl
          simp only at h1
          rw [extend_some_eq_core] at h1
          have hok := offsetsOk_translate a r0 (cell.lattice m.1 m.2.1 m.2.2) hwf hs0
          obtain ⟨hw1, e1, e2, e3, e4, e5, e6, e7, e8, _⟩ := wf_extendCore r0 _ r1 _ [] h1 hw0 hok
          obtain ⟨s1, s2, s3, s4, s5, s6, s7, s8⟩ := hs0
          exact ⟨hw1, e1.trans s1, e2.trans s2, e3.trans s3, e4.trans s4, e5.trans s5, e6.trans s6,
            e7.trans s7, e8.trans s8⟩
    split at h
    · cases h
    · rename_i r0 hr0
      cases h
      exact (inv _ r0 hr0).1

/-! ## histories -/

/-- `ExtendGuard` on the contents of two slots (true when a slot is empty: `step` fails then) -/
def slotGuard (x y : Option (Option Atoms)) (off : Option Offsets) : Prop :=
  match x, y with
  | some (some a), some (some b) => ExtendGuard a b off
  | _, _ => True

instance (x y : Option (Option Atoms)) (off : Option Offsets) : Decidable (slotGuard x y off) := by
  unfold slotGuard; split <;> infer_instance

/-- the guard of one op in a state = the property's quantifier for that op: a constructed object is consistent,
    deletion indices are distinct, an `extend` is compatible (`ExtendGuard` on the two objects involved).
    Index validity is not part of the guard: an invalid index makes `step` fail, as it makes the code raise. -/
def GuardedOp (s : State) : Op → Prop
  | .construct _ a => WF a
  | .copy _ _ => True
  | .delete _ idx => idx.Nodup
  | .pop _ _ => True
  | .extend dst src off _ => slotGuard s[dst]? s[src]? off
  | .replicate _ _ _ _ _ => True
  | .getitem _ _ _ => True

instance (s : State) (op : Op) : Decidable (GuardedOp s op) := by
  cases op <;> unfold GuardedOp <;> infer_instance

/-- every op of the history satisfies its guard in the state in which it is executed -/
def GuardedRun (s : State) : List Op → Prop
  | [] => True
  | op :: rest =>
    GuardedOp s op ∧
    match step s op with
    | .ok s' => GuardedRun s' rest
    | .error _ => True

instance decGuardedRun : (s : State) → (ops : List Op) → Decidable (GuardedRun s ops)
  | _, [] => isTrue trivial
  | s, op :: rest =>
    match h : step s op with
    | .ok s' =>
      have := decGuardedRun s' rest
      by unfold GuardedRun; rw [h]; exact inferInstance
    | .error _ => by unfold GuardedRun; rw [h]; exact inferInstance

theorem getSlot_ok (s : State) (i : Nat) (a : Atoms) (h : getSlot s i = .ok a) : s[i]? = some (some a) := by
  unfold getSlot at h
  split at h
  · rename_i a' hq; cases h; exact hq
  · cases h

theorem wfState_put (s s' : State) (i : Nat) (a : Atoms) (hs : WFState s) (ha : WF a)
    (h : putSlot s i a = .ok s') : WFState s' := by
  unfold putSlot at h
  split at h
  · cases h
    rename_i hlt
    intro j b hj
    by_cases hij : i = j
    · subst hij
      simp [hlt] at hj
      subst hj; exact ha
    · rw [List.getElem?_set_ne hij] at hj
      exact hs j b hj
  · cases h

theorem putSlot_length (s s' : State) (i : Nat) (a : Atoms) (h : putSlot s i a = .ok s') :
    s'.length = s.length := by
  unfold putSlot at h
  split at h
  · cases h; simp
  · cases h

end Mofun.Hist
