/-
  SelfReplaceRoundtrip.lean — single-site substitution `X → Y` (one-atom patterns at the same coordinates, different
  elements) through `replaceCore`, as a closed formula on the list of (element, position) pairs; used twice for the
  round trip `A → B → A` (C08).
-/
import MofunModel.Proofs.SelfReplaceLemmas
import MofunModel.Props.C10

namespace Mofun.C08

open Mofun

/-! ### `replaceCore … (replace_all := false)` as a fold, for any replacement pattern -/

def coreStep (s p r : Atoms) (ignore : Bool) (acc : Except Err ReplaceState) (m : PlacedMatch) :
    Except Err ReplaceState :=
  match acc with
  | .error e => .error e
  | .ok st =>
    match st.s.extend (placeAtoms s.cell (firstPos p) r m) (some (s.extendTypes r).2)
        ((unchangedPairs r p).map (fun kv => (kv.1, m.idx.getD kv.2 0))) with
    | .error e => .error e
    | .ok s' =>
      if (toDeleteOf m (((unchangedPairs r p).map (fun kv => (kv.1, m.idx.getD kv.2 0))).map (·.2))).all
            (fun i => !st.del.contains i) || ignore then
        .ok { s := s', del := st.del ++ (toDeleteOf m (((unchangedPairs r p).map
                (fun kv => (kv.1, m.idx.getD kv.2 0))).map (·.2))).filter (fun i => !st.del.contains i) }
      else .error .overlap

theorem replaceCore_fold (s p r : Atoms) (ms : List PlacedMatch) (ignore : Bool) (hne : r.atoms.isEmpty = false) :
    replaceCore s p r ms false ignore =
      (match ms.foldl (coreStep s p r ignore) (.ok { s := (s.extendTypes r).1, del := [] }) with
       | .error e => .error e
       | .ok st => st.s.delete st.del) := by
  unfold replaceCore
  simp only [hne, Bool.false_eq_true, if_false]
  rfl

/-! ### one-atom patterns -/

/-- (type id, position) of a row: what determines (element, position) -/
def tp (r : AtomRow) : Nat × Vec3 := (r.ty, r.pos)

/-- different elements: nothing is shared between the two site patterns -/
theorem unchangedPairs_site (x y : Atoms) (rx ry : AtomRow) (hx : x.atoms = [rx]) (hy : y.atoms = [ry])
    (hne : y.elemOf 0 ≠ x.elemOf 0) : unchangedPairs y x = [] := by
  unfold unchangedPairs
  simp only [hx, hy, List.length_cons, List.length_nil, Nat.zero_add]
  have h1 : List.range 1 = [0] := rfl
  simp only [h1, List.filterMap_cons, List.filterMap_nil, List.getElem?_cons_zero, List.find?_cons, List.find?_nil]
  simp [hne]

/-- `extend` by a single, term-free atom with an empty index map appends exactly that atom -/
theorem extend_append1 (a b : Atoms) (offs : Offsets) (br : AtomRow) (hb : b.atoms = [br])
    (hnt : b.bonds.terms = [] ∧ b.angles.terms = [] ∧ b.dihedrals.terms = [] ∧ b.impropers.terms = []) :
    ∃ r, a.extend b (some offs) [] = .ok r ∧ r.typeElems = a.typeElems ∧ r.cell = a.cell ∧
      r.atoms.map tp = a.atoms.map tp ++ [(br.ty + offs.atom, br.pos)] := by
  obtain ⟨h1, h2, h3, h4⟩ := hnt
  unfold Atoms.extend
  simp only [List.map_nil, List.Nodup', Bool.not_true, Bool.false_eq_true, if_false, List.any_nil, List.foldl_nil,
    hb, List.length_cons, List.length_nil, Nat.zero_add]
  have hr : List.range 1 = [0] := rfl
  simp only [hr, List.contains_nil, Bool.not_false, List.filter_cons, if_true, List.filter_nil,
    List.filterMap_cons, List.getElem?_cons_zero, List.filterMap_nil]
  rw [extendWith_noTerms _ _ _ _ h1, extendWith_noTerms _ _ _ _ h2, extendWith_noTerms _ _ _ _ h3,
    extendWith_noTerms _ _ _ _ h4]
  simp only [bind, Except.bind, pure, Except.pure]
  refine ⟨_, rfl, rfl, rfl, ?_⟩
  simp [tp, List.map_map, Function.comp_def]

/-- the hypotheses of a single-site substitution `x → y` in `s` -/
structure SiteHyp (s x y : Atoms) (L : Mat3) (rx ry : AtomRow) : Prop where
  cell : s.cell = some L
  hx : x.atoms = [rx]
  hy : y.atoms = [ry]
  same : ry.pos = rx.pos
  diff : y.elemOf 0 ≠ x.elemOf 0
  noTerms : y.bonds.terms = [] ∧ y.angles.terms = [] ∧ y.dihedrals.terms = [] ∧ y.impropers.terms = []

theorem add_zero_left (t : Vec3) : Vec3.add Vec3.zero t = t := by
  apply Mofun.C05.vec3_ext <;> simp [Vec3.add, Vec3.zero]

/-- the one placed atom: the replacement atom at the wrapped matched position, whatever the rotation -/
theorem placeAtoms_site (s x y : Atoms) (L : Mat3) (rx ry : AtomRow) (h : SiteHyp s x y L rx ry) (m : PlacedMatch) :
    (placeAtoms s.cell (firstPos x) y m).atoms = [{ ry with pos := L.wrap (m.pos.getD 0 Vec3.zero) }] := by
  have hf : firstPos x = rx.pos := by simp [firstPos, h.hx]
  simp only [placeAtoms, h.cell, h.hy, List.map_cons, List.map_nil, hf, h.same, Mofun.C05.sub_self,
    Mofun.C05.rot_zero, add_zero_left]

theorem dedup_singleton (i : Nat) : dedup [i] = [i] := by simp [dedup]

/-- one iteration for a match `[i]` whose atom is not yet scheduled for deletion -/
theorem coreStep_site (s x y : Atoms) (L : Mat3) (rx ry : AtomRow) (h : SiteHyp s x y L rx ry) (ignore : Bool)
    (st : ReplaceState) (m : PlacedMatch) (i : Nat) (hm : m.idx = [i]) (hi : i ∉ st.del) :
    ∃ st', coreStep s x y ignore (.ok st) m = .ok st' ∧
      st'.s.atoms.map tp = st.s.atoms.map tp ++ [(ry.ty + (s.extendTypes y).2.atom, L.wrap (m.pos.getD 0 Vec3.zero))] ∧
      st'.del = st.del ++ [i] ∧ st'.s.typeElems = st.s.typeElems ∧ st'.s.cell = st.s.cell := by
  have hup := unchangedPairs_site x y rx ry h.hx h.hy h.diff
  obtain ⟨r1, r2, r3, r4, _, _⟩ := Mofun.C05.placeAtoms_rest s.cell (firstPos x) y m
  obtain ⟨s', hs', ht', hc', ha'⟩ := extend_append1 st.s (placeAtoms s.cell (firstPos x) y m) (s.extendTypes y).2
    { ry with pos := L.wrap (m.pos.getD 0 Vec3.zero) } (placeAtoms_site s x y L rx ry h m)
    ⟨by rw [r1]; exact h.noTerms.1, by rw [r2]; exact h.noTerms.2.1, by rw [r3]; exact h.noTerms.2.2.1,
     by rw [r4]; exact h.noTerms.2.2.2⟩
  have htd : toDeleteOf m [] = [i] := by
    simp [toDeleteOf, hm, dedup_singleton]
  refine ⟨{ s := s', del := st.del ++ [i] }, ?_, ha', rfl, ht', hc'⟩
  unfold coreStep
  simp only [hup, List.map_nil, hs', htd, List.all_cons, List.all_nil, Bool.and_true]
  simp [hi]

/-- the whole loop: the matched atoms are scheduled for deletion, one replacement atom per match is appended -/
theorem fold_site (s x y : Atoms) (L : Mat3) (rx ry : AtomRow) (h : SiteHyp s x y L rx ry) (ignore : Bool)
    (ms : List PlacedMatch) (st : ReplaceState)
    (hms : ∀ m ∈ ms, m.idx = [m.idx.getD 0 0])
    (hnd : (st.del ++ ms.map (fun m => m.idx.getD 0 0)).Nodup) :
    ∃ st', ms.foldl (coreStep s x y ignore) (.ok st) = .ok st' ∧
      st'.s.atoms.map tp = st.s.atoms.map tp ++
        ms.map (fun m => (ry.ty + (s.extendTypes y).2.atom, L.wrap (m.pos.getD 0 Vec3.zero))) ∧
      st'.del = st.del ++ ms.map (fun m => m.idx.getD 0 0) ∧ st'.s.typeElems = st.s.typeElems ∧
      st'.s.cell = st.s.cell := by
  induction ms generalizing st with
  | nil => exact ⟨st, rfl, by simp, by simp, rfl, rfl⟩
  | cons m rest ih =>
    have hi : m.idx.getD 0 0 ∉ st.del := by
      intro hmem
      have := List.nodup_append.mp hnd
      exact this.2.2 _ hmem _ (by simp) rfl
    obtain ⟨st1, h1, ha1, hd1, ht1, hc1⟩ := coreStep_site s x y L rx ry h ignore st m _ (hms m (by simp)) hi
    have hnd1 : (st1.del ++ rest.map (fun m => m.idx.getD 0 0)).Nodup := by
      rw [hd1]; simpa [List.append_assoc] using hnd
    obtain ⟨st2, h2, ha2, hd2, ht2, hc2⟩ := ih st1 (fun m' hm' => hms m' (by simp [hm'])) hnd1
    refine ⟨st2, ?_, ?_, ?_, by rw [ht2, ht1], by rw [hc2, hc1]⟩
    · simp only [List.foldl_cons, h1, h2]
    · rw [ha2, ha1]; simp [List.append_assoc]
    · rw [hd2, hd1]; simp [List.append_assoc]

/-! ### the kept sub-list -/

/-- `l` without the positions listed in `idx` (the form in which C10's `delete_atoms` states `np.delete`) -/
def keepIdx {α} (l : List α) (idx : List Nat) : List α :=
  ((l.zipIdx).filter (fun p => !idx.contains p.2)).map (·.1)

theorem keepIdx_map {α β} (l : List α) (f : α → β) (idx : List Nat) :
    keepIdx (l.map f) idx = (keepIdx l idx).map f := by
  unfold keepIdx
  rw [List.zipIdx_map, List.filter_map, List.map_map, List.map_map]
  rfl

theorem zipIdx_filter_ge {α} (l : List α) (k : Nat) (idx : List Nat) (h : ∀ i ∈ idx, i < k) :
    (l.zipIdx k).filter (fun p => !idx.contains p.2) = l.zipIdx k := by
  rw [List.filter_eq_self]
  intro p hp
  have hk : k ≤ p.2 := (List.mem_zipIdx (x := p.1) (i := p.2) hp).1
  simp only [Bool.not_eq_true', List.contains_eq_mem, decide_eq_false_iff_not]
  intro hmem
  have := h _ hmem
  omega

/-- positions behind the first list are all kept when every deleted index lies in the first list -/
theorem keepIdx_append_lt {α} (l₁ l₂ : List α) (idx : List Nat) (h : ∀ i ∈ idx, i < l₁.length) :
    keepIdx (l₁ ++ l₂) idx = keepIdx l₁ idx ++ l₂ := by
  unfold keepIdx
  rw [List.zipIdx_append, List.filter_append, List.map_append, Nat.zero_add, zipIdx_filter_ge l₂ _ idx h,
    List.zipIdx_map_fst]

theorem zipIdx_filter_block {α} (l : List α) (k : Nat) :
    (l.zipIdx k).filter (fun p => !((List.range l.length).map (k + ·)).contains p.2) = [] := by
  rw [List.filter_eq_nil_iff]
  intro p hp
  obtain ⟨h1, h2, _⟩ := List.mem_zipIdx (x := p.1) (i := p.2) hp
  simp only [Bool.not_eq_true', Bool.not_eq_false, List.contains_eq_mem, decide_eq_true_eq, List.mem_map,
    List.mem_range]
  exact ⟨p.2 - k, by omega, by omega⟩

/-- deleting exactly the appended block gives back the first list -/
theorem keepIdx_append_block {α} (l₁ l₂ : List α) :
    keepIdx (l₁ ++ l₂) ((List.range l₂.length).map (l₁.length + ·)) = l₁ := by
  unfold keepIdx
  rw [List.zipIdx_append, List.filter_append, List.map_append, Nat.zero_add, zipIdx_filter_block l₂ l₁.length]
  have : (l₁.zipIdx).filter (fun p => !((List.range l₂.length).map (l₁.length + ·)).contains p.2) = l₁.zipIdx := by
    rw [List.filter_eq_self]
    intro p hp
    have hlt : p.2 < l₁.length := by
      have := (List.mem_zipIdx (x := p.1) (i := p.2) hp).2.1
      omega
    simp only [Bool.not_eq_true', List.contains_eq_mem, decide_eq_false_iff_not, List.mem_map, List.mem_range,
      not_exists, not_and]
    intro j _ hj
    omega
  rw [this, List.zipIdx_map_fst]
  simp

theorem mem_of_mem_keepIdx {α} (l : List α) (idx : List Nat) (x : α) (h : x ∈ keepIdx l idx) : x ∈ l := by
  unfold keepIdx at h
  obtain ⟨p, hp, rfl⟩ := List.mem_map.mp h
  have hp' := (List.mem_filter.mp hp).1
  have := List.mem_zipIdx_iff_getElem?.mp hp'
  exact List.mem_of_getElem? this

/-- the list is a permutation of what is kept followed by what is deleted (distinct, valid positions) -/
theorem perm_keepIdx {α} (l : List α) (idx : List Nat) (d : α) (hnd : idx.Nodup) (hv : ∀ i ∈ idx, i < l.length) :
    l.Perm (keepIdx l idx ++ idx.map (fun i => l.getD i d)) := by
  have h1 : (l.zipIdx).Perm ((l.zipIdx).filter (fun p => !idx.contains p.2) ++
      (l.zipIdx).filter (fun p => !(!idx.contains p.2))) :=
    (List.filter_append_perm (fun p => !idx.contains p.2) l.zipIdx).symm
  have hzn : (l.zipIdx).Nodup := by
    have : (l.zipIdx.map Prod.snd).Nodup := by rw [List.zipIdx_map_snd]; exact List.nodup_range'
    exact List.Pairwise.of_map Prod.snd (fun a b hab heq => hab (by rw [heq])) this
  have h2 : ((l.zipIdx).filter (fun p => !(!idx.contains p.2))).Perm (idx.map (fun i => (l.getD i d, i))) := by
    apply (List.perm_ext_iff_of_nodup (List.Pairwise.filter _ hzn) ?_).mpr
    · intro p
      simp only [List.mem_filter, List.mem_zipIdx_iff_getElem?, Bool.not_not, List.contains_eq_mem,
        decide_eq_true_eq, List.mem_map]
      constructor
      · rintro ⟨hp, hi⟩
        refine ⟨p.2, hi, ?_⟩
        rw [List.getD_eq_getElem?_getD, hp]
        rfl
      · rintro ⟨i, hi, rfl⟩
        refine ⟨?_, hi⟩
        have := hv i hi
        simp [List.getD_eq_getElem?_getD, List.getElem?_eq_getElem this]
    · have hm : (idx.map (fun i => (l.getD i d, i))).map Prod.snd = idx := by
        rw [List.map_map]
        have : (Prod.snd ∘ fun i => (l.getD i d, i)) = id := rfl
        rw [this, List.map_id]
      have hnd' : ((idx.map (fun i => (l.getD i d, i))).map Prod.snd).Nodup := by rw [hm]; exact hnd
      exact List.Pairwise.of_map Prod.snd (fun a b hab heq => hab (by rw [heq])) hnd'
  have h3 := (h1.trans (List.Perm.append_left _ h2)).map Prod.fst
  rw [List.zipIdx_map_fst, List.map_append, List.map_map] at h3
  exact h3

/-! ### the closed formula of one single-site substitution -/

/-- the index a one-atom match names -/
def idx0 (m : PlacedMatch) : Nat := m.idx.getD 0 0
/-- the position a one-atom match names -/
def pos0 (m : PlacedMatch) : Vec3 := m.pos.getD 0 Vec3.zero

/-- **site_replace_spec**: `replaceCore s x y ms` for one-atom patterns at the same place with different elements:
    the rows (type id, position) of the result are the rows of `s` without the matched atoms, followed by one row
    per match: `y`'s type id (shifted behind `s`'s types) at the wrapped matched position -/
theorem site_replace_spec (s x y : Atoms) (L : Mat3) (rx ry : AtomRow) (h : SiteHyp s x y L rx ry) (ignore : Bool)
    (ms : List PlacedMatch) (hms : ∀ m ∈ ms, m.idx = [idx0 m]) (hnd : (ms.map idx0).Nodup)
    (hval : ∀ m ∈ ms, idx0 m < s.atoms.length) :
    ∃ r, replaceCore s x y ms false ignore = .ok r ∧ r.typeElems = s.typeElems ++ y.typeElems ∧ r.cell = s.cell ∧
      r.atoms.map tp = keepIdx (s.atoms.map tp) (ms.map idx0) ++
        ms.map (fun m => (ry.ty + s.typeElems.length, L.wrap (pos0 m))) := by
  have hne : y.atoms.isEmpty = false := by simp [h.hy]
  obtain ⟨st, hfold, hat, hdel, hte, hce⟩ := fold_site s x y L rx ry h ignore ms
    { s := (s.extendTypes y).1, del := [] } hms (by rw [List.nil_append]; exact hnd)
  have hat' : st.s.atoms.map tp = s.atoms.map tp ++ ms.map (fun m => (ry.ty + s.typeElems.length, L.wrap (pos0 m))) := hat
  have hdel' : st.del = ms.map idx0 := hdel.trans (List.nil_append _)
  have hlen : st.s.atoms.length = s.atoms.length + ms.length := by
    have := congrArg List.length hat'
    simpa using this
  have hok : ∃ r, st.s.delete st.del = .ok r := by
    apply (delete_ok_iff st.s st.del).mpr
    intro i hi
    rw [hdel'] at hi
    obtain ⟨m, hm, rfl⟩ := List.mem_map.mp hi
    have := hval m hm
    omega
  obtain ⟨r, hr⟩ := hok
  obtain ⟨ha, hte2, _, _, _, _, hce2, _⟩ := delete_atoms st.s r st.del hr
  refine ⟨r, ?_, by rw [hte2, hte]; rfl, by rw [hce2, hce]; rfl, ?_⟩
  · rw [replaceCore_fold s x y ms ignore hne, hfold]
    exact hr
  · have : r.atoms = keepIdx st.s.atoms st.del := ha
    rw [this, ← keepIdx_map, hat', hdel']
    apply keepIdx_append_lt
    intro i hi
    obtain ⟨m, hm, rfl⟩ := List.mem_map.mp hi
    simpa using hval m hm

end Mofun.C08
