/-
  SelfReplaceLemmas.lean — replacing a pattern by itself (C08):
    * `unchangedPairs p p` is the identity pairing when the atoms of `p` are pairwise distinct in
      (element, position);
    * `extend` with an index map that covers EVERY atom of the other structure (no atom is appended) and a
      term-free other structure keeps all atoms in place — only type ids / extra fields of mapped atoms change —
      and keeps all terms;
    * deleting the empty index set changes nothing.
  Core tactics only (the placement lemmas come from Proofs/PlaceLemmas.lean).
-/
import MofunModel.Model.Replace
import MofunModel.Proofs.PlaceLemmas

namespace Mofun.C08

open Mofun

/-! ### small list facts -/

theorem find?_range' (pred : Nat → Bool) (s n i : Nat) (h1 : s ≤ i) (h2 : i < s + n) (hp : pred i = true)
    (hlt : ∀ j, s ≤ j → j < i → pred j = false) : (List.range' s n).find? pred = some i := by
  induction n generalizing s with
  | zero => omega
  | succ n ih =>
    rw [List.range'_succ, List.find?_cons]
    by_cases hs : s = i
    · subst hs; simp [hp]
    · have : pred s = false := hlt s (Nat.le_refl _) (by omega)
      simp only [this]
      exact ih (s + 1) (by omega) (by omega) (fun j hj1 hj2 => hlt j (by omega) hj2)

theorem find?_range (pred : Nat → Bool) (n i : Nat) (hi : i < n) (hp : pred i = true)
    (hlt : ∀ j, j < i → pred j = false) : (List.range n).find? pred = some i := by
  rw [List.range_eq_range']
  exact find?_range' pred 0 n i (Nat.zero_le _) (by omega) hp (fun j _ hj => hlt j hj)

theorem filterMap_eq_map_of_some {α β} (l : List α) (f : α → Option β) (g : α → β)
    (h : ∀ x ∈ l, f x = some (g x)) : l.filterMap f = l.map g := by
  induction l with
  | nil => rfl
  | cons x xs ih =>
    rw [List.filterMap_cons, h x (by simp)]
    simp only [List.map_cons]
    rw [ih (fun y hy => h y (by simp [hy]))]

theorem deleteIdx_go_nil {α} (l : List α) (off : Nat) : deleteIdx.go [] l off = l := by
  induction l generalizing off with
  | nil => rfl
  | cons x xs ih => simp [deleteIdx.go, ih]

theorem deleteIdx_nil {α} (l : List α) : deleteIdx l [] = l := deleteIdx_go_nil l 0

theorem deleteTerms_nil (ts : List Term) : deleteTerms ts [] = ts := by
  have hm : ∀ t : Term, ({ t with atoms := t.atoms.map (reindex (sortDesc [])) } : Term) = t := by
    intro t
    have h1 : reindex (sortDesc []) = id := funext (fun _ => rfl)
    rw [h1, List.map_id]
  simp [deleteTerms, hm]

theorem delete_nil (a : Atoms) : a.delete [] = .ok a := by
  unfold Atoms.delete
  simp [TermTable.delete, deleteTerms_nil, deleteIdx_nil]

/-! ### the guards of the self-replacement theorem (all executable) -/

/-- the squared threshold of `find_unchanged_atom_pairs` (`max_delta = 1e-5`) -/
def eps2 : Rat := 1 / 10000000000

/-- the atoms of `p` are pairwise distinct in (element, position): no EARLIER atom of the same element lies
    within 1e-5 of a later one -/
def distinctAtoms (p : Atoms) : Bool :=
  (List.range p.atoms.length).all (fun i => (List.range i).all (fun j =>
    match p.atoms[i]?, p.atoms[j]? with
    | some ri, some rj => !(decide (distSq rj.pos ri.pos < eps2) && decide (p.elemOf i = p.elemOf j))
    | _, _ => true))

/-- the pattern carries no bonds / angles / dihedrals / impropers -/
def noTerms (p : Atoms) : Bool :=
  p.bonds.terms.isEmpty && p.angles.terms.isEmpty && p.dihedrals.terms.isEmpty && p.impropers.terms.isEmpty

/-- every atom's type id has an entry in the element table -/
def typesValid (s : Atoms) : Bool := s.atoms.all (fun r => decide (r.ty < s.typeElems.length))

/-- a match of `p` in `s` as the search reports it: one VALID index per pattern atom, and the element sequence of the
    matched atoms is the pattern's -/
def goodSelfMatch (s p : Atoms) (m : PlacedMatch) : Bool :=
  decide (m.idx.length = p.atoms.length) && m.idx.all (fun i => decide (i < s.atoms.length)) &&
  (List.range p.atoms.length).all (fun k => decide (s.elemOf (m.idx.getD k 0) = p.elemOf k))

/-- what a term says about the topology: its atom tuple and its type id (extra columns are re-padded by `extend`) -/
def termKeys (t : TermTable) : List (List Nat × Nat) := t.terms.map (fun u => (u.atoms, u.ty))

/-! ### `find_unchanged_atom_pairs(p, p)` -/

theorem distSq_self (v : Vec3) : distSq v v = 0 := by
  simp only [distSq, Vec3.normSq, Vec3.dot, Vec3.sub]; ring

theorem eps_pos : (0 : Rat) < 1 / 10000000000 := by decide +kernel

/-- **unchangedPairs_self**: every atom of the pattern is paired with itself -/
theorem unchangedPairs_self (p : Atoms) (hd : distinctAtoms p = true) :
    unchangedPairs p p = (List.range p.atoms.length).map (fun i => (i, i)) := by
  unfold unchangedPairs
  apply filterMap_eq_map_of_some
  intro i hi
  have hi' : i < p.atoms.length := List.mem_range.mp hi
  have hri : p.atoms[i]? = some p.atoms[i] := List.getElem?_eq_getElem hi'
  rw [hri]
  simp only
  rw [find?_range _ _ i hi']
  · rfl
  · simp only [hri, distSq_self, eps_pos, decide_true, Bool.and_self]
  · intro j hj
    have hj' : j < p.atoms.length := by omega
    have hrj : p.atoms[j]? = some p.atoms[j] := List.getElem?_eq_getElem hj'
    simp only [hrj]
    unfold distinctAtoms at hd
    have h1 := (List.all_eq_true.mp hd) i hi
    have h2 := (List.all_eq_true.mp h1) j (List.mem_range.mpr hj)
    simp only [hri, hrj, eps2, Bool.not_eq_true'] at h2
    exact h2

/-! ### `extend` with a map that covers every atom of a term-free other structure -/

theorem set_inv (rows : List AtomRow) (j : Nat) (x : AtomRow) (Q : Nat → AtomRow → Prop)
    (hQ : ∀ i r, rows[i]? = some r → Q i r) (hx : Q j x) : ∀ i r, (rows.set j x)[i]? = some r → Q i r := by
  intro i r h
  rw [List.getElem?_set] at h
  by_cases hji : j = i
  · subst hji
    simp only [if_true] at h
    split at h
    · cases h; exact hx
    · cases h
  · simp only [hji, if_false] at h
    exact hQ i r h

/-- the loop that lets mapped atoms adopt the other structure's type and extra fields: an invariant `Q i row` of
    every row survives, and the number of rows does not change -/
theorem foldl_adopt_inv (b : Atoms) (offA : Nat) (anyFields : Bool) (bx : List (List String))
    (Q : Nat → AtomRow → Prop) (map : List (Nat × Nat)) (rows : List AtomRow)
    (hQ : ∀ i r, rows[i]? = some r → Q i r)
    (hstep : ∀ kv ∈ map, ∀ br r e, b.atoms[kv.1]? = some br → Q kv.2 r →
        Q kv.2 { r with ty := br.ty + offA, extra := e }) :
    (map.foldl (fun (rows : List AtomRow) kv =>
        match b.atoms[kv.1]?, rows[kv.2]? with
        | some br, some r =>
            rows.set kv.2 { r with ty := br.ty + offA,
                                   extra := if anyFields then bx.getD kv.1 [] else r.extra }
        | _, _ => rows) rows).length = rows.length ∧
    ∀ i r, (map.foldl (fun (rows : List AtomRow) kv =>
        match b.atoms[kv.1]?, rows[kv.2]? with
        | some br, some r =>
            rows.set kv.2 { r with ty := br.ty + offA,
                                   extra := if anyFields then bx.getD kv.1 [] else r.extra }
        | _, _ => rows) rows)[i]? = some r → Q i r := by
  induction map generalizing rows with
  | nil => exact ⟨rfl, hQ⟩
  | cons kv rest ih =>
    simp only [List.foldl_cons]
    have hstep' : ∀ kv' ∈ rest, ∀ br r e, b.atoms[kv'.1]? = some br → Q kv'.2 r →
        Q kv'.2 { r with ty := br.ty + offA, extra := e } :=
      fun kv' h => hstep kv' (List.mem_cons_of_mem _ h)
    cases hb : b.atoms[kv.1]? with
    | none => exact ih rows hQ hstep'
    | some br =>
      cases hr : rows[kv.2]? with
      | none => exact ih rows hQ hstep'
      | some r =>
        have := ih (rows.set kv.2 _)
          (set_inv rows kv.2 _ Q hQ (hstep kv (List.mem_cons_self) br r
            (if anyFields then bx.getD kv.1 [] else r.extra) hb (hQ _ r hr))) hstep'
        rw [List.length_set] at this
        exact this

theorem nodup'_range' (s n : Nat) : (List.range' s n).Nodup' = true := by
  induction n generalizing s with
  | zero => rfl
  | succ n ih =>
    rw [List.range'_succ]
    simp only [List.Nodup', ih, Bool.and_true, Bool.not_eq_true', List.contains_eq_mem, decide_eq_false_iff_not]
    intro h
    have := (List.mem_range'_1.mp h).1
    omega

theorem nodup'_range (n : Nat) : (List.range n).Nodup' = true := by
  rw [List.range_eq_range']; exact nodup'_range' 0 n

/-- `mine.extendWith other` when `other` has no terms: the terms of `mine`, re-padded -/
theorem extendWith_noTerms (mine other : TermTable) (off : Nat) (conv : Nat → Option Nat)
    (h : other.terms = []) :
    mine.extendWith other off conv = .ok { mine with
      terms := mine.terms.map (fun t => { t with extra := padRow t.extra (mergeLabels mine.xlabels other.xlabels).length })
      xlabels := mergeLabels mine.xlabels other.xlabels } := by
  unfold TermTable.extendWith
  simp only [h, List.isEmpty_nil, if_true]

theorem termKeys_pad (mine : TermTable) (w : Nat) (xl : List String) :
    termKeys { mine with terms := mine.terms.map (fun t => { t with extra := padRow t.extra w }), xlabels := xl }
      = termKeys mine := by
  simp [termKeys, List.map_map, Function.comp_def]

/-- **extend_cover**: `a.extend b (some offs) map` where the keys of `map` are exactly `0 … |b|−1`, every value is an
    atom of `a`, and `b` has no terms.  The call succeeds; no atom is appended; every invariant `Q i row` that does
    not look at extra fields and survives adoption of `b`'s type holds of every row; terms, type tables and cell
    are those of `a`. -/
theorem extend_cover (a b : Atoms) (offs : Offsets) (map : List (Nat × Nat))
    (hkeys : map.map (·.1) = List.range b.atoms.length)
    (hvals : ∀ kv ∈ map, kv.2 < a.atoms.length)
    (hb : b.bonds.terms = [] ∧ b.angles.terms = [] ∧ b.dihedrals.terms = [] ∧ b.impropers.terms = [])
    (Q : Nat → AtomRow → Prop)
    (hQ0 : ∀ i r e, a.atoms[i]? = some r → Q i { r with extra := e })
    (hadopt : ∀ kv ∈ map, ∀ br r e, b.atoms[kv.1]? = some br → Q kv.2 r →
        Q kv.2 { r with ty := br.ty + offs.atom, extra := e }) :
    ∃ r, a.extend b (some offs) map = .ok r ∧
      r.atoms.length = a.atoms.length ∧ (∀ i row, r.atoms[i]? = some row → Q i row) ∧
      r.typeElems = a.typeElems ∧ r.cell = a.cell ∧
      termKeys r.bonds = termKeys a.bonds ∧ termKeys r.angles = termKeys a.angles ∧
      termKeys r.dihedrals = termKeys a.dihedrals ∧ termKeys r.impropers = termKeys a.impropers := by
  obtain ⟨hb1, hb2, hb3, hb4⟩ := hb
  unfold Atoms.extend
  simp only [hkeys, nodup'_range, Bool.not_true, Bool.false_eq_true, if_false]
  have hany : map.any (fun kv => decide (kv.1 ≥ b.atoms.length) || decide (kv.2 ≥ a.atoms.length)) = false := by
    rw [List.any_eq_false]
    intro kv hkv
    have h2 := hvals kv hkv
    have h1 : kv.1 ∈ List.range b.atoms.length := by rw [← hkeys]; exact List.mem_map_of_mem hkv
    have h1' := List.mem_range.mp h1
    simp only [Bool.or_eq_true, decide_eq_true_eq, not_or]
    omega
  simp only [hany, Bool.false_eq_true, if_false]
  -- no atom is appended
  have hadd : (List.range b.atoms.length).filter (fun i => !(List.range b.atoms.length).contains i) = [] := by
    rw [List.filter_eq_nil_iff]
    intro i hi
    simp [List.mem_range.mp hi]
  simp only [hadd, List.filterMap_nil, List.append_nil]
  rw [extendWith_noTerms _ _ _ _ hb1, extendWith_noTerms _ _ _ _ hb2, extendWith_noTerms _ _ _ _ hb3,
    extendWith_noTerms _ _ _ _ hb4]
  simp only [bind, Except.bind, pure, Except.pure]
  have hrows : ∀ i r, (a.atoms.map (fun r => { r with extra := padRow r.extra (mergeLabels a.xlabels b.xlabels).length }))[i]?
      = some r → Q i r := by
    intro i r h
    rw [List.getElem?_map] at h
    cases h0 : a.atoms[i]? with
    | none => rw [h0] at h; simp at h
    | some r0 =>
      rw [h0] at h; simp only [Option.map_some, Option.some.injEq] at h
      subst h; exact hQ0 i r0 _ h0
  have h := foldl_adopt_inv b offs.atom
        (decide (a.atoms.length * (mergeLabels a.xlabels b.xlabels).length > 0))
        (b.atoms.map (fun r => matchRow (mergeLabels a.xlabels b.xlabels) b.xlabels r.extra)) Q map
        (a.atoms.map (fun r => { r with extra := padRow r.extra (mergeLabels a.xlabels b.xlabels).length }))
        hrows hadopt
  refine ⟨_, rfl, ?_, ?_, rfl, rfl, termKeys_pad _ _ _, termKeys_pad _ _ _, termKeys_pad _ _ _, termKeys_pad _ _ _⟩
  · exact h.1.trans (List.length_map _)
  · exact h.2

/-! ### the loop of `replaceCore s p p` -/

/-- the first search atom's position, as `replaceCore` computes it -/
def firstPos (p : Atoms) : Vec3 :=
  match p.atoms[0]? with
  | some row => row.pos
  | none => Vec3.zero

/-- one iteration of the loop over the matches in `replaceCore s p p … (replace_all := false)` -/
def selfStep (s p : Atoms) (ignore : Bool) (acc : Except Err ReplaceState) (m : PlacedMatch) :
    Except Err ReplaceState :=
  match acc with
  | .error e => .error e
  | .ok st =>
    match st.s.extend (placeAtoms s.cell (firstPos p) p m) (some (s.extendTypes p).2)
        ((unchangedPairs p p).map (fun kv => (kv.1, m.idx.getD kv.2 0))) with
    | .error e => .error e
    | .ok s' =>
      if (toDeleteOf m (((unchangedPairs p p).map (fun kv => (kv.1, m.idx.getD kv.2 0))).map (·.2))).all
            (fun i => !st.del.contains i) || ignore then
        .ok { s := s', del := st.del ++ (toDeleteOf m (((unchangedPairs p p).map
                (fun kv => (kv.1, m.idx.getD kv.2 0))).map (·.2))).filter (fun i => !st.del.contains i) }
      else .error .overlap

theorem replaceCore_self (s p : Atoms) (ms : List PlacedMatch) (ignore : Bool) (hne : p.atoms.isEmpty = false) :
    replaceCore s p p ms false ignore =
      (match ms.foldl (selfStep s p ignore) (.ok { s := (s.extendTypes p).1, del := [] }) with
       | .error e => .error e
       | .ok st => st.s.delete st.del) := by
  unfold replaceCore
  simp only [hne, Bool.false_eq_true, if_false]
  rfl

theorem mem_of_mem_dedup {α} [DecidableEq α] (l : List α) (x : α) (h : x ∈ dedup l) : x ∈ l := by
  induction l with
  | nil => simp [dedup] at h
  | cons y ys ih =>
    simp only [dedup, List.mem_cons, List.mem_filter] at h
    rcases h with h | ⟨h, _⟩
    · simp [h]
    · simp [ih h]

/-- what stays true of row `i` of the growing structure: it is atom `i` of `s` — same position, charge, group — and
    its type id resolves (in the extended element table) to the element atom `i` had in `s` -/
def RowOK (s p : Atoms) (i : Nat) (row : AtomRow) : Prop :=
  ∃ r0, s.atoms[i]? = some r0 ∧ row.pos = r0.pos ∧ row.charge = r0.charge ∧ row.group = r0.group ∧
    (s.typeElems ++ p.typeElems).getD row.ty "" = s.elemOf i

structure Inv (s p : Atoms) (st : ReplaceState) : Prop where
  del : st.del = []
  len : st.s.atoms.length = s.atoms.length
  telems : st.s.typeElems = s.typeElems ++ p.typeElems
  cell : st.s.cell = s.cell
  rows : ∀ i row, st.s.atoms[i]? = some row → RowOK s p i row
  bonds : termKeys st.s.bonds = termKeys s.bonds
  angles : termKeys st.s.angles = termKeys s.angles
  dihedrals : termKeys st.s.dihedrals = termKeys s.dihedrals
  impropers : termKeys st.s.impropers = termKeys s.impropers

theorem getD_append_right' (l l' : List String) (k : Nat) : (l ++ l').getD (k + l.length) "" = l'.getD k "" := by
  simp [List.getD_eq_getElem?_getD, List.getElem?_append_right]

theorem getD_append_left' (l l' : List String) (k : Nat) (h : k < l.length) : (l ++ l').getD k "" = l.getD k "" := by
  simp [List.getD_eq_getElem?_getD, List.getElem?_append_left h]

theorem inv_init (s p : Atoms) (htv : typesValid s = true) : Inv s p { s := (s.extendTypes p).1, del := [] } := by
  refine ⟨rfl, rfl, rfl, rfl, ?_, rfl, rfl, rfl, rfl⟩
  intro i row h
  have h' : s.atoms[i]? = some row := h
  refine ⟨row, h', rfl, rfl, rfl, ?_⟩
  have hty : row.ty < s.typeElems.length := by
    have := List.all_eq_true.mp htv row (List.mem_of_getElem? h')
    simpa using this
  rw [getD_append_left' _ _ _ hty]
  simp [Atoms.elemOf, h']

theorem selfStep_inv (s p : Atoms) (ignore : Bool) (st : ReplaceState) (m : PlacedMatch)
    (hd : distinctAtoms p = true) (hnt : noTerms p = true) (hm : goodSelfMatch s p m = true)
    (hinv : Inv s p st) :
    ∃ st', selfStep s p ignore (.ok st) m = .ok st' ∧ Inv s p st' := by
  simp only [goodSelfMatch, Bool.and_eq_true, decide_eq_true_eq, List.all_eq_true, List.mem_range] at hm
  obtain ⟨⟨hlen, hvalid⟩, helem⟩ := hm
  simp only [noTerms, Bool.and_eq_true, List.isEmpty_iff] at hnt
  obtain ⟨⟨⟨hn1, hn2⟩, hn3⟩, hn4⟩ := hnt
  have hmap : (unchangedPairs p p).map (fun kv => (kv.1, m.idx.getD kv.2 0))
      = (List.range p.atoms.length).map (fun i => (i, m.idx.getD i 0)) := by
    rw [unchangedPairs_self p hd, List.map_map]; rfl
  have hgetD : ∀ k, k < p.atoms.length → m.idx.getD k 0 ∈ m.idx := by
    intro k hk
    have hk' : k < m.idx.length := by omega
    rw [List.getD_eq_getElem?_getD, List.getElem?_eq_getElem hk']
    exact List.getElem_mem hk'
  obtain ⟨hr1, hr2, hr3, hr4, _, _⟩ := Mofun.C05.placeAtoms_rest s.cell (firstPos p) p m
  obtain ⟨s', hs', hlen', hrows', htel', hcell', hb', ha', hd', hi'⟩ :=
    extend_cover st.s (placeAtoms s.cell (firstPos p) p m) (s.extendTypes p).2
      ((List.range p.atoms.length).map (fun i => (i, m.idx.getD i 0)))
      (by simp [List.map_map, Function.comp_def, Mofun.C05.placeAtoms_length])
      (by
        intro kv hkv
        obtain ⟨k, hk, rfl⟩ := List.mem_map.mp hkv
        have := hvalid _ (hgetD k (List.mem_range.mp hk))
        rw [hinv.len]; simpa using this)
      ⟨by rw [hr1]; exact hn1, by rw [hr2]; exact hn2, by rw [hr3]; exact hn3, by rw [hr4]; exact hn4⟩
      (RowOK s p)
      (by
        intro i r e h
        exact hinv.rows i r h)
      (by
        intro kv hkv br r e hbr hq
        obtain ⟨k, hk, rfl⟩ := List.mem_map.mp hkv
        have hk' := List.mem_range.mp hk
        rw [Mofun.C05.placeAtoms_getElem?] at hbr
        have hpk : p.atoms[k]? = some p.atoms[k] := List.getElem?_eq_getElem hk'
        rw [hpk] at hbr
        simp only [Option.map_some, Option.some.injEq] at hbr
        subst hbr
        obtain ⟨r0, h0, h1, h2, h3, _⟩ := hq
        refine ⟨r0, h0, h1, h2, h3, ?_⟩
        have hoff : (s.extendTypes p).2.atom = s.typeElems.length := rfl
        simp only [hoff]
        rw [getD_append_right', helem k hk']
        simp [Atoms.elemOf, hpk])
  have htd : toDeleteOf m (((List.range p.atoms.length).map (fun i => (i, m.idx.getD i 0))).map (·.2)) = [] := by
    unfold toDeleteOf
    rw [List.filter_eq_nil_iff]
    intro i hi
    have hi2 := mem_of_mem_dedup _ _ hi
    obtain ⟨k, hk, hke⟩ := List.getElem_of_mem hi2
    simp only [Bool.not_eq_true', Bool.not_eq_false, List.contains_eq_mem, decide_eq_true_eq, List.map_map,
      List.mem_map, List.mem_range, Function.comp]
    refine ⟨k, by omega, ?_⟩
    rw [List.getD_eq_getElem?_getD, List.getElem?_eq_getElem hk]
    simpa using hke
  refine ⟨{ s := s', del := st.del ++ [] }, ?_, ?_⟩
  · unfold selfStep
    simp only [hmap, hs', htd, List.all_nil, Bool.true_or, if_true, List.filter_nil]
  · exact ⟨by simp [hinv.del], by rw [hlen', hinv.len], by rw [htel', hinv.telems], by rw [hcell', hinv.cell],
      hrows', by rw [hb', hinv.bonds], by rw [ha', hinv.angles], by rw [hd', hinv.dihedrals],
      by rw [hi', hinv.impropers]⟩

theorem fold_inv (s p : Atoms) (ignore : Bool) (ms : List PlacedMatch) (st : ReplaceState)
    (hd : distinctAtoms p = true) (hnt : noTerms p = true) (hms : ∀ m ∈ ms, goodSelfMatch s p m = true)
    (hinv : Inv s p st) :
    ∃ st', ms.foldl (selfStep s p ignore) (.ok st) = .ok st' ∧ Inv s p st' := by
  induction ms generalizing st with
  | nil => exact ⟨st, rfl, hinv⟩
  | cons m rest ih =>
    obtain ⟨st1, h1, hinv1⟩ := selfStep_inv s p ignore st m hd hnt (hms m (by simp)) hinv
    simp only [List.foldl_cons, h1]
    exact ih st1 (fun m' hm' => hms m' (by simp [hm'])) hinv1

end Mofun.C08
