/-
  ReplaceTermsExtras.lean — C06, part 7 (stretch 3): the EXTRA COLUMNS of terms through a replacement.
  `extendWith` on whole terms (not only signatures): old terms are widened with "." to the merged label list
  (`padTerm`), new terms are re-laid out under it (`newTerm` = `matchRow`); the merged label list is reached after the
  first match and never changes again.  Namespace `Mofun.C06`.
-/
import MofunModel.Proofs.ReplaceTermsGuards

namespace Mofun.C06
open Mofun

/-! ### labels and rows -/

theorem mergeLabels_idem (a b : List String) : mergeLabels (mergeLabels a b) b = mergeLabels a b := by
  unfold mergeLabels
  have : (dedup b).filter (fun l => !(a ++ (dedup b).filter (fun l => !a.contains l)).contains l) = [] := by
    rw [List.filter_eq_nil_iff]
    intro l hl
    have hm : l ∈ a ++ (dedup b).filter (fun l => !a.contains l) := by
      by_cases h : l ∈ a
      · exact List.mem_append_left _ h
      · exact List.mem_append_right _ (List.mem_filter.mpr ⟨hl, by simpa using h⟩)
    have : (a ++ (dedup b).filter (fun l => !a.contains l)).contains l = true := by simpa using hm
    rw [this]; simp
  rw [this, List.append_nil]

theorem matchRow_length (labels ol row : List String) : (matchRow labels ol row).length = labels.length := by
  simp [matchRow]

theorem padRow_of_length (row : List String) (w : Nat) (h : row.length = w) : padRow row w = row := by
  simp [padRow, h]

theorem padRow_idem (row : List String) (w : Nat) : padRow (padRow row w) w = padRow row w := by
  unfold padRow
  have : w - (row ++ List.replicate (w - row.length) ".").length = 0 := by
    simp only [List.length_append, List.length_replicate]; omega
  rw [this]; simp

/-- an existing term widened to `w` extra columns -/
def padTerm (w : Nat) (t : Term) : Term := { t with extra := padRow t.extra w }

theorem padTerm_idem (w : Nat) (t : Term) : padTerm w (padTerm w t) = padTerm w t := by
  simp [padTerm, padRow_idem]

theorem padTerm_newTerm (labels ol : List String) (off : Nat) (conv : Nat → Option Nat) (u : Term) :
    padTerm labels.length (newTerm labels ol off conv u) = newTerm labels ol off conv u := by
  simp [padTerm, newTerm, padRow_of_length _ _ (matchRow_length labels ol u.extra)]

/-! ### one `extend` on whole terms -/

theorem extendWith_full (mine other res : TermTable) (off : Nat) (conv : Nat → Option Nat)
    (h : mine.extendWith other off conv = .ok res) :
    res.terms =
        (mine.terms.filter (fun t => !sup
            ((other.terms.map (newTerm (mergeLabels mine.xlabels other.xlabels) other.xlabels off conv)).map (·.atoms))
            t.atoms)).map (padTerm (mergeLabels mine.xlabels other.xlabels).length)
        ++ other.terms.map (newTerm (mergeLabels mine.xlabels other.xlabels) other.xlabels off conv)
    ∧ res.xlabels = mergeLabels mine.xlabels other.xlabels := by
  unfold TermTable.extendWith at h
  by_cases he : other.terms.isEmpty = true
  · have hnil : other.terms = [] := List.isEmpty_iff.mp he
    simp only [he, if_true] at h
    cases h
    refine ⟨?_, rfl⟩
    simp only [hnil, List.map_nil, sup_nil, Bool.not_false, List.append_nil]
    rw [List.filter_eq_self.mpr (fun _ _ => rfl)]
    rfl
  · have he' : other.terms.isEmpty = false := by simpa using he
    simp only [he', Bool.false_eq_true, if_false] at h
    by_cases hany : (other.terms.any (fun t => t.atoms.any (fun a => (conv a).isNone))) = true
    · simp only [hany, if_true] at h
      cases h
    · have hany' : (other.terms.any (fun t => t.atoms.any (fun a => (conv a).isNone))) = false := by simpa using hany
      simp only [hany', Bool.false_eq_true, if_false] at h
      cases h
      refine ⟨?_, rfl⟩
      show deleteIdx (_ ++ other.terms.map (newTerm (mergeLabels mine.xlabels other.xlabels) other.xlabels off conv))
            (existingIdx mine.terms ((other.terms.map
              (newTerm (mergeLabels mine.xlabels other.xlabels) other.xlabels off conv)).map (·.atoms))) = _
      rw [deleteIdx_append_pred _ _ _ (fun t => sup
          ((other.terms.map (newTerm (mergeLabels mine.xlabels other.xlabels) other.xlabels off conv)).map
            (·.atoms)) t.atoms)]
      · congr 1
        rw [List.filter_map]
        rfl
      · intro i hi
        have hi' : i < mine.terms.length := by simpa using hi
        rw [Bool.eq_iff_iff, List.contains_iff_mem, mem_existingIdx]
        simp only [List.getElem_map]
        constructor
        · rintro ⟨_, hs⟩; exact hs
        · intro hs; exact ⟨hi', hs⟩
      · intro i hi
        obtain ⟨hlt, _⟩ := (mem_existingIdx _ _ _).mp hi
        simpa using hlt

/-! ### the fold on whole terms -/

def stepT (w : Nat) (T N : List Term) : List Term :=
  (T.filter (fun t => !sup (N.map (·.atoms)) t.atoms)).map (padTerm w) ++ N

def specT (w : Nat) (T0 : List Term) (Ns : List (List Term)) : List Term := Ns.foldl (stepT w) T0

theorem filter_map_padTerm (w : Nat) (q : List Nat → Bool) (l : List Term) :
    (l.map (padTerm w)).filter (fun t => q t.atoms) = (l.filter (fun t => q t.atoms)).map (padTerm w) := by
  rw [List.filter_map]; rfl

/-- with at least one fragment: the old terms that no fragment supersedes, widened once, then what the fragments add -/
theorem specT_append (w : Nat) (Ns : List (List Term)) (A B : List Term) (N : List Term) :
    specT w (A ++ B) (N :: Ns)
      = (A.filter (fun t => (N :: Ns).all (fun N' => !sup (N'.map (·.atoms)) t.atoms))).map (padTerm w)
        ++ specT w B (N :: Ns) := by
  induction Ns generalizing A B N with
  | nil =>
    simp only [specT, List.foldl_cons, List.foldl_nil, stepT, List.filter_append, List.map_append,
      List.append_assoc, List.all_cons, List.all_nil, Bool.and_true]
  | cons N' Ns ih =>
    have e : ∀ T, specT w T (N :: N' :: Ns) = specT w (stepT w T N) (N' :: Ns) := fun _ => rfl
    rw [e, e]
    have hs : stepT w (A ++ B) N
        = (A.filter (fun t => !sup (N.map (·.atoms)) t.atoms)).map (padTerm w) ++ stepT w B N := by
      simp [stepT, List.filter_append, List.map_append, List.append_assoc]
    rw [hs, ih]
    congr 1
    rw [filter_map_padTerm w (fun a => (N' :: Ns).all (fun N'' => !sup (N''.map (·.atoms)) a)), List.map_map,
      List.filter_filter]
    have hpp : padTerm w ∘ padTerm w = padTerm w := by funext t; exact padTerm_idem w t
    rw [hpp]
    congr 1
    apply List.filter_congr
    intro t _
    simp only [List.all_cons]
    rw [Bool.and_comm]

/-- what the fragments add are (unchanged) members of the fragments, when widening does not change them -/
theorem mem_specT_nil (w : Nat) (Ns : List (List Term)) (hfix : ∀ N ∈ Ns, ∀ t ∈ N, padTerm w t = t) (T : List Term)
    (Nall : List (List Term)) (hsub : ∀ N ∈ Ns, N ∈ Nall) (hT : ∀ t ∈ T, padTerm w t = t ∧ ∃ N ∈ Nall, t ∈ N)
    (t : Term) (ht : t ∈ specT w T Ns) : ∃ N ∈ Nall, t ∈ N := by
  induction Ns generalizing T with
  | nil => exact (hT t ht).2
  | cons N Ns ih =>
    have e : specT w T (N :: Ns) = specT w (stepT w T N) Ns := rfl
    rw [e] at ht
    refine ih (fun N' h' => hfix N' (by simp [h'])) (stepT w T N) (fun N' h' => hsub N' (by simp [h'])) ?_ ht
    intro t' ht'
    unfold stepT at ht'
    rcases List.mem_append.mp ht' with h1 | h1
    · obtain ⟨t0, ht0, rfl⟩ := List.mem_map.mp h1
      have := hT t0 (List.mem_filter.mp ht0).1
      rw [this.1]; exact this
    · exact ⟨hfix N (by simp) t' h1, N, hsub N (by simp), h1⟩

/-! ### the fragments of the replacement, as whole terms -/

/-- the merged label list of kind `κ` and the terms one match appends -/
def mergedX (κ : Kind) (s r : Atoms) : List String := mergeLabels (κ.get s).xlabels (κ.get r).xlabels

def newTerms (κ : Kind) (s r : Atoms) (pairs : List (Nat × Nat)) (ra : Bool) (base : Nat) (m : PlacedMatch) :
    List Term :=
  (κ.get r).terms.map (newTerm (mergedX κ s r) (κ.get r).xlabels (numTermTypes (κ.get s))
    (convOf base r.atoms.length (matchMap pairs ra m)))

def ntFrom (κ : Kind) (s r : Atoms) (pairs : List (Nat × Nat)) (ra : Bool) : Nat → List PlacedMatch → List (List Term)
  | _, [] => []
  | base, m :: ms => newTerms κ s r pairs ra base m :: ntFrom κ s r pairs ra (base + nAdd r pairs ra) ms

theorem ntFrom_append (κ : Kind) (s r : Atoms) (pairs : List (Nat × Nat)) (ra : Bool) (base : Nat)
    (ms₁ ms₂ : List PlacedMatch) :
    ntFrom κ s r pairs ra base (ms₁ ++ ms₂) =
      ntFrom κ s r pairs ra base ms₁ ++ ntFrom κ s r pairs ra (base + ms₁.length * nAdd r pairs ra) ms₂ := by
  induction ms₁ generalizing base with
  | nil => simp [ntFrom]
  | cons m ms ih =>
    have e : base + nAdd r pairs ra + ms.length * nAdd r pairs ra
        = base + (ms.length + 1) * nAdd r pairs ra := by rw [Nat.succ_mul]; omega
    simp only [List.cons_append, ntFrom, ih, List.length_cons, e]

/-- the signatures of the whole-term fragments are the fragments of Props/C06 -/
theorem ntFrom_sig (κ : Kind) (s r : Atoms) (pairs : List (Nat × Nat)) (ra : Bool) (base : Nat)
    (ms : List PlacedMatch) :
    (ntFrom κ s r pairs ra base ms).map (fun N => N.map sig)
      = nsFrom κ r pairs ra (numTermTypes (κ.get s)) base ms := by
  induction ms generalizing base with
  | nil => rfl
  | cons m ms ih =>
    simp only [ntFrom, nsFrom, List.map_cons, ih]
    congr 1
    simp only [newTerms, newSigs, List.map_map]
    rfl

theorem mem_ntFrom (κ : Kind) (s r : Atoms) (pairs : List (Nat × Nat)) (ra : Bool) (base : Nat)
    (ms : List PlacedMatch) (N : List Term) (h : N ∈ ntFrom κ s r pairs ra base ms) :
    ∃ pre m post, ms = pre ++ m :: post
      ∧ N = newTerms κ s r pairs ra (base + pre.length * nAdd r pairs ra) m := by
  induction ms generalizing base with
  | nil => simp [ntFrom] at h
  | cons m0 ms ih =>
    simp only [ntFrom, List.mem_cons] at h
    rcases h with e | h
    · exact ⟨[], m0, ms, rfl, by simp [e]⟩
    · obtain ⟨pre, m, post, e1, e2⟩ := ih _ h
      refine ⟨m0 :: pre, m, post, by simp [e1], ?_⟩
      rw [e2]; congr 1
      simp only [List.length_cons]; rw [Nat.succ_mul]; omega

/-! ### the loop invariant on whole terms -/

/-- after the matches `done`: the terms of kind `κ` are the fold of `stepT`; the label list is the structure's own
    before the first match and the merged list afterwards -/
def FoldInvX (s r : Atoms) (p0 : Vec3) (pairs : List (Nat × Nat)) (ra : Bool) (done : List PlacedMatch)
    (st : ReplaceState) : Prop :=
  FoldInv s r p0 pairs ra done st
  ∧ ∀ κ : Kind, (κ.get st.s).terms
        = specT (mergedX κ s r).length (κ.get s).terms (ntFrom κ s r pairs ra s.atoms.length done)
      ∧ (κ.get st.s).xlabels = (if done = [] then (κ.get s).xlabels else mergedX κ s r)

theorem kind_extendTypes_xlabels (κ : Kind) (s r : Atoms) :
    (κ.get (s.extendTypes r).1).xlabels = (κ.get s).xlabels := by
  cases κ <;> rfl

theorem foldInvX_step (s r : Atoms) (p0 : Vec3) (pairs : List (Nat × Nat)) (ra ig : Bool)
    (done : List PlacedMatch) (m : PlacedMatch) (st st' : ReplaceState)
    (hI : FoldInvX s r p0 pairs ra done st)
    (h : stepR s r p0 pairs (s.extendTypes r).2 ra ig (.ok st) m = .ok st') :
    FoldInvX s r p0 pairs ra (done ++ [m]) st' := by
  refine ⟨foldInv_step s r p0 pairs ra ig done m st st' hI.1 h, ?_⟩
  intro κ
  obtain ⟨hext, _, _⟩ := stepR_ok s r p0 pairs _ ra ig st st' m h
  obtain ⟨_, _, hkind, _⟩ := extend_some_ok _ _ _ _ _ hext
  obtain ⟨hterms, hxl⟩ := extendWith_full _ _ _ _ _ (hkind κ)
  obtain ⟨hT, hX⟩ := hI.2 κ
  rw [placeAtoms_kind] at hterms hxl
  have hlab : mergeLabels (κ.get st.s).xlabels (κ.get r).xlabels = mergedX κ s r := by
    rw [hX]
    by_cases hd : done = []
    · simp [hd, mergedX]
    · simp only [hd, if_false]; exact mergeLabels_idem _ _
  rw [hlab] at hterms hxl
  have hne : done ++ [m] ≠ [] := by simp
  refine ⟨?_, by rw [hxl]; simp [hne]⟩
  rw [hterms, hT, ntFrom_append]
  have e : ntFrom κ s r pairs ra (s.atoms.length + done.length * nAdd r pairs ra) [m]
      = [newTerms κ s r pairs ra (s.atoms.length + done.length * nAdd r pairs ra) m] := rfl
  rw [e]
  simp only [specT, List.foldl_append, List.foldl_cons, List.foldl_nil, stepT]
  rw [placeAtoms_length, hI.1.len, show (κ.off (s.extendTypes r).2) = numTermTypes (κ.get s) from kind_off_offsets κ s]
  rfl

theorem foldInvX_all (s p r : Atoms) (ms : List PlacedMatch) (ra ig : Bool) (st : ReplaceState)
    (h : ms.foldl (stepR s r (p0Of p) (unchangedPairs r p) (s.extendTypes r).2 ra ig)
          (.ok { s := (s.extendTypes r).1, del := [] }) = .ok st) :
    FoldInvX s r (p0Of p) (unchangedPairs r p) ra ms st := by
  have h0 : FoldInvX s r (p0Of p) (unchangedPairs r p) ra [] { s := (s.extendTypes r).1, del := [] } := by
    refine ⟨foldInv_init s r (p0Of p) (unchangedPairs r p) ra, ?_⟩
    intro κ
    exact ⟨by rw [(kind_extendTypes κ s r).1]; rfl, by rw [kind_extendTypes_xlabels]; simp⟩
  have := foldl_stepR_inv s r (p0Of p) (unchangedPairs r p) (s.extendTypes r).2 ra ig
    (FoldInvX s r (p0Of p) (unchangedPairs r p) ra)
    (fun done m st st' hI hs => foldInvX_step s r (p0Of p) (unchangedPairs r p) ra ig done m st st' hI hs)
    ms [] _ st h0 h
  simpa using this

theorem delete_kind_xlabels (κ : Kind) (a res : Atoms) (del : List Nat) (h : a.delete del = .ok res) :
    (κ.get res).xlabels = (κ.get a).xlabels := by
  unfold Atoms.delete at h
  split at h
  · cases h
  · cases h
    cases κ <;> rfl

end Mofun.C06
