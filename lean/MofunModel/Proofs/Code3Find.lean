/-
  Code3Find.lean — rational square roots for the window encodings of Model/Find.lean, used to tie the generated box
  test of `_get_positions_from_all_adjacent_unit_cells` (Generated/Code.lean) to `nearOrtho`.
  The model encodes `x ≥ −(√m + 2·atol)` square-root-free (`leSqrt`, `ltSqrt`); for `m = d²`, `d ≥ 0` these are the
  plain comparisons with `d`.
-/
import MofunModel.Generated.Code
import MofunModel.Model.Find
import Mathlib.Tactic.Linarith

namespace Mofun.Code3Find
open Mofun Mofun.Generated

theorem leSqrt_sq (u d : Rat) (hd : 0 ≤ d) : leSqrt u (d * d) = decide (u ≤ d) := by
  unfold leSqrt
  rw [Bool.eq_iff_iff]
  simp only [Bool.or_eq_true, decide_eq_true_eq]
  constructor
  · rintro (h | h)
    · linarith
    · by_contra hc
      have : d < u := lt_of_not_ge hc
      nlinarith
  · intro h
    by_cases h0 : u ≤ 0
    · exact Or.inl h0
    · right; have : 0 < u := lt_of_not_ge h0; nlinarith

theorem ltSqrt_sq (u d : Rat) (hd : 0 ≤ d) : ltSqrt u (d * d) = decide (u < d) := by
  unfold ltSqrt
  rw [Bool.eq_iff_iff]
  simp only [Bool.or_eq_true, decide_eq_true_eq]
  constructor
  · rintro (h | h)
    · linarith
    · by_contra hc
      have : d ≤ u := le_of_not_gt hc
      nlinarith
  · intro h
    by_cases h0 : u < 0
    · exact Or.inl h0
    · right; have : 0 ≤ u := le_of_not_gt h0; nlinarith

/-- `x ≤ 0` is `¬ 0 < x` -/
theorem decide_le_zero (x : Rat) : decide (x ≤ 0) = !decide (0 < x) := by
  by_cases h : 0 < x
  · have : ¬ x ≤ 0 := Rat.not_le.mpr h
    simp [h, this]
  · have : x ≤ 0 := Rat.not_lt.mp h
    simp [h, this]

end Mofun.Code3Find
