/-
  HistWideLemmas.lean — helper lemmas for the widened histories (C09 stretch): subsets with arbitrary integers,
  deletion with repeated indices, an object extended with itself.
-/
import MofunModel.Model.HistWide
import MofunModel.Proofs.HistMeaning
import MofunModel.Proofs.WideLemmas
import MofunModel.Props.C11

namespace Mofun.Hist

open Mofun

/-! ## subset with arbitrary integers -/

theorem getitemI_rows (a : Atoms) (idx : List Int) (row : AtomRow)
    (h : row ∈ idx.filterMap (fun i => (normIdx a.atoms.length i).bind (fun j =>
      (a.atoms[j]?).map (fun r => { r with extra := [] })))) :
    ∃ row0 ∈ a.atoms, row = { row0 with extra := [] } := by
  obtain ⟨i, _, hi⟩ := List.mem_filterMap.mp h
  cases hn : normIdx a.atoms.length i with
  | none => simp [hn] at hi
  | some j =>
    cases hq : a.atoms[j]? with
    | none => simp [hn, hq] at hi
    | some row0 =>
      simp [hn, hq] at hi
      exact ⟨row0, List.mem_of_getElem? hq, hi.symm⟩

theorem wf_getitemI_aux (a r : Atoms) (idx : List Int) (hwf : WF a) (h : a.getitemI idx = .ok r) : WF r := by
  unfold Atoms.getitemI at h
  split at h
  · cases h
  · cases h
    obtain ⟨ha, hl, hm, _, _⟩ := hwf
    refine ⟨?_, hl, hm, Or.inl rfl, termsWF_empty _, termsWF_empty _, termsWF_empty _, termsWF_empty _⟩
    intro row hr
    obtain ⟨row0, h0, rfl⟩ := getitemI_rows a idx row hr
    exact ⟨(ha row0 h0).1, by simp [Atoms.empty]⟩

theorem hist_any_none_ofNat (n : Nat) (idx : List Nat) :
    (idx.map Int.ofNat).any (fun i => (normIdx n i).isNone) = idx.any (fun i => decide (i ≥ n)) := by
  rw [List.any_map]
  induction idx with
  | nil => rfl
  | cons i rest ih =>
    simp only [List.any_cons, ih, Function.comp, normIdx_ofNat]
    by_cases h : i < n
    · have : ¬ i ≥ n := by omega
      simp [h, this]
    · have : i ≥ n := by omega
      simp [h, this]

/-- on a NON-EMPTY list of non-negative integers `getitemI` is the modelled `getitem` (which leaves the empty
    selection outside its domain) -/
theorem getitemI_ofNat (a : Atoms) (idx : List Nat) (hne : idx ≠ []) :
    a.getitemI (idx.map Int.ofNat) = a.getitem idx := by
  unfold Atoms.getitemI Atoms.getitem
  have hany := hist_any_none_ofNat a.atoms.length idx
  have h1 : ¬ idx.isEmpty = true := by simpa using hne
  rw [hany]
  · by_cases h2 : idx.any (fun i => decide (i ≥ a.atoms.length)) = true
    · simp [h1, h2]
    · simp only [h1, h2, Bool.false_eq_true, if_false]
      have hall : ∀ i ∈ idx, i < a.atoms.length := by
        intro i hi
        have : ¬ (i ≥ a.atoms.length) := fun hge => h2 (List.any_eq_true.mpr ⟨i, hi, by simpa using hge⟩)
        omega
      have : (idx.map Int.ofNat).filterMap (fun i => (normIdx a.atoms.length i).bind (fun j =>
            (a.atoms[j]?).map (fun r => ({ r with extra := [] } : AtomRow))))
          = idx.filterMap (fun i => (a.atoms[i]?).map (fun r => ({ r with extra := [] } : AtomRow))) := by
        rw [List.filterMap_map]
        apply filterMap_congr_of_mem
        intro i hi
        have hn : normIdx a.atoms.length (Int.ofNat i) = some i := by rw [normIdx_ofNat]; simp [hall i hi]
        simp only [Function.comp, hn, Option.bind_some]
      simp only [this]

/-! ## deletion with repeated indices keeps objects well formed -/

theorem shiftAbove_mono (i x y : Nat) (h : x ≤ y) : shiftAbove i x ≤ shiftAbove i y := by
  unfold shiftAbove; split <;> split <;> omega

theorem shiftAbove_le (i x : Nat) : shiftAbove i x ≤ x := by
  unfold shiftAbove; split <;> omega

theorem reindex_mono (l : List Nat) (x y : Nat) (h : x ≤ y) : reindex l x ≤ reindex l y := by
  induction l generalizing x y with
  | nil => simpa [reindex] using h
  | cons d rest ih =>
    simp only [reindex, List.foldl_cons]
    exact ih _ _ (shiftAbove_mono d x y h)

/-- skipping steps of the re-index loop can only leave an entry higher -/
theorem reindex_sublist (l' l : List Nat) (hs : l'.Sublist l) (x : Nat) : reindex l x ≤ reindex l' x := by
  induction hs generalizing x with
  | slnil => exact Nat.le_refl _
  | cons d _ ih =>
    simp only [reindex, List.foldl_cons]
    exact Nat.le_trans (reindex_mono _ _ _ (shiftAbove_le d x)) (ih x)
  | cons_cons d _ ih =>
    simp only [reindex, List.foldl_cons]
    exact ih _

theorem deleteIdx_go_congr {α} (idx idx' : List Nat) (hm : ∀ i, i ∈ idx ↔ i ∈ idx') (l : List α) (off : Nat) :
    deleteIdx.go idx l off = deleteIdx.go idx' l off := by
  induction l generalizing off with
  | nil => simp [deleteIdx.go]
  | cons y ys ih =>
    simp only [deleteIdx.go, List.contains_iff_mem, hm off, ih]

/-- also with REPEATED indices a surviving, re-mapped entry points inside the shortened atom list (it may point at
    the wrong atom — repeated indices lower the survivors once per repetition — but never outside) -/
theorem hist_reindex_lt_any {α} (l : List α) (idx : List Nat) (x : Nat) (hlt : x < l.length) (hx : x ∉ idx) :
    reindex (sortDesc idx) x < (deleteIdx l idx).length := by
  -- a strictly descending sub-list of the sorted list with the same members
  let sd' := dedup (sortDesc idx)
  have hsub : sd'.Sublist (sortDesc idx) := dedup_sublist _
  have hge : sd'.Pairwise (· ≥ ·) := (sortDesc_ge idx).sublist hsub
  have hnd : sd'.Nodup := dedup_nodup _
  have hgt : sd'.Pairwise (· > ·) := by
    refine (List.Pairwise.and hge hnd).imp ?_
    intro a b hab; have := hab.1; have := hab.2; omega
  have hmem : ∀ i, i ∈ sd' ↔ i ∈ idx := by
    intro i
    rw [mem_dedup_iff]
    exact (sortDesc_perm idx).mem_iff
  have hx' : x ∉ sd' := fun m => hx ((hmem x).mp m)
  have h1 : reindex (sortDesc idx) x ≤ reindex sd' x := reindex_sublist _ _ hsub x
  have h2 : reindex sd' x = x - rankBelow sd' x := reindex_desc sd' hgt x hx'
  have h3 := deleteIdx_getElem? l sd' hnd x hlt hx'
  have hs : l[x]? = some l[x] := List.getElem?_eq_getElem hlt
  rw [hs] at h3
  have h4 : x - rankBelow sd' x < (deleteIdx l sd').length := (List.getElem?_eq_some_iff.mp h3).1
  have h5 : deleteIdx l sd' = deleteIdx l idx := deleteIdx_go_congr sd' idx hmem l 0
  rw [h5] at h4
  omega

theorem termsWF_delete_any (n : Nat) (t : TermTable) (idx : List Nat) {α} (l : List α)
    (hl : l.length = n) (h : TermsWF n t) : TermsWF (deleteIdx l idx).length (t.delete idx) := by
  obtain ⟨h1, h2⟩ := h
  have key : ∀ tm' ∈ (t.delete idx).terms, ∃ tm ∈ t.terms, (∀ x ∈ tm.atoms, x ∉ idx)
      ∧ tm'.atoms = tm.atoms.map (reindex (sortDesc idx)) ∧ tm'.ty = tm.ty ∧ tm'.extra = tm.extra := by
    intro tm' hm
    simp only [TermTable.delete, deleteTerms, List.mem_map, List.mem_filter] at hm
    obtain ⟨tm, ⟨hmem, hf⟩, rfl⟩ := hm
    refine ⟨tm, hmem, ?_, rfl, rfl, rfl⟩
    intro x hx hin
    simp at hf
    exact hf x hx hin
  refine ⟨?_, ?_⟩
  · intro tm' hm
    obtain ⟨tm, hmem, hs, ha, _, he⟩ := key tm' hm
    refine ⟨?_, ?_⟩
    · intro x' hx'
      rw [ha] at hx'
      obtain ⟨x, hx, rfl⟩ := List.mem_map.mp hx'
      exact hist_reindex_lt_any l idx x (by rw [hl]; exact (h1 tm hmem).1 x hx) (hs x hx)
    · rw [he]; exact (h1 tm hmem).2
  · rcases h2 with h2 | h2
    · left; exact h2
    · right
      intro tm' hm
      obtain ⟨tm, hmem, _, _, hty, _⟩ := key tm' hm
      rw [hty]; exact h2 tm hmem

/-- `del a[idx]` keeps an object well formed for EVERY list of indices inside the object: repeated, unsorted -/
theorem wf_delete_any_aux (a r : Atoms) (idx : List Nat) (hwf : WF a) (h : a.delete idx = .ok r) : WF r := by
  unfold Atoms.delete at h
  split at h
  · cases h
  · cases h
    obtain ⟨ha, hl, hm, hp, hb, hang, hd, hi⟩ := hwf
    refine ⟨?_, hl, hm, hp, ?_, ?_, ?_, ?_⟩
    · intro r hr; exact ha r (hist_mem_deleteIdx idx a.atoms r hr)
    · exact termsWF_delete_any _ _ idx a.atoms rfl hb
    · exact termsWF_delete_any _ _ idx a.atoms rfl hang
    · exact termsWF_delete_any _ _ idx a.atoms rfl hd
    · exact termsWF_delete_any _ _ idx a.atoms rfl hi

/-! ## an object extended with itself -/

/-- a diagonal identity map: every listed atom of the other object (= self) is identified with ITSELF — the only
    self-maps that respect the contract of `structure_index_map` ("the same atom") -/
def DiagMap (map : List (Nat × Nat)) : Prop := ∀ kv ∈ map, kv.1 = kv.2

instance (map : List (Nat × Nat)) : Decidable (DiagMap map) := by unfold DiagMap; infer_instance

theorem liveTypes_cons (cur : List Nat) (o k v : Nat) (rest : List (Nat × Nat)) (hk : k < cur.length) :
    liveTypes cur o ((k, v) :: rest) = liveTypes (cur.set v (cur[k] + o)) o rest := by
  simp [liveTypes, List.getElem?_eq_getElem hk]

/-- under a diagonal map with distinct keys nothing is read after it was written: the live type array is the
    original one with the offset added at the keys -/
theorem liveTypes_diag (o : Nat) (map : List (Nat × Nat)) (hd : DiagMap map) (hnd : (map.map (·.1)).Nodup) :
    ∀ cur : List Nat, (∀ kv ∈ map, kv.1 < cur.length) →
    liveTypes cur o map = (cur.zipIdx).map (fun p => if (map.map (·.1)).contains p.2 then p.1 + o else p.1) := by
  induction map with
  | nil =>
    intro cur _
    simp only [liveTypes, List.foldl_nil, List.map_nil, List.contains_nil]
    apply List.ext_getElem?
    intro i
    simp
  | cons kv rest ih =>
    intro cur hlt
    obtain ⟨k, v⟩ := kv
    have hkv : k = v := hd (k, v) List.mem_cons_self
    subst hkv
    have hk : k < cur.length := hlt (k, k) List.mem_cons_self
    have hnd' : k ∉ rest.map (·.1) ∧ (rest.map (·.1)).Nodup := List.nodup_cons.mp hnd
    have hknot : k ∉ rest.map (·.1) := hnd'.1
    rw [liveTypes_cons cur o k k rest hk,
      ih (fun kv h => hd kv (List.mem_cons_of_mem _ h)) hnd'.2 _ (by
        intro kv h; simpa using hlt kv (List.mem_cons_of_mem _ h))]
    apply List.ext_getElem?
    intro i
    simp only [List.getElem?_map, List.getElem?_zipIdx, List.map_cons, Nat.zero_add]
    by_cases hik : i = k
    · subst hik
      have hc : (rest.map (·.1)).contains i = false := by simpa using hknot
      have e1 : (cur.set i (cur[i] + o))[i]? = some (cur[i] + o) := by simp [hk]
      have e2 : cur[i]? = some cur[i] := List.getElem?_eq_getElem hk
      have hc2 : (i :: rest.map (·.1)).contains i = true := by simp
      simp only [e1, e2, Option.map_some, hc, hc2, if_true, Bool.false_eq_true, if_false]
    · have hki : ¬ k = i := fun e => hik e.symm
      rw [List.getElem?_set_ne hki]
      cases hq : cur[i]? with
      | none => rfl
      | some t =>
        have : (k :: rest.map (·.1)).contains i = (rest.map (·.1)).contains i := by
          simp [hik]
        simp only [Option.map_some, this]

theorem diag_values (map : List (Nat × Nat)) (hd : DiagMap map) : map.map (·.2) = map.map (·.1) := by
  apply List.map_congr_left
  intro kv hkv; exact (hd kv hkv).symm

theorem hist_map_as_filterMap {α β} (l : List α) (g : α → β) : l.map g = l.filterMap (fun x => some (g x)) := by
  induction l with
  | nil => rfl
  | cons x xs ih => rw [List.map_cons, List.filterMap_cons, ih]

/-- the type ids of `a.extend(a_copy, map)` under a diagonal map are the ids the code's live array produces -/
theorem extend_self_types (a r : Atoms) (off : Option Offsets) (map : List (Nat × Nat)) (hd : DiagMap map)
    (h : a.extend a off map = .ok r) :
    r.atoms.map (·.ty) = selfTypes a (extOffs a a off).atom map := by
  obtain ⟨hnd, hb⟩ := extend_guard a a r off map h
  have hinj : (map.map (·.2)).Nodup := by rw [diag_values map hd]; exact hnd
  have hlive := liveTypes_diag (extOffs a a off).atom map hd hnd (a.atoms.map (·.ty))
    (fun kv hkv => by rw [List.length_map]; exact (hb kv hkv).1)
  rw [extend_atoms a a r off map h, List.map_append]
  unfold selfTypes
  simp only
  congr 1
  · -- the atoms of self
    rw [hlive]
    apply List.ext_getElem?
    intro i
    simp only [List.getElem?_map, List.getElem?_zipIdx, Nat.zero_add]
    cases hq : a.atoms[i]? with
    | none => rfl
    | some row =>
      simp only [Option.map_some]
      congr 1
      by_cases hin : (map.map (·.1)).contains i = true
      · have hmem : i ∈ map.map (·.1) := by simpa using hin
        obtain ⟨kv, hkv, hki⟩ := List.mem_map.mp hmem
        have hkv' : (i, i) ∈ map := by
          have e := hd kv hkv
          obtain ⟨k, v⟩ := kv
          simp only at hki e
          subst hki; subst e; exact hkv
        have hs : srcOf map i = some i := srcOf_of_mem map hinj i i hkv'
        rw [if_pos hin]
        simp only [selfRow, hs, adoptRow, hq, Option.map_some, Option.getD_some]
      · have hs : srcOf map i = none := by
          apply srcOf_none
          intro kv hkv e
          apply hin
          have : kv.1 = i := by rw [hd kv hkv]; exact e
          simpa using List.mem_map.mpr ⟨kv, hkv, this⟩
        rw [if_neg hin]
        simp only [selfRow, hs]
  · -- the appended atoms
    have hB : (((a.atoms.zipIdx).filter (fun q => !(map.map (·.1)).contains q.2)).map
          (fun q => appendRow a a (extOffs a a off) q.1)).map (·.ty)
        = ((List.range a.atoms.length).filter (fun i => !(map.map (·.1)).contains i)).filterMap
          (fun i => (a.atoms[i]?).map (fun r => r.ty + (extOffs a a off).atom)) := by
      rw [range_filter_filterMap a.atoms (fun i => !(map.map (·.1)).contains i)
        (fun r => r.ty + (extOffs a a off).atom)]
      simp [appendRow, List.map_map, Function.comp]
    rw [hB]
    refine (filterMap_congr_of_mem _ _ (fun i => some ((liveTypes (a.atoms.map (·.ty)) (extOffs a a off).atom map).getD i 0
      + (extOffs a a off).atom)) ?_).trans (hist_map_as_filterMap _ _).symm
    intro i hi
    obtain ⟨hir, hnc⟩ := List.mem_filter.mp hi
    have hlt : i < a.atoms.length := List.mem_range.mp hir
    have hnc' : (map.map (·.1)).contains i = false := by simpa using hnc
    rw [hlive]
    have e2 : a.atoms[i]? = some a.atoms[i] := List.getElem?_eq_getElem hlt
    have e3 : (((a.atoms.map (·.ty)).zipIdx).map (fun p => if (map.map (·.1)).contains p.2 then
        p.1 + (extOffs a a off).atom else p.1))[i]? = some a.atoms[i].ty := by
      simp only [List.getElem?_map, List.getElem?_zipIdx, e2, Option.map_some, Nat.zero_add, hnc',
        Bool.false_eq_true, if_false]
    rw [List.getD_eq_getElem?_getD, e3, e2]
    rfl

theorem extendSelf_fix (a r : Atoms) (off : Option Offsets) (map : List (Nat × Nat)) (o : Nat)
    (ho : o = (extOffs a a off).atom) (hd : DiagMap map) (h : a.extend a off map = .ok r) :
    ({ r with atoms := (r.atoms.zipIdx).map (fun p => ({ p.1 with ty := (selfTypes a o map).getD p.2 p.1.ty } : AtomRow)) }
      : Atoms) = r := by
  subst ho
  have hty := extend_self_types a r off map hd h
  have : (r.atoms.zipIdx).map (fun p => ({ p.1 with ty := (selfTypes a (extOffs a a off).atom map).getD p.2 p.1.ty } : AtomRow))
      = r.atoms := by
    apply List.ext_getElem?
    intro j
    simp only [List.getElem?_map, List.getElem?_zipIdx, Nat.zero_add]
    cases hq : r.atoms[j]? with
    | none => rfl
    | some row =>
      have : (selfTypes a (extOffs a a off).atom map)[j]? = some row.ty := by
        rw [← hty, List.getElem?_map, hq]; rfl
      simp [List.getD_eq_getElem?_getD, this]
  rw [this]

/-- **self-extend = extend with a copy** for diagonal identity maps (in particular for the empty map) -/
theorem extendSelf_diag_aux (a : Atoms) (off : Option Offsets) (map : List (Nat × Nat)) (hd : DiagMap map) :
    a.extendSelf off map = a.extend a off map := by
  unfold Atoms.extendSelf
  cases off with
  | none =>
    cases h : a.extend a none map with
    | error e => rfl
    | ok r =>
      simp only [bind, Except.bind, pure, Except.pure]
      exact congrArg Except.ok (extendSelf_fix a r none map _ rfl hd h)
  | some o =>
    cases h : a.extend a (some o) map with
    | error e => rfl
    | ok r =>
      simp only [bind, Except.bind, pure, Except.pure]
      exact congrArg Except.ok (extendSelf_fix a r (some o) map _ rfl hd h)

/-- `del a[idx]` with arbitrary integers keeps an object well formed -/
theorem wf_deleteNorm_aux (a r : Atoms) (idx : List Int) (hwf : WF a) (h : a.deleteNorm idx = .ok r) : WF r := by
  unfold Atoms.deleteNorm at h
  split at h
  · cases h
  · exact wf_delete_any_aux a r _ hwf h

/-! ## guards of the widened histories -/

theorem kindCompat_self (t : TermTable) : KindCompat t t := by
  by_cases h : t.coeffs = []
  · exact Or.inl ⟨h, h⟩
  · exact Or.inr ⟨Or.inr h, Or.inr h⟩

/-- an object is always compatible with itself -/
theorem compat_self_aux (a : Atoms) : Compat a a := by
  refine ⟨?_, kindCompat_self _, kindCompat_self _, kindCompat_self _, kindCompat_self _⟩
  by_cases h : a.pairCoeffs = []
  · exact Or.inl ⟨h, h⟩
  · exact Or.inr ⟨Or.inr h, Or.inr h⟩

/-- the guard of a `base` op in the widened histories: as `GuardedOp`, except that deletion needs NO guard any
    more (repeated indices keep objects well formed) and that a `base` extend must involve two different slots
    (an object extended with itself is the separate op `extendSelf`, because the code behaves differently) -/
def baseGuardW (s : State) : Op → Prop
  | .construct _ a => WF a
  | .copy _ _ => True
  | .delete _ _ => True
  | .pop _ _ => True
  | .extend dst src off _ => dst ≠ src ∧ slotGuard s[dst]? s[src]? off
  | .replicate _ _ _ _ _ => True
  | .getitem _ _ _ => True

instance (s : State) (op : Op) : Decidable (baseGuardW s op) := by
  cases op <;> unfold baseGuardW <;> infer_instance

/-- the guard of an extend in its public spelling: on the NORMALISED map and the padded offsets, the guard of
    `extend` (`ExtendGuard`), plus a diagonal map when the object is extended with itself; true when a slot is empty or
    the map is rejected (`stepW` fails then) -/
def apiGuard (x y : Option (Option Atoms)) (self : Prop) [Decidable self] (off : Option (List Nat))
    (map : List (Int × Int)) : Prop :=
  match x, y with
  | some (some a), some (some b) =>
    match normMap b.atoms.length a.atoms.length map with
    | .ok m => ExtendGuard a b (off.map padOffsets) ∧ (self → DiagMap m)
    | .error _ => True
  | _, _ => True

instance (x y : Option (Option Atoms)) (self : Prop) [Decidable self] (off : Option (List Nat))
    (map : List (Int × Int)) : Decidable (apiGuard x y self off map) := by
  unfold apiGuard
  split
  · split <;> infer_instance
  · infer_instance

/-- subsets with arbitrary integers need no guard; a self-extend needs a diagonal identity map (and, with explicit
    offsets, `OffsetsOk a a o`; with default offsets `Compat a a` always holds) -/
def GuardedOpW (s : State) : OpW → Prop
  | .base op => baseGuardW s op
  | .deleteI _ _ => True
  | .getitemI _ _ _ => True
  | .extendSelf slot off map => DiagMap map ∧ slotGuard s[slot]? s[slot]? off
  | .extendA dst src off map => apiGuard s[dst]? s[src]? (dst = src) off map

instance (s : State) (op : OpW) : Decidable (GuardedOpW s op) := by
  cases op <;> unfold GuardedOpW <;> infer_instance

def AlignedOpW : OpW → Prop
  | .base op => AlignedOp op
  | _ => True

instance (op : OpW) : Decidable (AlignedOpW op) := by cases op <;> unfold AlignedOpW <;> infer_instance

def GuardedRunW (s : State) : List OpW → Prop
  | [] => True
  | op :: rest =>
    GuardedOpW s op ∧
    match stepW s op with
    | .ok s' => GuardedRunW s' rest
    | .error _ => True

instance decGuardedRunW : (s : State) → (ops : List OpW) → Decidable (GuardedRunW s ops)
  | _, [] => isTrue trivial
  | s, op :: rest =>
    match h : stepW s op with
    | .ok s' =>
      have := decGuardedRunW s' rest
      by unfold GuardedRunW; rw [h]; exact inferInstance
    | .error _ => by unfold GuardedRunW; rw [h]; exact inferInstance

/-- a `base` guard of the widened histories implies the old guard, except for deletions -/
theorem guardedOp_of_baseGuardW (s : State) (op : Op) (h : baseGuardW s op)
    (hnd : ∀ slot idx, op = .delete slot idx → idx.Nodup) : GuardedOp s op := by
  cases op with
  | construct dst a => exact h
  | copy src dst => trivial
  | delete slot idx => exact hnd slot idx rfl
  | pop slot i => trivial
  | extend dst src off map => exact h.2
  | replicate src dst da db dc => trivial
  | getitem src dst idx => trivial

end Mofun.Hist
