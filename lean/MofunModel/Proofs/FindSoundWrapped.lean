/-
  FindSoundWrapped.lean — atoms stored outside the unit cell (C01; also used by C02/C03/C08):
  `Mat3.intoCell` (Model/Find.lean: `positions − floor(positions · cell⁻¹ + 1e-9) · cell`) is a translation by an INTEGER
  lattice vector; for a cell of non-zero volume it lands in the cell up to the face tolerance (fractional coordinates in
  `[−1e-9, 1 − 1e-9)`) and is idempotent, hence `findW (wrapped S) = findW S`; `findW S = find S` when no atom of `S`
  is a whole cell away. For an atom that is not within `1e-9` below a cell face (`OffFaces`) it is exactly `Mat3.wrap`
  (Model/Lattice.lean, the wrap of the replacement code) and lands in `[0, 1)³`.
-/
import MofunModel.Model.Find
import MofunModel.Proofs.WrapLemmas

namespace Mofun

open Mofun.C05

/-- `intoCell v = v + (−i·A − j·B − k·C)`, `(i, j, k) = cellsAway v` — integer multipliers, no hypothesis on the cell -/
theorem intoCell_eq_add (m : Mat3) (v : Vec3) :
    m.intoCell v = Vec3.add v (m.lattice ((-(m.cellsAway v).1 : Int) : Rat) ((-(m.cellsAway v).2.1 : Int) : Rat)
      ((-(m.cellsAway v).2.2 : Int) : Rat)) := by
  simp only [Mat3.intoCell, Mat3.lattice, Vec3.sub, Vec3.add, Vec3.smul, Vec3.mk.injEq]
  push_cast
  refine ⟨by ring, by ring, by ring⟩

/-- an atom that is no whole cell away is not moved at all (no hypothesis on the cell) -/
theorem intoCell_of_cellsAway_zero (m : Mat3) (v : Vec3) (h : m.cellsAway v = (0, 0, 0)) : m.intoCell v = v := by
  simp only [Mat3.intoCell, h, Mat3.lattice, Vec3.sub, Vec3.add, Vec3.smul]
  cases v; simp

/-- inside the cell up to the face tolerance: fractional coordinates in `[−1e-9, 1 − 1e-9)` -/
def InCellEps (m : Mat3) (v : Vec3) : Prop :=
  let f := m.frac v
  (-faceEps ≤ f.x ∧ f.x < 1 - faceEps) ∧ (-faceEps ≤ f.y ∧ f.y < 1 - faceEps) ∧ (-faceEps ≤ f.z ∧ f.z < 1 - faceEps)

theorem floor_shift_range (x : Rat) :
    -faceEps ≤ x - ((x + faceEps).floor : Rat) ∧ x - ((x + faceEps).floor : Rat) < 1 - faceEps := by
  have h1 := Rat.floor_le (x + faceEps)
  have h2 := Rat.lt_floor_add_one (x + faceEps)
  push_cast at h2
  constructor <;> linarith

theorem frac_intoCell (m : Mat3) (v : Vec3) (hd : m.det ≠ 0) :
    m.frac (m.intoCell v) = ⟨(m.frac v).x - (((m.frac v).x + faceEps).floor : Rat),
      (m.frac v).y - (((m.frac v).y + faceEps).floor : Rat), (m.frac v).z - (((m.frac v).z + faceEps).floor : Rat)⟩ := by
  rw [intoCell_eq_add, frac_shift m v _ _ _ hd]
  simp only [Mat3.cellsAway, Vec3.mk.injEq]
  push_cast
  refine ⟨by ring, by ring, by ring⟩

theorem intoCell_inCellEps (m : Mat3) (v : Vec3) (hd : m.det ≠ 0) : InCellEps m (m.intoCell v) := by
  unfold InCellEps
  rw [frac_intoCell m v hd]
  exact ⟨floor_shift_range _, floor_shift_range _, floor_shift_range _⟩

theorem cellsAway_of_inCellEps (m : Mat3) (v : Vec3) (h : InCellEps m v) : m.cellsAway v = (0, 0, 0) := by
  obtain ⟨⟨hx0, hx1⟩, ⟨hy0, hy1⟩, ⟨hz0, hz1⟩⟩ := h
  simp only [Mat3.cellsAway]
  rw [floor_eq_zero_of_range _ (by linarith) (by linarith), floor_eq_zero_of_range _ (by linarith) (by linarith),
    floor_eq_zero_of_range _ (by linarith) (by linarith)]

theorem intoCell_idem (m : Mat3) (v : Vec3) (hd : m.det ≠ 0) : m.intoCell (m.intoCell v) = m.intoCell v :=
  intoCell_of_cellsAway_zero m _ (cellsAway_of_inCellEps m _ (intoCell_inCellEps m v hd))

/-! ### atoms not within `1e-9` below a face: `intoCell` is the exact wrap -/

/-- the face tolerance does not change the cell count of `v` -/
def OffFaces (m : Mat3) (v : Vec3) : Prop :=
  m.cellsAway v = ((m.frac v).x.floor, (m.frac v).y.floor, (m.frac v).z.floor)

instance (m : Mat3) (v : Vec3) : Decidable (OffFaces m v) := by unfold OffFaces; infer_instance

theorem intoCell_eq_wrap (m : Mat3) (v : Vec3) (hd : m.det ≠ 0) (ho : OffFaces m v) : m.intoCell v = m.wrap v := by
  rw [intoCell_eq_add, wrap_eq_shift m v hd, ho]
  rfl

theorem intoCell_inCell (m : Mat3) (v : Vec3) (hd : m.det ≠ 0) (ho : OffFaces m v) : InCell m (m.intoCell v) := by
  rw [intoCell_eq_wrap m v hd ho]; exact wrap_inCell m v hd

/-- an atom inside the cell (`frac ∈ [0,1)³`) that is off the faces is not moved -/
theorem cellsAway_of_inCell (m : Mat3) (v : Vec3) (h : InCell m v) (ho : OffFaces m v) : m.cellsAway v = (0, 0, 0) := by
  obtain ⟨⟨hx0, hx1⟩, ⟨hy0, hy1⟩, ⟨hz0, hz1⟩⟩ := h
  rw [ho, floor_eq_zero_of_range _ hx0 hx1, floor_eq_zero_of_range _ hy0 hy1, floor_eq_zero_of_range _ hz0 hz1]

/-! ### the wrapped structure -/

theorem wrapped_length (inp : FindInput) : inp.wrapped.pos.length = inp.pos.length := by
  simp [FindInput.wrapped]

theorem wrapped_getD (inp : FindInput) (i : Nat) (h : i < inp.pos.length) :
    inp.wrapped.pos.getD i Vec3.zero = inp.cell.intoCell (inp.pos.getD i Vec3.zero) := by
  simp [FindInput.wrapped, List.getD_eq_getElem?_getD, List.getElem?_map, List.getElem?_eq_getElem h]

/-- wrapping a structure none of whose atoms is a whole cell away changes nothing -/
theorem wrapped_of_inside (inp : FindInput) (h : ∀ p ∈ inp.pos, inp.cell.cellsAway p = (0, 0, 0)) : inp.wrapped = inp := by
  have : inp.pos.map inp.cell.intoCell = inp.pos := by
    conv => rhs; rw [← List.map_id inp.pos]
    apply List.map_congr_left
    intro p hp
    exact intoCell_of_cellsAway_zero _ _ (h p hp)
  cases inp
  simp only [FindInput.wrapped] at this ⊢
  rw [this]

theorem wrapped_wrapped (inp : FindInput) (hd : inp.cell.det ≠ 0) : inp.wrapped.wrapped = inp.wrapped := by
  apply wrapped_of_inside
  intro p hp
  simp only [FindInput.wrapped, List.mem_map] at hp
  obtain ⟨v, -, rfl⟩ := hp
  exact cellsAway_of_inCellEps _ _ (intoCell_inCellEps inp.cell v hd)

/-- every atom of the wrapped structure is inside the cell up to the face tolerance -/
theorem wrapped_inCellEps (inp : FindInput) (hd : inp.cell.det ≠ 0) : ∀ p ∈ inp.wrapped.pos, InCellEps inp.cell p := by
  intro p hp
  simp only [FindInput.wrapped, List.mem_map] at hp
  obtain ⟨v, -, rfl⟩ := hp
  exact intoCell_inCellEps inp.cell v hd

/-- … and exactly inside (`frac ∈ [0,1)³`) when no stored atom is within `1e-9` below a face -/
theorem wrapped_inCell (inp : FindInput) (hd : inp.cell.det ≠ 0) (ho : ∀ v ∈ inp.pos, OffFaces inp.cell v) :
    ∀ p ∈ inp.wrapped.pos, InCell inp.cell p := by
  intro p hp
  simp only [FindInput.wrapped, List.mem_map] at hp
  obtain ⟨v, hv, rfl⟩ := hp
  exact intoCell_inCell inp.cell v hd (ho v hv)

/-- **find (wrap S) = find S**: the search does not see whether the atoms were stored wrapped or not -/
theorem findW_wrapped (inp : FindInput) (ax1 : Nat) (oracle : Nat → Nat → Quat) (choose : Nat → List Nat → Nat)
    (hd : inp.cell.det ≠ 0) : findW inp.wrapped ax1 oracle choose = findW inp ax1 oracle choose := by
  unfold findW; rw [wrapped_wrapped inp hd]

theorem findGroupsW_wrapped (inp : FindInput) (ax1 : Nat) (oracle : Nat → Nat → Quat) (hd : inp.cell.det ≠ 0) :
    findGroupsW inp.wrapped ax1 oracle = findGroupsW inp ax1 oracle := by
  unfold findGroupsW; rw [wrapped_wrapped inp hd]

/-- on a structure none of whose atoms is a whole cell away `find_pattern_in_structure` is the search on the stored
    positions -/
theorem findW_of_inside (inp : FindInput) (ax1 : Nat) (oracle : Nat → Nat → Quat) (choose : Nat → List Nat → Nat)
    (h : ∀ p ∈ inp.pos, inp.cell.cellsAway p = (0, 0, 0)) : findW inp ax1 oracle choose = find inp ax1 oracle choose := by
  unfold findW; rw [wrapped_of_inside inp h]

end Mofun
