/-
  FindSoundWrapped.lean — atoms stored outside the unit cell (C01; also used by C02/C03/C08):
  `Mat3.intoCell` (Model/Find.lean: `positions − floor(positions · cell⁻¹) · cell`) is a translation by an INTEGER lattice
  vector; for a cell of non-zero volume it is `Mat3.wrap` (Model/Lattice.lean, the wrap of the replacement code), lands
  inside the cell and is idempotent; hence `findW (wrapped S) = findW S`, and `findW S = find S` when every atom of `S` is
  inside the cell.
-/
import MofunModel.Model.Find
import MofunModel.Proofs.WrapLemmas

namespace Mofun

open Mofun.C05

/-- `intoCell v = v + (−i·A − j·B − k·C)`, `(i, j, k) = cellsAway v` — integer multipliers, no hypothesis on the cell -/
theorem intoCell_eq_add (m : Mat3) (v : Vec3) :
    m.intoCell v = Vec3.add v (m.lattice ((-(m.cellsAway v).1 : Int) : Rat) ((-(m.cellsAway v).2.1 : Int) : Rat)
      ((-(m.cellsAway v).2.2 : Int) : Rat)) := by
  simp only [Mat3.intoCell, Mat3.lattice, Vec3.sub, Vec3.add, Vec3.smul, Vec3.mk.injEq]
  push_cast
  refine ⟨by ring, by ring, by ring⟩

/-- for a cell of non-zero volume `intoCell` is the wrap of Model/Lattice.lean (`(frac mod 1) · cell`) -/
theorem intoCell_eq_wrap (m : Mat3) (v : Vec3) (hd : m.det ≠ 0) : m.intoCell v = m.wrap v := by
  rw [intoCell_eq_add, wrap_eq_shift m v hd]
  rfl

theorem intoCell_inCell (m : Mat3) (v : Vec3) (hd : m.det ≠ 0) : InCell m (m.intoCell v) := by
  rw [intoCell_eq_wrap m v hd]; exact wrap_inCell m v hd

/-- an atom inside the cell is not moved at all (no hypothesis on the cell: its floors are zero) -/
theorem intoCell_of_cellsAway_zero (m : Mat3) (v : Vec3) (h : m.cellsAway v = (0, 0, 0)) : m.intoCell v = v := by
  simp only [Mat3.intoCell, h, Mat3.lattice, Vec3.sub, Vec3.add, Vec3.smul]
  cases v; simp

theorem cellsAway_of_inCell (m : Mat3) (v : Vec3) (h : InCell m v) : m.cellsAway v = (0, 0, 0) := by
  obtain ⟨⟨hx0, hx1⟩, ⟨hy0, hy1⟩, ⟨hz0, hz1⟩⟩ := h
  simp only [Mat3.cellsAway]
  rw [floor_eq_zero_of_range _ hx0 hx1, floor_eq_zero_of_range _ hy0 hy1, floor_eq_zero_of_range _ hz0 hz1]

theorem intoCell_idem (m : Mat3) (v : Vec3) (hd : m.det ≠ 0) : m.intoCell (m.intoCell v) = m.intoCell v :=
  intoCell_of_cellsAway_zero m _ (cellsAway_of_inCell m _ (intoCell_inCell m v hd))

/-! ### the wrapped structure -/

theorem wrapped_length (inp : FindInput) : inp.wrapped.pos.length = inp.pos.length := by
  simp [FindInput.wrapped]

theorem wrapped_getD (inp : FindInput) (i : Nat) (h : i < inp.pos.length) :
    inp.wrapped.pos.getD i Vec3.zero = inp.cell.intoCell (inp.pos.getD i Vec3.zero) := by
  simp [FindInput.wrapped, List.getD_eq_getElem?_getD, List.getElem?_map, List.getElem?_eq_getElem h]

/-- wrapping a structure whose atoms are already inside the cell changes nothing -/
theorem wrapped_of_inside (inp : FindInput) (h : ∀ p ∈ inp.pos, inp.cell.cellsAway p = (0, 0, 0)) : inp.wrapped = inp := by
  have : inp.pos.map inp.cell.intoCell = inp.pos := by
    conv => rhs; rw [← List.map_id inp.pos]
    apply List.map_congr_left
    intro p hp
    exact intoCell_of_cellsAway_zero _ _ (h p hp)
  cases inp
  simp only [FindInput.wrapped] at this ⊢
  rw [this]

theorem wrapped_wrapped (inp : FindInput) (hd : inp.cell.det ≠ 0) : inp.wrapped.wrapped = inp.wrapped := by
  apply wrapped_of_inside
  intro p hp
  simp only [FindInput.wrapped, List.mem_map] at hp
  obtain ⟨v, -, rfl⟩ := hp
  exact cellsAway_of_inCell _ _ (intoCell_inCell inp.cell v hd)

/-- every atom of the wrapped structure is inside the cell -/
theorem wrapped_inCell (inp : FindInput) (hd : inp.cell.det ≠ 0) : ∀ p ∈ inp.wrapped.pos, InCell inp.cell p := by
  intro p hp
  simp only [FindInput.wrapped, List.mem_map] at hp
  obtain ⟨v, -, rfl⟩ := hp
  exact intoCell_inCell inp.cell v hd

/-- **find (wrap S) = find S**: the search does not see whether the atoms were stored wrapped or not -/
theorem findW_wrapped (inp : FindInput) (ax1 : Nat) (oracle : Nat → Nat → Quat) (choose : Nat → List Nat → Nat)
    (hd : inp.cell.det ≠ 0) : findW inp.wrapped ax1 oracle choose = findW inp ax1 oracle choose := by
  unfold findW; rw [wrapped_wrapped inp hd]

theorem findGroupsW_wrapped (inp : FindInput) (ax1 : Nat) (oracle : Nat → Nat → Quat) (hd : inp.cell.det ≠ 0) :
    findGroupsW inp.wrapped ax1 oracle = findGroupsW inp ax1 oracle := by
  unfold findGroupsW; rw [wrapped_wrapped inp hd]

/-- on a structure whose atoms are inside the cell `find_pattern_in_structure` is the search on the stored positions -/
theorem findW_of_inside (inp : FindInput) (ax1 : Nat) (oracle : Nat → Nat → Quat) (choose : Nat → List Nat → Nat)
    (h : ∀ p ∈ inp.pos, inp.cell.cellsAway p = (0, 0, 0)) : findW inp ax1 oracle choose = find inp ax1 oracle choose := by
  unfold findW; rw [wrapped_of_inside inp h]

end Mofun
