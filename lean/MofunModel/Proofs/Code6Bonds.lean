/-
  Code6Bonds.lean — the double loop of the generated `detect_bonds` (Generated/Code6.lean: nested `Py.forFoldM?` over
  `enumerate`, index arithmetic `idx2 = i + idx1 + 1`, `positions[idx1+1:]`, `elements[idx]`, the squared-distance column
  of `cdist` and `np.any(ss < cutoff)`) in the vocabulary of Model/Bonds.lean (`bondRow`, `bondPairs`, `bondTest`,
  `withinCutoff`).  Core Lean only.
-/
import MofunModel.Generated.Code6
import MofunModel.Model.Bonds

namespace Mofun.Code6Bonds
open Mofun Mofun.Generated
set_option linter.unusedSimpArgs false

/-- `np.any(cdist(atom1 + offsets, [atom2]) < c)` in the prelude's sqrt-free form is the model's `withinCutoff` -/
theorem anyDistLt_eq (offs : List Vec3) (p1 p2 : Vec3) (c : Rat) :
    Py6.anyDistLt (Py6.cdistSqCol (Py6.vecAddRows p1 offs) p2) c = withinCutoff offs p1 p2 c := by
  simp only [Py6.anyDistLt, Py6.cdistSqCol, Py6.vecAddRows, withinCutoff, List.any_map, distSq, Function.comp_def]
  rfl

/-- the row `[i, j]` the code appends for a pair -/
def pairRow (p : Nat × Nat) : List Nat := [p.1, p.2]

/-- what one iteration of the inner loop does, for the pair (idx1, i + idx1 + 1) -/
def innerStep (cutoff : String → String → Option Rat) (elements : List String) (offs : List Vec3) (idx1 : Nat) (p1 : Vec3)
    (bonds : List (List Nat)) (i : Nat) (atom2 : Vec3) : Option (List (List Nat)) :=
  match elements[idx1]? with
  | none => none
  | some t1 =>
    match elements[i + idx1 + 1]? with
    | none => none
    | some t2 =>
      match cutoff t1 t2 with
      | none => none
      | some c => some (if withinCutoff offs p1 atom2 c then bonds ++ [[idx1, i + idx1 + 1]] else bonds)

/-- the inner loop over the atoms after `idx1` is the model's `bondRow` -/
theorem inner_eq (elements : List String) (offs : List Vec3) (idx1 : Nat) (e1 : String) (p1 : Vec3)
    (f : List (List Nat) → Nat × Vec3 → Option (List (List Nat)))
    (hf : ∀ bonds i atom2, f bonds (i, atom2) = innerStep Mofun.maxBondLength elements offs idx1 p1 bonds i atom2)
    (h1 : elements[idx1]? = some e1) :
    ∀ (rest : List BAtom) (t0 : Nat) (acc : List (List Nat)) (pre : List String),
      elements = pre ++ rest.map (·.1) → pre.length = t0 + idx1 + 1 →
      Py.forFoldM? (Py.enumerateFrom t0 (rest.map (·.2))) acc f =
        match bondRow (bondTest offs) idx1 (e1, p1) (t0 + idx1 + 1) rest with
        | .error _ => none
        | .ok row => some (acc ++ row.map pairRow) := by
  intro rest
  induction rest with
  | nil => intro t0 acc pre _ _; simp [Py.enumerateFrom, Py.forFoldM?, bondRow]
  | cons a2 tl ih =>
    intro t0 acc pre hel hlen
    have h2 : elements[t0 + idx1 + 1]? = some a2.1 := by
      rw [hel, List.getElem?_append_right (by omega)]
      simp [hlen]
    have htl := fun acc' => ih (t0 + 1) acc' (pre ++ [a2.1]) (by simp [hel]) (by simp [hlen]; omega)
    simp only [List.map_cons, Py.enumerateFrom, Py.forFoldM?, hf, innerStep, h1, h2, bondRow, bondTest]
    cases hc : Mofun.maxBondLength e1 a2.1 with
    | none => rfl
    | some c =>
      simp only []
      rw [htl]
      have e : t0 + 1 + idx1 + 1 = t0 + idx1 + 1 + 1 := by omega
      rw [e]
      cases hr : bondRow (bondTest offs) idx1 (e1, p1) (t0 + idx1 + 1 + 1) tl with
      | error err => rfl
      | ok row =>
        by_cases hw : withinCutoff offs p1 a2.2 c = true
        · simp [hw, pairRow]
        · simp [hw]

/-- the outer loop is the model's `bondPairs` -/
theorem outer_eq (atoms : List BAtom) (offs : List Vec3)
    (g : List (List Nat) → Nat × Vec3 → Option (List (List Nat)))
    (F : Nat → Vec3 → List (List Nat) → Nat × Vec3 → Option (List (List Nat)))
    (hg : ∀ bonds idx1 atom1, g bonds (idx1, atom1) =
      Py.forFoldM? (Py.enumerate (List.drop (idx1 + 1) (atoms.map (·.2)))) bonds (F idx1 atom1))
    (hF : ∀ idx1 atom1 bonds i atom2, F idx1 atom1 bonds (i, atom2) =
      innerStep Mofun.maxBondLength (atoms.map (·.1)) offs idx1 atom1 bonds i atom2) :
    ∀ (rest : List BAtom) (i0 : Nat) (acc : List (List Nat)) (pre : List BAtom),
      atoms = pre ++ rest → pre.length = i0 →
      Py.forFoldM? (Py.enumerateFrom i0 (rest.map (·.2))) acc g =
        match bondPairs (bondTest offs) i0 rest with
        | .error _ => none
        | .ok l => some (acc ++ l.map pairRow) := by
  intro rest
  induction rest with
  | nil => intro i0 acc pre _ _; simp [Py.enumerateFrom, Py.forFoldM?, bondPairs]
  | cons a1 tl ih =>
    intro i0 acc pre hat hlen
    have h1 : (atoms.map (·.1))[i0]? = some a1.1 := by
      rw [hat, List.map_append, List.getElem?_append_right (by simp [hlen])]
      simp [hlen]
    have hdrop : List.drop (i0 + 1) (atoms.map (·.2)) = tl.map (·.2) := by
      rw [hat, List.map_append, List.drop_append]
      have e1 : List.drop (i0 + 1) (pre.map (·.2)) = [] := List.drop_eq_nil_of_le (by simp [hlen])
      have e2 : i0 + 1 - (pre.map (·.2)).length = 1 := by simp [hlen]
      rw [e1, e2]; rfl
    have hin := inner_eq (atoms.map (·.1)) offs i0 a1.1 a1.2 (F i0 a1.2) (hF i0 a1.2) h1 tl 0 acc
      ((pre ++ [a1]).map (·.1)) (by simp [hat]) (by simp [hlen])
    have htl := fun acc' => ih (i0 + 1) acc' (pre ++ [a1]) (by simp [hat]) (by simp [hlen])
    simp only [List.map_cons, Py.enumerateFrom, Py.forFoldM?, hg, hdrop, Py.enumerate, bondPairs]
    rw [hin]
    simp only [Nat.zero_add]
    cases hr : bondRow (bondTest offs) i0 (a1.1, a1.2) (i0 + 1) tl with
    | error err => rfl
    | ok row =>
      simp only []
      rw [htl]
      cases hp : bondPairs (bondTest offs) (i0 + 1) tl with
      | error err => rfl
      | ok l => simp

end Mofun.Code6Bonds
