/- helper lemmas for C13 (LAMMPS data files): numbers as text, printed precision, the reader's state machine,
   the sections of a written file, the arrays read back -/
import MofunModel.Model.Lmp
namespace Mofun.Lmp

/-! ### digits -/

theorem toDigits_all_digit (n : Nat) : (Nat.toDigits 10 n).all Char.isDigit = true := by
  rw [List.all_eq_true]
  intro c hc
  exact Nat.isDigit_of_mem_toDigits (by decide) (by decide) hc

theorem readDigits_toDigits (n : Nat) : readDigits (Nat.toDigits 10 n) = some n := by
  unfold readDigits
  have h1 : (Nat.toDigits 10 n).isEmpty = false := by
    cases h : Nat.toDigits 10 n with
    | nil => exact absurd h Nat.toDigits_ne_nil
    | cons _ _ => rfl
  simp [h1, toDigits_all_digit]

theorem toDigits_head (n : Nat) : ∃ c t, Nat.toDigits 10 n = c :: t ∧ c.isDigit = true := by
  cases h : Nat.toDigits 10 n with
  | nil => exact absurd h Nat.toDigits_ne_nil
  | cons c t =>
    refine ⟨c, t, rfl, ?_⟩
    have := toDigits_all_digit n
    rw [h] at this
    simp at this
    exact this.1

theorem digits_ne_dot (l : List Char) (h : l.all Char.isDigit = true) : ∀ c ∈ l, (c != '.') = true := by
  intro c hc
  have hd : c.isDigit = true := List.all_eq_true.mp h c hc
  cases hcd : (c != '.') with
  | true => rfl
  | false =>
    have : c = '.' := by simpa using hcd
    subst this
    exact absurd hd (by decide)

theorem takeWhile_digits (l r : List Char) (h : l.all Char.isDigit = true) :
    (l ++ '.' :: r).takeWhile (· != '.') = l := by
  rw [List.takeWhile_append_of_pos (digits_ne_dot l h)]
  simp

theorem dropWhile_digits (l r : List Char) (h : l.all Char.isDigit = true) :
    (l ++ '.' :: r).dropWhile (· != '.') = '.' :: r := by
  rw [List.dropWhile_append_of_pos (digits_ne_dot l h)]
  simp

theorem takeWhile_all {α} (p : α → Bool) (l : List α) (h : ∀ c ∈ l, p c = true) : l.takeWhile p = l := by
  induction l with
  | nil => rfl
  | cons x xs ih =>
    have hx : p x = true := h x (by simp)
    simp only [List.takeWhile_cons, hx, if_true]
    rw [ih (fun c hc => h c (by simp [hc]))]

theorem dropWhile_all {α} (p : α → Bool) (l : List α) (h : ∀ c ∈ l, p c = true) : l.dropWhile p = [] := by
  induction l with
  | nil => rfl
  | cons x xs ih =>
    have hx : p x = true := h x (by simp)
    simp only [List.dropWhile_cons, hx, if_true]
    exact ih (fun c hc => h c (by simp [hc]))

/-! ### reading what was printed -/

theorem ofDigitChars_pad6 (k : Nat) : Nat.ofDigitChars 10 (pad6 k) 0 = k := by
  unfold pad6
  rw [Nat.ofDigitChars_append, Nat.ofDigitChars_replicate_zero]
  simp

theorem pad6_length (k : Nat) (hk : k < 1000000) : (pad6 k).length = 6 := by
  unfold pad6
  have h := (Nat.length_toDigits_le_iff (b := 10) (n := k) (k := 6) (by decide) (by decide)).mpr (by simpa using hk)
  simp only [List.length_append, List.length_replicate]
  omega

theorem pad6_all_digit (k : Nat) : (pad6 k).all Char.isDigit = true := by
  unfold pad6
  rw [List.all_append, toDigits_all_digit]
  simp

theorem readUMicro_digits (n : Nat) : readUMicro (Nat.toDigits 10 n) = some (n * 1000000) := by
  unfold readUMicro
  rw [takeWhile_all _ _ (digits_ne_dot _ (toDigits_all_digit n)), dropWhile_all _ _ (digits_ne_dot _ (toDigits_all_digit n)),
    readDigits_toDigits]

theorem readUMicro_fixed (i k : Nat) (hk : k < 1000000) :
    readUMicro (Nat.toDigits 10 i ++ '.' :: pad6 k) = some (i * 1000000 + k) := by
  unfold readUMicro
  rw [takeWhile_digits _ _ (toDigits_all_digit i), dropWhile_digits _ _ (toDigits_all_digit i), readDigits_toDigits]
  simp [pad6_length k hk, pad6_all_digit, ofDigitChars_pad6]

theorem signed_digit (rd : List Char → Option Nat) (c : Char) (t : List Char) (hc : c.isDigit = true) :
    signed rd (c :: t) = (rd (c :: t)).map (fun (n : Nat) => Int.ofNat n) := by
  have h1 : c ≠ '-' := by intro h; subst h; exact absurd hc (by decide)
  have h2 : c ≠ '+' := by intro h; subst h; exact absurd hc (by decide)
  unfold signed
  split
  · rename_i heq; cases heq; exact absurd rfl h1
  · rename_i heq; cases heq; exact absurd rfl h2
  · rfl

theorem signed_minus (rd : List Char → Option Nat) (r : List Char) :
    signed rd ('-' :: r) = (rd r).map (fun (n : Nat) => -(Int.ofNat n)) := by
  simp [signed]

theorem signed_toDigits (rd : List Char → Option Nat) (n : Nat) (r : List Char) :
    signed rd (Nat.toDigits 10 n ++ r) = (rd (Nat.toDigits 10 n ++ r)).map (fun (n : Nat) => Int.ofNat n) := by
  obtain ⟨c, t, h, hc⟩ := toDigits_head n
  rw [h]
  exact signed_digit rd c (t ++ r) hc

theorem readMicro_showMicro (μ : Int) : readMicro (showMicro μ) = some μ := by
  unfold readMicro showMicro
  rw [String.toList_ofList]
  have hk : μ.natAbs % 1000000 < 1000000 := Nat.mod_lt _ (by decide)
  have hdm : μ.natAbs / 1000000 * 1000000 + μ.natAbs % 1000000 = μ.natAbs := by omega
  by_cases hneg : μ < 0
  · simp only [hneg, if_true, List.cons_append, List.nil_append]
    rw [signed_minus, readUMicro_fixed _ _ hk, hdm]
    simp only [Option.map_some, Option.some.injEq, Int.ofNat_eq_natCast]
    omega
  · simp only [hneg, if_false, List.nil_append]
    rw [signed_toDigits, readUMicro_fixed _ _ hk, hdm]
    simp only [Option.map_some, Option.some.injEq, Int.ofNat_eq_natCast]
    omega

theorem readMicro_showNat (n : Nat) : readMicro (showNat n) = some ((n : Int) * 1000000) := by
  unfold readMicro showNat
  rw [String.toList_ofList]
  have := signed_toDigits readUMicro n []
  simp only [List.append_nil] at this
  rw [this, readUMicro_digits]
  simp

theorem readMicro_showInt (i : Int) : readMicro (showInt i) = some (i * 1000000) := by
  unfold showInt
  by_cases h : i < 0
  · simp only [h, if_true]
    unfold readMicro
    rw [String.toList_ofList]
    rw [signed_minus, readUMicro_digits]
    simp only [Option.map_some, Option.some.injEq, Int.ofNat_eq_natCast]
    omega
  · simp only [h, if_false]
    rw [readMicro_showNat]
    congr 1
    have : ((i.toNat : Nat) : Int) = i := by omega
    rw [this]

theorem readInt_showNat (n : Nat) : readInt (showNat n) = some (n : Int) := by
  unfold readInt showNat
  rw [String.toList_ofList]
  have := signed_toDigits readDigits n []
  simp only [List.append_nil] at this
  rw [this, readDigits_toDigits]
  simp

/-! ### a printed number is never a word of the format -/

/-- the token starts like a number: a digit or a minus sign -/
def startsNum (s : String) : Bool :=
  match s.toList with
  | c :: _ => c.isDigit || c == '-'
  | [] => false

theorem startsNum_showNat (n : Nat) : startsNum (showNat n) = true := by
  unfold startsNum showNat
  rw [String.toList_ofList]
  obtain ⟨c, t, h, hc⟩ := toDigits_head n
  rw [h]; simp [hc]

theorem startsNum_showInt (i : Int) : startsNum (showInt i) = true := by
  unfold showInt
  by_cases h : i < 0
  · simp only [h, if_true]; unfold startsNum; rw [String.toList_ofList]; simp
  · simp only [h, if_false]; exact startsNum_showNat _

theorem startsNum_showMicro (μ : Int) : startsNum (showMicro μ) = true := by
  unfold startsNum showMicro
  rw [String.toList_ofList]
  by_cases h : μ < 0
  · simp [h]
  · simp only [h, if_false, List.nil_append]
    obtain ⟨c, t, hd, hc⟩ := toDigits_head (μ.natAbs / 1000000)
    rw [hd]; simp [hc]

theorem ne_of_startsNum {s w : String} (hs : startsNum s = true) (hw : startsNum w = false) : s ≠ w := by
  intro h; subst h; rw [hs] at hw; cases hw

theorem beq_num_false {w t : String} (hw : startsNum w = false) (ht : startsNum t = true) : (w == t) = false := by
  rw [beq_eq_false_iff_ne]
  exact fun h => ne_of_startsNum ht hw h.symm

/-! ### printed precision -/

theorem ofMicro_zero : ofMicro 0 = 0 := by decide +kernel

theorem quantMicro_ofMicro (μ : Int) : quantMicro (ofMicro μ) = μ := by
  unfold quantMicro ofMicro
  have h : (μ : Rat) / 1000000 * 1000000 = (μ : Rat) := by
    rw [Rat.div_mul_cancel]; decide +kernel
  simp only [h, Rat.floor_intCast, Rat.sub_self]
  have : (0 : Rat) < 1 / 2 := by decide +kernel
  simp [this]

theorem quantMicro_zero : quantMicro 0 = 0 := by
  have := quantMicro_ofMicro 0
  rwa [ofMicro_zero] at this

theorem quant_zero : quant 0 = 0 := by
  unfold quant; rw [quantMicro_zero, ofMicro_zero]

theorem quant_quant (x : Rat) : quant (quant x) = quant x := by
  unfold quant; rw [quantMicro_ofMicro]

/-! ### the loop over lines -/

theorem run_append (s : PState) (l₁ l₂ : List Line) :
    run s (l₁ ++ l₂) = match run s l₁ with
      | .ok s' => run s' l₂
      | .error e => .error e := by
  induction l₁ generalizing s with
  | nil => simp [run]
  | cons l ls ih =>
    simp only [List.cons_append, run]
    cases h : step s l with
    | error e => simp
    | ok s' => simp [ih]

theorem run_append_ok {s s' : PState} {l₁ : List Line} (l₂ : List Line) (h : run s l₁ = .ok s') :
    run s (l₁ ++ l₂) = run s' l₂ := by
  rw [run_append, h]

/-- a data row of a section: not blank, not a section name (since the reader splits a line at the FIRST `#` only, any
    comment is accepted) -/
def RowOk (l : Line) : Prop :=
  l.tokens.isEmpty = false ∧ sectionOf l.tokens = none

def pushAll (sec : Sec) : PData → List Line → Except Err PData
  | d, [] => .ok d
  | d, l :: ls =>
    match push sec d l with
    | .ok d' => pushAll sec d' ls
    | .error e => .error e

theorem step_blank (s : PState) : step s blank = .ok { s with cur := if s.start then s.cur else none, start := false } := by
  simp [step, blank, sectionOf]

theorem sectionOf_name (sec : Sec) : sectionOf sec.name = some sec := by
  cases sec <;> decide

theorem step_name (s : PState) (sec : Sec) : step s ⟨sec.name, none⟩ = .ok { s with cur := some sec, start := true } := by
  simp [step, sectionOf_name]

theorem step_row (s : PState) (sec : Sec) (l : Line) (h : RowOk l) (hc : s.cur = some sec) :
    step s l = match push sec s.d l with
      | .ok d => .ok { s with d := d }
      | .error e => .error e := by
  obtain ⟨h1, h2⟩ := h
  simp [step, h1, h2, hc]
  cases push sec s.d l <;> rfl

theorem run_rows (s : PState) (sec : Sec) (rows : List Line) (h : ∀ r ∈ rows, RowOk r) (hc : s.cur = some sec) :
    run s rows = match pushAll sec s.d rows with
      | .ok d => .ok { s with d := d }
      | .error e => .error e := by
  induction rows generalizing s with
  | nil => simp [run, pushAll]
  | cons r rs ih =>
    simp only [run, pushAll]
    rw [step_row s sec r (h r (by simp)) hc]
    cases hp : push sec s.d r with
    | error e => simp
    | ok d =>
      simp only
      rw [ih { s with d := d } (fun r' hr' => h r' (by simp [hr'])) hc]

/-- a section block entered with `start_section = false` (whatever section was active): the rows are pushed -/
theorem run_block (s : PState) (hs : s.start = false) (sec : Sec) (rows : List Line) (h : ∀ r ∈ rows, RowOk r) :
    run s (block sec rows) = match pushAll sec s.d rows with
      | .ok d => .ok ⟨some sec, false, d⟩
      | .error e => .error e := by
  unfold block
  simp only [run, step_blank, step_name, hs]
  rw [run_rows _ sec rows h rfl]
  cases pushAll sec s.d rows <;> rfl

theorem run_optBlock (s : PState) (hs : s.start = false) (sec : Sec) (rows : List Line) (h : ∀ r ∈ rows, RowOk r)
    (d' : PData) (hp : pushAll sec s.d rows = .ok d') :
    ∃ c, run s (optBlock sec rows) = .ok ⟨c, false, d'⟩ := by
  unfold optBlock
  cases rows with
  | nil =>
    simp only [List.isEmpty_nil, if_true, run]
    simp only [pushAll] at hp
    cases hp
    exact ⟨s.cur, by cases s; simp_all⟩
  | cons r rs =>
    simp only [List.isEmpty_cons]
    refine ⟨some sec, ?_⟩
    rw [if_neg (by simp), run_block s hs sec _ h, hp]


/-! ### what each section accumulates -/

theorem pushAll_pair (d : PData) (rows : List Line) :
    pushAll .pairCoeffs d rows = .ok { d with pair := d.pair ++ rows.map (coeffOf " ") } := by
  induction rows generalizing d with
  | nil => simp [pushAll]
  | cons r rs ih => simp [pushAll, push, ih, List.append_assoc]

theorem pushAll_bond (d : PData) (rows : List Line) :
    pushAll .bondCoeffs d rows = .ok { d with bond := d.bond ++ rows.map (coeffOf " ") } := by
  induction rows generalizing d with
  | nil => simp [pushAll]
  | cons r rs ih => simp [pushAll, push, ih, List.append_assoc]

theorem pushAll_angle (d : PData) (rows : List Line) :
    pushAll .angleCoeffs d rows = .ok { d with angle := d.angle ++ rows.map (coeffOf "  ") } := by
  induction rows generalizing d with
  | nil => simp [pushAll]
  | cons r rs ih => simp [pushAll, push, ih, List.append_assoc]

theorem pushAll_dihedral (d : PData) (rows : List Line) :
    pushAll .dihedralCoeffs d rows = .ok { d with dihedral := d.dihedral ++ rows.map (coeffOf " ") } := by
  induction rows generalizing d with
  | nil => simp [pushAll]
  | cons r rs ih => simp [pushAll, push, ih, List.append_assoc]

theorem pushAll_improper (d : PData) (rows : List Line) :
    pushAll .improperCoeffs d rows = .ok { d with improper := d.improper ++ rows.map (coeffOf " ") } := by
  induction rows generalizing d with
  | nil => simp [pushAll]
  | cons r rs ih => simp [pushAll, push, ih, List.append_assoc]

theorem pushAll_atoms (d : PData) (rows : List Line) :
    pushAll .atoms d rows = .ok { d with atoms := d.atoms ++ rows.map (·.tokens) } := by
  induction rows generalizing d with
  | nil => simp [pushAll]
  | cons r rs ih => simp [pushAll, push, ih, List.append_assoc]

theorem pushAll_bonds (d : PData) (rows : List Line) :
    pushAll .bonds d rows = .ok { d with bonds := d.bonds ++ rows.map (·.tokens) } := by
  induction rows generalizing d with
  | nil => simp [pushAll]
  | cons r rs ih => simp [pushAll, push, ih, List.append_assoc]

theorem pushAll_angles (d : PData) (rows : List Line) :
    pushAll .angles d rows = .ok { d with angles := d.angles ++ rows.map (·.tokens) } := by
  induction rows generalizing d with
  | nil => simp [pushAll]
  | cons r rs ih => simp [pushAll, push, ih, List.append_assoc]

theorem pushAll_dihedrals (d : PData) (rows : List Line) :
    pushAll .dihedrals d rows = .ok { d with dihedrals := d.dihedrals ++ rows.map (·.tokens) } := by
  induction rows generalizing d with
  | nil => simp [pushAll]
  | cons r rs ih => simp [pushAll, push, ih, List.append_assoc]

theorem pushAll_impropers (d : PData) (rows : List Line) :
    pushAll .impropers d rows = .ok { d with impropers := d.impropers ++ rows.map (·.tokens) } := by
  induction rows generalizing d with
  | nil => simp [pushAll]
  | cons r rs ih => simp [pushAll, push, ih, List.append_assoc]

/-- `(int(tup[0]), tup[1], comment)` of a Masses row -/
def massEntry (l : Line) : Int × String × Option String :=
  ((readInt (l.tokens.getD 0 "")).getD 0, l.tokens.getD 1 "", l.comment)

theorem pushAll_masses (d : PData) (rows : List Line)
    (h : ∀ r ∈ rows, ∃ i m rest k, r.tokens = i :: m :: rest ∧ readInt i = some k) :
    pushAll .masses d rows = .ok { d with masses := d.masses ++ rows.map massEntry } := by
  induction rows generalizing d with
  | nil => simp [pushAll]
  | cons r rs ih =>
    obtain ⟨i, m, rest, k, hr, hk⟩ := h r (by simp)
    simp only [pushAll, push, hr, hk]
    rw [ih _ (fun r' hr' => h r' (by simp [hr']))]
    simp [massEntry, hr, hk, List.append_assoc]


/-! ### text -/

theorem mem_dropWhile {α} (p : α → Bool) (l : List α) : ∀ c ∈ l.dropWhile p, c ∈ l := by
  induction l with
  | nil => simp
  | cons x xs ih =>
    intro c hc
    simp only [List.dropWhile_cons] at hc
    split at hc
    · exact List.mem_cons_of_mem _ (ih c hc)
    · exact hc

theorem mem_stripRight (l : List Char) : ∀ c ∈ stripRight l, c ∈ l := by
  induction l with
  | nil => simp [stripRight]
  | cons x xs ih =>
    intro c hc
    unfold stripRight at hc
    split at hc
    · split at hc
      · simp at hc
      · simp only [List.mem_singleton] at hc; simp [hc]
    · skip
      simp only [List.mem_cons] at hc
      rcases hc with rfl | hc
      · simp
      · exact List.mem_cons_of_mem _ (ih c hc)

theorem mem_strip (l : List Char) : ∀ c ∈ strip l, c ∈ l := by
  intro c hc
  unfold strip at hc
  exact mem_dropWhile _ _ c (mem_stripRight _ c hc)

theorem strip_blank_cons (l : List Char) : strip (' ' :: l) = strip l := by
  unfold strip
  have : isWs ' ' = true := by decide
  simp [this]

theorem hasHash_strip (l : List Char) (h : l.any (· == '#') = false) :
    hasHash (String.ofList (strip l)) = false := by
  unfold hasHash
  rw [String.toList_ofList]
  rw [List.any_eq_false] at *
  intro c hc
  exact h c (mem_strip l c hc)

theorem lineOf_fields (fields : List String) (rest : String) :
    lineOf fields rest = ⟨fields ++ (lineOf [] rest).tokens, (lineOf [] rest).comment⟩ := by
  simp [lineOf]

/-- a line that ends in `   # label`: the fields are its tokens, the stripped label its comment -/
theorem lineOf_label (fields : List String) (lbl : String) :
    lineOf fields ("   # " ++ lbl) = ⟨fields, some (String.ofList (strip lbl.toList))⟩ := by
  have h : ("   # " ++ lbl).toList = ' ' :: ' ' :: ' ' :: '#' :: ' ' :: lbl.toList := by
    rw [String.toList_append]; rfl
  unfold lineOf
  rw [h]
  have hs : splitHash (' ' :: ' ' :: ' ' :: '#' :: ' ' :: lbl.toList) = ([' ', ' ', ' '], some (' ' :: lbl.toList)) := by
    simp [splitHash]
  rw [hs]
  have hw : splitWs [' ', ' ', ' '] = [] := by decide
  simp [hw, strip_blank_cons]

theorem sectionOf_num (t : String) (rest : List String) (h : startsNum t = true) : sectionOf (t :: rest) = none := by
  have n1 : t ≠ "Masses" := ne_of_startsNum h (by decide)
  have n2 : t ≠ "Atoms" := ne_of_startsNum h (by decide)
  have n3 : t ≠ "Bonds" := ne_of_startsNum h (by decide)
  have n4 : t ≠ "Angles" := ne_of_startsNum h (by decide)
  have n5 : t ≠ "Dihedrals" := ne_of_startsNum h (by decide)
  have n6 : t ≠ "Impropers" := ne_of_startsNum h (by decide)
  have n7 : t ≠ "Pair" := ne_of_startsNum h (by decide)
  have n8 : t ≠ "Bond" := ne_of_startsNum h (by decide)
  have n9 : t ≠ "Angle" := ne_of_startsNum h (by decide)
  have n10 : t ≠ "Dihedral" := ne_of_startsNum h (by decide)
  have n11 : t ≠ "Improper" := ne_of_startsNum h (by decide)
  unfold sectionOf
  split <;> simp_all

/-- a row that starts with a printed id is a data row -/
theorem rowOk_of (t : String) (rest : List String) (c : Option String) (ht : startsNum t = true) :
    RowOk ⟨t :: rest, c⟩ :=
  ⟨rfl, sectionOf_num t rest ht⟩


/-! ### guards on the strings of a structure -/

/-- no type label contains `#` -/
def labelsNoHash (a : Atoms) : Bool := a.typeLabels.all (fun l => !hasHash l)

/-- a coefficient string with at most one `#` (at most one trailing comment) -/
def oneHash (s : String) : Bool :=
  match (splitHash s.toList).2 with
  | some c => !c.any (· == '#')
  | none => true

/-- every coefficient string has at most one `#` -/
def coeffsOneHash (a : Atoms) : Bool :=
  (a.pairCoeffs ++ a.bonds.coeffs ++ a.angles.coeffs ++ a.dihedrals.coeffs ++ a.impropers.coeffs).all oneHash

theorem hasHash_typeLabel (a : Atoms) (h : labelsNoHash a = true) (ty : Nat) : hasHash (typeLabel a ty) = false := by
  unfold typeLabel
  rw [List.getD_eq_getElem?_getD]
  cases hl : a.typeLabels[ty]? with
  | none => decide
  | some l =>
    have hm : l ∈ a.typeLabels := List.mem_of_getElem? hl
    have := List.all_eq_true.mp h l hm
    simpa using this

theorem mem_joinWith (sep : List Char) (xs : List (List Char)) (c : Char) (hc : c ∈ joinWith sep xs) :
    c ∈ sep ∨ ∃ x ∈ xs, c ∈ x := by
  induction xs with
  | nil => simp [joinWith] at hc
  | cons x rest ih =>
    cases rest with
    | nil => simp only [joinWith] at hc; exact Or.inr ⟨x, by simp, hc⟩
    | cons y rest' =>
      simp only [joinWith, List.mem_append] at hc
      rcases hc with (hc | hc) | hc
      · exact Or.inr ⟨x, by simp, hc⟩
      · exact Or.inl hc
      · rcases ih hc with h | ⟨z, hz, hcz⟩
        · exact Or.inl h
        · exact Or.inr ⟨z, List.mem_cons_of_mem _ hz, hcz⟩

theorem hasHash_joinS_blank (parts : List String) (h : ∀ p ∈ parts, hasHash p = false) :
    hasHash (joinS " " parts) = false := by
  unfold joinS hasHash
  rw [String.toList_ofList, List.any_eq_false]
  intro c hc
  rcases mem_joinWith _ _ c hc with hs | ⟨x, hx, hcx⟩
  · have : c = ' ' := by simpa using hs
    subst this; decide
  · obtain ⟨p, hp, rfl⟩ := List.mem_map.mp hx
    have := h p hp
    unfold hasHash at this
    rw [List.any_eq_false] at this
    exact this c hcx

theorem hasHash_atomsLabel (a : Atoms) (h : labelsNoHash a = true) (idx : List Nat) :
    hasHash (atomsLabel a idx) = false := by
  unfold atomsLabel
  apply hasHash_joinS_blank
  intro p hp
  obtain ⟨i, _, rfl⟩ := List.mem_map.mp hp
  exact hasHash_typeLabel a h _

theorem comment_label_ok (lbl : String) (h : hasHash lbl = false) :
    (some (String.ofList (strip lbl.toList))).any hasHash = false := by
  simp only [Option.any_some]
  exact hasHash_strip _ h

/-! ### the rows of a written file are data rows -/

theorem mem_numbered {α β} (f : Nat → α → β) (k : Nat) (l : List α) (y : β) (h : y ∈ numbered f k l) :
    ∃ i x, x ∈ l ∧ y = f i x := by
  induction l generalizing k with
  | nil => simp [numbered] at h
  | cons x xs ih =>
    simp only [numbered, List.mem_cons] at h
    rcases h with h | h
    · exact ⟨k, x, by simp, h⟩
    · obtain ⟨i, x', hx', hy⟩ := ih (k + 1) h
      exact ⟨i, x', by simp [hx'], hy⟩

theorem rowOk_massLine (a : Atoms) (i : Nat) (m : Rat) : RowOk (massLine a i m) := by
  unfold massLine
  rw [lineOf_label]
  exact rowOk_of _ _ _ (startsNum_showNat _)

theorem tokens_massLine (a : Atoms) (i : Nat) (m : Rat) :
    (massLine a i m).tokens = [showNat (i + 1), showMicro (quantMicro m)] := by
  unfold massLine; rw [lineOf_label]

theorem rowOk_atomLine (a : Atoms) (st : Style) (i : Nat) (r : AtomRow) :
    RowOk (atomLine a st i r) := by
  unfold atomLine
  cases st <;> simp only [] <;> rw [lineOf_label] <;>
    exact rowOk_of _ _ _ (startsNum_showNat _)

theorem rowOk_termLine (a : Atoms) (i : Nat) (t : Term) : RowOk (termLine a i t) := by
  unfold termLine
  rw [lineOf_label]
  exact rowOk_of _ _ _ (startsNum_showNat _)

theorem splitHash_blank_cons (l : List Char) : splitHash (' ' :: l) = (' ' :: (splitHash l).1, (splitHash l).2) := by
  simp [splitHash]

theorem rowOk_coeffLine (i : Nat) (s : String) : RowOk (coeffLine i s) := by
  unfold coeffLine lineOf
  exact rowOk_of _ _ _ (startsNum_showNat _)

theorem rowOk_coeffLines (tbl : List String) : ∀ r ∈ coeffLines tbl, RowOk r := by
  intro r hr
  obtain ⟨i, s, _, rfl⟩ := mem_numbered _ _ _ _ hr
  exact rowOk_coeffLine i s


/-! ### the header of a written file -/

theorem step_idle_blank (d : PData) : step ⟨none, false, d⟩ blank = .ok ⟨none, false, d⟩ := by
  simp [step_blank]

theorem step_idle_plain (d : PData) (toks : List String) (h1 : toks.isEmpty = false) (h2 : sectionOf toks = none)
    (hx : hasInfix ["xlo", "xhi"] toks = false) (hy : hasInfix ["ylo", "yhi"] toks = false)
    (hz : hasInfix ["zlo", "zhi"] toks = false) (ht : hasInfix ["xy", "xz", "yz"] toks = false) :
    step ⟨none, false, d⟩ ⟨toks, none⟩ = .ok ⟨none, false, d⟩ := by
  simp [step, header, h1, h2, hx, hy, hz, ht]

theorem hasInfix_cons_false (k : String) (K : List String) (t : String) (kw : List String)
    (h1 : K.isPrefixOf kw = false) (h2 : hasInfix (k :: K) kw = false) : hasInfix (k :: K) (t :: kw) = false := by
  simp [hasInfix, List.isPrefixOf, h1, h2]

/-- the words after the count cannot complete or contain a box / tilt keyword -/
def kwPlain (kw : List String) : Bool :=
  [["xlo", "xhi"], ["ylo", "yhi"], ["zlo", "zhi"], ["xy", "xz", "yz"]].all
    (fun K => !(K.drop 1).isPrefixOf kw && !hasInfix K kw)

theorem step_count (d : PData) (n : Nat) (kw : List String) (h : kwPlain kw = true) :
    step ⟨none, false, d⟩ (countLine n kw) = .ok ⟨none, false, d⟩ := by
  unfold countLine
  simp only [kwPlain, List.all_cons, List.all_nil, Bool.and_true, Bool.and_eq_true, Bool.not_eq_true', List.drop_succ_cons,
    List.drop_zero] at h
  obtain ⟨⟨hx1, hx2⟩, ⟨hy1, hy2⟩, ⟨hz1, hz2⟩, ⟨ht1, ht2⟩⟩ := h
  exact step_idle_plain d _ rfl (sectionOf_num _ _ (startsNum_showNat n))
    (hasInfix_cons_false _ _ _ _ hx1 hx2) (hasInfix_cons_false _ _ _ _ hy1 hy2)
    (hasInfix_cons_false _ _ _ _ hz1 hz2) (hasInfix_cons_false _ _ _ _ ht1 ht2)

theorem run_typeCount (d : PData) (n : Nat) (kw : List String) (h : kwPlain kw = true) :
    run ⟨none, false, d⟩ (typeCountLine n kw) = .ok ⟨none, false, d⟩ := by
  unfold typeCountLine
  split
  · simp [run, step_count d n kw h]
  · simp [run]

theorem lit_ne_micro (w : String) (μ : Int) (hw : startsNum w = false) : (w == showMicro μ) = false :=
  beq_num_false hw (startsNum_showMicro μ)

theorem step_box_x (d : PData) (hi : Rat) :
    step ⟨none, false, d⟩ (boxLine hi "xlo" "xhi") = .ok ⟨none, false, { d with cellx := quantMicro hi - 0 }⟩ := by
  unfold boxLine
  have hs := sectionOf_num (showMicro 0) [showMicro (quantMicro hi), "xlo", "xhi"] (startsNum_showMicro 0)
  simp [step, hs, header, hasInfix, List.isPrefixOf, readLoHi, readMicro_showMicro]

theorem step_box_y (d : PData) (hi : Rat) :
    step ⟨none, false, d⟩ (boxLine hi "ylo" "yhi") = .ok ⟨none, false, { d with celly := quantMicro hi - 0 }⟩ := by
  unfold boxLine
  have hs := sectionOf_num (showMicro 0) [showMicro (quantMicro hi), "ylo", "yhi"] (startsNum_showMicro 0)
  have e1 := lit_ne_micro "xlo" 0 (by decide)
  have e2 := lit_ne_micro "xlo" (quantMicro hi) (by decide)
  simp [step, hs, header, hasInfix, List.isPrefixOf, readLoHi, readMicro_showMicro, e1, e2]

theorem step_box_z (d : PData) (hi : Rat) :
    step ⟨none, false, d⟩ (boxLine hi "zlo" "zhi") = .ok ⟨none, false, { d with cellz := quantMicro hi - 0 }⟩ := by
  unfold boxLine
  have hs := sectionOf_num (showMicro 0) [showMicro (quantMicro hi), "zlo", "zhi"] (startsNum_showMicro 0)
  have e1 := lit_ne_micro "xlo" 0 (by decide)
  have e2 := lit_ne_micro "xlo" (quantMicro hi) (by decide)
  have e3 := lit_ne_micro "ylo" 0 (by decide)
  have e4 := lit_ne_micro "ylo" (quantMicro hi) (by decide)
  simp [step, hs, header, hasInfix, List.isPrefixOf, readLoHi, readMicro_showMicro, e1, e2, e3, e4]

theorem step_tilt (d : PData) (m : Mat3) :
    step ⟨none, false, d⟩ (tiltLine m)
      = .ok ⟨none, false, { d with xy := quantMicro m.b.x, xz := quantMicro m.c.x, yz := quantMicro m.c.y }⟩ := by
  unfold tiltLine
  have hs := sectionOf_num (showMicro (quantMicro m.b.x)) [showMicro (quantMicro m.c.x), showMicro (quantMicro m.c.y), "xy", "xz", "yz"]
    (startsNum_showMicro _)
  have e1 := fun μ => lit_ne_micro "xlo" μ (by decide)
  have e2 := fun μ => lit_ne_micro "ylo" μ (by decide)
  have e3 := fun μ => lit_ne_micro "zlo" μ (by decide)
  have e4 := fun μ => lit_ne_micro "xy" μ (by decide)
  simp [step, hs, header, hasInfix, List.isPrefixOf, readMicro_showMicro, e1, e2, e3, e4]


/-- what the header leaves in the reader's state: box lengths and tilt factors in micro-units -/
def cellData : Option Mat3 → PData
  | none => {}
  | some m =>
    { cellx := quantMicro m.a.x - 0, celly := quantMicro m.b.y - 0, cellz := quantMicro m.c.z - 0,
      xy := if m.isOrtho then 0 else quantMicro m.b.x,
      xz := if m.isOrtho then 0 else quantMicro m.c.x,
      yz := if m.isOrtho then 0 else quantMicro m.c.y }

theorem run_cellLines (c : Option Mat3) : run ⟨none, false, {}⟩ (cellLines c) = .ok ⟨none, false, cellData c⟩ := by
  cases c with
  | none => simp [cellLines, run, cellData]
  | some m =>
    unfold cellLines
    by_cases ho : m.isOrtho = true
    · simp [run, step_box_x, step_box_y, step_box_z, ho, cellData]
    · simp [run, step_box_x, step_box_y, step_box_z, step_tilt, ho, cellData]

/-! the data after each section of a written file -/
def D1 (a : Atoms) : PData := { cellData a.cell with masses := (numbered (massLine a) 0 a.typeMasses).map massEntry }
def D2 (a : Atoms) : PData := { D1 a with pair := (coeffLines a.pairCoeffs).map (coeffOf " ") }
def D3 (a : Atoms) : PData := { D2 a with bond := (coeffLines a.bonds.coeffs).map (coeffOf " ") }
def D4 (a : Atoms) : PData := { D3 a with angle := (coeffLines a.angles.coeffs).map (coeffOf "  ") }
def D5 (a : Atoms) : PData := { D4 a with dihedral := (coeffLines a.dihedrals.coeffs).map (coeffOf " ") }
def D6 (a : Atoms) : PData := { D5 a with improper := (coeffLines a.impropers.coeffs).map (coeffOf " ") }
def D7 (a : Atoms) (st : Style) : PData := { D6 a with atoms := (numbered (atomLine a st) 0 a.atoms).map (·.tokens) }
def D8 (a : Atoms) (st : Style) : PData := { D7 a st with bonds := (termLines a a.bonds.terms).map (·.tokens) }
def D9 (a : Atoms) (st : Style) : PData := { D8 a st with angles := (termLines a a.angles.terms).map (·.tokens) }
def D10 (a : Atoms) (st : Style) : PData := { D9 a st with dihedrals := (termLines a a.dihedrals.terms).map (·.tokens) }

/-- everything the loop has accumulated at the end of a written file -/
def finalData (a : Atoms) (st : Style) : PData :=
  { D10 a st with impropers := (termLines a a.impropers.terms).map (·.tokens) }

theorem cellData_lists (c : Option Mat3) :
    (cellData c).masses = [] ∧ (cellData c).pair = [] ∧ (cellData c).bond = [] ∧ (cellData c).angle = []
    ∧ (cellData c).dihedral = [] ∧ (cellData c).improper = [] ∧ (cellData c).atoms = [] ∧ (cellData c).bonds = []
    ∧ (cellData c).angles = [] ∧ (cellData c).dihedrals = [] ∧ (cellData c).impropers = [] := by
  cases c <;> simp [cellData]

theorem rows_mass (a : Atoms) : ∀ r ∈ numbered (massLine a) 0 a.typeMasses, RowOk r := by
  intro r hr
  obtain ⟨i, m, _, rfl⟩ := mem_numbered _ _ _ _ hr
  exact rowOk_massLine a i m

theorem rows_mass_shape (a : Atoms) :
    ∀ r ∈ numbered (massLine a) 0 a.typeMasses, ∃ i m rest k, r.tokens = i :: m :: rest ∧ readInt i = some k := by
  intro r hr
  obtain ⟨i, m, _, rfl⟩ := mem_numbered _ _ _ _ hr
  exact ⟨_, _, _, _, tokens_massLine a i m, readInt_showNat _⟩

theorem rows_atom (a : Atoms) (st : Style) :
    ∀ r ∈ numbered (atomLine a st) 0 a.atoms, RowOk r := by
  intro r hr
  obtain ⟨i, m, _, rfl⟩ := mem_numbered _ _ _ _ hr
  exact rowOk_atomLine a st i m

theorem rows_term (a : Atoms) (ts : List Term) : ∀ r ∈ termLines a ts, RowOk r := by
  intro r hr
  obtain ⟨i, m, _, rfl⟩ := mem_numbered _ _ _ _ hr
  exact rowOk_termLine a i m

/-- **the reader's loop on a written file**: it ends with `start_section = false` and has accumulated exactly the
    rows of each section (and the box / tilt numbers) -/
theorem run_saveLines (a : Atoms) (st : Style) :
    ∃ c, run {} (saveLines a st) = .ok ⟨c, false, finalData a st⟩ := by
  obtain ⟨e1, e2, e3, e4, e5, e6, e7, e8, e9, e10, e11⟩ := cellData_lists a.cell
  -- the header
  have H0 : run {} [⟨["(written", "by", "mofun)"], none⟩, blank,
      countLine a.atoms.length ["atoms"], countLine a.bonds.terms.length ["bonds"],
      countLine a.angles.terms.length ["angles"], countLine a.dihedrals.terms.length ["dihedrals"],
      countLine a.impropers.terms.length ["impropers"], blank] = .ok ⟨none, false, {}⟩ := by
    have ht : step ⟨none, false, {}⟩ ⟨["(written", "by", "mofun)"], none⟩ = .ok ⟨none, false, {}⟩ :=
      step_idle_plain _ _ (by decide) (by decide) (by decide) (by decide) (by decide) (by decide)
    have hb := step_idle_blank {}
    simp only [run]
    rw [show ({} : PState) = ⟨none, false, {}⟩ from rfl, ht]
    simp only [hb, step_count _ _ _ (show kwPlain ["atoms"] = true by decide),
      step_count _ _ _ (show kwPlain ["bonds"] = true by decide),
      step_count _ _ _ (show kwPlain ["angles"] = true by decide),
      step_count _ _ _ (show kwPlain ["dihedrals"] = true by decide),
      step_count _ _ _ (show kwPlain ["impropers"] = true by decide)]
  have T1 := run_typeCount {} (numAtomTypes a) ["atom", "types"] (by decide)
  have T2 := run_typeCount {} (numTermTypes a.bonds) ["bond", "types"] (by decide)
  have T3 := run_typeCount {} (numTermTypes a.angles) ["angle", "types"] (by decide)
  have T4 := run_typeCount {} (numTermTypes a.dihedrals) ["dihedral", "types"] (by decide)
  have T5 := run_typeCount {} (numTermTypes a.impropers) ["improper", "types"] (by decide)
  have HC := run_cellLines a.cell
  -- the sections
  have S1 : run ⟨none, false, cellData a.cell⟩ (block .masses (numbered (massLine a) 0 a.typeMasses))
      = .ok ⟨some .masses, false, D1 a⟩ := by
    rw [run_block _ rfl .masses _ (rows_mass a), pushAll_masses _ _ (rows_mass_shape a)]
    simp [D1, e1]
  obtain ⟨c2, S2⟩ := run_optBlock ⟨some .masses, false, D1 a⟩ rfl .pairCoeffs _ (rowOk_coeffLines a.pairCoeffs) (D2 a)
    (by rw [pushAll_pair]; simp [D2, D1, e2])
  obtain ⟨c3, S3⟩ := run_optBlock ⟨c2, false, D2 a⟩ rfl .bondCoeffs _ (rowOk_coeffLines a.bonds.coeffs) (D3 a)
    (by rw [pushAll_bond]; simp [D3, D2, D1, e3])
  obtain ⟨c4, S4⟩ := run_optBlock ⟨c3, false, D3 a⟩ rfl .angleCoeffs _ (rowOk_coeffLines a.angles.coeffs) (D4 a)
    (by rw [pushAll_angle]; simp [D4, D3, D2, D1, e4])
  obtain ⟨c5, S5⟩ := run_optBlock ⟨c4, false, D4 a⟩ rfl .dihedralCoeffs _ (rowOk_coeffLines a.dihedrals.coeffs) (D5 a)
    (by rw [pushAll_dihedral]; simp [D5, D4, D3, D2, D1, e5])
  obtain ⟨c6, S6⟩ := run_optBlock ⟨c5, false, D5 a⟩ rfl .improperCoeffs _ (rowOk_coeffLines a.impropers.coeffs) (D6 a)
    (by rw [pushAll_improper]; simp [D6, D5, D4, D3, D2, D1, e6])
  have S7 : run ⟨c6, false, D6 a⟩ (block .atoms (numbered (atomLine a st) 0 a.atoms))
      = .ok ⟨some .atoms, false, D7 a st⟩ := by
    rw [run_block _ rfl .atoms _ (rows_atom a st), pushAll_atoms]
    simp [D7, D6, D5, D4, D3, D2, D1, e7]
  obtain ⟨c8, S8⟩ := run_optBlock ⟨some .atoms, false, D7 a st⟩ rfl .bonds _ (rows_term a a.bonds.terms) (D8 a st)
    (by rw [pushAll_bonds]; simp [D8, D7, D6, D5, D4, D3, D2, D1, e8])
  obtain ⟨c9, S9⟩ := run_optBlock ⟨c8, false, D8 a st⟩ rfl .angles _ (rows_term a a.angles.terms) (D9 a st)
    (by rw [pushAll_angles]; simp [D9, D8, D7, D6, D5, D4, D3, D2, D1, e9])
  obtain ⟨c10, S10⟩ := run_optBlock ⟨c9, false, D9 a st⟩ rfl .dihedrals _ (rows_term a a.dihedrals.terms) (D10 a st)
    (by rw [pushAll_dihedrals]; simp [D10, D9, D8, D7, D6, D5, D4, D3, D2, D1, e10])
  obtain ⟨c11, S11⟩ := run_optBlock ⟨c10, false, D10 a st⟩ rfl .impropers _ (rows_term a a.impropers.terms)
    (finalData a st) (by rw [pushAll_impropers]; simp [finalData, D10, D9, D8, D7, D6, D5, D4, D3, D2, D1, e11])
  refine ⟨c11, ?_⟩
  unfold saveLines
  simp only [List.append_assoc]
  rw [run_append_ok _ H0, run_append_ok _ T1, run_append_ok _ T2, run_append_ok _ T3, run_append_ok _ T4,
    run_append_ok _ T5, run_append_ok _ HC, run_append_ok _ S1, run_append_ok _ S2, run_append_ok _ S3,
    run_append_ok _ S4, run_append_ok _ S5, run_append_ok _ S6, run_append_ok _ S7, run_append_ok _ S8,
    run_append_ok _ S9, run_append_ok _ S10, S11]


/-! ### the arrays read back -/

theorem mapOpt_map {α β γ} (f : β → Option γ) (g : α → β) (h : α → γ) (l : List α)
    (H : ∀ x ∈ l, f (g x) = some (h x)) : mapOpt f (l.map g) = some (l.map h) := by
  induction l with
  | nil => rfl
  | cons x xs ih =>
    simp only [List.map_cons, mapOpt, H x (by simp), ih (fun y hy => H y (by simp [hy]))]

theorem mapOpt_numbered {α β γ} (f : β → Option γ) (g : Nat → α → β) (h : Nat → α → γ) (k : Nat) (l : List α)
    (H : ∀ i x, x ∈ l → f (g i x) = some (h i x)) : mapOpt f (numbered g k l) = some (numbered h k l) := by
  induction l generalizing k with
  | nil => rfl
  | cons x xs ih =>
    simp only [numbered, mapOpt, H k x (by simp), ih (k + 1) (fun i y hy => H i y (by simp [hy]))]

theorem mapExc_map {α β γ} (f : β → Except Err γ) (g : α → β) (h : α → γ) (l : List α)
    (H : ∀ x ∈ l, f (g x) = .ok (h x)) : mapExc f (l.map g) = .ok (l.map h) := by
  induction l with
  | nil => rfl
  | cons x xs ih =>
    simp only [List.map_cons, mapExc, H x (by simp), ih (fun y hy => H y (by simp [hy]))]

theorem mapExc_numbered {α β γ} (f : β → Except Err γ) (g : Nat → α → β) (h : Nat → α → γ) (k : Nat) (l : List α)
    (H : ∀ i x, x ∈ l → f (g i x) = .ok (h i x)) : mapExc f (numbered g k l) = .ok (numbered h k l) := by
  induction l generalizing k with
  | nil => rfl
  | cons x xs ih =>
    simp only [numbered, mapExc, H k x (by simp), ih (k + 1) (fun i y hy => H i y (by simp [hy]))]

theorem map_numbered {α β γ} (g : β → γ) (f : Nat → α → β) (k : Nat) (l : List α) :
    (numbered f k l).map g = numbered (fun i x => g (f i x)) k l := by
  induction l generalizing k with
  | nil => rfl
  | cons x xs ih => simp [numbered, ih]

theorem numbered_const {α β} (h : α → β) (k : Nat) (l : List α) : numbered (fun _ x => h x) k l = l.map h := by
  induction l generalizing k with
  | nil => rfl
  | cons x xs ih => simp [numbered, ih]

theorem numbered_congr {α β} (f g : Nat → α → β) (k : Nat) (l : List α) (H : ∀ i x, x ∈ l → f i x = g i x) :
    numbered f k l = numbered g k l := by
  induction l generalizing k with
  | nil => rfl
  | cons x xs ih =>
    simp only [numbered, H k x (by simp), ih (k + 1) (fun i y hy => H i y (by simp [hy]))]

theorem numbered_length {α β} (f : Nat → α → β) (k : Nat) (l : List α) : (numbered f k l).length = l.length := by
  induction l generalizing k with
  | nil => rfl
  | cons x xs ih => simp [numbered, ih]

theorem readTable_ok (rd : String → Option Int) (rows : List (List String)) (t : List (List Int)) (n : Nat)
    (h1 : mapOpt (mapOpt rd) rows = some t) (h2 : ∀ r ∈ t, r.length = n) : readTable rd rows = .ok t := by
  unfold readTable
  rw [h1]
  cases t with
  | nil => rfl
  | cons r rest =>
    have hr : r.length = n := h2 r (by simp)
    have : rest.all (fun r' => r'.length == r.length) = true := by
      rw [List.all_eq_true]; intro r' hr'
      have := h2 r' (by simp [hr'])
      simp [this, hr]
    simp [this]

theorem idMinusOne_succ (k : Int) : idMinusOne ((k + 1) * 1000000) = k := by
  unfold idMinusOne
  have : (k + 1) * 1000000 - 1000000 = k * 1000000 := by omega
  rw [this, Int.mul_tdiv_cancel _ (by decide)]

theorem natOf_nat (n : Nat) : natOf (n : Int) = .ok n := by
  unfold natOf
  have : ¬ ((n : Int) < 0) := by omega
  simp [this]


/-! ### the fields of the final data -/

theorem fd_masses (a : Atoms) (st : Style) :
    (finalData a st).masses = (numbered (massLine a) 0 a.typeMasses).map massEntry := rfl
theorem fd_pair (a : Atoms) (st : Style) : (finalData a st).pair = (coeffLines a.pairCoeffs).map (coeffOf " ") := rfl
theorem fd_bond (a : Atoms) (st : Style) : (finalData a st).bond = (coeffLines a.bonds.coeffs).map (coeffOf " ") := rfl
theorem fd_angle (a : Atoms) (st : Style) : (finalData a st).angle = (coeffLines a.angles.coeffs).map (coeffOf "  ") := rfl
theorem fd_dihedral (a : Atoms) (st : Style) :
    (finalData a st).dihedral = (coeffLines a.dihedrals.coeffs).map (coeffOf " ") := rfl
theorem fd_improper (a : Atoms) (st : Style) :
    (finalData a st).improper = (coeffLines a.impropers.coeffs).map (coeffOf " ") := rfl
theorem fd_atoms (a : Atoms) (st : Style) :
    (finalData a st).atoms = (numbered (atomLine a st) 0 a.atoms).map (·.tokens) := rfl
theorem fd_bonds (a : Atoms) (st : Style) : (finalData a st).bonds = (termLines a a.bonds.terms).map (·.tokens) := rfl
theorem fd_angles (a : Atoms) (st : Style) : (finalData a st).angles = (termLines a a.angles.terms).map (·.tokens) := rfl
theorem fd_dihedrals (a : Atoms) (st : Style) :
    (finalData a st).dihedrals = (termLines a a.dihedrals.terms).map (·.tokens) := rfl
theorem fd_impropers (a : Atoms) (st : Style) :
    (finalData a st).impropers = (termLines a a.impropers.terms).map (·.tokens) := rfl
theorem fd_cell (a : Atoms) (st : Style) : cellOf (finalData a st) = cellOf (cellData a.cell) := rfl

/-! ### coefficients -/

theorem coeffOf_coeffLine (sep : String) (i : Nat) (s : String) : coeffOf sep (coeffLine i s) = normCoeff sep s := by
  unfold coeffOf coeffLine normCoeff
  rw [lineOf_fields]
  simp

theorem coeffs_back (sep : String) (tbl : List String) : (coeffLines tbl).map (coeffOf sep) = tbl.map (normCoeff sep) := by
  unfold coeffLines
  rw [map_numbered]
  simp only [coeffOf_coeffLine]
  exact numbered_const _ _ _

/-! ### masses and labels -/

/-- what the reader keeps of the Masses line of type `i`: its id, the printed mass, the stripped label -/
def massTriple (a : Atoms) (i : Nat) (m : Rat) : Int × String × Option String :=
  (((i + 1 : Nat) : Int), showMicro (quantMicro m), some (String.ofList (strip (typeLabel a i).toList)))

theorem massEntry_massLine (a : Atoms) (i : Nat) (m : Rat) : massEntry (massLine a i m) = massTriple a i m := by
  unfold massEntry massLine massTriple
  rw [lineOf_label]
  simp [readInt_showNat]

theorem fd_masses' (a : Atoms) (st : Style) : (finalData a st).masses = numbered (massTriple a) 0 a.typeMasses := by
  rw [fd_masses, map_numbered]
  exact numbered_congr _ _ _ _ (fun i m _ => massEntry_massLine a i m)

/-- ascending by id -/
def AscIds {β} : List (Int × β) → Prop
  | [] => True
  | [_] => True
  | a :: b :: r => a.1 ≤ b.1 ∧ AscIds (b :: r)

theorem ascIds_tail {β} (x : Int × β) (l : List (Int × β)) (h : AscIds (x :: l)) : AscIds l := by
  cases l with
  | nil => trivial
  | cons y r => exact h.2

/-- sorting a list that is already ascending by id changes nothing -/
theorem sortById_of_asc {β} (l : List (Int × β)) (h : AscIds l) : sortById l = l := by
  induction l with
  | nil => rfl
  | cons x r ih =>
    have hr := ih (ascIds_tail x r h)
    show insertById x (sortById r) = x :: r
    rw [hr]
    cases r with
    | nil => rfl
    | cons y r' => simp [insertById, h.1]

theorem ascIds_numbered {α β} (f : Nat → α → β) (k : Nat) (l : List α) :
    AscIds (numbered (fun i x => (((i + 1 : Nat) : Int), f i x)) k l) := by
  induction l generalizing k with
  | nil => trivial
  | cons x r ih =>
    cases r with
    | nil => trivial
    | cons y r' =>
      refine ⟨?_, ih (k + 1)⟩
      show ((k + 1 : Nat) : Int) ≤ ((k + 1 + 1 : Nat) : Int)
      omega

/-- the Masses lines of a written file are in id order: sorting them by id changes nothing -/
theorem sort_masses (a : Atoms) (st : Style) : sortById (finalData a st).masses = numbered (massTriple a) 0 a.typeMasses := by
  rw [fd_masses']
  exact sortById_of_asc _ (ascIds_numbered (fun i m => (showMicro (quantMicro m), some (String.ofList (strip (typeLabel a i).toList)))) 0 a.typeMasses)

theorem masses_back (a : Atoms) (st : Style) :
    mapOpt (fun m => readMicro m.2.1) (sortById (finalData a st).masses) = some (a.typeMasses.map quantMicro) := by
  rw [sort_masses]
  rw [mapOpt_numbered _ _ (fun _ m => quantMicro m)]
  · rw [numbered_const]
  · intro i m _
    exact readMicro_showMicro _

/-- a label that survives the file: no line break, no blank at either end (a `#` inside is fine: the reader splits a
    line at its first `#`, which is the writer's) -/
def labelOk (s : String) : Bool := !hasNewline s && strip s.toList == s.toList

theorem labels_numbered {β} (T : List String) (F : String → β) (k : Nat) (ms : List Rat) (L : List String)
    (hl : ms.length = L.length) (hd : T.drop k = L) :
    numbered (fun i (_ : Rat) => F (T.getD i "")) k ms = L.map F := by
  induction ms generalizing k L with
  | nil =>
    cases L with
    | nil => rfl
    | cons _ _ => simp at hl
  | cons m ms ih =>
    cases L with
    | nil => simp at hl
    | cons x L' =>
      have hk : T[k]? = some x := by
        have := congrArg (fun l => l[0]?) hd
        simpa using this
      have hd' : T.drop (k + 1) = L' := by
        have := congrArg (fun l => l.drop 1) hd
        simpa using this
      simp only [numbered, List.map_cons]
      rw [ih (k + 1) L' (by simpa using hl) hd']
      simp [List.getD_eq_getElem?_getD, hk]

theorem labels_back (a : Atoms) (st : Style) (hlen : a.typeLabels.length = a.typeMasses.length)
    (hok : a.typeLabels.all labelOk = true) :
    (sortById (finalData a st).masses).map (·.2.2) = a.typeLabels.map some := by
  rw [sort_masses, map_numbered]
  simp only [massTriple]
  unfold typeLabel
  rw [labels_numbered a.typeLabels (fun l => some (String.ofList (strip l.toList))) 0 a.typeMasses a.typeLabels hlen.symm rfl]
  apply List.map_congr_left
  intro l hl
  have := List.all_eq_true.mp hok l hl
  unfold labelOk at this
  simp only [Bool.and_eq_true, beq_iff_eq] at this
  rw [this.2, String.ofList_toList]

theorem labelsOf_some (L : List String) (els : List String) : labelsOf (L.map some) els = L := by
  unfold labelsOf
  have : (L.map some).all Option.isSome = true := by simp
  simp [this, Function.comp_def]


/-! ### atoms -/

/-- the float table row of an atom, in micro-units -/
def atomInts (st : Style) (i : Nat) (r : AtomRow) : List Int :=
  match st with
  | .atomic => [((i + 1 : Nat) : Int) * 1000000, ((r.ty + 1 : Nat) : Int) * 1000000,
                quantMicro r.pos.x, quantMicro r.pos.y, quantMicro r.pos.z]
  | .full => [((i + 1 : Nat) : Int) * 1000000, (r.group + 1) * 1000000, ((r.ty + 1 : Nat) : Int) * 1000000,
              quantMicro r.charge, quantMicro r.pos.x, quantMicro r.pos.y, quantMicro r.pos.z]

/-- an atom as it comes back -/
def normRow (st : Style) (r : AtomRow) : AtomRow :=
  match st with
  | .full => ⟨r.ty, quantV r.pos, quant r.charge, r.group, []⟩
  | .atomic => ⟨r.ty, quantV r.pos, 0, 0, []⟩

theorem atoms_table (a : Atoms) (st : Style) :
    readTable readMicro (finalData a st).atoms = .ok (numbered (atomInts st) 0 a.atoms) := by
  rw [fd_atoms, map_numbered]
  apply readTable_ok _ _ _ (match st with | .atomic => 5 | .full => 7)
  · apply mapOpt_numbered
    intro i r _
    cases st <;>
      simp [atomLine, lineOf_label, atomInts, mapOpt, readMicro_showNat, readMicro_showInt, readMicro_showMicro]
  · intro r hr
    obtain ⟨i, x, _, rfl⟩ := mem_numbered _ _ _ _ hr
    cases st <;> rfl

theorem ty_back (ty : Nat) : natOf (idMinusOne (((ty + 1 : Nat) : Int) * 1000000)) = .ok ty := by
  have : ((ty + 1 : Nat) : Int) = (ty : Int) + 1 := by omega
  rw [this, idMinusOne_succ, natOf_nat]

theorem atoms_back (a : Atoms) (st : Style) :
    mapExc (atomOfRow st) (numbered (atomInts st) 0 a.atoms) = .ok (a.atoms.map (normRow st)) := by
  rw [mapExc_numbered _ _ (fun _ r => normRow st r)]
  · rw [numbered_const]
  · intro i r _
    cases st
    · simp only [atomInts, atomOfRow, ty_back, normRow, quantV, quant]
      rfl
    · simp only [atomInts, atomOfRow, ty_back, idMinusOne_succ, normRow, quantV, quant]
      rfl

/-! ### terms -/

def termInts (i : Nat) (t : Term) : List Int :=
  ((i + 1 : Nat) : Int) :: ((t.ty + 1 : Nat) : Int) :: t.atoms.map (fun x => ((x + 1 : Nat) : Int))

theorem terms_table (a : Atoms) (ts : List Term) (k : Nat) (hk : ∀ t ∈ ts, t.atoms.length = k) :
    readTable readInt ((termLines a ts).map (·.tokens)) = .ok (numbered termInts 0 ts) := by
  unfold termLines
  rw [map_numbered]
  apply readTable_ok _ _ _ (k + 2)
  · apply mapOpt_numbered
    intro i t _
    simp only [termLine, lineOf_label, termInts, mapOpt, readInt_showNat]
    rw [mapOpt_map readInt _ (fun x => ((x + 1 : Nat) : Int)) _ (fun x _ => readInt_showNat _)]
  · intro r hr
    obtain ⟨i, t, ht, rfl⟩ := mem_numbered _ _ _ _ hr
    simp [termInts, hk t ht]

theorem terms_back (ts : List Term) :
    mapExc termOfRow (numbered termInts 0 ts) = .ok (ts.map (fun t => { t with extra := [] })) := by
  rw [mapExc_numbered _ _ (fun _ (t : Term) => ({ t with extra := [] } : Term))]
  · rw [numbered_const]
  · intro i t _
    unfold termInts termOfRow
    have h1 : natOf (((t.ty + 1 : Nat) : Int) - 1) = .ok t.ty := by
      have : ((t.ty + 1 : Nat) : Int) - 1 = (t.ty : Int) := by omega
      rw [this, natOf_nat]
    have h2 : mapExc (fun x => natOf (x - 1)) (t.atoms.map (fun x => ((x + 1 : Nat) : Int))) = .ok t.atoms := by
      have := mapExc_map (fun x => natOf (x - 1)) (fun x : Nat => ((x + 1 : Nat) : Int)) id t.atoms
        (fun x _ => by
          have : ((x + 1 : Nat) : Int) - 1 = (x : Int) := by omega
          simp only [this, natOf_nat, id])
      simpa using this
    simp only [h1, h2, bind, Except.bind, pure, Except.pure]

/-! ### cell -/

/-- absent, or LAMMPS-oriented (first vector along x, second in the xy plane) with lengths that print positive -/
def cellOk : Option Mat3 → Bool
  | none => true
  | some m => m.a.y == 0 && m.a.z == 0 && m.b.z == 0
      && decide (0 < quantMicro m.a.x) && decide (0 < quantMicro m.b.y) && decide (0 < quantMicro m.c.z)

theorem cell_back (c : Option Mat3) (h : cellOk c = true) : cellOf (cellData c) = c.map quantM := by
  cases c with
  | none => rfl
  | some m =>
    simp only [cellOk, Bool.and_eq_true, beq_iff_eq, decide_eq_true_eq] at h
    obtain ⟨⟨⟨⟨⟨h1, h2⟩, h3⟩, hx⟩, hy⟩, hz⟩ := h
    have o0 : ofMicro 0 = 0 := ofMicro_zero
    by_cases ho : m.isOrtho = true
    · have ho' := ho
      simp only [Mat3.isOrtho, Bool.and_eq_true, beq_iff_eq] at ho'
      obtain ⟨⟨⟨⟨⟨_, _⟩, e3⟩, _⟩, e5⟩, e6⟩ := ho'
      simp [cellOf, cellData, hx, hy, hz, ho, quantM, quantV, quant, h1, h2, h3, e3, e5, e6, quantMicro_zero, o0]
    · by_cases ht : (quantMicro m.b.x != 0 || quantMicro m.c.x != 0 || quantMicro m.c.y != 0) = true
      · simp only [cellOf, cellData, ho, Int.sub_zero, hx, hy, hz, decide_true, Bool.and_true, if_true, ht, if_false,
          Bool.false_eq_true]
        simp [quantM, quantV, quant, h1, h2, h3, quantMicro_zero, o0]
      · simp only [cellOf, cellData, ho, Int.sub_zero, hx, hy, hz, decide_true, Bool.and_true, if_true, ht, if_false,
          Bool.false_eq_true]
        simp only [Bool.or_eq_true, bne_iff_ne, ne_eq, not_or, Decidable.not_not] at ht
        obtain ⟨⟨t1, t2⟩, t3⟩ := ht
        simp [quantM, quantV, quant, h1, h2, h3, t1, t2, t3, quantMicro_zero, o0]


/-! ### the guard of the round trip, and the round trip -/

/-- a coefficient string that survives the file token for token: no line break (any number of `#`: the comment starts
    at the first one) -/
def coeffOk (s : String) : Bool := !hasNewline s

def allCoeffs (a : Atoms) : List String :=
  a.pairCoeffs ++ a.bonds.coeffs ++ a.angles.coeffs ++ a.dihedrals.coeffs ++ a.impropers.coeffs

/-- the structures the round-trip theorem speaks about (all conditions decidable):
    any number of atoms, also none; one label per mass; labels without line break or outer blanks; coefficient strings
    without line break; cell absent or LAMMPS-oriented with lengths that print positive; bonds / angles / dihedrals /
    impropers are 2 / 3 / 4 / 4-tuples of valid atom indices; atom types have a label -/
def LmpOk (a : Atoms) : Bool :=
  a.typeLabels.length == a.typeMasses.length
  && a.typeLabels.all labelOk
  && (allCoeffs a).all coeffOk
  && cellOk a.cell
  && (arityOk 2 a.bonds && arityOk 3 a.angles && arityOk 4 a.dihedrals && arityOk 4 a.impropers)
  && a.atoms.all (fun r => r.ty < a.typeLabels.length)
  && (termsInRange a.atoms.length a.bonds && termsInRange a.atoms.length a.angles
      && termsInRange a.atoms.length a.dihedrals && termsInRange a.atoms.length a.impropers)

theorem arity_of (k : Nat) (t : TermTable) (h : arityOk k t = true) : ∀ x ∈ t.terms, x.atoms.length = k := by
  intro x hx
  have := List.all_eq_true.mp h x hx
  simpa using this

theorem finish_final (guess : List Rat → Option (List String)) (a : Atoms) (st : Style)
    (hlen : a.typeLabels.length = a.typeMasses.length)
    (hlab : a.typeLabels.all labelOk = true) (hcell : cellOk a.cell = true)
    (hb : arityOk 2 a.bonds = true) (ha : arityOk 3 a.angles = true) (hd : arityOk 4 a.dihedrals = true)
    (hi : arityOk 4 a.impropers = true) :
    finish guess (finalData a st) st = .ok (norm guess st a) := by
  unfold finish
  simp only [masses_back, atoms_table, termsOf, fd_bonds, fd_angles, fd_dihedrals, fd_impropers,
    terms_table a _ 2 (arity_of 2 _ hb), terms_table a _ 3 (arity_of 3 _ ha), terms_table a _ 4 (arity_of 4 _ hd),
    terms_table a _ 4 (arity_of 4 _ hi), atoms_back, terms_back, labels_back a st hlen hlab, labelsOf_some,
    fd_pair, fd_bond, fd_angle, fd_dihedral, fd_improper, coeffs_back, fd_cell, cell_back _ hcell,
    bind, Except.bind, pure, Except.pure]
  cases st <;> simp [norm, normTerms, normRow, quant, List.map_map, Function.comp_def] <;> rfl


theorem saveCheck_ok (a : Atoms) (h : LmpOk a = true) : saveCheck a = none := by
  simp only [LmpOk, Bool.and_eq_true, beq_iff_eq] at h
  obtain ⟨⟨⟨⟨⟨⟨hlen, hlab⟩, hco⟩, hcell⟩, ⟨⟨⟨hb, ha⟩, hd⟩, hi⟩⟩, hty⟩, ⟨⟨⟨rb, ra⟩, rd⟩, ri⟩⟩ := h
  have hnl : (allStrings a).any hasNewline = false := by
    rw [List.any_eq_false]
    intro s hs
    have hs' : s ∈ a.typeLabels ∨ s ∈ allCoeffs a := by
      simp only [allStrings, allCoeffs, List.mem_append] at hs ⊢
      rcases hs with ((((h | h) | h) | h) | h) | h
      · exact Or.inl h
      · exact Or.inr (Or.inl (Or.inl (Or.inl (Or.inl h))))
      · exact Or.inr (Or.inl (Or.inl (Or.inl (Or.inr h))))
      · exact Or.inr (Or.inl (Or.inl (Or.inr h)))
      · exact Or.inr (Or.inl (Or.inr h))
      · exact Or.inr (Or.inr h)
    rcases hs' with hs' | hs'
    · have := List.all_eq_true.mp hlab s hs'
      simp only [labelOk, Bool.and_eq_true, Bool.not_eq_true'] at this
      simp [this.1]
    · have := List.all_eq_true.mp hco s hs'
      simp only [coeffOk, Bool.not_eq_true'] at this
      simp [this]
  have hc : cellRejected a.cell = false := by
    cases hcc : a.cell with
    | none => rfl
    | some m =>
      rw [hcc] at hcell
      simp only [cellOk, Bool.and_eq_true, beq_iff_eq] at hcell
      obtain ⟨⟨⟨⟨⟨h1, h2⟩, h3⟩, _⟩, _⟩, _⟩ := hcell
      simp [cellRejected, h1, h2, h3]
  have hl : ¬ (a.typeLabels.length < a.typeMasses.length) := by omega
  have hty' : a.atoms.any (fun r => decide (r.ty ≥ a.typeLabels.length)) = false := by
    rw [List.any_eq_false]
    intro r hr
    have := List.all_eq_true.mp hty r hr
    simp only [decide_eq_true_eq] at this
    simp; omega
  unfold saveCheck
  simp [hnl, hc, hl, hty', hb, ha, hd, hi, rb, ra, rd, ri]

/-- the whole trip for either atom style -/
theorem roundtrip (guess : List Rat → Option (List String)) (a : Atoms) (st : Style) (h : LmpOk a = true) :
    saveLmp a st = .ok (saveLines a st) ∧ loadLmp guess (saveLines a st) st = .ok (norm guess st a) := by
  have hs := saveCheck_ok a h
  simp only [LmpOk, Bool.and_eq_true, beq_iff_eq] at h
  obtain ⟨⟨⟨⟨⟨⟨hlen, hlab⟩, _⟩, hcell⟩, ⟨⟨⟨hb, ha⟩, hd⟩, hi⟩⟩, _⟩, _⟩ := h
  constructor
  · simp [saveLmp, hs]
  · obtain ⟨c, hr⟩ := run_saveLines a st
    unfold loadLmp
    rw [hr]
    exact finish_final guess a st hlen hlab hcell hb ha hd hi


/-! ### the header as an independent reader sees it -/

/-- the header of a file: the lines before the first section name -/
def headerOf (lines : List Line) : List Line := lines.takeWhile (fun l => (sectionOf l.tokens).isNone)

/-- `N kw…` on one line: the number declared for the keyword(s) `kw` -/
def declAt (kw : List String) (l : Line) : Option Nat :=
  match l.tokens with
  | t :: rest => if rest = kw then (readInt t).map Int.toNat else none
  | [] => none

/-- the number the header declares for `kw` (`["atoms"]`, `["bond", "types"]`, …), if it has such a line -/
def declared (kw : List String) (hdr : List Line) : Option Nat := hdr.findSome? (declAt kw)

/-- `lo hi k1 k2` on one line, in micro-units -/
def boxAt (k1 k2 : String) (l : Line) : Option (Int × Int) :=
  match l.tokens with
  | [lo, hi, a, b] =>
    if a = k1 ∧ b = k2 then
      match readMicro lo, readMicro hi with
      | some x, some y => some (x, y)
      | _, _ => none
    else none
  | _ => none

def declaredBox (k1 k2 : String) (hdr : List Line) : Option (Int × Int) := hdr.findSome? (boxAt k1 k2)

/-- `xy xz yz` tilt factors, in micro-units -/
def tiltAt (l : Line) : Option (Int × Int × Int) :=
  match l.tokens with
  | [a, b, c, "xy", "xz", "yz"] =>
    match readMicro a, readMicro b, readMicro c with
    | some x, some y, some z => some (x, y, z)
    | _, _, _ => none
  | _ => none

def declaredTilt (hdr : List Line) : Option (Int × Int × Int) := hdr.findSome? tiltAt

/-- the header lines of a written file -/
def headerLines (a : Atoms) : List Line :=
  [⟨["(written", "by", "mofun)"], none⟩, blank,
   countLine a.atoms.length ["atoms"], countLine a.bonds.terms.length ["bonds"],
   countLine a.angles.terms.length ["angles"], countLine a.dihedrals.terms.length ["dihedrals"],
   countLine a.impropers.terms.length ["impropers"], blank]
  ++ (typeCountLine (numAtomTypes a) ["atom", "types"]
  ++ (typeCountLine (numTermTypes a.bonds) ["bond", "types"]
  ++ (typeCountLine (numTermTypes a.angles) ["angle", "types"]
  ++ (typeCountLine (numTermTypes a.dihedrals) ["dihedral", "types"]
  ++ (typeCountLine (numTermTypes a.impropers) ["improper", "types"]
  ++ (cellLines a.cell ++ [blank]))))))

theorem notSec_count (n : Nat) (kw : List String) : (sectionOf (countLine n kw).tokens).isNone = true := by
  simp [countLine, sectionOf_num _ _ (startsNum_showNat n)]

theorem notSec_typeCount (n : Nat) (kw : List String) :
    ∀ l ∈ typeCountLine n kw, (sectionOf l.tokens).isNone = true := by
  intro l hl
  unfold typeCountLine at hl
  split at hl
  · simp only [List.mem_singleton] at hl; subst hl; exact notSec_count n kw
  · simp at hl

theorem notSec_cell (c : Option Mat3) : ∀ l ∈ cellLines c, (sectionOf l.tokens).isNone = true := by
  intro l hl
  cases c with
  | none => simp [cellLines] at hl
  | some m =>
    simp only [cellLines, List.mem_append, List.mem_cons, List.not_mem_nil, or_false] at hl
    rcases hl with (rfl | rfl | rfl) | hl
    · simp [boxLine, sectionOf_num _ _ (startsNum_showMicro 0)]
    · simp [boxLine, sectionOf_num _ _ (startsNum_showMicro 0)]
    · simp [boxLine, sectionOf_num _ _ (startsNum_showMicro 0)]
    · split at hl
      · simp at hl
      · simp only [List.mem_singleton] at hl; subst hl
        simp [tiltLine, sectionOf_num _ _ (startsNum_showMicro _)]

theorem headerOf_saveLines (a : Atoms) (st : Style) : headerOf (saveLines a st) = headerLines a := by
  unfold headerOf saveLines headerLines
  simp only [List.append_assoc]
  have hall : ∀ l ∈ ([⟨["(written", "by", "mofun)"], none⟩, blank,
      countLine a.atoms.length ["atoms"], countLine a.bonds.terms.length ["bonds"],
      countLine a.angles.terms.length ["angles"], countLine a.dihedrals.terms.length ["dihedrals"],
      countLine a.impropers.terms.length ["impropers"], blank] : List Line),
      (sectionOf l.tokens).isNone = true := by
    intro l hl
    simp only [List.mem_cons, List.not_mem_nil, or_false] at hl
    rcases hl with rfl | rfl | rfl | rfl | rfl | rfl | rfl | rfl
    · decide
    · decide
    all_goals first | exact notSec_count _ _ | decide
  rw [List.takeWhile_append_of_pos hall, List.takeWhile_append_of_pos (notSec_typeCount _ _),
    List.takeWhile_append_of_pos (notSec_typeCount _ _), List.takeWhile_append_of_pos (notSec_typeCount _ _),
    List.takeWhile_append_of_pos (notSec_typeCount _ _), List.takeWhile_append_of_pos (notSec_typeCount _ _),
    List.takeWhile_append_of_pos (notSec_cell _)]
  simp [block, blank, Sec.name, sectionOf]


theorem declAt_count (kw kw' : List String) (n : Nat) :
    declAt kw (countLine n kw') = if kw' = kw then some n else none := by
  unfold declAt countLine
  simp only [readInt_showNat, Option.map_some, Int.toNat_natCast]

theorem declAt_blank (kw : List String) : declAt kw blank = none := rfl

theorem declAt_title (kw : List String) (h : kw ≠ ["by", "mofun)"]) :
    declAt kw ⟨["(written", "by", "mofun)"], none⟩ = none := by
  simp [declAt, Ne.symm h]

theorem declared_typeCount (kw kw' : List String) (n : Nat) :
    (typeCountLine n kw').findSome? (declAt kw) = if kw' = kw ∧ n > 0 then some n else none := by
  unfold typeCountLine
  by_cases hn : n > 0 <;> by_cases hk : kw' = kw <;> simp [hn, hk, declAt_count]

theorem declAt_cell (kw : List String) (hk : kw.length ≤ 2) (c : Option Mat3) :
    (cellLines c).findSome? (declAt kw) = none := by
  have h3 : ∀ (x y z : String), ¬ ([x, y, z] = kw) := by
    intro x y z h; rw [← h] at hk; simp at hk
  have h5 : ∀ (x y z u v : String), ¬ ([x, y, z, u, v] = kw) := by
    intro x y z u v h; rw [← h] at hk; simp at hk
  cases c with
  | none => simp [cellLines]
  | some m =>
    unfold cellLines
    by_cases ho : m.isOrtho = true <;>
      simp [ho, declAt, boxLine, tiltLine, h3, h5]

/-- the counts the header declares -/
theorem declared_counts (a : Atoms) :
    declared ["atoms"] (headerLines a) = some a.atoms.length
    ∧ declared ["bonds"] (headerLines a) = some a.bonds.terms.length
    ∧ declared ["angles"] (headerLines a) = some a.angles.terms.length
    ∧ declared ["dihedrals"] (headerLines a) = some a.dihedrals.terms.length
    ∧ declared ["impropers"] (headerLines a) = some a.impropers.terms.length := by
  refine ⟨?_, ?_, ?_, ?_, ?_⟩ <;>
    simp [declared, headerLines, List.findSome?_cons, declAt_count, declAt_blank, declAt_title]

theorem declared_types (a : Atoms) :
    declared ["atom", "types"] (headerLines a) = (if numAtomTypes a > 0 then some (numAtomTypes a) else none)
    ∧ declared ["bond", "types"] (headerLines a) = (if numTermTypes a.bonds > 0 then some (numTermTypes a.bonds) else none)
    ∧ declared ["angle", "types"] (headerLines a) = (if numTermTypes a.angles > 0 then some (numTermTypes a.angles) else none)
    ∧ declared ["dihedral", "types"] (headerLines a)
        = (if numTermTypes a.dihedrals > 0 then some (numTermTypes a.dihedrals) else none)
    ∧ declared ["improper", "types"] (headerLines a)
        = (if numTermTypes a.impropers > 0 then some (numTermTypes a.impropers) else none) := by
  have hc : ∀ x y : String, (cellLines a.cell).findSome? (declAt [x, y]) = none :=
    fun x y => declAt_cell _ (by simp) _
  refine ⟨?_, ?_, ?_, ?_, ?_⟩ <;>
    simp [declared, headerLines, List.findSome?_cons, declAt_count, declAt_blank, declAt_title, declared_typeCount, hc]

theorem box_typeCount (k1 k2 : String) (n : Nat) (x y : String) :
    (typeCountLine n [x, y]).findSome? (boxAt k1 k2) = none := by
  unfold typeCountLine; split <;> simp [boxAt, countLine]

theorem tilt_typeCount (n : Nat) (x y : String) : (typeCountLine n [x, y]).findSome? tiltAt = none := by
  unfold typeCountLine; split <;> simp [tiltAt, countLine]

theorem readMicro_zero : readMicro (showMicro 0) = some 0 := readMicro_showMicro 0

/-- the box the header declares: `0 … length` on each axis, in micro-units -/
theorem declared_box (a : Atoms) :
    declaredBox "xlo" "xhi" (headerLines a) = a.cell.map (fun m => (0, quantMicro m.a.x))
    ∧ declaredBox "ylo" "yhi" (headerLines a) = a.cell.map (fun m => (0, quantMicro m.b.y))
    ∧ declaredBox "zlo" "zhi" (headerLines a) = a.cell.map (fun m => (0, quantMicro m.c.z)) := by
  refine ⟨?_, ?_, ?_⟩ <;>
  · simp only [declaredBox, headerLines, List.findSome?_append, List.findSome?_cons, box_typeCount, List.findSome?_nil]
    cases a.cell with
    | none => simp [boxAt, countLine, blank, cellLines]
    | some m =>
      by_cases ho : m.isOrtho = true <;>
        simp [boxAt, countLine, blank, cellLines, boxLine, tiltLine, ho, readMicro_showMicro]

/-- the tilt factors the header declares: present exactly for a non-orthorhombic cell, `xy xz yz` = the x of the second
    vector, the x and the y of the third -/
theorem declared_tilt (a : Atoms) :
    declaredTilt (headerLines a) = match a.cell with
      | some m => if m.isOrtho then none else some (quantMicro m.b.x, quantMicro m.c.x, quantMicro m.c.y)
      | none => none := by
  simp only [declaredTilt, headerLines, List.findSome?_append, List.findSome?_cons, tilt_typeCount, List.findSome?_nil]
  cases a.cell with
  | none => simp [tiltAt, countLine, blank, cellLines]
  | some m =>
    by_cases ho : m.isOrtho = true <;>
      simp [tiltAt, countLine, blank, cellLines, boxLine, tiltLine, ho, readMicro_showMicro]


/-! ### tokens survive the re-joining of a coefficient string -/

/-- a token: not empty, no blank inside -/
def Clean (t : List Char) : Prop := t ≠ [] ∧ ∀ c ∈ t, isWs c = false

theorem splitWsGo_clean (l cur : List Char) (hcur : ∀ c ∈ cur, isWs c = false) :
    ∀ t ∈ splitWsGo l cur, Clean t := by
  induction l generalizing cur with
  | nil =>
    intro t ht
    unfold splitWsGo at ht
    split at ht
    · simp at ht
    · rename_i hne
      simp only [List.mem_singleton] at ht; subst ht
      exact ⟨by intro h; simp [h] at hne, hcur⟩
  | cons x xs ih =>
    intro t ht
    unfold splitWsGo at ht
    split at ht
    · split at ht
      · exact ih [] (by simp) t ht
      · rename_i hne
        simp only [List.mem_cons] at ht
        rcases ht with rfl | ht
        · exact ⟨by intro h; simp [h] at hne, hcur⟩
        · exact ih [] (by simp) t ht
    · rename_i hx
      apply ih (cur ++ [x]) _ t ht
      intro c hc
      simp only [List.mem_append, List.mem_singleton] at hc
      rcases hc with hc | rfl
      · exact hcur c hc
      · simpa using hx

theorem splitWsGo_mem (l cur : List Char) : ∀ t ∈ splitWsGo l cur, ∀ c ∈ t, c ∈ cur ∨ c ∈ l := by
  induction l generalizing cur with
  | nil =>
    intro t ht c hc
    unfold splitWsGo at ht
    split at ht
    · simp at ht
    · simp only [List.mem_singleton] at ht; subst ht; exact Or.inl hc
  | cons x xs ih =>
    intro t ht c hc
    unfold splitWsGo at ht
    split at ht
    · split at ht
      · rcases ih [] t ht c hc with h | h
        · simp at h
        · exact Or.inr (List.mem_cons_of_mem _ h)
      · simp only [List.mem_cons] at ht
        rcases ht with rfl | ht
        · exact Or.inl hc
        · rcases ih [] t ht c hc with h | h
          · simp at h
          · exact Or.inr (List.mem_cons_of_mem _ h)
    · rcases ih (cur ++ [x]) t ht c hc with h | h
      · simp only [List.mem_append, List.mem_singleton] at h
        rcases h with h | rfl
        · exact Or.inl h
        · exact Or.inr (by simp)
      · exact Or.inr (List.mem_cons_of_mem _ h)

/-- reading through a token -/
theorem splitWsGo_token (t rest cur : List Char) (ht : ∀ c ∈ t, isWs c = false) :
    splitWsGo (t ++ rest) cur = splitWsGo rest (cur ++ t) := by
  induction t generalizing cur with
  | nil => simp
  | cons x xs ih =>
    have hx : isWs x = false := ht x (by simp)
    simp only [List.cons_append, splitWsGo, hx]
    rw [ih (cur ++ [x]) (fun c hc => ht c (by simp [hc]))]
    simp

/-- reading through blanks with no token open -/
theorem splitWsGo_blanks (w rest : List Char) (hw : ∀ c ∈ w, isWs c = true) :
    splitWsGo (w ++ rest) [] = splitWsGo rest [] := by
  induction w with
  | nil => simp
  | cons x xs ih =>
    have hx : isWs x = true := hw x (by simp)
    simp only [List.cons_append, splitWsGo, hx, if_true, List.isEmpty_nil]
    exact ih (fun c hc => hw c (by simp [hc]))

/-- blanks end the open token -/
theorem splitWsGo_blanks_close (w rest cur : List Char) (hw : ∀ c ∈ w, isWs c = true) (hne : w ≠ []) (hcur : cur ≠ []) :
    splitWsGo (w ++ rest) cur = cur :: splitWsGo rest [] := by
  cases w with
  | nil => exact absurd rfl hne
  | cons x xs =>
    have hx : isWs x = true := hw x (by simp)
    have hc : cur.isEmpty = false := by cases cur with
      | nil => exact absurd rfl hcur
      | cons _ _ => rfl
    simp only [List.cons_append, splitWsGo, hx, if_true, hc]
    rw [splitWsGo_blanks xs rest (fun c hc => hw c (by simp [hc]))]
    simp

/-- **splitting what was joined gives the tokens back** (any blank separator, any trailing blanks) -/
theorem splitWs_join (sep e : List Char) (hsep : ∀ c ∈ sep, isWs c = true) (hne : sep ≠ []) (he : ∀ c ∈ e, isWs c = true)
    (T : List (List Char)) (hT : ∀ t ∈ T, Clean t) : splitWsGo (joinWith sep T ++ e) [] = T := by
  induction T with
  | nil =>
    simp only [joinWith, List.nil_append]
    have := splitWsGo_blanks e [] he
    simp only [List.append_nil] at this
    rw [this]; rfl
  | cons x rest ih =>
    have hx := hT x (by simp)
    cases rest with
    | nil =>
      simp only [joinWith]
      rw [splitWsGo_token x e [] hx.2]
      simp only [List.nil_append]
      cases e with
      | nil =>
        unfold splitWsGo
        cases x with
        | nil => exact absurd rfl hx.1
        | cons _ _ => rfl
      | cons y ys =>
        have := splitWsGo_blanks_close (y :: ys) [] x he (by simp) hx.1
        simp only [List.append_nil] at this
        rw [this]; rfl
    | cons y rest' =>
      simp only [joinWith, List.append_assoc]
      rw [splitWsGo_token x _ [] hx.2]
      simp only [List.nil_append]
      rw [splitWsGo_blanks_close sep _ x hsep hne hx.1]
      rw [ih (fun t ht => hT t (by simp [ht]))]


theorem splitHash_append (pre rest : List Char) (h : ∀ c ∈ pre, c ≠ '#') :
    splitHash (pre ++ rest) = (pre ++ (splitHash rest).1, (splitHash rest).2) := by
  induction pre with
  | nil => simp
  | cons x xs ih =>
    have hx : x ≠ '#' := h x (by simp)
    simp only [List.cons_append, splitHash, hx, if_false]
    rw [ih (fun c hc => h c (by simp [hc]))]

theorem splitHash_fst_nohash (l : List Char) : ∀ c ∈ (splitHash l).1, c ≠ '#' := by
  induction l with
  | nil => simp [splitHash]
  | cons x xs ih =>
    intro c hc
    unfold splitHash at hc
    split at hc
    · simp at hc
    · rename_i hx
      simp only [List.mem_cons] at hc
      rcases hc with rfl | hc
      · exact hx
      · exact ih c hc

theorem splitHash_fst_mem (l : List Char) : ∀ c ∈ (splitHash l).1, c ∈ l := by
  induction l with
  | nil => simp [splitHash]
  | cons x xs ih =>
    intro c hc
    unfold splitHash at hc
    split at hc
    · simp at hc
    · simp only [List.mem_cons] at hc
      rcases hc with rfl | hc
      · simp
      · exact List.mem_cons_of_mem _ (ih c hc)

theorem splitHash_snd_mem (l r : List Char) (h : (splitHash l).2 = some r) : ∀ c ∈ r, c ∈ l := by
  induction l with
  | nil => simp [splitHash] at h
  | cons x xs ih =>
    unfold splitHash at h
    split at h
    · simp only [Option.some.injEq] at h; subst h
      intro c hc; exact List.mem_cons_of_mem _ hc
    · intro c hc; exact List.mem_cons_of_mem _ (ih h c hc)

/-! ### `strip` is idempotent -/

theorem dropWhile_of_head {α} (p : α → Bool) (x : α) (xs : List α) (h : p x = false) :
    (x :: xs).dropWhile p = x :: xs := by
  simp [h]

theorem dropWhile_idem {α} (p : α → Bool) (l : List α) : (l.dropWhile p).dropWhile p = l.dropWhile p := by
  induction l with
  | nil => rfl
  | cons x xs ih =>
    by_cases h : p x = true
    · simp only [List.dropWhile_cons, h, if_true]; exact ih
    · have h' : p x = false := by simpa using h
      rw [dropWhile_of_head p x xs h', dropWhile_of_head p x xs h']

theorem stripRight_cons_of (x : Char) (xs : List Char) (y : Char) (ys : List Char) (h : stripRight xs = y :: ys) :
    stripRight (x :: xs) = x :: y :: ys := by
  simp [stripRight, h]

theorem length_dropWhile_le {α} (p : α → Bool) (l : List α) : (l.dropWhile p).length ≤ l.length := by
  induction l with
  | nil => simp
  | cons x xs ih =>
    simp only [List.dropWhile_cons]
    split
    · simp only [List.length_cons]; omega
    · simp

theorem stripRight_idem (l : List Char) : stripRight (stripRight l) = stripRight l := by
  induction l with
  | nil => rfl
  | cons x xs ih =>
    cases hr : stripRight xs with
    | nil =>
      by_cases hx : isWs x = true
      · simp [stripRight, hr, hx]
      · simp [stripRight, hr, hx]
    | cons y ys =>
      rw [stripRight_cons_of x xs y ys hr]
      rw [hr] at ih
      exact stripRight_cons_of x (y :: ys) y ys ih

theorem stripRight_head (x : Char) (xs : List Char) (h : isWs x = false) :
    ∃ r, stripRight (x :: xs) = x :: r := by
  cases hr : stripRight xs with
  | nil => exact ⟨[], by simp [stripRight, hr, h]⟩
  | cons y ys => exact ⟨y :: ys, by simp [stripRight, hr]⟩

theorem dropWhile_stripRight (l : List Char) (h : l.dropWhile isWs = l) :
    (stripRight l).dropWhile isWs = stripRight l := by
  cases l with
  | nil => rfl
  | cons x xs =>
    have hx : isWs x = false := by
      cases hh : isWs x with
      | false => rfl
      | true =>
        simp only [List.dropWhile_cons, hh, if_true] at h
        have hl := congrArg List.length h
        have := length_dropWhile_le isWs xs
        simp only [List.length_cons] at hl
        omega
    obtain ⟨r, hr⟩ := stripRight_head x xs hx
    rw [hr]
    exact dropWhile_of_head _ _ _ hx

theorem strip_idem (l : List Char) : strip (strip l) = strip l := by
  unfold strip
  rw [dropWhile_stripRight _ (dropWhile_idem isWs l), stripRight_idem]

/-! ### a re-joined coefficient string reads like the original -/

/-- the reader's view of the coefficient string `s` (its tokens, its comment) -/
def tokOf (s : String) : Line := lineOf [] (" " ++ s)

theorem isWs_blank (c : Char) (h : c ∈ [' ']) : isWs c = true := by
  simp only [List.mem_singleton] at h; subst h; decide

theorem blank_toList (s : String) : (" " ++ s).toList = ' ' :: s.toList := by
  rw [String.toList_append]; rfl

/-- the blank separators the reader joins with -/
def IsSep (sep : String) : Prop := sep.toList ≠ [] ∧ ∀ c ∈ sep.toList, c = ' '

theorem isSep_one : IsSep " " := ⟨by decide, by intro c hc; simpa using hc⟩
theorem isSep_two : IsSep "  " := by
  refine ⟨by decide, ?_⟩
  intro c hc
  have : c ∈ [' ', ' '] := hc
  simpa using this

/-- **tokOf_normCoeff.**  The re-joined string has the same tokens and the same comment as the original: every
    coefficient entry survives token for token. -/
theorem tokOf_normCoeff (sep : String) (hsep : IsSep sep) (s : String) : tokOf (normCoeff sep s) = tokOf s := by
  unfold normCoeff
  show tokOf (joinS sep (tokOf s).tokens ++ commentString (tokOf s).comment) = tokOf s
  -- the original
  have horig : tokOf s = ⟨(splitWs (' ' :: (splitHash s.toList).1)).map String.ofList,
      (splitHash s.toList).2.map (fun c => String.ofList (strip c))⟩ := by
    simp [tokOf, lineOf, splitHash_blank_cons]
  obtain ⟨TT, hTT⟩ : ∃ TT, TT = splitWs (' ' :: (splitHash s.toList).1) := ⟨_, rfl⟩
  rw [← hTT] at horig
  have hclean : ∀ t ∈ TT, Clean t := by rw [hTT]; exact splitWsGo_clean _ [] (by simp)
  have hnoh : ∀ t ∈ TT, ∀ c ∈ t, c ≠ '#' := by
    intro t ht c hc
    rw [hTT] at ht
    rcases splitWsGo_mem _ [] t ht c hc with h | h
    · simp at h
    · simp only [List.mem_cons] at h
      rcases h with rfl | h
      · decide
      · exact splitHash_fst_nohash _ c h
  have hsepws : ∀ c ∈ sep.toList, isWs c = true := by
    intro c hc; rw [hsep.2 c hc]; decide
  have hjoin_nohash : ∀ c ∈ joinWith sep.toList TT, c ≠ '#' := by
    intro c hc
    rcases mem_joinWith _ _ c hc with h | ⟨t, ht, hct⟩
    · rw [hsep.2 c h]; decide
    · exact hnoh t ht c hct
  rw [horig]
  simp only [joinS, List.map_map, Function.comp_def, String.toList_ofList, List.map_id']
  -- the characters of the re-joined string
  cases hc : (splitHash s.toList).2 with
  | none =>
    simp only [Option.map_none, commentString]
    unfold tokOf lineOf
    rw [blank_toList]
    simp only [String.append_empty, String.toList_ofList]
    have h1 : splitHash (' ' :: joinWith sep.toList TT) = (' ' :: joinWith sep.toList TT, none) := by
      have := splitHash_append (' ' :: joinWith sep.toList TT) [] (by
        intro c hc'
        simp only [List.mem_cons] at hc'
        rcases hc' with rfl | hc'
        · decide
        · exact hjoin_nohash c hc')
      simpa [splitHash] using this
    rw [h1]
    have h2 : splitWs (' ' :: joinWith sep.toList TT) = TT := by
      unfold splitWs
      have := splitWsGo_blanks [' '] (joinWith sep.toList TT) isWs_blank
      simp only [List.cons_append, List.nil_append] at this
      rw [this]
      have := splitWs_join sep.toList [] hsepws hsep.1 (by simp) TT hclean
      simpa using this
    simp [h2]
  | some c =>
    simp only [Option.map_some, commentString]
    unfold tokOf lineOf
    rw [blank_toList]
    simp only [String.toList_append, String.toList_ofList]
    have hlit : ("   # " : String).toList = [' ', ' ', ' ', '#', ' '] := rfl
    rw [hlit]
    have h1 : splitHash (' ' :: (joinWith sep.toList TT ++ ([' ', ' ', ' ', '#', ' '] ++ strip c)))
        = (' ' :: (joinWith sep.toList TT ++ [' ', ' ', ' ']), some (' ' :: strip c)) := by
      have := splitHash_append (' ' :: joinWith sep.toList TT) ([' ', ' ', ' ', '#', ' '] ++ strip c) (by
        intro c' hc'
        simp only [List.mem_cons] at hc'
        rcases hc' with rfl | hc'
        · decide
        · exact hjoin_nohash c' hc')
      have e : ' ' :: (joinWith sep.toList TT ++ ([' ', ' ', ' ', '#', ' '] ++ strip c))
          = (' ' :: joinWith sep.toList TT) ++ ([' ', ' ', ' ', '#', ' '] ++ strip c) := rfl
      rw [e, this]
      simp [splitHash]
    rw [h1]
    have h2 : splitWs (' ' :: (joinWith sep.toList TT ++ [' ', ' ', ' '])) = TT := by
      unfold splitWs
      have := splitWsGo_blanks [' '] (joinWith sep.toList TT ++ [' ', ' ', ' ']) isWs_blank
      simp only [List.cons_append, List.nil_append] at this
      rw [this]
      exact splitWs_join sep.toList [' ', ' ', ' '] hsepws hsep.1 (by
        intro c' hc'
        have : c' = ' ' := by simpa using hc'
        subst this; decide) TT hclean
    simp [h2, strip_blank_cons, strip_idem]

theorem normCoeff_eq (sep s : String) :
    normCoeff sep s = joinS sep (tokOf s).tokens ++ commentString (tokOf s).comment := rfl

theorem normCoeff_idem (sep : String) (hsep : IsSep sep) (s : String) :
    normCoeff sep (normCoeff sep s) = normCoeff sep s := by
  rw [normCoeff_eq sep (normCoeff sep s), tokOf_normCoeff sep hsep s]
  rfl


/-! ### one trip is enough: `norm` is idempotent -/

theorem quantV_idem (v : Vec3) : quantV (quantV v) = quantV v := by
  simp [quantV, quant_quant]

theorem quantM_idem (m : Mat3) : quantM (quantM m) = quantM m := by
  simp [quantM, quantV_idem]

theorem normTerms_idem (t : TermTable) (sep : String) (hsep : IsSep sep) :
    normTerms (normTerms t sep) sep = normTerms t sep := by
  simp [normTerms, List.map_map, Function.comp_def, normCoeff_idem sep hsep]

theorem norm_idem (guess : List Rat → Option (List String)) (st : Style) (a : Atoms) :
    norm guess st (norm guess st a) = norm guess st a := by
  cases st <;>
    simp [norm, normTerms_idem _ _ isSep_one, normTerms_idem _ _ isSep_two, List.map_map, Function.comp_def,
      quant_quant, quantV_idem, quantM_idem, normCoeff_idem _ isSep_one]
  all_goals (cases a.cell <;> simp [quantM_idem])


/-! ### the structure that comes back is again in the guard -/

/-- the characters of a re-joined coefficient string -/
theorem normCoeff_toList (sep s : String) :
    (normCoeff sep s).toList = joinWith sep.toList (splitWs (' ' :: (splitHash s.toList).1))
      ++ (match (splitHash s.toList).2 with
          | none => []
          | some c => [' ', ' ', ' ', '#', ' '] ++ strip c) := by
  have horig : tokOf s = ⟨(splitWs (' ' :: (splitHash s.toList).1)).map String.ofList,
      (splitHash s.toList).2.map (fun c => String.ofList (strip c))⟩ := by
    simp [tokOf, lineOf, splitHash_blank_cons]
  rw [normCoeff_eq, horig]
  simp only [joinS, List.map_map, Function.comp_def, String.toList_ofList, List.map_id', String.toList_append]
  cases (splitHash s.toList).2 with
  | none => simp [commentString]
  | some c =>
    simp only [Option.map_some, commentString, String.toList_append, String.toList_ofList]
    rfl

theorem mem_normCoeff (sep : String) (hsep : IsSep sep) (s : String) :
    ∀ c ∈ (normCoeff sep s).toList, c = ' ' ∨ c = '#' ∨ c ∈ s.toList := by
  intro c hc
  rw [normCoeff_toList, List.mem_append] at hc
  rcases hc with hc | hc
  · rcases mem_joinWith _ _ c hc with h | ⟨t, ht, hct⟩
    · exact Or.inl (hsep.2 c h)
    · rcases splitWsGo_mem _ [] t ht c hct with h | h
      · simp at h
      · simp only [List.mem_cons] at h
        rcases h with rfl | h
        · exact Or.inl rfl
        · exact Or.inr (Or.inr (splitHash_fst_mem _ c h))
  · cases hh : (splitHash s.toList).2 with
    | none => rw [hh] at hc; simp at hc
    | some r =>
      rw [hh] at hc
      simp only [List.mem_append, List.mem_cons, List.not_mem_nil, or_false] at hc
      rcases hc with (rfl | rfl | rfl | rfl | rfl) | hc
      · exact Or.inl rfl
      · exact Or.inl rfl
      · exact Or.inl rfl
      · exact Or.inr (Or.inl rfl)
      · exact Or.inl rfl
      · exact Or.inr (Or.inr (splitHash_snd_mem _ _ hh c (mem_strip _ c hc)))

theorem coeffOk_normCoeff (sep : String) (hsep : IsSep sep) (s : String) (h : coeffOk s = true) :
    coeffOk (normCoeff sep s) = true := by
  simp only [coeffOk, Bool.not_eq_true'] at h ⊢
  unfold hasNewline at h ⊢
  rw [List.any_eq_false] at h ⊢
  intro c hc
  rcases mem_normCoeff sep hsep s c hc with rfl | rfl | h'
  · decide
  · decide
  · exact h c h'

theorem quantMicro_quant (x : Rat) : quantMicro (quant x) = quantMicro x := by
  unfold quant; rw [quantMicro_ofMicro]

theorem cellOk_norm (c : Option Mat3) (h : cellOk c = true) : cellOk (c.map quantM) = true := by
  cases c with
  | none => rfl
  | some m =>
    simp only [cellOk, Bool.and_eq_true, beq_iff_eq, decide_eq_true_eq] at h
    obtain ⟨⟨⟨⟨⟨h1, h2⟩, h3⟩, hx⟩, hy⟩, hz⟩ := h
    simp [cellOk, quantM, quantV, h1, h2, h3, quant_zero, quantMicro_quant, hx, hy, hz]

theorem all_map_coeffOk (sep : String) (hsep : IsSep sep) (l : List String) (h : l.all coeffOk = true) :
    (l.map (normCoeff sep)).all coeffOk = true := by
  rw [List.all_eq_true] at h ⊢
  intro s hs
  obtain ⟨s', hs', rfl⟩ := List.mem_map.mp hs
  exact coeffOk_normCoeff sep hsep s' (h s' hs')

/-- **the result of a trip can make the trip again**: `norm a` satisfies the guard when `a` does -/
theorem lmpOk_norm (guess : List Rat → Option (List String)) (st : Style) (a : Atoms) (h : LmpOk a = true) :
    LmpOk (norm guess st a) = true := by
  simp only [LmpOk, Bool.and_eq_true, beq_iff_eq] at h
  obtain ⟨⟨⟨⟨⟨⟨hlen, hlab⟩, hco⟩, hcell⟩, ⟨⟨⟨hb, ha⟩, hd⟩, hi⟩⟩, hty⟩, ⟨⟨⟨rb, ra⟩, rd⟩, ri⟩⟩ := h
  simp only [allCoeffs, List.all_append, Bool.and_eq_true] at hco
  obtain ⟨⟨⟨⟨cp, cb⟩, ca⟩, cd⟩, ci⟩ := hco
  have hty' : (norm guess st a).atoms.all (fun r => decide (r.ty < (norm guess st a).typeLabels.length)) = true := by
    rw [List.all_eq_true] at hty ⊢
    intro r hr
    cases st <;>
    · simp only [norm, List.mem_map] at hr
      obtain ⟨r', hr', rfl⟩ := hr
      have := hty r' hr'
      simp only [decide_eq_true_eq] at this ⊢
      exact this
  simp only [LmpOk, Bool.and_eq_true, beq_iff_eq, allCoeffs, List.all_append]
  refine ⟨⟨⟨⟨⟨⟨?_, ?_⟩, ?_⟩, ?_⟩, ?_⟩, hty'⟩, ?_⟩
  · simp [norm, hlen]
  · simpa [norm] using hlab
  · simp only [norm, normTerms]
    exact ⟨⟨⟨⟨all_map_coeffOk _ isSep_one _ cp, all_map_coeffOk _ isSep_one _ cb⟩, all_map_coeffOk _ isSep_two _ ca⟩,
      all_map_coeffOk _ isSep_one _ cd⟩, all_map_coeffOk _ isSep_one _ ci⟩
  · exact cellOk_norm _ hcell
  · simp only [arityOk, norm, normTerms, List.all_map, Function.comp_def] at hb ha hd hi ⊢
    exact ⟨⟨⟨hb, ha⟩, hd⟩, hi⟩
  · have hl : (norm guess st a).atoms.length = a.atoms.length := by simp [norm]
    simp only [hl]
    simp only [termsInRange, norm, normTerms, List.all_map, Function.comp_def] at rb ra rd ri ⊢
    exact ⟨⟨⟨rb, ra⟩, rd⟩, ri⟩


/-! ### Masses lines are bound to their type id, not to their position -/

theorem perm_insertById {β} (x : Int × β) (l : List (Int × β)) : (insertById x l).Perm (x :: l) := by
  induction l with
  | nil => exact List.Perm.refl _
  | cons y ys ih =>
    unfold insertById
    split
    · exact List.Perm.refl _
    · exact (List.Perm.cons y ih).trans (List.Perm.swap x y ys)

theorem perm_sortById {β} (l : List (Int × β)) : (sortById l).Perm l := by
  induction l with
  | nil => exact List.Perm.refl _
  | cons x r ih =>
    show (insertById x (sortById r)).Perm (x :: r)
    exact (perm_insertById x _).trans (List.Perm.cons x ih)

theorem sorted_insertById {β} (x : Int × β) (l : List (Int × β)) (h : l.Pairwise (fun a b => a.1 ≤ b.1)) :
    (insertById x l).Pairwise (fun a b => a.1 ≤ b.1) := by
  induction l with
  | nil => simp [insertById]
  | cons y ys ih =>
    have hy := List.pairwise_cons.mp h
    unfold insertById
    split
    · rename_i hxy
      refine List.pairwise_cons.mpr ⟨?_, h⟩
      intro z hz
      simp only [List.mem_cons] at hz
      rcases hz with rfl | hz
      · exact hxy
      · exact Int.le_trans hxy (hy.1 z hz)
    · rename_i hxy
      refine List.pairwise_cons.mpr ⟨?_, ih hy.2⟩
      intro z hz
      have := (perm_insertById x ys).mem_iff.mp hz
      simp only [List.mem_cons] at this
      rcases this with rfl | hz'
      · omega
      · exact hy.1 z hz'

theorem sorted_sortById {β} (l : List (Int × β)) : (sortById l).Pairwise (fun a b => a.1 ≤ b.1) := by
  induction l with
  | nil => simp [sortById]
  | cons x r ih => exact sorted_insertById x _ ih

/-- two id-sorted arrangements of the same entries are the same list when no id occurs twice -/
theorem eq_of_perm_sorted {β} (l₁ l₂ : List (Int × β)) (hp : l₁.Perm l₂)
    (h₁ : l₁.Pairwise (fun a b => a.1 ≤ b.1)) (h₂ : l₂.Pairwise (fun a b => a.1 ≤ b.1))
    (hinj : ∀ x ∈ l₁, ∀ y ∈ l₁, x.1 = y.1 → x = y) : l₁ = l₂ := by
  induction l₁ generalizing l₂ with
  | nil => exact (List.Perm.nil_eq hp)
  | cons a t₁ ih =>
    cases l₂ with
    | nil => exact absurd hp.symm (List.Perm.nil_eq · |> fun h => by cases h)
    | cons b t₂ =>
      have ha := List.pairwise_cons.mp h₁
      have hb := List.pairwise_cons.mp h₂
      have hbmem : b ∈ a :: t₁ := hp.mem_iff.mpr (by simp)
      have hamem : a ∈ b :: t₂ := hp.mem_iff.mp (by simp)
      have hab : a = b := by
        apply hinj a (by simp) b hbmem
        have h1 : a.1 ≤ b.1 := by
          simp only [List.mem_cons] at hbmem
          rcases hbmem with rfl | hb'
          · exact Int.le_refl _
          · exact ha.1 b hb'
        have h2 : b.1 ≤ a.1 := by
          simp only [List.mem_cons] at hamem
          rcases hamem with rfl | ha'
          · exact Int.le_refl _
          · exact hb.1 a ha'
        omega
      subst hab
      congr 1
      exact ih t₂ (List.Perm.cons_inv hp) ha.2 hb.2 (fun x hx y hy => hinj x (by simp [hx]) y (by simp [hy]))

/-- sorting by id forgets the order in which the entries came, when no id occurs twice -/
theorem sortById_perm {β} (l₁ l₂ : List (Int × β)) (hp : l₁.Perm l₂)
    (hinj : ∀ x ∈ l₁, ∀ y ∈ l₁, x.1 = y.1 → x = y) : sortById l₁ = sortById l₂ := by
  apply eq_of_perm_sorted _ _ ((perm_sortById l₁).trans (hp.trans (perm_sortById l₂).symm)) (sorted_sortById _) (sorted_sortById _)
  intro x hx y hy
  exact hinj x ((perm_sortById l₁).mem_iff.mp hx) y ((perm_sortById l₁).mem_iff.mp hy)

/-- what the reader builds depends on the Masses lines only through their id-sorted arrangement -/
theorem finish_masses_perm (guess : List Rat → Option (List String)) (d : PData) (st : Style)
    (ms : List (Int × String × Option String)) (hp : d.masses.Perm ms)
    (hinj : ∀ x ∈ d.masses, ∀ y ∈ d.masses, x.1 = y.1 → x = y) :
    finish guess { d with masses := ms } st = finish guess d st := by
  unfold finish
  simp only [sortById_perm d.masses ms hp hinj]
  rfl


end Mofun.Lmp
