/-
  CliLemmas.lean — structure of `Cli.planCalls` (helper lemmas for Props/C20.lean).  Core Lean only.

  The plan is a concatenation of ten segments; every call of segment `k` has `stage = k`.  Everything the
  specification says about order and about "the call that carries option X" follows from these two facts.
-/
import MofunModel.Model.Cli

namespace Mofun.Cli

/-- every call listed by segment `k` belongs to block `k` of the function -/
theorem seg_stage {o : Options} {c : Option CellInfo} {k : Nat} {x : Call} (h : x ∈ seg o c k) : stage x = k := by
  unfold seg at h
  split at h
  · unfold loadSeg at h; split at h <;> simp at h <;> subst h <;> rfl
  · unfold cellSeg at h; split at h <;> simp at h; subst h; rfl
  · unfold dumpSeg at h; split at h <;> simp at h; subst h; rfl
  · unfold chargeSeg at h; split at h <;> simp at h; subst h; rfl
  · unfold replSeg at h; split at h <;> simp at h; subst h; rfl
  · unfold micSeg at h
    split at h
    · split at h <;> simp at h <;> subst h <;> rfl
    · simp at h
  · unfold ppSeg at h; split at h <;> simp at h; subst h; rfl
  · unfold findSeg at h
    split at h <;> simp at h
    · subst h; rfl
    · rcases h with h | h | h <;> subst h <;> rfl
    · rcases h with h | h <;> subst h <;> rfl
  · unfold fwSeg at h; split at h <;> simp at h; subst h; rfl
  · unfold saveSeg at h; split at h <;> simp at h <;> subst h <;> rfl
  · simp at h

theorem stage_le_nine (x : Call) : stage x ≤ 9 := by
  cases x <;> simp [stage]

/-- membership in the plan = membership in the segment of the call's own block -/
theorem mem_planCalls {o : Options} {c : Option CellInfo} {x : Call} :
    x ∈ planCalls o c ↔ x ∈ seg o c (stage x) := by
  constructor
  · intro h
    simp only [planCalls, List.mem_append] at h
    rcases h with h | h | h | h | h | h | h | h | h | h <;> (rw [seg_stage h]; exact h)
  · intro h
    have h9 := stage_le_nine x
    simp only [planCalls, List.mem_append]
    generalize stage x = k at h h9
    match k, h9 with
    | 0, _ => simp [h]
    | 1, _ => simp [h]
    | 2, _ => simp [h]
    | 3, _ => simp [h]
    | 4, _ => simp [h]
    | 5, _ => simp [h]
    | 6, _ => simp [h]
    | 7, _ => simp [h]
    | 8, _ => simp [h]
    | 9, _ => simp [h]
    | n + 10, h9 => omega

/-- program order never goes back to an earlier block -/
def StageLE (a b : Call) : Prop := stage a ≤ stage b

private theorem sorted_step {l1 l2 : List Call} {k : Nat}
    (h1 : ∀ x ∈ l1, stage x = k) (h2 : l2.Pairwise StageLE) (hk : ∀ y ∈ l2, k + 1 ≤ stage y) :
    (l1 ++ l2).Pairwise StageLE ∧ ∀ y ∈ l1 ++ l2, k ≤ stage y := by
  refine ⟨List.pairwise_append.mpr ⟨?_, h2, ?_⟩, ?_⟩
  · apply List.pairwise_of_forall_mem_list
    intro a ha b hb
    show stage a ≤ stage b
    rw [h1 a ha, h1 b hb]; exact Nat.le_refl _
  · intro a ha b hb
    show stage a ≤ stage b
    rw [h1 a ha]; have := hk b hb; omega
  · intro y hy
    rcases List.mem_append.mp hy with hy | hy
    · rw [h1 y hy]; exact Nat.le_refl _
    · have := hk y hy; omega

/-- the calls of a plan are listed block by block -/
theorem planCalls_sorted (o : Options) (c : Option CellInfo) : (planCalls o c).Pairwise StageLE := by
  have s (k : Nat) : ∀ x ∈ seg o c k, stage x = k := fun x hx => seg_stage hx
  have h9 : (seg o c 9).Pairwise StageLE ∧ ∀ y ∈ seg o c 9, 9 ≤ stage y := by
    refine ⟨List.pairwise_of_forall_mem_list ?_, fun y hy => by rw [s 9 y hy]; exact Nat.le_refl _⟩
    intro a ha b hb
    show stage a ≤ stage b
    rw [s 9 a ha, s 9 b hb]; exact Nat.le_refl _
  have h8 := sorted_step (s 8) h9.1 h9.2
  have h7 := sorted_step (s 7) h8.1 h8.2
  have h6 := sorted_step (s 6) h7.1 h7.2
  have h5 := sorted_step (s 5) h6.1 h6.2
  have h4 := sorted_step (s 4) h5.1 h5.2
  have h3 := sorted_step (s 3) h4.1 h4.2
  have h2 := sorted_step (s 2) h3.1 h3.2
  have h1 := sorted_step (s 1) h2.1 h2.2
  have h0 := sorted_step (s 0) h1.1 h1.2
  exact h0.1

/-- in a block-ordered list a call of an earlier block stands before a call of a later block -/
theorem index_lt_of_stage_lt {cs : List Call} (hs : cs.Pairwise StageLE) {i j : Nat} {x y : Call}
    (hi : cs[i]? = some x) (hj : cs[j]? = some y) (hlt : stage x < stage y) : i < j := by
  obtain ⟨hil, hix⟩ := List.getElem?_eq_some_iff.mp hi
  obtain ⟨hjl, hjy⟩ := List.getElem?_eq_some_iff.mp hj
  rcases Nat.lt_trichotomy i j with h | h | h
  · exact h
  · subst h; rw [hix] at hjy; subst hjy; omega
  · have := List.pairwise_iff_getElem.mp hs j i hjl hil h
    rw [hix, hjy] at this
    have : stage y ≤ stage x := this
    omega

/-- … and a call standing later belongs to the same or a later block -/
theorem stage_le_of_index_lt {cs : List Call} (hs : cs.Pairwise StageLE) {i j : Nat} {x y : Call}
    (hi : cs[i]? = some x) (hj : cs[j]? = some y) (hlt : i < j) : stage x ≤ stage y := by
  obtain ⟨hil, hix⟩ := List.getElem?_eq_some_iff.mp hi
  obtain ⟨hjl, hjy⟩ := List.getElem?_eq_some_iff.mp hj
  have := List.pairwise_iff_getElem.mp hs i j hil hjl hlt
  rw [hix, hjy] at this
  exact this

/-- a predicate that only holds for calls of block `k` selects, from the whole plan, what it selects from
    segment `k` -/
theorem filter_planCalls {o : Options} {c : Option CellInfo} {p : Call → Bool} {k : Nat}
    (hp : ∀ x, p x = true → stage x = k) :
    (planCalls o c).filter p = (seg o c k).filter p := by
  have hn : ∀ j, j ≠ k → (seg o c j).filter p = [] := fun j hjk =>
    List.filter_eq_nil_iff.mpr (fun a ha hpa => hjk ((seg_stage ha).symm.trans (hp a hpa)))
  simp only [planCalls, List.filter_append]
  match k, hn with
  | 0, hn => simp [hn]
  | 1, hn => simp [hn]
  | 2, hn => simp [hn]
  | 3, hn => simp [hn]
  | 4, hn => simp [hn]
  | 5, hn => simp [hn]
  | 6, hn => simp [hn]
  | 7, hn => simp [hn]
  | 8, hn => simp [hn]
  | 9, hn => simp [hn]
  | n + 10, hn =>
    have : seg o c (n + 10) = [] := rfl
    simp [hn, this]

theorem plan_ok {o : Options} {c : Option CellInfo} {cs : List Call} (h : plan o c = .ok cs) :
    planError o c = none ∧ cs = planCalls o c := by
  unfold plan at h
  split at h
  · cases h
  · rename_i he; cases h; exact ⟨he, rfl⟩

/-! ### order facts over `Rat` used for the minimum-image factors -/

theorem rat_div_le_iff {x a y : Rat} (ha : 0 < a) : x / a ≤ y ↔ x ≤ y * a := by
  rw [← Rat.not_lt, ← Rat.not_lt, Rat.lt_div_iff ha]

end Mofun.Cli
