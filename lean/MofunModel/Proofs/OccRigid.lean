/-
  OccRigid.lean — from the property's notion of a copy (proper rotation + translation, every atom within ε) to the
  distance conditions the search tests: if `2ε ≤ atol`, all pairwise image distances agree with the pattern's within
  `atol` in the model's square-root-free form.  Fully rational (Cauchy–Schwarz as Lagrange's identity); no `Real`.
-/
import MofunModel.Model.Occ
import Mathlib.Tactic.Ring
import Mathlib.Tactic.Linarith
import Mathlib.Tactic.LinearCombination

namespace Mofun

/-- a proper rotation preserves squared distances -/
theorem rot_isometry (R : Mat3) (hR : R.IsProperRotation) (p q : Vec3) :
    distSq (R.mulVec p) (R.mulVec q) = distSq p q := by
  obtain ⟨h1, h2, h3, h4, h5, h6, _⟩ := hR
  unfold distSq Vec3.normSq Vec3.dot Vec3.sub Mat3.mulVec Vec3.dot
  simp only
  linear_combination ((p.x - q.x) * (p.x - q.x)) * h1 + ((p.y - q.y) * (p.y - q.y)) * h2 +
    ((p.z - q.z) * (p.z - q.z)) * h3 + (2 * (p.x - q.x) * (p.y - q.y)) * h4 +
    (2 * (p.x - q.x) * (p.z - q.z)) * h5 + (2 * (p.y - q.y) * (p.z - q.z)) * h6

/-- the scalar core: `a = ‖u‖²`, `b = ‖u + e‖² = a + 2c + E` with `c = u·e`, `E = ‖e‖² ≤ T`, `c² ≤ aE`
    (Cauchy–Schwarz)  ⟹  `|√a − √b| ≤ √T` in the square-root-free encoding -/
theorem sqrtDiff_of_perturbation (a c E T : Rat) (_ha : 0 ≤ a) (_hE : 0 ≤ E) (hET : E ≤ T) (hcs : c * c ≤ a * E) :
    sqrtDiffLeSq a (a + 2 * c + E) T = true := by
  unfold sqrtDiffLeSq
  simp only [Bool.or_eq_true, decide_eq_true_eq]
  by_cases hs : a + (a + 2 * c + E) - T ≤ 0
  · exact Or.inl hs
  · right
    have hs := not_le.mp hs
    -- 4ab − s² = 4aT − (2c + E − T)²
    have key : 4 * a * (a + 2 * c + E) - (a + (a + 2 * c + E) - T) * (a + (a + 2 * c + E) - T)
        = 4 * a * T - (2 * c + E - T) * (2 * c + E - T) := by ring
    have hδ : 0 ≤ T - E := by linarith
    have hac : 0 < a + c := by linarith
    -- (2c − δ)² ≤ 4aE − 4cδ + δ² ≤ 4aE + 4aδ = 4aT   (δ = T − E, δ < 2(a + c))
    have h1 : (2 * c + E - T) * (2 * c + E - T) ≤ 4 * a * T := by
      have e1 : (2 * c + E - T) * (2 * c + E - T) = 4 * (c * c) - 4 * c * (T - E) + (T - E) * (T - E) := by ring
      have e2 : 4 * a * T = 4 * (a * E) + 4 * a * (T - E) := by ring
      rw [e1, e2]
      have h2 : (T - E) * (T - E) - 4 * c * (T - E) ≤ 4 * a * (T - E) := by
        have : (T - E) * ((T - E) - 4 * c - 4 * a) ≤ 0 := by
          apply mul_nonpos_of_nonneg_of_nonpos hδ
          linarith
        nlinarith
      linarith
    linarith

theorem cauchy_schwarz3 (u e : Vec3) : Vec3.dot u e * Vec3.dot u e ≤ Vec3.normSq u * Vec3.normSq e := by
  have lagrange : Vec3.normSq u * Vec3.normSq e - Vec3.dot u e * Vec3.dot u e = Vec3.normSq (Vec3.cross u e) := by
    unfold Vec3.normSq Vec3.dot Vec3.cross; simp only; ring
  have : 0 ≤ Vec3.normSq (Vec3.cross u e) := by
    unfold Vec3.normSq Vec3.dot
    nlinarith [mul_self_nonneg (Vec3.cross u e).x, mul_self_nonneg (Vec3.cross u e).y, mul_self_nonneg (Vec3.cross u e).z]
  linarith

theorem normSq_nonneg (u : Vec3) : 0 ≤ Vec3.normSq u := by
  unfold Vec3.normSq Vec3.dot
  nlinarith [mul_self_nonneg u.x, mul_self_nonneg u.y, mul_self_nonneg u.z]

/-- two points `Y₁ Y₂` within `ε` of `Q₁ Q₂`: their distance differs from `‖Q₁ − Q₂‖` by at most `2ε ≤ √T` -/
theorem sqrtDiff_of_close (Q1 Q2 Y1 Y2 : Vec3) (epsSq T : Rat) (h1 : distSq Q1 Y1 ≤ epsSq) (h2 : distSq Q2 Y2 ≤ epsSq)
    (hT : 4 * epsSq ≤ T) : sqrtDiffLeSq (distSq Q1 Q2) (distSq Y1 Y2) T = true := by
  let u := Vec3.sub Q1 Q2
  let e := Vec3.sub (Vec3.sub Y1 Q1) (Vec3.sub Y2 Q2)
  have hb : distSq Y1 Y2 = distSq Q1 Q2 + 2 * Vec3.dot u e + Vec3.normSq e := by
    simp only [u, e]
    unfold distSq Vec3.normSq Vec3.dot Vec3.sub; simp only; ring
  have hE : Vec3.normSq e ≤ 4 * epsSq := by
    have hpar : Vec3.normSq e ≤ 2 * distSq Q1 Y1 + 2 * distSq Q2 Y2 := by
      simp only [e]
      unfold distSq Vec3.normSq Vec3.dot Vec3.sub; simp only
      nlinarith [mul_self_nonneg ((Y1.x - Q1.x) + (Y2.x - Q2.x)), mul_self_nonneg ((Y1.y - Q1.y) + (Y2.y - Q2.y)),
                 mul_self_nonneg ((Y1.z - Q1.z) + (Y2.z - Q2.z))]
    linarith
  rw [hb]
  exact sqrtDiff_of_perturbation (distSq Q1 Q2) (Vec3.dot u e) (Vec3.normSq e) T (normSq_nonneg u) (normSq_nonneg e)
    (le_trans hE hT) (cauchy_schwarz3 u e)

/-- **rigid ⟹ distances.** An ε-copy in the sense of the property (`epsSq = ε²`, `4ε² ≤ atol²`, i.e. `2ε ≤ atol`)
    satisfies the search's pairwise distance test. -/
theorem rigid_implies_dist (inp : FindInput) (epsSq : Rat) (h4 : 4 * epsSq ≤ inp.atol * inp.atol)
    (g : Nat → Nat) (n : Nat → Int × Int × Int) (h : RigidOccurrence inp epsSq g n)
    (hinj : ∀ i j, j < i → i < inp.ppos.length → g j ≠ g i) : DistOccurrence inp g n := by
  rcases h.fit with ⟨R, t, hR, hfit⟩
  refine { idx_lt := h.idx_lt, inj := hinj, home := h.home, elem := h.elem, dist := fun i j hji hi => ?_ }
  have hi' := hfit i hi
  have hj' := hfit j (by omega)
  have hiso : distSq (inp.ppos.getD i Vec3.zero) (inp.ppos.getD j Vec3.zero)
      = distSq (Vec3.add (R.mulVec (inp.ppos.getD j Vec3.zero)) t) (Vec3.add (R.mulVec (inp.ppos.getD i Vec3.zero)) t) := by
    rw [← rot_isometry R hR]
    unfold distSq Vec3.normSq Vec3.dot Vec3.sub Vec3.add; simp only; ring
  unfold iscloseSqrt
  simp only [Bool.or_eq_true]
  left
  rw [hiso]
  exact sqrtDiff_of_close _ _ _ _ epsSq _ hj' hi' h4

end Mofun
