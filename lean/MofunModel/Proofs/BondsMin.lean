/-
  helper lemmas for the C17 stretch theorems (Props/C17Min.lean): the minimum over ALL lattice images exists,
  `minImageDist2`, the scanned minimum `scanMinDist2`, and a cutoff-independent guard under which the 27 scanned
  images contain a nearest image.
-/
import MofunModel.Proofs.BondsLemmas

namespace Mofun.Bonds
open Mofun Vec3

/-! ### the minimum over all lattice images exists (rational inputs: well-ordering of ℕ after clearing denominators) -/

theorem exists_common_den (l : List Rat) : ∃ D : Nat, 0 < D ∧ ∀ x ∈ l, ∃ z : Int, x * (D : Rat) = z := by
  induction l with
  | nil => exact ⟨1, by decide, by simp⟩
  | cons x xs ih =>
    obtain ⟨D, hD, h⟩ := ih
    refine ⟨x.den * D, Nat.mul_pos x.den_pos hD, ?_⟩
    intro y hy
    rcases List.mem_cons.mp hy with rfl | hy
    · refine ⟨y.num * D, ?_⟩
      push_cast
      rw [← mul_assoc, Rat.mul_den_eq_num]
    · obtain ⟨z, hz⟩ := h y hy
      refine ⟨z * x.den, ?_⟩
      push_cast
      rw [← hz]; ring

/-- after multiplication by a common denominator every squared image distance is a natural number -/
theorem distSq_image_nat (L : Mat3) (p q : Vec3) :
    ∃ D : Nat, 0 < D ∧ ∀ n1 n2 n3 : Int, ∃ k : Nat,
      distSq (p + L.lattice n1 n2 n3) q * ((D : Rat) * D) = k := by
  obtain ⟨D, hD, h⟩ := exists_common_den
    [p.x, p.y, p.z, q.x, q.y, q.z, L.a.x, L.a.y, L.a.z, L.b.x, L.b.y, L.b.z, L.c.x, L.c.y, L.c.z]
  refine ⟨D, hD, ?_⟩
  obtain ⟨zp1, hp1⟩ := h p.x (by simp)
  obtain ⟨zp2, hp2⟩ := h p.y (by simp)
  obtain ⟨zp3, hp3⟩ := h p.z (by simp)
  obtain ⟨zq1, hq1⟩ := h q.x (by simp)
  obtain ⟨zq2, hq2⟩ := h q.y (by simp)
  obtain ⟨zq3, hq3⟩ := h q.z (by simp)
  obtain ⟨za1, ha1⟩ := h L.a.x (by simp)
  obtain ⟨za2, ha2⟩ := h L.a.y (by simp)
  obtain ⟨za3, ha3⟩ := h L.a.z (by simp)
  obtain ⟨zb1, hb1⟩ := h L.b.x (by simp)
  obtain ⟨zb2, hb2⟩ := h L.b.y (by simp)
  obtain ⟨zb3, hb3⟩ := h L.b.z (by simp)
  obtain ⟨zc1, hc1⟩ := h L.c.x (by simp)
  obtain ⟨zc2, hc2⟩ := h L.c.y (by simp)
  obtain ⟨zc3, hc3⟩ := h L.c.z (by simp)
  intro n1 n2 n3
  let Z1 : Int := zp1 + (n1 * za1 + n2 * zb1 + n3 * zc1) - zq1
  let Z2 : Int := zp2 + (n1 * za2 + n2 * zb2 + n3 * zc2) - zq2
  let Z3 : Int := zp3 + (n1 * za3 + n2 * zb3 + n3 * zc3) - zq3
  refine ⟨(Z1 * Z1 + Z2 * Z2 + Z3 * Z3).toNat, ?_⟩
  have hnn : 0 ≤ Z1 * Z1 + Z2 * Z2 + Z3 * Z3 := by nlinarith [mul_self_nonneg Z1, mul_self_nonneg Z2, mul_self_nonneg Z3]
  have hcast : (((Z1 * Z1 + Z2 * Z2 + Z3 * Z3).toNat : Nat) : Rat) = ((Z1 * Z1 + Z2 * Z2 + Z3 * Z3 : Int) : Rat) := by
    have := Int.toNat_of_nonneg hnn
    exact_mod_cast congrArg (fun z : Int => (z : Rat)) this
  rw [hcast]
  obtain ⟨⟨a1, a2, a3⟩, ⟨b1, b2, b3⟩, ⟨c1, c2, c3⟩⟩ := L
  obtain ⟨p1, p2, p3⟩ := p
  obtain ⟨q1, q2, q3⟩ := q
  simp only [distSq, normSq, dot, vadd_eq, Vec3.add, Vec3.sub, Mat3.lattice, Vec3.smul] at *
  simp only [Z1, Z2, Z3]
  push_cast
  rw [← hp1, ← hp2, ← hp3, ← hq1, ← hq2, ← hq3, ← ha1, ← ha2, ← ha3, ← hb1, ← hb2, ← hb3, ← hc1, ← hc2, ← hc3]
  ring

/-- **the minimum-image distance exists**: some lattice image of `p` is at least as close to `q` as every other one
    (any rational cell, even a degenerate one) -/
theorem exists_min_image (L : Mat3) (p q : Vec3) :
    ∃ n1 n2 n3 : Int, ∀ m1 m2 m3 : Int,
      distSq (p + L.lattice n1 n2 n3) q ≤ distSq (p + L.lattice m1 m2 m3) q := by
  classical
  obtain ⟨D, hD, h⟩ := distSq_image_nat L p q
  have hex : ∃ k : Nat, ∃ n1 n2 n3 : Int, distSq (p + L.lattice n1 n2 n3) q * ((D : Rat) * D) = k := by
    obtain ⟨k, hk⟩ := h 0 0 0
    exact ⟨k, 0, 0, 0, hk⟩
  obtain ⟨n1, n2, n3, hn⟩ := Nat.find_spec hex
  refine ⟨n1, n2, n3, ?_⟩
  intro m1 m2 m3
  obtain ⟨k, hk⟩ := h m1 m2 m3
  have hle : Nat.find hex ≤ k := Nat.find_min' hex ⟨m1, m2, m3, hk⟩
  have hDD : (0 : Rat) < (D : Rat) * D := by
    have : (0 : Rat) < D := by exact_mod_cast hD
    positivity
  have : distSq (p + L.lattice n1 n2 n3) q * ((D : Rat) * D) ≤ distSq (p + L.lattice m1 m2 m3) q * ((D : Rat) * D) := by
    rw [hn, hk]; exact_mod_cast hle
  exact le_of_mul_le_mul_right this hDD


theorem exists_minImageDist2 (L : Mat3) (p q : Vec3) :
    ∃ d : Rat, (∃ n1 n2 n3 : Int, d = distSq (p + L.lattice n1 n2 n3) q)
      ∧ ∀ m1 m2 m3 : Int, d ≤ distSq (p + L.lattice m1 m2 m3) q := by
  obtain ⟨n1, n2, n3, h⟩ := exists_min_image L p q
  exact ⟨_, ⟨n1, n2, n3, rfl⟩, h⟩

/-- **`minImageDist2`**: the smallest squared distance between `q` and the lattice images `p + n·L`, `n ∈ ℤ³`
    (exists by `exists_min_image`; a specification-level quantity, the executable counterpart inside the guards is
    `scanMinDist2`) -/
noncomputable def minImageDist2 (L : Mat3) (p q : Vec3) : Rat :=
  Classical.choose (exists_minImageDist2 L p q)

theorem minImageDist2_le (L : Mat3) (p q : Vec3) (m1 m2 m3 : Int) :
    minImageDist2 L p q ≤ distSq (p + L.lattice m1 m2 m3) q :=
  (Classical.choose_spec (exists_minImageDist2 L p q)).2 m1 m2 m3

theorem minImageDist2_attained (L : Mat3) (p q : Vec3) :
    ∃ n1 n2 n3 : Int, minImageDist2 L p q = distSq (p + L.lattice n1 n2 n3) q :=
  (Classical.choose_spec (exists_minImageDist2 L p q)).1

/-- it is THE minimum: any attained lower bound equals it -/
theorem minImageDist2_unique (L : Mat3) (p q : Vec3) (d : Rat)
    (hle : ∀ m1 m2 m3 : Int, d ≤ distSq (p + L.lattice m1 m2 m3) q)
    (hat : ∃ n1 n2 n3 : Int, d = distSq (p + L.lattice n1 n2 n3) q) : d = minImageDist2 L p q := by
  obtain ⟨n1, n2, n3, hn⟩ := hat
  obtain ⟨k1, k2, k3, hk⟩ := minImageDist2_attained L p q
  apply le_antisymm
  · rw [hk]; exact hle k1 k2 k3
  · rw [hn]; exact minImageDist2_le L p q n1 n2 n3

theorem minImageDist2_nonneg (L : Mat3) (p q : Vec3) : 0 ≤ minImageDist2 L p q := by
  obtain ⟨k1, k2, k3, hk⟩ := minImageDist2_attained L p q
  rw [hk]; exact normSq_nonneg _

/-- the rule in its two forms: some image is strictly within the cutoff iff the minimum-image distance is -/
theorem minImage_iff_dist2 (L : Mat3) (p q : Vec3) (c : Rat) :
    MinImage L p q c ↔ minImageDist2 L p q < c * c := by
  constructor
  · rintro ⟨n1, n2, n3, h⟩
    exact lt_of_le_of_lt (minImageDist2_le L p q n1 n2 n3) h
  · intro h
    obtain ⟨k1, k2, k3, hk⟩ := minImageDist2_attained L p q
    exact ⟨k1, k2, k3, by rw [← hk]; exact h⟩

theorem minImageDist2_symm (L : Mat3) (p q : Vec3) : minImageDist2 L p q = minImageDist2 L q p := by
  apply minImageDist2_unique
  · intro m1 m2 m3
    have := minImageDist2_le L p q (-m1) (-m2) (-m3)
    rw [distSq_image_symm] at this
    exact this
  · obtain ⟨k1, k2, k3, hk⟩ := minImageDist2_attained L p q
    refine ⟨-k1, -k2, -k3, ?_⟩
    rw [hk, distSq_image_symm]

/-! ### the minimum over the scanned images -/

theorem minOver_le {α} (f : α → Rat) : ∀ (l : List α) (x : α), ∀ z ∈ x :: l, minOver f x l ≤ f z := by
  intro l
  induction l with
  | nil => intro x z hz; simp only [List.mem_singleton] at hz; subst hz; exact le_refl _
  | cons y l ih =>
    intro x z hz
    simp only [minOver]
    rcases List.mem_cons.mp hz with rfl | hz'
    · split
      · exact le_refl _
      · rename_i h; exact le_of_lt (not_le.mp h)
    · have := ih y z hz'
      split
      · rename_i h; exact le_trans h this
      · exact this

theorem minOver_mem {α} (f : α → Rat) : ∀ (l : List α) (x : α), ∃ z ∈ x :: l, minOver f x l = f z := by
  intro l
  induction l with
  | nil => intro x; exact ⟨x, List.mem_cons_self, rfl⟩
  | cons y l ih =>
    intro x
    simp only [minOver]
    split
    · exact ⟨x, List.mem_cons_self, rfl⟩
    · obtain ⟨z, hz, h⟩ := ih y
      exact ⟨z, List.mem_cons_of_mem _ hz, h⟩

theorem scanMinDist2_le (L : Mat3) (p q : Vec3) :
    ∀ m ∈ ucMultipliers, scanMinDist2 L p q ≤ distSq (p + L.lattice m.1 m.2.1 m.2.2) q := by
  intro m hm
  unfold scanMinDist2
  generalize ucMultipliers = l at hm
  cases l with
  | nil => cases hm
  | cons m0 ms => exact minOver_le _ ms m0 m hm

theorem scanMinDist2_attained (L : Mat3) (p q : Vec3) :
    ∃ m ∈ ucMultipliers, scanMinDist2 L p q = distSq (p + L.lattice m.1 m.2.1 m.2.2) q := by
  unfold scanMinDist2
  have hne : ucMultipliers ≠ [] := by decide
  generalize ucMultipliers = l at hne
  cases l with
  | nil => exact absurd rfl hne
  | cons m0 ms => exact minOver_mem _ ms m0

/-- the code's scan compares the scanned minimum with the cutoff -/
theorem scan_iff_scanMin (L : Mat3) (p q : Vec3) (c : Rat) :
    (∃ o ∈ ucOffsets L, distSq (p + o) q < c * c) ↔ scanMinDist2 L p q < c * c := by
  constructor
  · rintro ⟨o, ho, hlt⟩
    obtain ⟨m, hm, rfl⟩ := List.mem_map.mp ho
    exact lt_of_le_of_lt (scanMinDist2_le L p q m hm) hlt
  · intro h
    obtain ⟨m, hm, he⟩ := scanMinDist2_attained L p q
    exact ⟨_, List.mem_map.mpr ⟨m, hm, rfl⟩, by rw [← he]; exact h⟩

theorem minImageDist2_le_scanMin (L : Mat3) (p q : Vec3) : minImageDist2 L p q ≤ scanMinDist2 L p q := by
  obtain ⟨m, _, he⟩ := scanMinDist2_attained L p q
  rw [he]; exact minImageDist2_le L p q m.1 m.2.1 m.2.2

/-- if a nearest image has multipliers in {-1,0,1} the scan finds the true minimum -/
theorem scanMin_eq_of_minimiser (L : Mat3) (p q : Vec3) (n1 n2 n3 : Int)
    (hmin : ∀ m1 m2 m3 : Int, distSq (p + L.lattice n1 n2 n3) q ≤ distSq (p + L.lattice m1 m2 m3) q)
    (hmem : (n1, n2, n3) ∈ ucMultipliers) : scanMinDist2 L p q = minImageDist2 L p q := by
  apply le_antisymm
  · have h1 := scanMinDist2_le L p q (n1, n2, n3) hmem
    obtain ⟨k1, k2, k3, hk⟩ := minImageDist2_attained L p q
    rw [hk]; exact le_trans h1 (hmin k1 k2 k3)
  · exact minImageDist2_le_scanMin L p q

/-! ### guard 1 (cutoff-dependent): widths ≥ cutoff -/

/-- within the width guard, a minimum below the cutoff is attained among the 27 scanned images -/
theorem scanMin_eq_of_widths (L : Mat3) (p q : Vec3) (c : Rat) (hdet : L.det ≠ 0)
    (hp : L.inside p) (hq : L.inside q) (hw : L.widthsGe c) (hlt : minImageDist2 L p q < c * c) :
    scanMinDist2 L p q = minImageDist2 L p q := by
  obtain ⟨k1, k2, k3, hk⟩ := minImageDist2_attained L p q
  have hlt' : distSq (p + L.lattice k1 k2 k3) q < c * c := by rw [← hk]; exact hlt
  obtain ⟨⟨hpx0, hpx1⟩, ⟨hpy0, hpy1⟩, ⟨hpz0, hpz1⟩⟩ := hp
  obtain ⟨⟨hqx0, hqx1⟩, ⟨hqy0, hqy1⟩, ⟨hqz0, hqz1⟩⟩ := hq
  obtain ⟨hwx, hwy, hwz⟩ := hw
  have b1 := mult_bound _ _ p q L.det c k1 hdet (dot_frac_x L p q k1 k2 k3) hpx0 hpx1 hqx0 hqx1 hlt' hwx
  have b2 := mult_bound _ _ p q L.det c k2 hdet (dot_frac_y L p q k1 k2 k3) hpy0 hpy1 hqy0 hqy1 hlt' hwy
  have b3 := mult_bound _ _ p q L.det c k3 hdet (dot_frac_z L p q k1 k2 k3) hpz0 hpz1 hqz0 hqz1 hlt' hwz
  apply scanMin_eq_of_minimiser L p q k1 k2 k3 _ (mem_ucMultipliers k1 k2 k3 b1 b2 b3)
  intro m1 m2 m3
  rw [← hk]; exact minImageDist2_le L p q m1 m2 m3

/-! ### guard 2 (cutoff-independent): `Mat3.scanReduced` -/

theorem ratAbs_eq_abs (x : Rat) : ratAbs x = |x| := by
  unfold ratAbs
  split
  · rename_i h; exact (abs_of_neg h).symm
  · rename_i h; exact (abs_of_nonneg (not_lt.mp h)).symm

/-- a nearest image is no farther than its two neighbours along a lattice vector: `|v·A| ≤ ‖A‖²/2` -/
theorem dot_le_of_min (v a : Vec3) (h1 : normSq v ≤ normSq (Vec3.add v a)) (h2 : normSq v ≤ normSq (Vec3.sub v a)) :
    |dot v a| * 2 ≤ normSq a := by
  obtain ⟨v1, v2, v3⟩ := v
  obtain ⟨a1, a2, a3⟩ := a
  simp only [normSq, dot, Vec3.add, Vec3.sub] at *
  have : |v1 * a1 + v2 * a2 + v3 * a3| ≤ (a1 * a1 + a2 * a2 + a3 * a3) / 2 :=
    abs_le.mpr ⟨by linarith, by linarith⟩
  linarith

/-- expansion of any vector `w` in the lattice basis through the reciprocal directions:
    `(v·w)·det = Σ_j (w·w_j)(v·A_j)` -/
theorem dot_expand (L : Mat3) (v w : Vec3) :
    dot v w * L.det = dot w (cross L.b L.c) * dot v L.a + dot w (cross L.c L.a) * dot v L.b
      + dot w (cross L.a L.b) * dot v L.c := by
  obtain ⟨⟨a1, a2, a3⟩, ⟨b1, b2, b3⟩, ⟨c1, c2, c3⟩⟩ := L
  obtain ⟨v1, v2, v3⟩ := v
  obtain ⟨w1, w2, w3⟩ := w
  simp only [Mat3.det, dot, cross]
  ring

/-- under one row of the guard, the reciprocal coordinate of a nearest image is at most `|det|` -/
theorem recip_bound (L : Mat3) (v w : Vec3) (hdet : L.det ≠ 0)
    (ha : |dot v L.a| * 2 ≤ normSq L.a) (hb : |dot v L.b| * 2 ≤ normSq L.b) (hc : |dot v L.c| * 2 ≤ normSq L.c)
    (hrow : L.scanRow w ≤ 2 * (L.det * L.det)) : dot v w * dot v w ≤ L.det * L.det := by
  have hexp := dot_expand L v w
  unfold Mat3.scanRow at hrow
  rw [ratAbs_eq_abs, ratAbs_eq_abs, ratAbs_eq_abs] at hrow
  generalize dot w (cross L.b L.c) = g1 at *
  generalize dot w (cross L.c L.a) = g2 at *
  generalize dot w (cross L.a L.b) = g3 at *
  generalize dot v L.a = y1 at *
  generalize dot v L.b = y2 at *
  generalize dot v L.c = y3 at *
  generalize normSq L.a = N1 at *
  generalize normSq L.b = N2 at *
  generalize normSq L.c = N3 at *
  generalize dot v w = s at *
  generalize L.det = d at *
  have h1 : |g1 * y1| * 2 ≤ |g1| * N1 := by rw [abs_mul]; nlinarith [abs_nonneg g1]
  have h2 : |g2 * y2| * 2 ≤ |g2| * N2 := by rw [abs_mul]; nlinarith [abs_nonneg g2]
  have h3 : |g3 * y3| * 2 ≤ |g3| * N3 := by rw [abs_mul]; nlinarith [abs_nonneg g3]
  have habs : |s * d| ≤ d * d := by
    rw [hexp]
    have t1 := abs_add_le (g1 * y1 + g2 * y2) (g3 * y3)
    have t2 := abs_add_le (g1 * y1) (g2 * y2)
    linarith
  have hsq : (s * d) * (s * d) ≤ (d * d) * (d * d) := by
    have := abs_le.mp habs
    nlinarith
  have hdd : 0 < d * d := mul_self_pos.mpr hdet
  by_contra hcon
  have hcon := not_le.mp hcon
  nlinarith

/-- variant of `mult_bound` with a non-strict bound on the reciprocal coordinate -/
theorem mult_bound_le (w v p q : Vec3) (d : Rat) (n : Int) (hd : d ≠ 0)
    (hv : dot v w = dot p w + n * d - dot q w)
    (hp0 : 0 ≤ dot p w / d) (hp1 : dot p w / d < 1) (hq0 : 0 ≤ dot q w / d) (hq1 : dot q w / d < 1)
    (hs : dot v w * dot v w ≤ d * d) : n = -1 ∨ n = 0 ∨ n = 1 := by
  have hdd : 0 < d * d := mul_self_pos.mpr hd
  generalize hfp : dot p w / d = fp at hp0 hp1
  generalize hfq : dot q w / d = fq at hq0 hq1
  have ep : dot p w = fp * d := by rw [← hfp]; field_simp
  have eq : dot q w = fq * d := by rw [← hfq]; field_simp
  have es : dot v w = d * (fp + n - fq) := by rw [hv, ep, eq]; ring
  rw [es] at hs
  have ht : (fp + n - fq) * (fp + n - fq) ≤ 1 := by
    by_contra hcon
    have hcon := not_le.mp hcon
    nlinarith
  have h1 : fp + n - fq ≤ 1 := by nlinarith
  have h2 : -1 ≤ fp + n - fq := by nlinarith
  have h3 : (n : Rat) < 2 := by linarith
  have h4 : (-2 : Rat) < n := by linarith
  have h5 : n < (2 : Int) := by exact_mod_cast h3
  have h6 : (-2 : Int) < n := by exact_mod_cast h4
  omega

theorem distSq_step (L : Mat3) (p q : Vec3) (n1 n2 n3 e1 e2 e3 : Int) :
    distSq (p + L.lattice ((n1 + e1 : Int) : Rat) ((n2 + e2 : Int) : Rat) ((n3 + e3 : Int) : Rat)) q
      = normSq (Vec3.add (Vec3.sub (p + L.lattice n1 n2 n3) q) (L.lattice e1 e2 e3)) := by
  obtain ⟨⟨a1, a2, a3⟩, ⟨b1, b2, b3⟩, ⟨c1, c2, c3⟩⟩ := L
  obtain ⟨p1, p2, p3⟩ := p
  obtain ⟨q1, q2, q3⟩ := q
  simp only [distSq, normSq, dot, vadd_eq, Vec3.add, Vec3.sub, Mat3.lattice, Vec3.smul]
  push_cast
  ring

theorem lattice_unit (L : Mat3) :
    L.lattice ((1 : Int) : Rat) ((0 : Int) : Rat) ((0 : Int) : Rat) = L.a
    ∧ L.lattice ((0 : Int) : Rat) ((1 : Int) : Rat) ((0 : Int) : Rat) = L.b
    ∧ L.lattice ((0 : Int) : Rat) ((0 : Int) : Rat) ((1 : Int) : Rat) = L.c := by
  obtain ⟨⟨a1, a2, a3⟩, ⟨b1, b2, b3⟩, ⟨c1, c2, c3⟩⟩ := L
  simp [Mat3.lattice, Vec3.add, Vec3.smul]

theorem lattice_neg_unit (L : Mat3) (v : Vec3) :
    Vec3.add v (L.lattice ((-1 : Int) : Rat) ((0 : Int) : Rat) ((0 : Int) : Rat)) = Vec3.sub v L.a
    ∧ Vec3.add v (L.lattice ((0 : Int) : Rat) ((-1 : Int) : Rat) ((0 : Int) : Rat)) = Vec3.sub v L.b
    ∧ Vec3.add v (L.lattice ((0 : Int) : Rat) ((0 : Int) : Rat) ((-1 : Int) : Rat)) = Vec3.sub v L.c := by
  obtain ⟨⟨a1, a2, a3⟩, ⟨b1, b2, b3⟩, ⟨c1, c2, c3⟩⟩ := L
  obtain ⟨v1, v2, v3⟩ := v
  simp [Mat3.lattice, Vec3.add, Vec3.sub, Vec3.smul, sub_eq_add_neg]

/-- **the 27 scanned images contain a nearest image** for every in-cell pair, whenever the cell is `scanReduced`
    (no condition on any cutoff) -/
theorem scan_contains_minimiser (L : Mat3) (p q : Vec3) (hred : L.scanReduced) (hp : L.inside p) (hq : L.inside q) :
    ∃ m ∈ ucMultipliers, ∀ n1 n2 n3 : Int,
      distSq (p + L.lattice m.1 m.2.1 m.2.2) q ≤ distSq (p + L.lattice n1 n2 n3) q := by
  obtain ⟨hdet, hr1, hr2, hr3⟩ := hred
  obtain ⟨k1, k2, k3, hmin⟩ := exists_min_image L p q
  obtain ⟨ua, ub, uc⟩ := lattice_unit L
  -- the nearest image against its six neighbours
  have hA : |dot (Vec3.sub (p + L.lattice k1 k2 k3) q) L.a| * 2 ≤ normSq L.a := by
    apply dot_le_of_min
    · have := hmin (k1 + 1) (k2 + 0) (k3 + 0)
      rw [distSq_step, ua] at this; exact this
    · have := hmin (k1 + (-1)) (k2 + 0) (k3 + 0)
      rw [distSq_step, (lattice_neg_unit L _).1] at this; exact this
  have hB : |dot (Vec3.sub (p + L.lattice k1 k2 k3) q) L.b| * 2 ≤ normSq L.b := by
    apply dot_le_of_min
    · have := hmin (k1 + 0) (k2 + 1) (k3 + 0)
      rw [distSq_step, ub] at this; exact this
    · have := hmin (k1 + 0) (k2 + (-1)) (k3 + 0)
      rw [distSq_step, (lattice_neg_unit L _).2.1] at this; exact this
  have hC : |dot (Vec3.sub (p + L.lattice k1 k2 k3) q) L.c| * 2 ≤ normSq L.c := by
    apply dot_le_of_min
    · have := hmin (k1 + 0) (k2 + 0) (k3 + 1)
      rw [distSq_step, uc] at this; exact this
    · have := hmin (k1 + 0) (k2 + 0) (k3 + (-1))
      rw [distSq_step, (lattice_neg_unit L _).2.2] at this; exact this
  have s1 := recip_bound L _ _ hdet hA hB hC hr1
  have s2 := recip_bound L _ _ hdet hA hB hC hr2
  have s3 := recip_bound L _ _ hdet hA hB hC hr3
  obtain ⟨⟨hpx0, hpx1⟩, ⟨hpy0, hpy1⟩, ⟨hpz0, hpz1⟩⟩ := hp
  obtain ⟨⟨hqx0, hqx1⟩, ⟨hqy0, hqy1⟩, ⟨hqz0, hqz1⟩⟩ := hq
  have b1 := mult_bound_le _ _ p q L.det k1 hdet (dot_frac_x L p q k1 k2 k3) hpx0 hpx1 hqx0 hqx1 s1
  have b2 := mult_bound_le _ _ p q L.det k2 hdet (dot_frac_y L p q k1 k2 k3) hpy0 hpy1 hqy0 hqy1 s2
  have b3 := mult_bound_le _ _ p q L.det k3 hdet (dot_frac_z L p q k1 k2 k3) hpz0 hpz1 hqz0 hqz1 s3
  exact ⟨(k1, k2, k3), mem_ucMultipliers k1 k2 k3 b1 b2 b3, hmin⟩

theorem scanMin_eq_of_reduced (L : Mat3) (p q : Vec3) (hred : L.scanReduced) (hp : L.inside p) (hq : L.inside q) :
    scanMinDist2 L p q = minImageDist2 L p q := by
  obtain ⟨m, hm, hmin⟩ := scan_contains_minimiser L p q hred hp hq
  exact scanMin_eq_of_minimiser L p q m.1 m.2.1 m.2.2 hmin hm

/-- every orthorhombic cell with non-zero edges is `scanReduced` -/
theorem scanReduced_of_ortho (a b c : Rat) (ha : a ≠ 0) (hb : b ≠ 0) (hc : c ≠ 0) :
    (⟨⟨a, 0, 0⟩, ⟨0, b, 0⟩, ⟨0, 0, c⟩⟩ : Mat3).scanReduced := by
  unfold Mat3.scanReduced Mat3.scanRow
  simp only [ratAbs_eq_abs, Mat3.det, dot, cross, normSq]
  refine ⟨?_, ?_, ?_, ?_⟩
  · simp only [mul_zero, zero_mul, sub_zero, add_zero, zero_add]
    exact mul_ne_zero (mul_ne_zero ha hb) hc
  all_goals
    simp only [mul_zero, zero_mul, sub_zero, add_zero, zero_add, abs_zero]
    rw [abs_of_nonneg (by nlinarith [mul_self_nonneg (a * b * c), mul_self_nonneg (b * c), mul_self_nonneg (c * a), mul_self_nonneg (a * b)])]
    nlinarith [mul_self_nonneg (a * b * c)]


/-- in a `scanReduced` cell the code's scan decides the minimum-image rule for EVERY cutoff -/
theorem images27_iff_minImage_reduced (L : Mat3) (p q : Vec3) (c : Rat) (hred : L.scanReduced)
    (hp : L.inside p) (hq : L.inside q) :
    (∃ o ∈ ucOffsets L, distSq (p + o) q < c * c) ↔ MinImage L p q c := by
  rw [scan_iff_scanMin, scanMin_eq_of_reduced L p q hred hp hq, minImage_iff_dist2]

theorem bondGuardsReduced_iff (pos : List Vec3) (L : Mat3) :
    bondGuardsReduced pos L = true ↔ L.scanReduced ∧ ∀ p ∈ pos, L.inside p := by
  unfold bondGuardsReduced
  simp only [Bool.and_eq_true, decide_eq_true_eq, List.all_eq_true]


/-! ### the width guard with a margin (atoms on the faces of the cell or slightly outside) -/

/-- `mult_bound` with a margin: atoms up to `δ` cell lengths outside the closed cell, widths shrunk by `1 - 2δ` -/
theorem mult_bound_margin (w v p q : Vec3) (d c δ : Rat) (n : Int) (hd : d ≠ 0) (hδ1 : 2 * δ < 1)
    (hv : dot v w = dot p w + n * d - dot q w)
    (hp0 : -δ ≤ dot p w / d) (hp1 : dot p w / d ≤ 1 + δ) (hq0 : -δ ≤ dot q w / d) (hq1 : dot q w / d ≤ 1 + δ)
    (hvc : normSq v < c * c) (hw : c * c * normSq w ≤ (1 - 2 * δ) * (1 - 2 * δ) * (d * d)) :
    n = -1 ∨ n = 0 ∨ n = 1 := by
  have hcs := cauchy_schwarz v w
  have hwn := normSq_nonneg w
  have hvn := normSq_nonneg v
  have hdd : 0 < d * d := mul_self_pos.mpr hd
  have hspos : 0 < 1 - 2 * δ := by linarith
  have hss : 0 < (1 - 2 * δ) * (1 - 2 * δ) := mul_pos hspos hspos
  have hs : dot v w * dot v w < (1 - 2 * δ) * (1 - 2 * δ) * (d * d) := by
    rcases eq_or_lt_of_le hwn with h0 | hpos
    · rw [← h0] at hcs
      have : 0 < (1 - 2 * δ) * (1 - 2 * δ) * (d * d) := mul_pos hss hdd
      nlinarith
    · nlinarith
  generalize hfp : dot p w / d = fp at hp0 hp1
  generalize hfq : dot q w / d = fq at hq0 hq1
  have ep : dot p w = fp * d := by rw [← hfp]; field_simp
  have eq : dot q w = fq * d := by rw [← hfq]; field_simp
  have es : dot v w = d * (fp + n - fq) := by rw [hv, ep, eq]; ring
  rw [es] at hs
  have ht : (fp + n - fq) * (fp + n - fq) < (1 - 2 * δ) * (1 - 2 * δ) := by
    by_contra hcon
    have hcon := not_lt.mp hcon
    nlinarith
  have h1 : fp + n - fq < 1 - 2 * δ := by nlinarith
  have h2 : -(1 - 2 * δ) < fp + n - fq := by nlinarith
  have h3 : (n : Rat) < 2 := by linarith
  have h4 : (-2 : Rat) < n := by linarith
  have h5 : n < (2 : Int) := by exact_mod_cast h3
  have h6 : (-2 : Int) < n := by exact_mod_cast h4
  omega

/-- **27 images suffice, with a margin**: atoms within `δ` of the closed cell, `c ≤ (1 - 2δ)·width_k` -/
theorem images27_iff_minImage_margin (L : Mat3) (p q : Vec3) (c δ : Rat) (hdet : L.det ≠ 0) (hδ1 : 2 * δ < 1)
    (hp : L.insideMargin δ p) (hq : L.insideMargin δ q) (hw : L.widthsGeScaled c (1 - 2 * δ)) :
    (∃ o ∈ ucOffsets L, distSq (p + o) q < c * c) ↔ MinImage L p q c := by
  constructor
  · rintro ⟨o, ho, hlt⟩
    obtain ⟨m, _, rfl⟩ := List.mem_map.mp ho
    exact ⟨m.1, m.2.1, m.2.2, hlt⟩
  · rintro ⟨n1, n2, n3, hlt⟩
    obtain ⟨⟨hpx0, hpx1⟩, ⟨hpy0, hpy1⟩, ⟨hpz0, hpz1⟩⟩ := hp
    obtain ⟨⟨hqx0, hqx1⟩, ⟨hqy0, hqy1⟩, ⟨hqz0, hqz1⟩⟩ := hq
    obtain ⟨hwx, hwy, hwz⟩ := hw
    have b1 := mult_bound_margin _ _ p q L.det c δ n1 hdet hδ1 (dot_frac_x L p q n1 n2 n3) hpx0 hpx1 hqx0 hqx1 hlt hwx
    have b2 := mult_bound_margin _ _ p q L.det c δ n2 hdet hδ1 (dot_frac_y L p q n1 n2 n3) hpy0 hpy1 hqy0 hqy1 hlt hwy
    have b3 := mult_bound_margin _ _ p q L.det c δ n3 hdet hδ1 (dot_frac_z L p q n1 n2 n3) hpz0 hpz1 hqz0 hqz1 hlt hwz
    exact ⟨_, List.mem_map.mpr ⟨(n1, n2, n3), mem_ucMultipliers n1 n2 n3 b1 b2 b3, rfl⟩, hlt⟩

theorem bondGuardsMargin_iff (elems : List String) (pos : List Vec3) (L : Mat3) (δ : Rat) :
    bondGuardsMargin elems pos L δ = true ↔
      0 ≤ δ ∧ 2 * δ < 1 ∧ L.det ≠ 0 ∧ (∀ p ∈ pos, L.insideMargin δ p)
      ∧ ∀ e1 ∈ elems, ∀ e2 ∈ elems, ∀ c, maxBondLength e1 e2 = some c → L.widthsGeScaled c (1 - 2 * δ) := by
  unfold bondGuardsMargin
  simp only [Bool.and_eq_true, decide_eq_true_eq, List.all_eq_true, and_assoc]
  refine and_congr Iff.rfl (and_congr Iff.rfl (and_congr Iff.rfl (and_congr Iff.rfl ?_)))
  constructor
  · intro h e1 h1 e2 h2 c hc
    have := h e1 h1 e2 h2
    rw [hc] at this
    simpa using this
  · intro h e1 h1 e2 h2
    cases hc : maxBondLength e1 e2 with
    | none => rfl
    | some c => simpa using h e1 h1 e2 h2 c hc

/-- the strict guards are the margin guards with δ = 0 -/
theorem inside_imp_insideMargin (L : Mat3) (p : Vec3) (h : L.inside p) : L.insideMargin 0 p := by
  obtain ⟨⟨a0, a1⟩, ⟨b0, b1⟩, ⟨c0, c1⟩⟩ := h
  unfold Mat3.insideMargin
  simp only [neg_zero, add_zero]
  exact ⟨⟨a0, le_of_lt a1⟩, ⟨b0, le_of_lt b1⟩, ⟨c0, le_of_lt c1⟩⟩

theorem widthsGe_iff_scaled_one (L : Mat3) (c : Rat) : L.widthsGe c ↔ L.widthsGeScaled c (1 - 2 * 0) := by
  unfold Mat3.widthsGe Mat3.widthsGeScaled
  simp only [mul_zero, sub_zero, one_mul]

end Mofun.Bonds
