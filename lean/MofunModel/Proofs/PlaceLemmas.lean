/-
  PlaceLemmas.lean — the placement of the replacement pattern (`placeAtoms`, Model/Replace.lean) and the final
  re-check of the search (`goodCheck`, Model/Find.lean):
    * `rot q` is linear; for `|q|² ≠ 0` it preserves dot products and triple products (a PROPER rotation)
      — proved here for the C05 statements (independent of the C01 files);
    * every placed atom is `rot q (Rp[k] − P[0]) + pos[0]` plus an INTEGER lattice vector and lies in the cell;
    * what `goodCheck = true` says componentwise;
    * the frame used for insertion differs from the frame of the re-check by one constant vector, which the
      re-check bounds.
-/
import MofunModel.Model.Replace
import MofunModel.Proofs.WrapLemmas

namespace Mofun.C05

open Mofun

/-! ### `rot q` is a proper rotation -/

theorem rot_sub (q : Quat) (a b : Vec3) : rot q (Vec3.sub a b) = Vec3.sub (rot q a) (rot q b) := by
  apply vec3_ext <;> simp only [rot, Quat.apply0, Vec3.smul, Vec3.sub] <;> ring

theorem rot_add (q : Quat) (a b : Vec3) : rot q (Vec3.add a b) = Vec3.add (rot q a) (rot q b) := by
  apply vec3_ext <;> simp only [rot, Quat.apply0, Vec3.smul, Vec3.add] <;> ring

theorem rot_smul (q : Quat) (k : Rat) (a : Vec3) : rot q (Vec3.smul k a) = Vec3.smul k (rot q a) := by
  apply vec3_ext <;> simp only [rot, Quat.apply0, Vec3.smul] <;> ring

theorem rot_zero (q : Quat) : rot q Vec3.zero = Vec3.zero := by
  apply vec3_ext <;> simp only [rot, Quat.apply0, Vec3.smul, Vec3.zero] <;> ring

theorem sub_self (a : Vec3) : Vec3.sub a a = Vec3.zero := by
  apply vec3_ext <;> simp only [Vec3.sub, Vec3.zero] <;> ring

/-- `RᵀR = I`: dot products (hence lengths and angles) are preserved -/
theorem rot_dot (q : Quat) (hq : q.normSq ≠ 0) (a b : Vec3) :
    Vec3.dot (rot q a) (rot q b) = Vec3.dot a b := by
  have h : Vec3.dot (q.apply0 a) (q.apply0 b) = q.normSq * q.normSq * Vec3.dot a b := by
    simp only [Quat.apply0, Vec3.dot, Quat.normSq]; ring
  have h2 : Vec3.dot (rot q a) (rot q b) = (1 / q.normSq) * (1 / q.normSq) * Vec3.dot (q.apply0 a) (q.apply0 b) := by
    simp only [rot, Vec3.dot, Vec3.smul]; ring
  rw [h2, h]
  field_simp

theorem rot_normSq (q : Quat) (hq : q.normSq ≠ 0) (v : Vec3) : Vec3.normSq (rot q v) = Vec3.normSq v :=
  rot_dot q hq v v

/-- distances between points are preserved by `x ↦ rot q (x − o) + t` -/
theorem rigid_distSq (q : Quat) (hq : q.normSq ≠ 0) (o t a b : Vec3) :
    distSq (Vec3.add (rot q (Vec3.sub a o)) t) (Vec3.add (rot q (Vec3.sub b o)) t) = distSq a b := by
  have h : Vec3.sub (Vec3.add (rot q (Vec3.sub a o)) t) (Vec3.add (rot q (Vec3.sub b o)) t) = rot q (Vec3.sub a b) := by
    rw [rot_sub, rot_sub, rot_sub]
    apply vec3_ext <;> simp only [Vec3.sub, Vec3.add] <;> ring
  unfold distSq
  rw [h, rot_normSq q hq]

/-- `det R = +1`: triple products (orientation) are preserved — no mirror image -/
theorem rot_triple (q : Quat) (hq : q.normSq ≠ 0) (a b c : Vec3) :
    Vec3.dot (rot q a) (Vec3.cross (rot q b) (rot q c)) = Vec3.dot a (Vec3.cross b c) := by
  have h : Vec3.dot (q.apply0 a) (Vec3.cross (q.apply0 b) (q.apply0 c))
      = q.normSq * q.normSq * q.normSq * Vec3.dot a (Vec3.cross b c) := by
    simp only [Quat.apply0, Vec3.dot, Vec3.cross, Quat.normSq]; ring
  have h2 : Vec3.dot (rot q a) (Vec3.cross (rot q b) (rot q c))
      = (1 / q.normSq) * (1 / q.normSq) * (1 / q.normSq) * Vec3.dot (q.apply0 a) (Vec3.cross (q.apply0 b) (q.apply0 c)) := by
    simp only [rot, Vec3.dot, Vec3.cross, Vec3.smul]; ring
  rw [h2, h]
  field_simp

/-! ### the placement -/

/-- the rigid motion used for insertion: the search pattern's first atom goes to the first matched position -/
def insertFrame (q : Quat) (p0 t : Vec3) (x : Vec3) : Vec3 := Vec3.add (rot q (Vec3.sub x p0)) t

/-- the rigid motion the search verified (`goodCheck`): the first axis point goes to its matched position -/
def checkFrame (q : Quat) (o t : Vec3) (x : Vec3) : Vec3 := Vec3.add (rot q (Vec3.sub x o)) t

theorem placeAtoms_length (cell : Option Mat3) (p0 : Vec3) (r : Atoms) (m : PlacedMatch) :
    (placeAtoms cell p0 r m).atoms.length = r.atoms.length := by
  simp [placeAtoms]

/-- the `k`-th placed atom is the `k`-th replacement atom with a new position, everything else kept -/
theorem placeAtoms_getElem? (cell : Option Mat3) (p0 : Vec3) (r : Atoms) (m : PlacedMatch) (k : Nat) :
    (placeAtoms cell p0 r m).atoms[k]? =
      (r.atoms[k]?).map (fun row =>
        { row with pos := match cell with
                          | some c => c.wrap (insertFrame m.q p0 (m.pos.getD 0 Vec3.zero) row.pos)
                          | none => insertFrame m.q p0 (m.pos.getD 0 Vec3.zero) row.pos }) := by
  cases cell <;> simp only [placeAtoms, List.getElem?_map, insertFrame]

/-- everything but the atom rows is the replacement pattern's -/
theorem placeAtoms_rest (cell : Option Mat3) (p0 : Vec3) (r : Atoms) (m : PlacedMatch) :
    (placeAtoms cell p0 r m).bonds = r.bonds ∧ (placeAtoms cell p0 r m).angles = r.angles ∧
    (placeAtoms cell p0 r m).dihedrals = r.dihedrals ∧ (placeAtoms cell p0 r m).impropers = r.impropers ∧
    (placeAtoms cell p0 r m).typeElems = r.typeElems ∧ (placeAtoms cell p0 r m).xlabels = r.xlabels := by
  simp [placeAtoms]

/-! ### absolute values and `np.allclose` -/

theorem absRat_nonneg (x : Rat) : 0 ≤ absRat x := by
  unfold absRat; split <;> linarith

theorem absRat_le_iff (x b : Rat) : absRat x ≤ b ↔ -b ≤ x ∧ x ≤ b := by
  unfold absRat; split <;> constructor <;> intro h <;> (try constructor) <;> (try obtain ⟨h1, h2⟩ := h) <;> linarith

theorem absRat_add_le (x y : Rat) : absRat (x + y) ≤ absRat x + absRat y := by
  have hx := (absRat_le_iff x (absRat x)).mp (le_refl _)
  have hy := (absRat_le_iff y (absRat y)).mp (le_refl _)
  rw [absRat_le_iff]; constructor <;> linarith [hx.1, hx.2, hy.1, hy.2]

/-- the relative tolerance of `np.allclose` (default `rtol = 1e-5`) -/
def rtol : Rat := 1 / 100000

/-- componentwise closeness `|a − b| ≤ atol + rtol·|b|` on all three coordinates -/
def CloseTo (a b : Vec3) (atol : Rat) : Prop :=
  absRat (a.x - b.x) ≤ atol + rtol * absRat b.x ∧ absRat (a.y - b.y) ≤ atol + rtol * absRat b.y ∧
  absRat (a.z - b.z) ≤ atol + rtol * absRat b.z

/-- componentwise closeness with the absolute tolerance alone: `|a − b| ≤ atol` on all three coordinates
    (`np.allclose(a, b, rtol=0, atol=atol)`, the re-check of the search model) -/
def CloseAbs (a b : Vec3) (atol : Rat) : Prop :=
  absRat (a.x - b.x) ≤ atol ∧ absRat (a.y - b.y) ≤ atol ∧ absRat (a.z - b.z) ≤ atol

theorem closeVec_iff (a b : Vec3) (atol : Rat) : closeVec a b atol = true ↔ CloseAbs a b atol := by
  unfold closeVec CloseAbs closeCoord
  simp only [Bool.and_eq_true, decide_eq_true_iff]
  tauto

/-- the absolute bound implies the `np.allclose` bound with any non-negative relative term -/
theorem closeAbs_closeTo (a b : Vec3) (atol : Rat) (h : CloseAbs a b atol) : CloseTo a b atol := by
  have hr : ∀ y : Rat, 0 ≤ rtol * absRat y := by
    intro y
    have := absRat_nonneg y
    unfold rtol
    have h1 : (0 : Rat) ≤ 1 / 100000 := by decide +kernel
    exact Rat.mul_nonneg h1 this
  obtain ⟨h1, h2, h3⟩ := h
  exact ⟨by linarith [hr b.x], by linarith [hr b.y], by linarith [hr b.z]⟩

/-- what the search's final re-check says: every matched position is within `atol` (per coordinate) of the image of its
    pattern atom under the check frame -/
theorem goodCheck_iff (pp : List Vec3) (ax1 : Nat) (atol : Rat) (q : Quat) (cpos : List Vec3) :
    goodCheck pp ax1 atol q cpos = true ↔
      ∀ k, k < pp.length →
        CloseAbs (cpos.getD k Vec3.zero)
          (checkFrame q (pp.getD ax1 Vec3.zero) (cpos.getD ax1 Vec3.zero) (pp.getD k Vec3.zero)) atol := by
  unfold goodCheck checkFrame
  simp only [List.all_eq_true, List.mem_range, closeVec_iff]

/-- the weaker `np.allclose` form (absolute + relative term): holds for the re-check with and without a relative term -/
theorem goodCheck_closeTo (pp : List Vec3) (ax1 : Nat) (atol : Rat) (q : Quat) (cpos : List Vec3)
    (h : goodCheck pp ax1 atol q cpos = true) :
    ∀ k, k < pp.length →
      CloseTo (cpos.getD k Vec3.zero)
        (checkFrame q (pp.getD ax1 Vec3.zero) (cpos.getD ax1 Vec3.zero) (pp.getD k Vec3.zero)) atol :=
  fun k hk => closeAbs_closeTo _ _ _ ((goodCheck_iff pp ax1 atol q cpos).mp h k hk)

/-! ### the two frames differ by one constant vector -/

/-- **frame_shift**: for EVERY point `x`, `insertFrame x − checkFrame x` is the same vector, namely
    `pos[0] − checkFrame(P[0])` — the residual of the re-check at the first pattern atom -/
theorem frame_shift (q : Quat) (p0 o t0 t1 x : Vec3) :
    Vec3.sub (insertFrame q p0 t0 x) (checkFrame q o t1 x) = Vec3.sub t0 (checkFrame q o t1 p0) := by
  unfold insertFrame checkFrame
  rw [rot_sub, rot_sub, rot_sub]
  apply vec3_ext <;> simp only [Vec3.sub, Vec3.add] <;> ring

end Mofun.C05
