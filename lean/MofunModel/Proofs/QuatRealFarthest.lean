/-
  QuatRealFarthest.lean — `position_index_farthest_from_axis` over ℝ: the first arg-max of the squared distance from the axis.
-/
import MofunModel.Proofs.QuatRealAlign
namespace Mofun.QuatH
open Mofun.Uff Mofun.Uff.ElemFun QNum

theorem foldMax_spec (xs : List ℝ) (x : ℝ) :
    let r := xs.foldl (fun m y => if QNum.lt m y then y else m) x
    (r = x ∨ r ∈ xs) ∧ x ≤ r ∧ ∀ y ∈ xs, y ≤ r := by
  induction xs generalizing x with
  | nil => simp
  | cons a as ih =>
    simp only [List.foldl_cons]
    by_cases h : x < a
    · have e : QNum.lt x a = true := (lt_real _ _).mpr h
      rw [e]; simp only [if_true]
      obtain ⟨h1, h2, h3⟩ := ih a
      refine ⟨?_, by linarith, ?_⟩
      · rcases h1 with h1 | h1
        · right; rw [h1]; exact List.mem_cons_self
        · right; exact List.mem_cons_of_mem _ h1
      · intro y hy
        rcases List.mem_cons.mp hy with rfl | hy
        · exact h2
        · exact h3 y hy
    · have e : QNum.lt x a = false := by
        rw [Bool.eq_false_iff]; intro h'; exact h ((lt_real _ _).mp h')
      rw [e]; simp only [Bool.false_eq_true, if_false]
      obtain ⟨h1, h2, h3⟩ := ih x
      refine ⟨?_, h2, ?_⟩
      · rcases h1 with h1 | h1
        · left; exact h1
        · right; exact List.mem_cons_of_mem _ h1
      · intro y hy
        rcases List.mem_cons.mp hy with rfl | hy
        · linarith [not_lt.mp h]
        · exact h3 y hy

/-- `ss.max()` is an element of a non-empty list and bounds every element -/
theorem maxL_spec (l : List ℝ) (hne : l ≠ []) : maxL l ∈ l ∧ ∀ y ∈ l, y ≤ maxL l := by
  cases l with
  | nil => exact absurd rfl hne
  | cons x xs =>
    have hdef : maxL (x :: xs) = xs.foldl (fun m y => if QNum.lt m y then y else m) x := rfl
    rw [hdef]
    obtain ⟨h1, h2, h3⟩ := foldMax_spec xs x
    refine ⟨?_, ?_⟩
    · rcases h1 with h1 | h1
      · rw [h1]; exact List.mem_cons_self
      · exact List.mem_cons_of_mem _ h1
    · intro y hy
      rcases List.mem_cons.mp hy with rfl | hy
      · exact h2
      · exact h3 y hy

theorem firstEq_go_spec (l : List ℝ) (m : ℝ) (i : Nat) (hm : m ∈ l) :
    ∃ k, firstEq.go m l i = i + k ∧ k < l.length ∧ l[k]? = some m ∧ ∀ j, j < k → l[j]? ≠ some m := by
  induction l generalizing i with
  | nil => simp at hm
  | cons x xs ih =>
    unfold firstEq.go
    by_cases hx : x = m
    · have e : QNum.eq x m = true := (eq_real _ _).mpr hx
      rw [e]; simp only [if_true]
      exact ⟨0, rfl, by simp, by simp [hx], by intro j hj; omega⟩
    · have e : QNum.eq x m = false := by
        rw [Bool.eq_false_iff]; intro h'; exact hx ((eq_real _ _).mp h')
      rw [e]; simp only [Bool.false_eq_true, if_false]
      have hm' : m ∈ xs := by
        rcases List.mem_cons.mp hm with h | h
        · exact absurd h.symm hx
        · exact h
      obtain ⟨k, h1, h2, h3, h4⟩ := ih (i + 1) hm'
      refine ⟨k + 1, by rw [h1]; omega, by simp; omega, by simpa using h3, ?_⟩
      intro j hj
      cases j with
      | zero => simp; exact hx
      | succ j => simp; exact h4 j (by omega)

/-- `np.nonzero(ss == ss.max())[0][0]`: the FIRST position of the maximum -/
theorem firstEq_max_spec (l : List ℝ) (hne : l ≠ []) :
    let k := firstEq l (maxL l)
    k < l.length ∧ l[k]? = some (maxL l) ∧ (∀ y ∈ l, y ≤ maxL l) ∧ ∀ j, j < k → ∀ y, l[j]? = some y → y < maxL l := by
  obtain ⟨hmem, hle⟩ := maxL_spec l hne
  obtain ⟨k, h1, h2, h3, h4⟩ := firstEq_go_spec l (maxL l) 0 hmem
  have hk : firstEq l (maxL l) = k := by unfold firstEq; rw [h1]; omega
  simp only [hk]
  refine ⟨h2, h3, hle, ?_⟩
  intro j hj y hy
  have hyl : y ∈ l := List.mem_of_getElem? hy
  have := hle y hyl
  rcases lt_or_eq_of_le this with h | h
  · exact h
  · exact absurd (by rw [hy, h]) (h4 j hj)


/-- squared distance of `p` from the line through the origin along `axis` -/
noncomputable def distSqFromAxis (axis p : V3 ℝ) : ℝ :=
  V3.dot p p - V3.dot p (unitOf axis) * V3.dot p (unitOf axis)

/-- after turning the axis onto x, `y² + z²` is the squared distance from the axis -/
theorem offAxis_eq_dist (q : Q4 ℝ) (axis p : V3 ℝ) (hq : Q4.normSq q = 1)
    (hx : rotR q (unitOf axis) = ⟨1, 0, 0⟩) :
    (applyRot q p).y * (applyRot q p).y + (applyRot q p).z * (applyRot q p).z = distSqFromAxis axis p := by
  have hP := rotMat_proper q hq
  rw [applyRot_eq_rotR, rotR_eq_mulVec]
  have h1 := proper_dot (rotMat q) hP p p
  have h2 := proper_dot (rotMat q) hP p (unitOf axis)
  rw [← rotR_eq_mulVec q (unitOf axis), hx] at h2
  unfold distSqFromAxis
  rw [← h1, ← h2]
  unfold V3.dot
  ring

/-- **(e)** `position_index_farthest_from_axis(axis, atoms)` returns the FIRST index that maximises the squared distance
    from the axis (non-zero axis; the helper's own rotation onto x outside its degenerate branch, or exactly
    antiparallel to x with a usable drawn vector). -/
theorem farthest_spec (rv axis : V3 ℝ) (positions : List (V3 ℝ)) (hne : positions ≠ [])
    (ha : V3.norm axis ≠ 0) (hfirst : FirstStepOk rv axis ⟨1, 0, 0⟩) :
    let k := positionIndexFarthestFromAxis rv axis positions
    k < positions.length ∧
    (∀ j, j < positions.length → distSqFromAxis axis (getV positions j) ≤ distSqFromAxis axis (getV positions k)) ∧
    (∀ j, j < k → distSqFromAxis axis (getV positions j) < distSqFromAxis axis (getV positions k)) := by
  have hex : V3.norm (⟨1, 0, 0⟩ : V3 ℝ) = 1 := by rw [norm_real]; norm_num
  have hux : unitOf (⟨1, 0, 0⟩ : V3 ℝ) = ⟨1, 0, 0⟩ := by unfold unitOf; rw [hex]; simp [V3.divs]
  obtain ⟨hR, hq⟩ := qftv_first_step rv axis ⟨1, 0, 0⟩ ha (by rw [hex]; norm_num) hfirst
  rw [hux] at hR
  set q := quaternionFromTwoVectors rv axis (⟨1, 0, 0⟩ : V3 ℝ) with hqdef
  have hss : offAxisSS q positions = positions.map (distSqFromAxis axis) := by
    unfold offAxisSS
    apply List.map_congr_left
    intro p _
    exact offAxis_eq_dist q axis p hq hR
  have hk : positionIndexFarthestFromAxis rv axis positions =
      firstEq (positions.map (distSqFromAxis axis)) (maxL (positions.map (distSqFromAxis axis))) := by
    unfold positionIndexFarthestFromAxis
    simp only [n1_real, n0_real]
    rw [← hqdef, hss]
  simp only [hk]
  set l := positions.map (distSqFromAxis axis) with hl
  have hlne : l ≠ [] := by rw [hl]; simpa using hne
  obtain ⟨h1, h2, h3, h4⟩ := firstEq_max_spec l hlne
  have hlen : l.length = positions.length := by rw [hl]; simp
  have hget : ∀ j, j < positions.length → l[j]? = some (distSqFromAxis axis (getV positions j)) := by
    intro j hj
    rw [hl, List.getElem?_map, List.getElem?_eq_getElem hj]
    simp [getV, List.getD_eq_getElem?_getD, List.getElem?_eq_getElem hj]
  have hkk : firstEq l (maxL l) < positions.length := by rw [← hlen]; exact h1
  have hmax : distSqFromAxis axis (getV positions (firstEq l (maxL l))) = maxL l := by
    have := hget _ hkk
    rw [h2] at this
    exact (Option.some.inj this).symm
  refine ⟨hkk, ?_, ?_⟩
  · intro j hj
    rw [hmax]
    exact h3 _ (List.mem_of_getElem? (hget j hj))
  · intro j hj
    rw [hmax]
    exact h4 j hj _ (hget j (by omega))

end Mofun.QuatH
