/-
  HistMeaning.lean — "type ids keep their meaning": provenance of every atom row and term of the result of an
  operation, and what its type id resolves to in the result's tables (helper lemmas for the `meaning_*` theorems
  of Props/C09.lean).

  There are no ghost fields in the frozen model; identity is carried by what the operations never touch: an atom's
  charge, group and (except under replication) position, a term's extra row (up to re-layout under merged labels).
-/
import MofunModel.Proofs.HistLemmas

namespace Mofun.Hist

open Mofun

/-- what an atom type id resolves to: element, label, mass -/
def atomText (a : Atoms) (ty : Nat) : Option String × Option String × Option Rat :=
  (a.typeElems[ty]?, a.typeLabels[ty]?, a.typeMasses[ty]?)

/-- the pair coefficient of type `ty` in `r` is the one type `ty0` had in `src` — unless `r` has no pair table at
    all (a subset carries none by design; an object defined without one never gets one under `Compat`) -/
def PairKept (r src : Atoms) (ty ty0 : Nat) : Prop :=
  r.pairCoeffs = [] ∨ r.pairCoeffs[ty]? = src.pairCoeffs[ty0]?

/-- the coefficient of term type `ty` in table `r` is the one `ty0` had in `src`, unless `r` has no table -/
def CoeffKept (r src : TermTable) (ty ty0 : Nat) : Prop :=
  r.coeffs = [] ∨ r.coeffs[ty]? = src.coeffs[ty0]?

/-- the type-level tables all have one entry per atom type (what the constructor produces and what every
    operation keeps; needed for "the other's id shifted by the number of types finds the other's entry") -/
def Aligned (a : Atoms) : Prop :=
  a.typeLabels.length = a.typeElems.length ∧ a.typeMasses.length = a.typeElems.length
  ∧ (a.pairCoeffs = [] ∨ a.pairCoeffs.length = a.typeElems.length)

instance (a : Atoms) : Decidable (Aligned a) := by unfold Aligned; infer_instance

/-! ## provenance through `extendCore` -/

/-- a row of the result is a row of self (same charge, group, position) that kept its type or adopted the type of
    an atom of the other (identity map), or an appended atom of the other -/
def RowFrom (a1 b : Atoms) (off : Nat) (map : List (Nat × Nat)) (row : AtomRow) : Prop :=
  (∃ row0 ∈ a1.atoms, row.charge = row0.charge ∧ row.group = row0.group ∧ row.pos = row0.pos
      ∧ (row.ty = row0.ty ∨ ∃ kv ∈ map, ∃ br, b.atoms[kv.1]? = some br ∧ row.ty = br.ty + off))
  ∨ (∃ br ∈ b.atoms, row.charge = br.charge ∧ row.group = br.group ∧ row.pos = br.pos ∧ row.ty = br.ty + off)

theorem hist_foldl_inv_mem {α β} (P : α → Prop) (f : α → β → α) (l : List β) (init : α) (h0 : P init)
    (hs : ∀ acc x, x ∈ l → P acc → P (f acc x)) : P (l.foldl f init) := by
  induction l generalizing init with
  | nil => exact h0
  | cons x xs ih =>
    exact ih _ (hs _ _ List.mem_cons_self h0) (fun acc y hy => hs acc y (List.mem_cons_of_mem _ hy))

theorem extUpdated_from (a1 : Atoms) (offs : Offsets) (b : Atoms) (map : List (Nat × Nat)) :
    ∀ row ∈ extUpdated a1 offs b map, ∃ row0 ∈ a1.atoms, row.charge = row0.charge ∧ row.group = row0.group
      ∧ row.pos = row0.pos
      ∧ (row.ty = row0.ty ∨ ∃ kv ∈ map, ∃ br, b.atoms[kv.1]? = some br ∧ row.ty = br.ty + offs.atom) := by
  unfold extUpdated
  apply hist_foldl_inv_mem (fun rows : List AtomRow => ∀ row ∈ rows, ∃ row0 ∈ a1.atoms, row.charge = row0.charge
      ∧ row.group = row0.group ∧ row.pos = row0.pos
      ∧ (row.ty = row0.ty ∨ ∃ kv ∈ map, ∃ br, b.atoms[kv.1]? = some br ∧ row.ty = br.ty + offs.atom))
  · intro row hrow
    obtain ⟨r0, hr0, rfl⟩ := List.mem_map.mp hrow
    exact ⟨r0, hr0, rfl, rfl, rfl, Or.inl rfl⟩
  · intro rows kv hkv hrows
    split
    · rename_i br r hbr hr
      intro x hx
      rcases List.mem_or_eq_of_mem_set hx with hx | rfl
      · exact hrows x hx
      · obtain ⟨row0, h0, hc, hg, hp, _⟩ := hrows r (List.mem_of_getElem? hr)
        exact ⟨row0, h0, hc, hg, hp, Or.inr ⟨kv, hkv, br, hbr, rfl⟩⟩
    · exact hrows

theorem extAdded_from (a1 : Atoms) (offs : Offsets) (b : Atoms) (map : List (Nat × Nat)) :
    ∀ row ∈ extAdded a1 offs b map, ∃ br ∈ b.atoms, row.charge = br.charge ∧ row.group = br.group
      ∧ row.pos = br.pos ∧ row.ty = br.ty + offs.atom := by
  intro row hr
  unfold extAdded at hr
  obtain ⟨i, _, hi⟩ := List.mem_filterMap.mp hr
  cases hq : b.atoms[i]? with
  | none => simp [hq] at hi
  | some br =>
    simp [hq] at hi
    subst hi
    exact ⟨br, List.mem_of_getElem? hq, rfl, rfl, rfl, rfl⟩

/-- a term of the result is a term of self (same atoms, same type id, extra row widened) or a term of the other
    (type id shifted, atoms converted, extra row re-laid out) -/
def TermFrom (mine other : TermTable) (off : Nat) (conv : Nat → Option Nat) (tm : Term) : Prop :=
  (∃ t0 ∈ mine.terms, tm.ty = t0.ty ∧ tm.atoms = t0.atoms
      ∧ tm.extra = padRow t0.extra (mergeLabels mine.xlabels other.xlabels).length)
  ∨ (∃ t0 ∈ other.terms, tm.ty = t0.ty + off ∧ tm.atoms = t0.atoms.map (fun a => (conv a).getD 0)
      ∧ tm.extra = matchRow (mergeLabels mine.xlabels other.xlabels) other.xlabels t0.extra)

theorem extendWith_from (mine other res : TermTable) (off : Nat) (conv : Nat → Option Nat)
    (h : mine.extendWith other off conv = .ok res) :
    res.coeffs = mine.coeffs ∧ ∀ tm ∈ res.terms, TermFrom mine other off conv tm := by
  have hpad : ∀ tm ∈ mine.terms.map (padTerm (mergeLabels mine.xlabels other.xlabels).length),
      TermFrom mine other off conv tm := by
    intro tm htm
    obtain ⟨t, ht, rfl⟩ := List.mem_map.mp htm
    exact Or.inl ⟨t, ht, rfl, rfl, rfl⟩
  unfold TermTable.extendWith at h
  simp only at h
  split at h
  · cases h; exact ⟨rfl, hpad⟩
  · split at h
    · cases h
    · cases h
      refine ⟨rfl, ?_⟩
      intro tm htm
      have hmem := hist_mem_deleteIdx _ _ tm htm
      rcases List.mem_append.mp hmem with h1 | h1
      · exact hpad tm h1
      · obtain ⟨t, ht, rfl⟩ := List.mem_map.mp h1
        exact Or.inr ⟨t, ht, rfl, rfl, rfl⟩

/-- everything `extendCore` produces, with its provenance -/
theorem extendCore_from (a1 b r : Atoms) (offs : Offsets) (map : List (Nat × Nat))
    (h : extendCore a1 offs b map = .ok r) :
    (∀ row ∈ r.atoms, RowFrom a1 b offs.atom map row)
    ∧ (∀ tm ∈ r.bonds.terms, TermFrom a1.bonds b.bonds offs.bond (extConv a1.atoms.length b map) tm)
    ∧ (∀ tm ∈ r.angles.terms, TermFrom a1.angles b.angles offs.angle (extConv a1.atoms.length b map) tm)
    ∧ (∀ tm ∈ r.dihedrals.terms, TermFrom a1.dihedrals b.dihedrals offs.dihedral (extConv a1.atoms.length b map) tm)
    ∧ (∀ tm ∈ r.impropers.terms, TermFrom a1.impropers b.impropers offs.improper (extConv a1.atoms.length b map) tm)
    ∧ SameTables r a1 := by
  unfold extendCore at h
  split at h
  · cases h
  · split at h
    · cases h
    · cases hB : a1.bonds.extendWith b.bonds offs.bond (extConv a1.atoms.length b map) with
      | error e => simp [hB, bind, Except.bind] at h
      | ok bonds =>
        cases hA : a1.angles.extendWith b.angles offs.angle (extConv a1.atoms.length b map) with
        | error e => simp [hB, hA, bind, Except.bind] at h
        | ok angles =>
          cases hD : a1.dihedrals.extendWith b.dihedrals offs.dihedral (extConv a1.atoms.length b map) with
          | error e => simp [hB, hA, hD, bind, Except.bind] at h
          | ok dihedrals =>
            cases hI : a1.impropers.extendWith b.impropers offs.improper (extConv a1.atoms.length b map) with
            | error e => simp [hB, hA, hD, hI, bind, Except.bind] at h
            | ok impropers =>
              simp [hB, hA, hD, hI, bind, Except.bind, pure, Except.pure] at h
              subst h
              have fB := extendWith_from _ _ _ _ _ hB
              have fA := extendWith_from _ _ _ _ _ hA
              have fD := extendWith_from _ _ _ _ _ hD
              have fI := extendWith_from _ _ _ _ _ hI
              refine ⟨?_, fB.2, fA.2, fD.2, fI.2, rfl, rfl, rfl, rfl, fB.1, fA.1, fD.1, fI.1⟩
              intro row hrow
              rcases List.mem_append.mp hrow with hx | hx
              · exact Or.inl (extUpdated_from a1 offs b map row hx)
              · exact Or.inr (extAdded_from a1 offs b map row hx)

/-! ## resolution in the merged tables -/

theorem hist_getElem?_append_shift {α} (l₁ l₂ : List α) (n t : Nat) (h : l₁.length = n) :
    (l₁ ++ l₂)[n + t]? = l₂[t]? := by
  subst h
  rw [List.getElem?_append_right (Nat.le_add_right _ _)]
  congr 1; omega

/-- atom types after `extend_types` under `PairCompat` and `Aligned`: self's ids keep their texts, the other's ids
    shifted by the offset find the other's texts -/
theorem extendTypes_atomText (a b : Atoms) (hal : Aligned a) (hp : PairCompat a b) :
    (∀ ty, ty < a.typeElems.length →
        atomText (a.extendTypes b).1 ty = atomText a ty ∧ PairKept (a.extendTypes b).1 a ty ty)
    ∧ (∀ ty, atomText (a.extendTypes b).1 (ty + (a.extendTypes b).2.atom) = atomText b ty
        ∧ PairKept (a.extendTypes b).1 b (ty + (a.extendTypes b).2.atom) ty) := by
  obtain ⟨h1, h2, h3⟩ := hal
  simp only [Atoms.extendTypes, Atoms.offsets, numAtomTypes, atomText, PairKept]
  refine ⟨?_, ?_⟩
  · intro ty hty
    refine ⟨?_, ?_⟩
    · rw [List.getElem?_append_left hty, List.getElem?_append_left (by omega),
        List.getElem?_append_left (by omega)]
    · rcases h3 with h3 | h3
      · rcases hp with ⟨_, hb⟩ | ⟨ha, _⟩
        · left; simp [h3, hb]
        · rcases ha with ha | ha
          · rw [ha] at hty; simp at hty
          · exact absurd h3 ha
      · right; exact List.getElem?_append_left (by omega)
  · intro ty
    refine ⟨?_, ?_⟩
    · rw [Nat.add_comm ty, hist_getElem?_append_shift _ _ _ _ rfl, hist_getElem?_append_shift _ _ _ _ h1,
        hist_getElem?_append_shift _ _ _ _ h2]
    · rw [Nat.add_comm ty]
      rcases h3 with h3 | h3
      · rcases hp with ⟨_, hb⟩ | ⟨ha, _⟩
        · left; simp [h3, hb]
        · rcases ha with ha | ha
          · right
            have : a.pairCoeffs.length = a.typeElems.length := by simp [h3, ha]
            exact hist_getElem?_append_shift _ _ _ _ this
          · exact absurd h3 ha
      · right; exact hist_getElem?_append_shift _ _ _ _ h3

/-- one term kind after `extend_types` under `KindCompat` -/
theorem extendTypes_coeffKept (ta tb : TermTable) (n : Nat) (hta : TermsWF n ta) (hc : KindCompat ta tb) :
    (∀ t0 ∈ ta.terms, CoeffKept { ta with coeffs := ta.coeffs ++ tb.coeffs } ta t0.ty t0.ty)
    ∧ (∀ ty, CoeffKept { ta with coeffs := ta.coeffs ++ tb.coeffs } tb (ty + numTermTypes ta) ty) := by
  simp only [CoeffKept]
  rcases hc with ⟨hA, hB⟩ | ⟨hA, _⟩
  · exact ⟨fun _ _ => Or.inl (by simp [hA, hB]), fun _ => Or.inl (by simp [hA, hB])⟩
  · have hcov : ta.terms = [] ∨ ∀ tm ∈ ta.terms, tm.ty < ta.coeffs.length := by
      rcases hA with hA | hA
      · left; exact hA
      · rcases hta.2 with h | h
        · exact absurd h hA
        · right; exact h
    refine ⟨?_, ?_⟩
    · intro t0 ht0
      rcases hcov with h | h
      · rw [h] at ht0; cases ht0
      · right; exact List.getElem?_append_left (h t0 ht0)
    · intro ty
      right
      rw [Nat.add_comm ty]
      exact hist_getElem?_append_shift _ _ _ _ ((numTermTypes_eq_length_iff ta).mpr hcov).symm

/-! ## `Aligned` is kept by every operation -/

theorem aligned_of_sameTables (r a : Atoms) (h : SameTables r a) (ha : Aligned a) : Aligned r := by
  obtain ⟨s1, s2, s3, s4, _⟩ := h
  unfold Aligned
  rw [s1, s2, s3, s4]; exact ha

theorem aligned_extendTypes (a b : Atoms) (ha : Aligned a) (hb : Aligned b) (hp : PairCompat a b) :
    Aligned (a.extendTypes b).1 := by
  obtain ⟨a1, a2, a3⟩ := ha
  obtain ⟨b1, b2, b3⟩ := hb
  simp only [Aligned, Atoms.extendTypes, List.length_append]
  refine ⟨by omega, by omega, ?_⟩
  rcases hp with ⟨h1, h2⟩ | ⟨h1, h2⟩
  · left; simp [h1, h2]
  · right
    have e1 : a.pairCoeffs.length = a.typeElems.length := by
      rcases a3 with h | h
      · rcases h1 with h1 | h1
        · simp [h, h1]
        · exact absurd h h1
      · exact h
    have e2 : b.pairCoeffs.length = b.typeElems.length := by
      rcases b3 with h | h
      · rcases h2 with h2 | h2
        · simp [h, h2]
        · exact absurd h h2
      · exact h
    omega

/-! ## helpers of the `meaning_*` theorems -/

/-- what a term of one kind resolves to after `a.extend(b)` with default offsets -/
def TermMeaningKept (rk ak bk : TermTable) (tm : Term) : Prop :=
  (∃ t0 ∈ ak.terms, tm.atoms = t0.atoms
      ∧ tm.extra = padRow t0.extra (mergeLabels ak.xlabels bk.xlabels).length ∧ CoeffKept rk ak tm.ty t0.ty)
  ∨ (∃ t0 ∈ bk.terms, tm.extra = matchRow (mergeLabels ak.xlabels bk.xlabels) bk.xlabels t0.extra
      ∧ CoeffKept rk bk tm.ty t0.ty)

theorem meaning_kind (ak bk rk : TermTable) (n : Nat) (conv : Nat → Option Nat)
    (hw : TermsWF n ak) (hc : KindCompat ak bk)
    (h : ({ ak with coeffs := ak.coeffs ++ bk.coeffs } : TermTable).extendWith bk (numTermTypes ak) conv = .ok rk) :
    ∀ tm ∈ rk.terms, TermMeaningKept rk ak bk tm := by
  obtain ⟨hco, hfrom⟩ := extendWith_from _ _ _ _ _ h
  obtain ⟨k1, k2⟩ := extendTypes_coeffKept ak bk n hw hc
  intro tm htm
  rcases hfrom tm htm with ⟨t0, ht0, hty, hat, hex⟩ | ⟨t0, ht0, hty, _, hex⟩
  · refine Or.inl ⟨t0, ht0, hat, hex, ?_⟩
    have := k1 t0 ht0
    unfold CoeffKept at this ⊢
    rw [hco, hty]; exact this
  · refine Or.inr ⟨t0, ht0, hex, ?_⟩
    have := k2 t0.ty
    unfold CoeffKept at this ⊢
    rw [hco, hty]; exact this

/-- one step of the replication loop keeps "every atom / term has the type id of an atom / term of `a`" -/
def FromTypes (r a : Atoms) : Prop :=
  SameTables r a
  ∧ (∀ row ∈ r.atoms, ∃ row0 ∈ a.atoms, row.ty = row0.ty ∧ row.charge = row0.charge ∧ row.group = row0.group)
  ∧ (∀ tm ∈ r.bonds.terms, ∃ t0 ∈ a.bonds.terms, tm.ty = t0.ty)
  ∧ (∀ tm ∈ r.angles.terms, ∃ t0 ∈ a.angles.terms, tm.ty = t0.ty)
  ∧ (∀ tm ∈ r.dihedrals.terms, ∃ t0 ∈ a.dihedrals.terms, tm.ty = t0.ty)
  ∧ (∀ tm ∈ r.impropers.terms, ∃ t0 ∈ a.impropers.terms, tm.ty = t0.ty)

/-! ## histories -/

def AlignedState (s : State) : Prop := ∀ (i : Nat) (a : Atoms), s[i]? = some (some a) → Aligned a

/-- the extra guard of the meaning theorems: a constructed literal has one table entry per atom type; an extend
    with default offsets is `Compat` (already part of `GuardedOp`) -/
def AlignedOp : Op → Prop
  | .construct _ a => Aligned a
  | _ => True

instance (op : Op) : Decidable (AlignedOp op) := by cases op <;> unfold AlignedOp <;> infer_instance

theorem alignedState_put (s s' : State) (i : Nat) (a : Atoms) (hs : AlignedState s) (ha : Aligned a)
    (h : putSlot s i a = .ok s') : AlignedState s' := by
  unfold putSlot at h
  split at h
  · cases h
    rename_i hlt
    intro j b hj
    by_cases hij : i = j
    · subst hij
      simp [hlt] at hj
      subst hj; exact ha
    · rw [List.getElem?_set_ne hij] at hj
      exact hs j b hj
  · cases h

theorem guardedRun_take (ops : List Op) : ∀ (s : State) (k : Nat), GuardedRun s ops → GuardedRun s (ops.take k) := by
  induction ops with
  | nil => intro s k h; simpa using h
  | cons op rest ih =>
    intro s k h
    cases k with
    | zero => simp [GuardedRun]
    | succ k =>
      obtain ⟨h1, h2⟩ := h
      simp only [List.take_succ_cons, GuardedRun]
      refine ⟨h1, ?_⟩
      cases hstep : step s op with
      | error e => trivial
      | ok s1 =>
        simp only [hstep] at h2 ⊢
        exact ih s1 k h2

end Mofun.Hist
