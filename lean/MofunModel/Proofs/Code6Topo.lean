/-
  Code6Topo.lean — the new primitives of the batch-6 translation (Generated/Code6.lean, prelude `Py6`: `np.delete` /
  `np.take` with python ints, ints handed to a natural-typed translation) in the vocabulary of Model/Topo.lean and
  Model/TopoWide.lean (`deleteIdx`, `normIdx`, `dedup`).  Core Lean only.
-/
import MofunModel.Generated.Code6
import MofunModel.Model.TopoWide
import MofunModel.Proofs.Code3Topo
import MofunModel.Proofs.Code4Topo

namespace Mofun.Code6Topo
open Mofun Mofun.Generated
set_option linter.unusedSimpArgs false

/-- the prelude's reading of one index is the model's -/
theorem npIndex?_eq : @Py6.npIndex? = @normIdx := rfl

theorem listMapM?_some {α β} (f : α → Option β) (xs : List α) (h : ∀ x ∈ xs, (f x).isSome) :
    Py.listMapM? xs f = some (xs.filterMap f) := by
  induction xs with
  | nil => rfl
  | cons x xs ih =>
    obtain ⟨y, hy⟩ := Option.isSome_iff_exists.mp (h x (by simp))
    have ih' := ih (fun k hk => h k (by simp [hk]))
    simp only [Py.listMapM?, hy, ih', List.filterMap_cons]

theorem listMapM?_none {α β} (f : α → Option β) (xs : List α) (h : ∃ x ∈ xs, f x = none) :
    Py.listMapM? xs f = none := by
  induction xs with
  | nil => simp at h
  | cons x xs ih =>
    cases hx : f x with
    | none => simp only [Py.listMapM?, hx]
    | some y =>
      have : ∃ k ∈ xs, f k = none := by
        obtain ⟨k, hk, hn⟩ := h
        rcases List.mem_cons.mp hk with rfl | hk'
        · rw [hx] at hn; cases hn
        · exact ⟨k, hk', hn⟩
      simp only [Py.listMapM?, hx, ih this]

/-- `np.delete` of a COLUMN of a table, for indices numpy accepts: the column of the rows the model keeps -/
theorem npDeleteI?_map {α β} (g : α → β) (xs : List α) (idx : List Int) (h : ∀ i ∈ idx, (normIdx xs.length i).isSome) :
    Py6.npDeleteI? (xs.map g) idx = some ((deleteIdx xs (idx.filterMap (normIdx xs.length))).map g) := by
  unfold Py6.npDeleteI?
  rw [List.length_map, npIndex?_eq, listMapM?_some _ _ h]
  simp only [Code3Topo.deleteIdx_map]

/-- one index outside `[−n, n)`: IndexError -/
theorem npDeleteI?_invalid {β} (xs : List β) (idx : List Int) (h : ∃ i ∈ idx, normIdx xs.length i = none) :
    Py6.npDeleteI? xs idx = none := by
  unfold Py6.npDeleteI?
  rw [npIndex?_eq, listMapM?_none _ _ h]

theorem npDeleteI?_map_invalid {α β} (g : α → β) (xs : List α) (idx : List Int) (h : ∃ i ∈ idx, normIdx xs.length i = none) :
    Py6.npDeleteI? (xs.map g) idx = none :=
  npDeleteI?_invalid _ _ (by simpa using h)

theorem mem_dedup {α} [DecidableEq α] (l : List α) (x : α) : x ∈ dedup l ↔ x ∈ l := by
  induction l with
  | nil => simp [dedup]
  | cons y ys ih =>
    simp only [dedup, List.mem_cons, List.mem_filter, ih, decide_eq_true_eq]
    constructor
    · rintro (h | ⟨h, _⟩)
      · exact Or.inl h
      · exact Or.inr h
    · intro h
      by_cases hxy : x = y
      · exact Or.inl hxy
      · rcases h with h | h
        · exact Or.inl h
        · exact Or.inr ⟨h, hxy⟩

/-- numpy removes a row listed twice once: deleting the distinct positions is the same -/
theorem deleteIdx_dedup {α} (l : List α) (L : List Nat) : deleteIdx l (dedup L) = deleteIdx l L := by
  rw [deleteIdx_eq_filter, deleteIdx_eq_filter]
  congr 1
  apply List.filter_congr
  intro p _
  congr 1
  rw [Bool.eq_iff_iff]
  simp [mem_dedup]

theorem natList?_ofNat (L : List Nat) : Py6.natList? (L.map Int.ofNat) = some L := by
  unfold Py6.natList?
  induction L with
  | nil => rfl
  | cons x xs ih =>
    have : (0 : Int) ≤ Int.ofNat x := Int.natCast_nonneg x
    simp only [List.map_cons, Py.listMapM?, this, if_true, ih, Int.toNat_natCast, Int.ofNat_eq_natCast]
    simp

/-- `np.take` of a COLUMN, for indices numpy accepts -/
theorem npTakeI?_map {α β} (g : α → β) (xs : List α) (idx : List Int) (h : ∀ i ∈ idx, (normIdx xs.length i).isSome) :
    Py6.npTakeI? (xs.map g) idx =
      some ((idx.filterMap (fun i => (normIdx xs.length i).bind (fun j => xs[j]?))).map g) := by
  unfold Py6.npTakeI?
  rw [List.length_map, npIndex?_eq]
  induction idx with
  | nil => rfl
  | cons i is ih =>
    obtain ⟨j, hj⟩ := Option.isSome_iff_exists.mp (h i (by simp))
    have hlt : j < xs.length := by
      unfold normIdx at hj
      split at hj
      · cases hj; omega
      · split at hj
        · cases hj; omega
        · cases hj
    have ih' := ih (fun k hk => h k (by simp [hk]))
    simp only [Py.listMapM?, hj]
    rw [ih']
    simp only [List.filterMap_cons, hj, Option.bind_some, List.getElem?_map,
      List.getElem?_eq_getElem hlt, Option.map_some, List.map_cons]

theorem npTakeI?_invalid {β} (xs : List β) (idx : List Int) (h : ∃ i ∈ idx, normIdx xs.length i = none) :
    Py6.npTakeI? xs idx = none := by
  unfold Py6.npTakeI?
  rw [npIndex?_eq]
  apply listMapM?_none
  obtain ⟨i, hi, hn⟩ := h
  exact ⟨i, hi, by simp [hn]⟩

theorem npTakeI?_map_invalid {α β} (g : α → β) (xs : List α) (idx : List Int) (h : ∃ i ∈ idx, normIdx xs.length i = none) :
    Py6.npTakeI? (xs.map g) idx = none :=
  npTakeI?_invalid _ _ (by simpa using h)

end Mofun.Code6Topo
