/-
  Code4Extend.lean — the dict comprehension and the tuple padding of the generated prologue of `Atoms.extend`
  (Generated/Code.lean) in the vocabulary of Model/ExtendApi.lean.  Core Lean only.
-/
import MofunModel.Generated.Code
import MofunModel.Model.ExtendApi

namespace Mofun.Code4Extend
open Mofun Mofun.Generated

def liftPair (p : Nat × Nat) : Int × Int := (Int.ofNat p.1, Int.ofNat p.2)

theorem dictInsert_lift (m : List (Nat × Nat)) (k v : Nat) :
    Py.dictInsert (m.map liftPair) (Int.ofNat k) (Int.ofNat v) = (dictInsert m k v).map liftPair := by
  induction m with
  | nil => rfl
  | cons p ps ih =>
    obtain ⟨k', v'⟩ := p
    simp only [List.map_cons, liftPair, Py.dictInsert, dictInsert]
    by_cases h : k' = k
    · subst h; simp [liftPair]
    · have : ¬ Int.ofNat k' = Int.ofNat k := by simp; omega
      simp only [h, this, if_false, List.map_cons, liftPair]
      congr 1

def liftMap : Except Err (List (Nat × Nat)) → Option (List (Int × Int))
  | .ok m => some (m.map liftPair)
  | .error _ => none

/-- a fold whose step agrees with the model's `normStep` agrees with `normMap` -/
theorem fold_lift (nSelf nOther : Nat) (f : Option (List (Int × Int)) → Int × Int → Option (List (Int × Int)))
    (hf : ∀ acc p, f (liftMap acc) p = liftMap (normStep nOther nSelf acc p)) (map : List (Int × Int)) :
    ∀ acc, map.foldl f (liftMap acc) = liftMap (map.foldl (normStep nOther nSelf) acc) := by
  induction map with
  | nil => intro acc; rfl
  | cons p ps ih => intro acc; simp only [List.foldl_cons, hf, ih]

theorem listRepeat_zero (n : Int) (k : Nat) : (Py.listRepeat [0] n).getD k 0 = 0 := by
  unfold Py.listRepeat
  generalize n.toNat = c
  have e : (List.replicate c [0]).flatten = List.replicate c 0 := by
    induction c with
    | zero => rfl
    | succ c ih => simp [List.replicate_succ, ih]
  rw [e, List.getD_eq_getElem?_getD, List.getElem?_replicate]
  split <;> rfl

end Mofun.Code4Extend
