/-
  Code2Mass.lean — the python primitives of the generated `find_element` / `guess_elements_from_masses`
  (Generated/Code.lean, emitted by harness/gen_code.py) in the vocabulary of Model/Mass.lean.  Core Lean only.
-/
import MofunModel.Generated.Code
import MofunModel.Model.Mass

namespace Mofun.Code2Mass
open Mofun Mofun.Generated

theorem abs_eq : @Py.abs = @absQ := rfl

/-- `ATOMIC_MASSES.items()` is the model's `massTable` (both read the generated table) -/
theorem tableItems_eq : Py.tableItems Generated.atomicMasses = massTable := rfl

theorem absQ_neg (x : Rat) : absQ (-x) = absQ x := by
  unfold absQ
  by_cases h1 : x < 0
  · have h2 : ¬ (-x < 0) := by grind
    simp [h1, h2]
  · by_cases h3 : x = 0
    · subst h3; simp
    · have h2 : -x < 0 := by grind
      simp [h1, h2]

theorem absQ_sub_comm (a b : Rat) : absQ (a - b) = absQ (b - a) := by
  rw [← absQ_neg (a - b)]; congr 1; grind

/-- python `min(…, key=…)` (first minimal item) is the model's `argminAux` -/
theorem minByAux_mass (m : Rat) (key : String × Rat → Rat) (hk : ∀ e, key e = massDist m e)
    (best : String × Rat) (es : List (String × Rat)) : Py.minByAux key best es = argminAux m best es := by
  induction es generalizing best with
  | nil => rfl
  | cons e es ih => simp only [Py.minByAux, argminAux, hk, ih]

theorem minBy?_mass (m : Rat) (key : String × Rat → Rat) (hk : ∀ e, key e = massDist m e)
    (tbl : MassTable) : Py.minBy? tbl key = nearest tbl m := by
  cases tbl with
  | nil => rfl
  | cons e es => simp only [Py.minBy?, nearest, minByAux_mass m key hk]

/-- an `Except` seen as "value or raised" -/
def exceptToOption {ε α} : Except ε α → Option α
  | .ok a => some a
  | .error _ => none

/-- a list comprehension whose element function is the model's `guess` is the model's `guessAll` -/
theorem listMapM?_guess (tol : Rat) (f : Rat → Option String) (hf : ∀ m, f m = guess massTable tol m) (ms : List Rat) :
    Py.listMapM? ms f = exceptToOption (guessAll massTable tol ms) := by
  induction ms with
  | nil => rfl
  | cons m ms ih =>
    simp only [Py.listMapM?, guessAll, hf, ih]
    cases guess massTable tol m with
    | none => rfl
    | some s => cases guessAll massTable tol ms <;> rfl

end Mofun.Code2Mass
