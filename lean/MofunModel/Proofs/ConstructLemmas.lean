/-
  ConstructLemmas.lean — helper lemmas about the constructor model (Model/Construct.lean) for Props/C09Construct.lean.
  Core tactics only.
-/
import MofunModel.Model.Construct
import MofunModel.Proofs.CmlLemmas
import MofunModel.Proofs.HistLemmas

namespace Mofun.Construct

open Mofun

/-! ### list facts -/

theorem firstErr_eq_none (l : List (Bool × Err)) : firstErr l = none ↔ ∀ p ∈ l, p.1 = false := by
  induction l with
  | nil => simp [firstErr]
  | cons p ps ih =>
    obtain ⟨b, e⟩ := p
    cases b <;> simp [firstErr, ih]

/-- reading a list back position by position -/
theorem range_map_getD {α} (l : List α) (d : α) (n : Nat) (h : l.length = n) :
    (List.range n).map (fun i => l.getD i d) = l := by
  apply List.ext_getElem
  · simp [h]
  · intro i h1 h2
    simp [List.getD_eq_getElem?_getD, List.getElem?_eq_getElem h2]

theorem getD_mem {α} (l : List α) (d : α) (i : Nat) (h : i < l.length) : l.getD i d ∈ l := by
  rw [List.getD_eq_getElem?_getD, List.getElem?_eq_getElem h]
  exact List.getElem_mem h

theorem allSome_map {α} (l : List (Option α)) (ms : List α) (h : allSome l = some ms) : ms.map some = l := by
  induction l generalizing ms with
  | nil => simp [allSome] at h; subst h; rfl
  | cons x xs ih =>
    cases x with
    | none => simp [allSome] at h
    | some v =>
      cases hq : allSome xs with
      | none => simp [allSome, hq] at h
      | some ys =>
        simp [allSome, hq] at h
        subst h
        simp [ih ys hq]

theorem allSome_eq_none {α} (l : List (Option α)) : allSome l = none ↔ none ∈ l := by
  induction l with
  | nil => simp [allSome]
  | cons x xs ih =>
    cases x with
    | none => simp [allSome]
    | some v =>
      cases hq : allSome xs with
      | none => rw [hq] at ih; simp [allSome, hq]; simpa using ih
      | some ys => rw [hq] at ih; simp [allSome, hq]; simpa using ih

theorem rect_length {α} (r : List α) (rest : List (List α)) (h : rect (r :: rest) = true) :
    ∀ r' ∈ r :: rest, r'.length = r.length := by
  intro r' hm
  rcases List.mem_cons.mp hm with rfl | hm
  · rfl
  · have := List.all_eq_true.mp h r' hm
    simpa using this

/-! ### extra-field tables -/

/-- every row has as many entries as the table has columns -/
def XWF (t : XTable) : Prop := ∀ row ∈ t.rows, row.length = t.width

theorem shaped_xwf (fields : List (List String)) (n w : Nat) (h : rect fields = true) : XWF (shaped fields n w) := by
  unfold shaped
  cases fields with
  | nil =>
    intro row hr
    simp only [List.isEmpty_nil, if_true, List.mem_replicate] at hr
    simp [hr.2]
  | cons r rest =>
    intro row hr
    simp only [List.isEmpty_cons, Bool.false_eq_true, if_false] at hr ⊢
    simpa using rect_length r rest h row hr

theorem fixX_xwf (labels : List String) (t : XTable) (n : Nat) (h : XWF t) : XWF (fixX labels t n) := by
  unfold fixX
  split
  · intro row hr
    simp only [List.mem_replicate] at hr
    simp [hr.2]
  · exact h

/-- the explicit form of `XOk`: default fields need distinct labels; fields without labels are accepted when they
    have the wrong number of rows (they are reset) or no columns; fields with labels need `n` rows and one column
    per distinct label -/
theorem xOk_iff (labels : List String) (fields : List (List String)) (n : Nat) :
    XOk labels fields n ↔
      (fields = [] ∧ (dedup labels).length = labels.length)
      ∨ (fields ≠ [] ∧ labels = [] ∧ (fields.length ≠ n ∨ (fields.head?.map List.length).getD 0 = 0))
      ∨ (fields ≠ [] ∧ labels ≠ [] ∧ fields.length = n
          ∧ (dedup labels).length = (fields.head?.map List.length).getD 0) := by
  unfold XOk fixX shaped
  cases fields with
  | nil =>
    cases labels with
    | nil => simp [dedup]
    | cons l ls => simp [dedup]
  | cons r rest =>
    cases labels with
    | nil =>
      by_cases hn : rest.length + 1 = n
      · simp [dedup, hn]
        constructor
        · intro h; exact List.length_eq_zero_iff.mp h.symm
        · intro h; simp [h]
      · simp [dedup, hn]
    | cons l ls => simp [dedup]

/-! ### membership in the built rows -/

theorem mem_buildAtoms (r : Resolved) (row : AtomRow) (h : row ∈ buildAtoms r) :
    ∃ i, i < r.types.length ∧ row.ty = r.types.getD i 0
      ∧ row.extra = (fixX r.xlabels r.xt r.types.length).rows.getD i [] := by
  simp only [buildAtoms, List.mem_map, List.mem_range] at h
  obtain ⟨i, hi, rfl⟩ := h
  exact ⟨i, hi, rfl, rfl⟩

theorem mem_buildKind (rk : RKind) (tm : Term) (h : tm ∈ (buildKind rk).terms) :
    ∃ i, i < rk.types.length ∧ tm.atoms = rk.tuples.getD i [] ∧ tm.ty = rk.types.getD i 0
      ∧ tm.extra = (fixX rk.xlabels rk.xt rk.types.length).rows.getD i [] := by
  simp only [buildKind, List.mem_map, List.mem_range] at h
  obtain ⟨i, hi, rfl⟩ := h
  exact ⟨i, hi, rfl, rfl, rfl⟩

/-- a row of a checked table has one entry per label -/
theorem xrow_length (labels : List String) (t : XTable) (n i : Nat) (hx : XWF t) (hi : i < n)
    (h1 : (fixX labels t n).rows.length = n) (h2 : labels.length = (fixX labels t n).width) :
    ((fixX labels t n).rows.getD i []).length = labels.length := by
  have hm : (fixX labels t n).rows.getD i [] ∈ (fixX labels t n).rows := getD_mem _ _ _ (by omega)
  rw [fixX_xwf labels t n hx _ hm, h2]

/-! ### unfolding `construct` -/

theorem resolve_ok (massOf : String → Option Rat) (k : CtorArgs) (r : Resolved) :
    resolve massOf k = .ok r ↔
      tuplesRect k = true ∧ fieldsRect k = true ∧ ∃ ms, massesOf massOf k = some ms ∧ r = resolvedWith k ms := by
  unfold resolve
  by_cases h1 : tuplesRect k = true
  · cases hm : massesOf massOf k with
    | none => simp [h1]
    | some ms =>
      by_cases h2 : fieldsRect k = true
      · simp [h1, h2]
        constructor
        · intro h; exact h.symm
        · intro h; exact h.symm
      · simp [h1, h2]
  · simp [h1]

theorem construct_ok (massOf : String → Option Rat) (k : CtorArgs) (a : Atoms) :
    construct massOf k = .ok a ↔
      tuplesRect k = true ∧ fieldsRect k = true
      ∧ ∃ ms, massesOf massOf k = some ms ∧ check (resolvedWith k ms) = none ∧ a = build (resolvedWith k ms) := by
  unfold construct
  cases hr : resolve massOf k with
  | error e =>
    simp only [reduceCtorEq, false_iff]
    rintro ⟨h1, h2, ms, hm, _, _⟩
    have := (resolve_ok massOf k (resolvedWith k ms)).mpr ⟨h1, h2, ms, hm, rfl⟩
    rw [hr] at this; cases this
  | ok r =>
    obtain ⟨h1, h2, ms, hm, rfl⟩ := (resolve_ok massOf k r).mp hr
    cases hc : check (resolvedWith k ms) with
    | some e =>
      simp only [hc, reduceCtorEq, false_iff]
      rintro ⟨_, _, ms', hm', hc', _⟩
      rw [hm] at hm'; cases hm'
      rw [hc] at hc'; cases hc'
    | none =>
      simp only [hc, Except.ok.injEq]
      constructor
      · intro h; exact ⟨h1, h2, ms, hm, hc, h.symm⟩
      · rintro ⟨_, _, ms', hm', _, ha⟩
        rw [hm] at hm'; cases hm'
        exact ha.symm

/-- what the passed checks say, as equations -/
structure Checked (r : Resolved) : Prop where
  types : r.types.length = r.positions.length
  charges : r.charges.length = r.positions.length
  groups : r.groups.length = r.positions.length
  bonds : r.bonds.tuples.length = r.bonds.types.length
  angles : r.angles.tuples.length = r.angles.types.length
  dihedrals : r.dihedrals.tuples.length = r.dihedrals.types.length
  impropers : r.impropers.tuples.length = r.impropers.types.length
  labels : r.elems.length ≤ r.labels.length
  masses : r.elems.length ≤ r.masses.length
  xa1 : (fixX r.xlabels r.xt r.types.length).rows.length = r.types.length
  xa2 : r.xlabels.length = (fixX r.xlabels r.xt r.types.length).width
  xb1 : (fixX r.bonds.xlabels r.bonds.xt r.bonds.types.length).rows.length = r.bonds.types.length
  xb2 : r.bonds.xlabels.length = (fixX r.bonds.xlabels r.bonds.xt r.bonds.types.length).width
  xg1 : (fixX r.angles.xlabels r.angles.xt r.angles.types.length).rows.length = r.angles.types.length
  xg2 : r.angles.xlabels.length = (fixX r.angles.xlabels r.angles.xt r.angles.types.length).width
  xd1 : (fixX r.dihedrals.xlabels r.dihedrals.xt r.dihedrals.types.length).rows.length = r.dihedrals.types.length
  xd2 : r.dihedrals.xlabels.length = (fixX r.dihedrals.xlabels r.dihedrals.xt r.dihedrals.types.length).width
  xi1 : (fixX r.impropers.xlabels r.impropers.xt r.impropers.types.length).rows.length = r.impropers.types.length
  xi2 : r.impropers.xlabels.length = (fixX r.impropers.xlabels r.impropers.xt r.impropers.types.length).width

theorem check_none_iff (r : Resolved) : check r = none ↔ Checked r := by
  unfold check
  rw [firstErr_eq_none]
  simp only [checks, xChecks, kindLenCheck, List.cons_append, List.nil_append, List.mem_cons, List.not_mem_nil, or_false,
    forall_eq_or_imp, forall_eq, bne_eq_false_iff_eq, decide_eq_false_iff_not, Nat.not_lt]
  constructor
  · rintro ⟨h1, h2, h3, h4, h5, h6, h7, h8, h9, a1, a2, b1, b2, g1, g2, d1, d2, i1, i2⟩
    exact ⟨h1.symm, h2.symm, h3.symm, h4, h5, h6, h7, h8, h9, a1, a2, b1, b2, g1, g2, d1, d2, i1, i2⟩
  · intro c
    exact ⟨c.types.symm, c.charges.symm, c.groups.symm, c.bonds, c.angles, c.dihedrals, c.impropers, c.labels, c.masses,
      c.xa1, c.xa2, c.xb1, c.xb2, c.xg1, c.xg2, c.xd1, c.xd2, c.xi1, c.xi2⟩

end Mofun.Construct
