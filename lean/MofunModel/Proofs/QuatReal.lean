/-
  QuatReal.lean — the rotation helpers of `Model/QuatHelpers.lean` at the `ℝ` instance of `QNum` (Mathlib `Real.arccos`,
  `Real.sqrt`, `Real.sin`, `Real.cos`; comparisons = the classical `decide`), the rotation `rotR` a quaternion applies
  (the polynomial of `Mofun.Quat.apply0`, over ℝ), and the theorems about `quaternion_from_two_vectors`:

    * `qftv_maps`      not the degenerate branch  ⟹  rotR (quaternionFromTwoVectors rv p1 p2) (p1/‖p1‖) = p2/‖p2‖
    * `qftv_unit`      the same hypothesis        ⟹  the result is a unit quaternion
    * `qftv_parallel`  angle = 0                  ⟹  the result is (0, 0, 0, 1)
    * `qftv_antiparallel` p2/‖p2‖ = −p1/‖p1‖ and the drawn vector not along p1 ⟹ p1/‖p1‖ ↦ p2/‖p2‖ as well
-/
import Mathlib.Analysis.SpecialFunctions.Trigonometric.Inverse
import Mathlib.Analysis.SpecialFunctions.Sqrt
import Mathlib.Tactic.Ring
import Mathlib.Tactic.Linarith
import Mathlib.Tactic.FieldSimp
import Mathlib.Tactic.LinearCombination
import Mathlib.Tactic.Positivity
import MofunModel.Model.QuatHelpers
import MofunModel.Proofs.UffReal

namespace Mofun.QuatH
open Mofun.Uff Mofun.Uff.ElemFun QNum

/-! ### the real instance -/

noncomputable instance instQNumReal : QNum ℝ where
  toElemFun := instElemFunReal
  arccos := Real.arccos
  abs x := |x|
  lt a b := decide (a < b)
  le a b := decide (a ≤ b)
  eq a b := decide (a = b)

@[simp] theorem arccos_real (x : ℝ) : QNum.arccos x = Real.arccos x := rfl
@[simp] theorem abs_real (x : ℝ) : QNum.abs x = |x| := rfl
@[simp] theorem lt_real (a b : ℝ) : (QNum.lt a b = true) ↔ a < b := by
  show decide (a < b) = true ↔ a < b
  exact decide_eq_true_iff
@[simp] theorem le_real (a b : ℝ) : (QNum.le a b = true) ↔ a ≤ b := by
  show decide (a ≤ b) = true ↔ a ≤ b
  exact decide_eq_true_iff
@[simp] theorem eq_real (a b : ℝ) : (QNum.eq a b = true) ↔ a = b := by
  show decide (a = b) = true ↔ a = b
  exact decide_eq_true_iff
@[simp] theorem sqrtQ_real (x : ℝ) : (ElemFun.sqrt x : ℝ) = Real.sqrt x := rfl
@[simp] theorem sinQ_real (x : ℝ) : (ElemFun.sin x : ℝ) = Real.sin x := rfl
@[simp] theorem cosQ_real (x : ℝ) : (ElemFun.cos x : ℝ) = Real.cos x := rfl
@[simp] theorem piQ_real : (ElemFun.pi : ℝ) = Real.pi := rfl

@[simp] theorem n0_real : (n0 : ℝ) = 0 := by show ((0 : ℚ) : ℝ) = 0; norm_num
@[simp] theorem n1_real : (n1 : ℝ) = 1 := by show ((1 : ℚ) : ℝ) = 1; norm_num
@[simp] theorem n2_real : (n2 : ℝ) = 2 := by show ((2 : ℚ) : ℝ) = 2; norm_num
@[simp] theorem nNeg1_real : (nNeg1 : ℝ) = -1 := by show ((-1 : ℚ) : ℝ) = -1; norm_num

theorem dec18_real : (dec 1 8 : ℝ) = 1 / 10 ^ 8 := by rw [dec_val]; norm_num
theorem dec13_real : (dec 1 3 : ℝ) = 1 / 10 ^ 3 := by rw [dec_val]; norm_num
theorem dec115_real : (dec 1 15 : ℝ) = 1 / 10 ^ 15 := by rw [dec_val]; norm_num

/-! ### the rotation of a quaternion, over ℝ -/

/-- the rotation a unit quaternion `(x, y, z, w)` applies: the polynomial of `Mofun.Quat.apply0` (Model/Find.lean) -/
def rotR (q : Q4 ℝ) (v : V3 ℝ) : V3 ℝ :=
  ⟨(q.w * q.w + q.x * q.x - q.y * q.y - q.z * q.z) * v.x + 2 * (q.x * q.y - q.z * q.w) * v.y
      + 2 * (q.x * q.z + q.y * q.w) * v.z,
   2 * (q.x * q.y + q.z * q.w) * v.x + (q.w * q.w - q.x * q.x + q.y * q.y - q.z * q.z) * v.y
      + 2 * (q.y * q.z - q.x * q.w) * v.z,
   2 * (q.x * q.z - q.y * q.w) * v.x + 2 * (q.y * q.z + q.x * q.w) * v.y
      + (q.w * q.w - q.x * q.x - q.y * q.y + q.z * q.z) * v.z⟩

/-- scipy's `Rotation.apply` (as modelled) is `rotR` -/
theorem applyRot_eq_rotR (q : Q4 ℝ) (v : V3 ℝ) : applyRot q v = rotR q v := by
  unfold applyRot rotR
  simp only [n2_real, V3.mk.injEq]
  refine ⟨?_, ?_, ?_⟩ <;> ring

/-- squared norm of a quaternion -/
def Q4.normSq (q : Q4 ℝ) : ℝ := q.x * q.x + q.y * q.y + q.z * q.z + q.w * q.w

theorem rotR_identity (v : V3 ℝ) : rotR ⟨0, 0, 0, 1⟩ v = v := by
  unfold rotR
  obtain ⟨x, y, z⟩ := v
  simp only [V3.mk.injEq]
  refine ⟨?_, ?_, ?_⟩ <;> ring

/-- `from_quat` of a unit quaternion changes nothing -/
theorem fromQuat_unit (q : Q4 ℝ) (h : Q4.normSq q = 1) : fromQuat q = q := by
  unfold fromQuat Q4.norm
  unfold Q4.normSq at h
  simp only [sqrtQ_real, h, Real.sqrt_one, div_one]

/-! ### vectors -/

/-- `p / ‖p‖` -/
def unitOf {α : Type} [QNum α] (p : V3 α) : V3 α := V3.divs p (V3.norm p)

theorem norm_real (v : V3 ℝ) : V3.norm v = Real.sqrt (v.x * v.x + v.y * v.y + v.z * v.z) := rfl

theorem norm_sq (v : V3 ℝ) : V3.norm v * V3.norm v = v.x * v.x + v.y * v.y + v.z * v.z := by
  rw [norm_real]
  exact Real.mul_self_sqrt (by nlinarith [mul_self_nonneg v.x, mul_self_nonneg v.y, mul_self_nonneg v.z])

theorem norm_nonneg (v : V3 ℝ) : 0 ≤ V3.norm v := by rw [norm_real]; exact Real.sqrt_nonneg _

/-- a normalised non-zero vector has unit length -/
theorem unitOf_dot_self (p : V3 ℝ) (h : V3.norm p ≠ 0) : V3.dot (unitOf p) (unitOf p) = 1 := by
  have hs := norm_sq p
  unfold unitOf V3.dot V3.divs
  simp only
  field_simp
  nlinarith

/-- Lagrange: `|u × w|² = (u·u)(w·w) − (u·w)²` -/
theorem cross_normSq (u w : V3 ℝ) :
    let c := V3.cross u w
    c.x * c.x + c.y * c.y + c.z * c.z = V3.dot u u * V3.dot w w - V3.dot u w * V3.dot u w := by
  simp only [V3.cross, V3.dot]; ring

/-- Cauchy–Schwarz for unit vectors -/
theorem dot_unit_bounds (u w : V3 ℝ) (hu : V3.dot u u = 1) (hw : V3.dot w w = 1) :
    -1 ≤ V3.dot u w ∧ V3.dot u w ≤ 1 := by
  have h := cross_normSq u w
  simp only at h
  rw [hu, hw] at h
  have h0 : 0 ≤ 1 - V3.dot u w * V3.dot u w := by
    rw [← show (1:ℝ) * 1 - V3.dot u w * V3.dot u w = 1 - V3.dot u w * V3.dot u w by ring, ← h]
    nlinarith [mul_self_nonneg (V3.cross u w).x, mul_self_nonneg (V3.cross u w).y, mul_self_nonneg (V3.cross u w).z]
  constructor <;> nlinarith

theorem clampDot_real (u w : V3 ℝ) (h1 : -1 ≤ V3.dot u w) (h2 : V3.dot u w ≤ 1) : clampDot u w = V3.dot u w := by
  unfold clampDot pyMax pyMin
  simp only [n1_real, nNeg1_real]
  by_cases hA : (1 : ℝ) < V3.dot u w
  · exact absurd hA (not_lt.mpr h2)
  · have e1 : QNum.lt (1 : ℝ) (V3.dot u w) = false := by
      rw [Bool.eq_false_iff]; intro h; exact hA ((lt_real _ _).mp h)
    rw [e1]
    simp only [Bool.false_eq_true, if_false]
    by_cases hB : (-1 : ℝ) < V3.dot u w
    · have e2 : QNum.lt (-1 : ℝ) (V3.dot u w) = true := (lt_real _ _).mpr hB
      rw [e2]; simp
    · have e2 : QNum.lt (-1 : ℝ) (V3.dot u w) = false := by
        rw [Bool.eq_false_iff]; intro h; exact hB ((lt_real _ _).mp h)
      rw [e2]
      simp only [Bool.false_eq_true, if_false]
      linarith [not_lt.mp hB]

/-! ### `quaternion_from_two_vectors` -/

/-- Rodrigues: the rotation of the quaternion `(k·s, c)` -/
theorem rotR_axisAngle (k v : V3 ℝ) (s c : ℝ) :
    rotR (axisAngleQuat k s c) v =
      ⟨(c * c - s * s * V3.dot k k) * v.x + 2 * (s * s) * V3.dot k v * k.x + 2 * (s * c) * (V3.cross k v).x,
       (c * c - s * s * V3.dot k k) * v.y + 2 * (s * s) * V3.dot k v * k.y + 2 * (s * c) * (V3.cross k v).y,
       (c * c - s * s * V3.dot k k) * v.z + 2 * (s * s) * V3.dot k v * k.z + 2 * (s * c) * (V3.cross k v).z⟩ := by
  unfold rotR axisAngleQuat V3.muls V3.dot V3.cross
  simp only [V3.mk.injEq]
  refine ⟨?_, ?_, ?_⟩ <;> ring

/-- the geometric core: `u`, `w` unit vectors, `n = ‖u × w‖ > 0`, `k = (u × w)/n`, `(s, c)` the sine and cosine of half
    the angle between them; then the rotation of `(k·s, c)` carries `u` to `w` -/
theorem rodrigues_maps (u w k : V3 ℝ) (n s c : ℝ) (hu : V3.dot u u = 1) (hw : V3.dot w w = 1) (hn : n ≠ 0)
    (hnn : n * n = 1 - V3.dot u w * V3.dot u w)
    (hk : k = V3.divs (V3.cross u w) n)
    (h2 : 2 * (s * c) = n) (hcs : c * c - s * s = V3.dot u w) :
    rotR (axisAngleQuat k s c) u = w := by
  obtain ⟨ux, uy, uz⟩ := u
  obtain ⟨wx, wy, wz⟩ := w
  obtain ⟨kx, ky, kz⟩ := k
  simp only [V3.divs, V3.cross, V3.mk.injEq] at hk
  obtain ⟨hkx, hky, hkz⟩ := hk
  simp only [V3.dot] at hu hw hnn hcs
  have hkx' : n * kx = uy * wz - uz * wy := by rw [hkx]; field_simp
  have hky' : n * ky = uz * wx - ux * wz := by rw [hky]; field_simp
  have hkz' : n * kz = ux * wy - uy * wx := by rw [hkz]; field_simp
  have hku : kx * ux + ky * uy + kz * uz = 0 := by
    have : n * (kx * ux + ky * uy + kz * uz) = 0 := by
      linear_combination ux * hkx' + uy * hky' + uz * hkz'
    exact (mul_eq_zero.mp this).resolve_left hn
  have hkk : kx * kx + ky * ky + kz * kz = 1 := by
    have : (n * n) * (kx * kx + ky * ky + kz * kz - 1) = 0 := by
      linear_combination (n * kx + (uy * wz - uz * wy)) * hkx' + (n * ky + (uz * wx - ux * wz)) * hky'
        + (n * kz + (ux * wy - uy * wx)) * hkz' - hnn + (wx*wx + wy*wy + wz*wz) * hu + hw
    have h3 := (mul_eq_zero.mp this).resolve_left (mul_ne_zero hn hn)
    linarith
  rw [rotR_axisAngle]
  simp only [V3.dot, V3.cross, V3.mk.injEq]
  refine ⟨?_, ?_, ?_⟩
  · linear_combination ux * hcs - s * s * ux * hkk + 2 * (s * s) * kx * hku + (ky * uz - kz * uy) * h2
      + uz * hky' - uy * hkz' + wx * hu
  · linear_combination uy * hcs - s * s * uy * hkk + 2 * (s * s) * ky * hku + (kz * ux - kx * uz) * h2
      + ux * hkz' - uz * hkx' + wy * hu
  · linear_combination uz * hcs - s * s * uz * hkk + 2 * (s * s) * kz * hku + (kx * uy - ky * ux) * h2
      + uy * hkx' - ux * hky' + wz * hu

/-- `np.isclose(c, [0, 0, 0], 1e-3).all()`: every component within 1e-8 of 0 (the relative part vanishes) -/
theorem allClose_zero_real (c : V3 ℝ) :
    V3.allClose c (⟨n0, n0, n0⟩ : V3 ℝ) = true ↔ (|c.x| ≤ 1 / 10 ^ 8 ∧ |c.y| ≤ 1 / 10 ^ 8 ∧ |c.z| ≤ 1 / 10 ^ 8) := by
  unfold V3.allClose isclose3
  simp only [Bool.and_eq_true, le_real, abs_real, n0_real, sub_zero, abs_zero, mul_zero, add_zero, dec18_real]
  tauto

/-- outside the window the cross product is longer than 1e-15: the axis is normalised -/
theorem normaliseAxis_of_not_close (c : V3 ℝ) (h : V3.allClose c (⟨n0, n0, n0⟩ : V3 ℝ) = false) :
    normaliseAxis c = V3.divs c (V3.norm c) ∧ (1 : ℝ) / 10 ^ 8 < V3.norm c := by
  have h' : ¬ (|c.x| ≤ 1 / 10 ^ 8 ∧ |c.y| ≤ 1 / 10 ^ 8 ∧ |c.z| ≤ 1 / 10 ^ 8) := by
    rw [← allClose_zero_real, h]; simp
  have hbig : (1 : ℝ) / 10 ^ 8 < V3.norm c := by
    rw [norm_real]
    apply Real.lt_sqrt_of_sq_lt
    have hx := abs_mul_abs_self c.x
    have hy := abs_mul_abs_self c.y
    have hz := abs_mul_abs_self c.z
    have ax := abs_nonneg c.x
    have ay := abs_nonneg c.y
    have az := abs_nonneg c.z
    by_contra hle
    apply h'
    refine ⟨?_, ?_, ?_⟩ <;> · by_contra hc; rw [not_le] at hc; nlinarith
  refine ⟨?_, hbig⟩
  unfold normaliseAxis
  have : QNum.lt (dec 1 15 : ℝ) (V3.norm c) = true := by
    rw [lt_real, dec115_real]
    have : (1 : ℝ) / 10 ^ 15 < 1 / 10 ^ 8 := by norm_num
    linarith
  rw [this]; simp


/-- the angle `quaternion_from_two_vectors` computes -/
noncomputable def angleOf (p1 p2 : V3 ℝ) : ℝ := QNum.arccos (clampDot (unitOf p1) (unitOf p2))

/-- the code's degenerate ("antiparallel") branch condition for `p1`, `p2` -/
noncomputable def qftvDegenerate (p1 p2 : V3 ℝ) : Bool :=
  degenerateBranch (V3.cross (unitOf p1) (unitOf p2)) (angleOf p1 p2)

theorem qftv_unfold (rv p1 p2 : V3 ℝ) :
    quaternionFromTwoVectors rv p1 p2 =
      fromQuat (axisAngleQuat
        (normaliseAxis (if qftvDegenerate p1 p2 then V3.cross (unitOf p1) rv else V3.cross (unitOf p1) (unitOf p2)))
        (Real.sin (angleOf p1 p2 / 2)) (Real.cos (angleOf p1 p2 / 2))) := by
  unfold quaternionFromTwoVectors qftvDegenerate angleOf unitOf
  simp only [sinQ_real, cosQ_real, n2_real]

/-- **(b) the parallel case.** When the computed angle is 0 the result is the identity quaternion `(0, 0, 0, 1)`,
    whatever the axis came out as. -/
theorem qftv_angle_zero (rv p1 p2 : V3 ℝ) (h : angleOf p1 p2 = 0) :
    quaternionFromTwoVectors rv p1 p2 = ⟨0, 0, 0, 1⟩ := by
  rw [qftv_unfold, h]
  simp only [zero_div, Real.sin_zero, Real.cos_zero]
  unfold axisAngleQuat V3.muls
  simp only [mul_zero]
  exact fromQuat_unit _ (by unfold Q4.normSq; norm_num)

/-- half-angle facts for `θ = arccos d`, `-1 ≤ d ≤ 1` -/
theorem half_angle (d : ℝ) (h1 : -1 ≤ d) (h2 : d ≤ 1) :
    let s := Real.sin (Real.arccos d / 2)
    let c := Real.cos (Real.arccos d / 2)
    2 * (s * c) = Real.sqrt (1 - d ^ 2) ∧ c * c - s * s = d ∧ s * s + c * c = 1 := by
  intro s c
  have hs : Real.sin (Real.arccos d) = 2 * s * c := by
    have := Real.sin_two_mul (Real.arccos d / 2)
    rwa [show 2 * (Real.arccos d / 2) = Real.arccos d by ring] at this
  have hc : Real.cos (Real.arccos d) = 2 * c ^ 2 - 1 := by
    have := Real.cos_two_mul (Real.arccos d / 2)
    rwa [show 2 * (Real.arccos d / 2) = Real.arccos d by ring] at this
  have hsc : s ^ 2 + c ^ 2 = 1 := Real.sin_sq_add_cos_sq _
  rw [Real.sin_arccos] at hs
  rw [Real.cos_arccos h1 h2] at hc
  refine ⟨by linarith, by nlinarith, by nlinarith⟩


theorem angleOf_eq (p1 p2 : V3 ℝ) (h1 : V3.norm p1 ≠ 0) (h2 : V3.norm p2 ≠ 0) :
    angleOf p1 p2 = Real.arccos (V3.dot (unitOf p1) (unitOf p2)) := by
  have hb := dot_unit_bounds _ _ (unitOf_dot_self p1 h1) (unitOf_dot_self p2 h2)
  unfold angleOf
  rw [clampDot_real _ _ hb.1 hb.2]; rfl

/-- unit vectors with dot product 1 coincide -/
theorem eq_of_dot_one (u w : V3 ℝ) (hu : V3.dot u u = 1) (hw : V3.dot w w = 1) (hd : 1 ≤ V3.dot u w) : u = w := by
  obtain ⟨ux, uy, uz⟩ := u
  obtain ⟨wx, wy, wz⟩ := w
  simp only [V3.dot] at hu hw hd
  have h0 : (ux - wx) ^ 2 + (uy - wy) ^ 2 + (uz - wz) ^ 2 ≤ 0 := by nlinarith
  have hx : ux - wx = 0 := by nlinarith [sq_nonneg (ux - wx), sq_nonneg (uy - wy), sq_nonneg (uz - wz)]
  have hy : uy - wy = 0 := by nlinarith [sq_nonneg (ux - wx), sq_nonneg (uy - wy), sq_nonneg (uz - wz)]
  have hz : uz - wz = 0 := by nlinarith [sq_nonneg (ux - wx), sq_nonneg (uy - wy), sq_nonneg (uz - wz)]
  simp only [V3.mk.injEq]
  exact ⟨by linarith, by linarith, by linarith⟩

/-- the quaternion of the plain branch, in closed form, with what makes it a rotation about the normalised cross product -/
theorem qftv_plain (rv p1 p2 : V3 ℝ) (h1 : V3.norm p1 ≠ 0) (h2 : V3.norm p2 ≠ 0)
    (hdeg : qftvDegenerate p1 p2 = false) (hθ : angleOf p1 p2 ≠ 0) :
    let u := unitOf p1
    let w := unitOf p2
    let n := V3.norm (V3.cross u w)
    let k := V3.divs (V3.cross u w) n
    let s := Real.sin (angleOf p1 p2 / 2)
    let c := Real.cos (angleOf p1 p2 / 2)
    quaternionFromTwoVectors rv p1 p2 = axisAngleQuat k s c ∧ n ≠ 0 ∧ n * n = 1 - V3.dot u w * V3.dot u w ∧
      2 * (s * c) = n ∧ c * c - s * s = V3.dot u w ∧ s * s + c * c = 1 ∧ V3.dot k k = 1 := by
  intro u w n k s c
  have hu : V3.dot u u = 1 := unitOf_dot_self p1 h1
  have hw : V3.dot w w = 1 := unitOf_dot_self p2 h2
  have hb := dot_unit_bounds u w hu hw
  have hθe : angleOf p1 p2 = Real.arccos (V3.dot u w) := angleOf_eq p1 p2 h1 h2
  -- outside the window
  have hclose : V3.allClose (V3.cross u w) (⟨n0, n0, n0⟩ : V3 ℝ) = false := by
    unfold qftvDegenerate degenerateBranch at hdeg
    have hne : QNum.eq (angleOf p1 p2) (n0 : ℝ) = false := by
      rw [Bool.eq_false_iff]; intro h; rw [eq_real, n0_real] at h; exact hθ h
    rw [hne] at hdeg
    simpa using hdeg
  obtain ⟨hax, hbig⟩ := normaliseAxis_of_not_close _ hclose
  have hn : n ≠ 0 := by
    have : (0 : ℝ) < 1 / 10 ^ 8 := by norm_num
    exact ne_of_gt (lt_trans this hbig)
  have hnn : n * n = 1 - V3.dot u w * V3.dot u w := by
    have := cross_normSq u w
    simp only at this
    rw [hu, hw] at this
    show V3.norm (V3.cross u w) * V3.norm (V3.cross u w) = _
    rw [norm_sq, this]; ring
  have hn0 : 0 ≤ n := norm_nonneg _
  have hha := half_angle (V3.dot u w) hb.1 hb.2
  simp only at hha
  rw [← hθe] at hha
  obtain ⟨ha1, ha2, ha3⟩ := hha
  have hsq : Real.sqrt (1 - V3.dot u w ^ 2) = n := by
    rw [show 1 - V3.dot u w ^ 2 = n * n by rw [hnn]; ring]
    exact Real.sqrt_mul_self hn0
  have hkk : V3.dot k k = 1 := by
    have h3 := cross_normSq u w
    simp only at h3
    rw [hu, hw] at h3
    have h4 := norm_sq (V3.cross u w)
    show V3.dot (V3.divs (V3.cross u w) n) (V3.divs (V3.cross u w) n) = 1
    unfold V3.dot V3.divs
    simp only
    field_simp
    show _ = n ^ 2
    nlinarith
  refine ⟨?_, hn, hnn, by rw [ha1, hsq], ha2, ha3, hkk⟩
  rw [qftv_unfold, hdeg]
  simp only [Bool.false_eq_true, if_false]
  rw [hax]
  apply fromQuat_unit
  show Q4.normSq (axisAngleQuat k s c) = 1
  have : Q4.normSq (axisAngleQuat k s c) = s * s * V3.dot k k + c * c := by
    unfold Q4.normSq axisAngleQuat V3.muls V3.dot; ring
  rw [this, hkk]; linarith

/-- **(a)** outside the code's degenerate branch, the rotation of `quaternion_from_two_vectors(p1, p2)` carries the
    direction of `p1` onto the direction of `p2` -/
theorem qftv_maps (rv p1 p2 : V3 ℝ) (h1 : V3.norm p1 ≠ 0) (h2 : V3.norm p2 ≠ 0)
    (hdeg : qftvDegenerate p1 p2 = false) :
    rotR (quaternionFromTwoVectors rv p1 p2) (unitOf p1) = unitOf p2 := by
  have hu : V3.dot (unitOf p1) (unitOf p1) = 1 := unitOf_dot_self p1 h1
  have hw : V3.dot (unitOf p2) (unitOf p2) = 1 := unitOf_dot_self p2 h2
  by_cases hθ : angleOf p1 p2 = 0
  · rw [qftv_angle_zero rv p1 p2 hθ, rotR_identity]
    apply eq_of_dot_one _ _ hu hw
    rw [angleOf_eq p1 p2 h1 h2, Real.arccos_eq_zero] at hθ
    exact hθ
  · obtain ⟨hq, hn, hnn, h2sc, hcs, _, _⟩ := qftv_plain rv p1 p2 h1 h2 hdeg hθ
    rw [hq]
    exact rodrigues_maps _ _ _ _ _ _ hu hw hn hnn rfl h2sc hcs

/-- under the same hypotheses the result is a unit quaternion -/
theorem qftv_unit (rv p1 p2 : V3 ℝ) (h1 : V3.norm p1 ≠ 0) (h2 : V3.norm p2 ≠ 0)
    (hdeg : qftvDegenerate p1 p2 = false) :
    Q4.normSq (quaternionFromTwoVectors rv p1 p2) = 1 := by
  by_cases hθ : angleOf p1 p2 = 0
  · rw [qftv_angle_zero rv p1 p2 hθ]; unfold Q4.normSq; norm_num
  · obtain ⟨hq, _, _, _, _, hsc, hkk⟩ := qftv_plain rv p1 p2 h1 h2 hdeg hθ
    rw [hq]
    have : ∀ (k : V3 ℝ) (s c : ℝ), Q4.normSq (axisAngleQuat k s c) = s * s * V3.dot k k + c * c := by
      intro k s c; unfold Q4.normSq axisAngleQuat V3.muls V3.dot; ring
    rw [this, hkk]; linarith


theorem normSq_axisAngle (k : V3 ℝ) (s c : ℝ) :
    Q4.normSq (axisAngleQuat k s c) = s * s * V3.dot k k + c * c := by
  unfold Q4.normSq axisAngleQuat V3.muls V3.dot; ring

/-- a normalised vector `a / ‖a‖` (`‖a‖ ≠ 0`) orthogonal to whatever `a` is orthogonal to, of unit length -/
theorem divs_norm_facts (a v : V3 ℝ) (hn : V3.norm a ≠ 0) (hav : V3.dot a v = 0) :
    V3.dot (V3.divs a (V3.norm a)) (V3.divs a (V3.norm a)) = 1 ∧ V3.dot (V3.divs a (V3.norm a)) v = 0 := by
  refine ⟨unitOf_dot_self a hn, ?_⟩
  unfold V3.dot V3.divs at *
  simp only
  have : (a.x * v.x + a.y * v.y + a.z * v.z) / V3.norm a = 0 := by rw [hav]; simp
  rw [← this]; field_simp

/-- **the exactly antiparallel case.** `p2/‖p2‖ = −p1/‖p1‖`: the code takes its random-axis branch; provided the drawn
    vector `rv` is not along `p1` (the cross product is longer than the 1e-15 of the normalisation guard) the result is a
    half turn about an axis perpendicular to `p1` and carries the direction of `p1` onto that of `p2`. -/
theorem qftv_antiparallel (rv p1 p2 : V3 ℝ) (h1 : V3.norm p1 ≠ 0)
    (hanti : unitOf p2 = V3.neg (unitOf p1)) (hrv : (1 : ℝ) / 10 ^ 15 < V3.norm (V3.cross (unitOf p1) rv)) :
    rotR (quaternionFromTwoVectors rv p1 p2) (unitOf p1) = unitOf p2 ∧
      Q4.normSq (quaternionFromTwoVectors rv p1 p2) = 1 := by
  have hu : V3.dot (unitOf p1) (unitOf p1) = 1 := unitOf_dot_self p1 h1
  -- the dot product is −1, the angle π
  have hd : V3.dot (unitOf p1) (unitOf p2) = -1 := by
    rw [hanti]
    have : V3.dot (unitOf p1) (V3.neg (unitOf p1)) = - V3.dot (unitOf p1) (unitOf p1) := by
      unfold V3.dot V3.neg; ring
    rw [this, hu]
  have hθ : angleOf p1 p2 = Real.pi := by
    unfold angleOf
    rw [clampDot_real _ _ (by rw [hd]) (by rw [hd]; norm_num), hd]
    exact Real.arccos_neg_one
  have hcross : V3.cross (unitOf p1) (unitOf p2) = ⟨0, 0, 0⟩ := by
    rw [hanti]; unfold V3.cross V3.neg; simp only [V3.mk.injEq]; refine ⟨?_, ?_, ?_⟩ <;> ring
  have hdeg : qftvDegenerate p1 p2 = true := by
    unfold qftvDegenerate degenerateBranch
    rw [hcross, hθ]
    have h1' : V3.allClose (⟨0, 0, 0⟩ : V3 ℝ) (⟨n0, n0, n0⟩ : V3 ℝ) = true := by
      rw [allClose_zero_real]; simp
    have h2' : QNum.eq Real.pi (n0 : ℝ) = false := by
      rw [Bool.eq_false_iff]; intro h; rw [eq_real, n0_real] at h; exact Real.pi_ne_zero h
    rw [h1', h2']; rfl
  set a := V3.cross (unitOf p1) rv with ha
  have hn : V3.norm a ≠ 0 := by
    have : (0 : ℝ) < 1 / 10 ^ 15 := by norm_num
    exact ne_of_gt (lt_trans this hrv)
  have hau : V3.dot a (unitOf p1) = 0 := by rw [ha]; unfold V3.dot V3.cross; ring
  obtain ⟨hkk, hku⟩ := divs_norm_facts a (unitOf p1) hn hau
  have hax : normaliseAxis a = V3.divs a (V3.norm a) := by
    unfold normaliseAxis
    have : QNum.lt (dec 1 15 : ℝ) (V3.norm a) = true := by rw [lt_real, dec115_real]; exact hrv
    rw [this]; simp
  have hq : quaternionFromTwoVectors rv p1 p2 = axisAngleQuat (V3.divs a (V3.norm a)) 1 0 := by
    rw [qftv_unfold, hdeg, hθ]
    simp only [if_true, Real.sin_pi_div_two, Real.cos_pi_div_two]
    rw [hax]
    apply fromQuat_unit
    rw [normSq_axisAngle, hkk]; norm_num
  rw [hq]
  refine ⟨?_, by rw [normSq_axisAngle, hkk]; norm_num⟩
  rw [rotR_axisAngle, hkk, hku, hanti]
  unfold V3.neg
  simp only [V3.mk.injEq]
  refine ⟨?_, ?_, ?_⟩ <;> ring

end Mofun.QuatH
