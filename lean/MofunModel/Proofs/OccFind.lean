/-
  OccFind.lean — linking the search to the spec-level occurrence set (C02/C03):
  * `find_length_eq_good_groups` : number of reported matches = number of candidate groups with a tuple passing the
    re-check (no hypothesis);
  * `FindIsOcc` bundles the hypotheses under which the reported key set IS `Occ`: the guards of the completeness
    theorem, `2ε ≤ atol`, soundness of the reports (property C01, taken as a hypothesis) and `OracleAligns`;
  * under `FindIsOcc` on both sides, the key set of `find` is invariant under shift + wrap, atom permutation and
    rigid motion of the pattern (via the invariances of `Occ`).
-/
import MofunModel.Proofs.FindCompleteTri
import MofunModel.Proofs.OccPattern

namespace Mofun

/-! ### counting -/

theorem length_filterMap_ite {α β} (l : List α) (c : α → Bool) (f : α → β) :
    (l.filterMap (fun g => if c g then none else some (f g))).length = (l.filter (fun g => !c g)).length := by
  induction l with
  | nil => rfl
  | cons x xs ih =>
    by_cases h : c x
    · simp [h, ih]
    · simp [h, ih]

/-- the number of reported matches equals the number of candidate groups that contain at least one tuple passing
    the rotation re-check — for every oracle and every chooser -/
theorem find_length_eq_good_groups (inp : FindInput) (ax1 : Nat) (oracle : Nat → Nat → Quat)
    (choose : Nat → List Nat → Nat) :
    (find inp ax1 oracle choose).length
      = ((findGroups inp ax1 oracle).2.filter (fun g => !g.good.isEmpty)).length := by
  have h := congrArg List.length (find_keys_eq inp ax1 oracle choose)
  rw [List.length_map, length_filterMap_ite] at h
  exact h

/-! ### find = Occ -/

def searchGuards (inp : FindInput) : Bool := orthoGuards inp || triGuards inp

theorem windowComplete_of_guards (inp : FindInput) (hG : searchGuards inp = true) : WindowComplete inp := by
  unfold searchGuards at hG
  rcases Bool.or_eq_true_iff.mp hG with h | h
  · exact windowComplete_ortho inp (orthoGuards_spec inp h)
  · exact windowComplete_tri inp (triGuards_spec inp h)

/-- the hypotheses under which the reported key set is the occurrence set `Occ(S, P, ε)` -/
structure FindIsOcc (inp : FindInput) (ax1 : Nat) (oracle : Nat → Nat → Quat) (choose : Nat → List Nat → Nat)
    (epsSq : Rat) : Prop where
  guards : searchGuards inp = true
  eps : 4 * epsSq ≤ inp.atol * inp.atol
  /-- soundness + unambiguity (property C01, hypothesis here): every reported group is an ε-occurrence -/
  sound : ∀ k ∈ (find inp ax1 oracle choose).map Match.key, Occ inp epsSq k
  /-- the atoms of an occurrence are pairwise different atoms (the search never takes a unit-cell atom twice; on the
      property's domain this is `occ_atoms_distinct`, Proofs/OccCountGeom.lean) -/
  distinct : ∀ g n, RigidOccurrence inp epsSq g n → ∀ i j, j < i → i < inp.ppos.length → g j ≠ g i
  /-- the numerical hypothesis on the rotation oracle -/
  aligned : ∀ g n, RigidOccurrence inp epsSq g n → OracleAligns inp ax1 oracle (occTuple inp g n)

theorem find_keys_iff_occ (inp : FindInput) (ax1 : Nat) (oracle : Nat → Nat → Quat) (choose : Nat → List Nat → Nat)
    (epsSq : Rat) (h : FindIsOcc inp ax1 oracle choose epsSq) (k : List Nat) :
    k ∈ (find inp ax1 oracle choose).map Match.key ↔ Occ inp epsSq k := by
  constructor
  · exact h.sound k
  · rintro ⟨g, n, hr, hk⟩
    rw [hk]
    exact find_complete_of_aligned inp ax1 oracle choose (windowComplete_of_guards inp h.guards) g n
      (rigid_implies_dist inp epsSq h.eps g n hr (h.distinct g n hr)) (h.aligned g n hr)

/-- two searches whose occurrence sets coincide report the same groups (as a set; the lists are permutations of
    each other and have the same length) -/
theorem find_keys_perm_of_occ_iff (inp inp' : FindInput) (ax1 ax1' : Nat) (oracle oracle' : Nat → Nat → Quat)
    (choose choose' : Nat → List Nat → Nat) (epsSq : Rat)
    (h : FindIsOcc inp ax1 oracle choose epsSq) (h' : FindIsOcc inp' ax1' oracle' choose' epsSq)
    (hocc : ∀ k, Occ inp epsSq k ↔ Occ inp' epsSq k) :
    ((find inp ax1 oracle choose).map Match.key).Perm ((find inp' ax1' oracle' choose').map Match.key) ∧
    (find inp ax1 oracle choose).length = (find inp' ax1' oracle' choose').length := by
  have hnd : ((find inp ax1 oracle choose).map Match.key).Nodup := by
    rw [find_keys_eq]; exact nodup_filterMap_key _ _ _ (findGroups_keys_nodup inp ax1 oracle)
  have hnd' : ((find inp' ax1' oracle' choose').map Match.key).Nodup := by
    rw [find_keys_eq]; exact nodup_filterMap_key _ _ _ (findGroups_keys_nodup inp' ax1' oracle')
  have hperm := (List.perm_ext_iff_of_nodup hnd hnd').mpr (fun k => by
    rw [find_keys_iff_occ inp ax1 oracle choose epsSq h, find_keys_iff_occ inp' ax1' oracle' choose' epsSq h', hocc])
  refine ⟨hperm, ?_⟩
  have := hperm.length_eq
  simpa using this

end Mofun
