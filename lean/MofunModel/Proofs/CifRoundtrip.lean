/-
  CifRoundtrip.lean — what `saveCif` produces when it succeeds, and the read-back of each part (C15).
-/
import MofunModel.Proofs.CifLemmas

namespace Mofun.Cif
open Mofun

/-! ## shape of a successful `saveCif` -/

theorem labelsFrom_length (pre es : List String) : (labelsFrom pre es).length = es.length := by
  induction es generalizing pre with
  | nil => rfl
  | cons e es ih => simp [labelsFrom, ih]

theorem labels_length (es : List String) : (labels es).length = es.length := labelsFrom_length [] es

theorem allSome_getElem? (labs : List String) (atoms : List Nat) (ls : List String)
    (h : allSome (atoms.map (fun i => labs[i]?)) = some ls) :
    ls = atoms.map (fun i => labs.getD i "") ∧ ∀ i ∈ atoms, i < labs.length := by
  induction atoms generalizing ls with
  | nil => simp [allSome] at h; subst h; simp
  | cons i is ih =>
    simp only [List.map_cons] at h
    cases hi : labs[i]? with
    | none => simp [allSome, hi] at h
    | some l =>
      simp only [allSome, hi] at h
      cases hr : allSome (is.map (fun i => labs[i]?)) with
      | none => simp [hr] at h
      | some r =>
        simp only [hr, Option.map_some, Option.some.injEq] at h
        obtain ⟨e1, e2⟩ := ih r hr
        have hlt : i < labs.length := by
          rcases Nat.lt_or_ge i labs.length with h' | h'
          · exact h'
          · rw [List.getElem?_eq_none h'] at hi; cases hi
        subst h
        refine ⟨?_, ?_⟩
        · simp [List.getD, hi, e1]
        · intro j hj
          rcases List.mem_cons.mp hj with rfl | hj
          · exact hlt
          · exact e2 j hj

theorem termRow_ok (labs : List String) (ar : Nat) (atoms : List Nat) (extra row : List String)
    (h : termRow labs ar atoms extra = .ok row) :
    row = atoms.map (fun i => labs.getD i "") ++ extra ∧ atoms.length = ar ∧ ∀ i ∈ atoms, i < labs.length := by
  unfold termRow at h
  split at h
  · cases h
  · rename_i hlen
    split at h
    · cases h
    · rename_i ls hls
      cases h
      obtain ⟨e1, e2⟩ := allSome_getElem? labs atoms ls hls
      exact ⟨by rw [e1], by simpa using hlen, e2⟩

theorem allOk_map {α β} (l : List α) (f : α → Except Err β) (rows : List β) (g : α → β) (P : α → Prop)
    (hf : ∀ x y, f x = .ok y → y = g x ∧ P x) (h : allOk (l.map f) = .ok rows) :
    rows = l.map g ∧ ∀ x ∈ l, P x := by
  induction l generalizing rows with
  | nil => simp [allOk] at h; subst h; simp
  | cons x xs ih =>
    simp only [List.map_cons] at h
    cases hx : f x with
    | error e => simp [allOk, hx] at h
    | ok y =>
      simp only [allOk, hx] at h
      cases hr : allOk (xs.map f) with
      | error e => simp [hr] at h
      | ok r =>
        simp only [hr, Except.ok.injEq] at h
        obtain ⟨e1, e2⟩ := ih r hr
        obtain ⟨ey, px⟩ := hf x y hx
        subst h
        refine ⟨by simp [ey, e1], ?_⟩
        intro z hz
        rcases List.mem_cons.mp hz with rfl | hz
        · exact px
        · exact e2 z hz

/-- a term loop: absent without terms, otherwise one loop whose rows are the atoms' labels followed by the extras -/
theorem termLoop_ok (labs tags : List String) (ar : Nat) (t : TermTable) (bl : Block)
    (h : termLoop labs tags ar t = .ok bl) :
    (t.terms = [] ∧ bl = []) ∨
    (t.terms ≠ [] ∧
      bl = [.loop (tags ++ t.xlabels.map lc) (t.terms.map (fun x => x.atoms.map (fun i => labs.getD i "") ++ x.extra))] ∧
      ∀ x ∈ t.terms, x.atoms.length = ar ∧ ∀ i ∈ x.atoms, i < labs.length) := by
  unfold termLoop at h
  split at h
  · rename_i he; cases h; left; exact ⟨by simpa using he, rfl⟩
  · rename_i he
    split at h
    · cases h
    · rename_i rows hrows
      cases h
      right
      obtain ⟨e1, e2⟩ := allOk_map t.terms _ rows (fun x => x.atoms.map (fun i => labs.getD i "") ++ x.extra)
        (fun x => x.atoms.length = ar ∧ ∀ i ∈ x.atoms, i < labs.length)
        (fun x y hxy => termRow_ok labs ar x.atoms x.extra y hxy) hrows
      exact ⟨by simpa using he, by rw [e1], e2⟩

/-- the torsion rows: dihedrals with their extras, then impropers without -/
def torsionTerms (a : Atoms) : List Term :=
  a.dihedrals.terms ++ a.impropers.terms.map (fun t => { t with extra := [] })

theorem torsionLoop_ok (labs : List String) (a : Atoms) (bl : Block) (h : torsionLoop labs a = .ok bl) :
    (torsionTerms a = [] ∧ bl = []) ∨
    (torsionTerms a ≠ [] ∧
      bl = [.loop (torsionTags ++ a.dihedrals.xlabels.map lc)
              ((torsionTerms a).map (fun x => x.atoms.map (fun i => labs.getD i "") ++ x.extra))] ∧
      (∀ x ∈ torsionTerms a, x.atoms.length = 4 ∧ ∀ i ∈ x.atoms, i < labs.length) ∧
      (a.impropers.terms = [] ∨ a.dihedrals.xlabels = [])) := by
  unfold torsionLoop at h
  split at h
  · rename_i he; cases h; left
    simp only [Bool.and_eq_true, List.isEmpty_iff] at he
    exact ⟨by simp [torsionTerms, he.1, he.2], rfl⟩
  · rename_i he
    split at h
    · cases h
    · rename_i hrej
      split at h
      · cases h
      · rename_i rows hrows
        cases h
        right
        have hmap : a.dihedrals.terms.map (fun x => termRow labs 4 x.atoms x.extra)
              ++ a.impropers.terms.map (fun x => termRow labs 4 x.atoms [])
            = (torsionTerms a).map (fun x => termRow labs 4 x.atoms x.extra) := by
          simp [torsionTerms, List.map_append, List.map_map, Function.comp]
        rw [hmap] at hrows
        obtain ⟨e1, e2⟩ := allOk_map (torsionTerms a) _ rows (fun x => x.atoms.map (fun i => labs.getD i "") ++ x.extra)
          (fun x => x.atoms.length = 4 ∧ ∀ i ∈ x.atoms, i < labs.length)
          (fun x y hxy => termRow_ok labs 4 x.atoms x.extra y hxy) hrows
        refine ⟨?_, by rw [e1], e2, ?_⟩
        · intro hnil
          simp only [torsionTerms, List.append_eq_nil_iff, List.map_eq_nil_iff] at hnil
          simp [hnil.1, hnil.2] at he
        · simp only [Bool.and_eq_true, Bool.not_eq_true', List.isEmpty_eq_false_iff, not_and] at hrej
          by_cases hi : a.impropers.terms = []
          · exact Or.inl hi
          · right; have := hrej hi; simpa using this

theorem coordsFor_cases (a : Atoms) (useFract : Bool) (ctags : List String) (coordOf : AtomRow → Vec3)
    (h : coordsFor a useFract = some (ctags, coordOf)) :
    (∃ c, useFract = true ∧ a.cell = some c ∧ ctags = fractTags ∧ coordOf = fun r => c.frac r.pos) ∨
    ((useFract = false ∨ a.cell = none) ∧ ctags = cartnTags ∧ coordOf = fun r => r.pos) := by
  cases useFract with
  | false =>
    right
    simp only [coordsFor] at h
    cases h
    exact ⟨Or.inl rfl, rfl, rfl⟩
  | true =>
    cases hc : a.cell with
    | none =>
      right
      simp only [coordsFor, hc] at h
      cases h
      exact ⟨Or.inr rfl, rfl, rfl⟩
    | some c =>
      left
      simp only [coordsFor, hc] at h
      split at h
      · cases h
      · cases h; exact ⟨c, rfl, rfl, rfl, rfl⟩

/-- everything `saveCif` checked and built, when it succeeds -/
theorem saveCif_ok (env : Env) (a : Atoms) (useFract : Bool) (b : Block) (h : saveCif env a useFract = .ok b) :
    a.atoms ≠ [] ∧ widthsOk a = true ∧ (∀ r ∈ a.atoms, r.ty < a.typeElems.length) ∧
    ∃ ctags coordOf bl al tl,
      coordsFor a useFract = some (ctags, coordOf) ∧
      termLoop (labels (elementsOf a)) bondTags 2 a.bonds = .ok bl ∧
      termLoop (labels (elementsOf a)) angleTags 3 a.angles = .ok al ∧
      torsionLoop (labels (elementsOf a)) a = .ok tl ∧
      b = headItems ++ cellItems env a ++ [atomLoop env a (labels (elementsOf a)) ctags coordOf] ++ bl ++ al ++ tl ∧
      b.tags.Nodup := by
  unfold saveCif at h
  split at h
  · cases h
  · rename_i h1
    split at h
    · cases h
    · rename_i h2
      split at h
      · cases h
      · rename_i h3
        simp only at h
        split at h
        · cases h
        · rename_i ctags coordOf hc
          split at h
          · cases h
          · rename_i bl hb
            split at h
            · cases h
            · rename_i al ha
              split at h
              · cases h
              · rename_i tl ht
                split at h
                · rename_i hnd
                  cases h
                  refine ⟨by simpa using h1, by simpa using h2, ?_, ctags, coordOf, bl, al, tl, hc, hb, ha, ht, rfl,
                    (nodup'_iff _).mp hnd⟩
                  intro r hr
                  simp only [List.any_eq_true, decide_eq_true_eq, not_exists, not_and] at h3
                  have := h3 r hr; omega
                · cases h

/-! ## data names of the written block -/

theorem Block.tags_append (x y : Block) : Block.tags (x ++ y) = Block.tags x ++ Block.tags y := by
  simp [Block.tags, List.flatMap_append]

theorem cellItems_tags (env : Env) (a : Atoms) :
    Block.tags (cellItems env a) = if a.cell.isSome then cellTags else [] := by
  unfold cellItems
  cases a.cell with
  | none => rfl
  | some c => rfl

theorem termLoop_tags (labs tags : List String) (ar : Nat) (t : TermTable) (bl : Block)
    (h : termLoop labs tags ar t = .ok bl) (x : String) (hx : x ∈ Block.tags bl) :
    (x ∈ tags ∧ t.terms ≠ []) ∨ x ∈ t.xlabels.map lc := by
  rcases termLoop_ok labs tags ar t bl h with ⟨_, rfl⟩ | ⟨hne, rfl, _⟩
  · simp [Block.tags] at hx
  · simp only [Block.tags, List.flatMap_cons, List.flatMap_nil, Entry.tags, List.append_nil, List.mem_append] at hx
    rcases hx with hx | hx
    · exact Or.inl ⟨hx, hne⟩
    · exact Or.inr hx

theorem torsionLoop_tags (labs : List String) (a : Atoms) (bl : Block)
    (h : torsionLoop labs a = .ok bl) (x : String) (hx : x ∈ Block.tags bl) :
    (x ∈ torsionTags ∧ torsionTerms a ≠ []) ∨ x ∈ a.dihedrals.xlabels.map lc := by
  rcases torsionLoop_ok labs a bl h with ⟨_, rfl⟩ | ⟨hne, rfl, _⟩
  · simp [Block.tags] at hx
  · simp only [Block.tags, List.flatMap_cons, List.flatMap_nil, Entry.tags, List.append_nil, List.mem_append] at hx
    rcases hx with hx | hx
    · exact Or.inl ⟨hx, hne⟩
    · exact Or.inr hx

/-- a reserved data name is never one of the (lower-cased) extra labels -/
theorem reserved_not_extra (a : Atoms) (hx : extraLabelsOk a = true) (t : String) (ht : t ∈ reservedTags) :
    t ∉ a.xlabels.map lc ∧ t ∉ a.bonds.xlabels.map lc ∧ t ∉ a.angles.xlabels.map lc ∧ t ∉ a.dihedrals.xlabels.map lc := by
  unfold extraLabelsOk at hx
  rw [List.all_eq_true] at hx
  have key : ∀ l, l ∈ a.xlabels ++ a.bonds.xlabels ++ a.angles.xlabels ++ a.dihedrals.xlabels → t ≠ lc l := by
    intro l hl e
    have := hx l hl
    rw [← e] at this
    simp [ht] at this
  refine ⟨?_, ?_, ?_, ?_⟩ <;>
  · intro hm
    obtain ⟨l, hl, e⟩ := List.mem_map.mp hm
    exact key l (by simp [hl]) e.symm

/-! ## the written block, bundled -/

structure Saved (env : Env) (a : Atoms) (b : Block) (ctags : List String) (coordOf : AtomRow → Vec3)
    (bl al tl : Block) : Prop where
  hb : b = headItems ++ cellItems env a ++ [atomLoop env a (labels (elementsOf a)) ctags coordOf] ++ bl ++ al ++ tl
  hnd : b.tags.Nodup
  hbl : termLoop (labels (elementsOf a)) bondTags 2 a.bonds = .ok bl
  hal : termLoop (labels (elementsOf a)) angleTags 3 a.angles = .ok al
  htl : torsionLoop (labels (elementsOf a)) a = .ok tl
  hct : ctags = fractTags ∨ ctags = cartnTags
  hx : extraLabelsOk a = true
  hw : widthsOk a = true

/-- a reserved data name occurs in the written block only where the writer put it -/
theorem Saved.reserved_absent {env a b ctags coordOf bl al tl} (S : Saved env a b ctags coordOf bl al tl)
    (t : String) (hr : t ∈ reservedTags) (h0 : t ∉ [hmTag, numTag]) (h1 : t ∈ cellTags → a.cell = none)
    (h2 : t ∉ [labelTag, typeTag] ++ ctags ++ [chargeTag]) (h3 : t ∈ bondTags → a.bonds.terms = [])
    (h4 : t ∈ angleTags → a.angles.terms = []) (h5 : t ∈ torsionTags → torsionTerms a = []) : t ∉ b.tags := by
  obtain ⟨e1, e2, e3, e4⟩ := reserved_not_extra a S.hx t hr
  intro hm
  rw [S.hb] at hm
  simp only [Block.tags_append, List.mem_append] at hm
  rcases hm with ((((hm | hm) | hm) | hm) | hm) | hm
  · exact h0 (by simpa [headItems, Block.tags, Entry.tags] using hm)
  · rw [cellItems_tags] at hm
    cases hc : a.cell with
    | none => simp [hc] at hm
    | some c => simp only [hc, Option.isSome_some, if_true] at hm; have := h1 hm; rw [hc] at this; cases this
  · simp only [Block.tags, List.flatMap_cons, List.flatMap_nil, atomLoop, Entry.tags, List.append_nil, List.mem_append] at hm
    rcases hm with hm | hm
    · exact h2 (by simp only [List.mem_append]; exact hm)
    · exact e1 hm
  · rcases termLoop_tags _ _ _ _ _ S.hbl t hm with ⟨hm, hne⟩ | hm
    · exact hne (h3 hm)
    · exact e2 hm
  · rcases termLoop_tags _ _ _ _ _ S.hal t hm with ⟨hm, hne⟩ | hm
    · exact hne (h4 hm)
    · exact e3 hm
  · rcases torsionLoop_tags _ _ _ S.htl t hm with ⟨hm, hne⟩ | hm
    · exact hne (h5 hm)
    · exact e4 hm

theorem normTable_nil (xl : List String) : normTable [] xl = TermTable.empty := rfl

theorem normTable_cons (ts : List Term) (xl : List String) (h : ts ≠ []) :
    normTable ts xl = { terms := renumber ts, coeffs := [], xlabels := xl.map lc } := by
  cases ts with
  | nil => exact absurd rfl h
  | cons t ts => rfl

/-- reading one term kind of the written block -/
theorem loadTerms_of (b : Block) (hnd : b.tags.Nodup) (labs : List String) (hl : labs.Nodup)
    (tags xl : List String) (terms : List Term) (htags : tags ≠ [])
    (h : (terms = [] ∧ tags.headD "" ∉ b.tags) ∨
         (terms ≠ [] ∧
          Entry.loop (tags ++ xl.map lc) (terms.map (fun t => t.atoms.map (fun i => labs.getD i "") ++ t.extra)) ∈ b ∧
          (∀ t ∈ terms, t.atoms.length = tags.length ∧ ∀ i ∈ t.atoms, i < labs.length) ∧
          (∀ t ∈ terms, t.extra.length = xl.length))) :
    loadTerms b labs tags = some (normTable terms xl) := by
  rcases h with ⟨rfl, habs⟩ | ⟨hne, hmem, har, hw⟩
  · have : b.hasAll tags = false := by
      cases tags with
      | nil => exact absurd rfl htags
      | cons t ts =>
        simp only [List.headD_cons] at habs
        simp [Block.hasAll, Block.has_false b t habs]
    simp [loadTerms, this, normTable_nil]
  · rw [normTable_cons _ _ hne]
    exact loadTerms_loop b hnd labs hl tags (xl.map lc) terms htags hmem har (by simpa using hw)

theorem widthsOk_iff (a : Atoms) (h : widthsOk a = true) :
    (∀ r ∈ a.atoms, r.extra.length = a.xlabels.length) ∧
    (∀ t ∈ a.bonds.terms, t.extra.length = a.bonds.xlabels.length) ∧
    (∀ t ∈ a.angles.terms, t.extra.length = a.angles.xlabels.length) ∧
    (∀ t ∈ a.dihedrals.terms, t.extra.length = a.dihedrals.xlabels.length) := by
  simp only [widthsOk, Bool.and_eq_true, List.all_eq_true, beq_iff_eq] at h
  exact ⟨h.1.1.1.1, h.1.1.1.2, h.1.1.2, h.1.2⟩

section
variable {env : Env} {a : Atoms} {b : Block} {ctags : List String} {coordOf : AtomRow → Vec3} {bl al tl : Block}

theorem Saved.mem_mid (S : Saved env a b ctags coordOf bl al tl) (e : Entry)
    (h : e ∈ [atomLoop env a (labels (elementsOf a)) ctags coordOf] ∨ e ∈ bl ∨ e ∈ al ∨ e ∈ tl ∨ e ∈ headItems ∨ e ∈ cellItems env a) :
    e ∈ b := by
  rw [S.hb]; simp only [List.mem_append]; tauto

theorem Saved.ctags_not (S : Saved env a b ctags coordOf bl al tl) (t : String)
    (h1 : t ∉ fractTags) (h2 : t ∉ cartnTags) (h3 : t ∉ [labelTag, typeTag, chargeTag]) :
    t ∉ [labelTag, typeTag] ++ ctags ++ [chargeTag] := by
  intro hm
  simp only [List.mem_append] at hm
  rcases hm with (hm | hm) | hm
  · exact h3 (by simp at hm ⊢; tauto)
  · rcases S.hct with rfl | rfl
    · exact h1 hm
    · exact h2 hm
  · exact h3 (by simp at hm ⊢; tauto)

theorem Saved.bonds (S : Saved env a b ctags coordOf bl al tl) (hl : (labels (elementsOf a)).Nodup) :
    loadTerms b (labels (elementsOf a)) bondTags = some (normTable a.bonds.terms a.bonds.xlabels) := by
  apply loadTerms_of b S.hnd _ hl bondTags a.bonds.xlabels a.bonds.terms (by decide)
  rcases termLoop_ok _ _ _ _ _ S.hbl with ⟨hnil, _⟩ | ⟨hne, hbl, har⟩
  · left
    refine ⟨hnil, ?_⟩
    apply S.reserved_absent _ (by decide) (by decide) (fun h => absurd h (by decide))
      (S.ctags_not _ (by decide) (by decide) (by decide)) (fun _ => hnil)
      (fun h => absurd h (by decide)) (fun h => absurd h (by decide))
  · right
    refine ⟨hne, S.mem_mid _ (Or.inr (Or.inl (by rw [hbl]; simp))), har, (widthsOk_iff a S.hw).2.1⟩

theorem Saved.angles (S : Saved env a b ctags coordOf bl al tl) (hl : (labels (elementsOf a)).Nodup) :
    loadTerms b (labels (elementsOf a)) angleTags = some (normTable a.angles.terms a.angles.xlabels) := by
  apply loadTerms_of b S.hnd _ hl angleTags a.angles.xlabels a.angles.terms (by decide)
  rcases termLoop_ok _ _ _ _ _ S.hal with ⟨hnil, _⟩ | ⟨hne, hal, har⟩
  · left
    refine ⟨hnil, ?_⟩
    apply S.reserved_absent _ (by decide) (by decide) (fun h => absurd h (by decide))
      (S.ctags_not _ (by decide) (by decide) (by decide)) (fun h => absurd h (by decide)) (fun _ => hnil)
      (fun h => absurd h (by decide))
  · right
    refine ⟨hne, S.mem_mid _ (Or.inr (Or.inr (Or.inl (by rw [hal]; simp)))), har, (widthsOk_iff a S.hw).2.2.1⟩

theorem Saved.torsions (S : Saved env a b ctags coordOf bl al tl) (hl : (labels (elementsOf a)).Nodup) :
    loadTerms b (labels (elementsOf a)) torsionTags = some (normTable (torsionTerms a) a.dihedrals.xlabels) := by
  apply loadTerms_of b S.hnd _ hl torsionTags a.dihedrals.xlabels (torsionTerms a) (by decide)
  rcases torsionLoop_ok _ _ _ S.htl with ⟨hnil, _⟩ | ⟨hne, htl, har, himp⟩
  · left
    refine ⟨hnil, ?_⟩
    apply S.reserved_absent _ (by decide) (by decide) (fun h => absurd h (by decide))
      (S.ctags_not _ (by decide) (by decide) (by decide)) (fun h => absurd h (by decide))
      (fun h => absurd h (by decide)) (fun _ => hnil)
  · right
    refine ⟨hne, S.mem_mid _ (Or.inr (Or.inr (Or.inr (Or.inl (by rw [htl]; simp))))), har, ?_⟩
    intro t ht
    simp only [torsionTerms, List.mem_append, List.mem_map] at ht
    rcases ht with ht | ⟨u, hu, rfl⟩
    · exact (widthsOk_iff a S.hw).2.2.2 t ht
    · rcases himp with hi | hd
      · rw [hi] at hu; simp at hu
      · simp [hd]

end

/-! ## the atom loop read back -/

theorem zip_map_snd' {α β γ} (l1 : List α) (l2 : List β) (g : β → γ) (h : l1.length = l2.length) :
    (l1.zip l2).map (fun p => g p.2) = l2.map g := by
  have : (l1.zip l2).map (fun p => g p.2) = ((l1.zip l2).map Prod.snd).map g := by simp [List.map_map, Function.comp]
  rw [this, List.map_snd_zip (by omega)]

theorem zip_map_fst' {α β} (l1 : List α) (l2 : List β) (h : l1.length = l2.length) :
    (l1.zip l2).map (fun p => p.1) = l1 := by
  have := List.map_fst_zip (l₁ := l1) (l₂ := l2) (by omega)
  simpa using this

section
variable {env : Env} {a : Atoms} {b : Block} {ctags : List String} {coordOf : AtomRow → Vec3} {bl al tl : Block}

/-- the columns of the atom loop as the reader sees them -/
theorem Saved.atom_cols (S : Saved env a b ctags coordOf bl al tl) (c1 c2 c3 : String) (hc : ctags = [c1, c2, c3]) :
    b.col? labelTag = some (labels (elementsOf a)) ∧
    b.col? typeTag = some (elementsOf a) ∧
    b.col? c1 = some (a.atoms.map (fun r => fmt4 (coordOf r).x)) ∧
    b.col? c2 = some (a.atoms.map (fun r => fmt4 (coordOf r).y)) ∧
    b.col? c3 = some (a.atoms.map (fun r => fmt4 (coordOf r).z)) ∧
    b.col? chargeTag = some (a.atoms.map (fun r => env.reprQ r.charge)) ∧
    b.loopTags? typeTag = some ([labelTag, typeTag, c1, c2, c3, chargeTag] ++ a.xlabels.map lc) ∧
    (∀ t ∈ [labelTag, typeTag, c1, c2, c3, chargeTag], b.has t = true) ∧
    allSome ((a.xlabels.map lc).map b.col?) =
      some ((List.range (a.xlabels.map lc).length).map (fun k => a.atoms.map (fun r => r.extra.getD k ""))) := by
  subst hc
  have hlen : (labels (elementsOf a)).length = a.atoms.length := by simp [labels_length, elementsOf]
  have hmem : Entry.loop ([labelTag, typeTag, c1, c2, c3, chargeTag] ++ a.xlabels.map lc)
      (((labels (elementsOf a)).zip a.atoms).map (fun p =>
        [p.1, elemOf a p.2, fmt4 (coordOf p.2).x, fmt4 (coordOf p.2).y, fmt4 (coordOf p.2).z, env.reprQ p.2.charge] ++ p.2.extra)) ∈ b :=
    S.mem_mid _ (Or.inl (by simp [atomLoop, coordRow]))
  have hfx : ∀ p ∈ (labels (elementsOf a)).zip a.atoms,
      ([p.1, elemOf a p.2, fmt4 (coordOf p.2).x, fmt4 (coordOf p.2).y, fmt4 (coordOf p.2).z, env.reprQ p.2.charge] : List String).length
        = ([labelTag, typeTag, c1, c2, c3, chargeTag] : List String).length := fun _ _ => rfl
  have col := fun j hj => loop_fixed_col b S.hnd _ (a.xlabels.map lc) _ _ (fun p : String × AtomRow => p.2.extra) hmem hfx j hj
  have h0 := col 0 (by simp)
  have h1 := col 1 (by simp)
  have h2 := col 2 (by simp)
  have h3 := col 3 (by simp)
  have h4 := col 4 (by simp)
  have h5 := col 5 (by simp)
  simp only [List.getElem_cons_zero, List.getElem_cons_succ, List.getD_cons_zero, List.getD_cons_succ] at h0 h1 h2 h3 h4 h5
  rw [zip_map_fst' _ _ hlen] at h0
  rw [zip_map_snd' _ _ (fun r => elemOf a r) hlen] at h1
  rw [zip_map_snd' _ _ (fun r => fmt4 (coordOf r).x) hlen] at h2
  rw [zip_map_snd' _ _ (fun r => fmt4 (coordOf r).y) hlen] at h3
  rw [zip_map_snd' _ _ (fun r => fmt4 (coordOf r).z) hlen] at h4
  rw [zip_map_snd' _ _ (fun r => env.reprQ r.charge) hlen] at h5
  refine ⟨h0, h1, h2, h3, h4, h5, ?_, ?_, ?_⟩
  · exact loop_loopTags b S.hnd _ _ _ _ _ hmem hfx typeTag (by simp)
  · intro t ht
    exact loop_has b S.hnd _ _ _ _ _ hmem hfx t (by simp only [List.mem_append]; exact Or.inl ht)
  · have := loop_extra_cols b S.hnd _ (a.xlabels.map lc) _ _ (fun p : String × AtomRow => p.2.extra) hmem hfx
    rw [this]
    congr 1
    apply List.map_congr_left
    intro k _
    exact zip_map_snd' _ _ (fun r => r.extra.getD k "") hlen

theorem Saved.p1 (S : Saved env a b ctags coordOf bl al tl) : rejectsP1 b = false := by
  have : b.get? hmTag = some (Val.single "P 1") :=
    Block.get?_of_mem b S.hnd (.item hmTag "P 1") (S.mem_mid _ (by simp [headItems])) hmTag (by simp [Entry.tags])
      _ (by simp [Entry.get?])
  simp [rejectsP1, this]

theorem Saved.cell (S : Saved env a b ctags coordOf bl al tl) (lenv : LoadEnv) :
    readCell lenv b = match a.cell with
      | none => some none
      | some c => (lenv.cellOf ((env.cellpar c).toList.map stripSu)).map some := by
  cases hc : a.cell with
  | none =>
    have : b.hasAll cellTags = false := by
      have : b.has "_cell_length_a" = false :=
        Block.has_false b _ (S.reserved_absent _ (by decide) (by decide) (fun _ => hc)
          (S.ctags_not _ (by decide) (by decide) (by decide)) (fun h => absurd h (by decide))
          (fun h => absurd h (by decide)) (fun h => absurd h (by decide)))
      simp [Block.hasAll, cellTags, this]
    simp [readCell, this]
  | some c =>
    have hitem : ∀ t v, Entry.item t v ∈ cellItems env a → b.get? t = some (Val.single v) := by
      intro t v hm
      exact Block.get?_of_mem b S.hnd (.item t v) (S.mem_mid _ (by simp [hm])) t (by simp [Entry.tags]) _ (by simp [Entry.get?])
    have hci : cellItems env a = [.item "_cell_length_a" (env.cellpar c).a, .item "_cell_length_b" (env.cellpar c).b,
        .item "_cell_length_c" (env.cellpar c).c, .item "_cell_angle_alpha" (env.cellpar c).alpha,
        .item "_cell_angle_beta" (env.cellpar c).beta, .item "_cell_angle_gamma" (env.cellpar c).gamma] := by
      simp [cellItems, hc, cellTags, CellPar.toList]
    have g1 := hitem "_cell_length_a" (env.cellpar c).a (by rw [hci]; simp)
    have g2 := hitem "_cell_length_b" (env.cellpar c).b (by rw [hci]; simp)
    have g3 := hitem "_cell_length_c" (env.cellpar c).c (by rw [hci]; simp)
    have g4 := hitem "_cell_angle_alpha" (env.cellpar c).alpha (by rw [hci]; simp)
    have g5 := hitem "_cell_angle_beta" (env.cellpar c).beta (by rw [hci]; simp)
    have g6 := hitem "_cell_angle_gamma" (env.cellpar c).gamma (by rw [hci]; simp)
    have hall : b.hasAll cellTags = true := by
      simp [Block.hasAll, cellTags, Block.has, g1, g2, g3, g4, g5, g6]
    have hs : allSome (cellTags.map b.single?) = some (env.cellpar c).toList := by
      simp [cellTags, Block.single?, g1, g2, g3, g4, g5, g6, allSome, CellPar.toList]
    simp only [readCell, hall, Bool.not_true, Bool.false_eq_true, if_false, hs, Option.bind_eq_bind, Option.bind_some]
    cases lenv.cellOf ((env.cellpar c).toList.map stripSu) <;> rfl

end

/-! ## coordinates -/

theorem fmt4L_noparen (x : Rat) : '(' ∉ fmt4L x := by
  intro hm
  simp only [fmt4L, List.mem_append, List.mem_cons] at hm
  rcases hm with (hm | hm) | hm | hm
  · split at hm
    · simp at hm
    · simp at hm
  · exact absurd (toDigits_isDigit _ _ hm) (by decide)
  · exact absurd hm (by decide)
  · exact absurd (pad4_isDigit _ _ hm) (by decide)

/-- reading back a number printed with `"%.4f"` gives its fixed-point value -/
theorem tofloat_fmt4 (x : Rat) : tofloat (fmt4 x) = some (fix4 x) := by
  simp only [tofloat, fmt4, String.toList_ofList]
  rw [stripSuL_id _ (fmt4L_noparen x), parse_fmt4]

def fix4v (v : Vec3) : Vec3 := ⟨fix4 v.x, fix4 v.y, fix4 v.z⟩

theorem zip3_maps {α} (l : List α) (f g h : α → Rat) :
    zip3 (l.map f) (l.map g) (l.map h) = some (l.map (fun r => (⟨f r, g r, h r⟩ : Vec3))) := by
  simp [zip3, List.zip_map', List.map_map, Function.comp]

section
variable {env : Env} {a : Atoms} {b : Block} {ctags : List String} {coordOf : AtomRow → Vec3} {bl al tl : Block}

theorem Saved.coords (S : Saved env a b ctags coordOf bl al tl) (fr : Bool)
    (hc : (ctags = fractTags ∧ fr = true) ∨ (ctags = cartnTags ∧ fr = false)) :
    readCoords b = some (fr, a.atoms.map (fun r => fix4v (coordOf r))) := by
  have hx : ∀ g : AtomRow → Rat, allSome ((a.atoms.map (fun r => fmt4 (g r))).map tofloat) = some (a.atoms.map (fun r => fix4 (g r))) := by
    intro g
    rw [List.map_map]
    apply allSome_map_some
    intro r _
    simp only [Function.comp_apply]
    exact tofloat_fmt4 (g r)
  rcases hc with ⟨rfl, rfl⟩ | ⟨rfl, rfl⟩
  · obtain ⟨_, _, h2, h3, h4, _, _, hhas, _⟩ := S.atom_cols _ _ _ (rfl : fractTags = [_, _, _])
    have hno : b.has "_atom_site_cartn_x" = false :=
      Block.has_false b _ (S.reserved_absent _ (by decide) (by decide) (fun h => absurd h (by decide))
        (by decide) (fun h => absurd h (by decide)) (fun h => absurd h (by decide)) (fun h => absurd h (by decide)))
    have hch : coordChoice b = some (true, fractTags) := by
      have e1 : b.hasAll (cartnTags ++ [labelTag]) = false := by simp [Block.hasAll, cartnTags, hno]
      have e2 : b.hasAll (fractTags ++ [labelTag]) = true := by
        simp only [Block.hasAll, List.all_eq_true]
        intro t ht
        apply hhas t
        simp [fractTags, labelTag] at ht ⊢
        tauto
      simp [coordChoice, e1, e2]
    simp only [readCoords, hch, Option.bind_eq_bind, Option.bind_some, fractTags, List.map_cons, List.map_nil, h2, h3, h4,
      allSome, Option.map_some, hx, zip3_maps, Option.pure_def]
    rfl
  · obtain ⟨_, _, h2, h3, h4, _, _, hhas, _⟩ := S.atom_cols _ _ _ (rfl : cartnTags = [_, _, _])
    have hch : coordChoice b = some (false, cartnTags) := by
      have e1 : b.hasAll (cartnTags ++ [labelTag]) = true := by
        simp only [Block.hasAll, List.all_eq_true]
        intro t ht
        apply hhas t
        simp [cartnTags, labelTag] at ht ⊢
        tauto
      simp [coordChoice, e1]
    simp only [readCoords, hch, Option.bind_eq_bind, Option.bind_some, cartnTags, List.map_cons, List.map_nil, h2, h3, h4,
      allSome, Option.map_some, hx, zip3_maps, Option.pure_def]
    rfl

end

/-! ## assembling the read-back -/

theorem mem_dedup {α} [DecidableEq α] (l : List α) (x : α) : x ∈ dedup l ↔ x ∈ l := by
  induction l with
  | nil => simp [dedup]
  | cons y ys ih =>
    simp only [dedup, List.mem_cons, List.mem_filter, ih, decide_eq_true_eq]
    constructor
    · rintro (h | ⟨h, _⟩)
      · exact Or.inl h
      · exact Or.inr h
    · intro h
      by_cases e : x = y
      · exact Or.inl e
      · rcases h with h | h
        · exact absurd h e
        · exact Or.inr ⟨h, e⟩

theorem types_by_first_occurrence (els : List String) :
    allSome (els.map (indexOf? (dedup els))) = some (els.map (fun e => (indexOf? (dedup els) e).getD 0)) := by
  apply allSome_map_some
  intro e he
  cases h : indexOf? (dedup els) e with
  | none => exact absurd ((mem_dedup els e).mpr he) ((indexOf?_none_iff _ _).mp h)
  | some j => rfl

theorem filter_handled (c1 c2 c3 : String) (xl : List String)
    (hfix : ∀ t ∈ [labelTag, typeTag, c1, c2, c3, chargeTag], handledAtomTags.contains t = true)
    (hxl : ∀ t ∈ xl, handledAtomTags.contains t = false) :
    ([labelTag, typeTag, c1, c2, c3, chargeTag] ++ xl).filter (fun t => !handledAtomTags.contains t) = xl := by
  rw [List.filter_append]
  have h1 : [labelTag, typeTag, c1, c2, c3, chargeTag].filter (fun t => !handledAtomTags.contains t) = [] := by
    rw [List.filter_eq_nil_iff]; intro t ht; simpa using hfix t ht
  have h2 : xl.filter (fun t => !handledAtomTags.contains t) = xl := by
    rw [List.filter_eq_self]; intro t ht; simpa using hxl t ht
  rw [h1, h2]; rfl

theorem handled_sub_reserved (t : String) (h : t ∈ handledAtomTags) : t ∈ reservedTags := by
  simp only [reservedTags, List.mem_append]; tauto

/-- **round trip, block level**: reading the block that `saveCif` built gives `normCif` -/
theorem cif_roundtrip_aux (env : Env) (lenv : LoadEnv) (a : Atoms) (useFract : Bool) (b : Block)
    (hsave : saveCif env a useFract = .ok b)
    (hlab : ∀ r ∈ a.atoms, endsWithDigit (elemOf a r) = false)
    (hextra : extraLabelsOk a = true)
    (hq : ∀ r ∈ a.atoms, tofloat (env.reprQ r.charge) = some r.charge)
    (hmass : ∀ r ∈ a.atoms, (lenv.massOf (elemOf a r)).isSome = true)
    (hcell : ∀ c, a.cell = some c → (lenv.cellOf ((env.cellpar c).toList.map stripSu)).isSome = true) :
    loadCif lenv b = .ok (normCif env lenv a useFract) := by
  obtain ⟨hne, hw, _hty, ctags, coordOf, bl, al, tl, hcf, hbl, hal, htl, hb, hnd⟩ := saveCif_ok env a useFract b hsave
  have hcases := coordsFor_cases a useFract ctags coordOf hcf
  have hct : ctags = fractTags ∨ ctags = cartnTags := by
    rcases hcases with ⟨c, _, _, h, _⟩ | ⟨_, h, _⟩
    · exact Or.inl h
    · exact Or.inr h
  have S : Saved env a b ctags coordOf bl al tl := ⟨hb, hnd, hbl, hal, htl, hct, hextra, hw⟩
  have hl : (labels (elementsOf a)).Nodup := labels_nodup _ (by
    intro e he
    obtain ⟨r, hr, rfl⟩ := List.mem_map.mp he
    exact hlab r hr)
  -- the flag the reader derives, and the coordinates it reads
  obtain ⟨fr, hfr⟩ : ∃ fr, (ctags = fractTags ∧ fr = true) ∨ (ctags = cartnTags ∧ fr = false) := by
    rcases hct with h | h
    · exact ⟨true, Or.inl ⟨h, rfl⟩⟩
    · exact ⟨false, Or.inr ⟨h, rfl⟩⟩
  have hcoords := S.coords fr hfr
  obtain ⟨c1, c2, c3, hc3, hfixh⟩ : ∃ c1 c2 c3, ctags = [c1, c2, c3] ∧
      ∀ t ∈ [labelTag, typeTag, c1, c2, c3, chargeTag], handledAtomTags.contains t = true := by
    rcases hct with h | h
    · exact ⟨_, _, _, h, by decide⟩
    · exact ⟨_, _, _, h, by decide⟩
  obtain ⟨k0, k1, _, _, _, k5, klt, khas, kx⟩ := S.atom_cols c1 c2 c3 hc3
  have hcharge : allSome ((a.atoms.map (fun r => env.reprQ r.charge)).map tofloat) = some (a.atoms.map (·.charge)) := by
    rw [List.map_map]
    apply allSome_map_some
    intro r hr
    simp only [Function.comp_apply]
    exact hq r hr
  have hxl : ∀ t ∈ a.xlabels.map lc, handledAtomTags.contains t = false := by
    intro t ht
    cases hh : handledAtomTags.contains t with
    | false => rfl
    | true =>
      have hm : t ∈ handledAtomTags := by simpa using hh
      exact absurd ht (reserved_not_extra a hextra t (handled_sub_reserved t hm)).1
  have hrows : rowsOf a.atoms.length ((List.range a.xlabels.length).map (fun k => a.atoms.map (fun r => r.extra.getD k "")))
      = some (a.atoms.map (·.extra)) :=
    rowsOf_cols a.atoms (·.extra) _ (by intro r hr; simpa using (widthsOk_iff a hw).1 r hr)
  have hmasses : allSome ((dedup (elementsOf a)).map lenv.massOf)
      = some ((dedup (elementsOf a)).map (fun e => (lenv.massOf e).getD 0)) := by
    apply allSome_map_some
    intro e he
    obtain ⟨r, hr, rfl⟩ := List.mem_map.mp ((mem_dedup _ _).mp he)
    have := hmass r hr
    cases hm : lenv.massOf (elemOf a r) with
    | none => simp [hm] at this
    | some m => rfl
  have hn : a.atoms.length ≠ 0 := by
    intro h; exact hne (List.length_eq_zero_iff.mp h)
  unfold loadCif
  rw [S.p1]
  simp only [Bool.false_eq_true, if_false]
  have hparts : ∀ n, n = a.atoms.length → loadParts lenv b n = some
      { names := labels (elementsOf a), els := elementsOf a, charges := a.atoms.map (·.charge), xtags := a.xlabels.map lc,
        xrows := a.atoms.map (·.extra), bonds := normTable a.bonds.terms a.bonds.xlabels,
        angles := normTable a.angles.terms a.angles.xlabels,
        dihedrals := normTable (torsionTerms a) a.dihedrals.xlabels,
        cell := (match a.cell with
          | none => none
          | some c => lenv.cellOf ((env.cellpar c).toList.map stripSu)),
        typeElems := dedup (elementsOf a),
        tys := (elementsOf a).map (fun e => (indexOf? (dedup (elementsOf a)) e).getD 0),
        masses := (dedup (elementsOf a)).map (fun e => (lenv.massOf e).getD 0) } := by
    intro n hn'
    subst hn'
    have hcellv : readCell lenv b = some (match a.cell with
          | none => none
          | some c => lenv.cellOf ((env.cellpar c).toList.map stripSu)) := by
      rw [S.cell lenv]
      cases hc : a.cell with
      | none => rfl
      | some c =>
        obtain ⟨c', hc'⟩ := Option.isSome_iff_exists.mp (hcell c hc)
        simp [hc']
    unfold loadParts
    simp only [k0, k1, khas chargeTag (by simp), k5, hcharge, klt, filter_handled c1 c2 c3 _ hfixh hxl, kx,
      List.length_map, hrows, S.bonds hl, S.angles hl, S.torsions hl, hcellv, types_by_first_occurrence, hmasses,
      Option.bind_eq_bind, Option.bind_some, if_true, Option.pure_def]
  have hbody : loadBody lenv b = some (normCif env lenv a useFract) := by
    unfold loadBody
    simp only [hcoords, List.length_map, hparts a.atoms.length rfl]
    unfold assemble
    have hcond : ¬ (a.atoms.length = 0 ∨ (elementsOf a).length ≠ a.atoms.length ∨ a.atoms.length ≠ a.atoms.length
        ∨ a.atoms.length ≠ a.atoms.length) := by
      simp [elementsOf, hn]
    simp only [List.length_map, hcond, if_false, Option.some.injEq]
    rcases hcases with ⟨c, huf, hc, hctags, hco⟩ | ⟨hno, hctags, hco⟩
    · -- fractional output
      have hfr' : fr = true := by
        rcases hfr with ⟨_, h⟩ | ⟨h, _⟩
        · exact h
        · rw [hctags] at h; exact absurd h (by decide)
      obtain ⟨c', hc'⟩ := Option.isSome_iff_exists.mp (hcell c hc)
      subst huf hfr' hco
      simp only [normCif, hc, hc', elementsOf, torsionTerms, placePositions, List.zip_map', List.map_map, Function.comp_def, fix4v]
    · -- Cartesian output
      have hfr' : fr = false := by
        rcases hfr with ⟨h, _⟩ | ⟨_, h⟩
        · rw [hctags] at h; exact absurd h (by decide)
        · exact h
      subst hfr' hco
      cases hc : a.cell with
      | none =>
        cases useFract <;>
        simp only [normCif, hc, elementsOf, torsionTerms, placePositions, List.zip_map', List.map_map, Function.comp_def, fix4v]
      | some c =>
        have huf : useFract = false := by
          rcases hno with h | h
          · exact h
          · rw [hc] at h; cases h
        subst huf
        simp only [normCif, hc, elementsOf, torsionTerms, placePositions, List.zip_map', List.map_map, Function.comp_def, fix4v]
  rw [hbody]

/-! ## the Cartesian branch -/

theorem coordChoice_cartn (b : Block) (hall : b.hasAll (cartnTags ++ [labelTag]) = true) :
    coordChoice b = some (false, cartnTags) := by
  simp [coordChoice, hall]

theorem rowsOf_length (n : Nat) (cols : List (List String)) (rows : List (List String)) (h : rowsOf n cols = some rows) :
    rows.length = n := by
  unfold rowsOf at h
  split at h
  · cases h; simp
  · cases h

theorem allSome_length {α} (l : List (Option α)) (r : List α) (h : allSome l = some r) : r.length = l.length := by
  induction l generalizing r with
  | nil => simp [allSome] at h; subst h; rfl
  | cons x xs ih =>
    cases x with
    | none => simp [allSome] at h
    | some y =>
      simp only [allSome] at h
      cases hr : allSome xs with
      | none => simp [hr] at h
      | some r' =>
        simp only [hr, Option.map_some, Option.some.injEq] at h
        subst h
        simp [ih r' hr]

theorem map_pos_zip4 (tys : List Nat) (pos : List Vec3) (qs : List Rat) (xs : List (List String)) (n : Nat)
    (h1 : tys.length = n) (h2 : pos.length = n) (h3 : qs.length = n) (h4 : xs.length = n) :
    ((tys.zip (pos.zip (qs.zip xs))).map (fun (t, p, q, x) =>
        ({ ty := t, pos := p, charge := q, group := 0, extra := x } : AtomRow))).map (·.pos) = pos := by
  rw [List.map_map]
  have : ((fun r : AtomRow => r.pos) ∘ fun (x : Nat × Vec3 × Rat × List String) =>
      ({ ty := x.1, pos := x.2.1, charge := x.2.2.1, group := 0, extra := x.2.2.2 } : AtomRow))
      = (fun x => x.2.1) := rfl
  rw [this]
  have e1 : (tys.zip (pos.zip (qs.zip xs))).map (fun x => x.2.1) = ((tys.zip (pos.zip (qs.zip xs))).map Prod.snd).map Prod.fst := by
    simp [List.map_map, Function.comp_def]
  rw [e1, List.map_snd_zip (by simp; omega), List.map_fst_zip (by simp; omega)]

theorem readCoords_cartn (b : Block) (hall : b.hasAll (cartnTags ++ [labelTag]) = true) (fr : Bool) (raw : List Vec3)
    (h : readCoords b = some (fr, raw)) : fr = false := by
  unfold readCoords at h
  simp only [coordChoice_cartn b hall, Option.bind_eq_bind, Option.bind_some] at h
  cases hc : allSome (cartnTags.map b.col?) with
  | none => simp [hc] at h
  | some cols =>
    simp only [hc, Option.bind_some] at h
    split at h
    · rename_i xs ys zs
      cases hx : allSome (xs.map tofloat) with
      | none => simp [hx] at h
      | some x =>
        cases hy : allSome (ys.map tofloat) with
        | none => simp [hx, hy] at h
        | some y =>
          cases hz : allSome (zs.map tofloat) with
          | none => simp [hx, hy, hz] at h
          | some z =>
            cases hp : zip3 x y z with
            | none => simp [hx, hy, hz, hp] at h
            | some p =>
              simp [hx, hy, hz, hp] at h
              exact h.1
    · cases h

/-- Cartesian tags take precedence: when all of them are present the reader uses them, and the positions of the
    result are the numbers read, neither wrapped nor multiplied by the cell -/
theorem cartn_branch_aux (lenv : LoadEnv) (b : Block) (r : Atoms)
    (hall : b.hasAll (cartnTags ++ [labelTag]) = true) (h : loadCif lenv b = .ok r) :
    coordChoice b = some (false, cartnTags) ∧ ∃ raw, readCoords b = some (false, raw) ∧ r.atoms.map (·.pos) = raw := by
  refine ⟨coordChoice_cartn b hall, ?_⟩
  unfold loadCif at h
  split at h
  · cases h
  · cases hb : loadBody lenv b with
    | none => simp [hb] at h
    | some r' =>
      simp only [hb, Except.ok.injEq] at h
      subst h
      unfold loadBody at hb
      cases hrc : readCoords b with
      | none => simp [hrc] at hb
      | some p =>
        obtain ⟨fr, raw⟩ := p
        have hfr : fr = false := readCoords_cartn b hall fr raw hrc
        subst hfr
        refine ⟨raw, rfl, ?_⟩
        simp only [hrc] at hb
        cases hp : loadParts lenv b raw.length with
        | none => simp [hp] at hb
        | some parts =>
          simp only [hp] at hb
          unfold assemble at hb
          split at hb
          · cases hb
          · rename_i hn
            simp only [not_or, not_not, ne_eq] at hn
            simp only [Option.some.injEq] at hb
            subst hb
            simp only [placePositions]
            exact map_pos_zip4 _ _ _ _ raw.length hn.2.1 rfl hn.2.2.1 hn.2.2.2

/-! ## the charges: read through `tofloat` like the coordinates (s.u. stripped) -/

/-- a number followed by one `(digits)` group reads as the number -/
theorem tofloat_su (pre d : List Char) (hp : '(' ∉ pre) (hne : d ≠ []) (hd : ∀ c ∈ d, c.isDigit = true) :
    tofloat (String.ofList (pre ++ '(' :: (d ++ [')']))) = parseFloatL pre := by
  simp only [tofloat, String.toList_ofList]
  have := stripSuL_group pre d [] hp hne hd
  rw [this]
  simp [stripSuL, stripGo]

theorem map_charge_zip4 (tys : List Nat) (pos : List Vec3) (qs : List Rat) (xs : List (List String)) (n : Nat)
    (h1 : tys.length = n) (h2 : pos.length = n) (h3 : qs.length = n) (h4 : xs.length = n) :
    ((tys.zip (pos.zip (qs.zip xs))).map (fun (t, p, q, x) =>
        ({ ty := t, pos := p, charge := q, group := 0, extra := x } : AtomRow))).map (·.charge) = qs := by
  rw [List.map_map]
  have : ((fun r : AtomRow => r.charge) ∘ fun (x : Nat × Vec3 × Rat × List String) =>
      ({ ty := x.1, pos := x.2.1, charge := x.2.2.1, group := 0, extra := x.2.2.2 } : AtomRow))
      = (fun x => x.2.2.1) := rfl
  rw [this]
  have e1 : (tys.zip (pos.zip (qs.zip xs))).map (fun x => x.2.2.1)
      = (((tys.zip (pos.zip (qs.zip xs))).map Prod.snd).map Prod.snd).map Prod.fst := by
    simp [List.map_map, Function.comp_def]
  rw [e1, List.map_snd_zip (by simp; omega), List.map_snd_zip (by simp; omega), List.map_fst_zip (by omega)]

/-- what `loadParts` took as charges when the charge column is present -/
theorem loadParts_charges (lenv : LoadEnv) (b : Block) (n : Nat) (p : Parts) (hhas : b.has chargeTag = true)
    (hp : loadParts lenv b n = some p) :
    ∃ cs, b.col? chargeTag = some cs ∧ allSome (cs.map tofloat) = some p.charges := by
  unfold loadParts at hp
  simp only [hhas, if_true, Option.bind_eq_bind] at hp
  obtain ⟨names, _, hp⟩ := Option.bind_eq_some_iff.mp hp
  obtain ⟨els, _, hp⟩ := Option.bind_eq_some_iff.mp hp
  obtain ⟨charges, hq, hp⟩ := Option.bind_eq_some_iff.mp hp
  obtain ⟨cs, hcs, hq⟩ := Option.bind_eq_some_iff.mp hq
  obtain ⟨ltags, _, hp⟩ := Option.bind_eq_some_iff.mp hp
  obtain ⟨xcols, _, hp⟩ := Option.bind_eq_some_iff.mp hp
  obtain ⟨xrows, _, hp⟩ := Option.bind_eq_some_iff.mp hp
  obtain ⟨bonds, _, hp⟩ := Option.bind_eq_some_iff.mp hp
  obtain ⟨angles, _, hp⟩ := Option.bind_eq_some_iff.mp hp
  obtain ⟨dih, _, hp⟩ := Option.bind_eq_some_iff.mp hp
  obtain ⟨cell, _, hp⟩ := Option.bind_eq_some_iff.mp hp
  obtain ⟨tys, _, hp⟩ := Option.bind_eq_some_iff.mp hp
  obtain ⟨masses, _, hp⟩ := Option.bind_eq_some_iff.mp hp
  simp only [Option.pure_def, Option.some.injEq] at hp
  subst hp
  exact ⟨cs, hcs, hq⟩

/-- the charges of the structure read are the numbers of the charge column with every `(digits)` group removed -/
theorem charge_su_aux (lenv : LoadEnv) (b : Block) (r : Atoms)
    (hhas : b.has chargeTag = true) (h : loadCif lenv b = .ok r) :
    ∃ cs, b.col? chargeTag = some cs ∧ allSome (cs.map tofloat) = some (r.atoms.map (·.charge)) := by
  unfold loadCif at h
  split at h
  · cases h
  · cases hb : loadBody lenv b with
    | none => simp [hb] at h
    | some r' =>
      simp only [hb, Except.ok.injEq] at h
      subst h
      unfold loadBody at hb
      cases hrc : readCoords b with
      | none => simp [hrc] at hb
      | some pr =>
        obtain ⟨fr, raw⟩ := pr
        simp only [hrc] at hb
        cases hp : loadParts lenv b raw.length with
        | none => simp [hp] at hb
        | some parts =>
          simp only [hp] at hb
          obtain ⟨cs, hcs, hq⟩ := loadParts_charges lenv b raw.length parts hhas hp
          refine ⟨cs, hcs, ?_⟩
          unfold assemble at hb
          split at hb
          · cases hb
          · rename_i hn
            simp only [not_or, not_not, ne_eq] at hn
            simp only [Option.some.injEq] at hb
            subst hb
            rw [hq]
            congr 1
            exact (map_charge_zip4 _ _ _ _ raw.length hn.2.1 (by
              cases fr <;> cases parts.cell <;> simp [placePositions]) hn.2.2.1 hn.2.2.2).symm

end Mofun.Cif
