/-
  FindCompleteTri.lean — the TRICLINIC near window (C02): the three plane-distance tests of
  `_get_positions_from_all_adjacent_unit_cells` (model: `nearTri`) never drop an atom that is within the search
  length `D = √m + 2·atol` of a home-cell atom, and such an atom is one of the 27 images.

  Geometry: for the plane pair with normal `nv` (= A×B, A×C or B×C) and opposite cell vector `o`, put `W = o·nv`
  (= ± the cell volume).  For a point `x` with fractional coordinate `f ∈ [0,1)` along `o`, `nv·x = f·W`.  For
  `y = x + d`:  `s = −sgn(W)·(nv·y) = −f·|W| − sgn(W)·(nv·d) ≤ |nv·d|` and `−s − |W| = (f−1)|W| + … < |nv·d|`, and
  `|nv·d| ≤ ‖nv‖·‖d‖ ≤ ‖nv‖·D = √(m·‖nv‖²) + √(4·atol²·‖nv‖²)` (Cauchy–Schwarz), which is the model's
  `leSqrtAdd`.  Only `plane_facts` uses real square roots.
-/
import MofunModel.Proofs.FindCompleteMain
import MofunModel.Proofs.OccRigid

namespace Mofun

/-! ### real-number facts -/

/-- the distance bound behind `real_comp_bound`: `√d ≤ √m + 2·atol` -/
theorem real_dist_bound (p d atol m : ℝ) (hp : 0 ≤ p) (hd : 0 ≤ d) (hpm : p ≤ m) (hat : 0 ≤ atol)
    (hguard : m ≤ atol * atol * 1000000000000000000)
    (h : (p + d - atol * atol ≤ 0 ∨ (p + d - atol * atol) * (p + d - atol * atol) ≤ 4 * p * d) ∨
         (p + d - max p d / 1000000000000000000 ≤ 0 ∨
          (p + d - max p d / 1000000000000000000) * (p + d - max p d / 1000000000000000000) ≤ 4 * p * d)) :
    Real.sqrt d ≤ Real.sqrt m + 2 * atol := by
  have hP := Real.sqrt_nonneg p
  have hD := Real.sqrt_nonneg d
  have hPM : Real.sqrt p ≤ Real.sqrt m := Real.sqrt_le_sqrt hpm
  rcases h with h | h
  · have := real_sqrt_diff p d (atol * atol) hp hd (mul_self_nonneg atol) h
    rw [Real.sqrt_mul_self hat] at this
    linarith
  · have hmx : 0 ≤ max p d / 1000000000000000000 := by positivity
    have := real_sqrt_diff p d (max p d / 1000000000000000000) hp hd hmx h
    have e : Real.sqrt (max p d / 1000000000000000000) = Real.sqrt (max p d) / 1000000000 := by
      rw [Real.sqrt_div' _ (by norm_num)]
      congr 1
      have : (1000000000000000000 : ℝ) = 1000000000 * 1000000000 := by norm_num
      rw [this, Real.sqrt_mul_self (by norm_num)]
    rw [e] at this
    have hMK : Real.sqrt m ≤ atol * 1000000000 := by
      have h2 : m ≤ (atol * 1000000000) * (atol * 1000000000) := by nlinarith
      calc Real.sqrt m ≤ Real.sqrt ((atol * 1000000000) * (atol * 1000000000)) := Real.sqrt_le_sqrt h2
        _ = atol * 1000000000 := Real.sqrt_mul_self (by positivity)
    rcases le_total p d with hpd | hpd
    · rw [max_eq_right hpd] at this
      linarith
    · rw [max_eq_left hpd] at this
      have : Real.sqrt d ≤ Real.sqrt p := Real.sqrt_le_sqrt hpd
      linarith

/-- `|δ| ≤ ‖nv‖·D` written with the two radicals of the model -/
theorem real_plane_bound (δ nn dd m atol : ℝ) (hnn : 0 ≤ nn) (_hdd : 0 ≤ dd) (hm : 0 ≤ m) (hat : 0 ≤ atol)
    (hcs : δ * δ ≤ nn * dd) (hD : Real.sqrt dd ≤ Real.sqrt m + 2 * atol) :
    |δ| ≤ Real.sqrt (m * nn) + Real.sqrt (4 * atol * atol * nn) := by
  have h1 : |δ| ≤ Real.sqrt (nn * dd) := Real.abs_le_sqrt (by nlinarith)
  have h2 : Real.sqrt (nn * dd) = Real.sqrt nn * Real.sqrt dd := Real.sqrt_mul hnn dd
  have h3 : Real.sqrt (m * nn) = Real.sqrt m * Real.sqrt nn := Real.sqrt_mul hm nn
  have h4 : Real.sqrt (4 * atol * atol * nn) = 2 * atol * Real.sqrt nn := by
    have : 4 * atol * atol * nn = (2 * atol) * (2 * atol) * nn := by ring
    rw [this, Real.sqrt_mul (mul_self_nonneg _), Real.sqrt_mul_self (by positivity)]
  have hs := Real.sqrt_nonneg nn
  rw [h3, h4]
  calc |δ| ≤ Real.sqrt nn * Real.sqrt dd := by rw [← h2]; exact h1
    _ ≤ Real.sqrt nn * (Real.sqrt m + 2 * atol) := mul_le_mul_of_nonneg_left hD hs
    _ = Real.sqrt m * Real.sqrt nn + 2 * atol * Real.sqrt nn := by ring

/-- the encoding `leSqrtAdd` is implied by the inequality it encodes -/
theorem real_leSqrtAdd (u A B : ℝ) (hA : 0 ≤ A) (hB : 0 ≤ B) (h : u ≤ Real.sqrt A + Real.sqrt B) :
    u ≤ 0 ∨ u * u - A - B ≤ 0 ∨ (u * u - A - B) * (u * u - A - B) ≤ 4 * A * B := by
  by_cases hu : u ≤ 0
  · exact Or.inl hu
  · right
    have hu := not_le.mp hu
    by_cases hs : u * u - A - B ≤ 0
    · exact Or.inl hs
    · right
      have hs := not_le.mp hs
      have ha := Real.sqrt_nonneg A
      have hb := Real.sqrt_nonneg B
      have ea := Real.mul_self_sqrt hA
      have eb := Real.mul_self_sqrt hB
      have h1 : u * u ≤ (Real.sqrt A + Real.sqrt B) * (Real.sqrt A + Real.sqrt B) := by nlinarith
      have h2 : u * u - A - B ≤ 2 * (Real.sqrt A * Real.sqrt B) := by nlinarith
      have h3 : (u * u - A - B) * (u * u - A - B) ≤ (2 * (Real.sqrt A * Real.sqrt B)) * (2 * (Real.sqrt A * Real.sqrt B)) := by
        nlinarith
      have e : (2 * (Real.sqrt A * Real.sqrt B)) * (2 * (Real.sqrt A * Real.sqrt B)) = 4 * A * B := by
        calc _ = 4 * (Real.sqrt A * Real.sqrt A) * (Real.sqrt B * Real.sqrt B) := by ring
          _ = 4 * A * B := by rw [ea, eb]
      linarith

/-- `√A + √B ≤ c` from its square-root-free form -/
theorem real_sumSqrtLe (A B c : ℝ) (hA : 0 ≤ A) (hB : 0 ≤ B) (hc : 0 ≤ c) (h1 : A + B ≤ c * c)
    (h2 : 4 * A * B ≤ (c * c - A - B) * (c * c - A - B)) : Real.sqrt A + Real.sqrt B ≤ c := by
  have ha := Real.sqrt_nonneg A
  have hb := Real.sqrt_nonneg B
  have ea := Real.mul_self_sqrt hA
  have eb := Real.mul_self_sqrt hB
  have h3 : 2 * (Real.sqrt A * Real.sqrt B) ≤ c * c - A - B := by
    have hx : 0 ≤ 2 * (Real.sqrt A * Real.sqrt B) := by positivity
    have hy : 0 ≤ c * c - A - B := by linarith
    have : (2 * (Real.sqrt A * Real.sqrt B)) * (2 * (Real.sqrt A * Real.sqrt B)) ≤ (c * c - A - B) * (c * c - A - B) := by
      calc _ = 4 * (Real.sqrt A * Real.sqrt A) * (Real.sqrt B * Real.sqrt B) := by ring
        _ = 4 * A * B := by rw [ea, eb]
        _ ≤ _ := h2
    by_contra hcon
    have hcon := not_le.mp hcon
    nlinarith
  nlinarith

/-! ### the rational wrappers -/

/-- guard `√A + √B ≤ c` in square-root-free form (used for `‖nv‖·(√m + 2·atol) ≤ |cell volume|`, i.e. search length
    not longer than the perpendicular cell width) -/
def sumSqrtLe (A B c : Rat) : Bool :=
  decide (0 ≤ c) && decide (A + B ≤ c * c) && decide (4 * A * B ≤ (c * c - A - B) * (c * c - A - B))

theorem absRat_eq_abs (x : Rat) : absRat x = |x| := by
  unfold absRat
  by_cases h : x < 0
  · simp [h, abs_of_neg h]
  · simp [h, abs_of_nonneg (not_lt.mp h)]

theorem leSqrtAdd_iff (u A B : Rat) :
    leSqrtAdd u A B = true ↔ (u ≤ 0 ∨ u * u - A - B ≤ 0 ∨ (u * u - A - B) * (u * u - A - B) ≤ 4 * A * B) := by
  simp [leSqrtAdd, or_assoc]

/-- **plane_facts.** `δ = nv·(y − x)`, `nn = ‖nv‖²`, `dd = ‖y − x‖²` (so `δ² ≤ nn·dd`), the distance accepted by the
    code's test against `p ≤ m`.  Then every `u ≤ |δ|` passes the model's plane comparison, and (width guard)
    `|δ| ≤ |W|`. -/
theorem plane_facts (δ nn dd p m atol W : Rat) (hnn : 0 ≤ nn) (hdd : 0 ≤ dd) (hcs : δ * δ ≤ nn * dd)
    (h : iscloseSqrt p dd atol = true) (hp : 0 ≤ p) (hpm : p ≤ m) (hat : 0 ≤ atol)
    (hguard : m ≤ atol * atol * 1000000000000000000)
    (hwidth : sumSqrtLe (m * nn) (4 * atol * atol * nn) (absRat W) = true) :
    (∀ u : Rat, u ≤ absRat δ → leSqrtAdd u (m * nn) (4 * atol * atol * nn) = true) ∧ absRat δ ≤ absRat W := by
  have hm : 0 ≤ m := le_trans hp hpm
  have hA : (0 : ℝ) ≤ (m : ℝ) * (nn : ℝ) := mul_nonneg (by exact_mod_cast hm) (by exact_mod_cast hnn)
  have hB : (0 : ℝ) ≤ 4 * (atol : ℝ) * (atol : ℝ) * (nn : ℝ) := by
    have h1 : (0 : ℝ) ≤ (atol : ℝ) := by exact_mod_cast hat
    have h2 : (0 : ℝ) ≤ (nn : ℝ) := by exact_mod_cast hnn
    positivity
  have hD := real_dist_bound (p : ℝ) (dd : ℝ) (atol : ℝ) (m : ℝ) (by exact_mod_cast hp) (by exact_mod_cast hdd)
    (by exact_mod_cast hpm) (by exact_mod_cast hat) (by exact_mod_cast hguard)
    (by
      unfold iscloseSqrt at h
      simp only [Bool.or_eq_true, sqrtDiffLeSq_iff] at h
      rcases h with h | h
      · left; exact_mod_cast h
      · right
        have hmax : (if p > dd then p else dd) = max p dd := by
          by_cases hpd : p > dd
          · simp [hpd, max_eq_left (le_of_lt hpd)]
          · simp [hpd, max_eq_right (not_lt.mp hpd)]
        rw [hmax] at h
        exact_mod_cast h)
  have hbound := real_plane_bound (δ : ℝ) (nn : ℝ) (dd : ℝ) (m : ℝ) (atol : ℝ) (by exact_mod_cast hnn)
    (by exact_mod_cast hdd) (by exact_mod_cast hm) (by exact_mod_cast hat) (by exact_mod_cast hcs) hD
  have habs : ((absRat δ : Rat) : ℝ) = |(δ : ℝ)| := by rw [absRat_eq_abs]; push_cast; rfl
  constructor
  · intro u hu
    rw [leSqrtAdd_iff]
    have hu' : (u : ℝ) ≤ Real.sqrt ((m : ℝ) * (nn : ℝ)) + Real.sqrt (4 * (atol : ℝ) * (atol : ℝ) * (nn : ℝ)) := by
      have : (u : ℝ) ≤ ((absRat δ : Rat) : ℝ) := by exact_mod_cast hu
      rw [habs] at this
      linarith
    have := real_leSqrtAdd (u : ℝ) _ _ hA hB hu'
    exact_mod_cast this
  · unfold sumSqrtLe at hwidth
    simp only [Bool.and_eq_true, decide_eq_true_eq] at hwidth
    obtain ⟨⟨w1, w2⟩, w3⟩ := hwidth
    have := real_sumSqrtLe ((m : ℝ) * (nn : ℝ)) (4 * (atol : ℝ) * (atol : ℝ) * (nn : ℝ)) ((absRat W : Rat) : ℝ) hA hB
      (by exact_mod_cast w1) (by exact_mod_cast w2) (by exact_mod_cast w3)
    have h2 : ((absRat δ : Rat) : ℝ) ≤ ((absRat W : Rat) : ℝ) := by rw [habs]; linarith
    exact_mod_cast h2

/-! ### one pair of planes -/

theorem sgn_sq (x : Rat) : sgn x * sgn x = 1 := by
  unfold sgn; by_cases h : x < 0 <;> simp [h]

theorem sgn_mul_self (x : Rat) : sgn x * x = absRat x := by
  unfold sgn absRat; by_cases h : x < 0 <;> simp [h]

theorem sgn_half (x : Rat) : sgn (x / 2) = sgn x := by
  unfold sgn
  by_cases h : x < 0
  · have : x / 2 < 0 := by linarith
    simp [h, this]
  · have : ¬ x / 2 < 0 := by
      intro h'; apply h; linarith
    simp [h, this]

theorem sgn_mul_le_abs (w t : Rat) : sgn w * t ≤ absRat t ∧ -(sgn w * t) ≤ absRat t := by
  rw [absRat_eq_abs]
  unfold sgn
  by_cases h : w < 0
  · simp only [h, if_true]
    constructor
    · have := neg_abs_le t; linarith
    · have := le_abs_self t; linarith
  · simp only [h, if_false]
    constructor
    · have := le_abs_self t; linarith
    · have := neg_abs_le t; linarith

/-- a point `x` with fractional coordinate in `[0,1)` along the direction belonging to the normal `nv` -/
def insidePlanes (nv : Vec3) (W : Rat) (x : Vec3) : Prop :=
  0 ≤ sgn W * Vec3.dot nv x ∧ sgn W * Vec3.dot nv x < absRat W

/-- the model's two comparisons for one pair of planes hold for `y` when `x` is inside and every `u ≤ |nv·y − nv·x|`
    passes the comparison -/
theorem tri_plane_ok (nv centre x y : Vec3) (W A B : Rat) (hc : Vec3.dot nv centre = W / 2)
    (hin : insidePlanes nv W x)
    (hb : ∀ u : Rat, u ≤ absRat (Vec3.dot nv y - Vec3.dot nv x) → leSqrtAdd u A B = true) :
    (leSqrtAdd (-(sgn (Vec3.dot nv centre)) * Vec3.dot nv y) A B &&
     leSqrtAdd (-(-(sgn (Vec3.dot nv centre)) * Vec3.dot nv y) - absRat W) A B) = true := by
  rw [hc, sgn_half]
  have hδ := sgn_mul_le_abs W (Vec3.dot nv y - Vec3.dot nv x)
  obtain ⟨h1, h2⟩ := hin
  simp only [Bool.and_eq_true]
  constructor
  · apply hb
    have e : -(sgn W) * Vec3.dot nv y = -(sgn W * Vec3.dot nv x) + -(sgn W * (Vec3.dot nv y - Vec3.dot nv x)) := by ring
    rw [e]; linarith
  · apply hb
    have e : -(-(sgn W) * Vec3.dot nv y) - absRat W
        = (sgn W * Vec3.dot nv x - absRat W) + sgn W * (Vec3.dot nv y - Vec3.dot nv x) := by ring
    rw [e]; linarith

/-- image multiplier along one direction -/
theorem tri_mult_bound (W nvx nvp nvy : Rat) (n : Int) (hW : W ≠ 0) (hy : nvy = nvp + (n : Rat) * W)
    (hx : 0 ≤ sgn W * nvx ∧ sgn W * nvx < absRat W) (hp : 0 ≤ sgn W * nvp ∧ sgn W * nvp < absRat W)
    (hδ : absRat (nvy - nvx) ≤ absRat W) : -1 ≤ n ∧ n ≤ 1 := by
  have hpos : 0 < absRat W := by
    rw [absRat_eq_abs]; exact abs_pos.mpr hW
  have hs := sgn_mul_le_abs W (nvy - nvx)
  have e : sgn W * nvy = sgn W * nvp + (n : Rat) * absRat W := by
    rw [hy, ← sgn_mul_self W]; ring
  have e2 : sgn W * (nvy - nvx) = sgn W * nvy - sgn W * nvx := by ring
  have hn1 : (n : Rat) * absRat W < 2 * absRat W := by linarith [hs.1, hx.1, hx.2, hp.1, hp.2]
  have hn2 : -2 * absRat W < (n : Rat) * absRat W := by linarith [hs.2, hx.1, hx.2, hp.1, hp.2]
  have hlt : (n : Rat) < 2 := by
    by_contra hc
    have hc := not_lt.mp hc
    nlinarith
  have hgt : (-2 : Rat) < (n : Rat) := by
    by_contra hc
    have hc := not_lt.mp hc
    nlinarith
  have hlt' : n < 2 := by exact_mod_cast hlt
  have hgt' : -2 < n := by exact_mod_cast hgt
  omega

theorem cs_plane (nv x y : Vec3) :
    (Vec3.dot nv y - Vec3.dot nv x) * (Vec3.dot nv y - Vec3.dot nv x) ≤ Vec3.normSq nv * distSq x y := by
  have := cauchy_schwarz3 nv (Vec3.sub x y)
  have e : Vec3.dot nv y - Vec3.dot nv x = -(Vec3.dot nv (Vec3.sub x y)) := by
    unfold Vec3.dot Vec3.sub; simp only; ring
  rw [e]
  unfold distSq
  nlinarith

/-! ### guards and the triclinic window theorem -/

def insideB (nv : Vec3) (W : Rat) (x : Vec3) : Bool :=
  decide (0 ≤ sgn W * Vec3.dot nv x) && decide (sgn W * Vec3.dot nv x < absRat W)

theorem insideB_spec (nv : Vec3) (W : Rat) (x : Vec3) (h : insideB nv W x = true) : insidePlanes nv W x := by
  unfold insideB at h
  simp only [Bool.and_eq_true, decide_eq_true_eq] at h
  exact h

/-- width guard for the pair of planes with normal `nv`: `‖nv‖·(√m + 2·atol) ≤ |W|` -/
def widthB (inp : FindInput) (nv : Vec3) (W : Rat) : Bool :=
  sumSqrtLe (patMax inp * Vec3.normSq nv) (4 * inp.atol * inp.atol * Vec3.normSq nv) (absRat W)

/-- explicit (decidable) guards of the triclinic completeness theorem: non-orthorhombic cell of non-zero volume,
    `atol ≥ 0`, every atom has fractional coordinates in `[0,1)`, search length not longer than any perpendicular
    cell width, `√m ≤ 10⁹·atol`, non-empty pattern -/
def triGuards (inp : FindInput) : Bool :=
  let c := inp.cell
  !c.isOrtho && decide (0 ≤ inp.atol) && decide (c.det ≠ 0) &&
  inp.pos.all (fun p => insideB (Vec3.cross c.a c.b) (Vec3.dot c.c (Vec3.cross c.a c.b)) p &&
                        insideB (Vec3.cross c.a c.c) (Vec3.dot c.b (Vec3.cross c.a c.c)) p &&
                        insideB (Vec3.cross c.b c.c) (Vec3.dot c.a (Vec3.cross c.b c.c)) p) &&
  widthB inp (Vec3.cross c.a c.b) (Vec3.dot c.c (Vec3.cross c.a c.b)) &&
  widthB inp (Vec3.cross c.a c.c) (Vec3.dot c.b (Vec3.cross c.a c.c)) &&
  widthB inp (Vec3.cross c.b c.c) (Vec3.dot c.a (Vec3.cross c.b c.c)) &&
  decide (patMax inp ≤ inp.atol * inp.atol * 1000000000000000000) && decide (0 < inp.ppos.length)

structure TriGuards (inp : FindInput) : Prop where
  nonortho : inp.cell.isOrtho = false
  atol_nonneg : 0 ≤ inp.atol
  vol : inp.cell.det ≠ 0
  inside : ∀ p ∈ inp.pos,
    insidePlanes (Vec3.cross inp.cell.a inp.cell.b) (Vec3.dot inp.cell.c (Vec3.cross inp.cell.a inp.cell.b)) p ∧
    insidePlanes (Vec3.cross inp.cell.a inp.cell.c) (Vec3.dot inp.cell.b (Vec3.cross inp.cell.a inp.cell.c)) p ∧
    insidePlanes (Vec3.cross inp.cell.b inp.cell.c) (Vec3.dot inp.cell.a (Vec3.cross inp.cell.b inp.cell.c)) p
  w0 : widthB inp (Vec3.cross inp.cell.a inp.cell.b) (Vec3.dot inp.cell.c (Vec3.cross inp.cell.a inp.cell.b)) = true
  w1 : widthB inp (Vec3.cross inp.cell.a inp.cell.c) (Vec3.dot inp.cell.b (Vec3.cross inp.cell.a inp.cell.c)) = true
  w2 : widthB inp (Vec3.cross inp.cell.b inp.cell.c) (Vec3.dot inp.cell.a (Vec3.cross inp.cell.b inp.cell.c)) = true
  rel : patMax inp ≤ inp.atol * inp.atol * 1000000000000000000
  pat : 0 < inp.ppos.length

theorem triGuards_spec (inp : FindInput) (h : triGuards inp = true) : TriGuards inp := by
  unfold triGuards at h
  simp only [Bool.and_eq_true, decide_eq_true_eq, List.all_eq_true, Bool.not_eq_true'] at h
  obtain ⟨⟨⟨⟨⟨⟨⟨⟨h1, h2⟩, h3⟩, h4⟩, h5⟩, h6⟩, h7⟩, h8⟩, h9⟩ := h
  exact { nonortho := h1, atol_nonneg := h2, vol := h3,
          inside := fun p hp => by
            obtain ⟨⟨a, b⟩, c⟩ := h4 p hp
            exact ⟨insideB_spec _ _ _ a, insideB_spec _ _ _ b, insideB_spec _ _ _ c⟩,
          w0 := h5, w1 := h6, w2 := h7, rel := h8, pat := h9 }

theorem normSq_nonneg' (u : Vec3) : 0 ≤ Vec3.normSq u := normSq_nonneg u

/-- **near_window_complete (triclinic branch).** -/
theorem window_complete_tri (inp : FindInput) (hG : TriGuards inp) (x : Vec3)
    (hx : insidePlanes (Vec3.cross inp.cell.a inp.cell.b) (Vec3.dot inp.cell.c (Vec3.cross inp.cell.a inp.cell.b)) x ∧
          insidePlanes (Vec3.cross inp.cell.a inp.cell.c) (Vec3.dot inp.cell.b (Vec3.cross inp.cell.a inp.cell.c)) x ∧
          insidePlanes (Vec3.cross inp.cell.b inp.cell.c) (Vec3.dot inp.cell.a (Vec3.cross inp.cell.b inp.cell.c)) x)
    (g : Nat) (hg : g < inp.pos.length) (n : Int × Int × Int) (p : Rat) (hp : 0 ≤ p) (hpm : p ≤ patMax inp)
    (h : iscloseSqrt p (distSq x (imagePos inp g n)) inp.atol = true) :
    n ∈ searchMultipliers ∧
    nearTri inp.cell (patMax inp) inp.atol (imagePos inp g n) = true ∧
    inCube x (imagePos inp g n) (patMax inp) inp.atol = true := by
  have hcube : inCube x (imagePos inp g n) (patMax inp) inp.atol = true :=
    inCube_of_isclose _ _ _ _ _ h hp hpm hG.atol_nonneg hG.rel
  have hdd := distSq_nonneg' x (imagePos inp g n)
  have hink := hG.inside (inp.pos.getD g Vec3.zero) (getD_mem_of_lt _ _ _ hg)
  -- the three planes
  have f0 := plane_facts _ _ _ p (patMax inp) inp.atol (Vec3.dot inp.cell.c (Vec3.cross inp.cell.a inp.cell.b))
    (normSq_nonneg' (Vec3.cross inp.cell.a inp.cell.b)) hdd (cs_plane _ x (imagePos inp g n)) h hp hpm
    hG.atol_nonneg hG.rel hG.w0
  have f1 := plane_facts _ _ _ p (patMax inp) inp.atol (Vec3.dot inp.cell.b (Vec3.cross inp.cell.a inp.cell.c))
    (normSq_nonneg' (Vec3.cross inp.cell.a inp.cell.c)) hdd (cs_plane _ x (imagePos inp g n)) h hp hpm
    hG.atol_nonneg hG.rel hG.w1
  have f2 := plane_facts _ _ _ p (patMax inp) inp.atol (Vec3.dot inp.cell.a (Vec3.cross inp.cell.b inp.cell.c))
    (normSq_nonneg' (Vec3.cross inp.cell.b inp.cell.c)) hdd (cs_plane _ x (imagePos inp g n)) h hp hpm
    hG.atol_nonneg hG.rel hG.w2
  -- volumes
  have hW0 : Vec3.dot inp.cell.c (Vec3.cross inp.cell.a inp.cell.b) ≠ 0 := by
    have e : Vec3.dot inp.cell.c (Vec3.cross inp.cell.a inp.cell.b) = inp.cell.det := by
      unfold Mat3.det Vec3.dot Vec3.cross; simp only; ring
    rw [e]; exact hG.vol
  have hW1 : Vec3.dot inp.cell.b (Vec3.cross inp.cell.a inp.cell.c) ≠ 0 := by
    have e : Vec3.dot inp.cell.b (Vec3.cross inp.cell.a inp.cell.c) = -inp.cell.det := by
      unfold Mat3.det Vec3.dot Vec3.cross; simp only; ring
    rw [e]; exact neg_ne_zero.mpr hG.vol
  have hW2 : Vec3.dot inp.cell.a (Vec3.cross inp.cell.b inp.cell.c) ≠ 0 := by
    have e : Vec3.dot inp.cell.a (Vec3.cross inp.cell.b inp.cell.c) = inp.cell.det := by
      unfold Mat3.det Vec3.dot Vec3.cross; simp only; ring
    rw [e]; exact hG.vol
  refine ⟨?_, ?_, hcube⟩
  · -- the image multipliers
    have y0 : Vec3.dot (Vec3.cross inp.cell.a inp.cell.b) (imagePos inp g n)
        = Vec3.dot (Vec3.cross inp.cell.a inp.cell.b) (inp.pos.getD g Vec3.zero)
          + (n.2.2 : Rat) * Vec3.dot inp.cell.c (Vec3.cross inp.cell.a inp.cell.b) := by
      unfold imagePos Mat3.lattice Vec3.add Vec3.smul Vec3.dot Vec3.cross; simp only; ring
    have y1 : Vec3.dot (Vec3.cross inp.cell.a inp.cell.c) (imagePos inp g n)
        = Vec3.dot (Vec3.cross inp.cell.a inp.cell.c) (inp.pos.getD g Vec3.zero)
          + (n.2.1 : Rat) * Vec3.dot inp.cell.b (Vec3.cross inp.cell.a inp.cell.c) := by
      unfold imagePos Mat3.lattice Vec3.add Vec3.smul Vec3.dot Vec3.cross; simp only; ring
    have y2 : Vec3.dot (Vec3.cross inp.cell.b inp.cell.c) (imagePos inp g n)
        = Vec3.dot (Vec3.cross inp.cell.b inp.cell.c) (inp.pos.getD g Vec3.zero)
          + (n.1 : Rat) * Vec3.dot inp.cell.a (Vec3.cross inp.cell.b inp.cell.c) := by
      unfold imagePos Mat3.lattice Vec3.add Vec3.smul Vec3.dot Vec3.cross; simp only; ring
    have b0 := tri_mult_bound _ _ _ _ n.2.2 hW0 y0 hx.1 hink.1 f0.2
    have b1 := tri_mult_bound _ _ _ _ n.2.1 hW1 y1 hx.2.1 hink.2.1 f1.2
    have b2 := tri_mult_bound _ _ _ _ n.1 hW2 y2 hx.2.2 hink.2.2 f2.2
    exact mem_searchMultipliers _ _ _ b2 b1 b0
  · -- the three plane tests
    have c0 : Vec3.dot (Vec3.cross inp.cell.a inp.cell.b)
        (Vec3.smul (1 / 2) (Vec3.add (Vec3.add inp.cell.a inp.cell.b) inp.cell.c))
        = Vec3.dot inp.cell.c (Vec3.cross inp.cell.a inp.cell.b) / 2 := by
      unfold Vec3.smul Vec3.add Vec3.dot Vec3.cross; simp only; ring
    have c1 : Vec3.dot (Vec3.cross inp.cell.a inp.cell.c)
        (Vec3.smul (1 / 2) (Vec3.add (Vec3.add inp.cell.a inp.cell.b) inp.cell.c))
        = Vec3.dot inp.cell.b (Vec3.cross inp.cell.a inp.cell.c) / 2 := by
      unfold Vec3.smul Vec3.add Vec3.dot Vec3.cross; simp only; ring
    have c2 : Vec3.dot (Vec3.cross inp.cell.b inp.cell.c)
        (Vec3.smul (1 / 2) (Vec3.add (Vec3.add inp.cell.a inp.cell.b) inp.cell.c))
        = Vec3.dot inp.cell.a (Vec3.cross inp.cell.b inp.cell.c) / 2 := by
      unfold Vec3.smul Vec3.add Vec3.dot Vec3.cross; simp only; ring
    have t0 := tri_plane_ok _ _ x (imagePos inp g n) _ _ _ c0 hx.1 f0.1
    have t1 := tri_plane_ok _ _ x (imagePos inp g n) _ _ _ c1 hx.2.1 f1.1
    have t2 := tri_plane_ok _ _ x (imagePos inp g n) _ _ _ c2 hx.2.2 f2.1
    unfold nearTri
    simp only [List.zip_cons_cons, List.zip_nil_right, List.all_cons, List.all_nil, Bool.and_true]
    simp only [Bool.and_eq_true] at t0 t1 t2 ⊢
    exact ⟨⟨t0.1, t0.2⟩, ⟨t1.1, t1.2⟩, ⟨t2.1, t2.2⟩⟩

theorem distSq_self' (x : Vec3) : distSq x x = 0 := by
  unfold distSq Vec3.normSq Vec3.dot Vec3.sub; simp

theorem windowComplete_tri (inp : FindInput) (hG : TriGuards inp) : WindowComplete inp where
  pat := hG.pat
  win := fun g n hocc k hk => by
    have h0 : imagePos inp (g 0) (n 0) = inp.pos.getD (g 0) Vec3.zero := by rw [hocc.home]; exact imagePos_home inp (g 0)
    have hin0 := hG.inside (inp.pos.getD (g 0) Vec3.zero) (getD_mem_of_lt _ _ _ (hocc.idx_lt 0 hG.pat))
    have hnear : ∀ y, nearTri inp.cell (patMax inp) inp.atol y = true → nearTest inp.cell (patMax inp) inp.atol y = true := by
      intro y hy
      unfold nearTest
      rw [hG.nonortho]
      simpa using hy
    by_cases hk0 : k = 0
    · subst hk0
      have hz : iscloseSqrt 0 (distSq (imagePos inp (g 0) (n 0)) (imagePos inp (g 0) (n 0))) inp.atol = true := by
        rw [distSq_self']; exact iscloseSqrt_zero inp.atol
      have hpm0 : (0 : Rat) ≤ patMax inp := by
        have := patMax_ge inp 0 0 hG.pat hG.pat
        rw [distSq_self'] at this; exact this
      have hw := window_complete_tri inp hG (imagePos inp (g 0) (n 0)) (by rw [h0]; exact hin0) (g 0)
        (hocc.idx_lt 0 hk) (n 0) 0 (le_refl 0) hpm0 hz
      exact ⟨hw.1, hw.2.2, hnear _ hw.2.1⟩
    · have hw := window_complete_tri inp hG (imagePos inp (g 0) (n 0)) (by rw [h0]; exact hin0) (g k)
        (hocc.idx_lt k hk) (n k) _ (distSq_nonneg' _ _) (patMax_ge inp k 0 hk hG.pat) (hocc.dist k 0 (by omega) hk)
      exact ⟨hw.1, hw.2.2, hnear _ hw.2.1⟩

end Mofun
