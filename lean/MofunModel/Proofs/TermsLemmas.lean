/- helper lemmas for C19 (term enumeration and typing): de-duplication, first-occurrence index, the graph
   (`nodes`, `neighbours`, `graphEdges`), `pairs`, `typekey`, the drop loop -/
import MofunModel.Model.Terms

namespace Mofun.Terms

open Mofun

/-! ### dedup -/

theorem mem_dedup {α} [DecidableEq α] (l : List α) (x : α) : x ∈ dedup l ↔ x ∈ l := by
  induction l with
  | nil => simp [dedup]
  | cons y ys ih =>
    simp only [dedup, List.mem_cons, List.mem_filter, ih, decide_eq_true_eq]
    by_cases h : x = y <;> simp [h]

theorem nodup_dedup {α} [DecidableEq α] (l : List α) : (dedup l).Nodup := by
  induction l with
  | nil => simp [dedup]
  | cons y ys ih =>
    simp only [dedup, List.nodup_cons, List.mem_filter, decide_eq_true_eq]
    exact ⟨fun h => h.2 rfl, List.Pairwise.filter _ ih⟩

theorem dedup_filter {α} [DecidableEq α] (p : α → Bool) (l : List α) :
    dedup (l.filter p) = (dedup l).filter p := by
  induction l with
  | nil => simp [dedup]
  | cons y ys ih =>
    by_cases h : p y = true
    · simp only [List.filter_cons, h, if_true, dedup, ih]
      congr 1
      simp only [List.filter_filter]
      apply List.filter_congr; intro x _; exact Bool.and_comm _ _
    · simp only [List.filter_cons, h, dedup]
      simp only [Bool.false_eq_true, if_false, List.filter_filter]
      rw [ih]
      apply List.filter_congr; intro x _
      by_cases hx : x = y
      · subst hx; simp [h]
      · simp [hx]

theorem dedup_map_inj {α β} [DecidableEq α] [DecidableEq β] (f : α → β) (l : List α)
    (hf : ∀ a ∈ l, ∀ b ∈ l, f a = f b → a = b) : dedup (l.map f) = (dedup l).map f := by
  induction l with
  | nil => simp [dedup]
  | cons y ys ih =>
    have ih' := ih (fun a ha b hb => hf a (List.mem_cons_of_mem _ ha) b (List.mem_cons_of_mem _ hb))
    simp only [List.map_cons, dedup, ih', List.filter_map]
    congr 2
    apply List.filter_congr
    intro x hx
    have hxm : x ∈ ys := (mem_dedup ys x).mp hx
    simp only [Function.comp, decide_eq_decide]
    constructor
    · intro h e; exact h (by rw [e])
    · intro h e; exact h (hf x (List.mem_cons_of_mem _ hxm) y (List.mem_cons_self) e)

/-! ### first-occurrence index -/

theorem indexOf?_of_mem {α} [DecidableEq α] (l : List α) (x : α) (h : x ∈ l) :
    ∃ k, indexOf? l x = some k ∧ l[k]? = some x := by
  induction l with
  | nil => simp at h
  | cons y ys ih =>
    by_cases e : y = x
    · exact ⟨0, by simp [indexOf?, e], by simp [e]⟩
    · have hx : x ∈ ys := by
        rcases List.mem_cons.mp h with h | h
        · exact absurd h.symm e
        · exact h
      obtain ⟨k, hk, hg⟩ := ih hx
      exact ⟨k + 1, by simp [indexOf?, e, hk], by simpa using hg⟩

theorem typeIndex_get {α} [DecidableEq α] (l : List α) (x : α) (h : x ∈ l) :
    l[typeIndex l x]? = some x := by
  obtain ⟨k, hk, hg⟩ := indexOf?_of_mem l x h
  simp [typeIndex, hk, hg]

theorem typeIndex_lt {α} [DecidableEq α] (l : List α) (x : α) (h : x ∈ l) :
    typeIndex l x < l.length := by
  have := typeIndex_get l x h
  exact (List.getElem?_eq_some_iff.mp this).1

theorem typeIndex_inj {α} [DecidableEq α] (l : List α) (x y : α) (hx : x ∈ l) (hy : y ∈ l)
    (h : typeIndex l x = typeIndex l y) : x = y := by
  have h1 := typeIndex_get l x hx
  have h2 := typeIndex_get l y hy
  rw [h] at h1
  exact Option.some.inj (h1.symm.trans h2)

theorem indexOf?_getElem_nodup {α} [DecidableEq α] (l : List α) (hnd : l.Nodup) (k : Nat) (hk : k < l.length) :
    indexOf? l l[k] = some k := by
  induction l generalizing k with
  | nil => simp at hk
  | cons y ys ih =>
    cases k with
    | zero => simp [indexOf?]
    | succ k =>
      have hk' : k < ys.length := by simpa using hk
      have hne : y ≠ ys[k] := by
        intro e
        exact (List.nodup_cons.mp hnd).1 (e ▸ List.getElem_mem hk')
      simp [indexOf?, hne, ih (List.nodup_cons.mp hnd).2 k hk']

theorem typeIndex_getElem_nodup {α} [DecidableEq α] (l : List α) (hnd : l.Nodup) (k : Nat) (hk : k < l.length) :
    typeIndex l l[k] = k := by
  simp [typeIndex, indexOf?_getElem_nodup l hnd k hk]

/-! ### the graph -/

/-- `a` and `b` are joined by a listed bond (in either direction) -/
def Bonded (bonds : List (Nat × Nat)) (a b : Nat) : Prop := (a, b) ∈ bonds ∨ (b, a) ∈ bonds

theorem Bonded.symm {bonds : List (Nat × Nat)} {a b : Nat} (h : Bonded bonds a b) : Bonded bonds b a :=
  Or.symm h

theorem bonded_comm (bonds : List (Nat × Nat)) (a b : Nat) : Bonded bonds a b ↔ Bonded bonds b a :=
  ⟨Bonded.symm, Bonded.symm⟩

theorem mem_neighbours (bonds : List (Nat × Nat)) (n m : Nat) :
    m ∈ neighbours bonds n ↔ Bonded bonds n m := by
  unfold neighbours Bonded
  rw [mem_dedup, List.mem_filterMap]
  constructor
  · rintro ⟨⟨a, b⟩, he, ho⟩
    unfold otherEnd at ho
    simp only at ho
    split at ho
    · rename_i h1; cases ho; subst h1; exact Or.inl he
    · split at ho
      · rename_i h1 h2; cases ho; subst h2; exact Or.inr he
      · cases ho
  · rintro (h | h)
    · exact ⟨(n, m), h, by simp [otherEnd]⟩
    · refine ⟨(m, n), h, ?_⟩
      by_cases e : m = n
      · simp [otherEnd, e]
      · simp [otherEnd, e]

theorem nodup_neighbours (bonds : List (Nat × Nat)) (n : Nat) : (neighbours bonds n).Nodup :=
  nodup_dedup _

theorem mem_nodes (bonds : List (Nat × Nat)) (n : Nat) :
    n ∈ nodes bonds ↔ ∃ m, Bonded bonds n m := by
  unfold nodes Bonded
  rw [mem_dedup, List.mem_flatMap]
  constructor
  · rintro ⟨⟨a, b⟩, he, hm⟩
    simp only [List.mem_cons, List.not_mem_nil, or_false] at hm
    rcases hm with rfl | rfl
    · exact ⟨b, Or.inl he⟩
    · exact ⟨a, Or.inr he⟩
  · rintro ⟨m, h | h⟩
    · exact ⟨(n, m), h, by simp⟩
    · exact ⟨(m, n), h, by simp⟩

theorem nodup_nodes (bonds : List (Nat × Nat)) : (nodes bonds).Nodup := nodup_dedup _

/-! ### `pairs` = itertools.combinations(·, 2) -/

theorem mem_pairs_cons {α} (x : α) (xs : List α) (a b : α) :
    (a, b) ∈ pairs (x :: xs) ↔ (a = x ∧ b ∈ xs) ∨ (a, b) ∈ pairs xs := by
  simp only [pairs, List.mem_append, List.mem_map, Prod.mk.injEq]
  constructor
  · rintro (⟨y, hy, rfl, rfl⟩ | h)
    · exact Or.inl ⟨rfl, hy⟩
    · exact Or.inr h
  · rintro (⟨rfl, hb⟩ | h)
    · exact Or.inl ⟨b, hb, rfl, rfl⟩
    · exact Or.inr h

theorem mem_of_mem_pairs {α} (l : List α) (a b : α) (h : (a, b) ∈ pairs l) : a ∈ l ∧ b ∈ l := by
  induction l with
  | nil => simp [pairs] at h
  | cons x xs ih =>
    rcases (mem_pairs_cons x xs a b).mp h with ⟨rfl, hb⟩ | h
    · exact ⟨List.mem_cons_self, List.mem_cons_of_mem _ hb⟩
    · exact ⟨List.mem_cons_of_mem _ (ih h).1, List.mem_cons_of_mem _ (ih h).2⟩

/-- in a list without repetition, an ordered pair and its swap are never both combinations, and a combination
    never pairs an element with itself -/
theorem pairs_asymm {α} (l : List α) (hnd : l.Nodup) (a b : α) (h : (a, b) ∈ pairs l) :
    a ≠ b ∧ (b, a) ∉ pairs l := by
  induction l with
  | nil => simp [pairs] at h
  | cons x xs ih =>
    have hx := (List.nodup_cons.mp hnd).1
    have hxs := (List.nodup_cons.mp hnd).2
    rcases (mem_pairs_cons x xs a b).mp h with ⟨rfl, hb⟩ | h0
    · refine ⟨fun e => hx (e ▸ hb), fun h2 => ?_⟩
      rcases (mem_pairs_cons a xs b a).mp h2 with ⟨rfl, hb2⟩ | h2
      · exact hx hb
      · exact hx (mem_of_mem_pairs xs b a h2).2
    · refine ⟨(ih hxs h0).1, fun h2 => ?_⟩
      rcases (mem_pairs_cons x xs b a).mp h2 with ⟨e, ha⟩ | h2
      · exact hx (e ▸ (mem_of_mem_pairs xs a b h0).2)
      · exact (ih hxs h0).2 h2

theorem pairs_complete {α} (l : List α) (a b : α) (ha : a ∈ l) (hb : b ∈ l) (hne : a ≠ b) :
    (a, b) ∈ pairs l ∨ (b, a) ∈ pairs l := by
  induction l with
  | nil => simp at ha
  | cons x xs ih =>
    rcases List.mem_cons.mp ha with rfl | ha'
    · rcases List.mem_cons.mp hb with e | hb'
      · exact absurd e.symm hne
      · exact Or.inl ((mem_pairs_cons _ _ _ _).mpr (Or.inl ⟨rfl, hb'⟩))
    · rcases List.mem_cons.mp hb with rfl | hb'
      · exact Or.inr ((mem_pairs_cons _ _ _ _).mpr (Or.inl ⟨rfl, ha'⟩))
      · rcases ih ha' hb' with h | h
        · exact Or.inl ((mem_pairs_cons _ _ _ _).mpr (Or.inr h))
        · exact Or.inr ((mem_pairs_cons _ _ _ _).mpr (Or.inr h))

theorem nodup_pairs {α} (l : List α) (hnd : l.Nodup) : (pairs l).Nodup := by
  induction l with
  | nil => simp [pairs]
  | cons x xs ih =>
    have hx := (List.nodup_cons.mp hnd).1
    have hxs := (List.nodup_cons.mp hnd).2
    simp only [pairs]
    refine List.nodup_append.mpr ⟨?_, ih hxs, ?_⟩
    · exact List.Pairwise.map _ (fun a b hab e => hab (by simpa using e)) hxs
    · intro p hp q hq e
      obtain ⟨y, _, rfl⟩ := List.mem_map.mp hp
      subst e
      exact hx (mem_of_mem_pairs xs x y hq).1

/-! ### angles -/

theorem mem_anglesAt (bonds : List (Nat × Nat)) (n : Nat) (t : List Nat) :
    t ∈ anglesAt bonds n ↔ ∃ a b, (a, b) ∈ pairs (neighbours bonds n) ∧ t = [a, n, b] := by
  unfold anglesAt
  rw [List.mem_map]
  constructor
  · rintro ⟨⟨a, b⟩, hp, rfl⟩; exact ⟨a, b, hp, rfl⟩
  · rintro ⟨a, b, hp, rfl⟩; exact ⟨(a, b), hp, rfl⟩

theorem mem_calcAngles (bonds : List (Nat × Nat)) (a v b : Nat) :
    [a, v, b] ∈ calcAngles bonds ↔ v ∈ nodes bonds ∧ (a, b) ∈ pairs (neighbours bonds v) := by
  unfold calcAngles
  rw [List.mem_flatMap]
  constructor
  · rintro ⟨n, hn, ht⟩
    obtain ⟨a', b', hp, e⟩ := (mem_anglesAt bonds n _).mp ht
    simp only [List.cons.injEq, and_true] at e
    obtain ⟨rfl, rfl, rfl⟩ := e
    exact ⟨hn, hp⟩
  · rintro ⟨hn, hp⟩
    exact ⟨v, hn, (mem_anglesAt bonds v _).mpr ⟨a, b, hp, rfl⟩⟩

theorem calcAngles_shape (bonds : List (Nat × Nat)) (t : List Nat) (h : t ∈ calcAngles bonds) :
    ∃ a v b, t = [a, v, b] := by
  unfold calcAngles at h
  obtain ⟨n, _, ht⟩ := List.mem_flatMap.mp h
  obtain ⟨a, b, _, e⟩ := (mem_anglesAt bonds n t).mp ht
  exact ⟨a, n, b, e⟩

theorem nodup_anglesAt (bonds : List (Nat × Nat)) (n : Nat) : (anglesAt bonds n).Nodup := by
  unfold anglesAt
  refine List.Pairwise.map _ ?_ (nodup_pairs _ (nodup_neighbours bonds n))
  intro p q hpq e
  apply hpq
  simp only [List.cons.injEq, and_true] at e
  exact Prod.ext e.1 e.2.2

theorem nodup_calcAngles (bonds : List (Nat × Nat)) : (calcAngles bonds).Nodup := by
  unfold calcAngles List.Nodup
  rw [List.pairwise_flatMap]
  refine ⟨fun n _ => nodup_anglesAt bonds n, ?_⟩
  refine List.Pairwise.imp ?_ (nodup_nodes bonds)
  intro n1 n2 hne x hx y hy e
  obtain ⟨a, b, _, rfl⟩ := (mem_anglesAt bonds n1 x).mp hx
  obtain ⟨a', b', _, e'⟩ := (mem_anglesAt bonds n2 y).mp hy
  rw [e'] at e
  simp only [List.cons.injEq, and_true] at e
  exact hne e.2.1

end Mofun.Terms
