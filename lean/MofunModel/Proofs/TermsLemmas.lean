/- helper lemmas for C19 (term enumeration and typing): de-duplication, first-occurrence index, the graph
   (`nodes`, `neighbours`, `graphEdges`), `pairs`, `typekey`, the drop loop -/
import MofunModel.Model.Terms

namespace Mofun.Terms

open Mofun

/-! ### dedup -/

theorem mem_dedup {α} [DecidableEq α] (l : List α) (x : α) : x ∈ dedup l ↔ x ∈ l := by
  induction l with
  | nil => simp [dedup]
  | cons y ys ih =>
    simp only [dedup, List.mem_cons, List.mem_filter, ih, decide_eq_true_eq]
    by_cases h : x = y <;> simp [h]

theorem nodup_dedup {α} [DecidableEq α] (l : List α) : (dedup l).Nodup := by
  induction l with
  | nil => simp [dedup]
  | cons y ys ih =>
    simp only [dedup, List.nodup_cons, List.mem_filter, decide_eq_true_eq]
    exact ⟨fun h => h.2 rfl, List.Pairwise.filter _ ih⟩

theorem dedup_filter {α} [DecidableEq α] (p : α → Bool) (l : List α) :
    dedup (l.filter p) = (dedup l).filter p := by
  induction l with
  | nil => simp [dedup]
  | cons y ys ih =>
    by_cases h : p y = true
    · simp only [List.filter_cons, h, if_true, dedup, ih]
      congr 1
      simp only [List.filter_filter]
      apply List.filter_congr; intro x _; exact Bool.and_comm _ _
    · simp only [List.filter_cons, h, dedup]
      simp only [Bool.false_eq_true, if_false, List.filter_filter]
      rw [ih]
      apply List.filter_congr; intro x _
      by_cases hx : x = y
      · subst hx; simp [h]
      · simp [hx]

theorem dedup_map_inj {α β} [DecidableEq α] [DecidableEq β] (f : α → β) (l : List α)
    (hf : ∀ a ∈ l, ∀ b ∈ l, f a = f b → a = b) : dedup (l.map f) = (dedup l).map f := by
  induction l with
  | nil => simp [dedup]
  | cons y ys ih =>
    have ih' := ih (fun a ha b hb => hf a (List.mem_cons_of_mem _ ha) b (List.mem_cons_of_mem _ hb))
    simp only [List.map_cons, dedup, ih', List.filter_map]
    congr 2
    apply List.filter_congr
    intro x hx
    have hxm : x ∈ ys := (mem_dedup ys x).mp hx
    simp only [Function.comp, decide_eq_decide]
    constructor
    · intro h e; exact h (by rw [e])
    · intro h e; exact h (hf x (List.mem_cons_of_mem _ hxm) y (List.mem_cons_self) e)

/-! ### first-occurrence index -/

theorem indexOf?_of_mem {α} [DecidableEq α] (l : List α) (x : α) (h : x ∈ l) :
    ∃ k, indexOf? l x = some k ∧ l[k]? = some x := by
  induction l with
  | nil => simp at h
  | cons y ys ih =>
    by_cases e : y = x
    · exact ⟨0, by simp [indexOf?, e], by simp [e]⟩
    · have hx : x ∈ ys := by
        rcases List.mem_cons.mp h with h | h
        · exact absurd h.symm e
        · exact h
      obtain ⟨k, hk, hg⟩ := ih hx
      exact ⟨k + 1, by simp [indexOf?, e, hk], by simpa using hg⟩

theorem typeIndex_get {α} [DecidableEq α] (l : List α) (x : α) (h : x ∈ l) :
    l[typeIndex l x]? = some x := by
  obtain ⟨k, hk, hg⟩ := indexOf?_of_mem l x h
  simp [typeIndex, hk, hg]

theorem typeIndex_lt {α} [DecidableEq α] (l : List α) (x : α) (h : x ∈ l) :
    typeIndex l x < l.length := by
  have := typeIndex_get l x h
  exact (List.getElem?_eq_some_iff.mp this).1

theorem typeIndex_inj {α} [DecidableEq α] (l : List α) (x y : α) (hx : x ∈ l) (hy : y ∈ l)
    (h : typeIndex l x = typeIndex l y) : x = y := by
  have h1 := typeIndex_get l x hx
  have h2 := typeIndex_get l y hy
  rw [h] at h1
  exact Option.some.inj (h1.symm.trans h2)

theorem indexOf?_getElem_nodup {α} [DecidableEq α] (l : List α) (hnd : l.Nodup) (k : Nat) (hk : k < l.length) :
    indexOf? l l[k] = some k := by
  induction l generalizing k with
  | nil => simp at hk
  | cons y ys ih =>
    cases k with
    | zero => simp [indexOf?]
    | succ k =>
      have hk' : k < ys.length := by simpa using hk
      have hne : y ≠ ys[k] := by
        intro e
        exact (List.nodup_cons.mp hnd).1 (e ▸ List.getElem_mem hk')
      simp [indexOf?, hne, ih (List.nodup_cons.mp hnd).2 k hk']

theorem typeIndex_getElem_nodup {α} [DecidableEq α] (l : List α) (hnd : l.Nodup) (k : Nat) (hk : k < l.length) :
    typeIndex l l[k] = k := by
  simp [typeIndex, indexOf?_getElem_nodup l hnd k hk]

/-! ### the graph -/

/-- `a` and `b` are joined by a listed bond (in either direction) -/
def Bonded (bonds : List (Nat × Nat)) (a b : Nat) : Prop := (a, b) ∈ bonds ∨ (b, a) ∈ bonds

theorem Bonded.symm {bonds : List (Nat × Nat)} {a b : Nat} (h : Bonded bonds a b) : Bonded bonds b a :=
  Or.symm h

theorem bonded_comm (bonds : List (Nat × Nat)) (a b : Nat) : Bonded bonds a b ↔ Bonded bonds b a :=
  ⟨Bonded.symm, Bonded.symm⟩

/-- no bond joins an atom to itself -/
def NoSelfLoops (bonds : List (Nat × Nat)) : Prop := ∀ e ∈ bonds, e.1 ≠ e.2

theorem bonded_self_false (bonds : List (Nat × Nat)) (hns : NoSelfLoops bonds) (a : Nat) : ¬ Bonded bonds a a := by
  rintro (h | h) <;> exact hns _ h rfl

theorem mem_neighbours (bonds : List (Nat × Nat)) (n m : Nat) :
    m ∈ neighbours bonds n ↔ Bonded bonds n m := by
  unfold neighbours Bonded
  rw [mem_dedup, List.mem_filterMap]
  constructor
  · rintro ⟨⟨a, b⟩, he, ho⟩
    unfold otherEnd at ho
    simp only at ho
    split at ho
    · rename_i h1; cases ho; subst h1; exact Or.inl he
    · split at ho
      · rename_i h1 h2; cases ho; subst h2; exact Or.inr he
      · cases ho
  · rintro (h | h)
    · exact ⟨(n, m), h, by simp [otherEnd]⟩
    · refine ⟨(m, n), h, ?_⟩
      by_cases e : m = n
      · simp [otherEnd, e]
      · simp [otherEnd, e]

theorem nodup_neighbours (bonds : List (Nat × Nat)) (n : Nat) : (neighbours bonds n).Nodup :=
  nodup_dedup _

theorem mem_nodes (bonds : List (Nat × Nat)) (n : Nat) :
    n ∈ nodes bonds ↔ ∃ m, Bonded bonds n m := by
  unfold nodes Bonded
  rw [mem_dedup, List.mem_flatMap]
  constructor
  · rintro ⟨⟨a, b⟩, he, hm⟩
    simp only [List.mem_cons, List.not_mem_nil, or_false] at hm
    rcases hm with rfl | rfl
    · exact ⟨b, Or.inl he⟩
    · exact ⟨a, Or.inr he⟩
  · rintro ⟨m, h | h⟩
    · exact ⟨(n, m), h, by simp⟩
    · exact ⟨(m, n), h, by simp⟩

theorem nodup_nodes (bonds : List (Nat × Nat)) : (nodes bonds).Nodup := nodup_dedup _

/-! ### `pairs` = itertools.combinations(·, 2) -/

theorem mem_pairs_cons {α} (x : α) (xs : List α) (a b : α) :
    (a, b) ∈ pairs (x :: xs) ↔ (a = x ∧ b ∈ xs) ∨ (a, b) ∈ pairs xs := by
  simp only [pairs, List.mem_append, List.mem_map, Prod.mk.injEq]
  constructor
  · rintro (⟨y, hy, rfl, rfl⟩ | h)
    · exact Or.inl ⟨rfl, hy⟩
    · exact Or.inr h
  · rintro (⟨rfl, hb⟩ | h)
    · exact Or.inl ⟨b, hb, rfl, rfl⟩
    · exact Or.inr h

theorem mem_of_mem_pairs {α} (l : List α) (a b : α) (h : (a, b) ∈ pairs l) : a ∈ l ∧ b ∈ l := by
  induction l with
  | nil => simp [pairs] at h
  | cons x xs ih =>
    rcases (mem_pairs_cons x xs a b).mp h with ⟨rfl, hb⟩ | h
    · exact ⟨List.mem_cons_self, List.mem_cons_of_mem _ hb⟩
    · exact ⟨List.mem_cons_of_mem _ (ih h).1, List.mem_cons_of_mem _ (ih h).2⟩

/-- in a list without repetition, an ordered pair and its swap are never both combinations, and a combination
    never pairs an element with itself -/
theorem pairs_asymm {α} (l : List α) (hnd : l.Nodup) (a b : α) (h : (a, b) ∈ pairs l) :
    a ≠ b ∧ (b, a) ∉ pairs l := by
  induction l with
  | nil => simp [pairs] at h
  | cons x xs ih =>
    have hx := (List.nodup_cons.mp hnd).1
    have hxs := (List.nodup_cons.mp hnd).2
    rcases (mem_pairs_cons x xs a b).mp h with ⟨rfl, hb⟩ | h0
    · refine ⟨fun e => hx (e ▸ hb), fun h2 => ?_⟩
      rcases (mem_pairs_cons a xs b a).mp h2 with ⟨rfl, hb2⟩ | h2
      · exact hx hb
      · exact hx (mem_of_mem_pairs xs b a h2).2
    · refine ⟨(ih hxs h0).1, fun h2 => ?_⟩
      rcases (mem_pairs_cons x xs b a).mp h2 with ⟨e, ha⟩ | h2
      · exact hx (e ▸ (mem_of_mem_pairs xs a b h0).2)
      · exact (ih hxs h0).2 h2

theorem pairs_complete {α} (l : List α) (a b : α) (ha : a ∈ l) (hb : b ∈ l) (hne : a ≠ b) :
    (a, b) ∈ pairs l ∨ (b, a) ∈ pairs l := by
  induction l with
  | nil => simp at ha
  | cons x xs ih =>
    rcases List.mem_cons.mp ha with rfl | ha'
    · rcases List.mem_cons.mp hb with e | hb'
      · exact absurd e.symm hne
      · exact Or.inl ((mem_pairs_cons _ _ _ _).mpr (Or.inl ⟨rfl, hb'⟩))
    · rcases List.mem_cons.mp hb with rfl | hb'
      · exact Or.inr ((mem_pairs_cons _ _ _ _).mpr (Or.inl ⟨rfl, ha'⟩))
      · rcases ih ha' hb' with h | h
        · exact Or.inl ((mem_pairs_cons _ _ _ _).mpr (Or.inr h))
        · exact Or.inr ((mem_pairs_cons _ _ _ _).mpr (Or.inr h))

theorem nodup_pairs {α} (l : List α) (hnd : l.Nodup) : (pairs l).Nodup := by
  induction l with
  | nil => simp [pairs]
  | cons x xs ih =>
    have hx := (List.nodup_cons.mp hnd).1
    have hxs := (List.nodup_cons.mp hnd).2
    simp only [pairs]
    refine List.nodup_append.mpr ⟨?_, ih hxs, ?_⟩
    · exact List.Pairwise.map _ (fun a b hab e => hab (by simpa using e)) hxs
    · intro p hp q hq e
      obtain ⟨y, _, rfl⟩ := List.mem_map.mp hp
      subst e
      exact hx (mem_of_mem_pairs xs x y hq).1

/-! ### angles -/

theorem mem_anglesAt (bonds : List (Nat × Nat)) (n : Nat) (t : List Nat) :
    t ∈ anglesAt bonds n ↔ ∃ a b, (a, b) ∈ pairs (neighbours bonds n) ∧ t = [a, n, b] := by
  unfold anglesAt
  rw [List.mem_map]
  constructor
  · rintro ⟨⟨a, b⟩, hp, rfl⟩; exact ⟨a, b, hp, rfl⟩
  · rintro ⟨a, b, hp, rfl⟩; exact ⟨(a, b), hp, rfl⟩

theorem mem_calcAngles (bonds : List (Nat × Nat)) (a v b : Nat) :
    [a, v, b] ∈ calcAngles bonds ↔ v ∈ nodes bonds ∧ (a, b) ∈ pairs (neighbours bonds v) := by
  unfold calcAngles
  rw [List.mem_flatMap]
  constructor
  · rintro ⟨n, hn, ht⟩
    obtain ⟨a', b', hp, e⟩ := (mem_anglesAt bonds n _).mp ht
    simp only [List.cons.injEq, and_true] at e
    obtain ⟨rfl, rfl, rfl⟩ := e
    exact ⟨hn, hp⟩
  · rintro ⟨hn, hp⟩
    exact ⟨v, hn, (mem_anglesAt bonds v _).mpr ⟨a, b, hp, rfl⟩⟩

theorem calcAngles_shape (bonds : List (Nat × Nat)) (t : List Nat) (h : t ∈ calcAngles bonds) :
    ∃ a v b, t = [a, v, b] := by
  unfold calcAngles at h
  obtain ⟨n, _, ht⟩ := List.mem_flatMap.mp h
  obtain ⟨a, b, _, e⟩ := (mem_anglesAt bonds n t).mp ht
  exact ⟨a, n, b, e⟩

theorem nodup_anglesAt (bonds : List (Nat × Nat)) (n : Nat) : (anglesAt bonds n).Nodup := by
  unfold anglesAt
  refine List.Pairwise.map _ ?_ (nodup_pairs _ (nodup_neighbours bonds n))
  intro p q hpq e
  apply hpq
  simp only [List.cons.injEq, and_true] at e
  exact Prod.ext e.1 e.2.2

theorem nodup_calcAngles (bonds : List (Nat × Nat)) : (calcAngles bonds).Nodup := by
  unfold calcAngles List.Nodup
  rw [List.pairwise_flatMap]
  refine ⟨fun n _ => nodup_anglesAt bonds n, ?_⟩
  refine List.Pairwise.imp ?_ (nodup_nodes bonds)
  intro n1 n2 hne x hx y hy e
  obtain ⟨a, b, _, rfl⟩ := (mem_anglesAt bonds n1 x).mp hx
  obtain ⟨a', b', _, e'⟩ := (mem_anglesAt bonds n2 y).mp hy
  rw [e'] at e
  simp only [List.cons.injEq, and_true] at e
  exact hne e.2.1

/-! ### edges (networkx `g.edges`) -/

theorem mem_edgesFrom_cons (adj : Nat → List Nat) (n : Nat) (rest seen : List Nat) (a b : Nat) :
    (a, b) ∈ edgesFrom adj (n :: rest) seen ↔
      (a = n ∧ b ∈ adj n ∧ b ∉ seen) ∨ (a, b) ∈ edgesFrom adj rest (n :: seen) := by
  simp only [edgesFrom, List.mem_append, List.mem_map, List.mem_filter, Prod.mk.injEq]
  constructor
  · rintro (⟨m, ⟨hm, hs⟩, rfl, rfl⟩ | h)
    · exact Or.inl ⟨rfl, hm, by simpa using hs⟩
    · exact Or.inr h
  · rintro (⟨rfl, hm, hs⟩ | h)
    · exact Or.inl ⟨b, ⟨hm, by simpa using hs⟩, rfl, rfl⟩
    · exact Or.inr h

theorem edgesFrom_sound (adj : Nat → List Nat) (ns seen : List Nat) (a b : Nat)
    (h : (a, b) ∈ edgesFrom adj ns seen) : a ∈ ns ∧ b ∈ adj a ∧ b ∉ seen := by
  induction ns generalizing seen with
  | nil => simp [edgesFrom] at h
  | cons n rest ih =>
    rcases (mem_edgesFrom_cons adj n rest seen a b).mp h with ⟨rfl, hm, hs⟩ | h'
    · exact ⟨List.mem_cons_self, hm, hs⟩
    · obtain ⟨h1, h2, h3⟩ := ih (n :: seen) h'
      exact ⟨List.mem_cons_of_mem _ h1, h2, fun hm => h3 (List.mem_cons_of_mem _ hm)⟩

theorem edgesFrom_asymm (adj : Nat → List Nat) (ns seen : List Nat) (a b : Nat)
    (h1 : (a, b) ∈ edgesFrom adj ns seen) (h2 : (b, a) ∈ edgesFrom adj ns seen) : a = b := by
  induction ns generalizing seen with
  | nil => simp [edgesFrom] at h1
  | cons n rest ih =>
    rcases (mem_edgesFrom_cons adj n rest seen a b).mp h1 with ⟨ha, _, _⟩ | h1'
    · rcases (mem_edgesFrom_cons adj n rest seen b a).mp h2 with ⟨hb, _, _⟩ | h2'
      · rw [ha, hb]
      · exact absurd (by rw [ha]; exact List.mem_cons_self) (edgesFrom_sound adj rest (n :: seen) b a h2').2.2
    · rcases (mem_edgesFrom_cons adj n rest seen b a).mp h2 with ⟨hb, _, _⟩ | h2'
      · exact absurd (by rw [hb]; exact List.mem_cons_self) (edgesFrom_sound adj rest (n :: seen) a b h1').2.2
      · exact ih (n :: seen) h1' h2'

theorem edgesFrom_complete (adj : Nat → List Nat) (ns seen : List Nat) (a b : Nat)
    (ha : a ∈ ns) (hb : b ∈ ns) (hab : b ∈ adj a) (hba : a ∈ adj b) (has : a ∉ seen) (hbs : b ∉ seen) :
    (a, b) ∈ edgesFrom adj ns seen ∨ (b, a) ∈ edgesFrom adj ns seen := by
  induction ns generalizing seen with
  | nil => simp at ha
  | cons n rest ih =>
    by_cases ea : a = n
    · exact Or.inl ((mem_edgesFrom_cons _ _ _ _ _ _).mpr (Or.inl ⟨ea, ea ▸ hab, hbs⟩))
    · by_cases eb : b = n
      · exact Or.inr ((mem_edgesFrom_cons _ _ _ _ _ _).mpr (Or.inl ⟨eb, eb ▸ hba, has⟩))
      · have ha' : a ∈ rest := by
          rcases List.mem_cons.mp ha with h | h
          · exact absurd h ea
          · exact h
        have hb' : b ∈ rest := by
          rcases List.mem_cons.mp hb with h | h
          · exact absurd h eb
          · exact h
        have has' : a ∉ n :: seen := by
          intro h; rcases List.mem_cons.mp h with h | h
          · exact ea h
          · exact has h
        have hbs' : b ∉ n :: seen := by
          intro h; rcases List.mem_cons.mp h with h | h
          · exact eb h
          · exact hbs h
        rcases ih (n :: seen) ha' hb' has' hbs' with h | h
        · exact Or.inl ((mem_edgesFrom_cons _ _ _ _ _ _).mpr (Or.inr h))
        · exact Or.inr ((mem_edgesFrom_cons _ _ _ _ _ _).mpr (Or.inr h))

theorem nodup_edgesFrom (adj : Nat → List Nat) (hadj : ∀ n, (adj n).Nodup) (ns seen : List Nat)
    (hnd : ns.Nodup) : (edgesFrom adj ns seen).Nodup := by
  induction ns generalizing seen with
  | nil => simp [edgesFrom]
  | cons n rest ih =>
    have hn := (List.nodup_cons.mp hnd).1
    have hrest := (List.nodup_cons.mp hnd).2
    simp only [edgesFrom]
    refine List.nodup_append.mpr ⟨?_, ih (n :: seen) hrest, ?_⟩
    · have hf : ((adj n).filter (fun m => !seen.contains m)).Nodup := List.Pairwise.filter _ (hadj n)
      exact List.Pairwise.map _ (fun a b hab e => hab (by simpa using e)) hf
    · intro p hp q hq e
      obtain ⟨m, _, rfl⟩ := List.mem_map.mp hp
      subst e
      exact hn (edgesFrom_sound adj rest (n :: seen) n m hq).1

theorem graphEdges_sound (bonds : List (Nat × Nat)) (a b : Nat) (h : (a, b) ∈ graphEdges bonds) :
    Bonded bonds a b :=
  (mem_neighbours bonds a b).mp (edgesFrom_sound _ _ _ a b h).2.1

theorem graphEdges_complete (bonds : List (Nat × Nat)) (a b : Nat) (h : Bonded bonds a b) :
    (a, b) ∈ graphEdges bonds ∨ (b, a) ∈ graphEdges bonds := by
  unfold graphEdges
  refine edgesFrom_complete _ _ _ a b ((mem_nodes bonds a).mpr ⟨b, h⟩) ((mem_nodes bonds b).mpr ⟨a, h.symm⟩)
    ((mem_neighbours bonds a b).mpr h) ((mem_neighbours bonds b a).mpr h.symm) ?_ ?_ <;> simp

theorem graphEdges_asymm (bonds : List (Nat × Nat)) (a b : Nat)
    (h1 : (a, b) ∈ graphEdges bonds) (h2 : (b, a) ∈ graphEdges bonds) : a = b :=
  edgesFrom_asymm _ _ _ a b h1 h2

theorem nodup_graphEdges (bonds : List (Nat × Nat)) : (graphEdges bonds).Nodup :=
  nodup_edgesFrom _ (nodup_neighbours bonds) _ _ (nodup_nodes bonds)

/-! ### dihedrals -/

theorem mem_dihedralsAt (bonds : List (Nat × Nat)) (e : Nat × Nat) (t : List Nat) :
    t ∈ dihedralsAt bonds e ↔
      ∃ i l, i ∈ neighbours bonds e.1 ∧ i ≠ e.2 ∧ l ∈ neighbours bonds e.2 ∧ l ≠ e.1 ∧ t = [i, e.1, e.2, l] := by
  unfold dihedralsAt
  simp only [List.mem_flatMap, List.mem_map, (nodup_neighbours bonds _).mem_erase_iff]
  constructor
  · rintro ⟨i, ⟨h1, h2⟩, l, ⟨h3, h4⟩, rfl⟩; exact ⟨i, l, h2, h1, h4, h3, rfl⟩
  · rintro ⟨i, l, h2, h1, h4, h3, rfl⟩; exact ⟨i, ⟨h1, h2⟩, l, ⟨h3, h4⟩, rfl⟩

theorem mem_calcDihedrals (bonds : List (Nat × Nat)) (i j k l : Nat) :
    [i, j, k, l] ∈ calcDihedrals bonds ↔
      (j, k) ∈ graphEdges bonds ∧ Bonded bonds j i ∧ i ≠ k ∧ Bonded bonds k l ∧ l ≠ j := by
  unfold calcDihedrals
  rw [List.mem_flatMap]
  constructor
  · rintro ⟨⟨a, b⟩, he, ht⟩
    obtain ⟨i', l', h1, h2, h3, h4, e⟩ := (mem_dihedralsAt bonds (a, b) _).mp ht
    simp only [List.cons.injEq, and_true] at e
    obtain ⟨rfl, rfl, rfl, rfl⟩ := e
    exact ⟨he, (mem_neighbours _ _ _).mp h1, h2, (mem_neighbours _ _ _).mp h3, h4⟩
  · rintro ⟨he, h1, h2, h3, h4⟩
    exact ⟨(j, k), he, (mem_dihedralsAt bonds (j, k) _).mpr
      ⟨i, l, (mem_neighbours _ _ _).mpr h1, h2, (mem_neighbours _ _ _).mpr h3, h4, rfl⟩⟩

theorem calcDihedrals_shape (bonds : List (Nat × Nat)) (t : List Nat) (h : t ∈ calcDihedrals bonds) :
    ∃ i j k l, t = [i, j, k, l] := by
  unfold calcDihedrals at h
  obtain ⟨e, _, ht⟩ := List.mem_flatMap.mp h
  obtain ⟨i, l, _, _, _, _, e'⟩ := (mem_dihedralsAt bonds e t).mp ht
  exact ⟨i, e.1, e.2, l, e'⟩

theorem nodup_dihedralsAt (bonds : List (Nat × Nat)) (e : Nat × Nat) : (dihedralsAt bonds e).Nodup := by
  unfold dihedralsAt List.Nodup
  rw [List.pairwise_flatMap]
  have h1 : ((neighbours bonds e.1).erase e.2).Nodup :=
    List.Pairwise.sublist List.erase_sublist (nodup_neighbours bonds e.1)
  have h2 : ((neighbours bonds e.2).erase e.1).Nodup :=
    List.Pairwise.sublist List.erase_sublist (nodup_neighbours bonds e.2)
  refine ⟨fun a _ => ?_, ?_⟩
  · exact List.Pairwise.map _ (fun x y hxy e => hxy (by simpa using e)) h2
  · refine List.Pairwise.imp ?_ h1
    intro a1 a2 hne x hx y hy e
    obtain ⟨_, _, rfl⟩ := List.mem_map.mp hx
    obtain ⟨_, _, rfl⟩ := List.mem_map.mp hy
    simp only [List.cons.injEq, and_true] at e
    exact hne e.1

theorem nodup_calcDihedrals (bonds : List (Nat × Nat)) : (calcDihedrals bonds).Nodup := by
  unfold calcDihedrals List.Nodup
  rw [List.pairwise_flatMap]
  refine ⟨fun e _ => nodup_dihedralsAt bonds e, ?_⟩
  refine List.Pairwise.imp ?_ (nodup_graphEdges bonds)
  intro e1 e2 hne x hx y hy e
  obtain ⟨_, _, _, _, _, _, rfl⟩ := (mem_dihedralsAt bonds e1 x).mp hx
  obtain ⟨_, _, _, _, _, _, e'⟩ := (mem_dihedralsAt bonds e2 y).mp hy
  rw [e'] at e
  simp only [List.cons.injEq, and_true] at e
  exact hne (Prod.ext e.2.1 e.2.2.1)

/-! ### typekey -/

section typekey
variable {α : Type} [LT α] [DecidableEq α] [DecidableLT α]

theorem typekey_cases (t : List α) : typekey t = t ∨ typekey t = t.reverse := by
  unfold typekey; split
  · exact Or.inr rfl
  · exact Or.inl rfl

theorem typekey_reverse [Std.Trichotomous (α := α) (· < ·)] [Std.Asymm (α := α) (· < ·)] (t : List α) :
    typekey t.reverse = typekey t := by
  unfold typekey
  rw [List.reverse_reverse]
  by_cases h1 : t.reverse ≤ t
  · by_cases h2 : t ≤ t.reverse
    · have := List.le_antisymm h1 h2
      simp [this]
    · simp [h1, h2]
  · have h2 : t ≤ t.reverse := by
      rcases List.le_total t t.reverse with h | h
      · exact h
      · exact absurd h h1
    simp [h1, h2]

theorem typekey_eq_iff [Std.Trichotomous (α := α) (· < ·)] [Std.Asymm (α := α) (· < ·)] (t u : List α) :
    typekey t = typekey u ↔ t = u ∨ t = u.reverse := by
  constructor
  · intro h
    rcases typekey_cases t with ht | ht <;> rcases typekey_cases u with hu | hu <;> rw [ht, hu] at h
    · exact Or.inl h
    · exact Or.inr h
    · exact Or.inr (List.reverse_eq_iff.mp h)
    · exact Or.inl (List.reverse_inj.mp h)
  · rintro (rfl | rfl)
    · rfl
    · exact typekey_reverse u

end typekey

/-! ### typing: first-seen numbering of unique keys -/

/-- the terms paired with their type ids, for a key function: what all three assign functions compute -/
def typedBy {κ} [DecidableEq κ] (key : List Nat → κ) (ts : List (List Nat)) : List (List Nat × Nat) :=
  ts.map (fun t => (t, typeIndex (dedup (ts.map key)) (key t)))

theorem zip_map_self {α β} (l : List α) (f : α → β) : l.zip (l.map f) = l.map (fun x => (x, f x)) := by
  induction l with
  | nil => rfl
  | cons x xs ih => simp [ih]

theorem zip_typed {κ} [DecidableEq κ] (key : List Nat → κ) (ts : List (List Nat)) :
    ts.zip ((ts.map key).map (typeIndex (dedup (ts.map key)))) = typedBy key ts := by
  rw [List.map_map, zip_map_self]; rfl

section typing
variable {κ : Type} [DecidableEq κ] (key : List Nat → κ) (ts : List (List Nat))

theorem mem_typedBy (t : List Nat) (y : Nat) :
    (t, y) ∈ typedBy key ts ↔ t ∈ ts ∧ y = typeIndex (dedup (ts.map key)) (key t) := by
  unfold typedBy
  rw [List.mem_map]
  constructor
  · rintro ⟨t', ht, e⟩; cases e; exact ⟨ht, rfl⟩
  · rintro ⟨ht, rfl⟩; exact ⟨t, ht, rfl⟩

theorem key_mem_uniq (t : List Nat) (ht : t ∈ ts) : key t ∈ dedup (ts.map key) :=
  (mem_dedup _ _).mpr (List.mem_map.mpr ⟨t, ht, rfl⟩)

theorem typedBy_same_iff (t1 t2 : List Nat) (y1 y2 : Nat)
    (h1 : (t1, y1) ∈ typedBy key ts) (h2 : (t2, y2) ∈ typedBy key ts) : y1 = y2 ↔ key t1 = key t2 := by
  obtain ⟨m1, rfl⟩ := (mem_typedBy key ts t1 y1).mp h1
  obtain ⟨m2, rfl⟩ := (mem_typedBy key ts t2 y2).mp h2
  constructor
  · exact typeIndex_inj _ _ _ (key_mem_uniq key ts t1 m1) (key_mem_uniq key ts t2 m2)
  · intro e; rw [e]

theorem typedBy_coeff {γ} (params : κ → γ) (t : List Nat) (y : Nat) (h : (t, y) ∈ typedBy key ts) :
    ((dedup (ts.map key)).map params)[y]? = some (params (key t)) := by
  obtain ⟨m, rfl⟩ := (mem_typedBy key ts t y).mp h
  rw [List.getElem?_map, typeIndex_get _ _ (key_mem_uniq key ts t m)]; rfl

theorem typedBy_onto (k : Nat) (hk : k < (dedup (ts.map key)).length) : ∃ t, (t, k) ∈ typedBy key ts := by
  have hm : (dedup (ts.map key))[k] ∈ ts.map key := (mem_dedup _ _).mp (List.getElem_mem hk)
  obtain ⟨t, ht, e⟩ := List.mem_map.mp hm
  refine ⟨t, (mem_typedBy key ts t k).mpr ⟨ht, ?_⟩⟩
  rw [e, typeIndex_getElem_nodup _ (nodup_dedup _) k hk]

theorem typedBy_lt (t : List Nat) (y : Nat) (h : (t, y) ∈ typedBy key ts) : y < (dedup (ts.map key)).length := by
  obtain ⟨m, rfl⟩ := (mem_typedBy key ts t y).mp h
  exact typeIndex_lt _ _ (key_mem_uniq key ts t m)

end typing

/-! ### exclusion -/

theorem allInSet_iff (s t : List Nat) : allInSet s t = true ↔ ∀ a ∈ t, a ∈ s := by
  simp [allInSet, List.all_eq_true]

/-- the exclusion set applies: it is given and has at least `arity` distinct members -/
def Excludes (arity : Nat) (excl : Option (List Nat)) (t : List Nat) : Prop :=
  ∃ s, excl = some s ∧ (dedup s).length ≥ arity ∧ ∀ a ∈ t, a ∈ s

instance (arity : Nat) (excl : Option (List Nat)) (t : List Nat) : Decidable (Excludes arity excl t) := by
  unfold Excludes
  cases excl with
  | none => exact isFalse (by rintro ⟨s, h, _⟩; cases h)
  | some s =>
    by_cases h : (dedup s).length ≥ arity ∧ ∀ a ∈ t, a ∈ s
    · exact isTrue ⟨s, rfl, h.1, h.2⟩
    · exact isFalse (by rintro ⟨s', e, h1, h2⟩; cases e; exact h ⟨h1, h2⟩)

theorem applyExclude_eq_filter (arity : Nat) (excl : Option (List Nat)) (terms : List (List Nat)) :
    applyExclude arity excl terms = terms.filter (fun t => !decide (Excludes arity excl t)) := by
  unfold applyExclude
  cases excl with
  | none =>
    have : ∀ t : List Nat, ¬ Excludes arity none t := by rintro t ⟨s, h, _⟩; cases h
    simp only [this, decide_false, Bool.not_false]
    exact (List.filter_eq_self.mpr (fun _ _ => rfl)).symm
  | some s =>
    simp only
    by_cases hl : (dedup s).length ≥ arity
    · simp only [hl, if_true, deleteIfAllInSet]
      apply List.filter_congr
      intro t _
      congr 1
      rw [Bool.eq_iff_iff, allInSet_iff, decide_eq_true_eq]
      constructor
      · intro h; exact ⟨s, rfl, hl, h⟩
      · rintro ⟨s', e, _, h⟩; cases e; exact h
    · have : ∀ t : List Nat, ¬ Excludes arity (some s) t := by
        rintro t ⟨s', e, h1, _⟩; cases e; exact hl h1
      simp only [hl, if_false, this, decide_false, Bool.not_false]
      exact (List.filter_eq_self.mpr (fun _ _ => rfl)).symm

/-! ### the drop loop of assign_dihedral_types -/

theorem foldl_dropStep (dparams : DKey → DParam) (L : List DKey) (st : List (List Nat × DKey) × List DKey) :
    L.foldl (dropStep dparams) st =
      (st.1.filter (fun p => !(L.contains p.2 && (dparams p.2).isUndefined)),
       st.2.filter (fun k => !(L.contains k && (dparams k).isUndefined))) := by
  induction L generalizing st with
  | nil =>
    simp only [List.foldl_nil, List.contains_nil, Bool.false_and, Bool.not_false]
    rw [List.filter_eq_self.mpr (fun _ _ => rfl), List.filter_eq_self.mpr (fun _ _ => rfl)]
  | cons d L ih =>
    rw [List.foldl_cons, ih]
    unfold dropStep
    by_cases hu : (dparams d).isUndefined = true
    · simp only [hu, if_true, List.filter_filter]
      congr 1
      · apply List.filter_congr; intro p _
        by_cases e : p.2 = d
        · simp [e, hu]
        · have : (d == p.2) = false := by simp [Ne.symm e]
          simp [e]
      · apply List.filter_congr; intro k _
        by_cases e : k = d
        · simp [e, hu]
        · have : (d == k) = false := by simp [Ne.symm e]
          simp [e]
    · simp only [hu, Bool.false_eq_true, if_false]
      congr 1
      · apply List.filter_congr; intro p _
        by_cases e : p.2 = d
        · simp [e, hu]
        · have : (d == p.2) = false := by simp [Ne.symm e]
          simp [e]
      · apply List.filter_congr; intro k _
        by_cases e : k = d
        · simp [e, hu]
        · have : (d == k) = false := by simp [Ne.symm e]
          simp [e]

theorem dropLoop_eq (dparams : DKey → DParam) (key : List Nat → DKey) (ts : List (List Nat)) :
    dropLoop dparams (dedup (ts.map key)) (ts.zip (ts.map key), dedup (ts.map key)) =
      ((ts.filter (fun t => !(dparams (key t)).isUndefined)).map (fun t => (t, key t)),
       dedup ((ts.filter (fun t => !(dparams (key t)).isUndefined)).map key)) := by
  unfold dropLoop
  rw [foldl_dropStep, zip_map_self]
  congr 1
  · rw [List.filter_map]
    congr 1
    apply List.filter_congr
    intro t ht
    have : key t ∈ dedup (ts.map key) := key_mem_uniq key ts t ht
    simp [Function.comp, this]
  · have h1 : (ts.filter (fun t => !(dparams (key t)).isUndefined)).map key
        = (ts.map key).filter (fun k => !(dparams k).isUndefined) := by
      rw [List.filter_map]; rfl
    rw [h1, dedup_filter]
    apply List.filter_congr
    intro k hk
    have : k ∈ dedup (ts.map key) := hk
    simp [this]

theorem map_fst_pair {α β} (f : α → β) (l : List α) : (l.map (fun t => (t, f t))).map (·.1) = l := by
  induction l with
  | nil => rfl
  | cons x xs ih => simp [ih]

theorem assignDihedralsCore_ok (uff : Nat → String) (dparams : DKey → DParam) (excl : Option (List Nat))
    (terms : List (List Nat)) (r : Assigned) (h : assignDihedralsCore uff dparams excl terms = .ok r) :
    (∀ t ∈ applyExclude 4 excl terms, dparams (dihedralKey uff terms t) ≠ .unsupported) ∧
    r.terms = (applyExclude 4 excl terms).filter (fun t => !(dparams (dihedralKey uff terms t)).isUndefined) ∧
    r.terms.zip r.types = typedBy (dihedralKey uff terms) r.terms ∧
    r.coeffs = (dedup (r.terms.map (dihedralKey uff terms))).map (fun k => (dparams k).toText) ∧
    r.types.length = r.terms.length := by
  unfold assignDihedralsCore at h
  simp only at h
  split at h
  · cases h
  · rename_i hns
    have hr := Except.ok.inj h
    rw [dropLoop_eq] at hr
    subst hr
    simp only [map_fst_pair, List.length_map]
    refine ⟨?_, trivial, ?_, trivial, trivial⟩
    · intro t ht e
      apply hns
      refine List.any_eq_true.mpr ⟨_, key_mem_uniq (dihedralKey uff terms) _ t ht, ?_⟩
      simp [e]
    · rw [List.map_map, ← zip_typed, List.map_map]
      rfl

/-! ### normal forms of the assign functions -/

/-- the terms of a result paired with their type ids -/
def typed (r : Assigned) : List (List Nat × Nat) := r.terms.zip r.types

theorem assignSimple_normal (arity : Nat) (uff : Nat → String) (params : List String → String)
    (excl : Option (List Nat)) (terms : List (List Nat)) :
    let r := assignSimple arity uff params excl terms
    r.terms = applyExclude arity excl terms ∧
    typed r = typedBy (seqKey uff) r.terms ∧
    r.coeffs = (dedup (r.terms.map (seqKey uff))).map params ∧
    r.types.length = r.terms.length := by
  refine ⟨rfl, ?_, rfl, ?_⟩
  · exact zip_typed (seqKey uff) _
  · simp [assignSimple]

theorem checkTerms_ok_iff (arity : Nat) (uff : List String) (terms : List (List Nat)) :
    checkTerms arity uff terms = .ok () ↔
      (∀ t ∈ terms, t.length = arity) ∧ (∀ t ∈ terms, ∀ a ∈ t, a < uff.length) := by
  unfold checkTerms
  by_cases h1 : terms.any (fun t => t.length != arity) = true
  · simp only [h1, if_true]
    constructor
    · intro h; cases h
    · rintro ⟨h, _⟩
      obtain ⟨t, ht, hne⟩ := List.any_eq_true.mp h1
      simp [h t ht] at hne
  · have h1' : ∀ t ∈ terms, t.length = arity := by
      intro t ht
      apply Classical.byContradiction
      intro hne
      exact h1 (List.any_eq_true.mpr ⟨t, ht, by simpa using hne⟩)
    by_cases h2 : terms.any (fun t => t.any (fun a => decide (a ≥ uff.length))) = true
    · simp only [h1, h2, if_true]
      constructor
      · intro h; cases h
      · rintro ⟨_, h⟩
        obtain ⟨t, ht, hany⟩ := List.any_eq_true.mp h2
        obtain ⟨a, ha, hge⟩ := List.any_eq_true.mp hany
        have := h t ht a ha
        simp at hge; omega
    · simp only [h1, h2]
      refine ⟨fun _ => ⟨h1', ?_⟩, fun _ => rfl⟩
      intro t ht a ha
      apply Classical.byContradiction
      intro hge
      exact h2 (List.any_eq_true.mpr ⟨t, ht, List.any_eq_true.mpr ⟨a, ha, by simpa using hge⟩⟩)

theorem assignBonds_eq (uff : List String) (params : List String → String) (excl : Option (List Nat))
    (terms : List (List Nat)) (r : Assigned) (h : assignBonds uff params excl terms = .ok r) :
    r = assignSimple 2 (uffFn uff) params excl terms ∧ checkTerms 2 uff terms = .ok () := by
  unfold assignBonds at h
  cases hc : checkTerms 2 uff terms with
  | error e => rw [hc] at h; cases h
  | ok u => rw [hc] at h; cases u; exact ⟨(Except.ok.inj h).symm, rfl⟩

theorem assignAngles_eq (uff : List String) (params : List String → String) (excl : Option (List Nat))
    (terms : List (List Nat)) (r : Assigned) (h : assignAngles uff params excl terms = .ok r) :
    r = assignSimple 3 (uffFn uff) params excl terms ∧ checkTerms 3 uff terms = .ok () := by
  unfold assignAngles at h
  cases hc : checkTerms 3 uff terms with
  | error e => rw [hc] at h; cases h
  | ok u => rw [hc] at h; cases u; exact ⟨(Except.ok.inj h).symm, rfl⟩

theorem assignDihedrals_eq (uff : List String) (dparams : DKey → DParam) (excl : Option (List Nat))
    (terms : List (List Nat)) (r : Assigned) (h : assignDihedrals uff dparams excl terms = .ok r) :
    assignDihedralsCore (uffFn uff) dparams excl terms = .ok r ∧ checkTerms 4 uff terms = .ok () := by
  unfold assignDihedrals at h
  cases hc : checkTerms 4 uff terms with
  | error e => rw [hc] at h; cases h
  | ok u => rw [hc] at h; cases u; exact ⟨h, rfl⟩

theorem seqKey_eq_iff (uff : Nat → String) (t u : List Nat) :
    seqKey uff t = seqKey uff u ↔ t.map uff = u.map uff ∨ t.map uff = (u.map uff).reverse :=
  typekey_eq_iff _ _

/-! ### renaming of atoms -/

section rename
variable (σ : Nat → Nat) (hσ : ∀ a b, σ a = σ b → a = b)
include hσ

theorem allInSet_rename (s t : List Nat) : allInSet (s.map σ) (t.map σ) = allInSet s t := by
  rw [Bool.eq_iff_iff, allInSet_iff, allInSet_iff]
  constructor
  · intro h a ha
    obtain ⟨b, hb, e⟩ := List.mem_map.mp (h (σ a) (List.mem_map.mpr ⟨a, ha, rfl⟩))
    exact hσ _ _ e ▸ hb
  · intro h a ha
    obtain ⟨b, hb, rfl⟩ := List.mem_map.mp ha
    exact List.mem_map.mpr ⟨b, h b hb, rfl⟩

theorem excludes_rename (arity : Nat) (excl : Option (List Nat)) (t : List Nat) :
    Excludes arity (excl.map (·.map σ)) (t.map σ) ↔ Excludes arity excl t := by
  unfold Excludes
  cases excl with
  | none => simp
  | some s =>
    have hl : (dedup (s.map σ)).length = (dedup s).length := by
      rw [dedup_map_inj σ s (fun a _ b _ e => hσ a b e), List.length_map]
    have ha := allInSet_rename σ hσ s t
    rw [Bool.eq_iff_iff, allInSet_iff, allInSet_iff] at ha
    constructor
    · rintro ⟨s', e, h1, h2⟩
      cases e
      exact ⟨s, rfl, hl ▸ h1, ha.mp h2⟩
    · rintro ⟨s', e, h1, h2⟩
      cases e
      exact ⟨s.map σ, rfl, hl ▸ h1, ha.mpr h2⟩

theorem applyExclude_rename (arity : Nat) (excl : Option (List Nat)) (terms : List (List Nat)) :
    applyExclude arity (excl.map (·.map σ)) (terms.map (·.map σ)) = (applyExclude arity excl terms).map (·.map σ) := by
  rw [applyExclude_eq_filter, applyExclude_eq_filter, List.filter_map]
  congr 1
  apply List.filter_congr
  intro t _
  simp only [Function.comp]
  congr 1
  rw [Bool.eq_iff_iff, decide_eq_true_eq, decide_eq_true_eq]
  exact excludes_rename σ hσ arity excl t

theorem applyExclude_rename_perm (arity : Nat) (excl : Option (List Nat)) (terms terms' : List (List Nat))
    (hperm : terms'.Perm (terms.map (·.map σ))) :
    (applyExclude arity (excl.map (·.map σ)) terms').Perm ((applyExclude arity excl terms).map (·.map σ)) := by
  rw [← applyExclude_rename σ hσ, applyExclude_eq_filter, applyExclude_eq_filter]
  exact hperm.filter _

theorem sameCentral_rename (u t : List Nat) (hu : u.length = 4) (ht : t.length = 4) :
    centralKey (u.map σ) = centralKey (t.map σ) ↔ centralKey u = centralKey t := by
  match u, hu with
  | [u0, u1, u2, u3], _ =>
    match t, ht with
    | [t0, t1, t2, t3], _ =>
      simp only [centralKey, List.map_cons, List.getD_cons_succ, List.getD_cons_zero]
      rw [typekey_eq_iff, typekey_eq_iff]
      simp only [List.reverse_cons, List.reverse_nil, List.nil_append, List.cons_append, List.cons.injEq, and_true]
      constructor
      · rintro (⟨h1, h2⟩ | ⟨h1, h2⟩)
        · exact Or.inl ⟨hσ _ _ h1, hσ _ _ h2⟩
        · exact Or.inr ⟨hσ _ _ h1, hσ _ _ h2⟩
      · rintro (⟨h1, h2⟩ | ⟨h1, h2⟩)
        · exact Or.inl ⟨by rw [h1], by rw [h2]⟩
        · exact Or.inr ⟨by rw [h1], by rw [h2]⟩

theorem torsionCount_rename (terms terms' : List (List Nat)) (hperm : terms'.Perm (terms.map (·.map σ)))
    (har : ∀ u ∈ terms, u.length = 4) (t : List Nat) (ht : t.length = 4) :
    torsionCount terms' (t.map σ) = torsionCount terms t := by
  unfold torsionCount
  rw [(hperm.map centralKey).count_eq, List.map_map, List.count_eq_length_filter, List.count_eq_length_filter,
    List.filter_map, List.filter_map, List.length_map, List.length_map]
  congr 1
  apply List.filter_congr
  intro u hu
  simp only [Function.comp]
  rw [Bool.eq_iff_iff, beq_iff_eq, beq_iff_eq]
  exact sameCentral_rename σ hσ u t (har u hu) ht

end rename

theorem seqKey_rename (σ : Nat → Nat) (uff uff' : Nat → String) (huff : ∀ a, uff' (σ a) = uff a) (t : List Nat) :
    seqKey uff' (t.map σ) = seqKey uff t := by
  unfold seqKey
  rw [List.map_map]
  congr 1
  apply List.map_congr_left
  intro a _; exact huff a

theorem mem_typed_of_mem {κ : Type} [DecidableEq κ] (key : List Nat → κ) (ts : List (List Nat)) (t : List Nat) (h : t ∈ ts) :
    ∃ y, (t, y) ∈ typedBy key ts :=
  ⟨_, (mem_typedBy key ts t _).mpr ⟨h, rfl⟩⟩

/-! ### retype -/

/-! #### the stable insertion sort -/

theorem insertBy_perm {α} (le : α → α → Bool) (x : α) (l : List α) : (insertBy le x l).Perm (x :: l) := by
  induction l with
  | nil => simp [insertBy]
  | cons y ys ih =>
    unfold insertBy
    split
    · exact List.Perm.refl _
    · exact (List.Perm.cons y ih).trans (List.Perm.swap x y ys)

theorem sortBy_perm {α} (le : α → α → Bool) (l : List α) : (sortBy le l).Perm l := by
  induction l with
  | nil => simp [sortBy]
  | cons x xs ih =>
    show (insertBy le x (sortBy le xs)).Perm (x :: xs)
    exact (insertBy_perm le x _).trans (List.Perm.cons x ih)

/-- the order a STABLE sort by `le` produces from a list whose elements are pairwise related by `R` in their original
    order: strictly smaller key first, and among equal keys the original (`R`) order -/
def StableOrder {α} (le : α → α → Bool) (R : α → α → Prop) (a b : α) : Prop :=
  (le a b = true ∧ le b a = false) ∨ (le a b = true ∧ le b a = true ∧ R a b)

theorem StableOrder.le {α} {le : α → α → Bool} {R : α → α → Prop} {a b : α} (h : StableOrder le R a b) :
    le a b = true := by
  rcases h with h | h
  · exact h.1
  · exact h.1

theorem insertBy_stable {α} (le : α → α → Bool) (R : α → α → Prop)
    (htrans : ∀ a b c, le a b = true → le b c = true → le a c = true)
    (htotal : ∀ a b, le a b = true ∨ le b a = true)
    (x : α) (l : List α) (hl : l.Pairwise (StableOrder le R)) (hx : ∀ y ∈ l, R x y) :
    (insertBy le x l).Pairwise (StableOrder le R) := by
  induction l with
  | nil => simp [insertBy]
  | cons y ys ih =>
    have hy := List.pairwise_cons.mp hl
    unfold insertBy
    split
    · rename_i hxy
      refine List.pairwise_cons.mpr ⟨?_, hl⟩
      intro z hz
      have hxz : le x z = true := by
        rcases List.mem_cons.mp hz with rfl | hz'
        · exact hxy
        · exact htrans x y z hxy (hy.1 z hz').le
      cases hzx : le z x with
      | false => exact Or.inl ⟨hxz, hzx⟩
      | true => exact Or.inr ⟨hxz, hzx, hx z hz⟩
    · rename_i hxy
      have hxy' : le x y = false := by simpa using hxy
      have hyx : le y x = true := by
        rcases htotal x y with h | h
        · rw [hxy'] at h; cases h
        · exact h
      refine List.pairwise_cons.mpr ⟨?_, ih hy.2 (fun z hz => hx z (List.mem_cons_of_mem _ hz))⟩
      intro z hz
      rcases List.mem_cons.mp ((insertBy_perm le x ys).mem_iff.mp hz) with rfl | hz'
      · exact Or.inl ⟨hyx, hxy'⟩
      · exact hy.1 z hz'

/-- **stability of the sort**: a list in `R`-order is brought into key order with `R` kept among equal keys -/
theorem sortBy_stable {α} (le : α → α → Bool) (R : α → α → Prop)
    (htrans : ∀ a b c, le a b = true → le b c = true → le a c = true)
    (htotal : ∀ a b, le a b = true ∨ le b a = true)
    (l : List α) (hl : l.Pairwise R) : (sortBy le l).Pairwise (StableOrder le R) := by
  induction l with
  | nil => simp [sortBy]
  | cons x xs ih =>
    have hx := List.pairwise_cons.mp hl
    show (insertBy le x (sortBy le xs)).Pairwise _
    refine insertBy_stable le R htrans htotal x _ (ih hx.2) ?_
    intro y hy
    exact hx.1 y ((sortBy_perm le xs).mem_iff.mp hy)

/-- a permutation of a list that is strictly ordered by an asymmetric relation, itself strictly ordered, is that list:
    the sorted order is unique -/
theorem sorted_perm_unique {α} (T : α → α → Prop) (hasym : ∀ a b, T a b → ¬ T b a)
    (l1 l2 : List α) (hp : l1.Perm l2) (h1 : l1.Pairwise T) (h2 : l2.Pairwise T) : l1 = l2 := by
  induction l1 generalizing l2 with
  | nil => exact (List.Perm.nil_eq hp)
  | cons x xs ih =>
    cases l2 with
    | nil => exact absurd hp.length_eq (by simp)
    | cons y ys =>
      have hx := List.pairwise_cons.mp h1
      have hy := List.pairwise_cons.mp h2
      have hxy : x = y := by
        apply Classical.byContradiction
        intro hne
        have hx' : x ∈ ys := by
          rcases List.mem_cons.mp (hp.mem_iff.mp List.mem_cons_self) with h | h
          · exact absurd h hne
          · exact h
        have hy' : y ∈ xs := by
          rcases List.mem_cons.mp (hp.mem_iff.mpr List.mem_cons_self) with h | h
          · exact absurd h.symm hne
          · exact h
        exact hasym x y (hx.1 y hy') (hy.1 x hx')
      subst hxy
      rw [ih ys (List.Perm.cons_inv hp) hx.2 hy.2]

theorem sortedTypes_perm (tbl : List (String × Dec)) (nt : List String) : (sortedTypes tbl nt).Perm (dedup nt) := by
  unfold sortedTypes
  exact (sortBy_perm _ _).trans (sortBy_perm _ _)

/-- the order of the retype labels: periodic-table position first, then the string order -/
def LabelOrder (tbl : List (String × Dec)) (a b : String) : Prop :=
  ptableKeyOf tbl a < ptableKeyOf tbl b ∨ (ptableKeyOf tbl a = ptableKeyOf tbl b ∧ a < b)

theorem sortedTypes_ordered (tbl : List (String × Dec)) (nt : List String) :
    (sortedTypes tbl nt).Pairwise (LabelOrder tbl) := by
  unfold sortedTypes
  -- first sort: strictly increasing strings
  have h1 : (sortBy (fun a b : String => decide (a ≤ b)) (dedup nt)).Pairwise (fun a b => a < b) := by
    have := sortBy_stable (fun a b : String => decide (a ≤ b)) (fun a b => a ≠ b)
      (fun a b c hab hbc => by
        simp only [decide_eq_true_eq] at *
        exact String.le_trans hab hbc)
      (fun a b => by
        simp only [decide_eq_true_eq]
        exact String.le_total a b)
      (dedup nt) (nodup_dedup nt)
    refine this.imp ?_
    intro a b h
    rcases h with ⟨_, hba⟩ | ⟨hab, hba, hne⟩
    · have : ¬ b ≤ a := by simpa using hba
      exact String.not_le.mp this
    · simp only [decide_eq_true_eq] at hab hba
      exact absurd (String.le_antisymm hab hba) hne
  have h2 := sortBy_stable (fun a b : String => decide (ptableKeyOf tbl a ≤ ptableKeyOf tbl b)) (fun a b => a < b)
    (fun a b c hab hbc => by simp only [decide_eq_true_eq] at *; omega)
    (fun a b => by simp only [decide_eq_true_eq]; omega)
    _ h1
  refine h2.imp ?_
  intro a b h
  rcases h with ⟨hab, hba⟩ | ⟨hab, hba, hlt⟩
  · simp only [decide_eq_true_eq, decide_eq_false_iff_not] at hab hba
    exact Or.inl (by omega)
  · simp only [decide_eq_true_eq] at hab hba
    exact Or.inr ⟨by omega, hlt⟩

theorem lookup_of_index (tbl : List (String × Dec)) (e : String)
    (h : (ptableIndex tbl e).isNone = false) : ∃ d, lookup tbl e = some d := by
  unfold ptableIndex at h
  induction tbl with
  | nil => simp [indexOf?] at h
  | cons p rest ih =>
    obtain ⟨k, v⟩ := p
    by_cases e' : k = e
    · exact ⟨v, by simp [lookup, e']⟩
    · simp only [List.map_cons, indexOf?, e', if_false, Option.isNone_map] at h
      obtain ⟨d, hd⟩ := ih h
      exact ⟨d, by simp [lookup, e', hd]⟩

theorem retype_ok (tbl : List (String × Dec)) (pairText : String → String) (nt : List String) (r : Retyped)
    (h : retype tbl pairText nt = .ok r) :
    (∀ s ∈ nt, (ptableIndex tbl (elementOf s)).isNone = false) ∧
    r.labels = sortedTypes tbl nt ∧ r.elements = r.labels.map elementOf ∧
    r.masses = r.elements.map (fun e => ((lookup tbl e).map Dec.toRat).getD 0) ∧
    r.atomTypes = nt.map (typeIndex r.labels) ∧ r.pairCoeffs = r.labels.map pairText := by
  unfold retype at h
  split at h
  · cases h
  · rename_i hn
    have := Except.ok.inj h
    subst this
    refine ⟨?_, rfl, rfl, rfl, rfl, rfl⟩
    intro s hs
    cases hc : (ptableIndex tbl (elementOf s)).isNone with
    | false => rfl
    | true => exact absurd (List.any_eq_true.mpr ⟨s, hs, hc⟩) hn

/-! ### outcome of the dihedral assignment, and renaming at the level of the checked entry points -/

theorem assignDihedralsCore_cases (uff : Nat → String) (dparams : DKey → DParam) (excl : Option (List Nat))
    (terms : List (List Nat)) :
    ((∃ r, assignDihedralsCore uff dparams excl terms = .ok r) ∧
        ∀ t ∈ applyExclude 4 excl terms, dparams (dihedralKey uff terms t) ≠ .unsupported) ∨
    (assignDihedralsCore uff dparams excl terms = .error (.reject "unsupported") ∧
        ∃ t ∈ applyExclude 4 excl terms, dparams (dihedralKey uff terms t) = .unsupported) := by
  by_cases hany : (dedup ((applyExclude 4 excl terms).map (dihedralKey uff terms))).any
      (fun k => dparams k == .unsupported) = true
  · right
    refine ⟨by unfold assignDihedralsCore; simp only [hany, if_true], ?_⟩
    obtain ⟨k, hk, hu⟩ := List.any_eq_true.mp hany
    obtain ⟨t, ht, rfl⟩ := List.mem_map.mp ((mem_dedup _ _).mp hk)
    exact ⟨t, ht, by simpa using hu⟩
  · left
    have hex : ∃ r, assignDihedralsCore uff dparams excl terms = .ok r := by
      unfold assignDihedralsCore; simp only [hany]; exact ⟨_, rfl⟩
    obtain ⟨r, hr⟩ := hex
    exact ⟨⟨r, hr⟩, (assignDihedralsCore_ok uff dparams excl terms r hr).1⟩

theorem dihedralKey_rename (σ : Nat → Nat) (hσ : ∀ a b, σ a = σ b → a = b) (uff uff' : Nat → String)
    (huff : ∀ a, uff' (σ a) = uff a) (terms terms' : List (List Nat))
    (hperm : terms'.Perm (terms.map (·.map σ))) (har : ∀ t ∈ terms, t.length = 4) (t : List Nat) (ht : t ∈ terms) :
    dihedralKey uff' terms' (t.map σ) = dihedralKey uff terms t := by
  unfold dihedralKey
  rw [seqKey_rename σ uff uff' huff t, torsionCount_rename σ hσ terms terms' hperm har t (har t ht)]

theorem uffFn_rename (σ : Nat → Nat) (uff uff' : List String) (huff : ∀ a, uff'[σ a]? = uff[a]?) (a : Nat) :
    uffFn uff' (σ a) = uffFn uff a := by
  unfold uffFn; rw [huff a]

theorem checkTerms_rename (arity : Nat) (σ : Nat → Nat) (uff uff' : List String) (huff : ∀ a, uff'[σ a]? = uff[a]?)
    (terms terms' : List (List Nat)) (hperm : terms'.Perm (terms.map (·.map σ))) :
    checkTerms arity uff' terms' = checkTerms arity uff terms := by
  have h1 : terms'.any (fun t => t.length != arity) = terms.any (fun t => t.length != arity) := by
    rw [Bool.eq_iff_iff, List.any_eq_true, List.any_eq_true]
    constructor
    · rintro ⟨t', ht', hl⟩
      obtain ⟨t, ht, rfl⟩ := List.mem_map.mp (hperm.mem_iff.mp ht')
      exact ⟨t, ht, by simpa using hl⟩
    · rintro ⟨t, ht, hl⟩
      exact ⟨t.map σ, hperm.mem_iff.mpr (List.mem_map.mpr ⟨t, ht, rfl⟩), by simpa using hl⟩
  have hge : ∀ a, σ a ≥ uff'.length ↔ a ≥ uff.length := by
    intro a
    have := huff a
    constructor
    · intro h
      have h' : uff'[σ a]? = none := List.getElem?_eq_none_iff.mpr h
      rw [this] at h'
      exact List.getElem?_eq_none_iff.mp h'
    · intro h
      have h' : uff[a]? = none := List.getElem?_eq_none_iff.mpr h
      rw [← this] at h'
      exact List.getElem?_eq_none_iff.mp h'
  have h2 : terms'.any (fun t => t.any (fun a => decide (a ≥ uff'.length)))
      = terms.any (fun t => t.any (fun a => decide (a ≥ uff.length))) := by
    rw [Bool.eq_iff_iff, List.any_eq_true, List.any_eq_true]
    constructor
    · rintro ⟨t', ht', hl⟩
      obtain ⟨t, ht, rfl⟩ := List.mem_map.mp (hperm.mem_iff.mp ht')
      obtain ⟨a', ha', hg⟩ := List.any_eq_true.mp hl
      obtain ⟨a, ha, rfl⟩ := List.mem_map.mp ha'
      exact ⟨t, ht, List.any_eq_true.mpr ⟨a, ha, by simpa using (hge a).mp (by simpa using hg)⟩⟩
    · rintro ⟨t, ht, hl⟩
      obtain ⟨a, ha, hg⟩ := List.any_eq_true.mp hl
      refine ⟨t.map σ, hperm.mem_iff.mpr (List.mem_map.mpr ⟨t, ht, rfl⟩), ?_⟩
      exact List.any_eq_true.mpr ⟨σ a, List.mem_map.mpr ⟨a, ha, rfl⟩, by simpa using (hge a).mpr (by simpa using hg)⟩
  unfold checkTerms
  rw [h1, h2]

end Mofun.Terms
