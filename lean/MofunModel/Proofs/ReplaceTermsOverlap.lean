/-
  ReplaceTermsOverlap.lean — C06, part 6: the loop of `replace_pattern_in_structure` when matches SHARE retained atoms.
  The type of a retained atom is written by every match that retains it; if all of them write the same type id, that
  is the type it has at the end (`RetainedTy`).  Namespace `Mofun.C06`.
-/
import MofunModel.Proofs.ReplaceTermsGuards

namespace Mofun.C06
open Mofun

theorem placeAtoms_ty (cell : Option Mat3) (p0 : Vec3) (r : Atoms) (m : PlacedMatch) (k c : Nat) :
    ((placeAtoms cell p0 r m).atoms[k]?).map (fun br => br.ty + c) = (r.atoms[k]?).map (fun br => br.ty + c) := by
  simp only [placeAtoms, List.getElem?_map, Option.map_map]
  rfl

/-- after the matches `done`: an atom of `s` that at least one match retains, and to which every retaining match
    gives the type id `T`, has type id `T` -/
def RetainedTy (s r : Atoms) (pairs : List (Nat × Nat)) (ra : Bool) (done : List PlacedMatch) (st : ReplaceState) :
    Prop :=
  ∀ x T : Nat, x < s.atoms.length →
    (∀ m ∈ done, ∀ k : Nat, (k, x) ∈ matchMap pairs ra m →
      (r.atoms[k]?).map (fun br => br.ty + s.typeElems.length) = some T) →
    (∃ m ∈ done, x ∈ (matchMap pairs ra m).map (·.2)) →
    (st.s.atoms[x]?).map (·.ty) = some T

/-- the loop invariant `FoldInv` together with `RetainedTy` (the latter for matches whose index maps are injective) -/
def FoldInvRet (s r : Atoms) (p0 : Vec3) (pairs : List (Nat × Nat)) (ra : Bool) (done : List PlacedMatch)
    (st : ReplaceState) : Prop :=
  FoldInv s r p0 pairs ra done st
  ∧ ((∀ m ∈ done, ((matchMap pairs ra m).map (·.2)).Nodup) → RetainedTy s r pairs ra done st)

theorem foldInvRet_step (s r : Atoms) (p0 : Vec3) (pairs : List (Nat × Nat)) (ra ig : Bool)
    (done : List PlacedMatch) (m : PlacedMatch) (st st' : ReplaceState)
    (hI : FoldInvRet s r p0 pairs ra done st)
    (h : stepR s r p0 pairs (s.extendTypes r).2 ra ig (.ok st) m = .ok st') :
    FoldInvRet s r p0 pairs ra (done ++ [m]) st' := by
  refine ⟨foldInv_step s r p0 pairs ra ig done m st st' hI.1 h, ?_⟩
  intro hnd x T hx hall hex
  obtain ⟨hext, _, _⟩ := stepR_ok s r p0 pairs _ ra ig st st' m h
  obtain ⟨_, _, aty, atarget, _⟩ := extend_some_atoms _ _ _ _ _ hext
  have hxst : x < st.s.atoms.length := by rw [hI.1.len]; omega
  by_cases hxm : x ∈ (matchMap pairs ra m).map (·.2)
  · obtain ⟨kv, hkv, e⟩ := List.mem_map.mp hxm
    have hkx : (kv.1, x) ∈ matchMap pairs ra m := by rw [← e]; exact hkv
    rw [atarget (hnd m (by simp)) kv.1 x hkx, placeAtoms_ty]
    exact hall m (by simp) kv.1 hkx
  · rw [aty x hxst hxm]
    obtain ⟨m0, hm0, hx0⟩ := hex
    have hm0' : m0 ∈ done := by
      rcases List.mem_append.mp hm0 with h1 | h1
      · exact h1
      · have : m0 = m := by simpa using h1
        subst this; exact absurd hx0 hxm
    exact hI.2 (fun m' hm' => hnd m' (by simp [hm'])) x T hx (fun m' hm' => hall m' (by simp [hm'])) ⟨m0, hm0', hx0⟩

theorem foldInvRet_all (s p r : Atoms) (ms : List PlacedMatch) (ra ig : Bool) (st : ReplaceState)
    (h : ms.foldl (stepR s r (p0Of p) (unchangedPairs r p) (s.extendTypes r).2 ra ig)
          (.ok { s := (s.extendTypes r).1, del := [] }) = .ok st) :
    FoldInvRet s r (p0Of p) (unchangedPairs r p) ra ms st := by
  have h0 : FoldInvRet s r (p0Of p) (unchangedPairs r p) ra [] { s := (s.extendTypes r).1, del := [] } := by
    refine ⟨foldInv_init s r (p0Of p) (unchangedPairs r p) ra, ?_⟩
    intro _ x T _ _ hex
    obtain ⟨m, hm, _⟩ := hex
    simp at hm
  have := foldl_stepR_inv s r (p0Of p) (unchangedPairs r p) (s.extendTypes r).2 ra ig
    (FoldInvRet s r (p0Of p) (unchangedPairs r p) ra)
    (fun done m st st' hI hs => foldInvRet_step s r (p0Of p) (unchangedPairs r p) ra ig done m st st' hI hs)
    ms [] _ st h0 h
  simpa using this

end Mofun.C06
