/- helper lemmas for C14 (elements from masses): `argminAux` = first nearest entry; |·| on rationals -/
import MofunModel.Model.Mass

namespace Mofun

theorem absQ_nonneg (x : Rat) : 0 ≤ absQ x := by
  unfold absQ; split <;> grind

theorem absQ_zero : absQ 0 = 0 := by
  unfold absQ; split <;> grind

theorem absQ_eq_zero_iff (x : Rat) : absQ x = 0 ↔ x = 0 := by
  unfold absQ; split <;> grind

theorem absQ_sub_comm (a b : Rat) : absQ (a - b) = absQ (b - a) := by
  unfold absQ; split <;> split <;> grind

theorem absQ_tri (a b c : Rat) : absQ (a - c) ≤ absQ (a - b) + absQ (b - c) := by
  unfold absQ; split <;> split <;> split <;> grind

/-- `x` is the FIRST entry of `table` among those nearest to `m`: everything before it is strictly farther,
    everything after it at least as far -/
def IsFirstNearest (table : MassTable) (m : Rat) (x : String × Rat) : Prop :=
  ∃ pre post, table = pre ++ x :: post
    ∧ (∀ e ∈ pre, massDist m x < massDist m e) ∧ (∀ e ∈ post, massDist m x ≤ massDist m e)

theorem IsFirstNearest.mem {table m x} (h : IsFirstNearest table m x) : x ∈ table := by
  obtain ⟨pre, post, rfl, _, _⟩ := h; simp

theorem IsFirstNearest.le {table m x} (h : IsFirstNearest table m x) :
    ∀ e ∈ table, massDist m x ≤ massDist m e := by
  obtain ⟨pre, post, rfl, h1, h2⟩ := h
  intro e he
  simp only [List.mem_append, List.mem_cons] at he
  rcases he with he | rfl | he
  · have := h1 e he; grind
  · grind
  · exact h2 e he

/-- the scan of python's `min(..., key=…)`: what it returns is the first nearest entry of `best :: es` -/
theorem argminAux_firstNearest (m : Rat) (best : String × Rat) (es : List (String × Rat)) :
    IsFirstNearest (best :: es) m (argminAux m best es) := by
  induction es generalizing best with
  | nil => exact ⟨[], [], rfl, by simp, by simp⟩
  | cons e es ih =>
    unfold argminAux
    by_cases h : massDist m e < massDist m best
    · simp only [h, if_true]
      have hfn := ih e
      have hle := hfn.le e (by simp)
      obtain ⟨pre, post, heq, h1, h2⟩ := hfn
      refine ⟨best :: pre, post, by rw [heq]; rfl, ?_, h2⟩
      intro x hx
      simp only [List.mem_cons] at hx
      rcases hx with rfl | hx
      · grind
      · exact h1 x hx
    · simp only [h, if_false]
      obtain ⟨pre, post, heq, h1, h2⟩ := ih best
      generalize argminAux m best es = r at heq h1 h2 ⊢
      cases pre with
      | nil =>
        simp only [List.nil_append, List.cons.injEq] at heq
        obtain ⟨hb, hes⟩ := heq
        refine ⟨[], e :: post, by rw [← hb, hes]; rfl, by simp, ?_⟩
        intro x hx
        simp only [List.mem_cons] at hx
        rcases hx with rfl | hx
        · rw [← hb]; grind
        · exact h2 x hx
      | cons b pre' =>
        simp only [List.cons_append, List.cons.injEq] at heq
        obtain ⟨hb, hes⟩ := heq
        subst hb
        refine ⟨best :: e :: pre', post, by rw [hes]; rfl, ?_, h2⟩
        intro x hx
        have hbest := h1 best (by simp)
        simp only [List.mem_cons] at hx
        rcases hx with rfl | rfl | hx
        · exact hbest
        · grind
        · exact h1 x (by simp [hx])

/-- there is at most one first nearest entry -/
theorem IsFirstNearest.unique {table m x y} (hx : IsFirstNearest table m x) (hy : IsFirstNearest table m y) :
    x = y := by
  obtain ⟨p1, q1, e1, a1, b1⟩ := hx
  obtain ⟨p2, q2, e2, a2, b2⟩ := hy
  rw [e1] at e2
  rcases List.append_eq_append_iff.mp e2 with ⟨a', hp, hq⟩ | ⟨c', hp, hq⟩
  · cases a' with
    | nil => simp at hq; exact hq.1
    | cons z zs =>
      simp only [List.cons_append, List.cons.injEq] at hq
      obtain ⟨rfl, hq⟩ := hq
      have h1 := a2 x (by rw [hp]; simp)
      have h2 := b1 y (by rw [hq]; simp)
      grind
  · cases c' with
    | nil => simp at hq; exact hq.1.symm
    | cons z zs =>
      simp only [List.cons_append, List.cons.injEq] at hq
      obtain ⟨rfl, hq⟩ := hq
      have h1 := a1 y (by rw [hp]; simp)
      have h2 := b2 x (by rw [hq]; simp)
      grind

theorem nearest_eq_some_iff (table : MassTable) (m : Rat) (x : String × Rat) :
    nearest table m = some x ↔ IsFirstNearest table m x := by
  cases table with
  | nil =>
    simp only [nearest]
    constructor
    · intro h; cases h
    · rintro ⟨pre, post, h, _⟩; simp at h
  | cons e es =>
    simp only [nearest, Option.some.injEq]
    constructor
    · rintro rfl; exact argminAux_firstNearest m e es
    · intro h; exact (argminAux_firstNearest m e es).unique h

theorem nearest_eq_none_iff (table : MassTable) (m : Rat) : nearest table m = none ↔ table = [] := by
  cases table <;> simp [nearest]

theorem guessAll_ok_iff (table : MassTable) (tol : Rat) (ms : List Rat) (ss : List String) :
    guessAll table tol ms = .ok ss ↔ ms.map (guess table tol) = ss.map some := by
  induction ms generalizing ss with
  | nil => cases ss <;> simp [guessAll]
  | cons m ms ih =>
    unfold guessAll
    cases hg : guess table tol m with
    | none => cases ss <;> simp [hg]
    | some s =>
      cases hr : guessAll table tol ms with
      | error e =>
        simp only [List.map_cons, hg]
        constructor
        · intro h; cases h
        · intro h
          cases ss with
          | nil => simp at h
          | cons t ts =>
            simp only [List.map_cons, List.cons.injEq] at h
            have := (ih ts).mpr h.2
            rw [hr] at this; cases this
      | ok rs =>
        have ih' := ih rs
        simp only [List.map_cons, hg]
        constructor
        · intro h
          cases h
          rw [(ih rs).mp hr]; rfl
        · intro h
          cases ss with
          | nil => simp at h
          | cons t ts =>
            simp only [List.map_cons, List.cons.injEq, Option.some.injEq] at h
            have h2 := (ih ts).mpr h.2
            rw [hr] at h2
            cases h2
            rw [h.1]

theorem guessAll_error_iff (table : MassTable) (tol : Rat) (ms : List Rat) :
    (∃ e, guessAll table tol ms = .error e) ↔ ∃ m ∈ ms, guess table tol m = none := by
  induction ms with
  | nil => simp [guessAll]
  | cons m ms ih =>
    unfold guessAll
    cases hg : guess table tol m with
    | none => simp [hg]
    | some s =>
      cases hr : guessAll table tol ms with
      | error e =>
        have := ih.mp ⟨e, hr⟩
        obtain ⟨x, hx, hxn⟩ := this
        simp only [List.mem_cons]
        exact ⟨fun _ => ⟨x, Or.inr hx, hxn⟩, fun _ => ⟨e, rfl⟩⟩
      | ok rs =>
        simp only [List.mem_cons]
        constructor
        · rintro ⟨e, he⟩; cases he
        · rintro ⟨x, hx | hx, hxn⟩
          · subst hx; rw [hg] at hxn; cases hxn
          · obtain ⟨e, he⟩ := ih.mpr ⟨x, hx, hxn⟩
            rw [hr] at he; cases he

end Mofun
