/-
  helper lemmas for C17 (bond detection): table facts (every cutoff is positive), the specification of the two
  loops, Cauchy–Schwarz and "27 images suffice", wrapping as a lattice translation, symmetry.
-/
import MofunModel.Model.Bonds
import Mathlib.Tactic.Ring
import Mathlib.Tactic.Linarith
import Mathlib.Tactic.Positivity
import Mathlib.Tactic.FieldSimp

namespace Mofun.Bonds
open Mofun Vec3

/-! ### tables and cutoffs -/

theorem lookup_mem {β} (tbl : List (String × β)) (k : String) (v : β) (h : lookup tbl k = some v) :
    (k, v) ∈ tbl := by
  induction tbl with
  | nil => simp [lookup] at h
  | cons hd tl ih =>
    obtain ⟨k', v'⟩ := hd
    unfold lookup at h
    split at h
    · rename_i hk; cases h; subst hk; exact List.mem_cons_self
    · exact List.mem_cons_of_mem _ (ih h)

theorem dec_toRat_pos (d : Dec) (h : 0 < d.m) : 0 < d.toRat := by
  unfold Dec.toRat
  apply div_pos
  · exact_mod_cast h
  · have : 0 < 10 ^ d.e := Nat.pow_pos (by decide)
    exact_mod_cast this

/-- every radius of the generated table has a positive mantissa (re-checked whenever the table changes) -/
theorem radii_mantissa_pos : ∀ p ∈ Generated.covalentRadii, 0 < p.2.m := by decide +kernel

theorem radius_pos (e : String) (r : Dec) (h : lookup Generated.covalentRadii e = some r) : 0 < r.toRat :=
  dec_toRat_pos r (radii_mantissa_pos (e, r) (lookup_mem _ _ _ h))

theorem nonMetalAllowance_pos : 0 < nonMetalAllowance := by unfold nonMetalAllowance; norm_num

theorem maxBondLength_pos (e1 e2 : String) (c : Rat) (h : maxBondLength e1 e2 = some c) : 0 < c := by
  unfold maxBondLength maxBondLengthIn at h
  split at h
  · rename_i r1 r2 h1 h2
    have p1 := radius_pos e1 r1 h1
    have p2 := radius_pos e2 r2 h2
    have p3 := nonMetalAllowance_pos
    split at h <;> cases h <;> linarith
  · cases h

theorem maxBondLength_comm (e1 e2 : String) : maxBondLength e1 e2 = maxBondLength e2 e1 := by
  unfold maxBondLength maxBondLengthIn
  cases h1 : lookup Generated.covalentRadii e1 <;> cases h2 : lookup Generated.covalentRadii e2 <;>
    simp only [Bool.or_comm, add_comm]

theorem maxBondLength_isSome (e1 e2 : String) :
    (maxBondLength e1 e2).isSome ↔
      (lookup Generated.covalentRadii e1).isSome ∧ (lookup Generated.covalentRadii e2).isSome := by
  unfold maxBondLength maxBondLengthIn
  cases h1 : lookup Generated.covalentRadii e1 <;> cases h2 : lookup Generated.covalentRadii e2 <;> simp
  split <;> simp

/-! ### the two loops -/

/-- lexicographic order on index pairs -/
def pairLt (u v : Nat × Nat) : Prop := u.1 < v.1 ∨ (u.1 = v.1 ∧ u.2 < v.2)

theorem bondRow_ok {α} (test : α → α → Except Err Bool) (i : Nat) (a1 : α) :
    ∀ (rest : List α) (j : Nat) (r : List (Nat × Nat)), bondRow test i a1 j rest = .ok r →
      (∀ x y, (x, y) ∈ r ↔ x = i ∧ ∃ k a2, y = j + k ∧ rest[k]? = some a2 ∧ test a1 a2 = .ok true)
      ∧ r.Pairwise pairLt := by
  intro rest
  induction rest with
  | nil =>
    intro j r h
    simp only [bondRow, Except.ok.injEq] at h
    subst h
    simp
  | cons a2 more ih =>
    intro j r h
    simp only [bondRow] at h
    split at h
    · cases h
    · rename_i hit hhit
      split at h
      · cases h
      · rename_i tl htl
        cases h
        obtain ⟨hmem, hsorted⟩ := ih (j + 1) tl htl
        have hmem' : ∀ x y, (x, y) ∈ tl ↔
            x = i ∧ ∃ k a, y = j + (k + 1) ∧ (a2 :: more)[k + 1]? = some a ∧ test a1 a = .ok true := by
          intro x y
          rw [hmem]
          constructor
          · rintro ⟨hx, k, a, hy, hk, ht⟩; exact ⟨hx, k, a, by omega, by simpa using hk, ht⟩
          · rintro ⟨hx, k, a, hy, hk, ht⟩; exact ⟨hx, k, a, by omega, by simpa using hk, ht⟩
        constructor
        · intro x y
          cases hit with
          | false =>
            simp only [Bool.false_eq_true, if_false]
            rw [hmem']
            constructor
            · rintro ⟨hx, k, a, hy, hk, ht⟩; exact ⟨hx, k + 1, a, hy, hk, ht⟩
            · rintro ⟨hx, k, a, hy, hk, ht⟩
              cases k with
              | zero =>
                simp only [List.getElem?_cons_zero, Option.some.injEq] at hk
                subst hk; rw [hhit] at ht; cases ht
              | succ k => exact ⟨hx, k, a, hy, hk, ht⟩
          | true =>
            simp only [if_true, List.mem_cons, Prod.mk.injEq]
            rw [hmem']
            constructor
            · rintro (⟨hx, hy⟩ | ⟨hx, k, a, hy, hk, ht⟩)
              · exact ⟨hx, 0, a2, by omega, by simp, hhit⟩
              · exact ⟨hx, k + 1, a, hy, hk, ht⟩
            · rintro ⟨hx, k, a, hy, hk, ht⟩
              cases k with
              | zero => left; exact ⟨hx, by omega⟩
              | succ k => right; exact ⟨hx, k, a, hy, hk, ht⟩
        · cases hit with
          | false => simpa using hsorted
          | true =>
            simp only [if_true, List.pairwise_cons]
            refine ⟨?_, hsorted⟩
            rintro ⟨x, y⟩ hxy
            obtain ⟨hx, k, a, hy, _, _⟩ := (hmem x y).mp hxy
            right; exact ⟨hx.symm, by simp only; omega⟩

theorem bondPairs_ok {α} (test : α → α → Except Err Bool) :
    ∀ (atoms : List α) (i : Nat) (r : List (Nat × Nat)), bondPairs test i atoms = .ok r →
      (∀ x y, (x, y) ∈ r ↔ ∃ k l a1 a2, x = i + k ∧ y = i + k + 1 + l ∧ atoms[k]? = some a1
          ∧ atoms[k + 1 + l]? = some a2 ∧ test a1 a2 = .ok true)
      ∧ r.Pairwise pairLt := by
  intro atoms
  induction atoms with
  | nil =>
    intro i r h
    simp only [bondPairs, Except.ok.injEq] at h
    subst h
    simp
  | cons a1 rest ih =>
    intro i r h
    simp only [bondPairs] at h
    split at h
    · cases h
    · rename_i row hrow
      split at h
      · cases h
      · rename_i tl htl
        cases h
        obtain ⟨hrmem, hrsorted⟩ := bondRow_ok test i a1 rest (i + 1) row hrow
        obtain ⟨hmem, hsorted⟩ := ih (i + 1) tl htl
        constructor
        · intro x y
          rw [List.mem_append, hrmem, hmem]
          constructor
          · rintro (⟨hx, l, a2, hy, hl, ht⟩ | ⟨k, l, b1, b2, hx, hy, hk, hl, ht⟩)
            · exact ⟨0, l, a1, a2, by omega, by omega, by simp, by simpa [Nat.add_comm 1 l] using hl, ht⟩
            · refine ⟨k + 1, l, b1, b2, by omega, by omega, by simpa using hk, ?_, ht⟩
              have : k + 1 + 1 + l = (k + 1 + l) + 1 := by omega
              rw [this]; simpa using hl
          · rintro ⟨k, l, b1, b2, hx, hy, hk, hl, ht⟩
            cases k with
            | zero =>
              left
              simp only [List.getElem?_cons_zero, Option.some.injEq] at hk
              subst hk
              refine ⟨by omega, l, b2, by omega, ?_, ht⟩
              have : 0 + 1 + l = l + 1 := by omega
              rw [this] at hl; simpa using hl
            | succ k =>
              right
              refine ⟨k, l, b1, b2, by omega, by omega, by simpa using hk, ?_, ht⟩
              have : k + 1 + 1 + l = (k + 1 + l) + 1 := by omega
              rw [this] at hl; simpa using hl
        · rw [List.pairwise_append]
          refine ⟨hrsorted, hsorted, ?_⟩
          rintro ⟨x, y⟩ hxy ⟨x', y'⟩ hxy'
          obtain ⟨hx, _⟩ := (hrmem x y).mp hxy
          obtain ⟨k, l, _, _, hx', _⟩ := (hmem x' y').mp hxy'
          left; simp only; omega

/-- the loops fail only where a pair test fails -/
theorem bondRow_error {α} (test : α → α → Except Err Bool) (i : Nat) (a1 : α) :
    ∀ (rest : List α) (j : Nat) (e : Err), bondRow test i a1 j rest = .error e →
      ∃ a2 ∈ rest, test a1 a2 = .error e := by
  intro rest
  induction rest with
  | nil => intro j e h; simp [bondRow] at h
  | cons a2 more ih =>
    intro j e h
    simp only [bondRow] at h
    split at h
    · rename_i e' he; cases h; exact ⟨a2, List.mem_cons_self, he⟩
    · split at h
      · rename_i e' he; cases h
        obtain ⟨b, hb, hbe⟩ := ih (j + 1) e he
        exact ⟨b, List.mem_cons_of_mem _ hb, hbe⟩
      · split at h <;> cases h

theorem bondPairs_error {α} (test : α → α → Except Err Bool) :
    ∀ (atoms : List α) (i : Nat) (e : Err), bondPairs test i atoms = .error e →
      ∃ a1 ∈ atoms, ∃ a2 ∈ atoms, test a1 a2 = .error e := by
  intro atoms
  induction atoms with
  | nil => intro i e h; simp [bondPairs] at h
  | cons a1 rest ih =>
    intro i e h
    simp only [bondPairs] at h
    split at h
    · rename_i e' he; cases h
      obtain ⟨b, hb, hbe⟩ := bondRow_error test i a1 rest (i + 1) e he
      exact ⟨a1, List.mem_cons_self, b, List.mem_cons_of_mem _ hb, hbe⟩
    · split at h
      · rename_i e' he; cases h
        obtain ⟨a, ha, b, hb, hab⟩ := ih (i + 1) e he
        exact ⟨a, List.mem_cons_of_mem _ ha, b, List.mem_cons_of_mem _ hb, hab⟩
      · cases h

/-- congruence: the result depends only on the outcomes of the pair tests -/
theorem bondRow_map {α β} (test : α → α → Except Err Bool) (test' : β → β → Except Err Bool) (f : α → β)
    (i : Nat) (a1 : α) :
    ∀ (rest : List α) (j : Nat), (∀ b ∈ rest, test' (f a1) (f b) = test a1 b) →
      bondRow test' i (f a1) j (rest.map f) = bondRow test i a1 j rest := by
  intro rest
  induction rest with
  | nil => intro j _; rfl
  | cons a2 more ih =>
    intro j h
    simp only [List.map_cons, bondRow]
    rw [h a2 List.mem_cons_self, ih (j + 1) (fun b hb => h b (List.mem_cons_of_mem _ hb))]

theorem bondPairs_map {α β} (test : α → α → Except Err Bool) (test' : β → β → Except Err Bool) (f : α → β) :
    ∀ (atoms : List α) (i : Nat), (∀ a ∈ atoms, ∀ b ∈ atoms, test' (f a) (f b) = test a b) →
      bondPairs test' i (atoms.map f) = bondPairs test i atoms := by
  intro atoms
  induction atoms with
  | nil => intro i _; rfl
  | cons a1 rest ih =>
    intro i h
    simp only [List.map_cons, bondPairs]
    rw [bondRow_map test test' f i a1 rest (i + 1)
          (fun b hb => h a1 List.mem_cons_self b (List.mem_cons_of_mem _ hb)),
        ih (i + 1) (fun a ha b hb => h a (List.mem_cons_of_mem _ ha) b (List.mem_cons_of_mem _ hb))]


/-! ### geometry: Cauchy–Schwarz, fractional coordinates, 27 images suffice -/

theorem cauchy_schwarz (v w : Vec3) : dot v w * dot v w ≤ normSq v * normSq w := by
  obtain ⟨a, b, c⟩ := v
  obtain ⟨x, y, z⟩ := w
  simp only [dot, normSq]
  nlinarith [sq_nonneg (a * y - b * x), sq_nonneg (a * z - c * x), sq_nonneg (b * z - c * y)]

theorem normSq_nonneg (v : Vec3) : 0 ≤ normSq v := by
  obtain ⟨a, b, c⟩ := v
  simp only [dot, normSq]
  nlinarith [sq_nonneg a, sq_nonneg b, sq_nonneg c]

/-- one fractional coordinate: an integer multiplier that brings two in-cell points within a cutoff not larger
    than the perpendicular width is −1, 0 or 1 -/
theorem mult_bound (w v p q : Vec3) (d c : Rat) (n : Int) (hd : d ≠ 0)
    (hv : dot v w = dot p w + n * d - dot q w)
    (hp0 : 0 ≤ dot p w / d) (hp1 : dot p w / d < 1) (hq0 : 0 ≤ dot q w / d) (hq1 : dot q w / d < 1)
    (hvc : normSq v < c * c) (hw : c * c * normSq w ≤ d * d) : n = -1 ∨ n = 0 ∨ n = 1 := by
  have hcs := cauchy_schwarz v w
  have hwn := normSq_nonneg w
  have hvn := normSq_nonneg v
  have hdd : 0 < d * d := mul_self_pos.mpr hd
  have hs : dot v w * dot v w < d * d := by
    rcases eq_or_lt_of_le hwn with h0 | hpos
    · rw [← h0] at hcs; nlinarith
    · nlinarith
  generalize hfp : dot p w / d = fp at hp0 hp1
  generalize hfq : dot q w / d = fq at hq0 hq1
  have ep : dot p w = fp * d := by rw [← hfp]; field_simp
  have eq : dot q w = fq * d := by rw [← hfq]; field_simp
  have es : dot v w = d * (fp + n - fq) := by rw [hv, ep, eq]; ring
  rw [es] at hs
  have ht : (fp + n - fq) * (fp + n - fq) < 1 := by
    by_contra hcon
    have hcon := not_lt.mp hcon
    nlinarith
  have h1 : fp + n - fq < 1 := by nlinarith
  have h2 : -1 < fp + n - fq := by nlinarith
  have h3 : (n : Rat) < 2 := by linarith
  have h4 : (-2 : Rat) < n := by linarith
  have h5 : n < (2 : Int) := by exact_mod_cast h3
  have h6 : (-2 : Int) < n := by exact_mod_cast h4
  omega


theorem vadd_eq (a b : Vec3) : a + b = Vec3.add a b := rfl

theorem dot_frac_x (L : Mat3) (p q : Vec3) (n1 n2 n3 : Rat) :
    dot (Vec3.sub (p + L.lattice n1 n2 n3) q) (cross L.b L.c)
      = dot p (cross L.b L.c) + n1 * L.det - dot q (cross L.b L.c) := by
  obtain ⟨⟨a1, a2, a3⟩, ⟨b1, b2, b3⟩, ⟨c1, c2, c3⟩⟩ := L
  obtain ⟨p1, p2, p3⟩ := p
  obtain ⟨q1, q2, q3⟩ := q
  simp only [vadd_eq, Mat3.lattice, Mat3.det, Vec3.add, Vec3.sub, Vec3.smul, dot, cross]
  ring

theorem dot_frac_y (L : Mat3) (p q : Vec3) (n1 n2 n3 : Rat) :
    dot (Vec3.sub (p + L.lattice n1 n2 n3) q) (cross L.c L.a)
      = dot p (cross L.c L.a) + n2 * L.det - dot q (cross L.c L.a) := by
  obtain ⟨⟨a1, a2, a3⟩, ⟨b1, b2, b3⟩, ⟨c1, c2, c3⟩⟩ := L
  obtain ⟨p1, p2, p3⟩ := p
  obtain ⟨q1, q2, q3⟩ := q
  simp only [vadd_eq, Mat3.lattice, Mat3.det, Vec3.add, Vec3.sub, Vec3.smul, dot, cross]
  ring

theorem dot_frac_z (L : Mat3) (p q : Vec3) (n1 n2 n3 : Rat) :
    dot (Vec3.sub (p + L.lattice n1 n2 n3) q) (cross L.a L.b)
      = dot p (cross L.a L.b) + n3 * L.det - dot q (cross L.a L.b) := by
  obtain ⟨⟨a1, a2, a3⟩, ⟨b1, b2, b3⟩, ⟨c1, c2, c3⟩⟩ := L
  obtain ⟨p1, p2, p3⟩ := p
  obtain ⟨q1, q2, q3⟩ := q
  simp only [vadd_eq, Mat3.lattice, Mat3.det, Vec3.add, Vec3.sub, Vec3.smul, dot, cross]
  ring

/-- some lattice image (any integer multipliers) of `p` is within `c` of `q` -/
def MinImage (L : Mat3) (p q : Vec3) (c : Rat) : Prop :=
  ∃ n1 n2 n3 : Int, distSq (p + L.lattice n1 n2 n3) q < c * c

theorem mem_ucMultipliers (n1 n2 n3 : Int) (h1 : n1 = -1 ∨ n1 = 0 ∨ n1 = 1) (h2 : n2 = -1 ∨ n2 = 0 ∨ n2 = 1)
    (h3 : n3 = -1 ∨ n3 = 0 ∨ n3 = 1) : (n1, n2, n3) ∈ ucMultipliers := by
  rcases h1 with rfl | rfl | rfl <;> rcases h2 with rfl | rfl | rfl <;> rcases h3 with rfl | rfl | rfl <;> decide

/-- **27 images suffice.** -/
theorem images27_iff_minImage (L : Mat3) (p q : Vec3) (c : Rat) (hdet : L.det ≠ 0)
    (hp : L.inside p) (hq : L.inside q) (hw : L.widthsGe c) :
    (∃ o ∈ ucOffsets L, distSq (p + o) q < c * c) ↔ MinImage L p q c := by
  constructor
  · rintro ⟨o, ho, hlt⟩
    obtain ⟨m, _, rfl⟩ := List.mem_map.mp ho
    exact ⟨m.1, m.2.1, m.2.2, hlt⟩
  · rintro ⟨n1, n2, n3, hlt⟩
    obtain ⟨⟨hpx0, hpx1⟩, ⟨hpy0, hpy1⟩, ⟨hpz0, hpz1⟩⟩ := hp
    obtain ⟨⟨hqx0, hqx1⟩, ⟨hqy0, hqy1⟩, ⟨hqz0, hqz1⟩⟩ := hq
    obtain ⟨hwx, hwy, hwz⟩ := hw
    have b1 := mult_bound _ _ p q L.det c n1 hdet (dot_frac_x L p q n1 n2 n3) hpx0 hpx1 hqx0 hqx1 hlt hwx
    have b2 := mult_bound _ _ p q L.det c n2 hdet (dot_frac_y L p q n1 n2 n3) hpy0 hpy1 hqy0 hqy1 hlt hwy
    have b3 := mult_bound _ _ p q L.det c n3 hdet (dot_frac_z L p q n1 n2 n3) hpz0 hpz1 hqz0 hqz1 hlt hwz
    exact ⟨_, List.mem_map.mpr ⟨(n1, n2, n3), mem_ucMultipliers n1 n2 n3 b1 b2 b3, rfl⟩, hlt⟩


/-! ### wrapping, shifting, symmetry of the minimum-image predicate -/

theorem cart_frac (L : Mat3) (v : Vec3) (hdet : L.det ≠ 0) : L.cart (L.frac v) = v := by
  obtain ⟨⟨a1, a2, a3⟩, ⟨b1, b2, b3⟩, ⟨c1, c2, c3⟩⟩ := L
  obtain ⟨v1, v2, v3⟩ := v
  simp only [Mat3.det, dot, cross] at hdet
  simp only [Mat3.cart, Mat3.frac, Mat3.lattice, Mat3.det, Vec3.add, Vec3.smul, dot, cross, Vec3.mk.injEq]
  refine ⟨?_, ?_, ?_⟩ <;>
  · rw [div_mul_eq_mul_div, div_mul_eq_mul_div, div_mul_eq_mul_div, ← add_div, ← add_div, div_eq_iff hdet]
    ring

theorem frac_cart (L : Mat3) (f : Vec3) (hdet : L.det ≠ 0) : L.frac (L.cart f) = f := by
  obtain ⟨⟨a1, a2, a3⟩, ⟨b1, b2, b3⟩, ⟨c1, c2, c3⟩⟩ := L
  obtain ⟨f1, f2, f3⟩ := f
  simp only [Mat3.det, dot, cross] at hdet
  simp only [Mat3.cart, Mat3.frac, Mat3.lattice, Mat3.det, Vec3.add, Vec3.smul, dot, cross, Vec3.mk.injEq]
  refine ⟨?_, ?_, ?_⟩ <;>
  · rw [div_eq_iff hdet]
    ring

theorem fracPart_nonneg (x : Rat) : 0 ≤ fracPart x := by
  unfold fracPart; have := Rat.floor_le x; linarith

theorem fracPart_lt_one (x : Rat) : fracPart x < 1 := by
  unfold fracPart; have := Rat.lt_floor_add_one x; push_cast at this; linarith

/-- a wrapped point lies inside the cell -/
theorem wrap_inside (L : Mat3) (v : Vec3) (hdet : L.det ≠ 0) : L.inside (L.wrap v) := by
  unfold Mat3.inside Mat3.wrap
  rw [frac_cart L _ hdet]
  exact ⟨⟨fracPart_nonneg _, fracPart_lt_one _⟩, ⟨fracPart_nonneg _, fracPart_lt_one _⟩,
    ⟨fracPart_nonneg _, fracPart_lt_one _⟩⟩

/-- wrapping is a lattice translation -/
theorem wrap_eq_lattice (L : Mat3) (v : Vec3) (hdet : L.det ≠ 0) :
    L.wrap v = v + L.lattice ((-(L.frac v).x.floor : Int) : Rat) ((-(L.frac v).y.floor : Int) : Rat)
      ((-(L.frac v).z.floor : Int) : Rat) := by
  have h := cart_frac L v hdet
  simp only [Mat3.wrap]
  generalize L.frac v = f at h ⊢
  obtain ⟨⟨a1, a2, a3⟩, ⟨b1, b2, b3⟩, ⟨c1, c2, c3⟩⟩ := L
  obtain ⟨v1, v2, v3⟩ := v
  obtain ⟨f1, f2, f3⟩ := f
  simp only [Mat3.cart, Mat3.lattice, Vec3.add, Vec3.smul, Vec3.mk.injEq] at h
  obtain ⟨h1, h2, h3⟩ := h
  simp only [vadd_eq, Mat3.cart, Mat3.lattice, Vec3.add, Vec3.smul, fracPart, Vec3.mk.injEq]
  push_cast
  refine ⟨?_, ?_, ?_⟩ <;> linarith

theorem minImage_lattice_left (L : Mat3) (p q : Vec3) (c : Rat) (a b d : Int) :
    MinImage L (p + L.lattice a b d) q c ↔ MinImage L p q c := by
  obtain ⟨⟨a1, a2, a3⟩, ⟨b1, b2, b3⟩, ⟨c1, c2, c3⟩⟩ := L
  obtain ⟨p1, p2, p3⟩ := p
  obtain ⟨q1, q2, q3⟩ := q
  simp only [MinImage, distSq, normSq, dot, vadd_eq, Vec3.add, Vec3.sub, Mat3.lattice, Vec3.smul]
  constructor
  · rintro ⟨n1, n2, n3, h⟩
    refine ⟨n1 + a, n2 + b, n3 + d, ?_⟩
    push_cast; convert h using 1; ring
  · rintro ⟨n1, n2, n3, h⟩
    refine ⟨n1 - a, n2 - b, n3 - d, ?_⟩
    push_cast; convert h using 1; ring

theorem minImage_lattice_right (L : Mat3) (p q : Vec3) (c : Rat) (a b d : Int) :
    MinImage L p (q + L.lattice a b d) c ↔ MinImage L p q c := by
  obtain ⟨⟨a1, a2, a3⟩, ⟨b1, b2, b3⟩, ⟨c1, c2, c3⟩⟩ := L
  obtain ⟨p1, p2, p3⟩ := p
  obtain ⟨q1, q2, q3⟩ := q
  simp only [MinImage, distSq, normSq, dot, vadd_eq, Vec3.add, Vec3.sub, Mat3.lattice, Vec3.smul]
  constructor
  · rintro ⟨n1, n2, n3, h⟩
    refine ⟨n1 - a, n2 - b, n3 - d, ?_⟩
    push_cast; convert h using 1; ring
  · rintro ⟨n1, n2, n3, h⟩
    refine ⟨n1 + a, n2 + b, n3 + d, ?_⟩
    push_cast; convert h using 1; ring

theorem minImage_translate (L : Mat3) (p q t : Vec3) (c : Rat) :
    MinImage L (p + t) (q + t) c ↔ MinImage L p q c := by
  obtain ⟨⟨a1, a2, a3⟩, ⟨b1, b2, b3⟩, ⟨c1, c2, c3⟩⟩ := L
  obtain ⟨p1, p2, p3⟩ := p
  obtain ⟨q1, q2, q3⟩ := q
  obtain ⟨t1, t2, t3⟩ := t
  simp only [MinImage, distSq, normSq, dot, vadd_eq, Vec3.add, Vec3.sub, Mat3.lattice, Vec3.smul]
  constructor <;>
  · rintro ⟨n1, n2, n3, h⟩
    refine ⟨n1, n2, n3, ?_⟩
    convert h using 1; ring

theorem minImage_symm (L : Mat3) (p q : Vec3) (c : Rat) : MinImage L p q c ↔ MinImage L q p c := by
  obtain ⟨⟨a1, a2, a3⟩, ⟨b1, b2, b3⟩, ⟨c1, c2, c3⟩⟩ := L
  obtain ⟨p1, p2, p3⟩ := p
  obtain ⟨q1, q2, q3⟩ := q
  simp only [MinImage, distSq, normSq, dot, vadd_eq, Vec3.add, Vec3.sub, Mat3.lattice, Vec3.smul]
  constructor <;>
  · rintro ⟨n1, n2, n3, h⟩
    refine ⟨-n1, -n2, -n3, ?_⟩
    push_cast; convert h using 1; ring

/-- shifting both atoms by the same vector and wrapping them back into the cell does not change whether some
    periodic image is within the cutoff -/
theorem minImage_shift_wrap (L : Mat3) (p q t : Vec3) (c : Rat) (hdet : L.det ≠ 0) :
    MinImage L (L.wrap (p + t)) (L.wrap (q + t)) c ↔ MinImage L p q c := by
  rw [wrap_eq_lattice L (p + t) hdet, wrap_eq_lattice L (q + t) hdet, minImage_lattice_left,
    minImage_lattice_right, minImage_translate]


/-! ### the pair test of `detect_bonds` as a proposition -/

/-- atoms `a`, `b` are bonded w.r.t. the image offsets `offs`: the cutoff of their elements exists and some image
    `a + o` is strictly closer to `b` than the cutoff -/
def Bonded (offs : List Vec3) (a b : BAtom) : Prop :=
  ∃ c, maxBondLength a.1 b.1 = some c ∧ ∃ o ∈ offs, distSq (a.2 + o) b.2 < c * c

theorem withinCutoff_iff (offs : List Vec3) (p q : Vec3) (c : Rat) (hc : 0 < c) :
    withinCutoff offs p q c = true ↔ ∃ o ∈ offs, distSq (p + o) q < c * c := by
  unfold withinCutoff
  simp [hc]

theorem bondTest_true_iff (offs : List Vec3) (a b : BAtom) : bondTest offs a b = .ok true ↔ Bonded offs a b := by
  unfold bondTest Bonded
  cases h : maxBondLength a.1 b.1 with
  | none => simp
  | some c =>
    have hc := maxBondLength_pos _ _ _ h
    simp only [Except.ok.injEq, Option.some.injEq, exists_eq_left']
    exact withinCutoff_iff offs a.2 b.2 c hc

theorem bondTest_error (offs : List Vec3) (a b : BAtom) (e : Err) (h : bondTest offs a b = .error e) :
    e = .reject "KeyError" ∧ maxBondLength a.1 b.1 = none := by
  unfold bondTest at h
  cases hm : maxBondLength a.1 b.1 with
  | none => rw [hm] at h; cases h; exact ⟨rfl, rfl⟩
  | some c => rw [hm] at h; cases h

theorem distSq_add_zero (p q : Vec3) : distSq (p + Vec3.zero) q = distSq p q := by
  obtain ⟨p1, p2, p3⟩ := p
  obtain ⟨q1, q2, q3⟩ := q
  simp only [distSq, normSq, dot, vadd_eq, Vec3.add, Vec3.sub, Vec3.zero, add_zero]

theorem distSq_comm (p q : Vec3) : distSq p q = distSq q p := by
  obtain ⟨p1, p2, p3⟩ := p
  obtain ⟨q1, q2, q3⟩ := q
  simp only [distSq, normSq, dot, Vec3.sub]
  ring

theorem neg_mem_ucMultipliers : ∀ m ∈ ucMultipliers, (-m.1, -m.2.1, -m.2.2) ∈ ucMultipliers := by decide

theorem distSq_image_symm (L : Mat3) (p q : Vec3) (n1 n2 n3 : Int) :
    distSq (q + L.lattice ((-n1 : Int) : Rat) ((-n2 : Int) : Rat) ((-n3 : Int) : Rat)) p
      = distSq (p + L.lattice n1 n2 n3) q := by
  obtain ⟨⟨a1, a2, a3⟩, ⟨b1, b2, b3⟩, ⟨c1, c2, c3⟩⟩ := L
  obtain ⟨p1, p2, p3⟩ := p
  obtain ⟨q1, q2, q3⟩ := q
  simp only [distSq, normSq, dot, vadd_eq, Vec3.add, Vec3.sub, Mat3.lattice, Vec3.smul]
  push_cast
  ring

/-- the pair test is symmetric (the image set is symmetric, the cutoff is symmetric) -/
theorem bonded_symm (cell : Option Mat3) (a b : BAtom) :
    Bonded (bondOffsets cell) a b → Bonded (bondOffsets cell) b a := by
  rintro ⟨c, hc, o, ho, hlt⟩
  refine ⟨c, by rw [maxBondLength_comm]; exact hc, ?_⟩
  cases cell with
  | none =>
    simp only [bondOffsets, List.mem_singleton] at ho ⊢
    subst ho
    refine ⟨Vec3.zero, rfl, ?_⟩
    rw [distSq_add_zero] at hlt ⊢
    rw [distSq_comm]; exact hlt
  | some L =>
    simp only [bondOffsets, ucOffsets, List.mem_map] at ho ⊢
    obtain ⟨m, hm, rfl⟩ := ho
    refine ⟨_, ⟨(-m.1, -m.2.1, -m.2.2), neg_mem_ucMultipliers m hm, rfl⟩, ?_⟩
    rw [distSq_image_symm]; exact hlt

/-! ### unpacking the executable guard -/

theorem bondGuards_iff (elems : List String) (pos : List Vec3) (L : Mat3) :
    bondGuards elems pos L = true ↔
      L.det ≠ 0 ∧ (∀ p ∈ pos, L.inside p)
      ∧ ∀ e1 ∈ elems, ∀ e2 ∈ elems, ∀ c, maxBondLength e1 e2 = some c → L.widthsGe c := by
  unfold bondGuards
  simp only [Bool.and_eq_true, decide_eq_true_eq, List.all_eq_true, and_assoc]
  refine and_congr Iff.rfl (and_congr Iff.rfl ?_)
  constructor
  · intro h e1 h1 e2 h2 c hc
    have := h e1 h1 e2 h2
    rw [hc] at this
    simpa using this
  · intro h e1 h1 e2 h2
    cases hc : maxBondLength e1 e2 with
    | none => rfl
    | some c => simpa using h e1 h1 e2 h2 c hc

/-- within the guards, the 27-image test of the code decides the minimum-image predicate -/
theorem bonded_iff_minImage (L : Mat3) (a b : BAtom) (hdet : L.det ≠ 0) (ha : L.inside a.2) (hb : L.inside b.2)
    (hw : ∀ c, maxBondLength a.1 b.1 = some c → L.widthsGe c) :
    Bonded (bondOffsets (some L)) a b ↔ ∃ c, maxBondLength a.1 b.1 = some c ∧ MinImage L a.2 b.2 c := by
  unfold Bonded
  constructor
  · rintro ⟨c, hc, h⟩
    exact ⟨c, hc, (images27_iff_minImage L a.2 b.2 c hdet ha hb (hw c hc)).mp h⟩
  · rintro ⟨c, hc, h⟩
    exact ⟨c, hc, (images27_iff_minImage L a.2 b.2 c hdet ha hb (hw c hc)).mpr h⟩

/-- every pair the loops visit was tested successfully -/
theorem bondRow_tested {α} (test : α → α → Except Err Bool) (i : Nat) (a1 : α) :
    ∀ (rest : List α) (j : Nat) (r : List (Nat × Nat)), bondRow test i a1 j rest = .ok r →
      ∀ b ∈ rest, ∃ v, test a1 b = .ok v := by
  intro rest
  induction rest with
  | nil => intro j r _ b hb; cases hb
  | cons a2 more ih =>
    intro j r h b hb
    simp only [bondRow] at h
    split at h
    · cases h
    · rename_i hit hhit
      split at h
      · cases h
      · rename_i tl htl
        rcases List.mem_cons.mp hb with rfl | hb'
        · exact ⟨hit, hhit⟩
        · exact ih (j + 1) tl htl b hb'

theorem bondPairs_tested {α} (test : α → α → Except Err Bool) :
    ∀ (atoms : List α) (i : Nat) (r : List (Nat × Nat)), bondPairs test i atoms = .ok r →
      ∀ k l a1 a2, atoms[k]? = some a1 → atoms[k + 1 + l]? = some a2 → ∃ v, test a1 a2 = .ok v := by
  intro atoms
  induction atoms with
  | nil => intro i r _ k l a1 a2 hk; simp at hk
  | cons a rest ih =>
    intro i r h k l a1 a2 hk hl
    simp only [bondPairs] at h
    split at h
    · cases h
    · rename_i row hrow
      split at h
      · cases h
      · rename_i tl htl
        cases k with
        | zero =>
          simp only [List.getElem?_cons_zero, Option.some.injEq] at hk
          subst hk
          have e : 0 + 1 + l = l + 1 := by omega
          rw [e, List.getElem?_cons_succ] at hl
          exact bondRow_tested test i a rest (i + 1) row hrow a2 (List.mem_of_getElem? hl)
        | succ k =>
          have e : k + 1 + 1 + l = (k + 1 + l) + 1 := by omega
          rw [e, List.getElem?_cons_succ] at hl
          rw [List.getElem?_cons_succ] at hk
          exact ih (i + 1) tl htl k l a1 a2 hk hl

/-- a strictly sorted list has no duplicates -/
theorem nodup_of_pairwise_pairLt (r : List (Nat × Nat)) (h : r.Pairwise pairLt) : r.Nodup := by
  apply List.Pairwise.imp _ h
  rintro ⟨a, b⟩ ⟨c, d⟩ hlt heq
  cases heq
  rcases hlt with h1 | ⟨_, h2⟩ <;> simp at *

/-- `‖v‖ < c ⟺ ‖v‖² < c²` in any ordered field (in particular for `d = √(dist²)` over the reals): the encoding
    the model uses for `cdist(...) < cutoff` -/
theorem lt_iff_mul_self_lt {K} [Field K] [LinearOrder K] [IsStrictOrderedRing K] (d c : K) (hd : 0 ≤ d)
    (hc : 0 < c) : d < c ↔ d * d < c * c := by
  constructor
  · intro h; nlinarith
  · intro h; by_contra hcon; have := not_lt.mp hcon; nlinarith

end Mofun.Bonds
