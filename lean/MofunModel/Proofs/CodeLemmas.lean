/-
  CodeLemmas.lean — what the python primitives of the GENERATED translation (`Mofun.Generated.Py`, emitted by
  harness/gen_code.py into Generated/Code.lean) mean in the vocabulary of the hand-written models.
  Used by the equivalence theorems Props/C17Code, C19Code, C18Code, C09Code.  Core Lean only.

  Every lemma is stated for arbitrary arguments (in particular arbitrary set literals), so that the equivalence
  proofs keep working when the python source is rewritten without changing its meaning, and fail when a literal,
  an operator or a branch changes.
-/
import MofunModel.Generated.Code
import MofunModel.Model.Bonds
import MofunModel.Model.Terms
import MofunModel.Model.Topo
import MofunModel.Model.UffLogic

namespace Mofun.CodeLemmas
open Mofun Mofun.Generated

/-! ### decimals -/

theorem dec_45_2 : Dec.toRat ⟨45, 2⟩ = nonMetalAllowance := by decide +kernel
theorem dec_15_1 : Dec.toRat ⟨15, 1⟩ = 3 / 2 := by decide +kernel
theorem dec_180_0 : Dec.toRat ⟨180, 0⟩ = 180 := by decide +kernel
theorem dec_120_0 : Dec.toRat ⟨120, 0⟩ = 120 := by decide +kernel
theorem dec_90_0 : Dec.toRat ⟨90, 0⟩ = 90 := by decide +kernel

/-! ### sets of two strings (`{a1, a2}`) -/

theorem dedup_length_pos {α} [DecidableEq α] (l : List α) : 0 < (dedup l).length ↔ l ≠ [] := by
  cases l <;> simp [dedup]

/-- `len(S & {a1, a2}) > 0` ⟺ `a1 in S or a2 in S` -/
theorem setLen_inter_pair (S : List String) (a1 a2 : String) :
    (Py.setLen (Py.setInter S [a1, a2]) > 0) ↔ (S.contains a1 || S.contains a2) = true := by
  unfold Py.setLen Py.setInter
  rw [gt_iff_lt, dedup_length_pos, Ne, List.filter_eq_nil_iff]
  constructor
  · intro h
    by_cases h1 : a1 ∈ S
    · simp [h1]
    · by_cases h2 : a2 ∈ S
      · simp [h2]
      · exfalso; apply h; intro x hx
        have e1 : x ≠ a1 := fun e => h1 (e ▸ hx)
        have e2 : x ≠ a2 := fun e => h2 (e ▸ hx)
        simp [e1, e2]
  · intro h hn
    simp at h
    rcases h with h | h
    · have := hn a1 h; simp at this
    · have := hn a2 h; simp at this

/-- `len({a1, a2} & S) > 0` ⟺ `a1 in S or a2 in S` -/
theorem setLen_pair_inter (S : List String) (a1 a2 : String) :
    (Py.setLen (Py.setInter [a1, a2] S) > 0) ↔ (S.contains a1 || S.contains a2) = true := by
  unfold Py.setLen Py.setInter
  rw [gt_iff_lt, dedup_length_pos]
  by_cases h1 : a1 ∈ S <;> by_cases h2 : a2 ∈ S <;> simp [h1, h2]

/-- `len({a1, a2}) == 1` ⟺ `a1 == a2` -/
theorem setLen_pair (a1 a2 : String) : (Py.setLen [a1, a2] == 1) = (a1 == a2) := by
  unfold Py.setLen
  by_cases h : a1 = a2
  · subst h; simp [dedup]
  · have h' : ¬ a2 = a1 := fun e => h e.symm
    simp [dedup, h, h']

/-- `{a1, a2} <= D` ⟺ `a1 in D and a2 in D` -/
theorem setSubset_pair {α} [DecidableEq α] (D : List α) (a1 a2 : α) :
    Py.setSubset [a1, a2] D = (D.contains a1 && D.contains a2) := by
  simp [Py.setSubset]

theorem all_pair (r : List String) (a1 a2 : String) :
    (r.all fun x => [a1, a2].contains x) = r.all fun x => x == a1 || x == a2 := by
  congr 1; funext x
  simp only [List.contains_cons, List.contains_nil, Bool.or_false]

/-- `{a1, a2} == r` is the model's `pairSetEq` -/
theorem setEq_pair (r : List String) (a1 a2 : String) : Py.setEq [a1, a2] r = Uff.pairSetEq a1 a2 r := by
  unfold Py.setEq Py.setSubset Uff.pairSetEq
  rw [all_pair]
  simp only [List.all_cons, List.all_nil, Bool.and_true]
  generalize (r.all fun x => x == a1 || x == a2) = A
  generalize r.contains a1 = B
  generalize r.contains a2 = C
  cases A <;> cases B <;> cases C <;> rfl

/-- `r == {a1, a2}` is the model's `pairSetEq` -/
theorem setEq_pair' (r : List String) (a1 a2 : String) : Py.setEq r [a1, a2] = Uff.pairSetEq a1 a2 r := by
  unfold Py.setEq Py.setSubset Uff.pairSetEq
  rw [all_pair]
  simp only [List.all_cons, List.all_nil, Bool.and_true]
  generalize (r.all fun x => x == a1 || x == a2) = A
  generalize r.contains a1 = B
  generalize r.contains a2 = C
  cases A <;> cases B <;> cases C <;> rfl

/-- the `for rule_atom_types, bo in rules: if … == …: return bo` loop is the model's `ruleLookup` -/
theorem forFirst_rules (a1 a2 : String) (f : List String × Rat → Option Rat)
    (hf : ∀ r bo, f (r, bo) = if Uff.pairSetEq a1 a2 r then some bo else none)
    (rules : List (List String × Rat)) : Py.forFirst rules f = Uff.ruleLookup a1 a2 rules := by
  induction rules with
  | nil => rfl
  | cons x xs ih =>
    obtain ⟨r, bo⟩ := x
    simp only [Py.forFirst, Uff.ruleLookup, hf]
    cases Uff.pairSetEq a1 a2 r <;> simp [ih]

/-! ### `max(xs)` -/

theorem foldl_max (xs : List Nat) (x : Nat) : xs.foldl max x = max x (maxNat xs) := by
  induction xs generalizing x with
  | nil => simp [maxNat]
  | cons y ys ih => simp only [List.foldl_cons, ih, maxNat]; omega

/-- `max(xs)` of a non-empty list is the model's `maxNat` -/
theorem listMax?_cons (x : Nat) (xs : List Nat) : Py.listMax? (x :: xs) = some (maxNat (x :: xs)) := by
  simp [Py.listMax?, foldl_max, maxNat]

/-! ### reading a UFF label -/

/-- `s[0:2].strip('_')` is the model's `el` -/
theorem strip_slice_el (s : String) : Py.strStrip (Py.strSlice s 0 2) "_" = Uff.el s := by
  unfold Py.strStrip Py.strSlice Uff.el Uff.stripU
  simp only [String.toList_ofList, List.drop_zero]
  have e : (fun c : Char => "_".toList.contains c) = (fun c : Char => c == '_') := by
    funext c
    have : "_".toList = ['_'] := by decide
    rw [this]
    simp only [List.contains_cons, List.contains_nil, Bool.or_false]
  rw [e]

/-- `s[2] if len(s) > 2 else 0` read through the model's `hyb`: `none` is the integer 0 -/
def valOfHyb : Option Char → Py.Val
  | some c => .str (String.singleton c)
  | none => .int 0

theorem strIndex?_2 (s : String) : Py.strIndex? s 2 = (Uff.hyb s).map String.singleton := rfl

theorem hyb_none_of_short (s : String) (h : ¬ s.length > 2) : Uff.hyb s = none := by
  unfold Uff.hyb
  rw [← String.length_toList] at h
  exact List.getElem?_eq_none (by omega)

theorem hyb_some_of_long (s : String) (h : s.length > 2) : ∃ c, Uff.hyb s = some c := by
  unfold Uff.hyb
  rw [← String.length_toList] at h
  exact ⟨s.toList[2], List.getElem?_eq_getElem h⟩

theorem singleton_beq (c d : Char) : (String.singleton c == String.singleton d) = (c == d) := by
  by_cases h : c = d
  · subst h; simp
  · have h' : ¬ String.singleton c = String.singleton d := fun e => h (String.singleton_inj.mp e)
    rw [beq_eq_false_iff_ne.mpr h', beq_eq_false_iff_ne.mpr h]

theorem singleton_beq_3 (c : Char) : (String.singleton c == "3") = (c == '3') := singleton_beq c '3'

/-- `(a2[2] == "3") if len(a2) > 2 else False` is the model's `coordIs4` -/
theorem coordIs4_eq (a2 : String) :
    (if a2.length > 2 then (do let t1 ← Py.strIndex? a2 2; pure (t1 == "3")) else some false)
      = some (Uff.coordIs4 a2) := by
  unfold Uff.coordIs4
  rw [strIndex?_2]
  by_cases h : a2.length > 2
  · obtain ⟨c, hc⟩ := hyb_some_of_long a2 h
    simp [h, hc, singleton_beq_3]
  · simp [h, hyb_none_of_short a2 h]

/-- `h = s[2] if len(s) > 2 else 0` is the model's `hyb` (through `valOfHyb`) -/
theorem hval_eq (s : String) :
    (if s.length > 2 then (do let t ← Py.strIndex? s 2; pure (Py.Val.str t)) else some (Py.Val.int 0))
      = some (valOfHyb (Uff.hyb s)) := by
  rw [strIndex?_2]
  by_cases h : s.length > 2
  · obtain ⟨c, hc⟩ := hyb_some_of_long s h
    simp [h, hc, valOfHyb]
  · simp [h, hyb_none_of_short s h, valOfHyb]

/-- comparing `h` with a one-character string literal is the model's comparison of `hyb` with that character -/
theorem valOfHyb_beq (x : Option Char) (c : Char) :
    (valOfHyb x == Py.Val.str (String.singleton c)) = (x == some c) := by
  cases x with
  | none => simp [valOfHyb]
  | some d =>
    by_cases h : d = c
    · subst h; simp [valOfHyb]
    · have : ¬ Py.Val.str (String.singleton d) = Py.Val.str (String.singleton c) :=
        fun e => h (String.singleton_inj.mp (Py.Val.str.inj e))
      have h2 : ¬ some d = some c := fun e => h (Option.some.inj e)
      simp only [valOfHyb]
      rw [beq_eq_false_iff_ne.mpr this, beq_eq_false_iff_ne.mpr h2]

theorem valOfHyb_beq' (x : Option Char) (c : Char) :
    (Py.Val.str (String.singleton c) == valOfHyb x) = (x == some c) := by
  rw [← valOfHyb_beq]; exact Bool.beq_comm

theorem v3 (x) : (valOfHyb x == Py.Val.str "3") = (x == some '3') := valOfHyb_beq x '3'
theorem v2 (x) : (valOfHyb x == Py.Val.str "2") = (x == some '2') := valOfHyb_beq x '2'
theorem vR (x) : (valOfHyb x == Py.Val.str "R") = (x == some 'R') := valOfHyb_beq x 'R'
theorem v1 (x) : (valOfHyb x == Py.Val.str "1") = (x == some '1') := valOfHyb_beq x '1'
theorem v3' (x) : (Py.Val.str "3" == valOfHyb x) = (x == some '3') := valOfHyb_beq' x '3'
theorem v2' (x) : (Py.Val.str "2" == valOfHyb x) = (x == some '2') := valOfHyb_beq' x '2'
theorem vR' (x) : (Py.Val.str "R" == valOfHyb x) = (x == some 'R') := valOfHyb_beq' x 'R'
theorem v1' (x) : (Py.Val.str "1" == valOfHyb x) = (x == some '1') := valOfHyb_beq' x '1'

/-- case split on what the torsion analysis reads from a hybridisation character -/
theorem hyb_cases (x : Option Char) (P : Prop) (c3 : x = some '3' → P) (c2 : x = some '2' → P)
    (cR : x = some 'R' → P) (c1 : x = some '1' → P)
    (c0 : (x ≠ some '3' ∧ x ≠ some '2' ∧ x ≠ some 'R' ∧ x ≠ some '1') → P) : P := by
  by_cases h3 : x = some '3'
  · exact c3 h3
  · by_cases h2 : x = some '2'
    · exact c2 h2
    · by_cases hR : x = some 'R'
      · exact cR hR
      · by_cases h1 : x = some '1'
        · exact c1 h1
        · exact c0 ⟨h3, h2, hR, h1⟩

theorem tableCol_eq : @Py.tableCol = @Uff.col := rfl

/-! ### how the decision slices report a result: `(ordinal of the return statement, None | (tag, [int components]))` -/

/-- `angle_params`: `('cosine/periodic', kijk, b, n)` is the first `return`, `('fourier', kijk, c0, c1, c2)` the second -/
def encodeAngle : Uff.AngleStyle → Nat × Option (String × List Int)
  | .cosinePeriodic n b => (0, some ("cosine/periodic", [b, (n : Int)]))
  | .fourier => (1, some ("fourier", []))

/-- `dihedral_params`: the seven `return`s in source order (`("harmonic", v/2, d, n)` ↦ `[d, n]`), `none` = `raise`;
    the two `return None` (sp centre first, non-main-group second) are told apart by `sp` -/
def encodeTorsion (c : Uff.TorsionCase) (sp : Bool) : Option (Nat × Option (String × List Int)) :=
  match c with
  | .sp3sp3 => some (0, some ("harmonic", [1, 3]))
  | .sp3sp3Group6 _ _ => some (0, some ("harmonic", [1, 2]))
  | .sp2sp2 => some (1, some ("harmonic", [-1, 2]))
  | .mixedSp2Sp2 => some (2, some ("harmonic", [1, 3]))
  | .mixedOxygen => some (3, some ("harmonic", [1, 2]))
  | .mixedDefault => some (4, some ("harmonic", [-1, 6]))
  | .undefined => some (if sp then 5 else 6, none)
  | .unsupported => none

/-- a torsion case without the two flags that only select float constants (`2.` or `6.8`) -/
def forgetFlags : Uff.TorsionCase → Uff.TorsionCase
  | .sp3sp3Group6 _ _ => .sp3sp3Group6 false false
  | c => c

end Mofun.CodeLemmas
