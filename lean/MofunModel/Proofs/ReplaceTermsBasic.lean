/-
  ReplaceTermsBasic.lean — C06, part 1: vocabulary and pure list facts.

  * `Resolves` (type id → coefficient text) and the prefix / offset facts of appended type tables;
  * the "signature" (atom tuple, type id) of a term and the one-step effect of `TermTable.extendWith` on the list
    of signatures (`extendWith_sigs`): old terms not superseded, in order, then the re-targeted new terms;
  * the pure fold `specSigs` of that step over several fragments, with membership, decomposition and counting facts.

  Everything here is in namespace `Mofun.C06` (the facts about `extend` are proved independently of the C11 files).
-/
import MofunModel.Model.Replace
import MofunModel.Props.C10

namespace Mofun.C06
open Mofun

/-! ### resolving a type id -/

/-- the coefficient text a type id refers to (`none`: the table has no entry for the id) -/
def Resolves (coeffs : List String) (ty : Nat) : Option String := coeffs[ty]?

theorem getElem?_append_offset {α} (a b : List α) (t : Nat) : (a ++ b)[a.length + t]? = b[t]? := by
  rw [List.getElem?_append_right (by omega)]
  congr 1; omega

theorem getElem?_append_prefix {α} (a b : List α) (t : Nat) (h : t < a.length) : (a ++ b)[t]? = a[t]? :=
  List.getElem?_append_left h

/-- **offset fact**: ids of the appended table are the old length + the id in the appended table -/
theorem resolves_append_offset (a b : List String) (t : Nat) :
    Resolves (a ++ b) (a.length + t) = Resolves b t := getElem?_append_offset a b t

/-- **prefix fact**: ids covered by the old table keep their text -/
theorem resolves_append_prefix (a b : List String) (t : Nat) (h : t < a.length) :
    Resolves (a ++ b) t = Resolves a t := getElem?_append_prefix a b t h

theorem resolves_nil (t : Nat) : Resolves [] t = none := by simp [Resolves]

/-! ### term kinds -/

inductive Kind where
  | bond | angle | dihedral | improper
deriving DecidableEq, Repr

def Kind.get : Kind → Atoms → TermTable
  | .bond, a => a.bonds
  | .angle, a => a.angles
  | .dihedral, a => a.dihedrals
  | .improper, a => a.impropers

def Kind.off : Kind → Offsets → Nat
  | .bond, o => o.bond
  | .angle, o => o.angle
  | .dihedral, o => o.dihedral
  | .improper, o => o.improper

/-! ### signatures -/

/-- what the property speaks about: the atoms a term joins and its type id (extra columns are not constrained) -/
abbrev Sig := List Nat × Nat

def sig (t : Term) : Sig := (t.atoms, t.ty)

/-- `find_existing_topo`: an atom tuple is superseded by a list of new tuples when one of them lists exactly the
    same atoms forwards or reversed -/
def sup (new : List (List Nat)) (atoms : List Nat) : Bool :=
  new.any (fun u => decide (atoms = u)) || new.any (fun u => decide (atoms = u.reverse))

theorem sup_iff (new : List (List Nat)) (atoms : List Nat) :
    sup new atoms = true ↔ ∃ u ∈ new, atoms = u ∨ atoms = u.reverse := by
  simp only [sup, Bool.or_eq_true, List.any_eq_true, decide_eq_true_eq]
  constructor
  · rintro (⟨u, hu, h⟩ | ⟨u, hu, h⟩)
    · exact ⟨u, hu, Or.inl h⟩
    · exact ⟨u, hu, Or.inr h⟩
  · rintro ⟨u, hu, h | h⟩
    · exact Or.inl ⟨u, hu, h⟩
    · exact Or.inr ⟨u, hu, h⟩

theorem sup_nil (atoms : List Nat) : sup [] atoms = false := by simp [sup]

/-- one `extend` on the signatures of one kind -/
def stepSigs (T N : List Sig) : List Sig := T.filter (fun x => !sup (N.map (·.1)) x.1) ++ N

/-- several `extend`s one after the other -/
def specSigs (T0 : List Sig) (Ns : List (List Sig)) : List Sig := Ns.foldl stepSigs T0

/-- a term of the other structure re-targeted: atoms through `conv`, type shifted -/
def convSig (off : Nat) (conv : Nat → Option Nat) (u : Term) : Sig :=
  (u.atoms.map (fun a => (conv a).getD 0), u.ty + off)

/-! ### `deleteIdx` as a filter -/

theorem deleteIdx_eq_filter {α} (idx : List Nat) (l : List α) :
    deleteIdx l idx = ((l.zipIdx).filter (fun p => !idx.contains p.2)).map (·.1) := by
  simp [deleteIdx, deleteIdx_go_eq]

/-- erasing positions that all lie in the first part `l₁`, decided there by a predicate on the element -/
theorem deleteIdx_append_pred {α} (l₁ l₂ : List α) (idx : List Nat) (q : α → Bool)
    (h1 : ∀ i, (hi : i < l₁.length) → (idx.contains i = q l₁[i]))
    (h2 : ∀ i ∈ idx, i < l₁.length) :
    deleteIdx (l₁ ++ l₂) idx = l₁.filter (fun x => !q x) ++ l₂ := by
  rw [deleteIdx_eq_filter, List.zipIdx_append, List.filter_append, List.map_append]
  congr 1
  · have : l₁.filter (fun x => !q x) = ((l₁.zipIdx).map Prod.fst).filter (fun x => !q x) := by
      rw [List.zipIdx_map_fst]
    rw [this, List.filter_map]
    congr 1
    apply List.filter_congr
    intro p hp
    obtain ⟨x, i⟩ := p
    have hm := List.mem_zipIdx hp
    have hi : i < l₁.length := by omega
    have hx : x = l₁[i] := by simpa using hm.2.2
    simp only [Function.comp, h1 i hi, hx]
  · have : (l₂.zipIdx (0 + l₁.length)).filter (fun p => !idx.contains p.2) = l₂.zipIdx (0 + l₁.length) := by
      apply List.filter_eq_self.mpr
      intro p hp
      obtain ⟨x, i⟩ := p
      have hm := List.mem_zipIdx hp
      have : i ∉ idx := fun hmem => by have := h2 i hmem; omega
      simpa using this
    rw [this, List.zipIdx_map_fst]

theorem mem_existingIdx (old : List Term) (new : List (List Nat)) (i : Nat) :
    i ∈ existingIdx old new ↔ ∃ h : i < old.length, sup new old[i].atoms = true := by
  unfold existingIdx
  rw [List.mem_filter, List.mem_range]
  constructor
  · rintro ⟨hi, h⟩
    refine ⟨hi, ?_⟩
    rw [List.getElem?_eq_getElem hi] at h
    simpa [sup] using h
  · rintro ⟨hi, h⟩
    refine ⟨hi, ?_⟩
    rw [List.getElem?_eq_getElem hi]
    simpa [sup] using h

/-! ### the one-step invariant of `extendWith` -/

/-- a term of the other structure as `extendWith` appends it -/
def newTerm (labels olabels : List String) (off : Nat) (conv : Nat → Option Nat) (t : Term) : Term :=
  { atoms := t.atoms.map (fun a => (conv a).getD 0), ty := t.ty + off, extra := matchRow labels olabels t.extra }

/-- **one term kind of `extend`, on signatures**: the old terms that no new term supersedes (order kept, ids kept),
    followed by all new terms with atoms through `conv` and type id shifted by `off`; the coefficient table is not
    touched; success means `conv` is defined on every atom of every new term. -/
theorem extendWith_sigs (mine other res : TermTable) (off : Nat) (conv : Nat → Option Nat)
    (h : mine.extendWith other off conv = .ok res) :
    res.terms.map sig = stepSigs (mine.terms.map sig) (other.terms.map (convSig off conv))
    ∧ res.coeffs = mine.coeffs
    ∧ (∀ t ∈ other.terms, ∀ x ∈ t.atoms, (conv x).isSome = true) := by
  unfold TermTable.extendWith at h
  by_cases he : other.terms.isEmpty = true
  · have hnil : other.terms = [] := List.isEmpty_iff.mp he
    simp only [he, if_true] at h
    cases h
    refine ⟨?_, rfl, ?_⟩
    · simp only [hnil, stepSigs, List.map_nil, sup_nil, Bool.not_false, List.append_nil, List.map_map]
      rw [List.filter_eq_self.mpr (fun _ _ => rfl)]
      apply List.map_congr_left
      intro t _; rfl
    · simp [hnil]
  · have he' : other.terms.isEmpty = false := by simpa using he
    simp only [he', Bool.false_eq_true, if_false] at h
    by_cases hany : (other.terms.any (fun t => t.atoms.any (fun a => (conv a).isNone))) = true
    · simp only [hany, if_true] at h
      cases h
    · have hany' : (other.terms.any (fun t => t.atoms.any (fun a => (conv a).isNone))) = false := by simpa using hany
      simp only [hany', Bool.false_eq_true, if_false] at h
      cases h
      refine ⟨?_, rfl, ?_⟩
      · show List.map sig (deleteIdx (_ ++ other.terms.map (newTerm (mergeLabels mine.xlabels other.xlabels) other.xlabels off conv))
            (existingIdx mine.terms ((other.terms.map
              (newTerm (mergeLabels mine.xlabels other.xlabels) other.xlabels off conv)).map (·.atoms)))) = _
        rw [deleteIdx_append_pred _ _ _ (fun t => sup
            ((other.terms.map (newTerm (mergeLabels mine.xlabels other.xlabels) other.xlabels off conv)).map
              (·.atoms)) t.atoms)]
        · simp only [stepSigs, List.map_append, List.map_map, List.filter_map]
          congr 1
        · intro i hi
          have hi' : i < mine.terms.length := by simpa using hi
          rw [Bool.eq_iff_iff, List.contains_iff_mem, mem_existingIdx]
          simp only [List.getElem_map]
          constructor
          · rintro ⟨_, hs⟩; exact hs
          · intro hs; exact ⟨hi', hs⟩
        · intro i hi
          obtain ⟨hlt, _⟩ := (mem_existingIdx _ _ _).mp hi
          simpa using hlt
      · intro t ht x hx
        rw [List.any_eq_true] at hany
        cases hc : conv x with
        | some v => rfl
        | none =>
          exact absurd ⟨t, ht, List.any_eq_true.mpr ⟨x, hx, by simp [hc]⟩⟩ hany

/-! ### the fold of the step over several fragments -/

theorem stepSigs_append (A B N : List Sig) :
    stepSigs (A ++ B) N = A.filter (fun x => !sup (N.map (·.1)) x.1) ++ stepSigs B N := by
  simp [stepSigs, List.filter_append, List.append_assoc]

/-- old terms are only ever filtered; what the fragments add does not depend on them -/
theorem specSigs_append (A B : List Sig) (Ns : List (List Sig)) :
    specSigs (A ++ B) Ns = A.filter (fun x => Ns.all (fun N => !sup (N.map (·.1)) x.1)) ++ specSigs B Ns := by
  induction Ns generalizing A B with
  | nil =>
    simp only [specSigs, List.foldl_nil, List.all_nil]
    rw [List.filter_eq_self.mpr (fun _ _ => rfl)]
  | cons N Ns ih =>
    have e : specSigs (A ++ B) (N :: Ns) = specSigs (stepSigs (A ++ B) N) Ns := rfl
    have e' : specSigs B (N :: Ns) = specSigs (stepSigs B N) Ns := rfl
    rw [e, e', stepSigs_append, ih, List.filter_filter]
    congr 1
    apply List.filter_congr
    intro x _
    simp [Bool.and_comm]

/-- **decomposition**: the surviving old terms (in order) followed by what the fragments contribute -/
theorem specSigs_old_new (T0 : List Sig) (Ns : List (List Sig)) :
    specSigs T0 Ns = T0.filter (fun x => Ns.all (fun N => !sup (N.map (·.1)) x.1)) ++ specSigs [] Ns := by
  have := specSigs_append T0 [] Ns
  simpa using this

theorem specSigs_snoc (T0 : List Sig) (Ns : List (List Sig)) (N : List Sig) :
    specSigs T0 (Ns ++ [N]) = stepSigs (specSigs T0 Ns) N := by
  simp [specSigs, List.foldl_append]

theorem specSigs_split (T0 : List Sig) (pre post : List (List Sig)) (N : List Sig) :
    specSigs T0 (pre ++ N :: post) = specSigs (stepSigs (specSigs T0 pre) N) post := by
  simp [specSigs, List.foldl_append]

/-- every term contributed by the fragments comes from one fragment and no later fragment supersedes it -/
theorem mem_specSigs_nil (Ns : List (List Sig)) (x : Sig) :
    x ∈ specSigs [] Ns ↔
      ∃ pre N post, Ns = pre ++ N :: post ∧ x ∈ N ∧ ∀ N' ∈ post, sup (N'.map (·.1)) x.1 = false := by
  induction Ns with
  | nil => simp [specSigs]
  | cons N Ns ih =>
    have e : specSigs [] (N :: Ns) = specSigs N Ns := by
      show specSigs (stepSigs [] N) Ns = _
      simp [stepSigs]
    rw [e, specSigs_old_new, List.mem_append, List.mem_filter, ih]
    constructor
    · rintro (⟨hx, hall⟩ | ⟨pre, N0, post, rfl, hN0, hpost⟩)
      · refine ⟨[], N, Ns, rfl, hx, ?_⟩
        intro N' hN'
        have := List.all_eq_true.mp hall N' hN'
        simpa using this
      · exact ⟨N :: pre, N0, post, rfl, hN0, hpost⟩
    · rintro ⟨pre, N0, post, e2, hN0, hpost⟩
      cases pre with
      | nil =>
        have e3 : N = N0 ∧ Ns = post := by simpa using e2
        obtain ⟨rfl, rfl⟩ := e3
        refine Or.inl ⟨hN0, List.all_eq_true.mpr ?_⟩
        intro N' hN'
        simp [hpost N' hN']
      | cons P pre' =>
        have e3 : N = P ∧ Ns = pre' ++ N0 :: post := by simpa using e2
        exact Or.inr ⟨pre', N0, post, e3.2, hN0, hpost⟩

/-! ### counting the terms that sit on a given atom tuple -/

/-- the term sits on the atoms `img`, forwards or reversed -/
def onAtoms (img : List Nat) (x : Sig) : Bool := decide (x.1 = img) || decide (x.1 = img.reverse)

theorem onAtoms_iff (img : List Nat) (x : Sig) : onAtoms img x = true ↔ x.1 = img ∨ x.1 = img.reverse := by
  simp [onAtoms]

/-- one step: if the fragment has a term on `img`, only the fragment's terms on `img` remain; else nothing changes -/
theorem countP_stepSigs (img : List Nat) (T N : List Sig) :
    (stepSigs T N).countP (onAtoms img) =
      if N.any (onAtoms img) then N.countP (onAtoms img) else T.countP (onAtoms img) := by
  unfold stepSigs
  rw [List.countP_append]
  by_cases hN : N.any (onAtoms img) = true
  · simp only [hN, if_true]
    have : (T.filter (fun x => !sup (N.map (·.1)) x.1)).countP (onAtoms img) = 0 := by
      rw [List.countP_eq_zero]
      intro x hx hon
      obtain ⟨hxT, hns⟩ := List.mem_filter.mp hx
      obtain ⟨y, hy, hyon⟩ := List.any_eq_true.mp hN
      have hs : sup (N.map (·.1)) x.1 = true := by
        rw [sup_iff]
        refine ⟨y.1, List.mem_map.mpr ⟨y, hy, rfl⟩, ?_⟩
        rcases (onAtoms_iff img x).mp hon with h1 | h1 <;> rcases (onAtoms_iff img y).mp hyon with h2 | h2
        · left; rw [h1, h2]
        · right; rw [h1, h2, List.reverse_reverse]
        · right; rw [h1, h2]
        · left; rw [h1, h2]
      simp [hs] at hns
    omega
  · have hN' : N.any (onAtoms img) = false := by simpa using hN
    simp only [hN', Bool.false_eq_true, if_false]
    have h0 : N.countP (onAtoms img) = 0 := by
      rw [List.countP_eq_zero]
      intro y hy hon
      exact hN (List.any_eq_true.mpr ⟨y, hy, hon⟩)
    rw [h0, Nat.add_zero, List.countP_filter]
    apply List.countP_congr
    intro x _
    constructor
    · intro h; simp only [Bool.and_eq_true] at h; exact h.1
    · intro hon
      simp only [Bool.and_eq_true, Bool.not_eq_true']
      refine ⟨hon, ?_⟩
      cases hs : sup (N.map (·.1)) x.1 with
      | false => rfl
      | true =>
        exfalso
        obtain ⟨u, hu, hxu⟩ := (sup_iff _ _).mp hs
        obtain ⟨y, hy, rfl⟩ := List.mem_map.mp hu
        apply hN
        refine List.any_eq_true.mpr ⟨y, hy, (onAtoms_iff img y).mpr ?_⟩
        rcases (onAtoms_iff img x).mp hon with h1 | h1 <;> rcases hxu with h2 | h2
        · left; rw [← h2, h1]
        · right; rw [← List.reverse_reverse y.1, ← h2, h1]
        · right; rw [← h2, h1]
        · left; rw [← List.reverse_reverse y.1, ← h2, h1, List.reverse_reverse]

/-- fragments without a term on `img` leave the count alone -/
theorem countP_specSigs_none (img : List Nat) (T : List Sig) (Ns : List (List Sig))
    (h : ∀ N ∈ Ns, N.any (onAtoms img) = false) :
    (specSigs T Ns).countP (onAtoms img) = T.countP (onAtoms img) := by
  induction Ns generalizing T with
  | nil => rfl
  | cons N Ns ih =>
    have e : specSigs T (N :: Ns) = specSigs (stepSigs T N) Ns := rfl
    rw [e, ih _ (fun N' h' => h N' (by simp [h'])), countP_stepSigs, h N (by simp)]
    simp

/-- **exactly once**: if one fragment has exactly one term on `img` and no later fragment has one, the final list
    has exactly one term on `img` (whatever was there before is superseded) -/
theorem countP_specSigs_one (img : List Nat) (T0 : List Sig) (pre post : List (List Sig)) (N : List Sig)
    (hN : N.countP (onAtoms img) = 1) (hpost : ∀ N' ∈ post, N'.any (onAtoms img) = false) :
    (specSigs T0 (pre ++ N :: post)).countP (onAtoms img) = 1 := by
  rw [specSigs_split, countP_specSigs_none img _ post hpost, countP_stepSigs]
  have : N.any (onAtoms img) = true := by
    rw [List.any_eq_true]
    have hpos : 0 < N.countP (onAtoms img) := by omega
    obtain ⟨y, hy, hon⟩ := List.countP_pos_iff.mp hpos
    exact ⟨y, hy, hon⟩
  simp [this, hN]

/-- in a list whose members pairwise do not both satisfy `P`, a member satisfying `P` is the only one -/
theorem countP_eq_one_of_pairwise {α} (P : α → Bool) (l : List α)
    (hp : l.Pairwise (fun a b => ¬ (P a = true ∧ P b = true))) (x : α) (hx : x ∈ l) (hPx : P x = true) :
    l.countP P = 1 := by
  induction l with
  | nil => simp at hx
  | cons a l ih =>
    obtain ⟨ha, hl⟩ := List.pairwise_cons.mp hp
    by_cases hPa : P a = true
    · have : l.countP P = 0 := by
        rw [List.countP_eq_zero]
        intro b hb hPb
        exact ha b hb ⟨hPa, hPb⟩
      rw [List.countP_cons_of_pos hPa, this]
    · have hxl : x ∈ l := by
        rcases List.mem_cons.mp hx with e | e
        · subst e; exact absurd hPx hPa
        · exact e
      rw [List.countP_cons_of_neg hPa, ih hl hxl]

end Mofun.C06
