/-
  Code4Cml.lean — the two ElementPath patterns the model of `load_cml` knows, as a reading of the pattern STRING that the
  generated translation extracts from the python source (Generated/Code.lean: cmlAtomPattern, cmlBondPattern).
  `.//{*}name` = every descendant with local name `name` in ANY namespace (`selectLocal`);
  `.//name`    = every descendant named `name` in NO namespace (`selectUnqualified`, the lookup before repair f690cb1).
  Core Lean only.
-/
import MofunModel.Generated.Code
import MofunModel.Model.Cml

namespace Mofun.Code4Cml
open Mofun Mofun.Generated

/-- (any namespace?, local name) of a pattern of one of the two forms; `none` = a pattern the model does not know -/
def patternSelector (p : String) : Option (Bool × String) :=
  match p.toList with
  | '.' :: '/' :: '/' :: '{' :: '*' :: '}' :: rest => some (true, String.ofList rest)
  | '.' :: '/' :: '/' :: rest => if rest.contains '{' || rest.contains '/' then none else some (false, String.ofList rest)
  | _ => none

def selectBy (sel : Bool × String) (elems : List CmlElem) : List CmlElem :=
  if sel.1 then selectLocal sel.2 elems else selectUnqualified sel.2 elems

end Mofun.Code4Cml
