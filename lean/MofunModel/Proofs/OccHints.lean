/-
  OccHints.lean — the hint defaulting of the search (C03): `argmaxFirst`, `resolveAxis`, `resolveOpoint`.
-/
import MofunModel.Model.Find
import Mathlib.Tactic.Linarith
import Mathlib.Tactic.Ring
import Mathlib.Tactic.Positivity

namespace Mofun

/-! ### squared distances -/

theorem distSq_self (p : Vec3) : distSq p p = 0 := by
  simp [distSq, Vec3.sub, Vec3.normSq, Vec3.dot]

theorem distSq_nonneg (p q : Vec3) : 0 ≤ distSq p q := by
  unfold distSq Vec3.normSq Vec3.dot Vec3.sub
  simp only
  nlinarith [mul_self_nonneg (p.x - q.x), mul_self_nonneg (p.y - q.y), mul_self_nonneg (p.z - q.z)]

theorem distSq_comm (p q : Vec3) : distSq p q = distSq q p := by
  unfold distSq Vec3.normSq Vec3.dot Vec3.sub
  ring

theorem eq_of_distSq_eq_zero (p q : Vec3) (h : distSq p q = 0) : p = q := by
  unfold distSq Vec3.normSq Vec3.dot Vec3.sub at h
  simp only at h
  have hx : (p.x - q.x) * (p.x - q.x) = 0 := by nlinarith [mul_self_nonneg (p.x - q.x), mul_self_nonneg (p.y - q.y), mul_self_nonneg (p.z - q.z)]
  have hy : (p.y - q.y) * (p.y - q.y) = 0 := by nlinarith [mul_self_nonneg (p.x - q.x), mul_self_nonneg (p.y - q.y), mul_self_nonneg (p.z - q.z)]
  have hz : (p.z - q.z) * (p.z - q.z) = 0 := by nlinarith [mul_self_nonneg (p.x - q.x), mul_self_nonneg (p.y - q.y), mul_self_nonneg (p.z - q.z)]
  have ex : p.x = q.x := by have := mul_self_eq_zero.mp hx; linarith
  have ey : p.y = q.y := by have := mul_self_eq_zero.mp hy; linarith
  have ez : p.z = q.z := by have := mul_self_eq_zero.mp hz; linarith
  cases p; cases q; simp_all

theorem distSq_pos_of_ne (p q : Vec3) (h : p ≠ q) : 0 < distSq p q := by
  rcases lt_or_eq_of_le (distSq_nonneg p q) with h' | h'
  · exact h'
  · exact absurd (eq_of_distSq_eq_zero p q h'.symm) h

/-! ### `argmaxFirst` -/

theorem argmaxFirst_go_spec (L : List Rat) :
    ∀ (l : List Rat) (i best : Nat) (bv : Rat), L.drop i = l → best < i → best < L.length → L.getD best 0 = bv →
      (∀ j < i, L.getD j 0 ≤ bv) →
      argmaxFirst.go l i best bv < L.length ∧ ∀ j < L.length, L.getD j 0 ≤ L.getD (argmaxFirst.go l i best bv) 0 := by
  intro l
  induction l with
  | nil =>
    intro i best bv hd hb hbl hbv hmax
    have hlen : L.length ≤ i := by
      have := congrArg List.length hd
      simp at this; omega
    simp only [argmaxFirst.go]
    exact ⟨by omega, fun j hj => by rw [hbv]; exact hmax j (by omega)⟩
  | cons x xs ih =>
    intro i best bv hd hb hbl hbv hmax
    have hilt : i < L.length := by
      have := congrArg List.length hd
      simp at this; omega
    have hxi : L.getD i 0 = x := by
      have h1 : L[i]? = (L.drop i)[0]? := by simp
      rw [List.getD_eq_getElem?_getD, h1, hd]; simp
    have hd' : L.drop (i + 1) = xs := by
      have : L.drop (i + 1) = (L.drop i).drop 1 := by simp [List.drop_drop]
      rw [this, hd]; rfl
    simp only [argmaxFirst.go]
    by_cases hgt : x > bv
    · simp only [hgt, if_true]
      apply ih (i + 1) i x hd' (by omega) hilt hxi
      intro j hj
      by_cases hji : j = i
      · subst hji; rw [hxi]
      · have := hmax j (by omega); linarith
    · simp only [hgt, if_false]
      apply ih (i + 1) best bv hd' (by omega) hbl hbv
      intro j hj
      by_cases hji : j = i
      · subst hji; rw [hxi]; exact not_lt.mp hgt
      · exact hmax j (by omega)

/-- `np.argmax`: a valid position holding a maximum -/
theorem argmaxFirst_spec (l : List Rat) (h : l ≠ []) :
    argmaxFirst l < l.length ∧ ∀ j < l.length, l.getD j 0 ≤ l.getD (argmaxFirst l) 0 := by
  cases l with
  | nil => exact absurd rfl h
  | cons x xs =>
    simp only [argmaxFirst]
    apply argmaxFirst_go_spec (x :: xs) xs 1 0 x (by simp) (by omega) (by simp) (by simp)
    intro j hj
    have : j = 0 := by omega
    subst this; simp

/-! ### indexing a row-major table -/

theorem getD_flatMap_map {α β} (f : α → α → β) (m : List α) (d : β) (dα : α) :
    ∀ (l : List α) (a b : Nat), a < l.length → b < m.length →
      (l.flatMap (fun p => m.map (f p))).getD (a * m.length + b) d = f (l.getD a dα) (m.getD b dα) := by
  intro l
  induction l with
  | nil => intro a b ha; simp at ha
  | cons p ps ih =>
    intro a b ha hb
    rw [List.flatMap_cons]
    cases a with
    | zero =>
      simp only [Nat.zero_mul, Nat.zero_add, List.getD_cons_zero]
      rw [List.getD_eq_getElem?_getD, List.getElem?_append_left (by simpa using hb)]
      simp [List.getD_eq_getElem?_getD, List.getElem?_eq_getElem hb]
    | succ a =>
      have ha' : a < ps.length := by simpa using ha
      have := ih a b ha' hb
      rw [List.getD_eq_getElem?_getD] at this ⊢
      rw [List.getElem?_append_right (by simp; nlinarith)]
      simp only [List.length_map, List.getD_cons_succ]
      have e : (a + 1) * m.length + b - m.length = a * m.length + b := by
        rw [Nat.add_mul]; omega
      rw [e]; exact this

theorem length_flatMap_map {α β} (f : α → α → β) (m l : List α) :
    (l.flatMap (fun p => m.map (f p))).length = l.length * m.length := by
  induction l with
  | nil => simp
  | cons p ps ih => rw [List.flatMap_cons, List.length_append, ih]; simp [Nat.add_mul]; omega

/-! ### the axis points -/

/-- no hint: the first arg-max pair of the squared-distance table — two valid indices of two DISTINCT points at
    maximal distance -/
theorem resolveAxis_auto (pp : List Vec3) (i j : Nat) (hi : i < pp.length) (hj : j < pp.length)
    (hne : pp.getD i Vec3.zero ≠ pp.getD j Vec3.zero) :
    (resolveAxis pp none none).1 < pp.length ∧ (resolveAxis pp none none).2 < pp.length ∧
    pp.getD (resolveAxis pp none none).1 Vec3.zero ≠ pp.getD (resolveAxis pp none none).2 Vec3.zero ∧
    ∀ a b, a < pp.length → b < pp.length →
      distSq (pp.getD a Vec3.zero) (pp.getD b Vec3.zero)
        ≤ distSq (pp.getD (resolveAxis pp none none).1 Vec3.zero) (pp.getD (resolveAxis pp none none).2 Vec3.zero) := by
  have hn : 0 < pp.length := by omega
  have hn0 : pp.length ≠ 0 := by omega
  let flat := pp.flatMap (fun p => pp.map (fun r => distSq p r))
  have hlen : flat.length = pp.length * pp.length := length_flatMap_map (fun p r => distSq p r) pp pp
  have hne' : flat ≠ [] := by
    intro h
    have h0 : flat.length = 0 := by rw [h]; rfl
    have := Nat.mul_pos hn hn
    omega
  have hspec := argmaxFirst_spec flat hne'
  have hk : argmaxFirst flat < pp.length * pp.length := by rw [← hlen]; exact hspec.1
  have hr : resolveAxis pp none none = (argmaxFirst flat / pp.length, argmaxFirst flat % pp.length) := by
    simp only [resolveAxis, hn0, if_false]; rfl
  have hdiv : argmaxFirst flat / pp.length < pp.length := Nat.div_lt_of_lt_mul hk
  have hmod : argmaxFirst flat % pp.length < pp.length := Nat.mod_lt _ hn
  have hval : flat.getD (argmaxFirst flat) 0
      = distSq (pp.getD (argmaxFirst flat / pp.length) Vec3.zero) (pp.getD (argmaxFirst flat % pp.length) Vec3.zero) := by
    have := getD_flatMap_map (fun p r => distSq p r) pp (0 : Rat) Vec3.zero pp _ _ hdiv hmod
    rw [Nat.div_add_mod'] at this
    exact this
  have hmax : ∀ a b, a < pp.length → b < pp.length →
      distSq (pp.getD a Vec3.zero) (pp.getD b Vec3.zero) ≤ flat.getD (argmaxFirst flat) 0 := by
    intro a b ha hb
    have h1 := getD_flatMap_map (fun p r => distSq p r) pp (0 : Rat) Vec3.zero pp a b ha hb
    have h2 : a * pp.length + b < flat.length := by rw [hlen]; nlinarith
    have := hspec.2 _ h2
    rw [h1] at this; exact this
  rw [hr]
  refine ⟨hdiv, hmod, ?_, ?_⟩
  · intro heq
    have hpos := distSq_pos_of_ne _ _ hne
    have hle := hmax i j hi hj
    rw [hval] at hle
    simp only at heq
    rw [heq, distSq_self] at hle
    linarith
  · intro a b ha hb
    have := hmax a b ha hb
    rw [hval] at this; exact this

/-- a point of the list farthest from `pp[a]` -/
theorem farthest_spec (pp : List Vec3) (a : Nat) (_ha : a < pp.length) (i j : Nat) (hi : i < pp.length) (hj : j < pp.length)
    (hne : pp.getD i Vec3.zero ≠ pp.getD j Vec3.zero) :
    let f := argmaxFirst (pp.map (fun r => distSq (pp.getD a Vec3.zero) r))
    f < pp.length ∧ pp.getD f Vec3.zero ≠ pp.getD a Vec3.zero ∧
    ∀ k, k < pp.length → distSq (pp.getD a Vec3.zero) (pp.getD k Vec3.zero) ≤ distSq (pp.getD a Vec3.zero) (pp.getD f Vec3.zero) := by
  intro f
  let row := pp.map (fun r => distSq (pp.getD a Vec3.zero) r)
  have hlen : row.length = pp.length := by simp [row]
  have hne' : row ≠ [] := by intro h; rw [h] at hlen; simp at hlen; omega
  have hspec := argmaxFirst_spec row hne'
  have hf : f < pp.length := by rw [← hlen]; exact hspec.1
  have hget : ∀ k, k < pp.length → row.getD k 0 = distSq (pp.getD a Vec3.zero) (pp.getD k Vec3.zero) := by
    intro k hk
    simp [row, List.getD_eq_getElem?_getD, List.getElem?_eq_getElem hk]
  have hmax : ∀ k, k < pp.length →
      distSq (pp.getD a Vec3.zero) (pp.getD k Vec3.zero) ≤ distSq (pp.getD a Vec3.zero) (pp.getD f Vec3.zero) := by
    intro k hk
    have := hspec.2 k (by rw [hlen]; exact hk)
    rw [hget k hk] at this
    have e : row.getD (argmaxFirst row) 0 = distSq (pp.getD a Vec3.zero) (pp.getD f Vec3.zero) := hget f hf
    rw [e] at this; exact this
  refine ⟨hf, ?_, hmax⟩
  intro heq
  -- one of the two distinct points differs from pp[a]
  have hsome : ∃ k, k < pp.length ∧ pp.getD a Vec3.zero ≠ pp.getD k Vec3.zero := by
    by_cases h1 : pp.getD a Vec3.zero = pp.getD i Vec3.zero
    · exact ⟨j, hj, by rw [h1]; exact hne⟩
    · exact ⟨i, hi, h1⟩
  rcases hsome with ⟨k, hk, hka⟩
  have hpos := distSq_pos_of_ne _ _ hka
  have hle := hmax k hk
  rw [heq, distSq_self] at hle
  linarith

/-- one axis hint (in either slot, INCLUDING index 0): the given point is kept and the other axis point is a
    point farthest from it, hence a different point -/
theorem resolveAxis_one (pp : List Vec3) (a : Nat) (_ha : a < pp.length) (i j : Nat) (hi : i < pp.length)
    (hj : j < pp.length) (hne : pp.getD i Vec3.zero ≠ pp.getD j Vec3.zero) :
    (resolveAxis pp (some a) none).1 = a ∧ resolveAxis pp none (some a) = resolveAxis pp (some a) none ∧
    (resolveAxis pp (some a) none).2 < pp.length ∧
    pp.getD (resolveAxis pp (some a) none).2 Vec3.zero ≠ pp.getD a Vec3.zero ∧
    ∀ k, k < pp.length → distSq (pp.getD a Vec3.zero) (pp.getD k Vec3.zero)
        ≤ distSq (pp.getD a Vec3.zero) (pp.getD (resolveAxis pp (some a) none).2 Vec3.zero) := by
  have h := farthest_spec pp a _ha i j hi hj hne
  exact ⟨rfl, rfl, h.1, h.2.1, h.2.2⟩

/-- both axis hints: used as given -/
theorem resolveAxis_both (pp : List Vec3) (a b : Nat) : resolveAxis pp (some a) (some b) = (a, b) := rfl

/-! ### the orientation point -/

theorem resolveOpoint_given (pp : List Vec3) (ax1 ax2 o : Nat) : resolveOpoint pp ax1 ax2 (some o) = some o := rfl

/-- no orientation hint, more than two atoms: a valid index of a point farthest from the axis -/
theorem resolveOpoint_auto (pp : List Vec3) (ax1 ax2 : Nat) (h : pp.length > 2) :
    ∃ o, resolveOpoint pp ax1 ax2 none = some o ∧ o < pp.length ∧
      ∀ k, k < pp.length →
        offAxisSq (Vec3.sub (pp.getD ax2 Vec3.zero) (pp.getD ax1 Vec3.zero)) (Vec3.sub (pp.getD k Vec3.zero) (pp.getD ax1 Vec3.zero))
          ≤ offAxisSq (Vec3.sub (pp.getD ax2 Vec3.zero) (pp.getD ax1 Vec3.zero)) (Vec3.sub (pp.getD o Vec3.zero) (pp.getD ax1 Vec3.zero)) := by
  let u := Vec3.sub (pp.getD ax2 Vec3.zero) (pp.getD ax1 Vec3.zero)
  let row := pp.map (fun p => offAxisSq u (Vec3.sub p (pp.getD ax1 Vec3.zero)))
  have hlen : row.length = pp.length := by simp [row]
  have hne' : row ≠ [] := by intro h'; rw [h'] at hlen; simp at hlen; omega
  have hspec := argmaxFirst_spec row hne'
  have hget : ∀ k, k < pp.length → row.getD k 0 = offAxisSq u (Vec3.sub (pp.getD k Vec3.zero) (pp.getD ax1 Vec3.zero)) := by
    intro k hk
    simp [row, List.getD_eq_getElem?_getD, List.getElem?_eq_getElem hk]
  refine ⟨argmaxFirst row, ?_, by rw [← hlen]; exact hspec.1, ?_⟩
  · simp only [resolveOpoint, h, if_true]; rfl
  · intro k hk
    have := hspec.2 k (by rw [hlen]; exact hk)
    rw [hget k hk, hget _ (by rw [← hlen]; exact hspec.1)] at this
    exact this

/-- two atoms or fewer: no orientation point is used -/
theorem resolveOpoint_small (pp : List Vec3) (ax1 ax2 : Nat) (h : pp.length ≤ 2) : resolveOpoint pp ax1 ax2 none = none := by
  have : ¬ pp.length > 2 := by omega
  simp [resolveOpoint, this]

end Mofun
