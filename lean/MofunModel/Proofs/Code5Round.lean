/-
  Code5Round.lean — what the prelude primitive `Py.round` (python `round(x)` of a float, one argument) computes:
  a nearest integer, the even one on a tie; on non-negative numbers it is `Cif.roundHalfEven` (the rounding the
  printing models already use).
-/
import MofunModel.Generated.Code
import MofunModel.Model.Cif
import Mathlib.Tactic.Linarith
import Mathlib.Algebra.Order.Floor.Ring
import Mathlib.Data.Rat.Floor

namespace Mofun.Code5Round
open Mofun Mofun.Generated

theorem rat_floor_eq (x : Rat) : x.floor = ⌊x⌋ := rfl

theorem floor_le' (x : Rat) : (x.floor : Rat) ≤ x := by rw [rat_floor_eq]; exact Int.floor_le x
theorem lt_floor_add_one' (x : Rat) : x < (x.floor : Rat) + 1 := by rw [rat_floor_eq]; exact Int.lt_floor_add_one x

/-- `round(x)` is A nearest integer: `|round x − x| ≤ 1/2` -/
theorem round_nearest (x : Rat) : x - 1 / 2 ≤ (Py.round x : Rat) ∧ (Py.round x : Rat) ≤ x + 1 / 2 := by
  have h1 := floor_le' x
  have h2 := lt_floor_add_one' x
  unfold Py.round
  simp only []
  split
  · constructor <;> linarith
  · split
    · push_cast; constructor <;> linarith
    · split
      · constructor <;> linarith
      · push_cast; constructor <;> linarith

/-- on a tie (`x = n + 1/2`) the result is even -/
theorem round_tie_even (x : Rat) (h : x - (x.floor : Rat) = 1 / 2) : Py.round x % 2 = 0 := by
  unfold Py.round
  simp only [h]
  have : ¬ ((1 : Rat) / 2 < 1 / 2) := lt_irrefl _
  simp only [this, if_false]
  split
  · assumption
  · omega

/-- away from a tie it is THE nearest integer: any integer within 1/2 of `x` is `round x` -/
theorem round_unique (x : Rat) (k : Int) (h : x - (x.floor : Rat) ≠ 1 / 2) (hlo : x - 1 / 2 ≤ (k : Rat)) (hhi : (k : Rat) ≤ x + 1 / 2) :
    Py.round x = k := by
  have ⟨a, b⟩ := round_nearest x
  have h1 := floor_le' x
  have h2 := lt_floor_add_one' x
  -- both within 1/2 of x: they differ by at most 1; if they differ by exactly 1, x is a tie
  by_contra hne
  have hd : Py.round x < k ∨ k < Py.round x := by omega
  rcases hd with hd | hd
  · have : (Py.round x : Rat) + 1 ≤ (k : Rat) := by exact_mod_cast hd
    have hx : x = (Py.round x : Rat) + 1 / 2 := by linarith
    apply h
    -- floor x = round x
    have hf : x.floor = Py.round x := by
      rw [rat_floor_eq, Int.floor_eq_iff]; constructor <;> linarith
    rw [hf]; linarith
  · have : (k : Rat) + 1 ≤ (Py.round x : Rat) := by exact_mod_cast hd
    have hx : x = (k : Rat) + 1 / 2 := by linarith
    apply h
    have hf : x.floor = k := by
      rw [rat_floor_eq, Int.floor_eq_iff]; constructor <;> linarith
    rw [hf]; linarith

theorem round_nonneg (x : Rat) (h : 0 ≤ x) : 0 ≤ Py.round x := by
  have hf : 0 ≤ x.floor := by rw [rat_floor_eq]; exact Int.floor_nonneg.mpr h
  unfold Py.round
  simp only []
  split
  · exact hf
  · split
    · omega
    · split
      · exact hf
      · omega

/-- on non-negative numbers `Py.round` is the model's `roundHalfEven` (Model/Cif.lean) -/
theorem round_eq_roundHalfEven (x : Rat) (h : 0 ≤ x) : Py.round x = ((Cif.roundHalfEven x : Nat) : Int) := by
  have hf : 0 ≤ x.floor := by rw [rat_floor_eq]; exact Int.floor_nonneg.mpr h
  have hcast : ((x.floor.toNat : Nat) : Int) = x.floor := Int.toNat_of_nonneg hf
  have hcastq : ((x.floor.toNat : Nat) : Rat) = (x.floor : Rat) := by
    have : (((x.floor.toNat : Nat) : Int) : Rat) = (x.floor : Rat) := by rw [hcast]
    rw [← this]; norm_cast
  have hpar : (x.floor.toNat % 2 = 0) ↔ (x.floor % 2 = 0) := by omega
  unfold Py.round Cif.roundHalfEven
  simp only [hcastq]
  split
  · exact hcast.symm
  · split
    · push_cast; rw [hcast]
    · by_cases hp : x.floor % 2 = 0
      · simp only [hp, hpar.mpr hp, if_true]; exact hcast.symm
      · have hp' : ¬ (x.floor.toNat % 2 = 0) := fun q => hp (hpar.mp q)
        simp only [hp, hp', if_false]; push_cast; rw [hcast]

end Mofun.Code5Round
