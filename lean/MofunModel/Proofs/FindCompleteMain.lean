/-
  FindCompleteMain.lean — assembling completeness of the search on orthorhombic cells (C02):
  occurrence (distance sense) → image multipliers in {−1,0,1}³ → index into `allPositions` → passes the near
  window → position in the near list → candidate tuple (`extend_complete`) → group with key `sort g`
  (`groupBy_complete`) → reported, provided the oracle's quaternion passes the final check (`OracleAligns`).
-/
import MofunModel.Model.Occ
import MofunModel.Proofs.FindCompleteGroup
import MofunModel.Proofs.FindCompleteExtend
import MofunModel.Proofs.FindCompleteWindow

namespace Mofun

/-! ### list indexing -/

theorem getD_flatMap_map2 {α β γ} (f : β → α → γ) (m : List α) (d : γ) (dα : α) (dβ : β) :
    ∀ (l : List β) (a b : Nat), a < l.length → b < m.length →
      (l.flatMap (fun o => m.map (f o))).getD (a * m.length + b) d = f (l.getD a dβ) (m.getD b dα) := by
  intro l
  induction l with
  | nil => intro a b ha; simp at ha
  | cons p ps ih =>
    intro a b ha hb
    rw [List.flatMap_cons]
    cases a with
    | zero =>
      simp only [Nat.zero_mul, Nat.zero_add, List.getD_cons_zero]
      rw [List.getD_eq_getElem?_getD, List.getElem?_append_left (by simpa using hb)]
      simp [List.getD_eq_getElem?_getD, List.getElem?_eq_getElem hb]
    | succ a =>
      have ha' : a < ps.length := by simpa using ha
      have := ih a b ha' hb
      rw [List.getD_eq_getElem?_getD] at this ⊢
      rw [List.getElem?_append_right (by simp; nlinarith)]
      simp only [List.length_map, List.getD_cons_succ]
      have e : (a + 1) * m.length + b - m.length = a * m.length + b := by
        rw [Nat.add_mul]; omega
      rw [e]; exact this

theorem length_flatMap_map2 {α β γ} (f : β → α → γ) (m : List α) (l : List β) :
    (l.flatMap (fun o => m.map (f o))).length = l.length * m.length := by
  induction l with
  | nil => simp
  | cons p ps ih => rw [List.flatMap_cons, List.length_append, ih]; simp [Nat.add_mul]; omega

theorem getD_map_of_lt {α β} (f : α → β) (l : List α) (i : Nat) (d : β) (dα : α) (h : i < l.length) :
    (l.map f).getD i d = f (l.getD i dα) := by
  simp [List.getD_eq_getElem?_getD, List.getElem?_eq_getElem h]

theorem getD_range_map {β} (f : Nat → β) (n i : Nat) (d : β) (h : i < n) : ((List.range n).map f).getD i d = f i := by
  simp [List.getD_eq_getElem?_getD, h]

/-- in a strictly increasing list of naturals the entry at position `t` is at least `t` -/
theorem pairwise_lt_idx_le : ∀ (l : List Nat), l.Pairwise (· < ·) → ∀ t (h : t < l.length), l[0]'(by omega) + t ≤ l[t]
  | [], _, t, h => by simp at h
  | x :: xs, hp, t, h => by
    cases t with
    | zero => simp
    | succ s =>
      have hs : s < xs.length := by simpa using h
      have hp' := List.pairwise_cons.mp hp
      have ih := pairwise_lt_idx_le xs hp'.2 s hs
      have h0 : x < xs[0]'(by omega) := hp'.1 _ (List.getElem_mem _)
      simp only [List.getElem_cons_succ, List.getElem_cons_zero]
      omega

theorem filter_range_idxOf (n : Nat) (p : Nat → Bool) (v : Nat) (hv : v < n) (hp : p v = true) :
    ((List.range n).filter p).idxOf v < ((List.range n).filter p).length ∧
    ((List.range n).filter p).getD (((List.range n).filter p).idxOf v) 0 = v ∧
    ((List.range n).filter p).idxOf v ≤ v := by
  have hmem : v ∈ (List.range n).filter p := List.mem_filter.mpr ⟨List.mem_range.mpr hv, hp⟩
  have hlt := List.idxOf_lt_length_iff.mpr hmem
  have hget := List.getElem_idxOf hlt
  refine ⟨hlt, ?_, ?_⟩
  · rw [List.getD_eq_getElem?_getD, List.getElem?_eq_getElem hlt, hget]; rfl
  · have hpw : ((List.range n).filter p).Pairwise (· < ·) := List.Pairwise.filter p List.pairwise_lt_range
    have := pairwise_lt_idx_le _ hpw _ hlt
    rw [hget] at this
    omega

/-! ### the 27 images -/

theorem mem_searchMultipliers (i j k : Int) (hi : -1 ≤ i ∧ i ≤ 1) (hj : -1 ≤ j ∧ j ≤ 1) (hk : -1 ≤ k ∧ k ≤ 1) :
    (i, j, k) ∈ searchMultipliers := by
  have ei : i = -1 ∨ i = 0 ∨ i = 1 := by omega
  have ej : j = -1 ∨ j = 0 ∨ j = 1 := by omega
  have ek : k = -1 ∨ k = 0 ∨ k = 1 := by omega
  rcases ei with rfl | rfl | rfl <;> rcases ej with rfl | rfl | rfl <;> rcases ek with rfl | rfl | rfl <;> decide

theorem searchMultipliers_length : searchMultipliers.length = 27 := by decide
theorem searchMultipliers_idxOf_zero : searchMultipliers.idxOf ((0 : Int), (0 : Int), (0 : Int)) = 0 := by decide

theorem allPositions_length (cell : Mat3) (pos : List Vec3) : (allPositions cell pos).length = 27 * pos.length := by
  unfold allPositions
  rw [length_flatMap_map2 (fun off p => Vec3.add p off) pos (searchOffsets cell)]
  simp [searchOffsets, searchMultipliers_length]

/-- the entry of `allPositions` for image number `q` of atom `g` -/
theorem allPositions_getD (cell : Mat3) (pos : List Vec3) (q g : Nat) (hq : q < 27) (hg : g < pos.length) :
    (allPositions cell pos).getD (q * pos.length + g) Vec3.zero
      = Vec3.add (pos.getD g Vec3.zero)
          (cell.lattice (searchMultipliers.getD q (0, 0, 0)).1 (searchMultipliers.getD q (0, 0, 0)).2.1
            (searchMultipliers.getD q (0, 0, 0)).2.2) := by
  unfold allPositions
  have hq' : q < (searchOffsets cell).length := by simp [searchOffsets, searchMultipliers_length, hq]
  rw [getD_flatMap_map2 (fun off p => Vec3.add p off) pos Vec3.zero Vec3.zero Vec3.zero (searchOffsets cell) q g hq' hg]
  congr 1
  unfold searchOffsets
  rw [getD_map_of_lt _ _ _ _ ((0 : Int), (0 : Int), (0 : Int)) (by rw [searchMultipliers_length]; exact hq)]

/-! ### the largest squared pattern distance -/

theorem foldl_max_ge (l : List Rat) (x0 : Rat) :
    x0 ≤ l.foldl (fun m y => if y > m then y else m) x0 ∧
    ∀ x ∈ l, x ≤ l.foldl (fun m y => if y > m then y else m) x0 := by
  induction l generalizing x0 with
  | nil => simp
  | cons y ys ih =>
    simp only [List.foldl_cons]
    have h := ih (if y > x0 then y else x0)
    have hstep : x0 ≤ (if y > x0 then y else x0) ∧ y ≤ (if y > x0 then y else x0) := by
      by_cases hy : y > x0
      · simp [hy]; exact le_of_lt hy
      · simp [hy]; exact not_lt.mp hy
    refine ⟨le_trans hstep.1 h.1, ?_⟩
    intro x hx
    rcases List.mem_cons.mp hx with hx | hx
    · subst hx; exact le_trans hstep.2 h.1
    · exact h.2 x hx

theorem maxRat_ge (l : List Rat) (x : Rat) (hx : x ∈ l) : x ≤ maxRat l := by
  cases l with
  | nil => simp at hx
  | cons y ys =>
    simp only [maxRat]
    rcases List.mem_cons.mp hx with hx | hx
    · subst hx; exact (foldl_max_ge ys x).1
    · exact (foldl_max_ge ys y).2 x hx

theorem patMax_ge (inp : FindInput) (i j : Nat) (hi : i < inp.ppos.length) (hj : j < inp.ppos.length) :
    distSq (inp.ppos.getD i Vec3.zero) (inp.ppos.getD j Vec3.zero) ≤ patMax inp := by
  apply maxRat_ge
  apply List.mem_flatMap.mpr
  refine ⟨inp.ppos[i], List.getElem_mem _, ?_⟩
  apply List.mem_map.mpr
  refine ⟨inp.ppos[j], List.getElem_mem _, ?_⟩
  simp [List.getD_eq_getElem?_getD, List.getElem?_eq_getElem hi, List.getElem?_eq_getElem hj]

/-! ### guards, hypothesis on the oracle -/

/-- the explicit (decidable) guards of the orthorhombic completeness theorem: orthorhombic cell, `atol ≥ 0`,
    every atom inside the cell, search length `√m + 2·atol` not longer than any cell edge (squared form),
    `√m ≤ 10⁹·atol` (so that the relative tolerance of `math.isclose` is dominated by `atol`), non-empty pattern -/
def orthoGuards (inp : FindInput) : Bool :=
  inp.cell.isOrtho && decide (0 ≤ inp.atol) &&
  inp.pos.all (fun p => decide (0 ≤ p.x) && decide (p.x < inp.cell.a.x) && decide (0 ≤ p.y) && decide (p.y < inp.cell.b.y)
                        && decide (0 ≤ p.z) && decide (p.z < inp.cell.c.z)) &&
  decide (2 * inp.atol ≤ inp.cell.a.x) && decide (patMax inp ≤ (inp.cell.a.x - 2 * inp.atol) * (inp.cell.a.x - 2 * inp.atol)) &&
  decide (2 * inp.atol ≤ inp.cell.b.y) && decide (patMax inp ≤ (inp.cell.b.y - 2 * inp.atol) * (inp.cell.b.y - 2 * inp.atol)) &&
  decide (2 * inp.atol ≤ inp.cell.c.z) && decide (patMax inp ≤ (inp.cell.c.z - 2 * inp.atol) * (inp.cell.c.z - 2 * inp.atol)) &&
  decide (patMax inp ≤ inp.atol * inp.atol * 1000000000000000000) && decide (0 < inp.ppos.length)

structure OrthoGuards (inp : FindInput) : Prop where
  ortho : inp.cell.isOrtho = true
  atol_nonneg : 0 ≤ inp.atol
  inside : ∀ p ∈ inp.pos, 0 ≤ p.x ∧ p.x < inp.cell.a.x ∧ 0 ≤ p.y ∧ p.y < inp.cell.b.y ∧ 0 ≤ p.z ∧ p.z < inp.cell.c.z
  wx : 2 * inp.atol ≤ inp.cell.a.x ∧ patMax inp ≤ (inp.cell.a.x - 2 * inp.atol) * (inp.cell.a.x - 2 * inp.atol)
  wy : 2 * inp.atol ≤ inp.cell.b.y ∧ patMax inp ≤ (inp.cell.b.y - 2 * inp.atol) * (inp.cell.b.y - 2 * inp.atol)
  wz : 2 * inp.atol ≤ inp.cell.c.z ∧ patMax inp ≤ (inp.cell.c.z - 2 * inp.atol) * (inp.cell.c.z - 2 * inp.atol)
  rel : patMax inp ≤ inp.atol * inp.atol * 1000000000000000000
  pat : 0 < inp.ppos.length

theorem orthoGuards_spec (inp : FindInput) (h : orthoGuards inp = true) : OrthoGuards inp := by
  unfold orthoGuards at h
  simp only [Bool.and_eq_true, decide_eq_true_eq, List.all_eq_true] at h
  obtain ⟨⟨⟨⟨⟨⟨⟨⟨⟨⟨h1, h2⟩, h3⟩, h4⟩, h5⟩, h6⟩, h7⟩, h8⟩, h9⟩, h10⟩, h11⟩ := h
  exact { ortho := h1, atol_nonneg := h2,
          inside := fun p hp => by
            obtain ⟨⟨⟨⟨⟨a, b⟩, c⟩, d⟩, e⟩, f⟩ := h3 p hp
            exact ⟨a, b, c, d, e, f⟩,
          wx := ⟨h4, h5⟩, wy := ⟨h6, h7⟩, wz := ⟨h8, h9⟩, rel := h10, pat := h11 }

/-- **The numerical hypothesis (validated by the correspondence run, not proved).**  Wherever the candidate
    tuple `T` (indices into `allPositions`) sits among the groups, the quaternion supplied for it by the oracle — in
    the code: built by `quaternion_from_two_vectors(_around_axis)` with `arccos/sin/cos` in double precision —
    passes the final `np.allclose` re-check. -/
def OracleAligns (inp : FindInput) (ax1 : Nat) (oracle : Nat → Nat → Quat) (T : List Nat) : Prop :=
  ∀ (gi i : Nat) (g : Group), (findGroups inp ax1 oracle).2[gi]? = some g → g.tuples[i]? = some T →
    goodCheck inp.ppos ax1 inp.atol (if T.length > 1 then oracle gi i else Quat.identity)
      (T.map (fun k => (allPositions inp.cell inp.pos).getD k Vec3.zero)) = true

/-! ### small geometric facts -/

theorem inCube_self (x : Vec3) (m atol : Rat) (hat : 0 ≤ atol) : inCube x x m atol = true := by
  unfold inCube
  have : ∀ u : Rat, leSqrt (u - u - 2 * atol) m = true := by
    intro u; rw [leSqrt_iff]; left; linarith
  simp only [this, Bool.and_self]

theorem lattice_ortho (cell : Mat3) (h : cell.isOrtho = true) (i j k : Rat) :
    cell.lattice i j k = ⟨i * cell.a.x, j * cell.b.y, k * cell.c.z⟩ := by
  unfold Mat3.isOrtho at h
  simp only [Bool.and_eq_true, beq_iff_eq] at h
  obtain ⟨⟨⟨⟨⟨h1, h2⟩, h3⟩, h4⟩, h5⟩, h6⟩ := h
  unfold Mat3.lattice Vec3.add Vec3.smul
  simp [h1, h2, h3, h4, h5, h6]

theorem imagePos_home (inp : FindInput) (g : Nat) : imagePos inp g (0, 0, 0) = inp.pos.getD g Vec3.zero := by
  unfold imagePos Mat3.lattice Vec3.add Vec3.smul
  simp

/-- the index into `allPositions` of image `n` of atom `g` -/
def imageIndex (inp : FindInput) (g : Nat) (n : Int × Int × Int) : Nat :=
  searchMultipliers.idxOf n * inp.pos.length + g

theorem imageIndex_spec (inp : FindInput) (g : Nat) (n : Int × Int × Int) (hg : g < inp.pos.length)
    (hn : n ∈ searchMultipliers) :
    imageIndex inp g n < (allPositions inp.cell inp.pos).length ∧
    (allPositions inp.cell inp.pos).getD (imageIndex inp g n) Vec3.zero = imagePos inp g n ∧
    imageIndex inp g n % inp.pos.length = g := by
  have hq := List.idxOf_lt_length_iff.mpr hn
  have hq27 : searchMultipliers.idxOf n < 27 := by rw [← searchMultipliers_length]; exact hq
  have hget : searchMultipliers.getD (searchMultipliers.idxOf n) (0, 0, 0) = n := by
    rw [List.getD_eq_getElem?_getD, List.getElem?_eq_getElem hq, List.getElem_idxOf hq]; rfl
  refine ⟨?_, ?_, ?_⟩
  · rw [allPositions_length]; unfold imageIndex
    have : (searchMultipliers.idxOf n + 1) * inp.pos.length ≤ 27 * inp.pos.length :=
      Nat.mul_le_mul_right _ (by omega)
    rw [Nat.add_mul] at this; omega
  · unfold imageIndex
    rw [allPositions_getD inp.cell inp.pos _ g hq27 hg, hget]; rfl
  · unfold imageIndex
    rw [Nat.mul_comm, Nat.mul_add_mod]; exact Nat.mod_eq_of_lt hg

/-! ### the main theorem -/

/-- the candidate tuple (indices into `allPositions`) of an occurrence -/
def occTuple (inp : FindInput) (g : Nat → Nat) (n : Nat → Int × Int × Int) : List Nat :=
  (List.range inp.ppos.length).map (fun k => imageIndex inp (g k) (n k))

theorem iscloseSqrt_zero (atol : Rat) : iscloseSqrt 0 0 atol = true := by
  unfold iscloseSqrt sqrtDiffLeSq
  have : 0 + 0 - atol * atol ≤ 0 := by nlinarith [mul_self_nonneg atol]
  simp

/-- **near_window_complete (orthorhombic branch).**  `x` a point inside the cell (a home-cell atom), `y` the image
    `n` of atom `g`.  If the code's distance test accepts `‖y − x‖` against some pattern distance `√p ≤ √m` — so
    `‖y − x‖ ≤ √m + atol(+rel)`, within the search length `D = √m + 2·atol` — then
    (i) `n ∈ {−1,0,1}³` is one of the 27 images the search generates, (ii) `y` passes the orthorhombic box test,
    (iii) `y` lies in the cubic neighbourhood window of `x`. -/
theorem window_complete_ortho (inp : FindInput) (hG : OrthoGuards inp) (x : Vec3)
    (hx : 0 ≤ x.x ∧ x.x < inp.cell.a.x ∧ 0 ≤ x.y ∧ x.y < inp.cell.b.y ∧ 0 ≤ x.z ∧ x.z < inp.cell.c.z)
    (g : Nat) (hg : g < inp.pos.length) (n : Int × Int × Int) (p : Rat) (hp : 0 ≤ p) (hpm : p ≤ patMax inp)
    (h : iscloseSqrt p (distSq x (imagePos inp g n)) inp.atol = true) :
    n ∈ searchMultipliers ∧
    nearOrtho inp.cell (patMax inp) inp.atol (imagePos inp g n) = true ∧
    inCube x (imagePos inp g n) (patMax inp) inp.atol = true := by
  have hcube : inCube x (imagePos inp g n) (patMax inp) inp.atol = true :=
    inCube_of_isclose _ _ _ _ _ h hp hpm hG.atol_nonneg hG.rel
  refine ⟨?_, nearOrtho_of_inCube inp.cell _ _ _ _ hcube hx, hcube⟩
  have hink := hG.inside (inp.pos.getD g Vec3.zero) (getD_mem_of_lt _ _ _ hg)
  unfold inCube at hcube
  simp only [Bool.and_eq_true] at hcube
  obtain ⟨⟨⟨c1, c2⟩, ⟨c3, c4⟩⟩, ⟨c5, c6⟩⟩ := hcube
  have hy : imagePos inp g n
      = ⟨(inp.pos.getD g Vec3.zero).x + (n.1 : Rat) * inp.cell.a.x,
         (inp.pos.getD g Vec3.zero).y + (n.2.1 : Rat) * inp.cell.b.y,
         (inp.pos.getD g Vec3.zero).z + (n.2.2 : Rat) * inp.cell.c.z⟩ := by
    unfold imagePos
    rw [lattice_ortho inp.cell hG.ortho]; rfl
  rw [hy] at c1 c2 c3 c4 c5 c6
  have bx := mult_bound inp.cell.a.x x.x (inp.pos.getD g Vec3.zero).x _ inp.atol
    (patMax inp) n.1 rfl ⟨hx.1, hx.2.1⟩ ⟨hink.1, hink.2.1⟩ c1 c2 hG.wx.1 hG.wx.2
  have by' := mult_bound inp.cell.b.y x.y (inp.pos.getD g Vec3.zero).y _ inp.atol
    (patMax inp) n.2.1 rfl ⟨hx.2.2.1, hx.2.2.2.1⟩ ⟨hink.2.2.1, hink.2.2.2.1⟩ c3 c4 hG.wy.1 hG.wy.2
  have bz := mult_bound inp.cell.c.z x.z (inp.pos.getD g Vec3.zero).z _ inp.atol
    (patMax inp) n.2.2 rfl ⟨hx.2.2.2.2.1, hx.2.2.2.2.2⟩ ⟨hink.2.2.2.2.1, hink.2.2.2.2.2⟩ c5 c6 hG.wz.1 hG.wz.2
  exact mem_searchMultipliers _ _ _ bx by' bz

theorem occ_images (inp : FindInput) (hG : OrthoGuards inp) (g : Nat → Nat) (n : Nat → Int × Int × Int)
    (hocc : DistOccurrence inp g n) (k : Nat) (hk : k < inp.ppos.length) :
    inCube (imagePos inp (g 0) (n 0)) (imagePos inp (g k) (n k)) (patMax inp) inp.atol = true ∧
    n k ∈ searchMultipliers := by
  have h0 : imagePos inp (g 0) (n 0) = inp.pos.getD (g 0) Vec3.zero := by rw [hocc.home]; exact imagePos_home inp (g 0)
  have hin0 := hG.inside (inp.pos.getD (g 0) Vec3.zero) (getD_mem_of_lt _ _ _ (hocc.idx_lt 0 hG.pat))
  by_cases hk0 : k = 0
  · subst hk0
    refine ⟨inCube_self _ _ _ hG.atol_nonneg, ?_⟩
    rw [hocc.home]; decide
  · have hw := window_complete_ortho inp hG (imagePos inp (g 0) (n 0)) (by rw [h0]; exact hin0) (g k)
      (hocc.idx_lt k hk) (n k) _ (distSq_nonneg' _ _) (patMax_ge inp k 0 hk hG.pat) (hocc.dist k 0 (by omega) hk)
    exact ⟨hw.2.2, hw.1⟩

/-- what completeness of the search needs from the image expansion and the two windows: every atom of an
    occurrence is one of the 27 images, lies in the cubic window of the start atom and passes the near test -/
structure WindowComplete (inp : FindInput) : Prop where
  pat : 0 < inp.ppos.length
  win : ∀ (g : Nat → Nat) (n : Nat → Int × Int × Int), DistOccurrence inp g n → ∀ k, k < inp.ppos.length →
    n k ∈ searchMultipliers ∧
    inCube (imagePos inp (g 0) (n 0)) (imagePos inp (g k) (n k)) (patMax inp) inp.atol = true ∧
    nearTest inp.cell (patMax inp) inp.atol (imagePos inp (g k) (n k)) = true

theorem windowComplete_ortho (inp : FindInput) (hG : OrthoGuards inp) : WindowComplete inp where
  pat := hG.pat
  win := fun g n hocc k hk => by
    have him := occ_images inp hG g n hocc k hk
    refine ⟨him.2, him.1, ?_⟩
    have h0 : imagePos inp (g 0) (n 0) = inp.pos.getD (g 0) Vec3.zero := by rw [hocc.home]; exact imagePos_home inp (g 0)
    have hin0 := hG.inside (inp.pos.getD (g 0) Vec3.zero) (getD_mem_of_lt _ _ _ (hocc.idx_lt 0 hG.pat))
    have hdp : inp.cell.diagPos = true := by
      unfold Mat3.diagPos
      have h1 : 0 < inp.cell.a.x := by have := hin0.1; have := hin0.2.1; grind
      have h2 : 0 < inp.cell.b.y := by have := hin0.2.2.1; have := hin0.2.2.2.1; grind
      have h3 : 0 < inp.cell.c.z := by have := hin0.2.2.2.2.1; have := hin0.2.2.2.2.2; grind
      simp [h1, h2, h3]
    unfold nearTest
    rw [hG.ortho, hdp]
    simp only [Bool.and_self, if_true]
    have hc := him.1
    rw [h0] at hc
    exact nearOrtho_of_inCube inp.cell _ _ _ _ hc hin0

theorem occ_imagesW (inp : FindInput) (hW : WindowComplete inp) (g : Nat → Nat) (n : Nat → Int × Int × Int)
    (hocc : DistOccurrence inp g n) (k : Nat) (hk : k < inp.ppos.length) :
    inCube (imagePos inp (g 0) (n 0)) (imagePos inp (g k) (n k)) (patMax inp) inp.atol = true ∧
    n k ∈ searchMultipliers :=
  ⟨(hW.win g n hocc k hk).2.1, (hW.win g n hocc k hk).1⟩

theorem nearOf_eq (inp : FindInput) :
    nearOf inp = (List.range (allPositions inp.cell inp.pos).length).filter
      (fun i => nearTest inp.cell (patMax inp) inp.atol ((allPositions inp.cell inp.pos).getD i Vec3.zero)) := rfl

/-- position in the near list of image `n` of atom `g` -/
def nearSlot (inp : FindInput) (g : Nat) (n : Int × Int × Int) : Nat := (nearOf inp).idxOf (imageIndex inp g n)

/-- every atom of an occurrence is in the near list, at a slot that points back to its image -/
theorem occ_near (inp : FindInput) (hW : WindowComplete inp) (g : Nat → Nat) (n : Nat → Int × Int × Int)
    (hocc : DistOccurrence inp g n) (k : Nat) (hk : k < inp.ppos.length) :
    nearSlot inp (g k) (n k) < (nearOf inp).length ∧
    (nearOf inp).getD (nearSlot inp (g k) (n k)) 0 = imageIndex inp (g k) (n k) ∧
    nearSlot inp (g k) (n k) ≤ imageIndex inp (g k) (n k) := by
  have him := occ_imagesW inp hW g n hocc k hk
  have hidx := imageIndex_spec inp (g k) (n k) (hocc.idx_lt k hk) him.2
  have hnear : nearTest inp.cell (patMax inp) inp.atol
      ((allPositions inp.cell inp.pos).getD (imageIndex inp (g k) (n k)) Vec3.zero) = true := by
    rw [hidx.2.1]
    exact (hW.win g n hocc k hk).2.2
  unfold nearSlot
  rw [nearOf_eq]
  exact filter_range_idxOf _ _ _ hidx.1 hnear

/-- **Completeness of the candidate enumeration and of the grouping** (any cell whose windows are complete, no
    hypothesis on the oracle): the tuple of an occurrence is a member of a candidate group whose key is `sort g`. -/
theorem occ_in_group (inp : FindInput) (hW : WindowComplete inp) (g : Nat → Nat) (n : Nat → Int × Int × Int)
    (hocc : DistOccurrence inp g n) :
    ∃ p ∈ groupBy (tupleKey inp.pos.length) (candsAllOf inp),
      p.1 = occKey inp.ppos.length g ∧ occTuple inp g n ∈ p.2 := by
  let L := inp.ppos.length
  let tl : List Nat := (List.range L).map (fun k => nearSlot inp (g k) (n k))
  have htl : ∀ k, k < L → tl.getD k 0 = nearSlot inp (g k) (n k) := fun k hk => getD_range_map _ _ _ _ hk
  have hlen : tl.length = L := by simp [tl]
  have hnear := occ_near inp hW g n hocc
  have hNlen : (nearPosOf inp).length = (nearOf inp).length := by simp [nearPosOf]
  have hElen : (nearElemOf inp).length = (nearOf inp).length := by simp [nearElemOf]
  -- what the near list holds at the slots of the tuple
  have hNP : ∀ k, k < L → (nearPosOf inp).getD (tl.getD k 0) Vec3.zero = imagePos inp (g k) (n k) := by
    intro k hk
    have hn := hnear k hk
    have him := occ_imagesW inp hW g n hocc k hk
    have hidx := imageIndex_spec inp (g k) (n k) (hocc.idx_lt k hk) him.2
    rw [htl k hk]
    unfold nearPosOf
    rw [getD_map_of_lt _ _ _ _ 0 hn.1, hn.2.1, hidx.2.1]
  have hNE : ∀ k, k < L → (nearElemOf inp).getD (tl.getD k 0) "" = inp.pelems.getD k "" := by
    intro k hk
    have hn := hnear k hk
    have him := occ_imagesW inp hW g n hocc k hk
    have hidx := imageIndex_spec inp (g k) (n k) (hocc.idx_lt k hk) him.2
    rw [htl k hk]
    unfold nearElemOf
    rw [getD_map_of_lt _ _ _ _ 0 hn.1, hn.2.1, hidx.2.2]
    exact hocc.elem k hk
  have h0 : imageIndex inp (g 0) (n 0) = g 0 := by
    unfold imageIndex; rw [hocc.home, searchMultipliers_idxOf_zero]; simp
  have hcand : tl ∈ candsOf inp := by
    unfold candsOf
    apply candidates_complete inp.ppos inp.pelems inp.atol (patMax inp) inp.pos.length (nearPosOf inp) (nearElemOf inp)
      (nearUcOf inp) tl hW.pat hlen
    · rw [htl 0 hW.pat]
      have hn := hnear 0 hW.pat
      have := hocc.idx_lt 0 hW.pat
      rw [h0] at hn
      rw [hElen]
      exact Nat.lt_min.mpr ⟨by omega, hn.1⟩
    · exact hNE 0 hW.pat
    · intro i _ hi
      rw [hlen] at hi
      rw [htl i hi, hNlen]; exact (hnear i hi).1
    · intro i _ hi
      rw [hlen] at hi
      rw [hNP 0 hW.pat, hNP i hi]
      exact (occ_imagesW inp hW g n hocc i hi).1
    · intro i _ hi
      rw [hlen] at hi
      exact hNE i hi
    · intro i j hji hi
      rw [hlen] at hi
      rw [hNP j (by omega), hNP i hi]
      exact hocc.dist i j hji hi
    · -- different unit-cell atoms: `g` is injective on the pattern positions
      intro i j hji hi
      rw [hlen] at hi
      have hUC : ∀ k, k < L → (nearUcOf inp).getD (tl.getD k 0) 0 = g k := by
        intro k hk
        have hn := hnear k hk
        have him := occ_imagesW inp hW g n hocc k hk
        have hidx := imageIndex_spec inp (g k) (n k) (hocc.idx_lt k hk) him.2
        rw [htl k hk]
        unfold nearUcOf
        rw [getD_map_of_lt _ _ _ _ 0 hn.1, hn.2.1, hidx.2.2]
      rw [hUC j (by omega), hUC i hi]
      exact hocc.inj i j hji hi
  -- the tuple in `allPositions` indices
  have hTT : tl.map (fun k => (nearOf inp).getD k 0) = occTuple inp g n := by
    unfold occTuple
    simp only [tl, List.map_map]
    apply List.map_congr_left
    intro k hk
    exact (hnear k (List.mem_range.mp hk)).2.1
  have hmem : occTuple inp g n ∈ candsAllOf inp := by
    rw [← hTT]; unfold candsAllOf
    exact List.mem_map_of_mem hcand
  have hkey : tupleKey inp.pos.length (occTuple inp g n) = occKey inp.ppos.length g := by
    unfold tupleKey occKey occTuple
    rw [List.map_map]
    congr 1
    apply List.map_congr_left
    intro k hk
    have hk' := List.mem_range.mp hk
    have him := occ_imagesW inp hW g n hocc k hk'
    exact (imageIndex_spec inp (g k) (n k) (hocc.idx_lt k hk') him.2).2.2
  rcases groupBy_complete (tupleKey inp.pos.length) (candsAllOf inp) _ hmem with ⟨p, hp, hpk, hpm⟩
  exact ⟨p, hp, by rw [hpk, hkey], hpm⟩

/-- **find_complete (partial: under `OracleAligns`).** -/
theorem find_complete_of_aligned (inp : FindInput) (ax1 : Nat) (oracle : Nat → Nat → Quat)
    (choose : Nat → List Nat → Nat) (hW : WindowComplete inp) (g : Nat → Nat) (n : Nat → Int × Int × Int)
    (hocc : DistOccurrence inp g n) (hor : OracleAligns inp ax1 oracle (occTuple inp g n)) :
    occKey inp.ppos.length g ∈ (find inp ax1 oracle choose).map Match.key := by
  rcases occ_in_group inp hW g n hocc with ⟨p, hp, hpk, hpm⟩
  rcases List.getElem_of_mem hp with ⟨gi, hgi, hgp⟩
  rcases List.getElem_of_mem hpm with ⟨i, hi, hiT⟩
  have hgroup : (findGroups inp ax1 oracle).2[gi]? = some (mkGroup inp ax1 oracle (p, gi)) := by
    rw [findGroups_eq]
    simp only [List.getElem?_map, List.getElem?_zipIdx, List.getElem?_eq_getElem hgi, hgp, Option.map_some, Nat.zero_add]
  have htup : (mkGroup inp ax1 oracle (p, gi)).tuples[i]? = some (occTuple inp g n) := by
    simp only [mkGroup, List.getElem?_eq_getElem hi, hiT]
  have hgood := hor gi i _ hgroup htup
  have higood : i ∈ (mkGroup inp ax1 oracle (p, gi)).good := by
    simp only [mkGroup, goodOf]
    apply List.mem_filter.mpr
    refine ⟨List.mem_range.mpr hi, ?_⟩
    have : p.2.getD i [] = occTuple inp g n := by
      rw [List.getD_eq_getElem?_getD, List.getElem?_eq_getElem hi, hiT]; rfl
    simp only [this]
    exact hgood
  rw [find_keys_eq]
  apply List.mem_filterMap.mpr
  refine ⟨mkGroup inp ax1 oracle (p, gi), List.mem_of_getElem? hgroup, ?_⟩
  have hne : (mkGroup inp ax1 oracle (p, gi)).good.isEmpty = false := by
    cases hgd : (mkGroup inp ax1 oracle (p, gi)).good with
    | nil => rw [hgd] at higood; simp at higood
    | cons a as => rfl
  simp only [hne, Bool.false_eq_true, if_false]
  show some p.1 = some (occKey inp.ppos.length g)
  rw [hpk]

end Mofun
