/-
  OccTurn.lean — `Occ` does not depend on the Cartesian frame (C03, relation `rotate-crystal` of the harness):
  turning the WHOLE crystal (cell vectors and atoms) by an orthogonal matrix of determinant one leaves the occurrence
  set unchanged.
-/
import MofunModel.Proofs.OccPattern
import MofunModel.Proofs.OccRigid

namespace Mofun

/-- the crystal turned by `M`: every atom and every cell vector is mapped by `v ↦ M v` -/
def FindInput.turn (inp : FindInput) (M : Mat3) : FindInput :=
  { inp with pos := inp.pos.map (fun p => M.mulVec p),
             cell := ⟨M.mulVec inp.cell.a, M.mulVec inp.cell.b, M.mulVec inp.cell.c⟩ }

theorem imagePos_turn (inp : FindInput) (M : Mat3) (g : Nat) (n : Int × Int × Int) (hg : g < inp.pos.length) :
    imagePos (inp.turn M) g n = M.mulVec (imagePos inp g n) := by
  unfold imagePos FindInput.turn
  simp only
  have : (inp.pos.map (fun p => M.mulVec p)).getD g Vec3.zero = M.mulVec (inp.pos.getD g Vec3.zero) := by
    simp [List.getD_eq_getElem?_getD, List.getElem?_eq_getElem hg]
  rw [this]
  simp only [Mat3.lattice, Mat3.mulVec, Vec3.add, Vec3.smul, Vec3.dot, Vec3.mk.injEq]
  refine ⟨by ring, by ring, by ring⟩

theorem rigid_turn (inp : FindInput) (M : Mat3) (hM : M.IsProperRotation) (epsSq : Rat)
    (g : Nat → Nat) (n : Nat → Int × Int × Int) (h : RigidOccurrence inp epsSq g n) :
    RigidOccurrence (inp.turn M) epsSq g n := by
  rcases h.fit with ⟨R, t, hR, hfit⟩
  refine
    { idx_lt := fun k hk => by
        have := h.idx_lt k hk
        simpa [FindInput.turn] using this
      home := h.home
      elem := h.elem
      fit := ⟨M.mulMat R, M.mulVec t, mulMat_proper M R hM hR, fun k hk => ?_⟩ }
  have hk' : k < inp.ppos.length := hk
  rw [imagePos_turn inp M (g k) (n k) (h.idx_lt k hk')]
  have e : Vec3.add ((M.mulMat R).mulVec ((inp.turn M).ppos.getD k Vec3.zero)) (M.mulVec t)
      = M.mulVec (Vec3.add (R.mulVec (inp.ppos.getD k Vec3.zero)) t) := by
    rw [mulMat_mulVec]
    show Vec3.add (M.mulVec (R.mulVec (inp.ppos.getD k Vec3.zero))) (M.mulVec t) = _
    simp only [Mat3.mulVec, Vec3.add, Vec3.dot, Vec3.mk.injEq]
    refine ⟨by ring, by ring, by ring⟩
  rw [e, rot_isometry M hM]
  exact hfit k hk'

theorem turn_back (inp : FindInput) (M : Mat3) (hM : M.IsProperRotation) : (inp.turn M).turn M.transpose = inp := by
  obtain ⟨a1, a2, a3, a4, a5, a6, _⟩ := hM
  have hv : ∀ p : Vec3, M.transpose.mulVec (M.mulVec p) = p := by
    intro p
    cases p with
    | mk px py pz =>
      simp only [Mat3.transpose, Mat3.mulVec, Vec3.dot, Vec3.mk.injEq]
      refine ⟨?_, ?_, ?_⟩
      · linear_combination px * a1 + py * a4 + pz * a5
      · linear_combination px * a4 + py * a2 + pz * a6
      · linear_combination px * a5 + py * a6 + pz * a3
  unfold FindInput.turn
  simp only [List.map_map]
  have hf : ((fun p => M.transpose.mulVec p) ∘ fun p => M.mulVec p) = id := by
    funext p; simp [Function.comp, hv]
  rw [hf, List.map_id, hv, hv, hv]

/-- **occ_turn.** Turning the whole crystal (cell and atoms) by `M` (`MᵀM = 1`, `MMᵀ = 1`, `det M = 1`) leaves the
    occurrence set unchanged. -/
theorem occ_turn_iff (inp : FindInput) (M : Mat3) (hM : M.IsProperRotation) (hMT : M.transpose.IsProperRotation)
    (epsSq : Rat) (key : List Nat) : Occ (inp.turn M) epsSq key ↔ Occ inp epsSq key := by
  constructor
  · rintro ⟨g, n, h, hk⟩
    have := rigid_turn (inp.turn M) M.transpose hMT epsSq g n h
    rw [turn_back inp M hM] at this
    exact ⟨g, n, this, hk⟩
  · rintro ⟨g, n, h, hk⟩
    exact ⟨g, n, rigid_turn inp M hM epsSq g n h, hk⟩

end Mofun
