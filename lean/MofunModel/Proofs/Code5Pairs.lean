/-
  Code5Pairs.lean — loops of the generated code as list functions: a loop with `break` that updates the state once is `find?`,
  a fold that appends at most one item per iteration is `filterMap`, `enumerate` is `range` with `getElem?`.
  (For the equivalence theorem of `find_unchanged_atom_pairs`, Props/C08Code5.lean.)  Core Lean only.
-/
import MofunModel.Generated.Code

namespace Mofun.Code5Pairs
open Mofun Mofun.Generated

/-- a loop whose body either updates the state and breaks (when `c x`) or does nothing: the update at the FIRST `x` with `c x` -/
theorem forBreakM_first {α σ} (xs : List α) (st : σ) (c : α → Bool) (upd : σ → α → σ) (f : σ → α → Option (σ × Bool))
    (hf : ∀ st x, x ∈ xs → f st x = some (if c x then (upd st x, true) else (st, false))) :
    Py.forBreakM? xs st f = some (match xs.find? c with | some x => upd st x | none => st) := by
  induction xs with
  | nil => rfl
  | cons x t ih =>
    have hx := hf st x (by simp)
    unfold Py.forBreakM?
    by_cases hc : c x = true
    · simp [hx, hc]
    · have hc' : c x = false := by simpa using hc
      simp only [hx, hc', Bool.false_eq_true, if_false, List.find?_cons]
      exact ih (fun st y hy => hf st y (by simp [hy]))

/-- a fold that appends `y` when `h x = some y` and nothing otherwise: `filterMap` -/
theorem forFoldM_filterMap {α β} (xs : List α) (acc : List β) (h : α → Option β) (g : List β → α → Option (List β))
    (hg : ∀ acc x, x ∈ xs → g acc x = some (match h x with | some y => acc ++ [y] | none => acc)) :
    Py.forFoldM? xs acc g = some (acc ++ xs.filterMap h) := by
  induction xs generalizing acc with
  | nil => simp [Py.forFoldM?]
  | cons x t ih =>
    unfold Py.forFoldM?
    rw [hg acc x (by simp)]
    simp only []
    rw [ih _ (fun acc y hy => hg acc y (by simp [hy]))]
    cases hx : h x <;> simp [hx]

theorem filterMap_congr' {α β} (l : List α) (f g : α → Option β) (h : ∀ x ∈ l, f x = g x) : l.filterMap f = l.filterMap g := by
  induction l with
  | nil => rfl
  | cons x t ih =>
    simp only [List.filterMap_cons, h x (by simp), ih (fun y hy => h y (by simp [hy]))]

theorem find_congr' {α} (l : List α) (f g : α → Bool) (h : ∀ x ∈ l, f x = g x) : l.find? f = l.find? g := by
  induction l with
  | nil => rfl
  | cons x t ih =>
    simp only [List.find?_cons, h x (by simp), ih (fun y hy => h y (by simp [hy]))]

theorem mem_enumerateFrom {α} (xs : List α) (off j : Nat) (q : α) (h : (j, q) ∈ Py.enumerateFrom off xs) :
    off ≤ j ∧ xs[j - off]? = some q := by
  induction xs generalizing off with
  | nil => simp [Py.enumerateFrom] at h
  | cons x t ih =>
    simp only [Py.enumerateFrom, List.mem_cons, Prod.mk.injEq] at h
    rcases h with ⟨rfl, rfl⟩ | h
    · simp
    · obtain ⟨h1, h2⟩ := ih (off + 1) h
      refine ⟨by omega, ?_⟩
      have : j - off = (j - (off + 1)) + 1 := by omega
      rw [this, List.getElem?_cons_succ]; exact h2

/-- `filterMap` over `enumerate` is `filterMap` over the index range -/
theorem filterMap_enumerateFrom {α β} (xs : List α) (off : Nat) (F : Nat → α → Option β) :
    (Py.enumerateFrom off xs).filterMap (fun p => F p.1 p.2) =
      (List.range' off xs.length).filterMap (fun i => match xs[i - off]? with | none => none | some x => F i x) := by
  induction xs generalizing off with
  | nil => rfl
  | cons x t ih =>
    simp only [Py.enumerateFrom, List.length_cons, List.range'_succ, List.filterMap_cons, Nat.sub_self, List.getElem?_cons_zero, ih]
    have : (List.range' (off + 1) t.length).filterMap (fun i => match (x :: t)[i - off]? with | none => none | some x => F i x) =
        (List.range' (off + 1) t.length).filterMap (fun i => match t[i - (off + 1)]? with | none => none | some x => F i x) := by
      apply filterMap_congr'
      intro i hi
      have := (List.mem_range'_1.mp hi).1
      have e : i - off = (i - (off + 1)) + 1 := by omega
      rw [e, List.getElem?_cons_succ]
    rw [this]

/-- the index of the first hit of `find?` over `enumerate` is `find?` over the index range -/
theorem find_enumerateFrom {α} (xs : List α) (off : Nat) (c : Nat → α → Bool) :
    ((Py.enumerateFrom off xs).find? (fun p => c p.1 p.2)).map (·.1) =
      (List.range' off xs.length).find? (fun i => match xs[i - off]? with | none => false | some x => c i x) := by
  induction xs generalizing off with
  | nil => rfl
  | cons x t ih =>
    simp only [Py.enumerateFrom, List.length_cons, List.range'_succ, List.find?_cons, Nat.sub_self, List.getElem?_cons_zero]
    by_cases hc : c off x = true
    · simp [hc]
    · have hc' : c off x = false := by simpa using hc
      simp only [hc', ih]
      apply find_congr'
      intro i hi
      have := (List.mem_range'_1.mp hi).1
      have e : i - off = (i - (off + 1)) + 1 := by omega
      rw [e, List.getElem?_cons_succ]

end Mofun.Code5Pairs
